(** C11 — the property as a reference: the documented precedence table and a textbook precedence-climbing
    parser over the same tokens.  Nothing here looks at gen/Prec.v or at the operator stack of the implementation.

    Documented table (property text; comments of TokenKind::precedence), tightest first:
      member access  >  **  >  prefix + - ~  >  * / // %  >  + -  >  << >>  >  &&  >  ^^  >  ||
      >  ranges .. ..< <.. <..<  >  comparisons < > <= >= == != in notin contains is! isnot!  >  and  >  or
    Binary operators group to the left.  A `-` directly before a numeric literal is part of the literal
    (that is decided by the lexer: the token is then a literal, see [spec_fix] / Model.lex). *)
From Coq Require Import ZArith List Bool Arith.
From ErgV Require Import Common.Sx ExprParse.Model.
Import ListNotations.

(** level of a binary operator in the documented table (larger binds tighter) *)
Definition lvl (o : binop) : nat :=
  match o with
  | Pow => 12
  | Star | Slash | FloorDiv | Mod => 10
  | Plus | Minus => 9
  | Shl | Shr => 8
  | BitAnd => 7
  | BitXor => 6
  | BitOr => 5
  | Closed | RightOpen | LeftOpen | Open => 4
  | Less | Gre | LessEq | GreEq | DblEq | NotEq | InOp | NotInOp | ContainsOp | IsOp | IsNotOp => 3
  | AndOp => 2
  | OrOp => 1
  end.
(** level of the prefix operators + - ~ ; member access (level 13) is the postfix loop below *)
Definition pre_lvl : nat := 11.

(** Grammar (tokens of Model.tok):
      expr(min)  ::= operand { binop[lvl >= min] expr(lvl+1) }          -- the loop makes binary operators left-associative
      operand    ::= prefix expr(pre_lvl+1)  |  primary { postfix }
      primary    ::= identifier | literal | '(' expr(0) ')'
      postfix    ::= '.' name [ '(' [ expr(0) { ',' expr(0) } ] ')' ]     -- no white space before '.' and before that '('
    [None]: the tokens are not an expression of this grammar (or the fuel, 2*length+2, was too small). *)
Fixpoint c_expr (f : nat) (min : nat) (ts : list tok) {struct f} : option (expr * list tok) :=
  match f with
  | O => None
  | S f =>
    match c_operand f ts with
    | Some (l, r) => c_loop f min l r
    | None => None
    end
  end
with c_loop (f : nat) (min : nat) (l : expr) (ts : list tok) {struct f} : option (expr * list tok) :=
  match f with
  | O => None
  | S f =>
    match ts with
    | TBin o :: r =>
      if (min <=? lvl o)%nat then
        match c_expr f (S (lvl o)) r with
        | Some (rhs, r') => c_loop f min (EBin o l rhs) r'
        | None => None
        end
      else Some (l, ts)
    | _ => Some (l, ts)
    end
  end
with c_operand (f : nat) (ts : list tok) {struct f} : option (expr * list tok) :=
  match f with
  | O => None
  | S f =>
    match ts with
    | TPre p :: r =>
      match c_expr f (S pre_lvl) r with
      | Some (e, r') => Some (EUn p e, r')
      | None => None
      end
    | TSym n :: r => c_postfix f (EId n) r
    | TLit k s :: r => c_postfix f (ELit k s) r
    | TLP _ :: r =>
      match c_expr f 0 r with
      | Some (e, TRP :: r') => c_postfix f e r'
      | _ => None
      end
    | _ => None
    end
  end
with c_postfix (f : nat) (obj : expr) (ts : list tok) {struct f} : option (expr * list tok) :=
  match f with
  | O => None
  | S f =>
    match ts with
    | TDot true :: TSym m :: TLP true :: r =>
      match c_args f r with
      | Some (args, r') => c_postfix f (ECall obj (Some m) args) r'
      | None => None
      end
    | TDot true :: TSym m :: r => c_postfix f (EAttr obj m) r
    | TDot _ :: _ => None
    | _ => Some (obj, ts)
    end
  end
with c_args (f : nat) (ts : list tok) {struct f} : option (list expr * list tok) :=
  (* after '(' : the arguments and what follows the closing ')' *)
  match f with
  | O => None
  | S f =>
    match ts with
    | TRP :: r => Some ([], r)
    | _ =>
      match c_expr f 0 ts with
      | Some (a, r) => c_args_tl f [a] r
      | None => None
      end
    end
  end
with c_args_tl (f : nat) (acc : list expr) (ts : list tok) {struct f} : option (list expr * list tok) :=
  match f with
  | O => None
  | S f =>
    match ts with
    | TRP :: r => Some (acc, r)
    | TComma :: r =>
      match c_expr f 0 r with
      | Some (a, r') => c_args_tl f (acc ++ [a]) r'
      | None => None
      end
    | _ => None
    end
  end.

Definition climb_fuel (ts : list tok) : nat := 2 * length ts + 2.

(** the reference tree of a complete token list *)
Definition climb (ts : list tok) : option expr :=
  match c_expr (climb_fuel ts) 0 ts with
  | Some (e, []) => Some e
  | _ => None
  end.

(** well-formed = an operator expression of the documented grammar *)
Definition wf (ts : list tok) : Prop := exists e, climb ts = Some e.
(** the reference answer in the result type of the model parser *)
Definition as_res (o : option expr) : res expr := match o with Some e => Ok e | None => Err end.

(** prefix or infix?  The documented lexical rule for the spellings plus and minus (and star, double star): at the start, after an
    operator, after '(' or ',' they are prefix; after an operand or ')' they are prefix exactly when white space
    precedes and no white space follows (`x -1`), otherwise infix (`x - 1`, `x-1`, `x- 1`). *)
Definition spec_fix (after_operand : bool) (sp_before sp_after : bool) : opfix :=
  if after_operand then (if sp_before && negb sp_after then Prefix else Infix) else Prefix.

(* ------------------------------------------------------------------ executable judge *)
Fixpoint sx_eqb (a b : sx) {struct a} : bool :=
  match a, b with
  | SZ x, SZ y => Z.eqb x y
  | SL l, SL m =>
    (fix go (l m : list sx) {struct l} : bool :=
       match l, m with
       | [], [] => true
       | x :: l', y :: m' => sx_eqb x y && go l' m'
       | _, _ => false
       end) l m
  | _, _ => false
  end.

Definition binop_code (o : binop) : Z :=
  match o with
  | Pow => 0 | Star => 1 | Slash => 2 | FloorDiv => 3 | Mod => 4 | Plus => 5 | Minus => 6 | Shl => 7 | Shr => 8
  | BitAnd => 9 | BitXor => 10 | BitOr => 11 | Closed => 12 | RightOpen => 13 | LeftOpen => 14 | Open => 15
  | Less => 16 | Gre => 17 | LessEq => 18 | GreEq => 19 | DblEq => 20 | NotEq => 21 | InOp => 22 | NotInOp => 23
  | ContainsOp => 24 | IsOp => 25 | IsNotOp => 26 | AndOp => 27 | OrOp => 28
  end%Z.
Definition preop_code (p : preop) : Z := match p with PrePlus => 0 | PreMinus => 1 | PreBitNot => 2 end%Z.
Definition litkind_code (k : litkind) : Z := match k with NatLit => 0 | IntLit => 1 | RatioLit => 2 end%Z.

(** wire form of a tree: (0 n) | (1 kind text) | (2 op l r) | (3 op e) | (4 obj name) | (5 obj name-or-(-1) (args)) *)
Fixpoint enc_expr (e : expr) : sx :=
  match e with
  | EId n => SL [SZ 0; SZ n]
  | ELit k s => SL [SZ 1; SZ (litkind_code k); sx_of_zs s]
  | EBin o l r => SL [SZ 2; SZ (binop_code o); enc_expr l; enc_expr r]
  | EUn p e => SL [SZ 3; SZ (preop_code p); enc_expr e]
  | EAttr o n => SL [SZ 4; enc_expr o; SZ n]
  | ECall o n args => SL [SZ 5; enc_expr o; SZ (match n with Some m => m | None => -1 end); SL (map enc_expr args)]
  end.

(** The judge: the tree the implementation produced for a well-formed token list must be the reference tree.
    [impl] = None: the implementation reported an error / crashed.  Token lists outside the grammar are not judged. *)
Definition judge (ts : list tok) (impl : option sx) : bool :=
  match climb ts with
  | None => true
  | Some e => match impl with Some t => sx_eqb (enc_expr e) t | None => false end
  end.
