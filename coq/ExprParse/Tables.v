(** C11 — finite facts, by computation, about the tables generated from token.rs (gen/Prec.v) and about the
    lexical prefix/infix rule (Lexer::op_fix) and the negative-literal rule. *)
From Coq Require Import ZArith NArith List Bool Arith Lia.
From ErgV Require Import gen.Prec Common.Sx ExprParse.Model ExprParse.Spec.
Import ListNotations.
Local Open Scope nat_scope.

(* ------------------------------------------------------------------ finite facts about the tables *)
Lemma all_binops_complete : forall o, In o all_binops.
Proof. destruct o; simpl; tauto. Qed.
Lemma all_preops_complete : forall p, In p all_preops.
Proof. destruct p; simpl; tauto. Qed.

Definition ge_tbl : bool :=
  forallb (fun a => forallb (fun b => Bool.eqb (opt_ge (prec_b a) (prec_b b)) (lvl b <=? lvl a)) all_binops) all_binops.
Definition gt_tbl : bool :=
  forallb (fun p => forallb (fun o => Bool.eqb (opt_gt (prec_b o) (prec_p p)) (pre_lvl <? lvl o)
                                      && Bool.eqb (opt_gt (prec_p p) (prec_b o)) (lvl o <? pre_lvl)) all_binops) all_preops.
Definition bin_tbl : bool :=
  forallb (fun o => is_binop_cat o && match prec_b o with Some _ => true | None => false end
                    && negb (existsb (N.eqb (binop_kind o)) right_assoc)) all_binops.
Definition un_tbl : bool :=
  forallb (fun p => is_unary_cat p && match prec_p p with Some _ => true | None => false end) all_preops.
Definition dot_tbl : bool :=
  forallb (fun o => opt_gt (precedence kind_Dot) (prec_b o)) all_binops
  && forallb (fun p => opt_gt (precedence kind_Dot) (prec_p p)) all_preops.

Lemma ge_tbl_true : ge_tbl = true. Proof. vm_compute. reflexivity. Qed.
Lemma gt_tbl_true : gt_tbl = true. Proof. vm_compute. reflexivity. Qed.
Lemma bin_tbl_true : bin_tbl = true. Proof. vm_compute. reflexivity. Qed.
Lemma un_tbl_true : un_tbl = true. Proof. vm_compute. reflexivity. Qed.
Lemma dot_tbl_true : dot_tbl = true. Proof. vm_compute. reflexivity. Qed.

Lemma ge_ok : forall a b, opt_ge (prec_b a) (prec_b b) = (lvl b <=? lvl a).
Proof.
  intros a b. pose proof ge_tbl_true as H. unfold ge_tbl in H.
  rewrite forallb_forall in H. specialize (H a (all_binops_complete a)).
  rewrite forallb_forall in H. specialize (H b (all_binops_complete b)).
  apply eqb_prop in H. exact H.
Qed.

Lemma gt_ok : forall p o, opt_gt (prec_b o) (prec_p p) = (pre_lvl <? lvl o).
Proof.
  intros p o. pose proof gt_tbl_true as H. unfold gt_tbl in H.
  rewrite forallb_forall in H. specialize (H p (all_preops_complete p)).
  rewrite forallb_forall in H. specialize (H o (all_binops_complete o)).
  apply andb_prop in H. destruct H as [H _]. apply eqb_prop in H. exact H.
Qed.

Lemma lt_ok : forall p o, opt_gt (prec_p p) (prec_b o) = (lvl o <? pre_lvl).
Proof.
  intros p o. pose proof gt_tbl_true as H. unfold gt_tbl in H.
  rewrite forallb_forall in H. specialize (H p (all_preops_complete p)).
  rewrite forallb_forall in H. specialize (H o (all_binops_complete o)).
  apply andb_prop in H. destruct H as [_ H]. apply eqb_prop in H. exact H.
Qed.

Lemma bin_ok : forall o, is_binop_cat o = true /\ (exists n, prec_b o = Some n)
                         /\ existsb (N.eqb (binop_kind o)) right_assoc = false.
Proof.
  intros o. pose proof bin_tbl_true as H. unfold bin_tbl in H.
  rewrite forallb_forall in H. specialize (H o (all_binops_complete o)).
  apply andb_prop in H. destruct H as [H H3]. apply andb_prop in H. destruct H as [H1 H2].
  split; [exact H1|]. split.
  - destruct (prec_b o); [eauto|discriminate].
  - apply negb_true_iff in H3. exact H3.
Qed.

Lemma binop_cat_ok : forall o, is_binop_cat o = true.
Proof. intros o. apply bin_ok. Qed.

Lemma un_ok : forall p, is_unary_cat p = true /\ exists n, prec_p p = Some n.
Proof.
  intros p. pose proof un_tbl_true as H. unfold un_tbl in H.
  rewrite forallb_forall in H. specialize (H p (all_preops_complete p)).
  apply andb_prop in H. destruct H as [H1 H2]. split; [exact H1|].
  destruct (prec_p p); [eauto|discriminate].
Qed.

Lemma unary_cat_ok : forall p, is_unary_cat p = true.
Proof. intros p. apply un_ok. Qed.
Lemma prec_p_some : forall p, exists n, prec_p p = Some n.
Proof. intros p. apply un_ok. Qed.

Lemma dot_ok : (forall o, opt_gt (precedence kind_Dot) (prec_b o) = true)
               /\ (forall p, opt_gt (precedence kind_Dot) (prec_p p) = true).
Proof.
  pose proof dot_tbl_true as H. unfold dot_tbl in H. apply andb_prop in H. destruct H as [H1 H2].
  rewrite forallb_forall in H1, H2. split; intros x; [apply H1, all_binops_complete | apply H2, all_preops_complete].
Qed.

(** the guard of the BinOp arm, in terms of documented levels *)
Lemma min_ok_pre : forall p o, min_ok (prec_p p) o = (S pre_lvl <=? lvl o).
Proof.
  intros p o. destruct (prec_p_some p) as [n Hn]. unfold min_ok. rewrite Hn, <- Hn. rewrite gt_ok.
  unfold Nat.ltb. reflexivity.
Qed.

(* ------------------------------------------------------------------ lexical rules *)
Definition operand_cats : list N := [cat_REnclosure; cat_Literal; cat_StrInterpRight; cat_Symbol].
Definition operator_cats : list N :=
  [cat_LEnclosure; cat_BinOp; cat_UnaryOp; cat_Separator; cat_SpecialBinOp; cat_DefOp; cat_LambdaOp;
   cat_StrInterpLeft; cat_StrInterpMid; cat_BOF].

Lemma op_fix_spec : forall c sp_before sp_after,
  (In c operand_cats -> op_fix c sp_before (Some sp_after) = Some (spec_fix true sp_before sp_after)) /\
  (In c operator_cats -> forall a, op_fix c sp_before a = Some (spec_fix false sp_before sp_after)).
Proof.
  intros c b a. split; intros H.
  - simpl in H. repeat (destruct H as [<-|H]; [destruct b, a; reflexivity|]). contradiction.
  - intros a'. simpl in H. repeat (destruct H as [<-|H]; [reflexivity|]). contradiction.
Qed.

(** the categories the lexer model passes to op_fix (those of the tokens it emits, by the generated category table)
    are all covered by the two lists above *)
Definition mem_n (c : N) (l : list N) : bool := existsb (N.eqb c) l.
Definition cats_tbl : bool :=
  forallb (fun k => mem_n (category k) operator_cats) [kind_LParen; kind_Comma; kind_Dot; kind_PrePlus; kind_PreMinus; kind_PreBitNot]
  && forallb (fun o => mem_n (category (binop_kind o)) operator_cats) all_binops
  && mem_n (category kind_RParen) operand_cats && mem_n (category kind_Symbol) operand_cats
  && forallb (fun k => mem_n (category k) operand_cats) [kind_NatLit; kind_IntLit; kind_RatioLit].
Lemma cats_tbl_true : cats_tbl = true.
Proof. vm_compute. reflexivity. Qed.

Lemma neg_literal_lex : forall prev_cat sp ratio s rest ts,
  op_fix prev_cat sp (Some false) = Some Prefix ->
  lex_from prev_cat ((sp, LOp SMinus) :: (false, LNum ratio s) :: rest) = LexOk ts ->
  exists ts', ts = TLit (num_kind true ratio s) (minus_cp :: s) :: ts'
              /\ lex_from (num_cat true ratio s) rest = LexOk ts'.
Proof.
  intros prev_cat sp ratio s rest ts Hfix H.
  change (lex_from prev_cat ((sp, LOp SMinus) :: (false, LNum ratio s) :: rest))
    with (match op_fix prev_cat sp (Some false) with
          | Some Infix => lex_cons (TBin Minus) (lex_from (category kind_Minus) ((false, LNum ratio s) :: rest))
          | Some Prefix => if num_follow_ok ratio s rest then lex_cons (num_tok true ratio s) (lex_from (num_cat true ratio s) rest)
                           else LexUnmodelled
          | None => LexErr
          end) in H.
  rewrite Hfix in H. destruct (num_follow_ok ratio s rest); [|discriminate].
  destruct (lex_from (num_cat true ratio s) rest) as [ts0| |]; try discriminate.
  simpl in H. inversion H. eauto.
Qed.

(* ------------------------------------------------------------------ statements used by Props_C11 *)
Lemma prec_table_documented_proof :
  (forall a b : binop, opt_ge (prec_b a) (prec_b b) = (lvl b <=? lvl a)) /\
  (forall (p : preop) (o : binop),
      opt_gt (prec_b o) (prec_p p) = (pre_lvl <? lvl o) /\ opt_gt (prec_p p) (prec_b o) = (lvl o <? pre_lvl)) /\
  (forall o : binop, is_binop_cat o = true /\ (exists n, prec_b o = Some n)
                     /\ existsb (N.eqb (binop_kind o)) right_assoc = false) /\
  (forall p : preop, is_unary_cat p = true /\ exists n, prec_p p = Some n) /\
  (forall o : binop, opt_gt (precedence kind_Dot) (prec_b o) = true) /\
  (forall p : preop, opt_gt (precedence kind_Dot) (prec_p p) = true).
Proof.
  split; [exact ge_ok|]. split; [intros p o; split; [apply gt_ok | apply lt_ok]|].
  split; [exact bin_ok|]. split; [exact un_ok|]. exact dot_ok.
Qed.

Lemma neg_literal_proof :
  (forall c sp_before sp_after,
      (In c operand_cats -> op_fix c sp_before (Some sp_after) = Some (spec_fix true sp_before sp_after)) /\
      (In c operator_cats -> forall a, op_fix c sp_before a = Some (spec_fix false sp_before sp_after))) /\
  (forall prev_cat sp ratio s rest ts,
      op_fix prev_cat sp (Some false) = Some Prefix ->
      lex_from prev_cat ((sp, LOp SMinus) :: (false, LNum ratio s) :: rest) = LexOk ts ->
      exists ts', ts = TLit (num_kind true ratio s) (minus_cp :: s) :: ts'
                  /\ lex_from (num_cat true ratio s) rest = LexOk ts') /\
  (forall k s, parse [TLit k s] = Ok (ELit k s) /\ climb [TLit k s] = Some (ELit k s)).
Proof.
  split; [exact op_fix_spec|]. split; [exact neg_literal_lex|].
  intros k s. split; reflexivity.
Qed.
