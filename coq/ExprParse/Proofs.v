(** C11 — the simulation proof: on every token list of the documented grammar the operator-stack parser of the
    implementation (the p_ functions of Model, legacy = false) returns the tree of the precedence-climbing
    reference (the c_ functions of Spec).  Strong induction on the number of tokens; the invariant for the loop is
    [U]: what the reference still has to do for the operands and operators waiting on the stack. *)
From Coq Require Import ZArith NArith List Bool Arith Lia.
From ErgV Require Import gen.Prec Common.Sx ExprParse.Model ExprParse.Spec ExprParse.Tables.
Import ListNotations.
Local Open Scope nat_scope.

(* ------------------------------------------------------------------ inversion of the reference functions *)
Lemma c_expr_inv : forall f m ts e r, c_expr f m ts = Some (e, r) ->
  exists f1 l r1, f = S f1 /\ c_operand f1 ts = Some (l, r1) /\ c_loop f1 m l r1 = Some (e, r).
Proof.
  intros [|f1] m ts e r H; [discriminate|]. simpl in H.
  destruct (c_operand f1 ts) as [[l r1]|] eqn:E; [|discriminate]. eauto 8.
Qed.

Lemma c_loop_inv : forall f m l ts e r, c_loop f m l ts = Some (e, r) ->
  exists f1, f = S f1 /\
  ((exists o r0 rhs r', ts = TBin o :: r0 /\ m <= lvl o /\ c_expr f1 (S (lvl o)) r0 = Some (rhs, r')
                        /\ c_loop f1 m (EBin o l rhs) r' = Some (e, r))
   \/ ((forall o r0, ts = TBin o :: r0 -> lvl o < m) /\ e = l /\ r = ts)).
Proof.
  intros [|f1] m l ts e r H; [discriminate|]. exists f1. split; [reflexivity|]. simpl in H.
  destruct ts as [|t r0].
  - right. inversion H. repeat split; auto. intros; discriminate.
  - destruct t; try (right; inversion H; repeat split; auto; intros; discriminate).
    destruct (m <=? lvl o) eqn:E.
    + apply Nat.leb_le in E. left.
      destruct (c_expr f1 (S (lvl o)) r0) as [[rhs r']|] eqn:E2; [|discriminate]. eauto 10.
    + apply Nat.leb_gt in E. right. inversion H. repeat split; auto. intros o' r0' Heq. inversion Heq; subst. exact E.
Qed.

Lemma c_len : forall f,
  (forall m ts e r, c_expr f m ts = Some (e, r) -> length r < length ts) /\
  (forall m l ts e r, c_loop f m l ts = Some (e, r) -> length r <= length ts) /\
  (forall ts e r, c_operand f ts = Some (e, r) -> length r < length ts) /\
  (forall o ts e r, c_postfix f o ts = Some (e, r) -> length r <= length ts) /\
  (forall ts a r, c_args f ts = Some (a, r) -> length r < length ts) /\
  (forall acc ts a r, c_args_tl f acc ts = Some (a, r) -> length r < length ts).
Proof.
  induction f as [|f IH]; [repeat split; intros; discriminate|].
  destruct IH as (IHe & IHl & IHo & IHp & IHa & IHt).
  repeat split.
  - intros m ts e r H. apply c_expr_inv in H. destruct H as (f1 & l & r1 & Hf & Ho & Hl). inversion Hf; subst f1.
    apply IHo in Ho. apply IHl in Hl. lia.
  - intros m l ts e r H. apply c_loop_inv in H. destruct H as (f1 & Hf & [H|H]); inversion Hf; subst f1.
    + destruct H as (o & r0 & rhs & r' & -> & _ & He & Hl). apply IHe in He. apply IHl in Hl. simpl. lia.
    + destruct H as (_ & _ & ->). lia.
  - intros ts e r H. simpl in H. destruct ts as [|t r0]; [discriminate|].
    destruct t; try discriminate.
    + apply IHp in H. simpl. lia.
    + apply IHp in H. simpl. lia.
    + destruct (c_expr f (S pre_lvl) r0) as [[e1 r1]|] eqn:E; [|discriminate]. inversion H; subst. apply IHe in E. simpl. lia.
    + destruct (c_expr f 0 r0) as [[e1 r1]|] eqn:E; [|discriminate]. destruct r1 as [|t1 r1]; [discriminate|].
      destruct t1; try discriminate. apply IHe in E. apply IHp in H. simpl in *. lia.
  - intros o ts e r H. simpl in H.
    destruct ts as [|t r0]; [inversion H; subst; lia|].
    destruct t; try (inversion H; subst; simpl; lia).
    destruct adj; [|discriminate].
    destruct r0 as [|t2 r1]; [discriminate|]. destruct t2; try discriminate.
    destruct r1 as [|t3 r2].
    + apply IHp in H. simpl in *. lia.
    + destruct t3; try (apply IHp in H; simpl in *; lia).
      destruct adj.
      * destruct (c_args f r2) as [[args r3]|] eqn:E; [|discriminate]. apply IHa in E. apply IHp in H. simpl in *. lia.
      * apply IHp in H. simpl in *. lia.
  - intros ts a r H. simpl in H. destruct ts as [|t r0].
    + destruct (c_expr f 0 []) as [[a1 r1]|] eqn:E; [|discriminate]. apply IHe in E. simpl in E. lia.
    + destruct t; try (destruct (c_expr f 0 _) as [[a1 r1]|] eqn:E in H; [|discriminate]; apply IHe in E; apply IHt in H; simpl in *; lia).
      inversion H; subst. simpl. lia.
  - intros acc ts a r H. simpl in H. destruct ts as [|t r0]; [discriminate|].
    destruct t; try discriminate.
    + inversion H; subst. simpl. lia.
    + destruct (c_expr f 0 r0) as [[a1 r1]|] eqn:E; [|discriminate]. apply IHe in E. apply IHt in H. simpl. lia.
Qed.

(* ------------------------------------------------------------------ the operator stack *)
(** a well-shaped stack: top expression, then (operator, left operand) pairs from the top down *)
Fixpoint stk_below (below : list (binop * expr)) : list item :=
  match below with
  | [] => []
  | (o, l) :: b => IOp o :: IExpr l :: stk_below b
  end.
Definition stk (top : expr) (below : list (binop * expr)) : list item := IExpr top :: stk_below below.

Fixpoint fold_stack (top : expr) (below : list (binop * expr)) : expr :=
  match below with
  | [] => top
  | (o, l) :: b => fold_stack (EBin o l top) b
  end.

Fixpoint reduce_spec (o : binop) (top : expr) (below : list (binop * expr)) : expr * list (binop * expr) :=
  match below with
  | (o1, l1) :: b => if lvl o <=? lvl o1 then reduce_spec o (EBin o1 l1 top) b else (top, below)
  | [] => (top, [])
  end.

Lemma stk_length : forall top below, length (stk top below) = S (2 * length below).
Proof.
  intros top below. unfold stk. simpl. f_equal. induction below as [|[o l] b IH]; simpl; [reflexivity|]. rewrite IH. lia.
Qed.

Lemma collect_all_stk : forall below top n, S (length below) <= n ->
  collect_all n (stk top below) = Ok [IExpr (fold_stack top below)].
Proof.
  induction below as [|[o l] b IH]; intros top n Hn.
  - destruct n; [lia|]. reflexivity.
  - destruct n; [simpl in Hn; lia|].
    change (collect_all (S n) (stk top ((o, l) :: b)))
      with (if 3 <=? length (stk top ((o, l) :: b)) then bind (collect_last (stk top ((o, l) :: b))) (collect_all n)
            else Ok (stk top ((o, l) :: b))).
    rewrite (stk_length top ((o, l) :: b)). simpl length.
    replace (3 <=? S (2 * S (length b))) with true by (symmetry; apply Nat.leb_le; lia).
    simpl. apply IH. simpl in Hn. lia.
Qed.

Lemma reduce_while_single : forall n p x, reduce_while (S n) p [x] = Ok [x].
Proof. reflexivity. Qed.

Lemma reduce_while_stk : forall below top n o, S (length below) <= n ->
  reduce_while n (prec_b o) (stk top below)
  = Ok (stk (fst (reduce_spec o top below)) (snd (reduce_spec o top below))).
Proof.
  induction below as [|[o1 l1] b IH]; intros top n o Hn.
  - destruct n; [lia|]. reflexivity.
  - destruct n; [simpl in Hn; lia|]. simpl in Hn.
    simpl. rewrite binop_cat_ok, ge_ok. simpl.
    destruct (lvl o <=? lvl o1) eqn:E; [|reflexivity].
    destruct b as [|[o2 l2] b'].
    + simpl. reflexivity.
    + change (IExpr (EBin o1 l1 top) :: stk_below ((o2, l2) :: b')) with (stk (EBin o1 l1 top) ((o2, l2) :: b')).
      replace (length (stk_below ((o2, l2) :: b')) <=? 0) with false by reflexivity.
      apply IH. simpl. simpl in Hn. lia.
Qed.

Lemma reduce_spec_suffix : forall P o below top, Forall P below -> Forall P (snd (reduce_spec o top below)).
Proof.
  induction below as [|[o1 l1] b IH]; intros top H; simpl; [constructor|].
  destruct (lvl o <=? lvl o1); [apply IH; inversion H; assumption | exact H].
Qed.

Lemma reduce_spec_head : forall o below top,
  match snd (reduce_spec o top below) with
  | [] => True
  | (o1, _) :: _ => lvl o1 < lvl o
  end.
Proof.
  induction below as [|[o1 l1] b IH]; intros top; simpl; [exact I|].
  destruct (lvl o <=? lvl o1) eqn:E; [apply IH|]. simpl. apply Nat.leb_gt in E. exact E.
Qed.

(* ------------------------------------------------------------------ what the reference still has to do for a stack *)
(** [U m top below ts res]: continuing the climbing loops that are open for the stack (innermost first: the loop
    for the right operand of the topmost stacked operator, ..., finally the loop at level [m]) on [ts] gives [res] *)
Inductive U (m : nat) : expr -> list (binop * expr) -> list tok -> expr * list tok -> Prop :=
| U_nil : forall top ts f res, c_loop f m top ts = Some res -> U m top [] ts res
| U_cons : forall top o l below ts f rhs r res,
    c_loop f (S (lvl o)) top ts = Some (rhs, r) -> U m (EBin o l rhs) below r res ->
    U m top ((o, l) :: below) ts res.

Definition U' (m : nat) (top : expr) (below : list (binop * expr)) (ts : list tok) (res : expr * list tok) : Prop :=
  exists f top' r1, c_postfix f top ts = Some (top', r1) /\ U m top' below r1 res.

Lemma U_return : forall m top below ts res,
  (forall o r0, ts = TBin o :: r0 -> lvl o < m) -> Forall (fun ol => m <= lvl (fst ol)) below ->
  U m top below ts res -> res = (fold_stack top below, ts).
Proof.
  intros m top below ts res Hts Hb HU. induction HU as [top ts f res H | top o l below ts f rhs r res H HU IH].
  - destruct res as [e r]. apply c_loop_inv in H. destruct H as (f1 & _ & [H|H]).
    + destruct H as (o & r0 & rhs & r' & -> & Hm & _). specialize (Hts o r0 eq_refl). lia.
    + destruct H as (_ & -> & ->). reflexivity.
  - inversion Hb as [|x y Hx Hy]; subst. simpl in Hx.
    apply c_loop_inv in H. destruct H as (f1 & _ & [H|H]).
    + destruct H as (o' & r0 & rhs' & r' & -> & Hm & _). specialize (Hts o' r0 eq_refl). lia.
    + destruct H as (_ & -> & ->). simpl. apply IH; assumption.
Qed.

Lemma U_head : forall m top below ts res, U m top below ts res ->
  (exists o r0, ts = TBin o :: r0) \/ snd res = ts.
Proof.
  intros m top below ts res HU. induction HU as [top ts f res H | top o l below ts f rhs r res H HU IH].
  - destruct res as [e r]. apply c_loop_inv in H. destruct H as (f1 & _ & [H|H]).
    + destruct H as (o & r0 & _ & _ & -> & _). left. eauto.
    + destruct H as (_ & _ & ->). right. reflexivity.
  - apply c_loop_inv in H. destruct H as (f1 & _ & [H|H]).
    + destruct H as (o' & r0 & _ & _ & -> & _). left. eauto.
    + destruct H as (_ & _ & ->). exact IH.
Qed.

Lemma reduce_U : forall m o r below top res,
  U m top below (TBin o :: r) res ->
  U m (fst (reduce_spec o top below)) (snd (reduce_spec o top below)) (TBin o :: r) res.
Proof.
  induction below as [|[o1 l1] b IH]; intros top res HU; simpl; [exact HU|].
  destruct (lvl o <=? lvl o1) eqn:E; [|exact HU].
  apply Nat.leb_le in E. inversion HU as [|top0 o0 l0 below0 ts0 f rhs r' res0 H HU']; subst.
  apply c_loop_inv in H. destruct H as (f1 & _ & [H|H]).
  - destruct H as (o' & r0 & rhs' & r'' & Heq & Hm & _). inversion Heq; subst. lia.
  - destruct H as (_ & -> & ->). apply IH. exact HU'.
Qed.

(** consuming an accepted operator: the stack grows by (o, top) and the reference reads the operand *)
Lemma U_push : forall m o r top below res,
  U m top below (TBin o :: r) res -> m <= lvl o ->
  match below with [] => True | (o1, _) :: _ => lvl o1 < lvl o end ->
  exists f2 l2 r2, c_operand f2 r = Some (l2, r2) /\ U m l2 ((o, top) :: below) r2 res.
Proof.
  intros m o r top below res HU Hm Hb.
  inversion HU as [top0 ts0 f res0 H | top0 o1 l1 below1 ts0 f rhs1 r1 res0 H HU1]; subst.
  - destruct res as [e0 r0']. apply c_loop_inv in H. destruct H as (f1 & _ & [H|H]).
    + destruct H as (o' & r0 & rhs & r' & Heq & _ & He & Hl). inversion Heq; subst o' r0.
      apply c_expr_inv in He. destruct He as (f2 & l2 & r2 & _ & Ho & Hl2).
      exists f2, l2, r2. split; [exact Ho|].
      eapply U_cons; [exact Hl2|]. eapply U_nil. exact Hl.
    + destruct H as (Hlow & _). specialize (Hlow o r eq_refl). lia.
  - apply c_loop_inv in H. destruct H as (f1 & _ & [H|H]).
    + destruct H as (o' & r0 & rhs & r' & Heq & _ & He & Hl). inversion Heq; subst o' r0.
      apply c_expr_inv in He. destruct He as (f2 & l2 & r2 & _ & Ho & Hl2).
      exists f2, l2, r2. split; [exact Ho|].
      eapply U_cons; [exact Hl2|]. eapply U_cons; [exact Hl | exact HU1].
    + destruct H as (Hlow & _). specialize (Hlow o r eq_refl). lia.
Qed.

(* ------------------------------------------------------------------ the `_ =>` arm of the loops *)
Definition follow_ok (w : bool) (r : list tok) : bool :=
  match r with
  | [] => true
  | TBin _ :: _ => true
  | TRP :: _ => true
  | TComma :: _ => negb w
  | _ => false
  end.

Lemma follow_ok_weaken : forall w r, follow_ok w r = true -> follow_ok false r = true.
Proof. intros w [|[] r]; simpl; auto. Qed.

(** which climbing level corresponds to the min_prec of a loop *)
Definition minrel (chunk : bool) (min : option N) (m : nat) : Prop :=
  (min = None /\ m = 0) \/ (chunk = false /\ exists p, min = prec_p p /\ m = S pre_lvl).

Lemma guard_ok : forall chunk min m o, minrel chunk min m ->
  (if chunk then true else min_ok min o) = (m <=? lvl o).
Proof.
  intros chunk min m o [[-> ->]|[-> (p & -> & ->)]].
  - destruct chunk; reflexivity.
  - apply min_ok_pre.
Qed.

Definition stops (chunk : bool) (min : option N) (w : bool) (ts : list tok) : bool :=
  match ts with
  | [] => true
  | TRP :: _ => true
  | TComma :: _ => negb w
  | TBin o :: _ => negb (if chunk then true else min_ok min o)
  | _ => false
  end.

Lemma bind_ok : forall A B (a : A) (f : A -> res B), bind (Ok a) f = f a.
Proof. reflexivity. Qed.

Lemma p_loop_finish : forall F chunk min w st ts, stops chunk min w ts = true ->
  p_loop false (S F) chunk min w st ts
  = if length st <=? 1 then loop_exit st ts
    else bind (collect_all (length st) st) (fun st' => p_loop false F chunk min w st' ts).
Proof.
  intros F chunk min w st ts H. destruct ts as [|t r]; [reflexivity|].
  destruct t; simpl in H; try discriminate; try reflexivity.
  - simpl. rewrite binop_cat_ok. simpl. apply negb_true_iff in H. rewrite H. reflexivity.
  - simpl. apply negb_true_iff in H. rewrite H. reflexivity.
Qed.

Lemma loop_finish_ok : forall F chunk min w top below ts, stops chunk min w ts = true -> 2 <= F ->
  p_loop false F chunk min w (stk top below) ts = Ok (fold_stack top below, ts).
Proof.
  intros F chunk min w top below ts H HF. destruct F as [|[|F]]; try lia.
  rewrite p_loop_finish by exact H. rewrite stk_length.
  destruct below as [|[o l] b].
  - reflexivity.
  - simpl length. replace (S (2 * S (length b)) <=? 1) with false by (symmetry; apply Nat.leb_gt; lia).
    rewrite collect_all_stk by (simpl; lia). rewrite bind_ok.
    rewrite p_loop_finish by exact H. reflexivity.
Qed.

(* ------------------------------------------------------------------ the simulation, by induction on the number of tokens *)
Definition P_operand (ts : list tok) : Prop :=
  forall f e r, c_operand f ts = Some (e, r) -> follow_ok false r = true ->
  exists e0 r0, (forall F, 8 * length ts + 1 <= F -> p_lhs false F ts = Ok (e0, r0))
                /\ (exists f', c_postfix f' e0 r0 = Some (e, r)) /\ length r0 < length ts.
Definition P_expr (ts : list tok) : Prop :=
  forall f m min w e r, c_expr f m ts = Some (e, r) -> follow_ok w r = true -> minrel false min m ->
  forall F, 8 * length ts + 2 <= F -> p_expr false F min w ts = Ok (e, r).
Definition P_chain (ts : list tok) : Prop :=
  forall f obj e r, c_postfix f obj ts = Some (e, r) -> follow_ok false r = true ->
  forall F, 8 * length ts + 2 <= F -> p_chain false F obj ts = Ok (e, r).
Definition P_args (ts : list tok) : Prop :=
  forall f a args r, c_args f ts = Some (args, r) ->
  forall F, 8 * length ts + 3 <= F -> p_args false F (TLP a :: ts) = Ok (args, r).
Definition P_tl (ts : list tok) : Prop :=
  forall f acc args r, c_args_tl f acc ts = Some (args, r) ->
  forall F, 8 * length ts + 2 <= F -> p_args_loop false F true acc ts = Ok (args, r).
Definition P_loop (ts : list tok) : Prop :=
  forall chunk min w m top below res, U' m top below ts res -> follow_ok w (snd res) = true ->
  minrel chunk min m -> Forall (fun ol => m <= lvl (fst ol)) below ->
  forall F, 8 * length ts + 2 <= F -> p_loop false F chunk min w (stk top below) ts = Ok res.

Definition P_all (ts : list tok) : Prop :=
  P_operand ts /\ P_expr ts /\ P_chain ts /\ P_args ts /\ P_tl ts /\ P_loop ts.

Lemma c_postfix_nodot : forall f obj ts, 1 <= f ->
  match ts with TDot _ :: _ => False | _ => True end -> c_postfix f obj ts = Some (obj, ts).
Proof.
  intros [|f] obj ts Hf H; [lia|]. destruct ts as [|[] r]; simpl; try reflexivity. contradiction.
Qed.

Lemma follow_nodot : forall w r, follow_ok w r = true -> match r with TDot _ :: _ => False | _ => True end.
Proof. intros w [|[] r]; simpl; auto; discriminate. Qed.

Lemma c_postfix_follow : forall f obj ts e r, c_postfix f obj ts = Some (e, r) ->
  match ts with TDot _ :: _ => False | _ => True end -> e = obj /\ r = ts.
Proof.
  intros [|f] obj ts e r H Hd; [discriminate|]. destruct ts as [|[] r0]; simpl in H; inversion H; auto. contradiction.
Qed.

Definition IHyp (ts : list tok) : Prop := forall ts', length ts' < length ts -> P_all ts'.

Lemma c_operand_nil : forall f ts e r, c_operand f ts = Some (e, r) ->
  match ts with [] | TBin _ :: _ | TRP :: _ | TComma :: _ | TDot _ :: _ => False | _ => True end.
Proof. intros [|f] ts e r H; [discriminate|]. destruct ts as [|[] r0]; simpl in H; try discriminate; exact I. Qed.

Lemma c_expr_head : forall f m ts e r, c_expr f m ts = Some (e, r) ->
  match ts with [] | TBin _ :: _ | TRP :: _ | TComma :: _ | TDot _ :: _ => False | _ => True end.
Proof.
  intros f m ts e r H. apply c_expr_inv in H. destruct H as (f1 & l & r1 & _ & Ho & _).
  eapply c_operand_nil; eauto.
Qed.

Lemma c_args_tl_follow : forall f acc ts x, c_args_tl f acc ts = Some x -> follow_ok false ts = true.
Proof. intros [|f] acc ts x H; [discriminate|]. destruct ts as [|[] r]; simpl in H; try discriminate; reflexivity. Qed.

Lemma step_chain : forall ts, IHyp ts -> P_chain ts.
Proof.
  intros ts IH f obj e r H Hfo F HF.
  destruct f as [|f]; [discriminate|]. simpl in H.
  destruct ts as [|t r0].
  - inversion H; subst. destruct F as [|[|F]]; simpl in HF; try lia. reflexivity.
  - destruct t; try (inversion H; subst; simpl in Hfo; discriminate);
      try (inversion H; subst; destruct F as [|[|F]]; simpl in HF; try lia; reflexivity).
    destruct adj; [|discriminate].
    destruct r0 as [|t2 r1]; [discriminate|]. destruct t2; try discriminate.
    destruct F as [|F]; [simpl in HF; lia|].
    assert (Hgen : forall r1', r1' = r1 -> c_postfix f (EAttr obj n) r1' = Some (e, r) ->
                   p_chain false F (EAttr obj n) r1' = Ok (e, r)).
    { intros r1' -> H'. destruct (IH r1) as (_ & _ & Hc & _); [simpl; lia|].
      eapply Hc; eauto. simpl in HF. lia. }
    destruct r1 as [|t3 r2]; [simpl; apply Hgen; auto|].
    destruct t3; try (simpl; apply Hgen; auto; fail).
    destruct adj; [|simpl; apply Hgen; auto].
    destruct (c_args f r2) as [[args r3]|] eqn:Ea; [|discriminate].
    destruct F as [|F]; [simpl in HF; lia|].
    pose proof (proj1 (proj2 (proj2 (proj2 (proj2 (c_len f))))) _ _ _ Ea) as Hlen.
    destruct (IH r2) as (_ & _ & _ & Ha & _); [simpl; lia|].
    simpl. rewrite (Ha f true args r3 Ea) by (simpl in HF; lia). rewrite bind_ok. simpl mk_call.
    destruct (IH r3) as (_ & _ & Hc & _); [simpl; lia|].
    eapply Hc; eauto. simpl in HF. lia.
Qed.

Lemma step_tl : forall ts, IHyp ts -> P_tl ts.
Proof.
  intros ts IH f acc args r H F HF.
  destruct f as [|f]; [discriminate|]. simpl in H.
  destruct ts as [|t r0]; [discriminate|]. destruct t; try discriminate.
  - (* TRP *) inversion H; subst. destruct F as [|F]; [simpl in HF; lia|]. reflexivity.
  - (* TComma *)
    destruct (c_expr f 0 r0) as [[a1 r1]|] eqn:E; [|discriminate].
    pose proof (c_expr_head _ _ _ _ _ E) as Hh.
    pose proof (proj1 (c_len f) _ _ _ _ E) as Hlen.
    destruct F as [|F]; [simpl in HF; lia|].
    destruct (IH r0) as (_ & He & _); [simpl; lia|].
    assert (Hp : p_expr false F None false r0 = Ok (a1, r1)).
    { eapply He; eauto. - eapply c_args_tl_follow; eauto. - left; auto. - simpl in HF. lia. }
    destruct (IH r1) as (_ & _ & _ & _ & Ht & _); [simpl; lia|].
    assert (Hq : p_args_loop false F true (acc ++ [a1]) r1 = Ok (args, r)).
    { eapply Ht; eauto. simpl in HF. lia. }
    destruct r0 as [|t1 r0']; [contradiction|].
    destruct t1; try contradiction; simpl; rewrite Hp, bind_ok; exact Hq.
Qed.

Lemma step_operand : forall ts, IHyp ts -> P_operand ts.
Proof.
  intros ts IH f e r H Hfo.
  destruct f as [|f]; [discriminate|]. simpl in H.
  destruct ts as [|t r0]; [discriminate|]. destruct t; try discriminate.
  - (* identifier *)
    exists e, r. split; [|split].
    + intros F HF. destruct F as [|F]; [simpl in HF; lia|]. simpl.
      destruct (IH r0) as (_ & _ & Hc & _); [simpl; lia|].
      eapply Hc; eauto. simpl in HF. lia.
    + exists 1. apply c_postfix_nodot; [lia|]. eapply follow_nodot; eauto.
    + pose proof (proj1 (proj2 (proj2 (proj2 (c_len f)))) _ _ _ _ H). simpl. lia.
  - (* literal *)
    exists (ELit k s), r0. split; [|split].
    + intros F HF. destruct F as [|F]; [simpl in HF; lia|].
      destruct r0 as [|t1 r1]; [reflexivity|].
      destruct t1; try reflexivity.
      * apply c_postfix_follow in H; [|exact I]. destruct H as [_ ->]. simpl in Hfo. discriminate.
      * apply c_postfix_follow in H; [|exact I]. destruct H as [_ ->]. simpl in Hfo. discriminate.
    + eauto.
    + simpl. lia.
  - (* prefix operator *)
    destruct (c_expr f (S pre_lvl) r0) as [[e1 r1]|] eqn:E; [|discriminate]. inversion H; subst e r1. clear H.
    pose proof (proj1 (c_len f) _ _ _ _ E) as Hlen.
    exists (EUn p e1), r. split; [|split].
    + intros F HF. destruct F as [|F]; [simpl in HF; lia|]. simpl. rewrite unary_cat_ok.
      destruct (IH r0) as (_ & He & _); [simpl; lia|].
      rewrite (He f (S pre_lvl) (prec_p p) false e1 r E Hfo); [reflexivity| |simpl in HF; lia].
      right. split; [reflexivity|]. exists p. auto.
    + exists 1. apply c_postfix_nodot; [lia|]. eapply follow_nodot; eauto.
    + simpl. lia.
  - (* parenthesised *)
    destruct (c_expr f 0 r0) as [[e1 r1]|] eqn:E; [|discriminate].
    destruct r1 as [|t1 r1]; [discriminate|]. destruct t1; try discriminate.
    pose proof (proj1 (c_len f) _ _ _ _ E) as Hlen.
    pose proof (c_expr_head _ _ _ _ _ E) as Hh.
    exists e1, r1. split; [|split].
    + intros F HF. destruct F as [|F]; [simpl in HF; lia|].
      destruct (IH r0) as (_ & He & _); [simpl; lia|].
      assert (Hp : p_expr false F None true r0 = Ok (e1, TRP :: r1)).
      { eapply He; eauto. - left; auto. - simpl in HF. lia. }
      destruct r0 as [|t0 r0']; [contradiction|].
      destruct t0; try contradiction; simpl; rewrite Hp; reflexivity.
    + eauto.
    + simpl in *. lia.
Qed.

Lemma p_loop_bin_acc : forall F (chunk : bool) min w st o r, (if chunk then true else min_ok min o) = true ->
  p_loop false (S F) chunk min w st (TBin o :: r)
  = bind (if 2 <=? length st then reduce_while (length st) (prec_b o) st else Ok st)
         (fun st1 => bind (p_lhs false F r) (fun '(e, r') => p_loop false F chunk min w (IExpr e :: IOp o :: st1) r')).
Proof.
  intros F chunk min w st o r H. simpl. rewrite binop_cat_ok. simpl. rewrite H. reflexivity.
Qed.

Lemma reduce_model : forall o top below,
  (if 2 <=? length (stk top below) then reduce_while (length (stk top below)) (prec_b o) (stk top below)
   else Ok (stk top below))
  = Ok (stk (fst (reduce_spec o top below)) (snd (reduce_spec o top below))).
Proof.
  intros o top below. rewrite (stk_length top below). destruct below as [|[o1 l1] b].
  - reflexivity.
  - replace (2 <=? S (2 * length ((o1, l1) :: b))) with true by (symmetry; apply Nat.leb_le; simpl; lia).
    apply reduce_while_stk. simpl. lia.
Qed.

Lemma p_loop_dot : forall F chunk min w top below a n r',
  p_loop false (S F) chunk min w (stk top below) (TDot a :: TSym n :: r')
  = if match r' with TDot true :: _ => true | _ => false end
    then p_loop false F chunk min w (stk (EAttr top n) below) r'
    else match starts_args r' with
         | 1 => bind (p_args false F r')
                     (fun '(args, r'') => p_loop false F chunk min w (stk (ECall top (Some n) args) below) r'')
         | 2 => Unmodelled
         | _ => p_loop false F chunk min w (stk (EAttr top n) below) r'
         end.
Proof. intros. reflexivity. Qed.

Lemma step_loop : forall ts, IHyp ts -> P_loop ts.
Proof.
  intros ts IH chunk min w m top below res HU' Hfo Hmin Hb F HF.
  destruct HU' as (f & top' & r1 & Hp & HU).
  assert (Hfin : forall ts0, ts0 = ts -> top' = top -> r1 = ts ->
                 (forall o r0, ts = TBin o :: r0 -> lvl o < m) -> stops chunk min w ts = true ->
                 p_loop false F chunk min w (stk top below) ts = Ok res).
  { intros ts0 _ -> -> Hlow Hst. rewrite (U_return _ _ _ _ _ Hlow Hb HU).
    apply loop_finish_ok; [exact Hst|lia]. }
  assert (Hcontra : forall t r, ts = t :: r -> top' = top -> r1 = ts ->
                    follow_ok w ts = false -> match t with TBin _ => False | _ => True end -> False).
  { intros t r -> _ -> Hf Ht. destruct (U_head _ _ _ _ _ HU) as [(o & r0 & Heq)|Heq].
    - inversion Heq; subst. contradiction.
    - rewrite Heq in Hfo. congruence. }
  destruct ts as [|t r].
  - (* end of input *)
    apply c_postfix_follow in Hp; [|exact I]. destruct Hp as [-> ->].
    eapply Hfin; eauto. intros; discriminate.
  - destruct t.
    + apply c_postfix_follow in Hp; [|exact I]. destruct Hp as [-> ->]. exfalso. eapply Hcontra; eauto. exact I.
    + apply c_postfix_follow in Hp; [|exact I]. destruct Hp as [-> ->]. exfalso. eapply Hcontra; eauto. exact I.
    + (* binary operator *)
      apply c_postfix_follow in Hp; [|exact I]. destruct Hp as [-> ->].
      destruct (m <=? lvl o) eqn:Hacc.
      * apply Nat.leb_le in Hacc.
        destruct F as [|F]; [simpl in HF; lia|].
        rewrite p_loop_bin_acc by (rewrite (guard_ok _ _ _ o Hmin); apply Nat.leb_le; exact Hacc).
        rewrite reduce_model, bind_ok.
        pose proof (reduce_U _ _ _ _ _ _ HU) as HU1.
        pose proof (reduce_spec_head o below top) as Hhd.
        pose proof (reduce_spec_suffix _ o below top Hb) as Hb1.
        destruct (reduce_spec o top below) as [top1 below1]. simpl fst in *. simpl snd in *.
        destruct (U_push _ _ _ _ _ _ HU1 Hacc Hhd) as (f2 & l2 & r2 & Ho & HU2).
        assert (Hfo2 : follow_ok w r2 = true).
        { destruct (U_head _ _ _ _ _ HU2) as [(o' & r0 & ->)|Heq]; [reflexivity|]. rewrite <- Heq. exact Hfo. }
        destruct (IH r) as (Hop & _); [simpl; lia|].
        destruct (Hop f2 l2 r2 Ho (follow_ok_weaken _ _ Hfo2)) as (e0 & r0 & Hlhs & (f' & Hpf) & Hlen).
        rewrite Hlhs by (simpl in HF; lia). rewrite bind_ok. cbv beta iota.
        change (IExpr e0 :: IOp o :: stk top1 below1) with (stk e0 ((o, top1) :: below1)).
        destruct (IH r0) as (_ & _ & _ & _ & _ & Hl); [simpl; lia|].
        apply (Hl chunk min w m e0 ((o, top1) :: below1) res).
        -- exists f', l2, r2. split; assumption.
        -- exact Hfo.
        -- exact Hmin.
        -- constructor; [simpl; exact Hacc | exact Hb1].
        -- simpl in HF. lia.
      * apply Nat.leb_gt in Hacc. eapply Hfin; eauto.
        -- intros o' r0 Heq. inversion Heq; subst. exact Hacc.
        -- simpl. rewrite (guard_ok _ _ _ o Hmin). apply negb_true_iff. apply Nat.leb_gt. exact Hacc.
    + apply c_postfix_follow in Hp; [|exact I]. destruct Hp as [-> ->]. exfalso. eapply Hcontra; eauto. exact I.
    + (* member access *)
      destruct f as [|f]; [discriminate|]. simpl in Hp.
      destruct adj; [|discriminate].
      destruct r as [|t2 r']; [discriminate|]. destruct t2; try discriminate.
      destruct F as [|F]; [simpl in HF; lia|].
      rewrite p_loop_dot.
      assert (Hattr : c_postfix f (EAttr top n) r' = Some (top', r1) ->
                      p_loop false F chunk min w (stk (EAttr top n) below) r' = Ok res).
      { intros Hp'. destruct (IH r') as (_ & _ & _ & _ & _ & Hl); [simpl; lia|].
        apply (Hl chunk min w m (EAttr top n) below res); auto.
        - exists f, top', r1. split; assumption.
        - simpl in HF. lia. }
      assert (Hbad : forall t3 r'', r' = t3 :: r'' -> c_postfix f (EAttr top n) r' = Some (top', r1) ->
                     match t3 with TDot _ | TBin _ => False | _ => True end -> follow_ok w r' = false -> False).
      { intros t3 r'' -> Hp' Ht Hf. apply c_postfix_follow in Hp'; [|destruct t3; auto].
        destruct Hp' as [-> ->]. destruct (U_head _ _ _ _ _ HU) as [(o' & r0 & Heq)|Heq].
        - inversion Heq; subst. contradiction.
        - rewrite Heq in Hfo. congruence. }
      destruct r' as [|t3 r'']; [simpl; apply Hattr; exact Hp|].
      destruct t3.
      * exfalso. eapply Hbad; eauto. exact I.
      * exfalso. eapply Hbad; eauto. exact I.
      * simpl. apply Hattr. exact Hp.
      * exfalso. eapply Hbad; eauto. exact I.
      * destruct adj.
        -- apply Hattr. exact Hp.
        -- destruct f; discriminate.
      * destruct adj.
        -- destruct (c_args f r'') as [[args r3]|] eqn:Ea; [|discriminate].
           pose proof (proj1 (proj2 (proj2 (proj2 (proj2 (c_len f))))) _ _ _ Ea) as Hlen.
           destruct (IH r'') as (_ & _ & _ & Ha & _); [simpl; lia|].
           simpl. rewrite (Ha f true args r3 Ea) by (simpl in HF; lia). rewrite bind_ok. cbv beta iota.
           destruct (IH r3) as (_ & _ & _ & _ & _ & Hl); [simpl; lia|].
           apply (Hl chunk min w m (ECall top (Some n) args) below res); auto.
           ++ exists f, top', r1. split; assumption.
           ++ simpl in HF. lia.
        -- exfalso. eapply Hbad; eauto. exact I.
      * simpl. apply Hattr. exact Hp.
      * simpl. apply Hattr. exact Hp.
    + apply c_postfix_follow in Hp; [|exact I]. destruct Hp as [-> ->]. exfalso. eapply Hcontra; eauto. exact I.
    + (* `)` *)
      apply c_postfix_follow in Hp; [|exact I]. destruct Hp as [-> ->].
      eapply Hfin; eauto. intros; discriminate.
    + (* `,` *)
      apply c_postfix_follow in Hp; [|exact I]. destruct Hp as [-> ->].
      destruct (U_head _ _ _ _ _ HU) as [(o' & r0 & Heq)|Heq]; [discriminate|].
      rewrite Heq in Hfo. eapply Hfin; eauto. intros; discriminate.
Qed.

Lemma c_loop_follow : forall f m l ts e r w, c_loop f m l ts = Some (e, r) -> follow_ok w r = true -> follow_ok w ts = true.
Proof.
  intros f m l ts e r w H Hfo. apply c_loop_inv in H. destruct H as (f1 & _ & [H|H]).
  - destruct H as (o & r0 & _ & _ & -> & _). reflexivity.
  - destruct H as (_ & _ & ->). exact Hfo.
Qed.

Lemma step_expr : forall ts, P_operand ts -> IHyp ts -> P_expr ts.
Proof.
  intros ts Hop IH f m min w e r H Hfo Hmin F HF.
  apply c_expr_inv in H. destruct H as (f1 & l & r1 & _ & Ho & Hl).
  pose proof (c_loop_follow _ _ _ _ _ _ _ Hl Hfo) as Hfo1.
  destruct (Hop f1 l r1 Ho (follow_ok_weaken _ _ Hfo1)) as (e0 & r0 & Hlhs & (f' & Hpf) & Hlen).
  destruct F as [|F]; [lia|]. simpl. rewrite Hlhs by lia. rewrite bind_ok. cbv beta iota.
  change [IExpr e0] with (stk e0 []).
  destruct (IH r0 Hlen) as (_ & _ & _ & _ & _ & Hlp).
  apply (Hlp false min w m e0 [] (e, r)).
  - exists f', l, r1. split; [exact Hpf|]. eapply U_nil. exact Hl.
  - exact Hfo.
  - exact Hmin.
  - constructor.
  - lia.
Qed.

Lemma step_args : forall ts, P_expr ts -> IHyp ts -> P_args ts.
Proof.
  intros ts He IH f a args r H F HF.
  destruct f as [|f]; [discriminate|]. simpl in H.
  assert (Hgen : forall a1 r1, c_expr f 0 ts = Some (a1, r1) -> c_args_tl f [a1] r1 = Some (args, r) ->
                 match ts with TRP :: _ => False | _ => True end ->
                 p_args false F (TLP a :: ts) = Ok (args, r)).
  { intros a1 r1 E Ht Hnr.
    pose proof (proj1 (c_len f) _ _ _ _ E) as Hlen.
    destruct F as [|F]; [lia|].
    assert (Hp : p_expr false F None false ts = Ok (a1, r1)).
    { apply (He f 0 None false a1 r1 E); [eapply c_args_tl_follow; eauto | left; auto | lia]. }
    destruct (IH r1 Hlen) as (_ & _ & _ & _ & Htl & _).
    assert (Hq : p_args_loop false F true [a1] r1 = Ok (args, r)).
    { eapply Htl; eauto. lia. }
    destruct ts as [|t r0]; [simpl; rewrite Hp, bind_ok; exact Hq|].
    destruct t; try contradiction; simpl; rewrite Hp, bind_ok; exact Hq. }
  destruct ts as [|t r0].
  - destruct (c_expr f 0 []) as [[a1 r1]|] eqn:E; [|discriminate]. eapply Hgen; eauto; try exact I.
  - destruct t;
      try (destruct (c_expr f 0 _) as [[a1 r1]|] eqn:E in H; [|discriminate]; eapply Hgen; eauto; try exact I).
    inversion H; subst. destruct F as [|F]; [simpl in HF; lia|]. reflexivity.
Qed.

Lemma all_P : forall n ts, length ts < n -> P_all ts.
Proof.
  induction n as [|n IHn]; intros ts Hn; [lia|].
  assert (IH : IHyp ts) by (intros ts' Hlt; apply IHn; lia).
  pose proof (step_operand ts IH) as Ho.
  pose proof (step_expr ts Ho IH) as He.
  pose proof (step_chain ts IH) as Hc.
  pose proof (step_args ts He IH) as Ha.
  pose proof (step_tl ts IH) as Ht.
  pose proof (step_loop ts IH) as Hl.
  repeat split; assumption.
Qed.

Lemma sim_all : forall ts, P_all ts.
Proof. intros ts. apply (all_P (S (length ts))). lia. Qed.


Lemma parse_rhs_climb : forall ts t, climb ts = Some t -> parse ts = Ok t.
Proof.
  intros ts t H. unfold climb in H.
  destruct (c_expr (climb_fuel ts) 0 ts) as [[e r]|] eqn:E; [|discriminate].
  destruct r; [|discriminate]. inversion H; subst e.
  destruct (sim_all ts) as (_ & He & _).
  unfold parse, parse_rhs.
  rewrite (He _ 0 None true t [] E); [reflexivity|reflexivity|left; auto|unfold fuel_of; lia].
Qed.

Lemma parse_chunk_climb : forall ts t, climb ts = Some t -> parse_chunk false ts = Ok t.
Proof.
  intros ts t H. unfold climb in H.
  destruct (c_expr (climb_fuel ts) 0 ts) as [[e r]|] eqn:E; [|discriminate].
  destruct r; [|discriminate]. inversion H; subst e.
  apply c_expr_inv in E. destruct E as (f1 & l & r1 & _ & Ho & Hl).
  destruct (sim_all ts) as (Hop & _).
  pose proof (c_loop_follow _ _ _ _ _ _ true Hl eq_refl) as Hfo1.
  destruct (Hop f1 l r1 Ho (follow_ok_weaken _ _ Hfo1)) as (e0 & r0 & Hlhs & (f' & Hpf) & Hlen).
  unfold parse_chunk. rewrite Hlhs by (unfold fuel_of; lia). rewrite bind_ok. cbv beta iota.
  destruct (sim_all r0) as (_ & _ & _ & _ & _ & Hlp).
  change [IExpr e0] with (stk e0 []).
  rewrite (Hlp true None true 0 e0 [] (t, [])); [reflexivity| | reflexivity | left; auto | constructor | unfold fuel_of; lia].
  exists f', l, r1. split; [exact Hpf|]. eapply U_nil. exact Hl.
Qed.

(* ------------------------------------------------------------------ statements used by Props_C11 *)
Lemma parse_is_climb_proof : forall ts, wf ts -> parse ts = as_res (climb ts).
Proof. intros ts [e He]. rewrite He. simpl. apply parse_rhs_climb. exact He. Qed.

Lemma chunk_is_climb_proof : forall ts, wf ts -> parse_chunk false ts = as_res (climb ts).
Proof. intros ts [e He]. rewrite He. simpl. apply parse_chunk_climb. exact He. Qed.

(** `-x + 10` *)
Definition witness_unary : list tok := [TPre PreMinus; TSym 1%Z; TBin Plus; TLit NatLit [49%Z; 48%Z]].
(** `(a).m.n` *)
Definition witness_attr_chain : list tok := [TLP false; TSym 1%Z; TRP; TDot true; TSym 2%Z; TDot true; TSym 3%Z].

Lemma unary_operand_legacy_refuted_proof :
  exists ts, wf ts /\ parse_rhs true ts <> as_res (climb ts) /\ parse ts = as_res (climb ts).
Proof.
  exists witness_unary. split; [eexists; vm_compute; reflexivity|]. split; [vm_compute; discriminate | vm_compute; reflexivity].
Qed.

Lemma attr_chain_legacy_refuted_proof :
  exists ts, wf ts /\ parse_rhs true ts <> as_res (climb ts) /\ parse ts = as_res (climb ts).
Proof.
  exists witness_attr_chain. split; [eexists; vm_compute; reflexivity|]. split; [vm_compute; discriminate | vm_compute; reflexivity].
Qed.

(* ------------------------------------------------------------------ totality of the model on every input *)
(** [okres n r]: the model neither ran out of fuel nor hit an enum_unwrap!/unwrap panic, and what it leaves
    unread has at most [n] tokens *)
Definition okres {A} (n : nat) (r : res (A * list tok)) : Prop :=
  r <> Fuel /\ r <> Panic /\ forall a rest, r = Ok (a, rest) -> length rest <= n.

Lemma okres_ok : forall A n (a : A) rest, length rest <= n -> okres n (Ok (a, rest)).
Proof. intros. repeat split; try discriminate. intros a' rest' H'. inversion H'; subst. assumption. Qed.
Lemma okres_err : forall A n, @okres A n Err.
Proof. intros. repeat split; discriminate. Qed.
Lemma okres_unm : forall A n, @okres A n Unmodelled.
Proof. intros. repeat split; discriminate. Qed.
Lemma okres_weaken : forall A n m (r : res (A * list tok)), okres n r -> n <= m -> okres m r.
Proof. intros A n m r (H1 & H2 & H3) Hle. repeat split; auto. intros a rest E. specialize (H3 a rest E). lia. Qed.

Lemma okres_bind : forall A B n m (r : res (A * list tok)) (f : A * list tok -> res (B * list tok)),
  okres n r -> (forall a rest, length rest <= n -> okres m (f (a, rest))) -> okres m (bind r f).
Proof.
  intros A B n m r f (H1 & H2 & H3) Hf. destruct r as [[a rest]| | | |]; simpl.
  - apply Hf. apply (H3 a rest). reflexivity.
  - apply okres_err.
  - congruence.
  - apply okres_unm.
  - congruence.
Qed.

Definition extra (below : list (binop * expr)) : nat := match below with [] => 0 | _ => 1 end.

Definition T_all (F : nat) : Prop :=
  (forall min w ts, 8 * length ts + 2 <= F -> okres (pred (length ts)) (p_expr false F min w ts)) /\
  (forall ts, 8 * length ts + 1 <= F -> okres (pred (length ts)) (p_lhs false F ts)) /\
  (forall obj ts, 8 * length ts + 5 <= F -> okres (length ts) (p_chain false F obj ts)) /\
  (forall obj ts, 8 * length ts + 4 <= F -> okres (length ts) (p_juxt false F obj ts)) /\
  (forall ts, starts_args ts = 1 -> 8 * length ts + 3 <= F -> okres (pred (length ts)) (p_args false F ts)) /\
  (forall lp acc ts, 8 * length ts + 2 <= F -> okres (length ts) (p_args_loop false F lp acc ts)) /\
  (forall chunk min w top below ts, 8 * length ts + 4 + extra below <= F ->
      okres (length ts) (p_loop false F chunk min w (stk top below) ts)).

Lemma loop_exit_single : forall e ts, loop_exit [IExpr e] ts = Ok (e, ts).
Proof. reflexivity. Qed.

Lemma okres_bind' : forall A B n m (r : res (A * list tok)) (f : A * list tok -> res (B * list tok)),
  okres n r -> (forall a rest, r = Ok (a, rest) -> length rest <= n -> okres m (f (a, rest))) -> okres m (bind r f).
Proof.
  intros A B n m r f (H1 & H2 & H3) Hf. destruct r as [[a rest]| | | |]; simpl.
  - apply Hf; [reflexivity|]. apply (H3 a rest). reflexivity.
  - apply okres_err.
  - congruence.
  - apply okres_unm.
  - congruence.
Qed.

Lemma starts_args_nonempty : forall ts, starts_args ts = 1 -> 1 <= length ts.
Proof. intros [|t r] H; [discriminate|simpl; lia]. Qed.

Section Step.
Variable F : nat.
Hypothesis IH : T_all F.

Let IHe := proj1 IH.
Let IHl := proj1 (proj2 IH).
Let IHc := proj1 (proj2 (proj2 IH)).
Let IHj := proj1 (proj2 (proj2 (proj2 IH))).
Let IHa := proj1 (proj2 (proj2 (proj2 (proj2 IH)))).
Let IHt := proj1 (proj2 (proj2 (proj2 (proj2 (proj2 IH))))).
Let IHp := proj2 (proj2 (proj2 (proj2 (proj2 (proj2 IH))))).

Lemma T_expr : forall min w ts, 8 * length ts + 2 <= S F -> okres (pred (length ts)) (p_expr false (S F) min w ts).
Proof.
  intros min w ts HF. simpl.
  eapply okres_bind'; [apply IHl; lia|]. intros e r Heq Hr. cbv beta iota.
  destruct ts as [|t ts'].
  - destruct F; [lia|]. simpl in Heq. discriminate.
  - simpl length in *. simpl pred in *.
    eapply okres_weaken; [apply (IHp false min w e [] r); simpl; lia | exact Hr].
Qed.

Lemma T_lhs : forall ts, 8 * length ts + 1 <= S F -> okres (pred (length ts)) (p_lhs false (S F) ts).
Proof.
  intros ts HF. destruct ts as [|t r]; [apply okres_err|]. simpl length in *. simpl pred.
  destruct t.
  - (* identifier *) simpl. apply IHc. lia.
  - (* literal *) simpl. destruct r as [|t1 r1]; [apply okres_ok; simpl; lia|].
    destruct t1; try (apply okres_ok; simpl; lia); apply okres_unm.
  - apply okres_err.
  - (* prefix *) simpl. destruct (is_unary_cat p); [|apply okres_unm].
    eapply okres_bind'; [apply IHe; lia|]. intros e r' _ Hr. cbv beta iota. apply okres_ok. lia.
  - apply okres_unm.
  - (* parenthesis *)
    assert (Hgen : okres (length r)
                     (bind (p_expr false F None true r)
                           (fun '(e, r') => match r' with TRP :: r'' => Ok (e, r'') | _ => Err end))).
    { eapply okres_bind'; [apply IHe; lia|]. intros e r' _ Hr. cbv beta iota.
      destruct r' as [|t1 r1]; [apply okres_err|]. destruct t1; try apply okres_err.
      apply okres_ok. simpl in Hr. lia. }
    simpl. destruct r as [|t1 r1]; [exact Hgen|]. destruct t1; try exact Hgen. apply okres_unm.
  - apply okres_err.
  - apply okres_err.
Qed.

Lemma T_juxt : forall obj ts, 8 * length ts + 4 <= S F -> okres (length ts) (p_juxt false (S F) obj ts).
Proof.
  intros obj ts HF. simpl. destruct (starts_args ts) as [|[|[|k]]] eqn:E; try (apply okres_ok; lia).
  - pose proof (starts_args_nonempty _ E).
    eapply okres_bind'; [apply IHa; [exact E|lia]|]. intros args r _ Hr. cbv beta iota.
    eapply okres_weaken; [apply IHj; lia | lia].
  - apply okres_unm.
Qed.

Lemma T_chain : forall obj ts, 8 * length ts + 5 <= S F -> okres (length ts) (p_chain false (S F) obj ts).
Proof.
  intros obj ts HF.
  assert (Hj : okres (length ts) (p_juxt false F obj ts)) by (apply IHj; lia).
  destruct ts as [|t r]; [exact Hj|]. destruct t; try exact Hj.
  - (* `.` *) destruct adj; [|exact Hj]. simpl.
    destruct r as [|t2 r']; [apply okres_err|].
    destruct t2; try apply okres_err.
    + eapply okres_weaken; [apply IHc; simpl in HF; lia | simpl; lia].
    + destruct k; try apply okres_err. apply okres_unm.
  - (* `(` *) destruct adj; [|exact Hj]. simpl p_chain.
    change (p_chain false (S F) obj (TLP true :: r))
      with (bind (p_args false F (TLP true :: r)) (fun '(args, r0) => p_chain false F (mk_call obj args) r0)).
    eapply okres_bind'; [apply IHa; [reflexivity|lia]|]. intros args r0 _ Hr. cbv beta iota.
    simpl in Hr. eapply okres_weaken; [apply IHc; simpl in HF; lia | simpl; lia].
Qed.

Lemma T_tl : forall lp acc ts, 8 * length ts + 2 <= S F -> okres (length ts) (p_args_loop false (S F) lp acc ts).
Proof.
  intros lp acc ts HF. destruct ts as [|t r]; [apply okres_ok; lia|].
  destruct t; try (apply okres_ok; lia).
  - (* `)` *) simpl. destruct lp; apply okres_ok; simpl; lia.
  - (* `,` *)
    assert (Hgen : okres (length (TComma :: r))
                     (bind (p_expr false F None false r)
                           (fun '(a, r1) => p_args_loop false F lp (acc ++ [a]) r1))).
    { eapply okres_bind'; [apply IHe; simpl in HF; lia|]. intros a r1 _ Hr. cbv beta iota.
      eapply okres_weaken; [apply IHt; simpl in HF; lia | simpl; lia]. }
    simpl p_args_loop. destruct r as [|t1 r1]; [exact Hgen|]. destruct t1; try exact Hgen.
    + destruct lp; [apply okres_ok; simpl; lia | apply okres_err].
    + apply okres_err.
Qed.

Lemma T_args : forall ts, starts_args ts = 1 -> 8 * length ts + 3 <= S F -> okres (pred (length ts)) (p_args false (S F) ts).
Proof.
  intros ts Hs HF.
  assert (Hgen : forall lp r0, length r0 <= length ts -> (lp = false -> r0 = ts) -> (lp = true -> S (length r0) = length ts) ->
                 okres (pred (length ts))
                   (bind (p_expr false F None false r0) (fun '(a, r1) => p_args_loop false F lp [a] r1))).
  { intros lp r0 Hle Hf Ht. pose proof (starts_args_nonempty _ Hs).
    eapply okres_bind'; [apply IHe; lia|]. intros a r1 _ Hr. cbv beta iota.
    eapply okres_weaken; [apply IHt; lia | lia]. }
  destruct ts as [|t r]; [discriminate|]. destruct t; try discriminate.
  - simpl. apply (Hgen false); auto; intros; discriminate.
  - simpl. apply (Hgen false); auto; intros; discriminate.
  - simpl in Hs. simpl. apply (Hgen false); auto; intros; discriminate.
  - (* with parentheses *)
    simpl p_args. destruct r as [|t1 r1].
    + apply (Hgen true []); simpl; auto; intros; discriminate.
    + destruct t1; try (apply (Hgen true); simpl; auto; intros; discriminate).
      apply okres_ok. simpl. lia.
Qed.

Lemma finish_okres : forall chunk min w top below ts, 8 * length ts + 4 + extra below <= S F ->
  okres (length ts)
    (if length (stk top below) <=? 1 then loop_exit (stk top below) ts
     else bind (collect_all (length (stk top below)) (stk top below))
               (fun st' => p_loop false F chunk min w st' ts)).
Proof.
  intros chunk min w top below ts HF. rewrite (stk_length top below).
  destruct below as [|[o l] b].
  - simpl. apply okres_ok. lia.
  - replace (S (2 * length ((o, l) :: b)) <=? 1) with false by (symmetry; apply Nat.leb_gt; simpl; lia).
    rewrite collect_all_stk by (simpl; lia). rewrite bind_ok.
    apply (IHp chunk min w (fold_stack top ((o, l) :: b)) [] ts). simpl in *. lia.
Qed.

Lemma T_loop : forall chunk min w top below ts, 8 * length ts + 4 + extra below <= S F ->
  okres (length ts) (p_loop false (S F) chunk min w (stk top below) ts).
Proof.
  intros chunk min w top below ts HF.
  pose proof (finish_okres chunk min w top below ts HF) as Hfin.
  assert (Hjux : forall t r, ts = t :: r -> starts_args ts = 1 ->
            okres (length ts)
              (bind (p_args false F ts)
                    (fun '(args, r0) => match stk top below with
                                        | IExpr obj :: st' => p_loop false F chunk min w (IExpr (mk_call obj args) :: st') r0
                                        | _ => Panic
                                        end))).
  { intros t r -> Hs. eapply okres_bind'; [apply IHa; [exact Hs|simpl in *; lia]|]. intros args r0 _ Hr. cbv beta iota.
    unfold stk at 1. change (IExpr (mk_call top args) :: stk_below below) with (stk (mk_call top args) below).
    eapply okres_weaken; [apply IHp; simpl in *; destruct below; simpl; lia | simpl in *; lia]. }
  destruct ts as [|t r]; [exact Hfin|].
  destruct t.
  - (* identifier *) destruct chunk; [|exact Hfin]. simpl p_loop. eapply Hjux; reflexivity.
  - (* literal *) destruct chunk; [|exact Hfin]. simpl p_loop. eapply Hjux; reflexivity.
  - (* binary operator *)
    destruct (if chunk then true else min_ok min o) eqn:Hg.
    + rewrite p_loop_bin_acc by exact Hg. rewrite reduce_model, bind_ok.
      eapply okres_bind'; [apply IHl; simpl in HF; lia|]. intros e r' _ Hr. cbv beta iota.
      change (IExpr e :: IOp o :: stk (fst (reduce_spec o top below)) (snd (reduce_spec o top below)))
        with (stk e ((o, fst (reduce_spec o top below)) :: snd (reduce_spec o top below))).
      eapply okres_weaken; [apply IHp; simpl in *; lia | simpl; lia].
    + rewrite p_loop_finish; [exact Hfin|]. simpl. rewrite Hg. reflexivity.
  - (* prefix operator *) exact Hfin.
  - (* `.` *)
    destruct r as [|t2 r']; [apply okres_err|].
    destruct t2; try apply okres_err.
    rewrite p_loop_dot.
    assert (Hattr : okres (length (TDot adj :: TSym n :: r')) (p_loop false F chunk min w (stk (EAttr top n) below) r')).
    { eapply okres_weaken; [apply IHp; simpl in *; destruct below; simpl; lia | simpl; lia]. }
    destruct (match r' with TDot true :: _ => true | _ => false end); [exact Hattr|].
    destruct (starts_args r') as [|[|[|k]]] eqn:Es; try exact Hattr.
    + pose proof (starts_args_nonempty _ Es).
      eapply okres_bind'; [apply IHa; [exact Es|simpl in *; lia]|]. intros args r0 _ Hr. cbv beta iota.
      eapply okres_weaken; [apply IHp; simpl in *; destruct below; simpl; lia | simpl; lia].
    + apply okres_unm.
  - (* `(` *) exact Hfin.
  - (* `)` *) exact Hfin.
  - (* `,` *) destruct w; [apply okres_unm|]. exact Hfin.
Qed.

End Step.

Lemma T_all_holds : forall F, T_all F.
Proof.
  induction F as [|F IH].
  - repeat split; intros; try lia; exfalso; lia.
  - unfold T_all.
    split; [intros; apply (T_expr F IH); assumption|].
    split; [intros; apply (T_lhs F IH); assumption|].
    split; [intros; apply (T_chain F IH); assumption|].
    split; [intros; apply (T_juxt F IH); assumption|].
    split; [intros; apply (T_args F IH); assumption|].
    split; [intros; apply (T_tl F IH); assumption|].
    intros; apply (T_loop F IH); assumption.
Qed.

(** no input makes the parser model run out of fuel, and no enum_unwrap!/unwrap on the modelled path can fail *)
Lemma parse_total_proof : forall ts,
  parse ts <> Fuel /\ parse ts <> Panic /\ parse_chunk false ts <> Fuel /\ parse_chunk false ts <> Panic.
Proof.
  intros ts.
  assert (H1 : okres (pred (length ts)) (p_expr false (fuel_of ts) None true ts)).
  { apply (proj1 (T_all_holds (fuel_of ts))). unfold fuel_of. lia. }
  assert (H2 : okres (pred (length ts)) (p_lhs false (fuel_of ts) ts)).
  { apply (proj1 (proj2 (T_all_holds (fuel_of ts)))). unfold fuel_of. lia. }
  split; [|split; [|split]].
  - unfold parse, parse_rhs. destruct H1 as (Ha & Hb & _).
    destruct (p_expr false (fuel_of ts) None true ts) as [[e r]| | | |]; simpl; try congruence; destruct r; discriminate.
  - unfold parse, parse_rhs. destruct H1 as (Ha & Hb & _).
    destruct (p_expr false (fuel_of ts) None true ts) as [[e r]| | | |]; simpl; try congruence; destruct r; discriminate.
  - unfold parse_chunk. destruct H2 as (Ha & Hb & Hc).
    destruct (p_lhs false (fuel_of ts) ts) as [[e r]| | | |]; simpl; try congruence.
    specialize (Hc e r eq_refl).
    assert (H3 : okres (length r) (p_loop false (fuel_of ts) true None true (stk e []) r)).
    { apply (proj2 (proj2 (proj2 (proj2 (proj2 (proj2 (T_all_holds (fuel_of ts)))))))). unfold fuel_of. simpl. lia. }
    destruct H3 as (Hd & He & _). unfold stk in Hd, He. simpl in Hd, He.
    destruct (p_loop false (fuel_of ts) true None true [IExpr e] r) as [[e' r']| | | |]; simpl; try congruence; destruct r'; discriminate.
  - unfold parse_chunk. destruct H2 as (Ha & Hb & Hc).
    destruct (p_lhs false (fuel_of ts) ts) as [[e r]| | | |]; simpl; try congruence.
    specialize (Hc e r eq_refl).
    assert (H3 : okres (length r) (p_loop false (fuel_of ts) true None true (stk e []) r)).
    { apply (proj2 (proj2 (proj2 (proj2 (proj2 (proj2 (T_all_holds (fuel_of ts)))))))). unfold fuel_of. simpl. lia. }
    destruct H3 as (Hd & He & _). unfold stk in Hd, He. simpl in Hd, He.
    destruct (p_loop false (fuel_of ts) true None true [IExpr e] r) as [[e' r']| | | |]; simpl; try congruence; destruct r'; discriminate.
Qed.
