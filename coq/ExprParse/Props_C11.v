(** C11 — property theorems (proofs are in Tables.v / Proofs.v).

    Property: every expression built from binary operators, prefix operators, method calls and parentheses parses
    into the tree given by the operator precedence table (member access > ** > prefix + - ~ > * / // % > + - >
    shifts > && > ^^ > || > ranges > comparisons > and > or), binary operators group to the left, a minus sign
    directly before a numeric literal is part of the literal.

    Model.parse / Model.parse_chunk false: the parser as it is now (after the two repairs recorded in
    known/C11.json); Model.parse_rhs true / parse_chunk true: the parser before the repairs. *)
From Coq Require Import ZArith NArith List Bool Arith.
From ErgV Require Import gen.Prec Common.Sx ExprParse.Model ExprParse.Spec ExprParse.Tables ExprParse.Proofs.
Import ListNotations.
Local Open Scope nat_scope.

(** The table generated from token.rs induces exactly the documented order (Spec.lvl, Spec.pre_lvl), ties
    included; every binary operator has category BinOp, a precedence, and is not right-associative (the
    reduction loop uses `>=` only, so all of them, `**` too, group to the left: see left_assoc_example);
    prefix + - ~ have category UnaryOp and sit strictly between ** and * / // %; `.` binds tighter than all. *)
Theorem prec_table_documented :
  (forall a b : binop, opt_ge (prec_b a) (prec_b b) = (lvl b <=? lvl a)) /\
  (forall (p : preop) (o : binop),
      opt_gt (prec_b o) (prec_p p) = (pre_lvl <? lvl o) /\ opt_gt (prec_p p) (prec_b o) = (lvl o <? pre_lvl)) /\
  (forall o : binop, is_binop_cat o = true /\ (exists n, prec_b o = Some n)
                     /\ existsb (N.eqb (binop_kind o)) right_assoc = false) /\
  (forall p : preop, is_unary_cat p = true /\ exists n, prec_p p = Some n) /\
  (forall o : binop, opt_gt (precedence kind_Dot) (prec_b o) = true) /\
  (forall p : preop, opt_gt (precedence kind_Dot) (prec_p p) = true).
Proof. exact prec_table_documented_proof. Qed.

(** Full statement, no bound on length or nesting depth: for every token list of the documented grammar, the tree
    built by try_reduce_expr's operator stack (right-hand side of `x = ...`) is the precedence-climbing tree.
    No Known_C11 guard is left: both defect classes found were repaired (see the _refuted theorems below). *)
Theorem parse_is_climb : forall ts, wf ts -> parse ts = as_res (climb ts).
Proof. exact parse_is_climb_proof. Qed.

(** the same for a bare expression statement (the second copy of the loop, in try_reduce_chunk) *)
Theorem chunk_is_climb : forall ts, wf ts -> parse_chunk false ts = as_res (climb ts).
Proof. exact chunk_is_climb_proof. Qed.

(** The fuel of the entry points (Model.fuel_of, 8 * length + 8) is enough for EVERY token list, well-formed or not,
    and none of the enum_unwrap!/unwrap() on the modelled path can fail (the operator stack always alternates
    expression, operator, expression ...; in particular the `_ =>` arm never meets a two-element stack, on which
    it would spin).  So Err / Unmodelled are the only other outcomes of the model. *)
Theorem parse_total : forall ts,
  parse ts <> Fuel /\ parse ts <> Panic /\ parse_chunk false ts <> Fuel /\ parse_chunk false ts <> Panic.
Proof. exact parse_total_proof. Qed.

(** Lexical part. (1) The prefix/infix decision of Lexer::op_fix is the documented spacing rule, for every token
    category that can precede an operator in an operator expression. (2) When `-` is in prefix position and a
    number follows immediately, the lexer emits ONE literal token whose text starts with '-' (kind IntLit unless
    the digits are all zero, RatioLit for a ratio) and continues after the number; a literal token is an operand
    leaf for the parser (second conjunct: whatever follows, the reference reads `TLit k s` as the leaf ELit k s). *)
Theorem neg_literal :
  (forall c sp_before sp_after,
      (In c operand_cats -> op_fix c sp_before (Some sp_after) = Some (spec_fix true sp_before sp_after)) /\
      (In c operator_cats -> forall a, op_fix c sp_before a = Some (spec_fix false sp_before sp_after))) /\
  (forall prev_cat sp ratio s rest ts,
      op_fix prev_cat sp (Some false) = Some Prefix ->
      lex_from prev_cat ((sp, LOp SMinus) :: (false, LNum ratio s) :: rest) = LexOk ts ->
      exists ts', ts = TLit (num_kind true ratio s) (minus_cp :: s) :: ts'
                  /\ lex_from (num_cat true ratio s) rest = LexOk ts') /\
  (forall k s, parse [TLit k s] = Ok (ELit k s) /\ climb [TLit k s] = Some (ELit k s)).
Proof. exact neg_literal_proof. Qed.

(** Findings (both repaired in /repo; the witnesses are the replays in known/C11.json).
    Before the repair try_reduce_unary parsed its operand with try_reduce_expr: `-x + 10` was `-(x + 10)`. *)
Theorem unary_operand_legacy_refuted :
  exists ts, wf ts /\ parse_rhs true ts <> as_res (climb ts) /\ parse ts = as_res (climb ts).
Proof. exact unary_operand_legacy_refuted_proof. Qed.

(** Before the repair `(a).m.n` was the call `(a).m(.n)`: outside the modelled fragment, not the chain. *)
Theorem attr_chain_legacy_refuted :
  exists ts, wf ts /\ parse_rhs true ts <> as_res (climb ts) /\ parse ts = as_res (climb ts).
Proof. exact attr_chain_legacy_refuted_proof. Qed.

(* ------------------------------------------------------------------ non-vacuity *)
(** a + b * c ** -d ** e - f . m ( g , h ) < (i or j) and k   is well-formed, with a non-trivial tree *)
Example wf_example :
  let ts := [TSym 1; TBin Plus; TSym 2; TBin Star; TSym 3; TBin Pow; TPre PreMinus; TSym 4; TBin Pow; TSym 5;
             TBin Minus; TSym 6; TDot true; TSym 20; TLP true; TSym 7; TComma; TSym 8; TRP; TBin Less;
             TLP false; TSym 9; TBin OrOp; TSym 10; TRP; TBin AndOp; TSym 11] in
  wf ts /\ parse ts = as_res (climb ts) /\
  climb ts = Some (EBin AndOp
                     (EBin Less
                        (EBin Minus
                           (EBin Plus (EId 1)
                              (EBin Star (EId 2) (EBin Pow (EId 3) (EUn PreMinus (EBin Pow (EId 4) (EId 5))))))
                           (ECall (EId 6) (Some 20%Z) [EId 7; EId 8]))
                        (EBin OrOp (EId 9) (EId 10)))
                     (EId 11)).
Proof. vm_compute. split; [eexists; reflexivity | split; reflexivity]. Qed.

(** binary operators group to the left, `**` included: a - b - c and 2 ** 3 ** 2 *)
Example left_assoc_example :
  parse [TSym 1; TBin Minus; TSym 2; TBin Minus; TSym 3] = Ok (EBin Minus (EBin Minus (EId 1) (EId 2)) (EId 3)) /\
  parse [TLit NatLit [50%Z]; TBin Pow; TLit NatLit [51%Z]; TBin Pow; TLit NatLit [50%Z]]
  = Ok (EBin Pow (EBin Pow (ELit NatLit [50%Z]) (ELit NatLit [51%Z])) (ELit NatLit [50%Z])).
Proof. vm_compute. split; reflexivity. Qed.

(** `x = -1 ** 2`: the lexer makes `-1` one literal, so the tree is (-1) ** 2; `x = - 1 ** 2` is -(1 ** 2) *)
Example neg_literal_example :
  lex cat_DefOp [(true, LOp SMinus); (false, LNum false [49%Z]); (true, LOp SDblStar); (true, LNum false [50%Z])]
  = LexOk [TLit IntLit [45%Z; 49%Z]; TBin Pow; TLit NatLit [50%Z]] /\
  parse [TLit IntLit [45%Z; 49%Z]; TBin Pow; TLit NatLit [50%Z]]
  = Ok (EBin Pow (ELit IntLit [45%Z; 49%Z]) (ELit NatLit [50%Z])) /\
  lex cat_DefOp [(true, LOp SMinus); (true, LNum false [49%Z]); (true, LOp SDblStar); (true, LNum false [50%Z])]
  = LexOk [TPre PreMinus; TLit NatLit [49%Z]; TBin Pow; TLit NatLit [50%Z]] /\
  parse [TPre PreMinus; TLit NatLit [49%Z]; TBin Pow; TLit NatLit [50%Z]]
  = Ok (EUn PreMinus (EBin Pow (ELit NatLit [49%Z]) (ELit NatLit [50%Z]))).
Proof. vm_compute. repeat split; reflexivity. Qed.
