(** extraction entry point for the C25 correspondence check and judges *)
(* built before extraction (lib/vplib.py Model reads these names): ErgV.Common.Sx ErgV.Framing.Model ErgV.Framing.Spec *)
From Coq Require Import ZArith List Bool Arith.
From ErgV Require Import Common.Sx Framing.Model Framing.Spec.
Import ListNotations.
Open Scope Z_scope.

Definition dec_msg (x : sx) : msg := Msg (sx_z (sx_nth x 0)) (sx_zs (sx_nth x 1)).
Definition enc_msg (m : msg) : sx := SL [SZ (m_inst m); sx_of_zs (m_data m)].
Definition dec_nats (x : sx) : list nat := map sx_to_nat (sx_l x).

(* error codes on the wire: 0 none | 1 end of file | 2 fuel | 3 overflow | 4 write returned 0 *)
Definition enc_err (e : err) : sx :=
  SZ (match e with EEof => 1 | EFuel => 2 | EOverflow => 3 | EWriteZero => 4 end).
Definition enc_oerr (e : option err) : sx := match e with None => SZ 0 | Some e => enc_err e end.
Definition enc_recv (r : list msg * option err) : sx := SL [SL (map enc_msg (fst r)); enc_oerr (snd r)].
Definition enc_send (r : list Z * res unit * list nat) : sx :=
  match r with (w, o, _) => SL [sx_of_zs w; match o with Ok _ => SZ 0 | Err e => enc_err e end] end.

(* side: 0 Rust now | 1 Python now | 10 Rust before the fixes | 11 Python before the fixes *)
Definition send_of (side : Z) : msg -> list nat -> list Z * res unit * list nat :=
  if side =? 0 then rust_send_msg
  else if side =? 1 then py_send_msg
  else if side =? 10 then c_send codec_nofix
  else py_send_msg_nofix.
Definition enc_of (side : Z) : msg -> res (list Z) :=
  if side =? 0 then rust_encode
  else if side =? 1 then py_encode
  else if side =? 10 then rust_encode_nofix
  else py_encode_nofix.
Definition recv_all_of (side : Z) : src -> list msg * option err :=
  if side =? 0 then rust_recv_all
  else if side =? 1 then py_recv_all
  else if side =? 10 then rust_recv_all_nofix
  else py_recv_all_nofix.

(* echo-like session handler used for the model-level session runs: state = number of requests so far,
   answer = PRINT (state :: first 3 bytes of the request ++ length of the request in 3 bytes) *)
Definition probe_handler (n : Z) (m : msg) : Z * msg :=
  let l := Z.of_nat (length (m_data m)) in
  (n + 1, Msg 1 (n mod 256 :: firstn 3 (m_data m) ++ [l / 65536; (l / 256) mod 256; l mod 256])).
Definition dec_round (x : sx) : round :=
  Round (dec_msg (sx_nth x 0)) (dec_nats (sx_nth x 1)) (dec_nats (sx_nth x 2))
        (dec_nats (sx_nth x 3)) (dec_nats (sx_nth x 4)).

(** modes:
    (0 side (inst data) wchunks)      -> (wire err)            send_msg under a write chunking
    (1 side bytes rchunks)            -> (msgs err)            recv_msg until the stream is used up
    (2 side msgs rchunks)             -> (stream msgs err)     frames of all messages, then as mode 1 (err 3/2 if framing fails)
    (3 sent (msgs err))               -> 0/1                   judge_transport (err: 0 = none)
    (4 codec rounds)                  -> (answers err expected) session with probe_handler; codec 0 now | 1 before the fixes
    (5 (inst data))                   -> 0/1                   is the payload larger than one frame *)
Definition run (x : sx) : sx :=
  let mode := sx_z (sx_nth x 0) in
  if mode =? 0 then
    enc_send (send_of (sx_z (sx_nth x 1)) (dec_msg (sx_nth x 2)) (dec_nats (sx_nth x 3)))
  else if mode =? 1 then
    enc_recv (recv_all_of (sx_z (sx_nth x 1)) (Src (sx_zs (sx_nth x 2)) (dec_nats (sx_nth x 3))))
  else if mode =? 2 then
    let side := sx_z (sx_nth x 1) in
    match encode_all (enc_of side) (map dec_msg (sx_l (sx_nth x 2))) with
    | Ok bs =>
      match enc_recv (recv_all_of side (Src bs (dec_nats (sx_nth x 3)))) with
      | SL [ms; e] => SL [sx_of_zs bs; ms; e]
      | y => y
      end
    | Err e => SL [SL []; SL []; enc_err e]
    end
  else if mode =? 3 then
    let got := sx_nth x 2 in
    let e := sx_z (sx_nth got 1) in
    sx_bool (judge_transport (map dec_msg (sx_l (sx_nth x 1)))
                             (map dec_msg (sx_l (sx_nth got 0)), if e =? 0 then None else Some EEof))
  else if mode =? 4 then
    let cd := if sx_z (sx_nth x 1) =? 0 then codec_now else codec_nofix in
    let rounds := map dec_round (sx_l (sx_nth x 2)) in
    let r := run_history Z probe_handler cd (Sys 0 [] []) rounds in
    SL [SL (map enc_msg (fst r)); enc_oerr (snd r);
        SL (map enc_msg (ref_run Z probe_handler 0 (map r_req rounds)))]
  else
    sx_bool (MAXF <=? Z.of_nat (length (m_data (dec_msg (sx_nth x 1))))).

Require Extraction.
Require Import ExtrOcamlBasic.
Extraction Language OCaml.
Extraction "model.ml" run.
