(** C25 — proofs about the framing model (Model.v) against the specification (Spec.v). *)
From Coq Require Import ZArith List Bool Arith Lia.
From ErgV Require Import Framing.Model Framing.Spec.
Import ListNotations.
Open Scope Z_scope.


(** * Lists *)
Lemma firstn_add : forall (A : Type) (a b : nat) (l : list A),
  firstn (a + b) l = firstn a l ++ firstn b (skipn a l).
Proof.
  induction a as [|a IH]; intros b l; [reflexivity|].
  destruct l as [|x l]; cbn [Nat.add firstn skipn app].
  - now rewrite firstn_nil.
  - now rewrite IH.
Qed.

Lemma skipn_add : forall (A : Type) (a b : nat) (l : list A),
  skipn (a + b) l = skipn b (skipn a l).
Proof.
  induction a as [|a IH]; intros b l; [reflexivity|].
  destruct l as [|x l]; cbn [Nat.add skipn].
  - now rewrite skipn_nil.
  - apply IH.
Qed.

Lemma firstn_app_exact : forall (A : Type) (a b : list A) n, length a = n -> firstn n (a ++ b) = a.
Proof.
  intros A a b n <-. rewrite firstn_app, Nat.sub_diag, firstn_all. cbn. now rewrite app_nil_r.
Qed.

Lemma skipn_app_exact : forall (A : Type) (a b : list A) n, length a = n -> skipn n (a ++ b) = b.
Proof.
  intros A a b n <-. rewrite skipn_app, Nat.sub_diag, skipn_all. reflexivity.
Qed.

(** * The chunked source *)
Lemma next_chunk_range : forall n sch k sch',
  (0 < n)%nat -> next_chunk n sch = (k, sch') -> (1 <= k <= n)%nat.
Proof.
  intros n sch k sch' Hn H. unfold next_chunk in H. destruct sch as [|[|c] r]; inversion H; subst; lia.
Qed.

(** [read_exact] delivers exactly the next [n] bytes whatever the chunking, if they are there *)
Lemma read_exact_f_ok : forall fuel n p sch,
  (n <= fuel)%nat -> (n <= length p)%nat ->
  exists sch', read_exact_f fuel n (Src p sch) = (Ok (firstn n p), Src (skipn n p) sch').
Proof.
  induction fuel as [|f IH]; intros n p sch Hf Hp.
  - assert (n = O) by lia. subst. exists sch. reflexivity.
  - destruct n as [|n']; [exists sch; reflexivity|].
    destruct p as [|z p']; [cbn in Hp; lia|].
    cbn [read_exact_f sread pending sched].
    destruct (next_chunk (S n') sch) as [k sch1] eqn:Hk.
    apply next_chunk_range in Hk; [|lia].
    destruct k as [|k']; [lia|].
    assert (Hlen : length (firstn (S k') (z :: p')) = S k') by (apply firstn_length_le; lia).
    remember (firstn (S k') (z :: p')) as got eqn:Hgot.
    destruct got as [|g gs]; [cbn in Hlen; lia|].
    rewrite Hlen.
    destruct (IH (S n' - S k')%nat (skipn (S k') (z :: p')) sch1) as [sch2 E].
    + lia.
    + rewrite skipn_length. lia.
    + rewrite E. exists sch2. f_equal.
      * f_equal. rewrite Hgot.
        replace (S n') with (S k' + (S n' - S k'))%nat at 2 by lia.
        now rewrite firstn_add.
      * f_equal.
        replace (S n') with (S k' + (S n' - S k'))%nat at 2 by lia.
        now rewrite skipn_add.
Qed.

(** ... and reports end-of-file, never running out of fuel, if they are not *)
Lemma read_exact_f_eof : forall fuel n p sch,
  (n <= fuel)%nat -> (length p < n)%nat ->
  exists s', read_exact_f fuel n (Src p sch) = (Err EEof, s').
Proof.
  induction fuel as [|f IH]; intros n p sch Hf Hp; [lia|].
  destruct n as [|n']; [lia|].
  destruct p as [|z p']; [eexists; reflexivity|].
  cbn [read_exact_f sread pending sched].
  destruct (next_chunk (S n') sch) as [k sch1] eqn:Hk.
  apply next_chunk_range in Hk; [|lia].
  destruct k as [|k']; [lia|].
  remember (firstn (S k') (z :: p')) as got eqn:Hgot.
  assert (Hlen : length got = Nat.min (S k') (length (z :: p'))) by (subst; apply firstn_length).
  destruct got as [|g gs]; [cbn in Hlen; lia|].
  destruct (IH (S n' - length (g :: gs))%nat (skipn (S k') (z :: p')) sch1) as [s' E].
  - rewrite Hlen. cbn [length]. lia.
  - rewrite skipn_length, Hlen. cbn [length] in *. lia.
  - rewrite E. eexists. reflexivity.
Qed.

Lemma read_exact_fuel : forall n s r s', read_exact n s = (r, s') -> r <> Err EFuel.
Proof.
  intros n [p sch] r s' H. unfold read_exact in H.
  destruct (le_lt_dec n (length p)) as [Hle|Hlt].
  - destruct (read_exact_f_ok n n p sch (le_n _) Hle) as [x E]. rewrite E in H. inversion H. discriminate.
  - destruct (read_exact_f_eof n n p sch (le_n _) Hlt) as [x E]. rewrite E in H. inversion H. discriminate.
Qed.

Lemma read_exact_app : forall a b sch n, length a = n ->
  exists sch', read_exact n (Src (a ++ b) sch) = (Ok a, Src b sch').
Proof.
  intros a b sch n Hn. unfold read_exact.
  assert (Hl : (n <= length (a ++ b))%nat) by (rewrite app_length; lia).
  destruct (read_exact_f_ok n n (a ++ b) sch (le_n _) Hl) as [sch' E].
  exists sch'. rewrite E. now rewrite firstn_app_exact, skipn_app_exact.
Qed.

Lemma py_recv_exact_f_eq : forall fuel n s, py_recv_exact_f fuel n s = read_exact_f fuel n s.
Proof.
  induction fuel as [|f IH]; intros n s; destruct n; try reflexivity.
  all: cbn [py_recv_exact_f read_exact_f]; destruct (sread (S n) s) as [c s1]; destruct c; [reflexivity|];
    now rewrite IH.
Qed.

Lemma py_recv_exact_app : forall a b sch n, length a = n ->
  exists sch', py_recv_exact n (Src (a ++ b) sch) = (Ok a, Src b sch').
Proof.
  intros. unfold py_recv_exact. rewrite py_recv_exact_f_eq. now apply read_exact_app.
Qed.

(** * The chunked sink: write_all / sendall put exactly the buffer on the wire *)
Lemma write_all_f_ok : forall fuel buf wsch, (length buf <= fuel)%nat ->
  exists wsch', write_all_f fuel buf wsch = (buf, Ok tt, wsch').
Proof.
  induction fuel as [|f IH]; intros buf wsch Hf.
  - destruct buf; [exists wsch; reflexivity|cbn in Hf; lia].
  - destruct buf as [|b bs]; [exists wsch; reflexivity|].
    cbn [write_all_f swrite].
    destruct (next_chunk (length (b :: bs)) wsch) as [k w1] eqn:Hk.
    apply next_chunk_range in Hk; [|cbn; lia].
    destruct k as [|k']; [lia|].
    destruct (IH (skipn (S k') (b :: bs)) w1) as [w2 E].
    + rewrite skipn_length. cbn [length] in *. lia.
    + rewrite E. exists w2. now rewrite firstn_skipn.
Qed.

Lemma write_all_ok : forall buf wsch, exists wsch', write_all buf wsch = (buf, Ok tt, wsch').
Proof. intros. apply write_all_f_ok. lia. Qed.

(** * 16-bit big-endian *)
Lemma be16_dec : forall n, 0 <= n <= MAXF -> from_bytes_be (be16 n) = n.
Proof.
  intros n Hn. unfold from_bytes_be, be16. cbn [fold_left].
  pose proof (Z.div_mod n 256). lia.
Qed.
Lemma be16_length : forall n, length (be16 n) = 2%nat.
Proof. reflexivity. Qed.
Lemma from_bytes_be_1 : forall b, from_bytes_be [b] = b.
Proof. intros. unfold from_bytes_be. cbn. lia. Qed.


(** * Frames *)
Definition NF : nat := Z.to_nat MAXF.
Lemma NF_eq : Z.of_nat NF = 65535.
Proof. vm_compute. reflexivity. Qed.
Lemma NF_def : Z.to_nat MAXF = NF.
Proof. reflexivity. Qed.
Global Opaque NF.

Lemma frames_f_short : forall f inst data, Z.of_nat (length data) < MAXF ->
  frames_f (S f) inst data = Ok (inst :: be16 (Z.of_nat (length data)) ++ data).
Proof.
  intros f inst data H. cbn [frames_f]. rewrite Z.min_l by lia.
  destruct (Z.ltb_spec (Z.of_nat (length data)) MAXF); [|lia].
  now rewrite Nat2Z.id, firstn_all.
Qed.

Lemma frames_f_long : forall f inst data, MAXF <= Z.of_nat (length data) ->
  frames_f (S f) inst data =
  match frames_f f inst (skipn NF data) with
  | Ok more => Ok ((inst :: be16 MAXF ++ firstn NF data) ++ more)
  | Err e => Err e
  end.
Proof.
  intros f inst data H. cbn [frames_f]. rewrite Z.min_r by lia.
  destruct (Z.ltb_spec MAXF MAXF); [lia|]. reflexivity.
Qed.

(** the sender's loop never runs out of fuel *)
Lemma frames_total : forall fe inst data, (length data < fe)%nat -> exists bs, frames_f fe inst data = Ok bs.
Proof.
  induction fe as [|f IH]; intros inst data H; [lia|].
  destruct (Z.ltb_spec (Z.of_nat (length data)) MAXF) as [Hs|Hl].
  - rewrite frames_f_short by assumption. eexists; reflexivity.
  - rewrite frames_f_long by assumption.
    destruct (IH inst (skipn NF data)) as [more E].
    + rewrite skipn_length. pose proof NF_eq; unfold MAXF in *; lia.
    + rewrite E. eexists; reflexivity.
Qed.

Lemma frames_nonempty : forall fe inst data bs, frames_f fe inst data = Ok bs -> bs <> [].
Proof.
  intros fe inst data bs H. destruct fe as [|f]; [discriminate|].
  destruct (Z.ltb_spec (Z.of_nat (length data)) MAXF) as [Hs|Hl].
  - rewrite frames_f_short in H by assumption. injection H as <-. discriminate.
  - rewrite frames_f_long in H by assumption.
    destruct (frames_f f inst (skipn NF data)); [injection H as <-|]; discriminate.
Qed.

Lemma frames_length : forall fe inst data bs, frames_f fe inst data = Ok bs -> (length data < length bs)%nat.
Proof.
  induction fe as [|f IH]; intros inst data bs H; [discriminate|].
  destruct (Z.ltb_spec (Z.of_nat (length data)) MAXF) as [Hs|Hl].
  - rewrite frames_f_short in H by assumption. injection H as <-. cbn [length app be16]. lia.
  - rewrite frames_f_long in H by assumption.
    destruct (frames_f f inst (skipn NF data)) as [more|] eqn:E; [injection H as <-|discriminate].
    apply IH in E. rewrite skipn_length in E.
    cbn [length app be16]. rewrite app_length, firstn_length. pose proof NF_eq; unfold MAXF in *; lia.
Qed.

(** * Receiving frames: generic in the receiver's loop *)
Section RecvFrames.
  Variable recvf : nat -> list Z -> src -> res msg * src.
  Variable imap : Z -> Z.
  Hypothesis frame_step : forall f acc inst n d tail sch,
    0 <= n <= MAXF -> length d = Z.to_nat n ->
    exists sch', recvf (S f) acc (Src (inst :: be16 n ++ d ++ tail) sch) =
                 if n <? MAXF then (Ok (Msg (imap inst) (acc ++ d)), Src tail sch')
                 else recvf f (acc ++ d) (Src tail sch').

  Lemma recv_frames : forall fe inst data bs, frames_f fe inst data = Ok bs ->
    forall fr acc rest sch, (length data < fr)%nat ->
    exists sch', recvf fr acc (Src (bs ++ rest) sch) = (Ok (Msg (imap inst) (acc ++ data)), Src rest sch').
  Proof.
    induction fe as [|f IH]; intros inst data bs H fr acc rest sch Hfr; [discriminate|].
    destruct fr as [|fr]; [lia|].
    destruct (Z.ltb_spec (Z.of_nat (length data)) MAXF) as [Hs|Hl].
    - rewrite frames_f_short in H by assumption.
      assert (Hb : bs = inst :: be16 (Z.of_nat (length data)) ++ data) by congruence.
      rewrite Hb; clear Hb H.
      change ((inst :: be16 (Z.of_nat (length data)) ++ data) ++ rest)
        with (inst :: be16 (Z.of_nat (length data)) ++ data ++ rest).
      destruct (frame_step fr acc inst (Z.of_nat (length data)) data rest sch) as [sch' E].
      + lia.
      + now rewrite Nat2Z.id.
      + rewrite E. destruct (Z.ltb_spec (Z.of_nat (length data)) MAXF); [|lia]. now exists sch'.
    - rewrite frames_f_long in H by assumption.
      destruct (frames_f f inst (skipn NF data)) as [more|] eqn:Em; [|discriminate].
      assert (Hb : bs = (inst :: be16 MAXF ++ firstn NF data) ++ more) by congruence.
      rewrite Hb; clear Hb H.
      replace (((inst :: be16 MAXF ++ firstn NF data) ++ more) ++ rest)
        with (inst :: be16 MAXF ++ firstn NF data ++ (more ++ rest))
        by (cbn [app be16]; now rewrite <- app_assoc).
      destruct (frame_step fr acc inst MAXF (firstn NF data) (more ++ rest) sch) as [sch1 E].
      + unfold MAXF; lia.
      + apply firstn_length_le. pose proof NF_eq; unfold MAXF in *; lia.
      + rewrite E. destruct (Z.ltb_spec MAXF MAXF); [lia|].
        destruct (IH inst (skipn NF data) more Em fr (acc ++ firstn NF data) rest sch1) as [sch2 E2].
        * rewrite skipn_length. pose proof NF_eq; unfold MAXF in *; lia.
        * rewrite E2. exists sch2. now rewrite <- app_assoc, firstn_skipn.
  Qed.
End RecvFrames.

Lemma rust_recv_frame_ok : forall inst n d tail sch,
  0 <= n <= MAXF -> length d = Z.to_nat n ->
  exists sch', rust_recv_frame (Src (inst :: be16 n ++ d ++ tail) sch) =
               (Ok (Msg (inst_of_u8 inst) d), Src tail sch').
Proof.
  intros inst n d tail sch Hn Hd. unfold rust_recv_frame.
  destruct (read_exact_app [inst] (be16 n ++ d ++ tail) sch 1 eq_refl) as [s1 E1].
  cbn [app] in E1. rewrite E1.
  destruct (read_exact_app (be16 n) (d ++ tail) s1 2 eq_refl) as [s2 E2]. rewrite E2.
  rewrite be16_dec by assumption.
  destruct (read_exact_app d tail s2 (Z.to_nat n) Hd) as [s3 E3]. rewrite E3.
  rewrite from_bytes_be_1. now exists s3.
Qed.

Lemma rust_more_done : forall fuel inst acc last s, last <> MAXF ->
  rust_recv_more_f fuel inst acc last s = (Ok (Msg inst acc), s).
Proof.
  intros fuel inst acc last s H. destruct fuel; cbn [rust_recv_more_f];
    destruct (Z.eqb_spec last MAXF); congruence.
Qed.

Lemma msg_len_exact : forall d n, 0 <= n <= MAXF -> length d = Z.to_nat n -> msg_len d = n.
Proof. intros d n Hn Hd. unfold msg_len. rewrite Hd. lia. Qed.

(** the continuation loop of [recv_msg], entered with [last = 0xFFFF] *)
Lemma rust_frame_step : forall i0 f acc inst n d tail sch,
  0 <= n <= MAXF -> length d = Z.to_nat n ->
  exists sch', rust_recv_more_f (S f) i0 acc MAXF (Src (inst :: be16 n ++ d ++ tail) sch) =
               if n <? MAXF then (Ok (Msg i0 (acc ++ d)), Src tail sch')
               else rust_recv_more_f f i0 (acc ++ d) MAXF (Src tail sch').
Proof.
  intros i0 f acc inst n d tail sch Hn Hd. cbn [rust_recv_more_f]. rewrite Z.eqb_refl.
  destruct (rust_recv_frame_ok inst n d tail sch Hn Hd) as [sch' E]. rewrite E. cbn [m_data].
  rewrite (msg_len_exact d n Hn Hd). exists sch'.
  destruct (Z.ltb_spec n MAXF) as [Hlt|Hge].
  - apply rust_more_done. lia.
  - replace n with MAXF by lia. reflexivity.
Qed.

Lemma py_frame_step : forall f acc inst n d tail sch,
  0 <= n <= MAXF -> length d = Z.to_nat n ->
  exists sch', py_recv_msg_f (S f) acc (Src (inst :: be16 n ++ d ++ tail) sch) =
               if n <? MAXF then (Ok (Msg inst (acc ++ d)), Src tail sch')
               else py_recv_msg_f f (acc ++ d) (Src tail sch').
Proof.
  intros f acc inst n d tail sch Hn Hd. cbn [py_recv_msg_f].
  destruct (py_recv_exact_app (inst :: be16 n) (d ++ tail) sch 3 eq_refl) as [s1 E1].
  change ((inst :: be16 n) ++ d ++ tail) with (inst :: be16 n ++ d ++ tail) in E1. rewrite E1.
  change (firstn 2 (skipn 1 (inst :: be16 n))) with (be16 n).
  rewrite be16_dec by assumption.
  destruct (py_recv_exact_app d tail s1 (Z.to_nat n) Hd) as [s2 E2]. rewrite E2.
  now exists s2.
Qed.

Definition rust_more_frames (i0 : Z) :=
  recv_frames (fun fuel acc s => rust_recv_more_f fuel i0 acc MAXF s) (fun _ => i0) (rust_frame_step i0).
Definition py_recv_frames := recv_frames py_recv_msg_f (fun i => i) py_frame_step.

(** * The Python sender builds the same frames as the Rust sender *)
Lemma py_frames_eq : forall fe inst data, 0 <= inst <= 255 -> py_frames_f fe inst data = frames_f fe inst data.
Proof.
  induction fe as [|f IH]; intros inst data Hi; [reflexivity|].
  cbn [py_frames_f]. unfold py_to_bytes1.
  destruct (Z.leb_spec 0 inst); [|lia]. destruct (Z.leb_spec inst 255); [|lia]. cbn [andb].
  rewrite !NF_def. unfold py_to_bytes2.
  assert (Hlen : Z.of_nat (length (firstn NF data)) = Z.min (Z.of_nat (length data)) MAXF).
  { rewrite firstn_length. pose proof NF_eq; unfold MAXF; lia. }
  rewrite Hlen.
  destruct (Z.leb_spec 0 (Z.min (Z.of_nat (length data)) MAXF)); [|unfold MAXF in *; lia].
  destruct (Z.leb_spec (Z.min (Z.of_nat (length data)) MAXF) MAXF); [|lia]. cbn [andb].
  destruct (Z.ltb_spec (Z.of_nat (length data)) MAXF) as [Hs|Hl].
  - rewrite frames_f_short by assumption. rewrite Z.min_l by lia.
    destruct (Z.ltb_spec (Z.of_nat (length data)) MAXF); [|lia].
    rewrite firstn_all2 by (pose proof NF_eq; unfold MAXF in *; lia). reflexivity.
  - rewrite frames_f_long by assumption. rewrite Z.min_r by lia.
    destruct (Z.ltb_spec MAXF MAXF); [lia|].
    rewrite IH by assumption. reflexivity.
Qed.

Lemma py_encode_eq : forall m, 0 <= m_inst m <= 255 -> py_encode m = rust_encode m.
Proof. intros m H. unfold py_encode, rust_encode. now apply py_frames_eq. Qed.

Lemma rust_encode_total : forall m, exists bs, rust_encode m = Ok bs.
Proof. intros m. unfold rust_encode. apply frames_total. lia. Qed.


(** * The judge decides equality *)
Lemma zs_eqb_eq : forall a b, zs_eqb a b = true <-> a = b.
Proof.
  induction a as [|x a IH]; destruct b as [|y b]; cbn [zs_eqb]; split; intro H; try reflexivity; try discriminate.
  - apply andb_true_iff in H as [H1 H2]. apply Z.eqb_eq in H1. apply IH in H2. now subst.
  - inversion H; subst. apply andb_true_iff. split; [apply Z.eqb_refl|now apply IH].
Qed.
Lemma msg_eqb_eq : forall a b, msg_eqb a b = true <-> a = b.
Proof.
  intros [i d] [j e]. unfold msg_eqb. cbn [m_inst m_data]. rewrite andb_true_iff, Z.eqb_eq, zs_eqb_eq.
  split; [intros [-> ->]; reflexivity|intro H; inversion H; auto].
Qed.
Lemma msgs_eqb_eq : forall a b, msgs_eqb a b = true <-> a = b.
Proof.
  induction a as [|x a IH]; destruct b as [|y b]; cbn [msgs_eqb]; split; intro H; try reflexivity; try discriminate.
  - apply andb_true_iff in H as [H1 H2]. apply msg_eqb_eq in H1. apply IH in H2. now subst.
  - inversion H; subst. apply andb_true_iff. split; [now apply msg_eqb_eq|now apply IH].
Qed.
Lemma judge_transport_iff : forall sent got, judge_transport sent got = true <-> got = (sent, None).
Proof.
  intros sent [g [e|]]; unfold judge_transport; cbn [fst snd].
  - split; [discriminate|intro H; inversion H].
  - rewrite msgs_eqb_eq. split; [intros ->; reflexivity|intro H; inversion H; reflexivity].
Qed.

Lemma inst_of_u8_wf : forall i, wf_inst i -> inst_of_u8 i = i.
Proof.
  intros i [H0 H6]. unfold inst_of_u8.
  destruct (Z.leb_spec 1 i); destruct (Z.leb_spec i 6); cbn [andb]; lia.
Qed.

(** * Receiving a whole stream of encoded messages, generic in sender and receiver *)
Section RecvAll.
  Variable enc : msg -> res (list Z).
  Variable recv : src -> res msg * src.
  Variable P : msg -> Prop.
  Hypothesis one : forall m b rest sch, P m -> enc m = Ok b ->
    b <> [] /\ exists sch', recv (Src (b ++ rest) sch) = (Ok m, Src rest sch').

  Lemma recv_all_encoded : forall msgs bs, Forall P msgs -> encode_all enc msgs = Ok bs ->
    forall sch fuel, (length bs <= fuel)%nat -> recv_all_f recv fuel (Src bs sch) = (msgs, None).
  Proof.
    induction msgs as [|m r IH]; intros bs HP He sch fuel Hf.
    - cbn in He. injection He as <-. destruct fuel; reflexivity.
    - cbn [encode_all] in He. destruct (enc m) as [b|] eqn:Eb; [|discriminate].
      destruct (encode_all enc r) as [bs'|] eqn:Er; [|discriminate].
      assert (Hbs : bs = b ++ bs') by congruence. subst bs. clear He.
      inversion HP as [|? ? Pm Pr]; subst.
      destruct (one m b bs' sch Pm Eb) as [Hne [sch' E]].
      destruct b as [|z b']; [contradiction|].
      destruct fuel as [|f]; [cbn in Hf; lia|].
      cbn [recv_all_f pending app]. change (z :: b' ++ bs') with ((z :: b') ++ bs'). rewrite E.
      rewrite (IH bs' Pr eq_refl sch' f); [reflexivity|].
      rewrite app_length in Hf. cbn [length] in Hf. lia.
  Qed.
End RecvAll.


Lemma rust_recv_one : forall m b rest sch, wf_msg m -> rust_encode m = Ok b ->
  b <> [] /\ exists sch', rust_recv_msg (Src (b ++ rest) sch) = (Ok m, Src rest sch').
Proof.
  intros [inst data] b rest sch Hw He. unfold rust_encode in He. cbn [m_inst m_data] in He.
  split; [eapply frames_nonempty; eassumption|].
  unfold wf_msg in Hw. cbn [m_inst] in Hw. unfold rust_recv_msg.
  destruct (Z.ltb_spec (Z.of_nat (length data)) MAXF) as [Hs|Hl].
  - (* a single frame *)
    rewrite frames_f_short in He by assumption.
    assert (Hb : b = inst :: be16 (Z.of_nat (length data)) ++ data) by congruence. subst b.
    change ((inst :: be16 (Z.of_nat (length data)) ++ data) ++ rest)
      with (inst :: be16 (Z.of_nat (length data)) ++ data ++ rest).
    destruct (rust_recv_frame_ok inst (Z.of_nat (length data)) data rest sch) as [sch' E];
      [lia|now rewrite Nat2Z.id|].
    rewrite E. cbn [m_inst m_data pending]. exists sch'.
    rewrite rust_more_done by (unfold msg_len; lia). now rewrite inst_of_u8_wf.
  - (* a full frame, then the continuation loop *)
    rewrite frames_f_long in He by assumption.
    destruct (frames_f (length data) inst (skipn NF data)) as [more|] eqn:Em; [|discriminate].
    assert (Hb : b = (inst :: be16 MAXF ++ firstn NF data) ++ more) by congruence. subst b.
    replace (((inst :: be16 MAXF ++ firstn NF data) ++ more) ++ rest)
      with (inst :: be16 MAXF ++ firstn NF data ++ (more ++ rest))
      by (cbn [app be16]; now rewrite <- app_assoc).
    assert (Hlen : length (firstn NF data) = Z.to_nat MAXF).
    { rewrite NF_def. apply firstn_length_le. pose proof NF_eq; unfold MAXF in *; lia. }
    destruct (rust_recv_frame_ok inst MAXF (firstn NF data) (more ++ rest) sch) as [sch1 E];
      [unfold MAXF; lia|assumption|].
    rewrite E. cbn [m_inst m_data pending].
    rewrite (msg_len_exact (firstn NF data) MAXF) by (unfold MAXF; lia || assumption).
    destruct (rust_more_frames (inst_of_u8 inst) _ _ _ _ Em (S (length (more ++ rest))) (firstn NF data) rest sch1)
      as [sch2 E2].
    + apply frames_length in Em. rewrite app_length. lia.
    + cbn beta in E2. rewrite E2. exists sch2. now rewrite firstn_skipn, inst_of_u8_wf.
Qed.

Lemma py_recv_one : forall m b rest sch, rust_encode m = Ok b ->
  b <> [] /\ exists sch', py_recv_msg (Src (b ++ rest) sch) = (Ok m, Src rest sch').
Proof.
  intros [inst data] b rest sch He. unfold rust_encode in He. cbn [m_inst m_data] in He.
  split; [eapply frames_nonempty; eassumption|].
  unfold py_recv_msg. cbn [pending].
  destruct (py_recv_frames _ _ _ _ He (S (length (b ++ rest))) [] rest sch) as [sch' E].
  - apply frames_length in He. rewrite app_length. lia.
  - exists sch'. rewrite E. reflexivity.
Qed.

Lemma wf_msg_py : forall m, wf_msg m -> wf_py m.
Proof. intros m [H0 H6]. unfold wf_py. lia. Qed.

(** ** the four sender/receiver pairings *)
Lemma rust_rust_stream : forall msgs chunks bs, Forall wf_msg msgs ->
  encode_all rust_encode msgs = Ok bs -> rust_recv_all (Src bs chunks) = (msgs, None).
Proof.
  intros msgs chunks bs Hw He. unfold rust_recv_all. cbn [pending].
  eapply (recv_all_encoded rust_encode rust_recv_msg wf_msg); eauto using rust_recv_one.
Qed.

Lemma rust_py_stream : forall msgs chunks bs, Forall wf_msg msgs ->
  encode_all rust_encode msgs = Ok bs -> py_recv_all (Src bs chunks) = (msgs, None).
Proof.
  intros msgs chunks bs Hw He. unfold py_recv_all. cbn [pending].
  eapply (recv_all_encoded rust_encode py_recv_msg wf_msg); eauto.
  intros. now apply py_recv_one.
Qed.

Lemma py_py_stream : forall msgs chunks bs, Forall wf_py msgs ->
  encode_all py_encode msgs = Ok bs -> py_recv_all (Src bs chunks) = (msgs, None).
Proof.
  intros msgs chunks bs Hw He. unfold py_recv_all. cbn [pending].
  eapply (recv_all_encoded py_encode py_recv_msg wf_py); eauto.
  intros m b rest sch Hm Hb. rewrite py_encode_eq in Hb by assumption. now apply py_recv_one.
Qed.

Lemma py_rust_stream : forall msgs chunks bs, Forall wf_msg msgs ->
  encode_all py_encode msgs = Ok bs -> rust_recv_all (Src bs chunks) = (msgs, None).
Proof.
  intros msgs chunks bs Hw He. unfold rust_recv_all. cbn [pending].
  eapply (recv_all_encoded py_encode rust_recv_msg wf_msg); eauto.
  intros m b rest sch Hm Hb. rewrite py_encode_eq in Hb by (now apply wf_msg_py). now apply rust_recv_one.
Qed.

Lemma encode_all_total : forall enc (P : msg -> Prop), (forall m, P m -> exists b, enc m = Ok b) ->
  forall msgs, Forall P msgs -> exists bs, encode_all enc msgs = Ok bs.
Proof.
  intros enc P H. induction msgs as [|m r IH]; intro HP; [eexists; reflexivity|].
  inversion HP; subst. destruct (H m) as [b Eb]; [assumption|]. destruct IH as [bs Ebs]; [assumption|].
  cbn [encode_all]. rewrite Eb, Ebs. eexists; reflexivity.
Qed.

Lemma rust_encode_all_total : forall msgs, exists bs, encode_all rust_encode msgs = Ok bs.
Proof.
  intros msgs. apply (encode_all_total rust_encode (fun _ => True)).
  - intros m _. apply rust_encode_total.
  - now apply Forall_forall.
Qed.

Lemma py_encode_all_total : forall msgs, Forall wf_py msgs -> exists bs, encode_all py_encode msgs = Ok bs.
Proof.
  apply encode_all_total. intros m Hm. rewrite py_encode_eq by assumption. apply rust_encode_total.
Qed.

(** * Sending: every write chunking puts exactly the frames on the wire *)
Lemma rust_send_wire : forall m wsch, exists bs wsch',
  rust_encode m = Ok bs /\ rust_send_msg m wsch = (bs, Ok tt, wsch').
Proof.
  intros m wsch. destruct (rust_encode_total m) as [bs E]. destruct (write_all_ok bs wsch) as [w' Ew].
  exists bs, w'. split; [assumption|]. unfold rust_send_msg. now rewrite E.
Qed.

Lemma py_send_wire : forall m wsch, wf_py m -> exists bs wsch',
  py_encode m = Ok bs /\ py_send_msg m wsch = (bs, Ok tt, wsch').
Proof.
  intros m wsch Hm. destruct (rust_encode_total m) as [bs E]. rewrite <- py_encode_eq in E by assumption.
  destruct (write_all_ok bs wsch) as [w' Ew].
  exists bs, w'. split; [assumption|]. unfold py_send_msg. now rewrite E.
Qed.

(** * Sessions *)
Section Sync.
  Variable St : Type.
  Variable handler : St -> msg -> St * msg.
  Hypothesis handler_wf : forall st m, wf_msg (snd (handler st m)).

  Lemma step_in_sync : forall st r, wf_msg (r_req r) ->
    step St handler codec_now (Sys st [] []) r =
    (Ok (snd (handler st (r_req r))), Sys (fst (handler st (r_req r))) [] []).
  Proof.
    intros st [req cw sr sw cr] Hw. cbn [r_req] in Hw. unfold step.
    cbn [c_send c_recv s_send s_recv codec_now r_req r_cw r_sr r_sw r_cr srv c2s s2c app].
    destruct (rust_send_wire req cw) as [b1 [w1 [E1 S1]]]. rewrite S1.
    destruct (py_recv_one req b1 [] sr E1) as [_ [sch1 R1]]. rewrite app_nil_r in R1. rewrite R1.
    pose proof (handler_wf st req) as Hr.
    destruct (handler st req) as [st' resp]. cbn [fst snd pending] in *.
    destruct (py_send_wire resp sw (wf_msg_py _ Hr)) as [b2 [w2 [E2 S2]]]. rewrite S2.
    rewrite py_encode_eq in E2 by (now apply wf_msg_py).
    destruct (rust_recv_one resp b2 [] cr Hr E2) as [_ [sch2 R2]]. rewrite app_nil_r in R2. rewrite R2.
    reflexivity.
  Qed.

  Lemma sync_now : forall rounds st, Forall (fun r => wf_msg (r_req r)) rounds ->
    run_history St handler codec_now (Sys st [] []) rounds = (ref_run St handler st (map r_req rounds), None).
  Proof.
    induction rounds as [|r rest IH]; intros st Hw; [reflexivity|].
    inversion Hw as [|? ? Hr Hrest]; subst.
    cbn [run_history map ref_run]. rewrite step_in_sync by assumption.
    destruct (handler st (r_req r)) as [st' a]. cbn [fst snd].
    now rewrite IH.
  Qed.
End Sync.


(** * Fuel: none of the loops of the current code can run out of fuel, on any stream (also garbage) *)
Lemma read_exact_cases : forall n p sch,
  (exists sch', read_exact n (Src p sch) = (Ok (firstn n p), Src (skipn n p) sch') /\ (n <= length p)%nat)
  \/ (exists s', read_exact n (Src p sch) = (Err EEof, s')).
Proof.
  intros n p sch. unfold read_exact. destruct (le_lt_dec n (length p)) as [Hle|Hlt].
  - left. destruct (read_exact_f_ok n n p sch (le_n _) Hle) as [x E]. exists x. now split.
  - right. exact (read_exact_f_eof n n p sch (le_n _) Hlt).
Qed.

Lemma py_recv_exact_cases : forall n p sch,
  (exists sch', py_recv_exact n (Src p sch) = (Ok (firstn n p), Src (skipn n p) sch') /\ (n <= length p)%nat)
  \/ (exists s', py_recv_exact n (Src p sch) = (Err EEof, s')).
Proof. intros. unfold py_recv_exact. rewrite py_recv_exact_f_eq. apply read_exact_cases. Qed.

Definition progress (p : list Z) (x : res msg * src) : Prop :=
  match x with
  | (Ok _, s') => (length (pending s') + 3 <= length p)%nat
  | (Err e, _) => e <> EFuel
  end.

Lemma rust_recv_frame_progress : forall p sch, progress p (rust_recv_frame (Src p sch)).
Proof.
  intros p sch. unfold rust_recv_frame.
  destruct (read_exact_cases 1 p sch) as [[s1 [E1 L1]]|[s' E1]]; rewrite E1; [|intro; discriminate].
  pose proof (skipn_length 1 p) as K1. remember (skipn 1 p) as p1 eqn:Hp1.
  destruct (read_exact_cases 2 p1 s1) as [[s2 [E2 L2]]|[s' E2]]; rewrite E2; [|intro; discriminate].
  pose proof (skipn_length 2 p1) as K2. remember (skipn 2 p1) as p2 eqn:Hp2.
  remember (Z.to_nat (from_bytes_be (firstn 2 p1))) as n eqn:Hn.
  destruct (read_exact_cases n p2 s2) as [[s3 [E3 L3]]|[s' E3]]; rewrite E3; [|intro; discriminate].
  pose proof (skipn_length n p2) as K3. cbn [progress pending]. lia.
Qed.

Lemma rust_recv_more_f_progress : forall fuel inst acc last p sch, (length p < fuel)%nat ->
  match rust_recv_more_f fuel inst acc last (Src p sch) with
  | (Ok _, s') => (length (pending s') <= length p)%nat
  | (Err e, _) => e <> EFuel
  end.
Proof.
  induction fuel as [|f IH]; intros inst acc last p sch Hf; [lia|].
  cbn [rust_recv_more_f]. destruct (last =? MAXF); [|cbn [pending]; lia].
  pose proof (rust_recv_frame_progress p sch) as Hp.
  destruct (rust_recv_frame (Src p sch)) as [[m|e] [p1 sch1]]; cbn [progress pending] in Hp; [|assumption].
  assert (Hlt : (length p1 < f)%nat) by lia.
  specialize (IH inst (acc ++ m_data m) (msg_len (m_data m)) p1 sch1 Hlt).
  destruct (rust_recv_more_f f inst (acc ++ m_data m) (msg_len (m_data m)) (Src p1 sch1)) as [[m'|e'] s'];
    [lia|assumption].
Qed.

Lemma py_recv_msg_f_progress : forall fuel acc p sch, (length p < fuel)%nat ->
  progress p (py_recv_msg_f fuel acc (Src p sch)).
Proof.
  induction fuel as [|f IH]; intros acc p sch Hf; [lia|].
  cbn [py_recv_msg_f].
  destruct (py_recv_exact_cases 3 p sch) as [[s1 [E1 L1]]|[s' E1]]; rewrite E1; [|intro; discriminate].
  pose proof (skipn_length 3 p) as K1. remember (skipn 3 p) as p1 eqn:Hp1.
  remember (Z.to_nat (from_bytes_be (firstn 2 (skipn 1 (firstn 3 p))))) as n eqn:Hn.
  destruct (py_recv_exact_cases n p1 s1) as [[s2 [E2 L2]]|[s' E2]]; rewrite E2; [|intro; discriminate].
  pose proof (skipn_length n p1) as K2. remember (skipn n p1) as p2 eqn:Hp2.
  destruct (from_bytes_be (firstn 2 (skipn 1 (firstn 3 p))) <? MAXF).
  - cbn [progress pending]. lia.
  - assert (Hlt : (length p2 < f)%nat) by lia.
    specialize (IH (acc ++ firstn n p1) p2 s2 Hlt).
    destruct (py_recv_msg_f f (acc ++ firstn n p1) (Src p2 s2)) as [[m|e] s']; cbn [progress] in *; [lia|assumption].
Qed.

Lemma rust_recv_msg_progress : forall p sch, progress p (rust_recv_msg (Src p sch)).
Proof.
  intros p sch. unfold rust_recv_msg.
  pose proof (rust_recv_frame_progress p sch) as Hp.
  destruct (rust_recv_frame (Src p sch)) as [[m|e] [p1 sch1]]; cbn [progress pending] in Hp; [|assumption].
  pose proof (rust_recv_more_f_progress (S (length p1)) (m_inst m) (m_data m) (msg_len (m_data m)) p1 sch1
                (Nat.lt_succ_diag_r _)) as Hm.
  destruct (rust_recv_more_f _ _ _ _ _) as [[m'|e'] s']; cbn [progress]; [lia|assumption].
Qed.
Lemma py_recv_msg_progress : forall p sch, progress p (py_recv_msg (Src p sch)).
Proof. intros. unfold py_recv_msg. apply py_recv_msg_f_progress. cbn [pending]. lia. Qed.

Section RecvAllFuel.
  Variable recv : src -> res msg * src.
  Hypothesis recv_progress : forall p sch, progress p (recv (Src p sch)).
  Lemma recv_all_f_fuel : forall fuel p sch, (length p <= fuel)%nat ->
    snd (recv_all_f recv fuel (Src p sch)) <> Some EFuel.
  Proof.
    induction fuel as [|f IH]; intros p sch Hf.
    - destruct p; [cbn; discriminate|cbn in Hf; lia].
    - destruct p as [|z p']; [cbn; discriminate|].
      cbn [recv_all_f pending].
      pose proof (recv_progress (z :: p') sch) as Hp.
      destruct (recv (Src (z :: p') sch)) as [[m|e] [p1 sch1]]; cbn [progress pending] in Hp.
      + specialize (IH p1 sch1). destruct (recv_all_f recv f (Src p1 sch1)) as [ms e'].
        cbn [snd] in *. apply IH. cbn [length] in *. lia.
      + cbn [snd]. congruence.
  Qed.
End RecvAllFuel.

Lemma rust_recv_all_fuel : forall s, snd (rust_recv_all s) <> Some EFuel.
Proof. intros [p sch]. unfold rust_recv_all. apply recv_all_f_fuel; [apply rust_recv_msg_progress|cbn; lia]. Qed.
Lemma py_recv_all_fuel : forall s, snd (py_recv_all s) <> Some EFuel.
Proof. intros [p sch]. unfold py_recv_all. apply recv_all_f_fuel; [apply py_recv_msg_progress|cbn; lia]. Qed.



Lemma res_zs_eq : forall (r : res (list Z)) b,
  match r with Ok x => zs_eqb x b | Err _ => false end = true -> r = Ok b.
Proof. intros [x|e] b H; [apply zs_eqb_eq in H; now subst|discriminate]. Qed.

(** ** the pinned code: Python receiver, one recv per field *)
Definition w_short_msgs : list msg := [Msg 6 [104; 105]].
Definition w_short_chunks : list nat := [2%nat].
Lemma py_decode_any_split_nofix_refuted_l :
  exists msgs chunks bs, Forall wf_msg msgs /\ Forall small msgs /\
    encode_all py_encode_nofix msgs = Ok bs /\ py_recv_all_nofix (Src bs chunks) <> (msgs, None).
Proof.
  exists w_short_msgs, w_short_chunks, [6; 0; 2; 104; 105].
  split; [|split; [|split]].
  - repeat constructor; unfold wf_msg, wf_inst; cbn; lia.
  - repeat constructor; unfold small, MAXF; cbn; lia.
  - reflexivity.
  - vm_compute. discriminate.
Qed.

(** ** the pinned code: Python sender uses send, a short write loses the rest *)
Lemma py_send_nofix_refuted_l :
  exists m wsch bs, wf_msg m /\ small m /\ py_encode_nofix m = Ok bs /\
    fst (fst (py_send_msg_nofix m wsch)) <> bs /\ snd (fst (py_send_msg_nofix m wsch)) = Ok tt.
Proof.
  exists (Msg 1 [104; 105; 106]), [4%nat], [1; 0; 3; 104; 105; 106].
  split; [|split; [|split; [|split]]].
  - unfold wf_msg, wf_inst; cbn; lia.
  - unfold small, MAXF; cbn; lia.
  - reflexivity.
  - vm_compute. discriminate.
  - reflexivity.
Qed.

(** ** the pinned code: Python sender, to_bytes(2) overflows above 65535 *)
Lemma py_send_overflow_nofix_refuted_l :
  exists m, wf_msg m /\ py_encode_nofix m = Err EOverflow.
Proof.
  exists (Msg 1 (fill 65536 97)). split.
  - unfold wf_msg, wf_inst; cbn [m_inst]; lia.
  - vm_compute. reflexivity.
Qed.

(** ** the pinned code: Rust sender truncates the size field and still sends the whole payload *)
Definition w_trunc_msgs : list msg := [Msg 6 (fill 65536 97); Msg 6 [98]].
Definition w_trunc_bs : list Z := 6 :: 255 :: 255 :: fill 65536 97 ++ [6; 0; 1; 98].
Lemma rust_truncation_nofix_refuted_l :
  exists msgs chunks bs, Forall wf_msg msgs /\
    encode_all rust_encode_nofix msgs = Ok bs /\ rust_recv_all_nofix (Src bs chunks) <> (msgs, None).
Proof.
  exists w_trunc_msgs, [], w_trunc_bs. split; [|split].
  - repeat constructor; unfold wf_msg, wf_inst; cbn [m_inst]; lia.
  - apply res_zs_eq. vm_compute. reflexivity.
  - intro H. apply judge_transport_iff in H. revert H. vm_compute. discriminate.
Qed.

(** ** the pinned code: a session desynchronises after one large request *)
Definition first_byte_handler (st : unit) (m : msg) : unit * msg := (st, Msg 1 (firstn 1 (m_data m))).
Definition w_sync_rounds : list round :=
  [Round (Msg 6 (fill 65536 97)) [] [] [] []; Round (Msg 6 [98]) [] [] [] []].
Lemma sync_nofix_refuted_l :
  exists rounds, Forall (fun r => wf_msg (r_req r)) rounds /\
    run_history unit first_byte_handler codec_nofix (Sys tt [] []) rounds
    <> (ref_run unit first_byte_handler tt (map r_req rounds), None).
Proof.
  exists w_sync_rounds. split.
  - repeat constructor; unfold wf_msg, wf_inst; cbn [m_inst r_req]; lia.
  - intro H. apply judge_transport_iff in H. revert H. vm_compute. discriminate.
Qed.
(* what the client sees in that session: the second answer is [1] (a byte of the first request's tail
   header) instead of [98] *)
Example sync_nofix_trace :
  run_history unit first_byte_handler codec_nofix (Sys tt [] []) w_sync_rounds = ([Msg 1 [97]; Msg 1 [1]], None).
Proof. vm_compute. reflexivity. Qed.

(** * Non-vacuity: concrete inputs meeting the hypotheses of the theorems, evaluated *)
Definition ex_msgs : list msg := [Msg 6 [104; 105]; Msg 5 []; Msg 1 [0; 255]].
Definition ex_big : list msg := [Msg 6 (fill 70000 97); Msg 5 []; Msg 1 (fill 65535 98); Msg 2 [1; 2; 3]].
Definition ex_chunks : list nat := [1; 2; 3; Z.to_nat 65535; 1; 1; Z.to_nat 70000; 5; 0; 2]%nat.
Definition on_stream (enc : msg -> res (list Z)) (ms : list msg) (f : list Z -> list msg * option err)
  : list msg * option err :=
  match encode_all enc ms with Ok bs => f bs | Err e => ([], Some e) end.

Lemma wf_ex_msgs : Forall wf_msg ex_msgs.
Proof. repeat constructor; unfold wf_msg, wf_inst; cbn [m_inst]; lia. Qed.
Lemma wf_ex_big : Forall wf_msg ex_big.
Proof. repeat constructor; unfold wf_msg, wf_inst; cbn [m_inst]; lia. Qed.

Example ex_rust_small :
  Forall wf_msg ex_msgs /\ encode_all rust_encode ex_msgs = Ok [6; 0; 2; 104; 105; 5; 0; 0; 1; 0; 2; 0; 255] /\
  rust_recv_all (Src [6; 0; 2; 104; 105; 5; 0; 0; 1; 0; 2; 0; 255] [1; 1; 1; 1; 3]%nat) = (ex_msgs, None).
Proof. split; [exact wf_ex_msgs|split; vm_compute; reflexivity]. Qed.

Example ex_rust_big :
  Forall wf_msg ex_big /\
  judge_transport ex_big (on_stream rust_encode ex_big (fun bs => rust_recv_all (Src bs ex_chunks))) = true.
Proof. split; [exact wf_ex_big|vm_compute; reflexivity]. Qed.

Example ex_py_big :
  Forall wf_py ex_big /\
  judge_transport ex_big (on_stream py_encode ex_big (fun bs => py_recv_all (Src bs ex_chunks))) = true.
Proof.
  split; [|vm_compute; reflexivity].
  eapply Forall_impl; [apply wf_msg_py|exact wf_ex_big].
Qed.

Example ex_cross_big :
  judge_transport ex_big (on_stream rust_encode ex_big (fun bs => py_recv_all (Src bs ex_chunks))) = true /\
  judge_transport ex_big (on_stream py_encode ex_big (fun bs => rust_recv_all (Src bs ex_chunks))) = true.
Proof. split; vm_compute; reflexivity. Qed.

(* the frames of a 65535-byte payload: one full frame and an empty continuation frame *)
Example ex_boundary :
  match rust_encode (Msg 1 (fill 65535 7)) with
  | Ok bs => (Z.of_nat (length bs) =? 65541) && zs_eqb (firstn 3 bs) [1; 255; 255] && zs_eqb (skipn (Z.to_nat 65538) bs) [1; 0; 0]
  | Err _ => false
  end = true.
Proof. vm_compute. reflexivity. Qed.

Example ex_send_short_writes :
  fst (fst (rust_send_msg (Msg 6 [1; 2; 3; 4]) [1; 2; 1]%nat)) = [6; 0; 4; 1; 2; 3; 4] /\
  fst (fst (py_send_msg (Msg 1 [1; 2; 3; 4]) [3; 1]%nat)) = [1; 0; 4; 1; 2; 3; 4].
Proof. split; vm_compute; reflexivity. Qed.

(* a session whose requests and answers are larger than one frame, under hostile chunkings *)
Definition double_handler (n : Z) (m : msg) : Z * msg := (n + 1, Msg 1 (n :: m_data m ++ m_data m)).
Definition ex_rounds : list round :=
  [Round (Msg 6 (fill 70000 97)) [1; 7]%nat [2; 2; 1]%nat [1; 1; 1]%nat [1; 2; 3; Z.to_nat 65535; 4]%nat;
   Round (Msg 6 []) [] [1]%nat [5]%nat [1; 1]%nat;
   Round (Msg 6 (fill 65535 98)) [] [] [] [Z.to_nat 65536]%nat;
   Round (Msg 5 [9]) [] [] [] []].
Lemma double_handler_wf : forall st m, wf_msg (snd (double_handler st m)).
Proof. intros. unfold wf_msg, wf_inst. cbn. lia. Qed.
Lemma wf_ex_rounds : Forall (fun r => wf_msg (r_req r)) ex_rounds.
Proof. repeat constructor; unfold wf_msg, wf_inst; cbn [m_inst r_req]; lia. Qed.
Example ex_sync :
  Forall (fun r => wf_msg (r_req r)) ex_rounds /\
  judge_session (ref_run Z double_handler 0 (map r_req ex_rounds))
                (run_history Z double_handler codec_now (Sys 0 [] []) ex_rounds) = true.
Proof. split; [exact wf_ex_rounds|vm_compute; reflexivity]. Qed.
