(** C25 — what the framing must do, independent of how it is done.

    Transport spec: a framed byte stream carries a sequence of messages; whatever way the stream is cut into
    reads, the receiver obtains exactly the messages that were sent, in order, and nothing else.
    Session spec: the i-th answer the client obtains is the server's answer to the i-th request. *)
From Coq Require Import ZArith List Bool.
From ErgV Require Import Framing.Model.
Import ListNotations.
Open Scope Z_scope.

Fixpoint zs_eqb (a b : list Z) : bool :=
  match a, b with
  | [], [] => true
  | x :: a', y :: b' => (x =? y) && zs_eqb a' b'
  | _, _ => false
  end.
Definition msg_eqb (a b : msg) : bool := (m_inst a =? m_inst b) && zs_eqb (m_data a) (m_data b).
Fixpoint msgs_eqb (a b : list msg) : bool :=
  match a, b with
  | [], [] => true
  | x :: a', y :: b' => msg_eqb x y && msgs_eqb a' b'
  | _, _ => false
  end.

(** instruction codes of the protocol (dummy.rs [Inst], repl_server.py [INST]) *)
Definition wf_inst (i : Z) : Prop := 0 <= i <= 6.
Definition wf_msg (m : msg) : Prop := wf_inst (m_inst m).
Definition wf_instb (i : Z) : bool := (0 <=? i) && (i <=? 6).
(** the Python side accepts any instruction byte *)
Definition wf_py (m : msg) : Prop := 0 <= m_inst m <= 255.
(** payload fits the 16-bit size field (only needed to state what was wrong before the fixes) *)
Definition small (m : msg) : Prop := Z.of_nat (length (m_data m)) <= MAXF.
(** [n] copies of byte [b] *)
Definition fill (n : Z) (b : Z) : list Z := repeat b (Z.to_nat n).

(** ** Judge for a transport: what was received is what was sent, without error. *)
Definition judge_transport (sent : list msg) (got : list msg * option err) : bool :=
  match snd got with
  | None => msgs_eqb sent (fst got)
  | Some _ => false
  end.

(** ** Reference session: no wire at all, the handler is applied to the requests in order. *)
Section Ref.
  Variable St : Type.
  Variable handler : St -> msg -> St * msg.
  Fixpoint ref_run (st : St) (reqs : list msg) : list msg :=
    match reqs with
    | [] => []
    | q :: rest => let (st', a) := handler st q in a :: ref_run st' rest
    end.
End Ref.

(** ** Judge for a session: the answers obtained are the reference answers, one per request, in order. *)
Definition judge_session (expected : list msg) (got : list msg * option err) : bool :=
  judge_transport expected got.
