(** C25 — REPL message framing: model of
      /repo/src/dummy.rs               Message::new, MessageStream::send_msg / recv_msg   (Rust client)
      /repo/src/scripts/repl_server.py MessageStream._recv_exact / recv_msg / send_msg    (Python server)
    Definitions only.  Bytes are [Z] in 0..255, payloads are byte lists (Rust [Vec<u8>]; the Python side
    encodes/decodes UTF-8 at the boundary, which is the identity on the bytes of a valid string).

    The functions without suffix transcribe the code as it is now (after the two `fix:` commits);
    the [_nofix] functions transcribe the code as it was before them and carry the refutations. *)
From Coq Require Import ZArith List Bool Arith.
Import ListNotations.
Open Scope Z_scope.

Inductive err := EEof | EFuel | EOverflow | EWriteZero.
Inductive res (A : Type) := Ok (a : A) | Err (e : err).
Arguments Ok {A} a.
Arguments Err {A} e.

Record msg := Msg { m_inst : Z; m_data : list Z }.

(** 0xFFFF: largest value of the 16-bit size field *)
Definition MAXF : Z := 65535.

(** [u16::to_be_bytes] / [int.to_bytes(2,'big')] for 0 <= n <= 65535, and the inverse *)
Definition be16 (n : Z) : list Z := [n / 256; n mod 256].
Definition from_bytes_be (l : list Z) : Z := fold_left (fun a b => a * 256 + b) l 0.

(** dummy.rs [impl From<u8> for Inst]: unknown instruction bytes become [Inst::Unknown = 0] *)
Definition inst_of_u8 (b : Z) : Z := if (1 <=? b) && (b <=? 6) then b else 0.

(* ------------------------------------------------------------------------------------------ *)
(** * Byte source with an adversarial chunking

    [pending] are the bytes the peer has written and that were not yet read; [sched] says how many
    bytes each successive [read]/[recv] call delivers at most (at least 1; once the schedule is used up
    a call delivers everything that was asked for).  A call for 0 bytes, or on an exhausted stream,
    returns nothing and does not consume a schedule entry (exhausted = peer closed: end of file).  *)
Record src := Src { pending : list Z; sched : list nat }.

Definition next_chunk (n : nat) (sch : list nat) : nat * list nat :=
  match sch with
  | [] => (n, [])
  | c :: r => (Nat.min n (Nat.max 1 c), r)
  end.

(** one [Read::read(&mut buf[..n])] / [socket.recv(n)] *)
Definition sread (n : nat) (s : src) : list Z * src :=
  match n with
  | O => ([], s)
  | S _ =>
    match pending s with
    | [] => ([], s)
    | _ :: _ =>
      let (k, sch) := next_chunk n (sched s) in
      (firstn k (pending s), Src (skipn k (pending s)) sch)
    end
  end.

(** std [Read::read_exact] (default_read_exact): [while !buf.is_empty() { match read(buf) { Ok(0) => break,
    Ok(n) => buf = &mut buf[n..], .. } }  if !buf.is_empty() { Err(UnexpectedEof) }].
    Each iteration that does not stop delivers at least one byte, so fuel [n] suffices (Proofs.read_exact_fuel). *)
Fixpoint read_exact_f (fuel : nat) (n : nat) (s : src) : res (list Z) * src :=
  match n with
  | O => (Ok [], s)
  | S _ =>
    match fuel with
    | O => (Err EFuel, s)
    | S f =>
      let (got, s1) := sread n s in
      match got with
      | [] => (Err EEof, s1)
      | _ :: _ =>
        let (r, s2) := read_exact_f f (n - length got) s1 in
        (match r with Ok rest => Ok (got ++ rest) | Err e => Err e end, s2)
      end
    end
  end.
Definition read_exact (n : nat) (s : src) : res (list Z) * src := read_exact_f n n s.

(* ------------------------------------------------------------------------------------------ *)
(** * Byte sink with short writes

    [write_all_f fuel buf wsch] = (bytes that reached the wire, outcome, rest of the schedule).
    One [Write::write(buf)] / [socket.send(buf)] accepts between 1 and [len buf] bytes as scheduled. *)
Definition swrite (buf : list Z) (wsch : list nat) : nat * list nat :=
  match buf with
  | [] => (O, wsch)
  | _ :: _ => next_chunk (length buf) wsch
  end.

(** std [Write::write_all]: [while !buf.is_empty() { match write(buf) { Ok(0) => return Err(WriteZero),
    Ok(n) => buf = &buf[n..], .. } }];  CPython [sock_sendall] is the same loop around send(2). *)
Fixpoint write_all_f (fuel : nat) (buf : list Z) (wsch : list nat) : list Z * res unit * list nat :=
  match buf with
  | [] => ([], Ok tt, wsch)
  | _ :: _ =>
    match fuel with
    | O => ([], Err EFuel, wsch)
    | S f =>
      let (n, wsch1) := swrite buf wsch in
      match n with
      | O => ([], Err EWriteZero, wsch1)
      | S _ =>
        match write_all_f f (skipn n buf) wsch1 with
        | (w, r, wsch2) => (firstn n buf ++ w, r, wsch2)
        end
      end
    end
  end.
Definition write_all (buf : list Z) (wsch : list nat) := write_all_f (length buf) buf wsch.

(** one [socket.send(buf)]: a single write; what it did not accept is silently dropped by the caller *)
Definition send_once (buf : list Z) (wsch : list nat) : list Z * list nat :=
  let (n, wsch1) := swrite buf wsch in (firstn n buf, wsch1).

(* ------------------------------------------------------------------------------------------ *)
(** * Rust client, src/dummy.rs *)

(** [MessageStream::send_msg] builds [write_buf]: for each frame the instruction byte, the 16-bit size and the
    data; a frame of 0xFFFF bytes is followed by a continuation frame, the last frame is shorter (maybe empty).
    [loop { let n = rest.len().min(0xFFFF); push inst, n, rest[..n]; rest = &rest[n..]; if n < 0xFFFF { break } }]
    Every iteration but the last removes 65535 bytes, so fuel [S (length data)] suffices (Proofs.frames_total). *)
Fixpoint frames_f (fuel : nat) (inst : Z) (data : list Z) : res (list Z) :=
  match fuel with
  | O => Err EFuel
  | S f =>
    let n := Z.min (Z.of_nat (length data)) MAXF in
    let frame := inst :: be16 n ++ firstn (Z.to_nat n) data in
    if n <? MAXF then Ok frame
    else match frames_f f inst (skipn (Z.to_nat n) data) with
         | Ok more => Ok (frame ++ more)
         | Err e => Err e
         end
  end.
Definition rust_encode (m : msg) : res (list Z) := frames_f (S (length (m_data m))) (m_inst m) (m_data m).

(** [send_msg]: [self.stream.write_all(&write_buf)] *)
Definition rust_send_msg (m : msg) (wsch : list nat) : list Z * res unit * list nat :=
  match rust_encode m with
  | Ok buf => write_all buf wsch
  | Err e => ([], Err e, wsch)
  end.

(** [MessageStream::recv_frame]: [read_exact] of 1 byte (instruction), 2 bytes (size), then [size] bytes of data
    ([if data_size == 0 { return Ok(Message::new(inst, None)) }]: no data and empty data are the same observable) *)
Definition rust_recv_frame (s : src) : res msg * src :=
  let (r1, s1) := read_exact 1 s in
  match r1 with
  | Err e => (Err e, s1)
  | Ok ib =>
    let (r2, s2) := read_exact 2 s1 in
    match r2 with
    | Err e => (Err e, s2)
    | Ok sb =>
      let (r3, s3) := read_exact (Z.to_nat (from_bytes_be sb)) s2 in
      match r3 with
      | Err e => (Err e, s3)
      | Ok d => (Ok (Msg (inst_of_u8 (from_bytes_be ib)) d), s3)
      end
    end
  end.

(** [Message::len()] = the [size] field computed by [Message::new]: [d.len().min(0xFFFF)] *)
Definition msg_len (d : list Z) : Z := Z.min (Z.of_nat (length d)) MAXF.

(** [MessageStream::recv_msg]: [let mut msg = recv_frame()?; let mut last = msg.len();
    while last == 0xFFFF { let next = recv_frame()?; last = next.len(); msg.data.extend(next.data) }  Ok(msg)].
    Each further frame takes at least its 3 header bytes from the stream: fuel [S (length pending)] suffices
    (Proofs.rust_recv_all_fuel). *)
Fixpoint rust_recv_more_f (fuel : nat) (inst : Z) (acc : list Z) (last : Z) (s : src) : res msg * src :=
  if last =? MAXF then
    match fuel with
    | O => (Err EFuel, s)
    | S f =>
      let (r, s1) := rust_recv_frame s in
      match r with
      | Err e => (Err e, s1)
      | Ok next => rust_recv_more_f f inst (acc ++ m_data next) (msg_len (m_data next)) s1
      end
    end
  else (Ok (Msg inst acc), s).
Definition rust_recv_msg (s : src) : res msg * src :=
  let (r, s1) := rust_recv_frame s in
  match r with
  | Err e => (Err e, s1)
  | Ok m => rust_recv_more_f (S (length (pending s1))) (m_inst m) (m_data m) (msg_len (m_data m)) s1
  end.

(* ------------------------------------------------------------------------------------------ *)
(** * Python server, src/scripts/repl_server.py *)

(** [int.to_bytes(1,'big')], [int.to_bytes(2,'big')]: OverflowError outside the range *)
Definition py_to_bytes1 (n : Z) : res (list Z) := if (0 <=? n) && (n <=? 255) then Ok [n] else Err EOverflow.
Definition py_to_bytes2 (n : Z) : res (list Z) := if (0 <=? n) && (n <=? MAXF) then Ok (be16 n) else Err EOverflow.

(** [send_msg]: [while True: chunk = data_bytes[:0xFFFF]; data_bytes = data_bytes[0xFFFF:];
    raw_bytes += inst.to_bytes(1) + len(chunk).to_bytes(2) + chunk; if len(chunk) < 0xFFFF: break] *)
Fixpoint py_frames_f (fuel : nat) (inst : Z) (data : list Z) : res (list Z) :=
  match fuel with
  | O => Err EFuel
  | S f =>
    let chunk := firstn (Z.to_nat MAXF) data in
    let rest := skipn (Z.to_nat MAXF) data in
    match py_to_bytes1 inst with
    | Err e => Err e
    | Ok ib =>
      match py_to_bytes2 (Z.of_nat (length chunk)) with
      | Err e => Err e
      | Ok sb =>
        let frame := ib ++ sb ++ chunk in
        if Z.of_nat (length chunk) <? MAXF then Ok frame
        else match py_frames_f f inst rest with
             | Ok more => Ok (frame ++ more)
             | Err e => Err e
             end
      end
    end
  end.
Definition py_encode (m : msg) : res (list Z) := py_frames_f (S (length (m_data m))) (m_inst m) (m_data m).

(** [send_msg]: [self.socket.sendall(raw_bytes)] *)
Definition py_send_msg (m : msg) (wsch : list nat) : list Z * res unit * list nat :=
  match py_encode m with
  | Ok buf => write_all buf wsch
  | Err e => ([], Err e, wsch)
  end.

(** [_recv_exact(n)]: [while len(buf) < n: chunk = recv(n - len(buf)); if not chunk: raise ConnectionResetError;
    buf.extend(chunk)] — [n] below is the number of bytes still missing. *)
Fixpoint py_recv_exact_f (fuel : nat) (n : nat) (s : src) : res (list Z) * src :=
  match n with
  | O => (Ok [], s)
  | S _ =>
    match fuel with
    | O => (Err EFuel, s)
    | S f =>
      let (chunk, s1) := sread n s in
      match chunk with
      | [] => (Err EEof, s1)
      | _ :: _ =>
        let (r, s2) := py_recv_exact_f f (n - length chunk) s1 in
        (match r with Ok rest => Ok (chunk ++ rest) | Err e => Err e end, s2)
      end
    end
  end.
Definition py_recv_exact (n : nat) (s : src) := py_recv_exact_f n n s.

(** [recv_msg]: [while True: head = _recv_exact(3); inst = head[0]; data_len = from_bytes(head[1:3]);
    _read_buf.extend(_recv_exact(data_len)); if data_len < 0xFFFF: break]; returns (inst, _read_buf) *)
Fixpoint py_recv_msg_f (fuel : nat) (acc : list Z) (s : src) : res msg * src :=
  match fuel with
  | O => (Err EFuel, s)
  | S f =>
    let (r1, s1) := py_recv_exact 3 s in
    match r1 with
    | Err e => (Err e, s1)
    | Ok head =>
      let data_len := from_bytes_be (firstn 2 (skipn 1 head)) in
      let (r2, s2) := py_recv_exact (Z.to_nat data_len) s1 in
      match r2 with
      | Err e => (Err e, s2)
      | Ok d =>
        if data_len <? MAXF then (Ok (Msg (nth 0 head 0) (acc ++ d)), s2)
        else py_recv_msg_f f (acc ++ d) s2
      end
    end
  end.
Definition py_recv_msg (s : src) : res msg * src := py_recv_msg_f (S (length (pending s))) [] s.

(* ------------------------------------------------------------------------------------------ *)
(** * Receiving a whole stream (what the hook [erg::verif::recv_all] and the Python driver do):
    call recv_msg until the stream is used up; stop at the first error. *)
Fixpoint recv_all_f (recv : src -> res msg * src) (fuel : nat) (s : src) : list msg * option err :=
  match pending s with
  | [] => ([], None)
  | _ :: _ =>
    match fuel with
    | O => ([], Some EFuel)
    | S f =>
      let (r, s1) := recv s in
      match r with
      | Err e => ([], Some e)
      | Ok m => let (ms, e) := recv_all_f recv f s1 in (m :: ms, e)
      end
    end
  end.
Definition rust_recv_all (s : src) := recv_all_f rust_recv_msg (length (pending s)) s.
Definition py_recv_all (s : src) := recv_all_f py_recv_msg (length (pending s)) s.

Fixpoint encode_all (enc : msg -> res (list Z)) (ms : list msg) : res (list Z) :=
  match ms with
  | [] => Ok []
  | m :: r =>
    match enc m with
    | Err e => Err e
    | Ok b => match encode_all enc r with Ok bs => Ok (b ++ bs) | Err e => Err e end
    end
  end.

(* ------------------------------------------------------------------------------------------ *)
(** * The code before the fixes (faithful to the pinned tree) *)

(** dummy.rs before: [Message::new] truncates [size] to 65535 ("Warning: length truncated"), [send_msg]
    writes the header once and then the *whole* payload *)
Definition rust_encode_nofix (m : msg) : res (list Z) :=
  Ok (m_inst m :: be16 (Z.min (Z.of_nat (length (m_data m))) MAXF) ++ m_data m).

(** dummy.rs before: [recv_msg] was what is now [recv_frame]: one frame per message *)
Definition rust_recv_msg_nofix (s : src) : res msg * src := rust_recv_frame s.

(** repl_server.py before: [raw = inst.to_bytes(1) + data_len.to_bytes(2) + data_bytes; socket.send(raw)] *)
Definition py_encode_nofix (m : msg) : res (list Z) :=
  match py_to_bytes1 (m_inst m) with
  | Err e => Err e
  | Ok ib =>
    match py_to_bytes2 (Z.of_nat (length (m_data m))) with
    | Err e => Err e
    | Ok sb => Ok (ib ++ sb ++ m_data m)
    end
  end.
Definition py_send_msg_nofix (m : msg) (wsch : list nat) : list Z * res unit * list nat :=
  match py_encode_nofix m with
  | Ok buf => let (w, wsch1) := send_once buf wsch in (w, Ok tt, wsch1)
  | Err e => ([], Err e, wsch)
  end.

(** repl_server.py before: [buf = recv(3); inst = from_bytes(buf[:1]); data_len = from_bytes(buf[1:3]);
    buf += recv(data_len); return (inst, buf[3:])] — one recv each, never an error *)
Definition py_recv_msg_nofix (s : src) : res msg * src :=
  let (h, s1) := sread 3 s in
  let inst := from_bytes_be (firstn 1 h) in
  let data_len := from_bytes_be (firstn 2 (skipn 1 h)) in
  let (d, s2) := sread (Z.to_nat data_len) s1 in
  (Ok (Msg inst (skipn 3 (h ++ d))), s2).

Definition rust_recv_all_nofix (s : src) := recv_all_f rust_recv_msg_nofix (length (pending s)) s.
Definition py_recv_all_nofix (s : src) := recv_all_f py_recv_msg_nofix (length (pending s)) s.

(* ------------------------------------------------------------------------------------------ *)
(** * Client / server session (DummyVM::eval against the server loop of repl_server.py)

    One round: the client sends the request with [send_msg] (bytes are appended to the client->server
    stream), the server calls [recv_msg] on that stream under its own read chunking, computes the
    response with its handler, sends it (appended to the server->client stream), and the client calls
    [recv_msg] under its read chunking.  Bytes a receiver leaves in a stream stay there for the next round —
    that is how a mis-framed message desynchronises everything after it.  A read on a stream that is
    empty because the peer has not written yet blocks in reality; since every write completes before the
    matching read is modelled, the only empty-stream read left is end-of-file. *)
Record codec := Codec {
  c_send : msg -> list nat -> list Z * res unit * list nat;   (* client send_msg *)
  c_recv : src -> res msg * src;                              (* client recv_msg *)
  s_send : msg -> list nat -> list Z * res unit * list nat;   (* server send_msg *)
  s_recv : src -> res msg * src                               (* server recv_msg *)
}.
Definition codec_now : codec := Codec rust_send_msg rust_recv_msg py_send_msg py_recv_msg.
Definition codec_nofix : codec :=
  Codec (fun m w => match rust_encode_nofix m with Ok b => write_all b w | Err e => ([], Err e, w) end)
        rust_recv_msg_nofix py_send_msg_nofix py_recv_msg_nofix.

(** the four adversarial schedules of one round *)
Record round := Round {
  r_req : msg;
  r_cw : list nat;   (* client write chunking *)
  r_sr : list nat;   (* server read chunking *)
  r_sw : list nat;   (* server write chunking *)
  r_cr : list nat    (* client read chunking *)
}.

Section Session.
  Variable St : Type.
  Variable handler : St -> msg -> St * msg.
  Variable cd : codec.

  Record sys := Sys { srv : St; c2s : list Z; s2c : list Z }.

  Definition step (y : sys) (r : round) : res msg * sys :=
    match c_send cd (r_req r) (r_cw r) with
    | (w1, Err e, _) => (Err e, Sys (srv y) (c2s y ++ w1) (s2c y))
    | (w1, Ok _, _) =>
      let (q, s1) := s_recv cd (Src (c2s y ++ w1) (r_sr r)) in
      match q with
      | Err e => (Err e, Sys (srv y) (pending s1) (s2c y))
      | Ok req =>
        let (st', resp) := handler (srv y) req in
        match s_send cd resp (r_sw r) with
        | (w2, Err e, _) => (Err e, Sys st' (pending s1) (s2c y ++ w2))
        | (w2, Ok _, _) =>
          let (a, s2) := c_recv cd (Src (s2c y ++ w2) (r_cr r)) in
          (a, Sys st' (pending s1) (pending s2))
        end
      end
    end.

  (** results the client obtains, in order; stops at the first error (the client exits) *)
  Fixpoint run_history (y : sys) (rs : list round) : list msg * option err :=
    match rs with
    | [] => ([], None)
    | r :: rest =>
      let (a, y1) := step y r in
      match a with
      | Err e => ([], Some e)
      | Ok m => let (ms, e) := run_history y1 rest in (m :: ms, e)
      end
    end.
End Session.
Arguments Sys {St}.
