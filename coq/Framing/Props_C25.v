(** C25 — REPL results stay in step with inputs for any history.
    Model: Framing/Model.v (src/dummy.rs, src/scripts/repl_server.py).  Spec and judges: Framing/Spec.v.
    No size precondition remains: payloads of any length are carried by continuation frames.
    The only hypotheses are typing conditions: instruction codes are those of the protocol (0..6; the
    Python sender accepts 0..255, [int.to_bytes(1)]). *)
From Coq Require Import ZArith List.
From ErgV Require Import Framing.Model Framing.Spec Framing.Proofs.
Import ListNotations.
Open Scope Z_scope.

(** Rust client receiving what a Rust sender framed, for every message list, every size, every chunking. *)
Theorem rust_decode_any_split : forall (msgs : list msg) (chunks : list nat) (bs : list Z),
  Forall wf_msg msgs -> encode_all rust_encode msgs = Ok bs ->
  rust_recv_all (Src bs chunks) = (msgs, None).
Proof. exact rust_rust_stream. Qed.
Example rust_decode_any_split_ex :
  Forall wf_msg ex_big /\
  judge_transport ex_big (on_stream rust_encode ex_big (fun bs => rust_recv_all (Src bs ex_chunks))) = true.
Proof. exact ex_rust_big. Qed.

(** Python server receiving what a Python sender framed. *)
Theorem py_decode_any_split : forall (msgs : list msg) (chunks : list nat) (bs : list Z),
  Forall wf_py msgs -> encode_all py_encode msgs = Ok bs ->
  py_recv_all (Src bs chunks) = (msgs, None).
Proof. exact py_py_stream. Qed.
Example py_decode_any_split_ex :
  Forall wf_py ex_big /\
  judge_transport ex_big (on_stream py_encode ex_big (fun bs => py_recv_all (Src bs ex_chunks))) = true.
Proof. exact ex_py_big. Qed.

(** The pairings that occur in the REPL: the server decodes the client's stream, the client the server's. *)
Theorem server_decodes_client_any_split : forall (msgs : list msg) (chunks : list nat) (bs : list Z),
  Forall wf_msg msgs -> encode_all rust_encode msgs = Ok bs ->
  py_recv_all (Src bs chunks) = (msgs, None).
Proof. exact rust_py_stream. Qed.
Theorem client_decodes_server_any_split : forall (msgs : list msg) (chunks : list nat) (bs : list Z),
  Forall wf_msg msgs -> encode_all py_encode msgs = Ok bs ->
  rust_recv_all (Src bs chunks) = (msgs, None).
Proof. exact py_rust_stream. Qed.
Example cross_decode_any_split_ex :
  judge_transport ex_big (on_stream rust_encode ex_big (fun bs => py_recv_all (Src bs ex_chunks))) = true /\
  judge_transport ex_big (on_stream py_encode ex_big (fun bs => rust_recv_all (Src bs ex_chunks))) = true.
Proof. exact ex_cross_big. Qed.

(** Framing never fails (no overflow, no fuel) and both senders build the same frames. *)
Theorem encode_never_fails : forall msgs : list msg,
  (exists bs, encode_all rust_encode msgs = Ok bs) /\
  (Forall wf_py msgs -> exists bs, encode_all py_encode msgs = Ok bs).
Proof. intro msgs. split; [exact (rust_encode_all_total msgs)|exact (py_encode_all_total msgs)]. Qed.
Theorem senders_agree : forall m : msg, wf_py m -> py_encode m = rust_encode m.
Proof. exact py_encode_eq. Qed.

(** Sending: however the socket splits the writes, exactly the frames reach the wire. *)
Theorem send_any_short_writes : forall (m : msg) (wsch : list nat),
  (exists bs w', rust_encode m = Ok bs /\ rust_send_msg m wsch = (bs, Ok tt, w')) /\
  (wf_py m -> exists bs w', py_encode m = Ok bs /\ py_send_msg m wsch = (bs, Ok tt, w')).
Proof. intros m wsch. split; [exact (rust_send_wire m wsch)|exact (py_send_wire m wsch)]. Qed.
Example send_any_short_writes_ex :
  fst (fst (rust_send_msg (Msg 6 [1; 2; 3; 4]) [1; 2; 1]%nat)) = [6; 0; 4; 1; 2; 3; 4] /\
  fst (fst (py_send_msg (Msg 1 [1; 2; 3; 4]) [3; 1]%nat)) = [1; 0; 4; 1; 2; 3; 4].
Proof. exact ex_send_short_writes. Qed.

(** The receive loops terminate on every stream, also on garbage and truncated ones (fuel is never the outcome). *)
Theorem receivers_never_out_of_fuel : forall s : src,
  snd (rust_recv_all s) <> Some EFuel /\ snd (py_recv_all s) <> Some EFuel.
Proof. intro s. split; [exact (rust_recv_all_fuel s)|exact (py_recv_all_fuel s)]. Qed.

(** Sessions: for every server (state type, handler), every history of requests of any size and every
    chunking of every read and write, the i-th result the client obtains is the server's answer to the
    i-th request. *)
Theorem sync : forall (St : Type) (handler : St -> msg -> St * msg) (st0 : St) (history : list round),
  (forall st m, wf_msg (snd (handler st m))) ->
  Forall (fun r => wf_msg (r_req r)) history ->
  run_history St handler codec_now (Sys st0 [] []) history
  = (ref_run St handler st0 (map r_req history), None).
Proof. intros St handler st0 history Hh Hw. exact (sync_now St handler Hh history st0 Hw). Qed.
Example sync_ex :
  Forall (fun r => wf_msg (r_req r)) ex_rounds /\
  judge_session (ref_run Z double_handler 0 (map r_req ex_rounds))
                (run_history Z double_handler codec_now (Sys 0 [] []) ex_rounds) = true.
Proof. exact ex_sync. Qed.

(** * The code before the fixes ([_nofix] model, faithful to the pinned tree) violates each of these *)

(** one recv per field: a 2-byte first chunk desynchronises the Python receiver (payloads <= 65535) *)
Theorem py_decode_any_split_nofix_refuted :
  exists msgs chunks bs, Forall wf_msg msgs /\ Forall small msgs /\
    encode_all py_encode_nofix msgs = Ok bs /\ py_recv_all_nofix (Src bs chunks) <> (msgs, None).
Proof. exact py_decode_any_split_nofix_refuted_l. Qed.

(** send instead of sendall: a short write silently drops the rest of the frame *)
Theorem py_send_nofix_refuted :
  exists m wsch bs, wf_msg m /\ small m /\ py_encode_nofix m = Ok bs /\
    fst (fst (py_send_msg_nofix m wsch)) <> bs /\ snd (fst (py_send_msg_nofix m wsch)) = Ok tt.
Proof. exact py_send_nofix_refuted_l. Qed.

(** to_bytes(2) raises OverflowError for a payload of 65536 bytes *)
Theorem py_send_overflow_nofix_refuted :
  exists m, wf_msg m /\ py_encode_nofix m = Err EOverflow.
Proof. exact py_send_overflow_nofix_refuted_l. Qed.

(** size field truncated to 65535 while the whole payload is sent: the tail is read as the next header *)
Theorem rust_truncation_nofix_refuted :
  exists msgs chunks bs, Forall wf_msg msgs /\
    encode_all rust_encode_nofix msgs = Ok bs /\ rust_recv_all_nofix (Src bs chunks) <> (msgs, None).
Proof. exact rust_truncation_nofix_refuted_l. Qed.

(** a session: after one 65536-byte request the answer to the next request is wrong *)
Theorem sync_nofix_refuted :
  exists rounds, Forall (fun r => wf_msg (r_req r)) rounds /\
    run_history unit first_byte_handler codec_nofix (Sys tt [] []) rounds
    <> (ref_run unit first_byte_handler tt (map r_req rounds), None).
Proof. exact sync_nofix_refuted_l. Qed.
