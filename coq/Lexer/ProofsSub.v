(** C08 — proofs, part 2: the sub-lexers called from the `match self.consume()` of Iterator::next
    (numbers, symbols, strings, interpolation, raw identifiers, operators) meet [sub_post]. *)
From Coq Require Import ZArith List Bool Arith Lia.
From ErgV Require Import Lexer.Model Lexer.Spec Lexer.Proofs.
Import ListNotations.
Open Scope Z_scope.

Section A.
Variable src : list Z.

Definition sub_post (st0 : lstate) (g : Z) (it : item) (st' : lstate) : Prop :=
  Inv src st' /\
  zlen (post st') <= zlen (post st0) /\
  indent_stack st' = indent_stack st0 /\
  prev_kind st' = tk_kind (item_token it) /\
  tk_kind (item_token it) <> EOF /\
  (forall t, it = ITok t ->
     tk_kind t <> Indent /\ tk_kind t <> Dedent /\
     tk_line t = lineno st0 + 1 /\ tk_col t = col st0 /\ tk_start t = g).

Definition plain_kind (k : tkind) : Prop := k <> EOF /\ k <> Indent /\ k <> Dedent.

Lemma wp_emit_ok st0 st k cont g :
  Good src st0 st -> plain_kind k ->
  wp (bind (emit_singleline_token k cont g) (fun t => ok_tok t)) (fun it st' => sub_post st0 g it st') st.
Proof.
  intros [I (F1 & F2 & F3 & F4 & F5)] (K1 & K2 & K3). unfold wp, bind, emit_singleline_token, ok_tok, ret.
  cbn. split; [eapply Inv_core; [|exact I]; repeat split|].
  split; [assumption|]. split; [assumption|]. split; [reflexivity|]. split; [assumption|].
  intros t [= <-]. cbn. repeat split; congruence.
Qed.

Lemma wp_emit_err st0 st k cont g e :
  Good src st0 st -> k <> EOF ->
  wp (bind (emit_singleline_token k cont g) (fun t => err_tok e t)) (fun it st' => sub_post st0 g it st') st.
Proof.
  intros [I (F1 & F2 & F3 & F4 & F5)] K1. unfold wp, bind, emit_singleline_token, err_tok, ret.
  cbn. split; [eapply Inv_core; [|exact I]; repeat split|].
  split; [assumption|]. split; [assumption|]. split; [reflexivity|]. split; [assumption|].
  intros t [=].
Qed.

Lemma Good_set_encl st0 st v : Good src st0 st -> Good src st0 (set_encl st v).
Proof. intros [I F]. split; [eapply Inv_core; [|exact I]; repeat split|exact F]. Qed.

Lemma Good_push st0 st i l :
  Good src st0 st -> interpol st = l -> Good src st0 (set_interpol st (i :: l)).
Proof.
  intros [I F] <-. split; [|exact F].
  destruct (inv_interpol _ _ I) as [l Hl].
  constructor; cbn; try apply I. exists (i :: l). rewrite Hl. reflexivity.
Qed.

Lemma Good_pop st0 st i rest l :
  Good src st0 st -> interpol st = i :: rest -> i <> INot -> l = rest -> Good src st0 (set_interpol st l).
Proof.
  intros [I F] E Hi ->. split; [|exact F].
  destruct (inv_interpol _ _ I) as [l Hl].
  constructor; cbn; try apply I. rewrite E in *.
  destruct l as [|j l]; cbn in Hl; inversion Hl; subst; [congruence|]. eauto.
Qed.

Lemma wp_last_interpol st (Q : interp -> lstate -> Prop) :
  Inv src st -> (forall i rest, interpol st = i :: rest -> Q i st) -> wp last_interpol Q st.
Proof.
  intros I H. unfold last_interpol. apply wp_bind, wp_gets.
  destruct (inv_interpol _ _ I) as [l Hl].
  destruct (interpol st) as [|i rest] eqn:E; [destruct l; discriminate|].
  apply wp_ret. eapply H. reflexivity.
Qed.

Lemma Good_inv st0 st : Good src st0 st -> Inv src st.
Proof. intros [I _]; exact I. Qed.

Lemma plain_int_or_nat num : plain_kind (int_or_nat num).
Proof. unfold int_or_nat, plain_kind. destruct (_ && _); repeat split; discriminate. Qed.

Lemma peek_is st c : opt_is (peek_cur_ch st) c = true -> peek_cur_ch st = Some c.
Proof. destruct (peek_cur_ch st); cbn; [|discriminate]. intros H. apply Z.eqb_eq in H. congruence. Qed.

Lemma plain_symbol_kind c : plain_kind (symbol_kind c).
Proof. unfold symbol_kind, plain_kind. repeat (destruct (list_eqb _ _); [repeat split; discriminate|]). repeat split; discriminate. Qed.

Lemma plain_quote_kind q : plain_kind (quote_kind q).
Proof. destruct q; repeat split; discriminate. Qed.

Lemma hex_val_range c : is_ascii_hexdigit c = true -> 0 <= hex_val c <= 15.
Proof.
  unfold is_ascii_hexdigit, hex_val, is_ascii_digit. intros H.
  destruct ((48 <=? c) && (c <=? 57)) eqn:E1.
  - apply andb_prop in E1 as [A B]. lia.
  - destruct ((65 <=? c) && (c <=? 70)) eqn:E2.
    + apply andb_prop in E2 as [A B]. lia.
    + cbn in H. apply andb_prop in H as [A B]. lia.
Qed.

Lemma wp_invalid_unicode st0 st s g :
  Good src st0 st -> wp (invalid_unicode_character s g) (sub_post st0 g) st.
Proof. intros G. unfold invalid_unicode_character. apply wp_emit_err; [assumption | discriminate]. Qed.

Lemma wp_emit_err_k st0 st k cont g (f : token -> M item) :
  Good src st0 st -> k <> EOF -> (forall t, exists e, f t = err_tok e t) ->
  wp (bind (emit_singleline_token k cont g) f) (sub_post st0 g) st.
Proof.
  intros G K H.
  destruct (H (mk_token k cont (lineno st + 1) (col st) g)) as [e He].
  pose proof (wp_emit_err st0 st k cont g e G K) as W.
  unfold wp, bind, emit_singleline_token in *. rewrite He. exact W.
Qed.

Lemma wp_emit_multi_ok st0 st k cont g :
  Good src st0 st -> plain_kind k ->
  wp (bind (emit_multiline_token true k (col st0) cont g) (fun t => ok_tok t)) (sub_post st0 g) st.
Proof.
  intros [I (F1 & F2 & F3 & F4 & F5)] (K1 & K2 & K3). unfold wp, bind, emit_multiline_token, ok_tok, ret.
  cbn. split; [eapply Inv_core; [|exact I]; repeat split|].
  split; [assumption|]. split; [assumption|]. split; [reflexivity|]. split; [assumption|].
  intros t [= <-]. cbn. repeat split; congruence.
Qed.

Lemma wp_emit_multi_err_k st0 st k cont g (f : token -> M item) :
  Good src st0 st -> k <> EOF -> (forall t st', exists e, f t st' = err_tok e t st') ->
  wp (bind (emit_multiline_token true k (col st0) cont g) f) (sub_post st0 g) st.
Proof.
  intros [I (F1 & F2 & F3 & F4 & F5)] K1 H. unfold wp, bind, emit_multiline_token.
  match goal with |- match f ?t ?s with _ => _ end => destruct (H t s) as [e ->] end.
  unfold err_tok, ret.
  cbn. split; [eapply Inv_core; [|exact I]; repeat split|].
  split; [assumption|]. split; [assumption|]. split; [reflexivity|]. split; [assumption|].
  intros t [=].
Qed.

Definition step_post (st0 : lstate) (g : Z) (s : step) (st' : lstate) : Prop :=
  match s with
  | SNone => False
  | SItem it => sub_post st0 g it st'
  | SAgain => Inv src st' /\ zlen (post st') <= zlen (post st0) /\
              indent_stack st' = indent_stack st0 /\ prev_kind st' = prev_kind st0
  end.

Lemma wp_lift st0 st g (m : M item) :
  wp m (sub_post st0 g) st -> wp (lift m) (step_post st0 g) st.
Proof. intros H. unfold lift. apply wp_bind. eapply wp_mono; [exact H|]. intros a st' Ha. exact Ha. Qed.

Lemma wp_accept st0 st k cont g :
  Good src st0 st -> plain_kind k -> wp (accept k cont g) (step_post st0 g) st.
Proof. intros G K. unfold accept. exact (wp_emit_ok st0 st k cont g G K). Qed.

Lemma wp_reject st0 st k cont g e :
  Good src st0 st -> k <> EOF -> wp (reject e k cont g) (step_post st0 g) st.
Proof. intros G K. unfold reject. exact (wp_emit_err st0 st k cont g e G K). Qed.

Lemma step_again st0 st st' g :
  Good src st0 st -> same_core st st' -> indent_stack st' = indent_stack st -> prev_kind st' = prev_kind st ->
  step_post st0 g SAgain st'.
Proof.
  intros [I (F1 & F2 & F3 & F4 & F5)] C Hi Hp. cbn [step_post].
  split; [eapply Inv_core; eassumption|].
  destruct C as (_ & C2 & _). rewrite <- C2. repeat split; congruence.
Qed.

Lemma wp_newline st0 st g :
  Good src st0 st ->
  wp (t <- emit_singleline_token Newline [10] g;;
      modify (fun st1 : lstate => set_col (set_lineno st1 (lineno st1 + 1)) 0);;;
      ret (SItem (ITok t))) (step_post st0 g) st.
Proof.
  intros [I (F1 & F2 & F3 & F4 & F5)]. unfold wp, bind, emit_singleline_token, modify, ret. cbn.
  split; [eapply Inv_core; [|exact I]; repeat split|].
  split; [assumption|]. split; [assumption|]. split; [reflexivity|]. split; [discriminate|].
  intros t [= <-]. cbn. repeat split; try congruence; discriminate.
Qed.
End A.

Ltac rw_post := repeat match goal with H : post ?s = _ |- context [post ?s] => rewrite H end.

Ltac good :=
  repeat first
    [ assumption
    | apply Good_adv; [| cbn [post set_interpol set_encl]; autorewrite with st; rw_post; reflexivity]
    | apply Good_adv_eof; [| cbn [post set_interpol set_encl]; autorewrite with st; rw_post; reflexivity]
    | apply Good_set_encl
    | apply Good_push; [| autorewrite with st; reflexivity]
    | eapply Good_pop;
        [ | autorewrite with st; eassumption | discriminate
          | autorewrite with st; repeat match goal with H : interpol _ = _ |- _ => rewrite H end; reflexivity ] ].

Ltac ws1 :=
  lazymatch goal with
  | |- wp (bind (emit_singleline_token _ _ _) _) _ _ => fail
  | |- wp (bind (emit_multiline_token _ _ _ _ _) _) _ _ => fail
  | |- wp (bind _ _) _ _ => apply wp_bind
  | |- wp (ret _) _ _ => apply wp_ret
  | |- wp (ok_tok _) _ _ => apply wp_ret
  | |- wp (err_tok _ _) _ _ => apply wp_ret
  | |- wp (gets _) _ _ => apply wp_gets
  | |- wp peek_cur _ _ => unfold peek_cur; apply wp_gets
  | |- wp peek_next _ _ => unfold peek_next; apply wp_gets
  | |- wp (modify _) _ _ => apply wp_modify
  | |- wp (push_interpol _) _ _ => unfold push_interpol; apply wp_modify
  | |- wp pop_interpol _ _ => unfold pop_interpol; apply wp_modify
  | |- wp (consume true) _ _ => apply wp_consume
  | |- wp (unwrap (Some _)) _ _ => apply wp_ret
  | |- wp (if true then _ else _) _ _ => cbv iota
  | |- wp (if false then _ else _) _ _ => cbv iota
  | |- wp op_fix _ _ => unfold op_fix; apply wp_gets
  | |- wp (bump_line_nofix true) _ _ => unfold bump_line_nofix; apply wp_ret
  | |- wp last_interpol _ _ =>
    match goal with G : Good ?sr ?s0 _ |- _ =>
      apply (wp_last_interpol sr); [apply (Good_inv sr s0); good | let H := fresh "HI" in intros ? ? H; autorewrite with st in H] end
  end; cbv beta.

Ltac ws :=
  repeat first
    [ ws1
    | progress (unfold peek_cur_ch, peek_next_ch)
    | progress (autorewrite with st)
    | progress rw_post
    | progress (cbn [hd_error nth_error opt_is fuel_of tl
                     pre post cursor len indent_stack encl prev_kind lineno col cur_line line_head interpol
                     set_interpol set_encl set_col set_lineno set_prev set_indent]) ].

Ltac fuel := unfold fuel_of; autorewrite with st; rw_post;
  repeat match goal with H : (length (post _) < _)%nat |- _ => rewrite ?post_adv in H; cbn [length] in H end;
  cbn [length] in *; lia.

Ltac wcase0 :=
  lazymatch goal with
  | |- match ?x with _ => _ end => destruct x eqn:?
  | |- wp (if ?b then _ else _) _ _ => destruct b eqn:?
  | |- wp (match ?x with _ => _ end) _ _ => destruct x eqn:?
  end; try discriminate.

Ltac wcase :=
  first [ match goal with
          | |- context [hd_error ?l] => is_var l; destruct l; cbn [hd_error nth_error]
          | |- context [nth_error ?l _] => is_var l; destruct l; cbn [hd_error nth_error]
          end | wcase0 ].

Ltac pk := repeat split; discriminate.

Ltac leaf :=
  first
    [ apply wp_emit_ok; [good | pk]
    | apply wp_emit_err; [good | discriminate]
    | apply wp_invalid_unicode; good
    | apply wp_emit_err_k; [good | discriminate |
        intros ?; repeat match goal with |- context [match ?x with _ => _ end] => destruct x end; eexists; reflexivity]
    | apply wp_emit_multi_ok; [good | first [pk | apply plain_quote_kind]]
    | apply wp_emit_multi_err_k; [good | discriminate |
        intros ? ?; unfold bind, gets;
        repeat match goal with |- context [match ?x with _ => _ end] => destruct x end; eexists; reflexivity] ].

Section B.
Variable src : list Z.
Variable xs xc : Z -> bool.

Lemma take_while_spec p st0 : forall n acc st (Q : list Z -> lstate -> Prop),
  (length (post st) < n)%nat -> Good src st0 st ->
  (forall x st', Good src st0 st' -> Q (acc ++ x) st') ->
  wp (take_while true n p acc) Q st.
Proof.
  induction n as [|n IH]; intros acc st Q Hn G HQ; [lia|].
  cbn [take_while]. ws.
  destruct (post st) as [|c r] eqn:E; ws.
  - rewrite <- (app_nil_r acc). auto.
  - destruct (p c); ws; [|rewrite <- (app_nil_r acc); auto].
    apply IH; [fuel | good |]. intros x st' G'. rewrite <- app_assoc. auto.
Qed.

Lemma lex_exponent_spec st0 st m g :
  Good src st0 st -> peek_cur_ch st = Some 101 ->
  wp (lex_exponent true m g) (sub_post src st0 g) st.
Proof.
  intros G P. unfold lex_exponent. ws. unfold peek_cur_ch in P.
  destruct (post st) as [|c r] eqn:E; [discriminate|]. cbn in P. injection P as ->.
  ws. cbn [Z.eqb Pos.eqb]. ws.
  destruct r as [|d r']; ws.
  - apply wp_emit_err; [good | discriminate].
  - apply take_while_spec with (st0 := st0); [fuel | good |].
    intros acc' st' G'. apply wp_emit_ok; [assumption | repeat split; discriminate].
Qed.

Lemma lex_ratio_spec st0 st m g :
  Good src st0 st -> wp (lex_ratio true m g) (sub_post src st0 g) st.
Proof.
  intros G. unfold lex_ratio. ws.
  apply take_while_spec with (st0 := st0); [fuel | good |].
  intros acc' st' G'. ws. wcase.
  - apply lex_exponent_spec; [assumption|].
    unfold peek_cur_ch. destruct (post st') as [|c r]; cbn in *; [discriminate|].
    apply Z.eqb_eq in Heqb. subst. reflexivity.
  - apply wp_emit_ok; [assumption | pk].
Qed.

Lemma lex_radix_spec st0 st k p m g :
  Good src st0 st -> plain_kind k -> wp (lex_radix true k p m g) (sub_post src st0 g) st.
Proof.
  intros G K. unfold lex_radix. ws.
  apply take_while_spec with (st0 := st0); [fuel | good |].
  intros acc' st' G'. apply wp_emit_ok; assumption.
Qed.

Lemma lex_num_dot_spec st0 st m g :
  Good src st0 st -> peek_cur_ch st = Some 46 ->
  wp (lex_num_dot xc true m g) (sub_post src st0 g) st.
Proof.
  intros G P. unfold lex_num_dot. ws. unfold peek_cur_ch in P.
  destruct (post st) as [|c r] eqn:E; [discriminate|]. cbn in P. injection P as ->.
  ws. destruct r as [|d r']; ws; [apply lex_ratio_spec; good|].
  repeat (wcase; ws); try (apply lex_ratio_spec; good).
  - apply wp_emit_ok; [good | apply plain_int_or_nat].
  - apply wp_emit_err; [good | discriminate].
Qed.

Lemma lex_num_loop_spec st0 g : forall n m st,
  (length (post st) < n)%nat -> Good src st0 st ->
  wp (lex_num_loop xc true n m g) (sub_post src st0 g) st.
Proof.
  induction n as [|n IH]; intros m st Hn G; [lia|].
  cbn [lex_num_loop]. cbv zeta. ws.
  destruct (post st) as [|c r] eqn:E; ws.
  - apply wp_emit_ok; [good | apply plain_int_or_nat].
  - repeat (wcase; ws);
      try (apply wp_emit_ok; [good | apply plain_int_or_nat]);
      try (apply lex_radix_spec; [good | pk]).
    + apply lex_num_dot_spec; [good|]. apply Z.eqb_eq in Heqb. subst. unfold peek_cur_ch. rewrite E. reflexivity.
    + apply IH; [fuel | good].
    + apply lex_exponent_spec; [good|]. apply andb_prop in Heqb5 as [H _]. apply Z.eqb_eq in H. subst.
      unfold peek_cur_ch. rewrite E. reflexivity.
Qed.

Lemma lex_num_spec st0 st c g :
  Good src st0 st -> wp (lex_num xc true c g) (sub_post src st0 g) st.
Proof. intros G. unfold lex_num. ws. apply lex_num_loop_spec; [fuel | good]. Qed.

Lemma lex_symbol_spec st0 st c g :
  Good src st0 st -> wp (lex_symbol xc true c g) (sub_post src st0 g) st.
Proof.
  intros G. unfold lex_symbol. ws.
  apply take_while_spec with (st0 := st0); [fuel | good |].
  intros x st' G'. cbn [app]. ws.
  destruct (post st') as [|d r] eqn:E; ws.
  - apply wp_emit_ok; [good | apply plain_symbol_kind].
  - wcase; ws; apply wp_emit_ok; try apply plain_symbol_kind; good.
Qed.

Lemma lex_single_str_loop_spec st0 g : forall n s st,
  (length (post st) < n)%nat -> Good src st0 st ->
  wp (lex_single_str_loop true true n s g) (sub_post src st0 g) st.
Proof.
  induction n as [|n IH]; intros s st Hn G; [lia|].
  cbn [lex_single_str_loop]. cbv zeta. ws.
  destruct (post st) as [|c r] eqn:E; ws; [leaf|].
  repeat (wcase; ws); try leaf; try (apply IH; [fuel | good]).
  exfalso.
  repeat match goal with H : negb (is_ascii_hexdigit ?a) = false |- _ =>
    apply negb_false_iff, hex_val_range in H end.
  match goal with H : (_ || _) = true |- _ => apply orb_prop in H as [H|H]; [apply andb_prop in H as [? ?]|]; lia end.
Qed.

Lemma lex_multi_line_str_loop_spec st0 g q : forall n s st,
  (length (post st) < n)%nat -> Good src st0 st ->
  wp (lex_multi_line_str_loop true true n q (col st0) s g) (sub_post src st0 g) st.
Proof.
  induction n as [|n IH]; intros s st Hn G; [lia|].
  cbn [lex_multi_line_str_loop]. cbv zeta. ws.
  destruct (post st) as [|c r] eqn:E; ws; [leaf|].
  repeat (wcase; ws); try leaf; try (apply IH; [fuel | good]).
Qed.

Lemma lex_interpolation_mid_loop_spec st0 g : forall n s st,
  (length (post st) < n)%nat -> Good src st0 st ->
  wp (lex_interpolation_mid_loop true true n s g) (sub_post src st0 g) st.
Proof.
  induction n as [|n IH]; intros s st Hn G; [lia|].
  cbn [lex_interpolation_mid_loop]. cbv zeta. ws.
  destruct (post st) as [|c r] eqn:E; ws; [leaf|].
  repeat (wcase; ws); try leaf; try (apply IH; [fuel | good]).
Qed.

Lemma lex_raw_ident_loop_spec st0 g : forall n s st,
  (length (post st) < n)%nat -> Good src st0 st ->
  wp (lex_raw_ident_loop true n s g) (sub_post src st0 g) st.
Proof.
  induction n as [|n IH]; intros s st Hn G; [lia|].
  cbn [lex_raw_ident_loop]. cbv zeta. ws.
  destruct (post st) as [|c r] eqn:E; ws; [leaf|].
  repeat (wcase; ws); try leaf; try (apply IH; [fuel | good]).
Qed.

Lemma lex_backquote_loop_spec st0 g : forall n op st,
  (length (post st) < n)%nat -> Good src st0 st ->
  wp (lex_backquote_loop true n op g) (step_post src st0 g) st.
Proof.
  induction n as [|n IH]; intros op st Hn G; [lia|].
  cbn [lex_backquote_loop]. ws.
  destruct (post st) as [|c r] eqn:E; ws.
  - apply wp_reject; [good | discriminate].
  - repeat (wcase; ws); try (apply wp_accept; [good | pk]); try (apply wp_reject; [good | discriminate]).
    apply IH; [fuel | good].
Qed.

Lemma lex_single_str_spec st0 st g :
  Good src st0 st -> wp (lex_single_str true true g) (sub_post src st0 g) st.
Proof. intros G. unfold lex_single_str. ws. apply lex_single_str_loop_spec; [fuel | good]. Qed.

Lemma lex_multi_line_str_spec st0 st q g :
  Good src st0 st -> wp (lex_multi_line_str true true q g) (sub_post src st0 g) st.
Proof.
  intros G. unfold lex_multi_line_str. ws.
  replace (col st) with (col st0) by (destruct G as [_ (_ & F2 & _)]; congruence).
  apply lex_multi_line_str_loop_spec; [fuel | good].
Qed.

Lemma lex_interpolation_mid_spec st0 st g :
  Good src st0 st -> wp (lex_interpolation_mid true true g) (sub_post src st0 g) st.
Proof. intros G. unfold lex_interpolation_mid. ws. apply lex_interpolation_mid_loop_spec; [fuel | good]. Qed.

Lemma lex_raw_ident_spec st0 st g :
  Good src st0 st -> wp (lex_raw_ident true g) (sub_post src st0 g) st.
Proof. intros G. unfold lex_raw_ident. ws. apply lex_raw_ident_loop_spec; [fuel | good]. Qed.

Lemma by_fix_spec st0 st ki kp cont ill g :
  Good src st0 st -> plain_kind ki -> plain_kind kp ->
  wp (by_fix ki kp cont ill g) (step_post src st0 g) st.
Proof.
  intros G Ki Kp. unfold by_fix, op_fix. ws.
  repeat (wcase; ws); try (apply wp_accept; [good | assumption]); apply wp_reject; [good | discriminate].
Qed.
End B.

Ltac dleaf :=
  lazymatch goal with
  | |- step_post _ ?s0 _ SAgain (set_col (set_lineno ?s _) _) =>
    apply (step_again _ s0 s); [good | repeat split | reflexivity | reflexivity]
  | |- wp (accept _ _ _) _ _ => apply wp_accept; [good | pk]
  | |- wp (reject _ _ _ _) _ _ => apply wp_reject; [good | discriminate]
  | |- wp (lift _) _ _ =>
    apply wp_lift;
      first [ apply lex_num_spec; good | apply lex_symbol_spec; good | apply lex_ratio_spec; good
            | apply lex_single_str_spec; good | apply lex_multi_line_str_spec; good
            | apply lex_raw_ident_spec; good | apply lex_interpolation_mid_spec; good ]
  | |- wp (by_fix _ _ _ _ _) _ _ => apply by_fix_spec; [good | pk | pk]
  | |- wp (lex_backquote_loop _ _ _ _) _ _ => apply lex_backquote_loop_spec; [fuel | good]
  | |- wp (bind (emit_singleline_token Newline _ _) _) _ _ => apply wp_newline; good
  end.

Section C.
Variable src : list Z.
Variable xs xc : Z -> bool.

Lemma dispatch_spec st0 st c g :
  Good src st0 st -> wp (dispatch xs xc true true c g) (step_post src st0 g) st.
Proof.
  intros G. unfold dispatch. ws.
  repeat (wcase; ws); dleaf.
Qed.
End C.
