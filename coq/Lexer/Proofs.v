(** C08 — proofs about the lexer model (in progress). *)
From Coq Require Import ZArith List Bool Arith Lia.
From ErgV Require Import Lexer.Model Lexer.Spec.
Import ListNotations.
Open Scope Z_scope.
