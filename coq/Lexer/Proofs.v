(** C08 — proofs about the lexer model (the current code: fx_esc = fx_pos = true). *)
From Coq Require Import ZArith List Bool Arith Lia.
From ErgV Require Import Lexer.Model Lexer.Spec.
Import ListNotations.
Open Scope Z_scope.

(* ------------------------------------------------------------------ lists / positions *)
Fixpoint since_nl (p : list Z) : Z :=
  match p with
  | [] => 0
  | c :: r => if c =? 10 then 0 else 1 + since_nl r
  end.

Lemma zlen_nonneg l : 0 <= zlen l.
Proof. unfold zlen; lia. Qed.
Lemma zlen_cons c (l : list Z) : zlen (c :: l) = zlen l + 1.
Proof. unfold zlen; cbn [length]; lia. Qed.
Lemma zlen_app (a b : list Z) : zlen (a ++ b) = zlen a + zlen b.
Proof. unfold zlen; rewrite app_length; lia. Qed.
Lemma zlen_nil : zlen (@nil Z) = 0.
Proof. reflexivity. Qed.
Lemma zlen_rev (a : list Z) : zlen (rev a) = zlen a.
Proof. unfold zlen; now rewrite rev_length. Qed.

Lemma since_nl_bounds p : 0 <= since_nl p <= zlen p.
Proof.
  induction p as [|c r IH]; cbn [since_nl].
  - rewrite zlen_nil; lia.
  - rewrite zlen_cons. destruct (c =? 10); lia.
Qed.

Lemma count_nl_nonneg p : 0 <= count_nl p.
Proof. induction p as [|c r IH]; cbn [count_nl]; [lia|]. destruct (c =? 10); lia. Qed.

Lemma pos_scan_0 l ln cl : pos_scan l 0 ln cl = (ln, cl).
Proof. destruct l; reflexivity. Qed.

Lemma pos_scan_split a : forall l k ln cl,
  pos_scan (a ++ l) (length a + k) ln cl =
  pos_scan l k (fst (pos_scan (a ++ l) (length a) ln cl)) (snd (pos_scan (a ++ l) (length a) ln cl)).
Proof.
  induction a as [|c r IH]; intros l k ln cl.
  - cbn [app length plus]. destruct l; destruct k; reflexivity.
  - cbn [app length plus pos_scan]. destruct (c =? 10); apply IH.
Qed.

(** scanning the consumed prefix [rev p] lands on (1 + #newlines, #chars since the last newline) *)
Lemma pos_scan_pre p : forall post,
  pos_scan (rev p ++ post) (length p) 1 0 = (1 + count_nl p, since_nl p).
Proof.
  induction p as [|c r IH]; intros post; [destruct post; reflexivity|].
  cbn [rev length]. rewrite <- app_assoc.
  replace (S (length r)) with (length (rev r) + 1)%nat by (rewrite rev_length; lia).
  rewrite pos_scan_split. rewrite rev_length, IH. cbn [fst snd app pos_scan count_nl since_nl].
  destruct (c =? 10); rewrite pos_scan_0; f_equal; lia.
Qed.

Lemma pos_of_pre p post : pos_of (rev p ++ post) (zlen p) = (1 + count_nl p, since_nl p).
Proof. unfold pos_of, zlen. rewrite Nat2Z.id. apply pos_scan_pre. Qed.

(* ------------------------------------------------------------------ weakest preconditions *)
Definition wp {A} (m : M A) (Q : A -> lstate -> Prop) (st : lstate) : Prop :=
  match m st with Ok (a, st') => Q a st' | Panic => False | Fuel => False end.

Lemma wp_bind {A B} (m : M A) (f : A -> M B) (Q : B -> lstate -> Prop) st :
  wp m (fun a st' => wp (f a) Q st') st -> wp (bind m f) Q st.
Proof. unfold wp, bind. destruct (m st) as [[a st']| |]; auto. Qed.
Lemma wp_ret {A} (a : A) (Q : A -> lstate -> Prop) st : Q a st -> wp (ret a) Q st.
Proof. exact (fun H => H). Qed.
Lemma wp_gets {A} (f : lstate -> A) (Q : A -> lstate -> Prop) st : Q (f st) st -> wp (gets f) Q st.
Proof. exact (fun H => H). Qed.
Lemma wp_modify f (Q : unit -> lstate -> Prop) st : Q tt (f st) -> wp (modify f) Q st.
Proof. exact (fun H => H). Qed.
Lemma wp_mono {A} (m : M A) (Q Q' : A -> lstate -> Prop) st :
  wp m Q st -> (forall a st', Q a st' -> Q' a st') -> wp m Q' st.
Proof. unfold wp. destruct (m st) as [[a st']| |]; auto. Qed.
Lemma wp_elim {A} (m : M A) (Q : A -> lstate -> Prop) st : wp m Q st -> exists a st', m st = Ok (a, st') /\ Q a st'.
Proof. unfold wp. destruct (m st) as [[a st']| |]; intros H; try contradiction. eauto. Qed.

(* ------------------------------------------------------------------ state primitives, concretely *)
(* the state after consume (fx_pos = true) of character [c], [r] being the rest *)
Definition adv (st : lstate) (c : Z) (r : list Z) : lstate :=
  let st1 := set_zip st (c :: pre st) r (cursor st + 1) in
  if c =? 10 then set_curline st1 (cur_line st1 + 1) (cursor st1) else st1.
Definition adv_eof (st : lstate) : lstate := set_zip st (pre st) [] (cursor st + 1).

Lemma wp_consume st (Q : option Z -> lstate -> Prop) :
  match post st with c :: r => Q (Some c) (adv st c r) | [] => Q None (adv_eof st) end ->
  wp (consume true) Q st.
Proof. unfold wp, consume, adv, adv_eof. destruct (post st); cbn [andb]; auto. Qed.

Lemma pre_adv st c r : pre (adv st c r) = c :: pre st.
Proof. unfold adv. destruct (c =? 10); reflexivity. Qed.
Lemma post_adv st c r : post (adv st c r) = r.
Proof. unfold adv. destruct (c =? 10); reflexivity. Qed.
Lemma cursor_adv st c r : cursor (adv st c r) = cursor st + 1.
Proof. unfold adv. destruct (c =? 10); reflexivity. Qed.
Lemma len_adv st c r : len (adv st c r) = len st.
Proof. unfold adv. destruct (c =? 10); reflexivity. Qed.
Lemma indent_adv st c r : indent_stack (adv st c r) = indent_stack st.
Proof. unfold adv. destruct (c =? 10); reflexivity. Qed.
Lemma encl_adv st c r : encl (adv st c r) = encl st.
Proof. unfold adv. destruct (c =? 10); reflexivity. Qed.
Lemma prev_adv st c r : prev_kind (adv st c r) = prev_kind st.
Proof. unfold adv. destruct (c =? 10); reflexivity. Qed.
Lemma lineno_adv st c r : lineno (adv st c r) = lineno st.
Proof. unfold adv. destruct (c =? 10); reflexivity. Qed.
Lemma col_adv st c r : col (adv st c r) = col st.
Proof. unfold adv. destruct (c =? 10); reflexivity. Qed.
Lemma interpol_adv st c r : interpol (adv st c r) = interpol st.
Proof. unfold adv. destruct (c =? 10); reflexivity. Qed.
#[export] Hint Rewrite pre_adv post_adv cursor_adv len_adv indent_adv encl_adv prev_adv lineno_adv col_adv interpol_adv : st.

Lemma pre_adv_eof st : pre (adv_eof st) = pre st. Proof. reflexivity. Qed.
Lemma post_adv_eof st : post (adv_eof st) = []. Proof. reflexivity. Qed.
Lemma cursor_adv_eof st : cursor (adv_eof st) = cursor st + 1. Proof. reflexivity. Qed.
Lemma len_adv_eof st : len (adv_eof st) = len st. Proof. reflexivity. Qed.
Lemma indent_adv_eof st : indent_stack (adv_eof st) = indent_stack st. Proof. reflexivity. Qed.
Lemma encl_adv_eof st : encl (adv_eof st) = encl st. Proof. reflexivity. Qed.
Lemma prev_adv_eof st : prev_kind (adv_eof st) = prev_kind st. Proof. reflexivity. Qed.
Lemma lineno_adv_eof st : lineno (adv_eof st) = lineno st. Proof. reflexivity. Qed.
Lemma col_adv_eof st : col (adv_eof st) = col st. Proof. reflexivity. Qed.
Lemma interpol_adv_eof st : interpol (adv_eof st) = interpol st. Proof. reflexivity. Qed.
#[export] Hint Rewrite pre_adv_eof post_adv_eof cursor_adv_eof len_adv_eof indent_adv_eof encl_adv_eof prev_adv_eof
  lineno_adv_eof col_adv_eof interpol_adv_eof : st.

Section WithSrc.
Variable src : list Z.

Record Inv (st : lstate) : Prop := {
  inv_zip : rev (pre st) ++ post st = src;
  inv_len : len st = zlen src;
  inv_cur : zlen (pre st) <= cursor st;
  inv_over : zlen (pre st) < cursor st -> post st = [];
  inv_line : cur_line st = count_nl (pre st);
  inv_head : line_head st = zlen (pre st) - since_nl (pre st);
  inv_interpol : exists l, interpol st = l ++ [INot];
  inv_indent : Forall (fun x => 0 <= x) (indent_stack st)
}.

Lemma Inv_init : forall s, s = src -> Inv (init s).
Proof.
  intros s ->. constructor; cbn; try reflexivity; try lia.
  - exists []; reflexivity.
  - constructor.
Qed.

Lemma Inv_pre_le st : Inv st -> zlen (pre st) + zlen (post st) = zlen src.
Proof. intros I. rewrite <- (inv_zip _ I), zlen_app, zlen_rev. reflexivity. Qed.

Lemma Inv_adv st c r : Inv st -> post st = c :: r -> Inv (adv st c r).
Proof.
  intros I E.
  assert (Hc : cursor st = zlen (pre st)).
  { pose proof (inv_cur _ I). destruct (Z.eq_dec (cursor st) (zlen (pre st))); [assumption|].
    rewrite (inv_over _ I) in E by lia. discriminate. }
  constructor; autorewrite with st.
  - cbn [rev]. rewrite <- app_assoc. cbn [app]. rewrite <- E. apply (inv_zip _ I).
  - apply (inv_len _ I).
  - rewrite zlen_cons. lia.
  - rewrite zlen_cons. lia.
  - pose proof (inv_line _ I) as HL. unfold adv. cbn [count_nl].
    destruct (c =? 10); cbn [cur_line set_curline set_zip]; lia.
  - pose proof (inv_head _ I) as HH. unfold adv. cbn [since_nl]. rewrite zlen_cons.
    destruct (c =? 10); cbn [line_head cursor set_curline set_zip]; lia.
  - apply (inv_interpol _ I).
  - apply (inv_indent _ I).
Qed.

Lemma Inv_adv_eof st : Inv st -> post st = [] -> Inv (adv_eof st).
Proof.
  intros I E. constructor; cbn; try apply I.
  - rewrite <- E. apply I.
  - pose proof (inv_cur _ I). lia.
  - reflexivity.
Qed.

(** changes that do not touch the zipper, the line tracking or the interpolation stack *)
Definition same_core (a b : lstate) : Prop :=
  pre a = pre b /\ post a = post b /\ cursor a = cursor b /\ len a = len b /\
  cur_line a = cur_line b /\ line_head a = line_head b /\ interpol a = interpol b /\
  indent_stack a = indent_stack b.
Lemma Inv_core a b : same_core a b -> Inv a -> Inv b.
Proof.
  intros (H1 & H2 & H3 & H4 & H5 & H6 & H7 & H8) I.
  constructor; rewrite <- ?H1, <- ?H2, <- ?H3, <- ?H4, <- ?H5, <- ?H6, <- ?H7, <- ?H8; apply I.
Qed.

(** [frame st0 st]: since the token started (state [st0], just after sync) the token-start bookkeeping and
    the indentation stack are untouched and input was only consumed *)
Definition frame (st0 st : lstate) : Prop :=
  lineno st = lineno st0 /\ col st = col st0 /\ indent_stack st = indent_stack st0 /\
  zlen (post st) <= zlen (post st0) /\ prev_kind st = prev_kind st0.
Definition Good (st0 st : lstate) : Prop := Inv st /\ frame st0 st.

Lemma frame_refl st : frame st st.
Proof. repeat split; lia. Qed.

Lemma Good_adv st0 st c r : Good st0 st -> post st = c :: r -> Good st0 (adv st c r).
Proof.
  intros [I (F1 & F2 & F3 & F4 & F5)] E. split; [apply Inv_adv; assumption|].
  repeat split; autorewrite with st; try assumption.
  rewrite E, zlen_cons in F4. lia.
Qed.
Lemma Good_adv_eof st0 st : Good st0 st -> post st = [] -> Good st0 (adv_eof st).
Proof.
  intros [I (F1 & F2 & F3 & F4 & F5)] E. split; [apply Inv_adv_eof; assumption|].
  repeat split; cbn [lineno col indent_stack post prev_kind adv_eof set_zip]; try assumption. apply zlen_nonneg.
Qed.

End WithSrc.
