(** C08 — The lexer is total and reports faithful token positions.

    All theorems are about [lex xs xc true true], the model (Lexer/Model.v) of the CURRENT lexer
    (erg_parser::lex::Lexer::from_str(src).lex(), items in the order the iterator yields them), for EVERY
    classification [xs]/[xc] of identifier characters (unicode_xid) and EVERY input [src : list Z].
    The switches [false false] select the lexer as it was before the C08 repairs; the [_refuted] theorems are
    stated on that faithful nofix model and their witnesses are replayed on the implementation by the check
    (known/C08.json, status fixed).  No [Known_C08] guard is needed any more: the drift classes
    (escape sequences, multi-line strings/comments, swallowed line breaks) were repaired in /repo. *)
From Coq Require Import ZArith List Bool Arith Lia.
From ErgV Require Import Lexer.Model Lexer.Spec Lexer.Proofs Lexer.ProofsSub Lexer.ProofsNext.
Import ListNotations.
Open Scope Z_scope.

(** Termination with an explicit fuel bound: 2 * |text| + 4 calls of Iterator::next always suffice
    (measure: 2 * remaining characters + indentation depth + "EOF not yet emitted"; the dedent rewinds the
    cursor but pops the indentation stack). *)
Theorem lex_terminates : forall (xs xc : Z -> bool) (src : list Z),
  lex_loop xs xc true true (length (normalize_newline src) * 2 + 4) (init (normalize_newline src)) [] <> Fuel.
Proof. exact lex_terminates_lemma. Qed.

(** No unwrap / index / subtraction / debug assertion on the modelled path can fail. *)
Theorem lex_no_panic : forall (xs xc : Z -> bool) (src : list Z),
  lex xs xc true true src <> Panic.
Proof. exact lex_no_panic_lemma. Qed.

Theorem lex_total : forall (xs xc : Z -> bool) (src : list Z),
  exists items, lex xs xc true true src = Ok items.
Proof. exact lex_total_lemma. Qed.

(** The token stream ends with EOF and has as many Dedents as Indents, or there is at least one error. *)
Theorem lex_eof_or_error : forall (xs xc : Z -> bool) (src : list Z) (items : list item),
  lex xs xc true true src = Ok items -> eof_or_error items.
Proof. exact lex_eof_or_error_lemma. Qed.

(** Every token of the stream is reported at the line / column of its first source character (the ghost
    [tk_start], computed from the cursor only) and the tokens are in source order. *)
Theorem lex_pos_faithful : forall (xs xc : Z -> bool) (src : list Z) (items : list item),
  lex xs xc true true src = Ok items -> pos_faithful (normalize_newline src) items.
Proof. exact lex_pos_faithful_lemma. Qed.

(* ------------------------------------------------------------------ non-vacuity *)
Definition ascii_letter (c : Z) : bool := ((97 <=? c) && (c <=? 122)) || ((65 <=? c) && (c <=? 90)).
Definition ascii_cont (c : Z) : bool := ascii_letter c || ((48 <=? c) && (c <=? 57)) || (c =? 95).

(* the text  f x =  NEWLINE  four spaces, a string literal  a backslash n  , + y NEWLINE :
   a block (Indent/Dedent), a string with an escape, a token after it *)
Definition ex_block : list Z :=
  [102;32;120;32;61;10;32;32;32;32;34;97;92;110;34;32;43;32;121;10].

Example lex_block_example :
  exists items, lex ascii_letter ascii_cont true true ex_block = Ok items /\
    map (fun t => (tk_kind t, tk_line t, tk_col t)) (tokens_of items) =
      [(Symbol,1,0); (Symbol,1,2); (Assign,1,4); (Newline,1,5); (Indent,2,0); (StrLit,2,4); (Plus,2,10);
       (Symbol,2,12); (Newline,2,13); (Dedent,3,0); (EOF,3,0)] /\
    errors_of items = [] /\ ends_with_eof_balanced (tokens_of items) = true.
Proof. eexists. split; [vm_compute; reflexivity|]. split; [reflexivity|]. split; reflexivity. Qed.

(* an unterminated string ending in a backslash: one error, then EOF *)
Example lex_error_example :
  exists e t eof, lex ascii_letter ascii_cont true true [120;32;61;32;34;97;92] =
    Ok [ITok (mk_token Symbol [120] 1 0 0); ITok (mk_token Assign [61] 1 2 2); IErr e t; ITok eof]
    /\ e = E_UnclosedStr 1 /\ tk_kind eof = EOF.
Proof. do 3 eexists. split; [vm_compute; reflexivity|]. split; reflexivity. Qed.

(* ------------------------------------------------------------------ the lexer before the repairs *)
(** the three characters  double-quote a backslash : the input ends right after a backslash inside a string
    literal: consume().unwrap() panics *)
Theorem lex_no_panic_refuted :
  exists src, forall xs xc : Z -> bool, lex xs xc false false src = Panic.
Proof. exists [34;97;92]. intros xs xc. vm_compute. reflexivity. Qed.

(** the six characters  double-quote backslash n double-quote + 1 : the string token is 4 characters long in the source but 3 after cooking, the column bookkeeping
    added the cooked length: `+` (source index 4) was reported at column 3 *)
Theorem lex_pos_faithful_refuted :
  exists src items, (forall xs xc : Z -> bool, lex xs xc false false src = Ok items) /\
                    ~ pos_faithful (normalize_newline src) items.
Proof.
  exists [34;92;110;34;43;49]. eexists. split; [intros xs xc; vm_compute; reflexivity|].
  intros [H _].
  specialize (H (mk_token Plus [43] 1 3 4) ltac:(cbn; tauto)).
  destruct H as [_ H]. vm_compute in H. discriminate H.
Qed.

(** the same inputs on the current lexer *)
Example lex_no_panic_witness_now :
  forall xs xc : Z -> bool, exists items, lex xs xc true true [34;97;92] = Ok items /\ errors_of items <> [].
Proof. intros xs xc. eexists. split; [vm_compute; reflexivity|]. discriminate. Qed.

Example lex_pos_witness_now :
  forall xs xc : Z -> bool, exists items, lex xs xc true true [34;92;110;34;43;49] = Ok items /\
    map (fun t => (tk_kind t, tk_col t)) (tokens_of items) = [(StrLit,0); (Plus,4); (NatLit,5); (EOF,6)].
Proof. intros xs xc. eexists. split; [vm_compute; reflexivity|]. reflexivity. Qed.
