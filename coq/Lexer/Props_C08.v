(** C08 — property theorems (in progress). *)
From Coq Require Import ZArith List Bool Arith Lia.
From ErgV Require Import Lexer.Model Lexer.Spec Lexer.Proofs.
Import ListNotations.
Open Scope Z_scope.
