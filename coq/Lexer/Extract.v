(** extraction entry point for the C08 correspondence check and judge *)
From Coq Require Import ZArith List Bool Arith.
Require Import ErgV.Common.Sx ErgV.Lexer.Model ErgV.Lexer.Spec .
Import ListNotations.
Open Scope Z_scope.

Fixpoint index_kind (k : tkind) (l : list tkind) (i : Z) : Z :=
  match l with
  | [] => -1
  | x :: r => if kind_eqb k x then i else index_kind k r (i + 1)
  end.
Definition kind_code (k : tkind) : Z := index_kind k all_kinds 0.
Definition kind_of_code (c : Z) : tkind := nth (Z.to_nat c) all_kinds Illegal.

Definition cat_code (c : tcat) : Z :=
  match c with
  | CSymbol => 0 | CLiteral => 1 | CStrInterpLeft => 2 | CStrInterpMid => 3 | CStrInterpRight => 4
  | CBinOp => 5 | CUnaryOp => 6 | CPostfixOp => 7 | CLEnclosure => 8 | CREnclosure => 9 | CSpecialBinOp => 10
  | CDefOp => 11 | CLambdaOp => 12 | CSeparator => 13 | CReserved => 14 | CAtSign => 15 | CVBar => 16
  | CUBar => 17 | CBOF => 18 | CEOF => 19 | CIllegal => 20
  end.

(* error class -> (code, parameter) *)
Definition err_code (e : errclass) : Z * Z :=
  match e with
  | E_BidiComment => (0, 0)
  | E_UnclosedMultiComment => (1, 0)
  | E_InvalidIndent h => (2, if h then 1 else 0)
  | E_IndentTooDeep => (3, 0)
  | E_InvalidDecimal => (4, 0)
  | E_SimpleSyntax => (5, 0)
  | E_CompilerBug => (6, 0)
  | E_StrLineBreak => (7, 0)
  | E_InvalidEscape c => (8, c)
  | E_UnclosedStr b => (9, b)
  | E_UnclosedInterpol => (10, 0)
  | E_BidiString => (11, 0)
  | E_RawIdentNotClosed => (12, 0)
  | E_RawIdentNotEnded => (13, 0)
  | E_NoSuchOperator => (14, 0)
  | E_Feature => (15, 0)
  | E_Tab => (16, 0)
  | E_BackslashNonNewline => (17, 0)
  | E_BackquoteUndefinable h => (18, if h then 1 else 0)
  | E_BackquoteNotClosed => (19, 0)
  | E_InvalidChar c => (20, c)
  end.

Definition enc_token (t : token) : list sx :=
  [SZ (kind_code (tk_kind t)); sx_of_zs (tk_content t); SZ (tk_line t); SZ (tk_col t); SZ (tk_col_end t); SZ (tk_start t)].
Definition enc_item (i : item) : sx :=
  match i with
  | ITok t => SL (SZ 0 :: enc_token t)
  | IErr e t => SL (SZ 1 :: SZ (fst (err_code e)) :: SZ (snd (err_code e)) :: enc_token t)
  end.

Definition dec_otoken (x : sx) : otoken :=
  {| o_kind := kind_of_code (sx_z (sx_nth x 0)); o_content := sx_zs (sx_nth x 1);
     o_line := sx_z (sx_nth x 2); o_col := sx_z (sx_nth x 3) |}.

(** modes:
    (0 fx_esc fx_pos starts conts text) -> (0 item ...) | (-999) panic | (-998) out of fuel
         starts / conts: the code points of the text for which is_xid_start / is_xid_continue hold
         item = (0 kind content line col col_end start) | (1 errcode errparam kind content line col col_end start)
    (1)                                 -> ((kind_code category_code) ...) for all kinds, in enum order
    (2 text crashed nerr (otoken ...))  -> judge verdict (code n); otoken = (kind content line col)
    (3 text k)                          -> pos_of (normalised text) k *)
Definition run (x : sx) : sx :=
  let mode := sx_z (sx_nth x 0) in
  if mode =? 0 then
    let starts := sx_zs (sx_nth x 3) in
    let conts := sx_zs (sx_nth x 4) in
    match lex (fun c => memz c starts) (fun c => memz c conts)
              (sx_to_bool (sx_nth x 1)) (sx_to_bool (sx_nth x 2)) (sx_zs (sx_nth x 5)) with
    | Ok items => SL (SZ 0 :: map enc_item items)
    | Panic => SL [SZ (-999)]
    | Fuel => SL [SZ (-998)]
    end
  else if mode =? 1 then
    SL (map (fun k => SL [SZ (kind_code k); SZ (cat_code (category k))]) all_kinds)
  else if mode =? 2 then
    let v := judge (sx_zs (sx_nth x 1)) (sx_to_bool (sx_nth x 2)) (map dec_otoken (sx_l (sx_nth x 4))) (sx_z (sx_nth x 3)) in
    SL [SZ (fst v); SZ (snd v)]
  else
    let p := pos_of (normalize_newline (sx_zs (sx_nth x 1))) (sx_z (sx_nth x 2)) in
    SL [SZ (fst p); SZ (snd p)].

Require Extraction.
Require Import ExtrOcamlBasic.
Extraction Language OCaml.
Extraction "model.ml" run.
