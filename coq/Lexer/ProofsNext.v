(** C08 — proofs, part 3: Iterator::next (indentation, comments, the dispatch) and Lexer::lex:
    termination measure, EOF-or-error, faithful positions. *)
From Coq Require Import ZArith List Bool Arith Lia.
From ErgV Require Import Lexer.Model Lexer.Spec Lexer.Proofs Lexer.ProofsSub.
Import ListNotations.
Open Scope Z_scope.

Ltac simp_proj :=
  cbn [pre post cursor len indent_stack encl prev_kind lineno col cur_line line_head interpol
       set_interpol set_encl set_col set_lineno set_prev set_indent set_zip set_curline
       item_token tk_kind tk_content tk_line tk_col tk_col_end tk_start mk_token fst snd].
Ltac run_wp := unfold wp, bind, modify, gets, emit_singleline_token, ret, peek_cur, peek_next; cbv beta iota zeta; simp_proj.

Section N.
Variable src : list Z.
Variable xs xc : Z -> bool.

Definition flag (st : lstate) : Z := if kind_eqb (prev_kind st) EOF then 0 else 1.

Definition Phi (st : lstate) : Z := 2 * zlen (post st) + zlen (indent_stack st) + flag st.

Definition tok_ok (st st' : lstate) (t : token) : Prop :=
  zlen (pre st) <= tk_start t <= zlen (pre st') /\ (tk_line t, tk_col t) = pos_of src (tk_start t).

Definition indent_rel (k : tkind) (st st' : lstate) : Prop :=
  match k with
  | Indent => exists x, indent_stack st' = x :: indent_stack st
  | Dedent => exists x, indent_stack st = x :: indent_stack st'
  | EOF => indent_stack st = [] /\ indent_stack st' = []
  | _ => indent_stack st' = indent_stack st
  end.

Definition item_post (st : lstate) (it : item) (st' : lstate) : Prop :=
  Inv src st' /\ Phi st' < Phi st /\ prev_kind st' = tk_kind (item_token it) /\
  zlen (pre st) <= zlen (pre st') /\
  match it with
  | ITok t => tok_ok st st' t /\ indent_rel (tk_kind t) st st'
  | IErr _ t => tk_kind t <> EOF
  end.

Lemma kind_eqb_refl k : kind_eqb k k = true.
Proof. destruct k; reflexivity. Qed.

Lemma kind_eqb_eq a b : kind_eqb a b = true -> a = b.
Proof. destruct a; destruct b; cbn; intros H; try reflexivity; discriminate. Qed.

Lemma flag_1 st : prev_kind st <> EOF -> flag st = 1.
Proof. unfold flag. destruct (kind_eqb (prev_kind st) EOF) eqn:E; [apply kind_eqb_eq in E; congruence|reflexivity]. Qed.

Lemma flag_1' st : prev_kind st <> EOF -> (if kind_eqb (prev_kind st) EOF then 0 else 1) = 1.
Proof. intros H. apply (flag_1 st H). Qed.
Lemma flag_le st : 0 <= flag st <= 1.
Proof. unfold flag. destruct (kind_eqb _ _); lia. Qed.

Lemma ghost_eq st : Inv src st -> Z.min (cursor st) (len st) = zlen (pre st).
Proof.
  intros I. pose proof (inv_cur _ _ I) as H1. pose proof (Inv_pre_le _ _ I) as H2.
  rewrite (inv_len _ _ I). pose proof (zlen_nonneg (post st)).
  destruct (Z.eq_dec (cursor st) (zlen (pre st))) as [->|N]; [lia|].
  rewrite (inv_over _ _ I) in H2 by lia. rewrite zlen_nil in H2. lia.
Qed.

Definition sync_st (st : lstate) : lstate :=
  set_col (set_lineno st (cur_line st)) (Z.min (cursor st) (len st) - line_head st).

Definition synced (st : lstate) : Prop :=
  lineno st = count_nl (pre st) /\ col st = since_nl (pre st).

Lemma wp_sync st (Q : unit -> lstate -> Prop) :
  Inv src st -> Q tt (sync_st st) -> wp (sync_token_starts true) Q st.
Proof.
  intros I H. unfold wp, sync_token_starts.
  rewrite (ghost_eq _ I), (inv_head _ _ I). pose proof (since_nl_bounds (pre st)).
  replace (zlen (pre st) <? zlen (pre st) - since_nl (pre st)) with false by (symmetry; apply Z.ltb_ge; lia).
  unfold sync_st in H. rewrite (ghost_eq _ I), (inv_head _ _ I) in H. exact H.
Qed.

Lemma sync_core st : same_core st (sync_st st).
Proof. repeat split. Qed.

Lemma sync_synced st : Inv src st -> synced (sync_st st).
Proof.
  intros I. unfold synced, sync_st. cbn. rewrite (ghost_eq _ I), (inv_head _ _ I), (inv_line _ _ I). split; lia.
Qed.

Lemma synced_pos st : Inv src st -> synced st -> (lineno st + 1, col st) = pos_of src (zlen (pre st)).
Proof.
  intros I [H1 H2]. rewrite <- (inv_zip _ _ I), pos_of_pre, H1, H2. f_equal. lia.
Qed.

(* ---- runs of spaces *)
Lemma count_nl_spaces k p : count_nl (repeat 32 k ++ p) = count_nl p.
Proof. induction k as [|k IH]; [reflexivity|]. cbn [repeat app count_nl]. rewrite IH. reflexivity. Qed.
Lemma since_nl_spaces k p : since_nl (repeat 32 k ++ p) = Z.of_nat k + since_nl p.
Proof. induction k as [|k IH]; [reflexivity|]. cbn [repeat app since_nl]. rewrite IH. cbn [Z.eqb Pos.eqb]. lia. Qed.
Lemma zlen_repeat k : zlen (repeat 32 k) = Z.of_nat k.
Proof. unfold zlen. rewrite repeat_length. reflexivity. Qed.
Lemma rev_repeat32 k : rev (repeat 32 k) = repeat 32 k.
Proof.
  induction k as [|k IH]; [reflexivity|]. cbn [repeat rev]. rewrite IH. symmetry. apply repeat_cons.
Qed.
Lemma repeat_shift k (r : list Z) : repeat 32 k ++ 32 :: r = repeat 32 (S k) ++ r.
Proof. cbn [repeat]. rewrite repeat_cons, <- app_assoc. reflexivity. Qed.

Definition spaces_from (st st' : lstate) (k : nat) : Prop :=
  pre st' = repeat 32 k ++ pre st /\ post st = repeat 32 k ++ post st' /\
  cursor st' = cursor st + Z.of_nat k /\ len st' = len st /\ indent_stack st' = indent_stack st /\
  encl st' = encl st /\ prev_kind st' = prev_kind st /\ lineno st' = lineno st /\ col st' = col st /\
  cur_line st' = cur_line st /\ line_head st' = line_head st /\ interpol st' = interpol st.

Lemma spaces_from_refl st : spaces_from st st 0.
Proof. unfold spaces_from. cbn. repeat split; lia. Qed.

Lemma spaces_from_adv st st' k r :
  spaces_from st st' k -> post st' = 32 :: r -> spaces_from st (adv st' 32 r) (S k).
Proof.
  intros (H1 & H2 & H3 & H4 & H5 & H6 & H7 & H8 & H9 & H10 & H11 & H12) E.
  unfold spaces_from, adv. cbn [Z.eqb Pos.eqb]. cbn -[repeat Z.of_nat].
  rewrite H1, H2, E, H3. repeat split; try assumption; try lia.
  apply repeat_shift.
Qed.

Lemma consume_spaces_spec st : forall n k st1 (Q : list Z -> lstate -> Prop),
  (length (post st1) < n)%nat -> Inv src st1 -> spaces_from st st1 k ->
  (forall k' st', Inv src st' -> spaces_from st st' k' -> Q (repeat 32 k') st') ->
  wp (consume_spaces true n (repeat 32 k)) Q st1.
Proof.
  induction n as [|n IH]; intros k st1 Q Hn I SP HQ; [lia|].
  cbn [consume_spaces]. ws.
  destruct (post st1) as [|c r] eqn:E; ws; [apply HQ; assumption|].
  destruct (c =? 32) eqn:Ec; ws; [|apply HQ; assumption].
  apply Z.eqb_eq in Ec. subst c.
  replace (repeat 32 k ++ [32]) with (repeat 32 (S k)) by (cbn [repeat]; apply repeat_cons).
  apply IH; [fuel | apply Inv_adv; assumption | apply spaces_from_adv; assumption | assumption].
Qed.

Lemma rewind_spaces st st' k :
  Inv src st -> Inv src st' -> spaces_from st st' k -> rewind (Z.of_nat k) st' = Ok (tt, st).
Proof.
  intros I I' (H1 & H2 & H3 & H4 & H5 & H6 & H7 & H8 & H9 & H10 & H11 & H12).
  unfold rewind.
  pose proof (inv_cur _ _ I) as Hc. pose proof (zlen_nonneg (pre st)) as Hp.
  replace (cursor st' <? Z.of_nat k) with false by (symmetry; apply Z.ltb_ge; lia).
  assert (Hk : Z.to_nat (Z.min (cursor st') (len st') - Z.min (cursor st' - Z.of_nat k) (len st')) = k).
  { destruct k as [|k]; [rewrite H3; replace (cursor st + Z.of_nat 0 - Z.of_nat 0) with (cursor st + Z.of_nat 0) by lia; lia|].
    assert (cursor st = zlen (pre st)) as Hcur.
    { destruct (Z.eq_dec (cursor st) (zlen (pre st))); [assumption|].
      rewrite (inv_over _ _ I) in H2 by lia. discriminate. }
    pose proof (Inv_pre_le _ _ I') as HL. rewrite H1, zlen_app, zlen_repeat in HL.
    rewrite (inv_len _ _ I'). pose proof (zlen_nonneg (post st')). lia. }
  rewrite Hk. rewrite H1.
  rewrite skipn_app, firstn_app, repeat_length, Nat.sub_diag. cbn [skipn firstn].
  rewrite skipn_all2 by (rewrite repeat_length; lia).
  rewrite firstn_all2 by (rewrite repeat_length; lia).
  rewrite app_nil_r, rev_repeat32. cbn [app]. rewrite <- H2.
  replace (cursor st' - Z.of_nat k) with (cursor st) by lia.
  destruct st, st'. cbn in *. subst. reflexivity.
Qed.

(* ---- fold over the indentation stack *)
Definition zsum (l : list Z) : Z := fold_right Z.add 0 l.
Lemma fold_indent_sum l : forall s v k, fst (fold_indent l s v k) = s + zsum l.
Proof. induction l as [|x l IH]; intros s v k; cbn [fold_indent fst]; [unfold zsum; cbn; lia|]. rewrite IH. unfold zsum. cbn [fold_right]. lia. Qed.
Lemma zsum_app a b : zsum (a ++ b) = zsum a + zsum b.
Proof. induction a as [|x a IH]; unfold zsum in *; cbn [app fold_right] in *; lia. Qed.
Lemma zsum_rev l : zsum (rev l) = zsum l.
Proof. induction l as [|x l IH]; [reflexivity|]. cbn [rev]. rewrite zsum_app, IH. unfold zsum; cbn [fold_right]. lia. Qed.
Lemma zsum_nonneg l : Forall (fun x => 0 <= x) l -> 0 <= zsum l.
Proof. induction 1; unfold zsum in *; cbn [fold_right] in *; lia. Qed.

Lemma pos_after_spaces st2 k p j :
  Inv src st2 -> pre st2 = repeat 32 k ++ p -> (j <= k)%nat ->
  pos_of src (zlen p + Z.of_nat j) = (1 + count_nl p, Z.of_nat j + since_nl p).
Proof.
  intros I E Hj.
  replace k with ((k - j) + j)%nat in E by lia. rewrite repeat_app, <- app_assoc in E.
  rewrite <- (inv_zip _ _ I), E, rev_app_distr, <- app_assoc.
  replace (zlen p + Z.of_nat j) with (zlen (repeat 32 j ++ p)) by (rewrite zlen_app, zlen_repeat; lia).
  rewrite pos_of_pre, count_nl_spaces, since_nl_spaces. reflexivity.
Qed.

Lemma Phi_lt st st' :
  prev_kind st <> EOF ->
  2 * zlen (post st') + zlen (indent_stack st') + 1 <= 2 * zlen (post st) + zlen (indent_stack st) ->
  Phi st' < Phi st.
Proof. intros H1 H2. unfold Phi. rewrite (flag_1 _ H1). pose proof (flag_le st'). lia. Qed.

Definition sid_post (st : lstate) (r : option item) (st' : lstate) : Prop :=
  match r with
  | None => Inv src st' /\ zlen (post st') <= zlen (post st) /\
            indent_stack st' = indent_stack st /\ prev_kind st' = prev_kind st
  | Some it => item_post st it st'
  end.

Lemma lex_indent_dedent_spec st st2 k :
  Inv src st -> synced st -> prev_kind st <> EOF -> Inv src st2 -> spaces_from st st2 k ->
  wp (lex_indent_dedent (repeat 32 k)) (sid_post st) st2.
Proof.
  intros I SY PE I2 SP.
  pose proof SP as (H1 & H2 & H3 & H4 & H5 & H6 & H7 & H8 & H9 & H10 & H11 & H12).
  assert (HP : zlen (post st) = Z.of_nat k + zlen (post st2)) by (rewrite H2, zlen_app, zlen_repeat; reflexivity).
  assert (HR : zlen (pre st2) = Z.of_nat k + zlen (pre st)) by (rewrite H1, zlen_app, zlen_repeat; reflexivity).
  pose proof (flag_1 _ PE) as HF.
  pose proof (zlen_nonneg (post st2)) as Hnn.
  unfold lex_indent_dedent. cbv zeta. rewrite zlen_repeat. unfold ghost_pos. ws.
  rewrite (ghost_eq _ I2), HR.
  destruct (100 <? Z.of_nat k) eqn:E100.
  - (* too deep *)
    apply Z.ltb_lt in E100.
    run_wp. cbn [sid_post]. unfold item_post. simp_proj.
    split; [eapply Inv_core; [|exact I2]; repeat split|].
    split; [apply Phi_lt; [assumption|]; cbn [post indent_stack set_col set_prev set_indent]; rewrite H5; lia|].
    split; [reflexivity|]. split; [lia|]. discriminate.
  - ws.
    destruct (fold_indent (rev (indent_stack st2)) 0 false (Z.of_nat k)) as [sum valid] eqn:EF.
    assert (Hs : sum = zsum (indent_stack st)).
    { pose proof (fold_indent_sum (rev (indent_stack st2)) 0 false (Z.of_nat k)) as Hf.
      rewrite EF, zsum_rev, H5 in Hf. cbn in Hf. lia. }
    pose proof (zsum_nonneg _ (inv_indent _ _ I)) as Hs0.
    destruct (sum <? Z.of_nat k) eqn:EL; [|destruct (Z.of_nat k <? sum) eqn:EG].
    + (* Less: Indent *)
      apply Z.ltb_lt in EL.
      run_wp. cbn [sid_post]. unfold item_post. simp_proj.
      split.
      { constructor; simp_proj; try apply I2. constructor; [lia|]. rewrite H5. apply (inv_indent _ _ I). }
      split; [apply Phi_lt; [assumption|]; cbn [post indent_stack set_col set_prev set_indent]; rewrite H5, zlen_cons; lia|].
      split; [reflexivity|]. split; [lia|].
      split.
      * unfold tok_ok. simp_proj. split; [lia|].
        replace (Z.of_nat k + zlen (pre st) - (Z.of_nat k - sum)) with (zlen (pre st) + Z.of_nat (Z.to_nat sum)) by lia.
        rewrite (pos_after_spaces st2 k (pre st) (Z.to_nat sum) I2 H1) by lia.
        destruct SY as [S1 S2]. rewrite H8, H9, S1, S2. f_equal; lia.
      * cbn [indent_rel]. simp_proj. rewrite H5. eexists. reflexivity.
    + (* Greater: Dedent after the rewind *)
      apply Z.ltb_lt in EG.
      unfold wp, bind. rewrite (rewind_spaces _ _ _ I I2 SP).
      destruct (indent_stack st) as [|x rest] eqn:ES; [cbn in Hs; lia|].
      assert (IT : Inv src (set_indent st rest)).
      { constructor; simp_proj; try apply I. pose proof (inv_indent _ _ I) as HI. rewrite ES in HI. inversion HI; assumption. }
      run_wp. rewrite ES. cbn [tl]. run_wp.
      rewrite (ghost_eq _ I).
      assert (Common : Phi (set_col (set_prev (set_indent st rest) Dedent) (col st + 0)) < Phi st).
      { apply Phi_lt; [assumption|]. cbn [post indent_stack set_col set_prev set_indent]. rewrite ES, zlen_cons. lia. }
      destruct valid; run_wp; cbn [sid_post]; unfold item_post; simp_proj.
      * split; [eapply Inv_core; [|exact IT]; repeat split|].
        split; [exact Common|]. split; [reflexivity|]. split; [lia|].
        split; [|cbn [indent_rel]; simp_proj; rewrite ES; eexists; reflexivity].
        unfold tok_ok. simp_proj. split; [lia|]. apply (synced_pos _ I SY).
      * split; [eapply Inv_core; [|exact IT]; repeat split|].
        split; [exact Common|]. split; [reflexivity|]. split; [lia|]. discriminate.
    + (* Equal *)
      ws. cbn [sid_post]. split; [eapply Inv_core; [|exact I2]; repeat split|].
      simp_proj. repeat split; try assumption. lia.
Qed.

Lemma sid_post_core a b r st' :
  pre a = pre b -> post a = post b -> indent_stack a = indent_stack b -> prev_kind a = prev_kind b ->
  sid_post a r st' -> sid_post b r st'.
Proof.
  intros H1 H2 H3 H4. destruct r as [it|]; cbn [sid_post]; [|rewrite H2, H3, H4; auto].
  unfold item_post, Phi, flag, tok_ok. rewrite H1, H2, H3, H4.
  intros (A & B & C & D & E).
  split; [assumption|]. split; [assumption|]. split; [assumption|]. split; [assumption|].
  destruct it as [t|e t]; [|assumption]. destruct E as [E1 E2]. split; [assumption|].
  unfold indent_rel in *. rewrite <- H3. exact E2.
Qed.

Lemma lex_space_indent_dedent_spec st :
  Inv src st -> prev_kind st <> EOF ->
  wp (lex_space_indent_dedent true) (sid_post st) st.
Proof.
  intros I0 PE0. unfold lex_space_indent_dedent. apply wp_bind. apply wp_sync; [assumption|].
  eapply wp_mono; [|intros r st' H; eapply (sid_post_core (sync_st st) st); [reflexivity..|exact H]].
  assert (I : Inv src (sync_st st)) by (eapply Inv_core; [apply sync_core|assumption]).
  pose proof (sync_synced _ I0) as SY.
  assert (PE : prev_kind (sync_st st) <> EOF) by exact PE0.
  remember (sync_st st) as s eqn:Es. clear Es I0 PE0 st.
  unfold ghost_pos. ws. rewrite (ghost_eq _ I).
  match goal with |- wp (if ?c then _ else _) _ _ => destruct c eqn:C1 end.
  - (* Dedent at top level *)
    destruct (indent_stack s) as [|x rest] eqn:ES.
    { cbn [negb] in C1. rewrite andb_false_r in C1. cbn in C1. discriminate. }
    assert (IT : Inv src (set_indent s rest)).
    { constructor; simp_proj; try apply I. pose proof (inv_indent _ _ I) as HI. rewrite ES in HI. inversion HI; assumption. }
    run_wp. cbn [sid_post]. unfold item_post. simp_proj. rewrite ES. cbn [tl].
    split; [eapply Inv_core; [|exact IT]; repeat split|].
    split; [apply Phi_lt; [assumption|]; simp_proj; rewrite ES, zlen_cons; lia|].
    split; [reflexivity|]. split; [lia|].
    split; [|cbn [indent_rel]; simp_proj; rewrite ES; eexists; reflexivity].
    unfold tok_ok. simp_proj. split; [lia|]. apply (synced_pos _ I SY).
  - match goal with |- wp (if ?c then _ else _) _ _ => destruct c eqn:C2 end.
    + (* Newline *)
      apply andb_prop in C2 as [C2 _]. unfold peek_cur_ch in C2.
      destruct (post s) as [|c r] eqn:E; [discriminate|]. cbn in C2. apply Z.eqb_eq in C2. subst c.
      ws. pose proof (Inv_adv _ _ _ _ I E) as IA.
      run_wp. cbn [sid_post]. unfold item_post. simp_proj. autorewrite with st.
      split; [eapply Inv_core; [|exact IA]; repeat split|].
      split; [apply Phi_lt; [assumption|]; simp_proj; autorewrite with st; rewrite E, zlen_cons; lia|].
      split; [reflexivity|]. split; [rewrite zlen_cons; lia|].
      split; [|cbn [indent_rel]; simp_proj; autorewrite with st; reflexivity].
      unfold tok_ok. simp_proj. autorewrite with st. rewrite zlen_cons. split; [lia|]. apply (synced_pos _ I SY).
    + (* spaces *)
      ws. change (@nil Z) with (repeat 32 0).
      apply consume_spaces_spec with (st := s); [fuel | assumption | apply spaces_from_refl |].
      intros k st' I' SP. ws.
      pose proof SP as (H1 & H2 & H3 & H4 & H5 & H6 & H7 & H8 & H9 & H10 & H11 & H12).
      rewrite H7.
      match goal with |- wp (if ?c then _ else _) _ _ => destruct c eqn:C3 end.
      * (* spaces in the first line *)
        destruct k as [|k]; [cbn in C3; discriminate|].
        assert (HP : zlen (post s) = Z.of_nat (S k) + zlen (post st')) by (rewrite H2, zlen_app, zlen_repeat; reflexivity).
        assert (HR : zlen (pre st') = Z.of_nat (S k) + zlen (pre s)) by (rewrite H1, zlen_app, zlen_repeat; reflexivity).
        run_wp. cbn [sid_post]. unfold item_post. simp_proj.
        split; [eapply Inv_core; [|exact I']; repeat split|].
        split; [apply Phi_lt; [assumption|]; simp_proj; rewrite H5; lia|].
        split; [reflexivity|]. split; [lia|]. discriminate.
      * match goal with |- wp (if ?c then _ else _) _ _ => destruct c eqn:C4 end.
        -- apply lex_indent_dedent_spec; assumption.
        -- ws. cbn [sid_post]. split; [eapply Inv_core; [|exact I']; repeat split|].
           simp_proj. rewrite H2, zlen_app. pose proof (zlen_nonneg (repeat 32 k)). repeat split; try assumption; lia.
Qed.

(* ---- comments *)
Definition Good2 (st0 st : lstate) : Prop :=
  Inv src st /\ zlen (post st) <= zlen (post st0) /\ indent_stack st = indent_stack st0 /\
  prev_kind st = prev_kind st0.
Definition cm_post (st0 : lstate) (r : option item) (st' : lstate) : Prop :=
  Inv src st' /\ zlen (post st') <= zlen (post st0) /\ indent_stack st' = indent_stack st0 /\
  match r with
  | None => prev_kind st' = prev_kind st0
  | Some it => exists e t, it = IErr e t /\ tk_kind t = Illegal /\ prev_kind st' = Illegal
  end.

Lemma Good2_adv st0 st c r : Good2 st0 st -> post st = c :: r -> Good2 st0 (adv st c r).
Proof.
  intros (I & A & B & C) E. split; [apply Inv_adv; assumption|]. autorewrite with st.
  rewrite E, zlen_cons in A. split; [lia|]. split; assumption.
Qed.
Lemma Good2_line st0 st l c : Good2 st0 st -> Good2 st0 (set_col (set_lineno st l) c).
Proof. intros (I & A & B & C). split; [eapply Inv_core; [|exact I]; repeat split|]. simp_proj. split; [exact A|]. split; assumption. Qed.

Lemma cm_emit_err st0 st s g e :
  Good2 st0 st ->
  wp (t <- emit_singleline_token Illegal s g;; ret (Some (IErr e t))) (cm_post st0) st.
Proof.
  intros (I & A & B & C). run_wp. unfold cm_post. simp_proj.
  split; [eapply Inv_core; [|exact I]; repeat split|]. split; [assumption|]. split; [assumption|].
  eexists _, _. split; [reflexivity|]. split; reflexivity.
Qed.

Lemma Good2_cm_none st0 st : Good2 st0 st -> cm_post st0 None st.
Proof. intros (I & A & B & C). split; [exact I|]. split; [exact A|]. split; [exact B|]. exact C. Qed.

Lemma lex_comment_loop_spec st0 g : forall n s st,
  (length (post st) < n)%nat -> Good2 st0 st ->
  wp (lex_comment_loop true n s g) (cm_post st0) st.
Proof.
  induction n as [|n IH]; intros s st Hn G; [lia|].
  cbn [lex_comment_loop]. ws. pose proof (Good2_cm_none _ _ G) as GN.
  destruct (post st) as [|c r] eqn:E; ws.
  - exact GN.
  - destruct (c =? 10); ws; [exact GN|].
    destruct (is_bidi c); [apply cm_emit_err; assumption|].
    ws. apply IH; [fuel | apply Good2_adv; assumption].
Qed.

Lemma lex_multi_line_comment_loop_spec st0 g : forall n s nest st,
  (length (post st) < n)%nat -> Good2 st0 st ->
  wp (lex_multi_line_comment_loop true n s nest g) (cm_post st0) st.
Proof.
  induction n as [|n IH]; intros s nest st Hn G; [lia|].
  cbn [lex_multi_line_comment_loop]. cbv zeta. ws.
  destruct (post st) as [|c r] eqn:E; ws; [apply cm_emit_err; assumption|].
  assert (T : forall nl, wp (if is_bidi c
                then t <- emit_singleline_token Illegal s g;; ret (Some (IErr E_BidiComment t))
                else consume true;;; lex_multi_line_comment_loop true n (s ++ [c]) nl g) (cm_post st0) st).
  { intros nl. destruct (is_bidi c); [apply cm_emit_err; assumption|]. ws.
    apply IH; [fuel | apply Good2_adv; assumption]. }
  assert (A : forall nl, wp (if c =? 10
                then modify (fun st => set_col (set_lineno st (lineno st + 1)) 0);;;
                     consume true;;; lex_multi_line_comment_loop true n [] nl g
                else if is_bidi c
                  then t <- emit_singleline_token Illegal s g;; ret (Some (IErr E_BidiComment t))
                  else consume true;;; lex_multi_line_comment_loop true n (s ++ [c]) nl g) (cm_post st0) st).
  { intros nl. destruct (c =? 10); [|apply T]. ws.
    apply IH; [fuel | apply Good2_adv; [apply Good2_line; assumption | simp_proj; assumption]]. }
  destruct r as [|d r']; ws; [apply T|].
  destruct ((c =? 35) && (d =? 91)); [apply A|].
  destruct ((c =? 93) && (d =? 35)); [|apply A].
  destruct (nest - 1 =? 0); [|apply A].
  ws. apply Good2_cm_none. apply Good2_adv; [apply Good2_adv; assumption | apply post_adv].
Qed.

Lemma is_bidi_35 : is_bidi 35 = false.
Proof. reflexivity. Qed.

Lemma comments_spec st :
  Inv src st ->
  wp (if opt_is (peek_cur_ch st) 35
      then if opt_is (peek_next_ch st) 91 then lex_multi_line_comment true else lex_comment true
      else ret None)
     (fun r st' => cm_post st r st' /\ (r <> None -> zlen (post st') < zlen (post st))) st.
Proof.
  intros I.
  assert (G : Good2 st st) by (split; [assumption|]; split; [lia|]; split; reflexivity).
  destruct (opt_is (peek_cur_ch st) 35) eqn:E1.
  2:{ ws. split; [apply Good2_cm_none; assumption|]. congruence. }
  unfold peek_cur_ch in E1. destruct (post st) as [|c r] eqn:E; [discriminate|].
  cbn in E1. apply Z.eqb_eq in E1. subst c.
  assert (GA : Good2 (adv st 35 r) (adv st 35 r)).
  { split; [apply Inv_adv; assumption|]. split; [lia|]. split; reflexivity. }
  assert (TR : forall r' st', cm_post (adv st 35 r) r' st' ->
               cm_post st r' st' /\ (r' <> None -> zlen (post st') < zlen (post st))).
  { intros r' st' (A & B & C & D). autorewrite with st in *. unfold cm_post. rewrite E, zlen_cons.
    split; [|intros _; lia]. split; [assumption|]. split; [lia|]. split; [assumption|]. exact D. }
  destruct (opt_is (peek_next_ch st) 91) eqn:E2.
  - unfold peek_next_ch in E2. rewrite E in E2. destruct r as [|d r']; [discriminate|].
    cbn in E2. apply Z.eqb_eq in E2. subst d.
    unfold lex_multi_line_comment, ghost_pos. ws. unfold fuel_of. rewrite E.
    set (m := length (35 :: 91 :: r')).
    cbn [lex_multi_line_comment_loop]. cbv zeta. ws. cbn [Z.eqb Pos.eqb andb]. rewrite is_bidi_35. ws.
    eapply wp_mono; [apply lex_multi_line_comment_loop_spec with (st0 := adv st 35 (91 :: r')); [subst m; fuel | exact GA]|].
    intros a st' H. rewrite <- E. apply TR. exact H.
  - unfold lex_comment, ghost_pos. ws. unfold fuel_of. rewrite E.
    set (m := length (35 :: r)).
    cbn [lex_comment_loop]. ws. cbn [Z.eqb Pos.eqb]. rewrite is_bidi_35. ws.
    eapply wp_mono; [apply lex_comment_loop_spec with (st0 := adv st 35 r); [subst m; fuel | exact GA]|].
    intros a st' H. rewrite <- E. apply TR. exact H.
Qed.

Definition next_post (st : lstate) (s : step) (st' : lstate) : Prop :=
  match s with
  | SNone => prev_kind st = EOF
  | SAgain => prev_kind st <> EOF /\ Inv src st' /\ Phi st' < Phi st /\ prev_kind st' <> EOF /\
              indent_stack st' = indent_stack st /\ zlen (pre st) <= zlen (pre st')
  | SItem it => prev_kind st <> EOF /\ item_post st it st'
  end.

Lemma indent_rel_plain k st st' :
  k <> Indent -> k <> Dedent -> k <> EOF -> indent_stack st' = indent_stack st -> indent_rel k st st'.
Proof. intros A B C H. destruct k; try exact H; congruence. Qed.

Lemma pre_mono st st' : Inv src st -> Inv src st' -> zlen (post st') <= zlen (post st) -> zlen (pre st) <= zlen (pre st').
Proof. intros I I' H. pose proof (Inv_pre_le _ _ I). pose proof (Inv_pre_le _ _ I'). lia. Qed.

Lemma step_to_next st st4 g s st' :
  Inv src st -> prev_kind st <> EOF -> Inv src st4 ->
  zlen (post st4) < zlen (post st) -> indent_stack st4 = indent_stack st -> prev_kind st4 = prev_kind st ->
  zlen (pre st) <= g < zlen (pre st4) -> (lineno st4 + 1, col st4) = pos_of src g ->
  step_post src st4 g s st' -> next_post st s st'.
Proof.
  intros I PE I4 HP HI HK HG HPOS H.
  destruct s as [|it|]; cbn [step_post next_post] in *; [contradiction| |]; (split; [assumption|]).
  - destruct H as (I' & P' & D' & K' & NE & T).
    unfold item_post.
    split; [assumption|]. split; [apply Phi_lt; [assumption|]; rewrite D', HI; lia|].
    split; [assumption|]. split; [apply pre_mono; [assumption..|lia]|].
    destruct it as [t|e t]; [|exact NE].
    destruct (T t eq_refl) as (T1 & T2 & T3 & T4 & T5).
    split.
    + unfold tok_ok. rewrite T5. split.
      * split; [lia|]. pose proof (pre_mono st4 st' I4 I' P'). lia.
      * rewrite T3, T4. exact HPOS.
    + apply indent_rel_plain; [assumption..|]. cbn [item_token] in NE. congruence.
  - destruct H as (I' & P' & D' & K').
    split; [assumption|]. split; [apply Phi_lt; [assumption|]; rewrite D', HI; lia|].
    split; [congruence|]. split; [congruence|]. apply pre_mono; [assumption..|lia].
Qed.

Lemma next_spec st : Inv src st -> wp (next xs xc true true) (next_post st) st.
Proof.
  intros I. unfold next. ws.
  destruct (kind_eqb (prev_kind st) EOF) eqn:EK.
  { ws. cbn [next_post]. apply kind_eqb_eq. exact EK. }
  assert (PE : prev_kind st <> EOF) by (intros H; rewrite H in EK; discriminate).
  apply wp_bind. eapply wp_mono; [apply lex_space_indent_dedent_spec; assumption|].
  intros r st1 H1. destruct r as [it|]; cbn [sid_post] in H1; [ws; cbn [next_post]; split; assumption|].
  destruct H1 as (I1 & P1 & D1 & K1).
  apply wp_bind. unfold peek_cur. apply wp_gets. cbv beta.
  apply wp_bind. unfold peek_next. apply wp_gets. cbv beta.
  apply wp_bind. eapply wp_mono; [apply comments_spec; assumption|].
  intros cm st2 ((I2 & P2 & D2 & K2) & S2).
  destruct cm as [it|].
  { (* error inside a comment *)
    destruct K2 as (e & t & -> & KT & KP). specialize (S2 ltac:(discriminate)).
    ws. cbn [next_post]. split; [assumption|]. unfold item_post. cbn [item_token].
    split; [assumption|]. split; [apply Phi_lt; [assumption|]; rewrite D2, D1; lia|].
    split; [congruence|]. split; [apply pre_mono; [assumption..|lia]|]. rewrite KT. discriminate. }
  clear S2.
  apply wp_bind. apply wp_sync; [assumption|].
  assert (I3 : Inv src (sync_st st2)) by (eapply Inv_core; [apply sync_core|assumption]).
  pose proof (sync_synced _ I2) as SY.
  assert (E3 : pre (sync_st st2) = pre st2 /\ post (sync_st st2) = post st2 /\
               indent_stack (sync_st st2) = indent_stack st2 /\ prev_kind (sync_st st2) = prev_kind st2)
    by (repeat split).
  destruct E3 as (E3a & E3b & E3c & E3d).
  remember (sync_st st2) as s3 eqn:Es3. clear Es3.
  assert (P3 : zlen (post s3) <= zlen (post st)) by (rewrite E3b; lia).
  assert (D3 : indent_stack s3 = indent_stack st) by congruence.
  assert (K3 : prev_kind s3 = prev_kind st) by congruence.
  pose proof (pre_mono st s3 I I3 P3) as M3.
  clear E3a E3b E3c E3d I1 P1 D1 K1 I2 P2 D2 K2 st1 st2.
  unfold ghost_pos. apply wp_bind, wp_gets. cbv beta. rewrite (ghost_eq _ I3).
  pose proof (synced_pos _ I3 SY) as HPOS.
  apply wp_bind, wp_consume.
  destruct (post s3) as [|c r] eqn:E.
  - (* end of input *)
    pose proof (Inv_adv_eof _ _ I3 E) as IE. ws. rewrite D3.
    destruct (indent_stack st) as [|x rest] eqn:ES.
    + unfold accept. run_wp. cbn [next_post]. split; [assumption|]. unfold item_post. simp_proj. autorewrite with st.
      split; [eapply Inv_core; [|exact IE]; repeat split|].
      split.
      { unfold Phi, flag. simp_proj. autorewrite with st. rewrite D3, ES, (flag_1' _ PE).
        cbn [kind_eqb]. rewrite zlen_nil. pose proof (zlen_nonneg (post st)). lia. }
      split; [reflexivity|]. split; [lia|].
      split; [|cbn [indent_rel]; simp_proj; autorewrite with st; split; assumption].
      unfold tok_ok. simp_proj. autorewrite with st. split; [lia|]. exact HPOS.
    + ws.
      assert (IT : Inv src (set_indent (adv_eof s3) rest)).
      { constructor; simp_proj; try apply IE. pose proof (inv_indent _ _ I) as HI. rewrite ES in HI. inversion HI; assumption. }
      unfold accept. run_wp. cbn [next_post]. split; [assumption|]. unfold item_post. simp_proj. autorewrite with st.
      split; [eapply Inv_core; [|exact IT]; repeat split|].
      split; [apply Phi_lt; [assumption|]; simp_proj; autorewrite with st; rewrite ES, zlen_nil, zlen_cons; pose proof (zlen_nonneg (post st)); lia|].
      split; [reflexivity|]. split; [lia|].
      split; [|cbn [indent_rel]; simp_proj; rewrite ES; eexists; reflexivity].
      unfold tok_ok. simp_proj. autorewrite with st. split; [lia|]. exact HPOS.
  - (* a character: the big match *)
    pose proof (Inv_adv _ _ _ _ I3 E) as I4.
    eapply wp_mono; [apply dispatch_spec with (st0 := adv s3 c r); split; [exact I4 | apply frame_refl]|].
    intros stp st' H. eapply step_to_next; try exact H; try assumption; autorewrite with st.
    + rewrite zlen_cons in P3. lia.
    + congruence.
    + congruence.
    + rewrite zlen_cons. lia.
    + exact HPOS.
Qed.

(* ------------------------------------------------------------------ Lexer::lex *)
Lemma count_kind_cons k t ts :
  count_kind k (t :: ts) = (if kind_eqb (tk_kind t) k then 1 else 0) + count_kind k ts.
Proof. unfold count_kind. cbn [filter]. destruct (kind_eqb (tk_kind t) k); cbn [map]; rewrite ?zlen_cons; lia. Qed.

Lemma indent_rel_len k st st' :
  indent_rel k st st' ->
  zlen (indent_stack st') =
  zlen (indent_stack st) + (if kind_eqb k Indent then 1 else 0) - (if kind_eqb k Dedent then 1 else 0).
Proof.
  destruct k; cbn [indent_rel kind_eqb]; intros H; try (rewrite H; lia).
  - destruct H as [x ->]. rewrite zlen_cons. lia.
  - destruct H as [x ->]. rewrite zlen_cons. lia.
  - destruct H as [-> ->]. lia.
Qed.

Lemma Phi_nonneg st : 0 <= Phi st.
Proof. unfold Phi. pose proof (zlen_nonneg (post st)). pose proof (zlen_nonneg (indent_stack st)). pose proof (flag_le st). lia. Qed.

Definition run_ok (st : lstate) (more : list item) : Prop :=
  (prev_kind st = EOF -> more = []) /\
  (prev_kind st <> EOF -> exists front t, more = front ++ [ITok t] /\ tk_kind t = EOF) /\
  (errors_of more = [] -> prev_kind st <> EOF ->
     count_kind Indent (tokens_of more) + zlen (indent_stack st) = count_kind Dedent (tokens_of more)) /\
  (forall t, In t (tokens_of more) ->
     zlen (pre st) <= tk_start t <= zlen src /\ (tk_line t, tk_col t) = pos_of src (tk_start t)) /\
  sorted_starts (tokens_of more).

Lemma sorted_cons t ts :
  (forall u, In u ts -> tk_start t <= tk_start u) -> sorted_starts ts -> sorted_starts (t :: ts).
Proof. intros H S. cbn [sorted_starts]. split; [|exact S]. destruct ts as [|u r]; [exact I|]. apply H. left; reflexivity. Qed.

Lemma lex_loop_spec : forall n st acc,
  Inv src st -> Phi st < Z.of_nat n ->
  exists more, lex_loop xs xc true true n st acc = Ok (rev acc ++ more) /\ run_ok st more.
Proof.
  induction n as [|n IH]; intros st acc I HPhi; [pose proof (Phi_nonneg st); lia|].
  destruct (wp_elim _ _ _ (next_spec st I)) as (a & st' & EN & NP).
  cbn [lex_loop]. rewrite EN.
  destruct a as [|it|]; cbn [next_post] in NP.
  - (* None *)
    exists []. split; [rewrite app_nil_r; reflexivity|].
    split; [reflexivity|]. split; [intros H; contradiction|]. split; [intros _ H; contradiction|].
    split; [intros t []|exact Logic.I].
  - destruct NP as (PE & I' & PH & PK & PM & PT).
    destruct (IH st' (it :: acc) I') as (more & EL & R1 & R2 & R3 & R4 & R5); [lia|].
    exists (it :: more). split; [rewrite EL; cbn [rev]; rewrite <- app_assoc; reflexivity|].
    split; [intros H; contradiction|].
    split.
    { intros _. destruct (kind_eqb (tk_kind (item_token it)) EOF) eqn:EK.
      - apply kind_eqb_eq in EK. rewrite (R1 ltac:(congruence)).
        destruct it as [t|e t]; [exists [], t; split; [reflexivity|exact EK]|].
        cbn [item_token] in EK. contradiction.
      - assert (PE' : prev_kind st' <> EOF) by (rewrite PK; intros H; rewrite H in EK; discriminate).
        destruct (R2 PE') as (front & t & -> & KT). exists (it :: front), t. split; [reflexivity|exact KT]. }
    split.
    { intros HE _. destruct it as [t|e t]; [|discriminate HE].
      cbn [errors_of flat_map app] in HE. destruct PT as [PT1 PT2].
      cbn [tokens_of flat_map app]. fold (tokens_of more). rewrite !count_kind_cons.
      pose proof (indent_rel_len _ _ _ PT2) as HL. cbn [item_token] in PK.
      destruct (kind_eqb (tk_kind t) EOF) eqn:EK.
      - apply kind_eqb_eq in EK. rewrite (R1 ltac:(congruence)) in *. rewrite EK in *.
        cbn [kind_eqb indent_rel] in *. destruct PT2 as [-> _]. cbn. reflexivity.
      - assert (PE' : prev_kind st' <> EOF) by (rewrite PK; intros H; rewrite H in EK; discriminate).
        specialize (R3 HE PE'). lia. }
    split.
    { intros t Ht. destruct it as [t0|e t0]; cbn [tokens_of flat_map app] in Ht; fold (tokens_of more) in Ht.
      - destruct Ht as [<-|Ht].
        + destruct PT as [[PT1 PT1'] _]. pose proof (Inv_pre_le _ _ I'). pose proof (zlen_nonneg (post st')).
          split; [lia|assumption].
        + destruct (R4 t Ht) as [A B]. split; [lia|assumption].
      - destruct (R4 t Ht) as [A B]. split; [lia|assumption]. }
    destruct it as [t0|e t0]; cbn [tokens_of flat_map app]; fold (tokens_of more); [|exact R5].
    apply sorted_cons; [|exact R5]. intros u Hu. destruct (R4 u Hu) as [A _].
    destruct PT as [[PT1 _] _]. lia.
  - destruct NP as (PE & I' & PH & PK & PD & PM).
    destruct (IH st' acc I') as (more & EL & R1 & R2 & R3 & R4 & R5); [lia|].
    exists more. split; [exact EL|].
    split; [intros H; contradiction|]. split; [intros _; apply R2; assumption|].
    split; [intros HE _; rewrite <- PD; apply R3; assumption|].
    split; [|exact R5]. intros t Ht. destruct (R4 t Ht) as [A B]. split; [lia|assumption].
Qed.
End N.

(* ------------------------------------------------------------------ the four properties *)
Section Final.
Variable xs xc : Z -> bool.

Lemma lex_ok (src : list Z) :
  exists items, lex xs xc true true src = Ok items /\
                run_ok (normalize_newline src) (init (normalize_newline src)) items.
Proof.
  unfold lex. set (s := normalize_newline src).
  destruct (lex_loop_spec s xs xc (lex_fuel s) (init s) [] (Inv_init s s eq_refl)) as (more & E & R).
  - unfold Phi, flag, lex_fuel, init. cbn [post indent_stack prev_kind kind_eqb]. unfold zlen. cbn [length]. lia.
  - exists more. split; [exact E|exact R].
Qed.

Lemma lex_terminates_lemma (src : list Z) :
  lex_loop xs xc true true (length (normalize_newline src) * 2 + 4) (init (normalize_newline src)) [] <> Fuel.
Proof. destruct (lex_ok src) as (items & E & _). unfold lex, lex_fuel in E. rewrite E. discriminate. Qed.

Lemma lex_no_panic_lemma (src : list Z) : lex xs xc true true src <> Panic.
Proof. destruct (lex_ok src) as (items & E & _). rewrite E. discriminate. Qed.

Lemma lex_total_lemma (src : list Z) : exists items, lex xs xc true true src = Ok items.
Proof. destruct (lex_ok src) as (items & E & _). eauto. Qed.

Lemma tokens_of_app a b : tokens_of (a ++ b) = tokens_of a ++ tokens_of b.
Proof. unfold tokens_of. apply flat_map_app. Qed.

Lemma lex_eof_or_error_lemma (src : list Z) items :
  lex xs xc true true src = Ok items -> eof_or_error items.
Proof.
  intros E. destruct (lex_ok src) as (items' & E' & R). rewrite E in E'. injection E' as <-.
  destruct R as (_ & R2 & R3 & _).
  assert (PE : prev_kind (init (normalize_newline src)) <> EOF) by (cbn; discriminate).
  destruct (R2 PE) as (front & t & -> & KT).
  unfold eof_or_error.
  destruct (errors_of (front ++ [ITok t])) eqn:EE; [left|right; discriminate].
  specialize (R3 eq_refl PE). cbn [indent_stack init] in R3. rewrite zlen_nil in R3.
  unfold ends_with_eof_balanced. rewrite tokens_of_app in *. cbn [tokens_of flat_map app] in *.
  rewrite rev_app_distr. cbn [rev app]. rewrite KT. cbn [kind_eqb andb].
  apply Z.eqb_eq. lia.
Qed.

Lemma lex_pos_faithful_lemma (src : list Z) items :
  lex xs xc true true src = Ok items -> pos_faithful (normalize_newline src) items.
Proof.
  intros E. destruct (lex_ok src) as (items' & E' & R). rewrite E in E'. injection E' as <-.
  destruct R as (_ & _ & _ & R4 & R5). split; [|exact R5].
  intros t Ht. destruct (R4 t Ht) as [A B]. cbn [pre init] in A. rewrite zlen_nil in A. split; [lia|exact B].
Qed.
End Final.
