(** C08 — what "total, EOF-or-error, faithful positions" means, independently of the lexer's bookkeeping,
    and the executable judge that is applied to the IMPLEMENTATION's token stream. *)
From Coq Require Import ZArith List Bool Arith.
From ErgV Require Import Lexer.Model.
Import ListNotations.
Open Scope Z_scope.

(* ------------------------------------------------------------------ reference positions *)
(** (line, column) of source index [k]: lines are 1-origin, columns 0-origin, a line break (code point 10)
    ends a line.  Plain left-to-right scan of the (newline-normalised) source. *)
Fixpoint pos_scan (l : list Z) (k : nat) (ln cl : Z) : Z * Z :=
  match k with
  | O => (ln, cl)
  | S k' =>
    match l with
    | [] => (ln, cl)
    | c :: r => if c =? 10 then pos_scan r k' (ln + 1) 0 else pos_scan r k' ln (cl + 1)
    end
  end.
Definition pos_of (src : list Z) (k : Z) : Z * Z := pos_scan src (Z.to_nat k) 1 0.

(** inverse direction, used by the judge: source index of (line, column), if that position exists
    (the column may be at most the length of the line: the position of its line break / of the end of input) *)
Fixpoint index_scan (l : list Z) (ln cl : Z) (idx : Z) : option Z :=
  if (ln =? 1) then
    (* in the wanted line: advance cl characters without crossing a line break *)
    match l with
    | [] => if cl =? 0 then Some idx else None
    | c :: r => if cl =? 0 then Some idx
                else if c =? 10 then None
                else index_scan r ln (cl - 1) (idx + 1)
    end
  else
    match l with
    | [] => None
    | c :: r => index_scan r (if c =? 10 then ln - 1 else ln) cl (idx + 1)
    end.
Definition index_of_pos (src : list Z) (ln cl : Z) : option Z :=
  if (ln <? 1) || (cl <? 0) then None else index_scan src ln cl 0.

(* ------------------------------------------------------------------ stream shape *)
Definition count_kind (k : tkind) (ts : list token) : Z :=
  zlen (map tk_line (filter (fun t => kind_eqb (tk_kind t) k) ts)).

(** the stream ends with EOF and has as many dedents as indents *)
Definition ends_with_eof_balanced (ts : list token) : bool :=
  match rev ts with
  | t :: _ => kind_eqb (tk_kind t) EOF && (count_kind Indent ts =? count_kind Dedent ts)
  | [] => false
  end.

Definition eof_or_error (items : list item) : Prop :=
  ends_with_eof_balanced (tokens_of items) = true \/ errors_of items <> [].

(** every token is reported at the line/column of its first source character, tokens are in source order *)
Fixpoint sorted_starts (ts : list token) : Prop :=
  match ts with
  | [] => True
  | t :: r => match r with [] => True | u :: _ => tk_start t <= tk_start u end /\ sorted_starts r
  end.
Definition pos_faithful (src : list Z) (items : list item) : Prop :=
  (forall t, In t (tokens_of items) ->
     0 <= tk_start t <= zlen src /\ (tk_line t, tk_col t) = pos_of src (tk_start t))
  /\ sorted_starts (tokens_of items).

(* ------------------------------------------------------------------ the judge *)
(** kinds whose content is the source text verbatim *)
Definition verbatim_kind (k : tkind) : bool :=
  match k with
  | StrLit | StrInterpLeft | StrInterpMid | StrInterpRight | DocComment | Dedent | EOF | Illegal | BOF => false
  | _ => true
  end.
Definition string_kind (k : tkind) : bool :=
  match k with
  | StrLit | StrInterpLeft | StrInterpMid | StrInterpRight | DocComment => true
  | _ => false
  end.

Fixpoint prefixb (p l : list Z) : bool :=
  match p, l with
  | [], _ => true
  | x :: p', y :: l' => (x =? y) && prefixb p' l'
  | _ :: _, [] => false
  end.

(** an observed token: kind, content, line, column *)
Record otoken := { o_kind : tkind; o_content : list Z; o_line : Z; o_col : Z }.

(** source index at which the token is reported, provided the source text there begins the token:
    verbatim tokens: the whole content; string tokens: the first character (the opening quote, or the
    closing brace of an interpolation); Dedent: any existing position; EOF: the end of the source *)
Definition token_index (src : list Z) (t : otoken) : option Z :=
  match index_of_pos src (o_line t) (o_col t) with
  | None => None
  | Some i =>
    let rest := skipn (Z.to_nat i) src in
    if verbatim_kind (o_kind t) then (if prefixb (o_content t) rest then Some i else None)
    else if string_kind (o_kind t) then
      match o_content t, rest with
      | c :: _, d :: _ => if c =? d then Some i else None
      | _, _ => None
      end
    else if kind_eqb (o_kind t) EOF then (if i =? zlen src then Some i else None)
    else if kind_eqb (o_kind t) Dedent then Some i
    else None
  end.

(** least source extent of a token (verbatim: its content; strings: one character) *)
Definition min_extent (t : otoken) : Z :=
  if verbatim_kind (o_kind t) then zlen (o_content t) else if string_kind (o_kind t) then 1 else 0.

(** first token (by number) that is not reported where its text begins, or overlaps its predecessor *)
Fixpoint check_positions (src : list Z) (ts : list otoken) (lower : Z) (n : Z) : option (Z * Z) :=
  match ts with
  | [] => None
  | t :: r =>
    match token_index src t with
    | None => Some (3, n)                              (* not at the place where its text begins *)
    | Some i => if i <? lower then Some (4, n)         (* out of source order *)
                else check_positions src r (i + min_extent t) (n + 1)
    end
  end.

Definition o_ends_with_eof_balanced (ts : list otoken) : bool :=
  match rev ts with
  | t :: _ => kind_eqb (o_kind t) EOF
              && (zlen (map o_line (filter (fun t => kind_eqb (o_kind t) Indent) ts))
                  =? zlen (map o_line (filter (fun t => kind_eqb (o_kind t) Dedent) ts)))
  | [] => false
  end.

(** verdict on an observed behaviour: (0 0) passes; (1 0) crashed; (2 0) neither EOF-terminated and balanced
    nor an error; (3 n) token n is not reported where its text begins; (4 n) token n is out of source order.
    [src] is the raw source (it is newline-normalised here, like the lexer does). *)
Definition judge (src : list Z) (crashed : bool) (ts : list otoken) (nerr : Z) : Z * Z :=
  if crashed then (1, 0)
  else if negb (o_ends_with_eof_balanced ts) && (nerr =? 0) then (2, 0)
  else match check_positions (normalize_newline src) ts 0 0 with
       | Some v => v
       | None => (0, 0)
       end.
