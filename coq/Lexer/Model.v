(** C08 (reused by C24, C10) — model of crates/erg_parser/lex.rs (Lexer) and the parts of
    crates/erg_parser/token.rs it uses (TokenKind, TokenCategory, Token::new).

    Definitions only (computable); proofs are in Proofs.v.

    Text is a [list Z] of Unicode scalar values.  [Lexer.chars] + [Lexer.cursor] are represented as a zipper:
    [pre] (the characters before the cursor, last consumed first), [post] (the characters from the cursor on)
    and the machine field [cursor] itself, which runs past the end of the input when [consume] is called there
    (as in the Rust code).  Every [unwrap()], usize subtraction and debug assertion on the modelled path is an
    explicit [Panic]; loops carry explicit fuel ([Fuel] outcome, excluded by the fuel lemmas in Proofs.v).
    u32 / usize additions are NOT modelled as overflowing: inputs are assumed shorter than 2^30 characters
    (stated in the check's assumptions).

    Two switches select the code before / after the repairs made for C08 (the faithful "nofix" model is kept
    for the [_refuted] witnesses):
      [fx_esc = false]: a backslash as the last character inside a string literal panics ([consume().unwrap()])
      [fx_pos = false]: line/column bookkeeping by cooked token length and in-token resets (positions drift)
    The recursion [self.next()] on a skipped line break (replaced by a loop in the third repair) is modelled as
    the [SAgain] step in both variants; the stack is not modelled.

    The ghost field [tk_start] of a token is the source index (in the newline-normalised text) of the first
    character of the token; it is computed from the cursor only and never from the line/column bookkeeping. *)
From Coq Require Import ZArith List Bool Arith.
Import ListNotations.
Open Scope Z_scope.

Inductive res (A : Type) : Type :=
| Ok (a : A)
| Panic            (* the Rust code would panic here *)
| Fuel.            (* model ran out of fuel; excluded by the fuel-bound lemmas *)
Arguments Ok {A} a.
Arguments Panic {A}.
Arguments Fuel {A}.

(* ------------------------------------------------------------------ token.rs *)
(** TokenKind, in the order of the Rust enum (#[repr(u8)]: the position is the discriminant) *)
Inductive tkind :=
| Symbol | NatLit | IntLit | BinLit | OctLit | HexLit | RatioLit | BoolLit | StrLit
| StrInterpLeft | StrInterpMid | StrInterpRight | NoneLit | EllipsisLit | InfLit | DocComment
| PrePlus | PreMinus | PreBitNot | Mutate | PreStar | PreDblStar | Try
| Plus | Minus | Star | Slash | FloorDiv | Pow | Mod | Closed | RightOpen | LeftOpen | Open
| BitAnd | BitOr | BitXor | Shl | Shr | Less | Gre | LessEq | GreEq | DblEq | NotEq
| InOp | NotInOp | ContainsOp | SubOp | IsOp | IsNotOp | AndOp | OrOp | RefOp | RefMutOp
| Assign | Inclusion | Walrus | FuncArrow | ProcArrow
| LParen | RParen | LSqBr | RSqBr | LBrace | RBrace | Indent | Dedent
| Dot | Pipe | Colon | DblColon | SupertypeOf | SubtypeOf | As | Comma | Caret | Amper | AtSign | VBar | UBar
| Newline | Semi | Illegal | BOF | EOF.

Definition all_kinds : list tkind :=
  [Symbol; NatLit; IntLit; BinLit; OctLit; HexLit; RatioLit; BoolLit; StrLit;
   StrInterpLeft; StrInterpMid; StrInterpRight; NoneLit; EllipsisLit; InfLit; DocComment;
   PrePlus; PreMinus; PreBitNot; Mutate; PreStar; PreDblStar; Try;
   Plus; Minus; Star; Slash; FloorDiv; Pow; Mod; Closed; RightOpen; LeftOpen; Open;
   BitAnd; BitOr; BitXor; Shl; Shr; Less; Gre; LessEq; GreEq; DblEq; NotEq;
   InOp; NotInOp; ContainsOp; SubOp; IsOp; IsNotOp; AndOp; OrOp; RefOp; RefMutOp;
   Assign; Inclusion; Walrus; FuncArrow; ProcArrow;
   LParen; RParen; LSqBr; RSqBr; LBrace; RBrace; Indent; Dedent;
   Dot; Pipe; Colon; DblColon; SupertypeOf; SubtypeOf; As; Comma; Caret; Amper; AtSign; VBar; UBar;
   Newline; Semi; Illegal; BOF; EOF].

Definition kind_eqb (a b : tkind) : bool :=
  match a, b with
  | Symbol, Symbol | NatLit, NatLit | IntLit, IntLit | BinLit, BinLit | OctLit, OctLit | HexLit, HexLit
  | RatioLit, RatioLit | BoolLit, BoolLit | StrLit, StrLit | StrInterpLeft, StrInterpLeft
  | StrInterpMid, StrInterpMid | StrInterpRight, StrInterpRight | NoneLit, NoneLit | EllipsisLit, EllipsisLit
  | InfLit, InfLit | DocComment, DocComment | PrePlus, PrePlus | PreMinus, PreMinus | PreBitNot, PreBitNot
  | Mutate, Mutate | PreStar, PreStar | PreDblStar, PreDblStar | Try, Try | Plus, Plus | Minus, Minus
  | Star, Star | Slash, Slash | FloorDiv, FloorDiv | Pow, Pow | Mod, Mod | Closed, Closed
  | RightOpen, RightOpen | LeftOpen, LeftOpen | Open, Open | BitAnd, BitAnd | BitOr, BitOr | BitXor, BitXor
  | Shl, Shl | Shr, Shr | Less, Less | Gre, Gre | LessEq, LessEq | GreEq, GreEq | DblEq, DblEq | NotEq, NotEq
  | InOp, InOp | NotInOp, NotInOp | ContainsOp, ContainsOp | SubOp, SubOp | IsOp, IsOp | IsNotOp, IsNotOp
  | AndOp, AndOp | OrOp, OrOp | RefOp, RefOp | RefMutOp, RefMutOp | Assign, Assign | Inclusion, Inclusion
  | Walrus, Walrus | FuncArrow, FuncArrow | ProcArrow, ProcArrow | LParen, LParen | RParen, RParen
  | LSqBr, LSqBr | RSqBr, RSqBr | LBrace, LBrace | RBrace, RBrace | Indent, Indent | Dedent, Dedent
  | Dot, Dot | Pipe, Pipe | Colon, Colon | DblColon, DblColon | SupertypeOf, SupertypeOf
  | SubtypeOf, SubtypeOf | As, As | Comma, Comma | Caret, Caret | Amper, Amper | AtSign, AtSign
  | VBar, VBar | UBar, UBar | Newline, Newline | Semi, Semi | Illegal, Illegal | BOF, BOF | EOF, EOF => true
  | _, _ => false
  end.

(** TokenCategory, in the order of the Rust enum *)
Inductive tcat :=
| CSymbol | CLiteral | CStrInterpLeft | CStrInterpMid | CStrInterpRight | CBinOp | CUnaryOp | CPostfixOp
| CLEnclosure | CREnclosure | CSpecialBinOp | CDefOp | CLambdaOp | CSeparator | CReserved | CAtSign | CVBar
| CUBar | CBOF | CEOF | CIllegal.

Definition all_cats : list tcat :=
  [CSymbol; CLiteral; CStrInterpLeft; CStrInterpMid; CStrInterpRight; CBinOp; CUnaryOp; CPostfixOp;
   CLEnclosure; CREnclosure; CSpecialBinOp; CDefOp; CLambdaOp; CSeparator; CReserved; CAtSign; CVBar;
   CUBar; CBOF; CEOF; CIllegal].

(* token.rs TokenKind::category *)
Definition category (k : tkind) : tcat :=
  match k with
  | Symbol => CSymbol
  | NatLit | BinLit | OctLit | HexLit | IntLit | RatioLit | StrLit | BoolLit | NoneLit
  | EllipsisLit | InfLit | DocComment => CLiteral
  | StrInterpLeft => CStrInterpLeft
  | StrInterpMid => CStrInterpMid
  | StrInterpRight => CStrInterpRight
  | PrePlus | PreMinus | PreBitNot | Mutate | PreStar | PreDblStar | RefOp | RefMutOp => CUnaryOp
  | Try => CPostfixOp
  | Comma | Colon | DblColon | SupertypeOf | SubtypeOf | As | Dot | Pipe | Walrus | Inclusion => CSpecialBinOp
  | Assign => CDefOp
  | FuncArrow | ProcArrow => CLambdaOp
  | Semi | Newline => CSeparator
  | LParen | LBrace | LSqBr | Indent => CLEnclosure
  | RParen | RBrace | RSqBr | Dedent => CREnclosure
  | Caret | Amper => CReserved
  | AtSign => CAtSign
  | VBar => CVBar
  | UBar => CUBar
  | BOF => CBOF
  | EOF => CEOF
  | Illegal => CIllegal
  | _ => CBinOp
  end.

(** Token (token.rs): [Token::new] sets col_end = col_begin + content.chars().count() *)
Record token := {
  tk_kind : tkind;
  tk_content : list Z;
  tk_line : Z;        (* lineno, 1-origin *)
  tk_col : Z;         (* col_begin, 0-origin *)
  tk_col_end : Z;
  tk_start : Z        (* ghost: source index of the first character of the token *)
}.

Definition zlen (l : list Z) : Z := Z.of_nat (length l).

Definition mk_token (k : tkind) (cont : list Z) (ln cl g : Z) : token :=
  {| tk_kind := k; tk_content := cont; tk_line := ln; tk_col := cl; tk_col_end := cl + zlen cont; tk_start := g |}.

(* ------------------------------------------------------------------ errors *)
(** one class per error site / message of lex.rs; the location of an error is the location of its token *)
Inductive errclass :=
| E_BidiComment                 (* invalid unicode character (bi-directional override) in comments *)
| E_UnclosedMultiComment        (* multi-comment is not closed with ]# *)
| E_InvalidIndent (hint : bool) (* invalid indent [hint: unnecessary spaces after linebreak] *)
| E_IndentTooDeep               (* indentation is too deep *)
| E_InvalidDecimal              (* `..` is invalid decimal literal *)
| E_SimpleSyntax                (* LexError::simple_syntax_error: invalid syntax *)
| E_CompilerBug                 (* LexError::compiler_bug (lex_symbol; dead) *)
| E_StrLineBreak                (* Line breaks are not allowed within a string *)
| E_InvalidEscape (c : Z)       (* illegal escape sequence: \c *)
| E_UnclosedStr (by_ : Z)       (* the string is not closed [by ..]: 0 nothing, 1 one double quote, 2 three double quotes, 3 three single quotes *)
| E_UnclosedInterpol            (* the interpolation in the string is not closed *)
| E_BidiString                  (* invalid unicode character (bi-directional override) in string literal *)
| E_RawIdentNotClosed           (* raw identifier is not closed by ' *)
| E_RawIdentNotEnded            (* raw identifier is not ended with ' *)
| E_NoSuchOperator              (* no such operator: <. *)
| E_Feature                     (* LexError::feature_error: shared variables ($) *)
| E_Tab                         (* cannot use a tab as a space *)
| E_BackslashNonNewline         (* cannot put anything other than line breaks after \ *)
| E_BackquoteUndefinable (hint : bool) (* `op` does not exist or cannot be defined by user *)
| E_BackquoteNotClosed          (* back quotes (`) not closed *)
| E_InvalidChar (c : Z).        (* invalid character: 'c' *)

Inductive item :=
| ITok (t : token)                  (* Some(Ok(token)) *)
| IErr (e : errclass) (t : token).  (* Some(Err(error)) where error.loc = t.loc() *)

Definition item_token (i : item) : token := match i with ITok t => t | IErr _ t => t end.

(** outcome of one call of Iterator::next *)
Inductive step :=
| SNone              (* None: prev_token is EOF *)
| SItem (i : item)
| SAgain.            (* the call re-enters itself (skipped line break, line continuation) *)

(* ------------------------------------------------------------------ characters *)
Definition is_ascii_digit (c : Z) : bool := (48 <=? c) && (c <=? 57).
Definition is_ascii_hexdigit (c : Z) : bool :=
  is_ascii_digit c || ((65 <=? c) && (c <=? 70)) || ((97 <=? c) && (c <=? 102)).
(* Lexer::is_bidi: U+200F U+202B U+202E U+2067 *)
Definition is_bidi (c : Z) : bool := (c =? 8207) || (c =? 8235) || (c =? 8238) || (c =? 8295).

Fixpoint list_eqb (a b : list Z) : bool :=
  match a, b with
  | [], [] => true
  | x :: a', y :: b' => (x =? y) && list_eqb a' b'
  | _, _ => false
  end.
Definition memz (x : Z) (l : list Z) : bool := existsb (Z.eqb x) l.

(* value of one hexadecimal digit (u32::from_str_radix) *)
Definition hex_val (c : Z) : Z :=
  if is_ascii_digit c then c - 48 else if (65 <=? c) && (c <=? 70) then c - 55 else c - 87.

(* str::lines().count() *)
Fixpoint count_nl (l : list Z) : Z :=
  match l with [] => 0 | c :: r => (if c =? 10 then 1 else 0) + count_nl r end.
Definition lines_count (l : list Z) : Z :=
  match l with
  | [] => 0
  | _ => count_nl l + (if last l 0 =? 10 then 0 else 1)
  end.

(* erg_common::normalize_newline: src.replace("\r\n", "\n").replace('\r', "\n") *)
Fixpoint replace_crlf (l : list Z) : list Z :=
  match l with
  | [] => []
  | c :: r =>
    match r with
    | d :: r' => if (c =? 13) && (d =? 10) then 10 :: replace_crlf r' else c :: replace_crlf r
    | [] => [c]
    end
  end.
Definition normalize_newline (l : list Z) : list Z :=
  map (fun c => if c =? 13 then 10 else c) (replace_crlf l).

(* Lexer::is_zero: s.replace("-0", "").replace('0', "").is_empty() *)
Fixpoint remove_minus_zero (l : list Z) : list Z :=
  match l with
  | [] => []
  | c :: r =>
    match r with
    | d :: r' => if (c =? 45) && (d =? 48) then remove_minus_zero r' else c :: remove_minus_zero r
    | [] => [c]
    end
  end.
Definition is_zero (s : list Z) : bool :=
  match filter (fun c => negb (c =? 48)) (remove_minus_zero s) with [] => true | _ => false end.

(* Lexer::is_definable_operator *)
Definition definable_operators : list (list Z) :=
  [ [43;95]; [95;43;95]; [45;95]; [95;45;95]; [42]; [47]; [47;47]; [42;42]; [37]; [126]; [38;38]; [124;124];
    [94]; [62;62]; [60;60]; [61;61]; [33;61]; [62]; [60]; [62;61]; [60;61]; [100;111;116]; [99;114;111;115;115] ].
Definition is_definable_operator (s : list Z) : bool := existsb (list_eqb s) definable_operators.

(* keyword table of lex_symbol *)
Definition symbol_kind (cont : list Z) : tkind :=
  if list_eqb cont [97;110;100] then AndOp                                  (* and *)
  else if list_eqb cont [97;115] then As                                     (* as *)
  else if list_eqb cont [111;114] then OrOp                                  (* or *)
  else if list_eqb cont [105;110] then InOp                                  (* in *)
  else if list_eqb cont [110;111;116;105;110] then NotInOp                   (* notin *)
  else if list_eqb cont [99;111;110;116;97;105;110;115] then ContainsOp      (* contains *)
  else if list_eqb cont [105;115;33] then IsOp                               (* is! *)
  else if list_eqb cont [105;115;110;111;116;33] then IsNotOp                (* isnot! *)
  else if list_eqb cont [114;101;102] then RefOp                             (* ref *)
  else if list_eqb cont [114;101;102;33] then RefMutOp                       (* ref! *)
  else if list_eqb cont [84;114;117;101] then BoolLit                        (* True *)
  else if list_eqb cont [70;97;108;115;101] then BoolLit                     (* False *)
  else if list_eqb cont [78;111;110;101] then NoneLit                        (* None *)
  else if list_eqb cont [69;108;108;105;112;115;105;115] then EllipsisLit    (* Ellipsis *)
  else if list_eqb cont [73;110;102] then InfLit                             (* Inf *)
  else if list_eqb cont [95] then UBar                                       (* _ *)
  else Symbol.

(* ------------------------------------------------------------------ lexer state *)
Inductive quote := QSingle | QDouble.
Inductive interp := ISingleLine | IMultiLine (q : quote) | INot.

Definition quote_char (q : quote) : Z := match q with QSingle => 39 | QDouble => 34 end.
Definition quote_quotes (q : quote) : list Z := let c := quote_char q in [c; c; c].
Definition quote_kind (q : quote) : tkind := match q with QSingle => DocComment | QDouble => StrLit end.
Definition quote_by (q : quote) : Z := match q with QDouble => 2 | QSingle => 3 end.
Definition interp_is_in (i : interp) : bool := match i with INot => false | _ => true end.

Record lstate := mkst {
  pre : list Z;            (* chars[..min(cursor,len)] reversed *)
  post : list Z;           (* chars[min(cursor,len)..] *)
  cursor : Z;              (* Lexer.cursor (may exceed len) *)
  len : Z;                 (* chars.len() *)
  indent_stack : list Z;   (* Lexer.indent_stack, head = last pushed *)
  encl : Z;                (* enclosure_level *)
  prev_kind : tkind;       (* prev_token.kind (only the kind is ever consulted) *)
  lineno : Z;              (* lineno_token_starts, 0-origin *)
  col : Z;                 (* col_token_starts *)
  cur_line : Z;            (* lineno_cursor (fx_pos) *)
  line_head : Z;           (* line_head (fx_pos) *)
  interpol : list interp   (* interpol_stack, head = last pushed *)
}.

Definition init (s : list Z) : lstate :=
  {| pre := []; post := s; cursor := 0; len := zlen s; indent_stack := []; encl := 0; prev_kind := BOF;
     lineno := 0; col := 0; cur_line := 0; line_head := 0; interpol := [INot] |}.

Definition set_zip (st : lstate) (p q : list Z) (c : Z) : lstate :=
  mkst p q c (len st) (indent_stack st) (encl st) (prev_kind st) (lineno st) (col st) (cur_line st) (line_head st) (interpol st).
Definition set_indent (st : lstate) (v : list Z) : lstate :=
  mkst (pre st) (post st) (cursor st) (len st) v (encl st) (prev_kind st) (lineno st) (col st) (cur_line st) (line_head st) (interpol st).
Definition set_encl (st : lstate) (v : Z) : lstate :=
  mkst (pre st) (post st) (cursor st) (len st) (indent_stack st) v (prev_kind st) (lineno st) (col st) (cur_line st) (line_head st) (interpol st).
Definition set_prev (st : lstate) (v : tkind) : lstate :=
  mkst (pre st) (post st) (cursor st) (len st) (indent_stack st) (encl st) v (lineno st) (col st) (cur_line st) (line_head st) (interpol st).
Definition set_lineno (st : lstate) (v : Z) : lstate :=
  mkst (pre st) (post st) (cursor st) (len st) (indent_stack st) (encl st) (prev_kind st) v (col st) (cur_line st) (line_head st) (interpol st).
Definition set_col (st : lstate) (v : Z) : lstate :=
  mkst (pre st) (post st) (cursor st) (len st) (indent_stack st) (encl st) (prev_kind st) (lineno st) v (cur_line st) (line_head st) (interpol st).
Definition set_curline (st : lstate) (l h : Z) : lstate :=
  mkst (pre st) (post st) (cursor st) (len st) (indent_stack st) (encl st) (prev_kind st) (lineno st) (col st) l h (interpol st).
Definition set_interpol (st : lstate) (v : list interp) : lstate :=
  mkst (pre st) (post st) (cursor st) (len st) (indent_stack st) (encl st) (prev_kind st) (lineno st) (col st) (cur_line st) (line_head st) v.

(* ------------------------------------------------------------------ state monad *)
Definition M (A : Type) : Type := lstate -> res (A * lstate).
Definition ret {A} (a : A) : M A := fun st => Ok (a, st).
Definition bind {A B} (m : M A) (f : A -> M B) : M B :=
  fun st => match m st with Ok (a, st') => f a st' | Panic => Panic | Fuel => Fuel end.
Definition panic {A} : M A := fun _ => Panic.
Definition out_of_fuel {A} : M A := fun _ => Fuel.
Definition gets {A} (f : lstate -> A) : M A := fun st => Ok (f st, st).
Definition modify (f : lstate -> lstate) : M unit := fun st => Ok (tt, f st).

Notation "x <- m ;; k" := (bind m (fun x => k)) (at level 61, m at next level, right associativity).
Notation "m ;;; k" := (bind m (fun _ => k)) (at level 61, right associativity).

Section Lexer.
(** unicode_xid::UnicodeXID::{is_xid_start, is_xid_continue}: parameters of the model (the theorems hold for
    every classification; for extraction they are instantiated by a table produced by the harness) *)
Variable xid_start : Z -> bool.
Variable xid_continue : Z -> bool.
Variable fx_esc : bool.
Variable fx_pos : bool.

(* Lexer::is_valid_start_symbol_ch / is_valid_continue_symbol_ch ('０'..='９' = U+FF10..U+FF19) *)
Definition is_valid_start_symbol_ch (c : Z) : bool := (c =? 95) || (c =? 39) || xid_start c.
Definition is_valid_continue_symbol_ch (c : Z) : bool :=
  xid_continue c && negb ((65296 <=? c) && (c <=? 65305)).

(* ---- consume / peek helpers *)
(* fn consume: cursor += 1; chars.get(now) [fx_pos: a consumed line break moves lineno_cursor / line_head] *)
Definition consume : M (option Z) := fun st =>
  match post st with
  | c :: r =>
    let st1 := set_zip st (c :: pre st) r (cursor st + 1) in
    Ok (Some c, if fx_pos && (c =? 10) then set_curline st1 (cur_line st1 + 1) (cursor st1) else st1)
  | [] => Ok (None, set_zip st (pre st) [] (cursor st + 1))
  end.

Definition peek_cur_ch (st : lstate) : option Z := hd_error (post st).
Definition peek_next_ch (st : lstate) : option Z := nth_error (post st) 1.
(* chars.get(cursor.checked_sub(1)?) *)
Definition peek_prev_ch (st : lstate) : option Z :=
  if cursor st <? 1 then None
  else if cursor st - 1 <? len st then hd_error (pre st) else None.
(* chars.get(cursor.checked_sub(2)?) *)
Definition peek_prev_prev_ch (st : lstate) : option Z :=
  if cursor st <? 2 then None
  else if cursor st - 2 <? len st then (if cursor st <=? len st then nth_error (pre st) 1 else hd_error (pre st))
  else None.

Definition peek_cur : M (option Z) := gets peek_cur_ch.
Definition peek_next : M (option Z) := gets peek_next_ch.

Definition opt_is (o : option Z) (c : Z) : bool := match o with Some x => x =? c | None => false end.

(* self.cursor -= n (usize) *)
Definition rewind (n : Z) : M unit := fun st =>
  if cursor st <? n then Panic
  else
    let c' := cursor st - n in
    let k := Z.to_nat (Z.min (cursor st) (len st) - Z.min c' (len st)) in
    Ok (tt, set_zip st (skipn k (pre st)) (rev (firstn k (pre st)) ++ post st) c').

(* fx_pos: fn sync_token_starts *)
Definition sync_token_starts : M unit := fun st =>
  if fx_pos then
    let c := Z.min (cursor st) (len st) in
    if c <? line_head st then Panic
    else Ok (tt, set_col (set_lineno st (cur_line st)) (c - line_head st))
  else Ok (tt, st).

(* ghost: source index of the cursor *)
Definition ghost_pos : M Z := gets (fun st => Z.min (cursor st) (len st)).

(* ---- emit_singleline_token / emit_multiline_token *)
Definition emit_singleline_token (k : tkind) (cont : list Z) (g : Z) : M token := fun st =>
  let t := mk_token k cont (lineno st + 1) (col st) g in
  Ok (t, set_col (set_prev st k) (col st + zlen cont)).

Definition emit_multiline_token (k : tkind) (col_begin : Z) (cont : list Z) (g : Z) : M token := fun st =>
  let ln := if fx_pos then lineno st + 1
            else Z.max 0 (lineno st + 2 - lines_count cont) (* saturating_sub *) in
  let t := mk_token k cont ln col_begin g in
  Ok (t, set_col (set_prev st k) (col st + zlen cont)).

Definition accept (k : tkind) (cont : list Z) (g : Z) : M step :=
  t <- emit_singleline_token k cont g ;; ret (SItem (ITok t)).
Definition reject (e : errclass) (k : tkind) (cont : list Z) (g : Z) : M step :=
  t <- emit_singleline_token k cont g ;; ret (SItem (IErr e t)).
Definition ok_tok (t : token) : M item := ret (ITok t).
Definition err_tok (e : errclass) (t : token) : M item := ret (IErr e t).

(* Option::unwrap *)
Definition unwrap {A} (o : option A) : M A := match o with Some a => ret a | None => panic end.

Definition fuel_of (st : lstate) : nat := S (length (post st)).

(* ---- fn lex_comment: Ok(()) = None *)
Fixpoint lex_comment_loop (n : nat) (s : list Z) (g : Z) : M (option item) :=
  match n with
  | O => out_of_fuel
  | S n =>
    cur <- peek_cur ;;
    match cur with
    | Some c =>
      if c =? 10 then ret None
      else if is_bidi c then
        t <- emit_singleline_token Illegal s g ;; ret (Some (IErr E_BidiComment t))
      else consume ;;; lex_comment_loop n (s ++ [c]) g
    | None => ret None
    end
  end.
Definition lex_comment : M (option item) :=
  g <- ghost_pos ;; n <- gets fuel_of ;; lex_comment_loop n [] g.

(* ---- fn lex_multi_line_comment *)
Fixpoint lex_multi_line_comment_loop (n : nat) (s : list Z) (nest_level : Z) (g : Z) : M (option item) :=
  match n with
  | O => out_of_fuel
  | S n =>
    cur <- peek_cur ;;
    match cur with
    | None =>
      t <- emit_singleline_token Illegal s g ;; ret (Some (IErr E_UnclosedMultiComment t))
    | Some c =>
      nx <- peek_next ;;
      let tail (nest_level : Z) :=
        if is_bidi c then
          t <- emit_singleline_token Illegal s g ;; ret (Some (IErr E_BidiComment t))
        else consume ;;; lex_multi_line_comment_loop n (s ++ [c]) nest_level g in
      match nx with
      | Some next_c =>
        let after (nest_level : Z) :=
          if c =? 10 then
            modify (fun st => set_col (set_lineno st (lineno st + 1)) 0) ;;;
            consume ;;; lex_multi_line_comment_loop n [] nest_level g
          else tail nest_level in
        if (c =? 35) && (next_c =? 91) then after (nest_level + 1)          (* #[ *)
        else if (c =? 93) && (next_c =? 35) then                             (* ]# *)
          if nest_level - 1 =? 0 then consume ;;; consume ;;; ret None
          else after (nest_level - 1)
        else after nest_level
      | None => tail nest_level
      end
    end
  end.
Definition lex_multi_line_comment : M (option item) :=
  g <- ghost_pos ;; n <- gets fuel_of ;; lex_multi_line_comment_loop n [] 0 g.

(* ---- fn lex_indent_dedent *)
(* self.indent_stack.iter().fold(0, calc_indent_and_validate): bottom of the stack first *)
Fixpoint fold_indent (l : list Z) (sum : Z) (valid : bool) (spaces_len : Z) : Z * bool :=
  match l with
  | [] => (sum, valid)
  | x :: r => let s := sum + x in
              fold_indent r s (valid || (s =? spaces_len) || (spaces_len =? 0)) spaces_len
  end.

Definition lex_indent_dedent (spaces : list Z) : M (option item) :=
  let spaces_len := zlen spaces in
  g <- ghost_pos ;;
  if 100 <? spaces_len then
    t <- emit_singleline_token Indent spaces (g - spaces_len) ;; ret (Some (IErr E_IndentTooDeep t))
  else
    stack <- gets indent_stack ;;
    let (sum_indent, is_valid_dedent) := fold_indent (rev stack) 0 false spaces_len in
    if sum_indent <? spaces_len then                                   (* Ordering::Less *)
      let indent_len := spaces_len - sum_indent in
      modify (fun st => set_col st (col st + sum_indent)) ;;;
      t <- emit_singleline_token Indent (repeat 32 (Z.to_nat indent_len)) (g - indent_len) ;;
      modify (fun st => set_indent st (indent_len :: indent_stack st)) ;;;
      ret (Some (ITok t))
    else if spaces_len <? sum_indent then                              (* Ordering::Greater *)
      rewind spaces_len ;;;
      modify (fun st => set_indent st (tl (indent_stack st))) ;;;
      g' <- ghost_pos ;;
      t <- emit_singleline_token Dedent [] g' ;;
      if is_valid_dedent then ret (Some (ITok t))
      else
        cur <- peek_cur ;;
        ret (Some (IErr (E_InvalidIndent (opt_is cur 10)) t))
    else                                                               (* Ordering::Equal *)
      modify (fun st => set_col st (col st + spaces_len)) ;;; ret None.

(* ---- fn lex_space_indent_dedent *)
Fixpoint consume_spaces (n : nat) (spaces : list Z) : M (list Z) :=
  match n with
  | O => out_of_fuel
  | S n =>
    cur <- peek_cur ;;
    if opt_is cur 32 then consume ;;; consume_spaces n (spaces ++ [32]) else ret spaces
  end.

Definition lex_space_indent_dedent : M (option item) :=
  sync_token_starts ;;;
  st <- gets (fun st => st) ;;
  g <- ghost_pos ;;
  let is_line_break_after :=
    (0 <? cursor st) && negb (match indent_stack st with [] => true | _ => false end)
    && opt_is (peek_prev_ch st) 10 in
  let is_space := opt_is (peek_cur_ch st) 32 in
  let is_linebreak := opt_is (peek_cur_ch st) 10 in
  let is_empty := is_space || is_linebreak in
  let is_toplevel := is_line_break_after && negb is_empty in
  if is_toplevel && (encl st =? 0) then
    t <- emit_singleline_token Dedent [] g ;;
    modify (fun st => set_col (set_indent st (tl (indent_stack st))) 0) ;;;
    ret (Some (ITok t))
  else if is_linebreak && (encl st =? 0) then
    consume ;;;
    t <- emit_singleline_token Newline [10] g ;;
    modify (fun st => set_col (set_lineno st (lineno st + 1)) 0) ;;;
    ret (Some (ITok t))
  else
    n <- gets fuel_of ;;
    spaces <- consume_spaces n [] ;;
    prev <- gets prev_kind ;;
    if negb (match spaces with [] => true | _ => false end) && kind_eqb prev BOF then
      t <- emit_singleline_token Illegal spaces g ;; ret (Some (IErr (E_InvalidIndent false) t))
    else if kind_eqb prev Newline || kind_eqb prev Dedent then lex_indent_dedent spaces
    else modify (fun st => set_col st (col st + zlen spaces)) ;;; ret None.

(* ---- numbers *)
Definition int_or_nat (num : list Z) : tkind :=
  if opt_is (hd_error num) 45 && negb (is_zero num) then IntLit else NatLit.

(* generic `while let Some(cur) = peek { if p(cur) { num.push(consume) } else { break } }` *)
Fixpoint take_while (n : nat) (p : Z -> bool) (acc : list Z) : M (list Z) :=
  match n with
  | O => out_of_fuel
  | S n =>
    cur <- peek_cur ;;
    match cur with
    | Some c => if p c then consume ;;; take_while n p (acc ++ [c]) else ret acc
    | None => ret acc
    end
  end.
Definition digit_or_ubar (c : Z) : bool := is_ascii_digit c || (c =? 95).

(* fn lex_exponent *)
Definition lex_exponent (mantissa : list Z) (g : Z) : M item :=
  cur <- peek_cur ;;
  (if opt_is cur 101 then ret tt else panic) ;;;            (* debug_power_assert!(peek_cur_ch() == Some('e')) *)
  e <- consume ;; e <- unwrap e ;;
  let num := mantissa ++ [e] in
  cur <- peek_cur ;;
  match cur with
  | Some _ =>
    sign <- consume ;; sign <- unwrap sign ;;               (* + | - (any character is taken) *)
    n <- gets fuel_of ;;
    num <- take_while n digit_or_ubar (num ++ [sign]) ;;
    t <- emit_singleline_token RatioLit num g ;; ok_tok t
  | None =>
    t <- emit_singleline_token RatioLit num g ;; err_tok E_InvalidDecimal t
  end.

(* fn lex_ratio *)
Definition lex_ratio (intpart_and_point : list Z) (g : Z) : M item :=
  n <- gets fuel_of ;;
  num <- take_while n digit_or_ubar intpart_and_point ;;
  cur <- peek_cur ;;
  if opt_is cur 101 then lex_exponent num g
  else t <- emit_singleline_token RatioLit num g ;; ok_tok t.

(* fn lex_bin / lex_oct / lex_hex *)
Definition lex_radix (k : tkind) (p : Z -> bool) (num : list Z) (g : Z) : M item :=
  n <- gets fuel_of ;;
  num <- take_while n p num ;;
  t <- emit_singleline_token k num g ;; ok_tok t.
Definition bin_digit (c : Z) : bool := (c =? 48) || (c =? 49) || (c =? 95).
Definition oct_digit (c : Z) : bool := ((48 <=? c) && (c <=? 55)) || (c =? 95).
Definition hex_digit (c : Z) : bool := is_ascii_hexdigit c || (c =? 95).

(* fn lex_num_dot *)
Definition lex_num_dot (num : list Z) (g : Z) : M item :=
  nx <- peek_next ;;
  prev <- gets prev_kind ;;
  let ratio := d <- consume ;; d <- unwrap d ;; lex_ratio (num ++ [d]) g in
  match nx with
  | Some c =>
    if is_ascii_digit c && negb (kind_eqb prev Dot) then ratio
    else if is_valid_continue_symbol_ch c || (c =? 46) then
      t <- emit_singleline_token (int_or_nat num) num g ;; ok_tok t
    else if c =? 95 then
      consume ;;; t <- emit_singleline_token Illegal (num ++ [95]) g ;; err_tok E_SimpleSyntax t
    else ratio
  | None => ratio
  end.

(* fn lex_num *)
Fixpoint lex_num_loop (n : nat) (num : list Z) (g : Z) : M item :=
  match n with
  | O => out_of_fuel
  | S n =>
    cur <- peek_cur ;;
    nx <- peek_next ;;
    let finish := t <- emit_singleline_token (int_or_nat num) num g ;; ok_tok t in
    let radix (ok : Z -> bool) (k : tkind) (p : Z -> bool) :=
      if list_eqb num [48] && (match nx with Some d => ok d | None => false end) then
        c <- consume ;; c <- unwrap c ;; lex_radix k p (num ++ [c]) g
      else finish in
    match cur with
    | None => finish
    | Some ch =>
      if ch =? 46 then lex_num_dot num g
      else if digit_or_ubar ch then consume ;;; lex_num_loop n (num ++ [ch]) g
      else if (ch =? 98) || (ch =? 66) then radix is_ascii_digit BinLit bin_digit
      else if (ch =? 111) || (ch =? 79) then radix is_ascii_digit OctLit oct_digit
      else if (ch =? 120) || (ch =? 88) then radix is_ascii_hexdigit HexLit hex_digit
      else if is_valid_continue_symbol_ch ch then
        if (ch =? 101) && (opt_is nx 43 || opt_is nx 45) then lex_exponent num g else finish
      else finish
    end
  end.
Definition lex_num (first_ch : Z) (g : Z) : M item :=
  n <- gets fuel_of ;; lex_num_loop n [first_ch] g.

(* ---- fn lex_symbol *)
Definition lex_symbol (first_ch : Z) (g : Z) : M item :=
  n <- gets fuel_of ;;
  cont <- take_while n is_valid_continue_symbol_ch [first_ch] ;;
  cur <- peek_cur ;;
  cont <- (if opt_is cur 33 then consume ;;; ret (cont ++ [33]) else ret cont) ;;
  match cont with
  | [] =>
    cur <- peek_cur ;; c <- unwrap cur ;;
    t <- emit_singleline_token Illegal [c] g ;; err_tok E_CompilerBug t
  | _ => t <- emit_singleline_token (symbol_kind cont) cont g ;; ok_tok t
  end.

(* ---- strings *)
Definition last_interpol : M interp :=
  st <- gets interpol ;; match st with i :: _ => ret i | [] => panic end.   (* interpol_stack.last().unwrap() *)
Definition push_interpol (i : interp) : M unit := modify (fun st => set_interpol st (i :: interpol st)).
Definition pop_interpol : M unit := modify (fun st => set_interpol st (tl (interpol st))).

(* fn invalid_unicode_character *)
Definition invalid_unicode_character (s : list Z) (g : Z) : M item :=
  t <- emit_singleline_token Illegal s g ;; err_tok E_BidiString t.

(* the one-character escapes shared by the three string lexers: None = not one of them *)
Definition simple_escape (c : Z) : option (list Z) :=
  if c =? 48 then Some [0]                    (* \0 *)
  else if c =? 114 then Some [13]             (* \r *)
  else if c =? 110 then Some [10]             (* \n *)
  else if c =? 39 then Some [39]              (* \' *)
  else if c =? 34 then Some [34]              (* \ double-quote *)
  else if c =? 116 then Some [32;32;32;32]    (* \t: four spaces *)
  else if c =? 92 then Some [92]              (* \\ *)
  else None.

(* fn lex_single_str *)
Fixpoint lex_single_str_loop (n : nat) (s : list Z) (g : Z) : M item :=
  match n with
  | O => out_of_fuel
  | S n =>
    let unclosed := t <- emit_singleline_token Illegal s g ;; err_tok (E_UnclosedStr 1) t in
    cur <- peek_cur ;;
    match cur with
    | None => unclosed
    | Some c =>
      if c =? 10 then
        top <- last_interpol ;;
        stack <- gets interpol ;;
        t <- emit_singleline_token Illegal s g ;;
        match top with
        | ISingleLine => if (length stack =? 1)%nat then err_tok E_StrLineBreak t else err_tok E_UnclosedInterpol t
        | _ => err_tok E_UnclosedInterpol t
        end
      else if c =? 34 then
        consume ;;; t <- emit_singleline_token StrLit (s ++ [34]) g ;; ok_tok t
      else
        consume ;;;
        if c =? 92 then
          nc <- consume ;;
          match nc with
          | None => if fx_esc then unclosed else panic
          | Some next_c =>
            if next_c =? 123 then                                    (* \{ *)
              push_interpol ISingleLine ;;;
              t <- emit_singleline_token StrInterpLeft (s ++ [92; 123]) g ;; ok_tok t
            else if next_c =? 120 then                               (* \xHH *)
              h1 <- consume ;;
              match h1 with
              | None => if fx_esc then unclosed else panic
              | Some c1 =>
                if negb (is_ascii_hexdigit c1) then
                  t <- emit_singleline_token Illegal s g ;; err_tok (E_InvalidEscape c1) t
                else
                  h2 <- consume ;;
                  match h2 with
                  | None => if fx_esc then unclosed else panic
                  | Some c2 =>
                    if negb (is_ascii_hexdigit c2) then
                      t <- emit_singleline_token Illegal s g ;; err_tok (E_InvalidEscape c2) t
                    else
                      let v := 16 * hex_val c1 + hex_val c2 in
                      (* char::from_u32(..).unwrap() *)
                      if ((55296 <=? v) && (v <=? 57343)) || (1114111 <? v) then panic
                      else lex_single_str_loop n (s ++ [v]) g
                  end
              end
            else
              match simple_escape next_c with
              | Some e => lex_single_str_loop n (s ++ e) g
              | None =>
                t <- emit_singleline_token Illegal [92; next_c] g ;; err_tok (E_InvalidEscape next_c) t
              end
          end
        else if is_bidi c then invalid_unicode_character (s ++ [c]) g
        else lex_single_str_loop n (s ++ [c]) g
    end
  end.
Definition lex_single_str (g : Z) : M item :=
  n <- gets fuel_of ;; lex_single_str_loop n [34] g.

(* fn lex_multi_line_str *)
Definition bump_line_nofix : M unit :=
  if fx_pos then ret tt else modify (fun st => set_col (set_lineno st (lineno st + 1)) 0).

Fixpoint lex_multi_line_str_loop (n : nat) (q : quote) (col_begin : Z) (s : list Z) (g : Z) : M item :=
  match n with
  | O => out_of_fuel
  | S n =>
    let at_end :=
      t <- emit_multiline_token Illegal col_begin s g ;;
      stack <- gets interpol ;;
      if (length stack =? 1)%nat then err_tok (E_UnclosedStr (quote_by q)) t else err_tok E_UnclosedInterpol t in
    cur <- peek_cur ;;
    match cur with
    | None => at_end
    | Some c =>
      if c =? quote_char q then
        consume ;;;
        next_c <- peek_cur ;;
        aft_next_c <- peek_next ;;
        match next_c, aft_next_c with
        | None, _ =>
          t <- emit_multiline_token Illegal col_begin s g ;; err_tok (E_UnclosedStr (quote_by q)) t
        | Some _, None =>
          c2 <- consume ;; c2 <- unwrap c2 ;;
          t <- emit_multiline_token Illegal col_begin (s ++ [c2]) g ;; err_tok (E_UnclosedStr (quote_by q)) t
        | Some n1, Some n2 =>
          if (n1 =? quote_char q) && (n2 =? quote_char q) then
            consume ;;; consume ;;;
            t <- emit_multiline_token (quote_kind q) col_begin (s ++ quote_quotes q) g ;; ok_tok t
          else lex_multi_line_str_loop n q col_begin (s ++ [c]) g
        end
      else
        consume ;;;
        if c =? 92 then
          nc <- consume ;;
          match nc with
          | None => if fx_esc then at_end else panic
          | Some next_c =>
            if next_c =? 123 then
              push_interpol (IMultiLine q) ;;;
              t <- emit_multiline_token StrInterpLeft col_begin (s ++ [92; 123]) g ;; ok_tok t
            else if next_c =? 10 then
              bump_line_nofix ;;; lex_multi_line_str_loop n q col_begin s g
            else
              match simple_escape next_c with
              | Some e => lex_multi_line_str_loop n q col_begin (s ++ e) g
              | None =>
                t <- emit_multiline_token Illegal col_begin [92; next_c] g ;; err_tok (E_InvalidEscape next_c) t
              end
          end
        else if c =? 10 then
          bump_line_nofix ;;; lex_multi_line_str_loop n q col_begin (s ++ [10]) g
        else if is_bidi c then invalid_unicode_character (s ++ [c]) g
        else lex_multi_line_str_loop n q col_begin (s ++ [c]) g
    end
  end.
Definition lex_multi_line_str (q : quote) (g : Z) : M item :=
  n <- gets fuel_of ;; cb <- gets col ;; lex_multi_line_str_loop n q cb (quote_quotes q) g.

(* fn lex_interpolation_mid *)
Fixpoint lex_interpolation_mid_loop (n : nat) (s : list Z) (g : Z) : M item :=
  match n with
  | O => out_of_fuel
  | S n =>
    let at_end := t <- emit_singleline_token Illegal s g ;; err_tok (E_UnclosedStr 0) t in
    cur <- peek_cur ;;
    match cur with
    | None => at_end
    | Some c =>
      if c =? 10 then
        top <- last_interpol ;;
        match top with
        | IMultiLine _ =>
          bump_line_nofix ;;;
          c1 <- consume ;; unwrap c1 ;;;
          lex_interpolation_mid_loop n (s ++ [10]) g
        | ISingleLine =>
          nx <- peek_next ;;
          t <- emit_singleline_token Illegal s g ;;
          match nx with Some _ => err_tok E_StrLineBreak t | None => err_tok (E_UnclosedStr 0) t end
        | INot =>
          t <- emit_singleline_token Illegal s g ;; err_tok E_UnclosedInterpol t
        end
      else if (c =? 34) || (c =? 39) then
        c1 <- consume ;; unwrap c1 ;;;
        top <- last_interpol ;;
        match top with
        | IMultiLine q =>
          next_c <- peek_cur ;;
          aft_next_c <- peek_next ;;
          match next_c, aft_next_c with
          | None, _ =>
            pop_interpol ;;;
            t <- emit_singleline_token Illegal (s ++ [c]) g ;; err_tok (E_UnclosedStr (quote_by q)) t
          | Some _, None =>
            pop_interpol ;;;
            c2 <- consume ;; c2 <- unwrap c2 ;;
            t <- emit_singleline_token Illegal (s ++ [c; c2]) g ;; err_tok (E_UnclosedStr (quote_by q)) t
          | Some n1, Some n2 =>
            if (n1 =? quote_char q) && (n2 =? quote_char q) then
              pop_interpol ;;;
              c2 <- consume ;; unwrap c2 ;;; c3 <- consume ;; unwrap c3 ;;;
              t <- emit_singleline_token StrInterpRight (s ++ quote_quotes q) g ;; ok_tok t
            else lex_interpolation_mid_loop n s g        (* the consumed quote is dropped *)
          end
        | ISingleLine =>
          pop_interpol ;;;
          t <- emit_singleline_token StrInterpRight (s ++ [c]) g ;; ok_tok t
        | INot => lex_interpolation_mid_loop n s g
        end
      else
        c1 <- consume ;; unwrap c1 ;;;
        if c =? 92 then
          nc <- consume ;;
          match nc with
          | None => if fx_esc then at_end else panic
          | Some next_c =>
            if next_c =? 123 then
              t <- emit_singleline_token StrInterpMid (s ++ [92; 123]) g ;; ok_tok t
            else
              match simple_escape next_c with
              | Some e => lex_interpolation_mid_loop n (s ++ e) g
              | None =>
                t <- emit_singleline_token Illegal [92; next_c] g ;; err_tok (E_InvalidEscape next_c) t
              end
          end
        else if is_bidi c then invalid_unicode_character (s ++ [c]) g
        else lex_interpolation_mid_loop n (s ++ [c]) g
    end
  end.
Definition lex_interpolation_mid (g : Z) : M item :=
  n <- gets fuel_of ;; lex_interpolation_mid_loop n [125] g.

(* fn lex_raw_ident *)
Fixpoint lex_raw_ident_loop (n : nat) (s : list Z) (g : Z) : M item :=
  match n with
  | O => out_of_fuel
  | S n =>
    cur <- peek_cur ;;
    match cur with
    | None => t <- emit_singleline_token Illegal s g ;; err_tok E_RawIdentNotClosed t
    | Some c =>
      if c =? 10 then t <- emit_singleline_token Illegal s g ;; err_tok E_SimpleSyntax t
      else if c =? 39 then
        consume ;;;
        cur <- peek_cur ;;
        s' <- (if opt_is cur 33 then consume ;;; ret (s ++ [39; 33]) else ret (s ++ [39])) ;;
        t <- emit_singleline_token Symbol s' g ;; ok_tok t
      else
        consume ;;;
        if is_bidi c then invalid_unicode_character (s ++ [c]) g
        else lex_raw_ident_loop n (s ++ [c]) g
    end
  end.
Definition lex_raw_ident (g : Z) : M item :=
  n <- gets fuel_of ;; lex_raw_ident_loop n [39] g.

(* the back-quote arm of next: while let Some(c) = self.consume() *)
Fixpoint lex_backquote_loop (n : nat) (op : list Z) (g : Z) : M step :=
  match n with
  | O => out_of_fuel
  | S n =>
    c <- consume ;;
    match c with
    | None => reject E_BackquoteNotClosed Illegal op g
    | Some c =>
      if c =? 96 then
        if is_definable_operator op then accept Symbol (96 :: op ++ [96]) g
        else reject (E_BackquoteUndefinable (memz 43 op)) Illegal op g
      else lex_backquote_loop n (op ++ [c]) g
    end
  end.

(* ---- fn op_fix / prev_can_be_receiver *)
Inductive opfix := Prefix | Infix.
Definition op_fix : M (option opfix) := gets (fun st =>
  match category (prev_kind st) with
  | CLEnclosure | CBinOp | CUnaryOp | CSeparator | CSpecialBinOp | CDefOp | CLambdaOp
  | CStrInterpLeft | CStrInterpMid | CBOF => Some Prefix
  | CREnclosure | CLiteral | CStrInterpRight | CSymbol =>
    match peek_prev_prev_ch st, peek_cur_ch st with
    | Some a, Some b => if (a =? 32) && negb (b =? 32) then Some Prefix else Some Infix
    | _, _ => None
    end
  | _ => None
  end).
Definition prev_can_be_receiver (st : lstate) : bool :=
  match category (prev_kind st) with
  | CSymbol | CREnclosure | CStrInterpRight | CPostfixOp => true
  | _ => false
  end.

Definition sat_dec (x : Z) : Z := Z.max 0 (x - 1).       (* usize::saturating_sub(1) *)

(* `match self.op_fix() { Some(Infix) => a, Some(Prefix) => b, _ => Illegal }` *)
Definition by_fix (infix prefix : tkind) (cont : list Z) (illegal : list Z) (g : Z) : M step :=
  f <- op_fix ;;
  match f with
  | Some Infix => accept infix cont g
  | Some Prefix => accept prefix cont g
  | None => reject E_SimpleSyntax Illegal illegal g
  end.

Definition lift (m : M item) : M step := i <- m ;; ret (SItem i).

(* ---- the `match self.consume()` of Iterator::next, for Some(c) *)
Definition dispatch (c : Z) (g : Z) : M step :=
  cur <- peek_cur ;;
  nx <- peek_next ;;
  if c =? 40 then modify (fun st => set_encl st (encl st + 1)) ;;; accept LParen [40] g
  else if c =? 41 then modify (fun st => set_encl st (sat_dec (encl st))) ;;; accept RParen [41] g
  else if c =? 91 then modify (fun st => set_encl st (encl st + 1)) ;;; accept LSqBr [91] g
  else if c =? 93 then modify (fun st => set_encl st (sat_dec (encl st))) ;;; accept RSqBr [93] g
  else if c =? 123 then modify (fun st => set_encl st (encl st + 1)) ;;; accept LBrace [123] g
  else if c =? 125 then
    modify (fun st => set_encl st (sat_dec (encl st))) ;;;
    top <- last_interpol ;;
    if interp_is_in top then lift (lex_interpolation_mid g) else accept RBrace [125] g
  else if c =? 60 then                                                   (* < *)
    if opt_is cur 46 then
      consume ;;;
      cur <- peek_cur ;;
      if opt_is cur 46 then
        consume ;;;
        cur <- peek_cur ;;
        if opt_is cur 60 then consume ;;; accept Open [60;46;46;60] g
        else accept LeftOpen [60;46;46] g
      else reject E_NoSuchOperator Illegal [60;46] g
    else if opt_is cur 45 then consume ;;; accept Inclusion [60;45] g
    else if opt_is cur 61 then consume ;;; accept LessEq [60;61] g
    else if opt_is cur 60 then consume ;;; accept Shl [60;60] g
    else if opt_is cur 58 then consume ;;; accept SubtypeOf [60;58] g
    else accept Less [60] g
  else if c =? 62 then                                                   (* > *)
    if opt_is cur 61 then consume ;;; accept GreEq [62;61] g
    else if opt_is cur 62 then consume ;;; accept Shr [62;62] g
    else accept Gre [62] g
  else if c =? 46 then                                                   (* . *)
    if opt_is cur 46 then
      consume ;;;
      cur <- peek_cur ;;
      if opt_is cur 60 then consume ;;; accept RightOpen [46;46;60] g
      else if opt_is cur 46 then consume ;;; accept EllipsisLit [46;46;46] g
      else accept Closed [46;46] g
    else
      recv <- gets prev_can_be_receiver ;;
      if (match cur with Some d => is_ascii_digit d | None => false end) && negb recv
      then lift (lex_ratio [46] g)
      else accept Dot [46] g
  else if c =? 44 then accept Comma [44] g
  else if c =? 58 then                                                   (* : *)
    if opt_is cur 58 then consume ;;; accept DblColon [58;58] g
    else if opt_is cur 61 then consume ;;; accept Walrus [58;61] g
    else if opt_is cur 62 then consume ;;; accept SupertypeOf [58;62] g
    else accept Colon [58] g
  else if c =? 59 then accept Semi [59] g
  else if c =? 38 then                                                   (* & *)
    if opt_is cur 38 then consume ;;; accept BitAnd [38;38] g else accept Amper [38] g
  else if c =? 124 then                                                  (* | *)
    if opt_is cur 124 then consume ;;; accept BitOr [124;124] g
    else if opt_is cur 62 then consume ;;; accept Pipe [124;62] g
    else accept VBar [124] g
  else if c =? 94 then                                                   (* ^ *)
    if opt_is cur 94 then consume ;;; accept BitXor [94;94] g else accept Caret [94] g
  else if c =? 126 then accept PreBitNot [126] g
  else if c =? 36 then reject E_Feature Illegal [36] g                   (* $: deny_feature *)
  else if c =? 64 then accept AtSign [64] g
  else if c =? 61 then                                                   (* = *)
    if opt_is cur 61 then consume ;;; accept DblEq [61;61] g
    else if opt_is cur 62 then consume ;;; accept ProcArrow [61;62] g
    else accept Assign [61] g
  else if c =? 33 then                                                   (* ! *)
    if opt_is cur 61 then consume ;;; accept NotEq [33;61] g else accept Mutate [33] g
  else if c =? 63 then accept Try [63] g
  else if c =? 43 then by_fix Plus PrePlus [43] [43] g                   (* + *)
  else if c =? 45 then                                                   (* - *)
    if opt_is cur 62 then consume ;;; accept FuncArrow [45;62] g
    else
      f <- op_fix ;;
      match f with
      | Some Infix => accept Minus [45] g
      | Some Prefix =>
        if (match cur with Some d => is_ascii_digit d | None => false end)
        then lift (lex_num 45 g) else accept PreMinus [45] g
      | None => reject E_SimpleSyntax Illegal [45] g
      end
  else if c =? 42 then                                                   (* * *)
    if opt_is cur 42 then consume ;;; by_fix Pow PreDblStar [42;42] [42] g
    else by_fix Star PreStar [42] [42] g
  else if c =? 47 then                                                   (* / *)
    if opt_is cur 47 then consume ;;; accept FloorDiv [47;47] g else accept Slash [47] g
  else if c =? 37 then accept Mod [37] g
  else if c =? 10 then                                                   (* line break *)
    e <- gets encl ;;
    if 0 <? e then
      modify (fun st => set_col (set_lineno st (lineno st + 1)) 0) ;;; ret SAgain
    else
      t <- emit_singleline_token Newline [10] g ;;
      modify (fun st => set_col (set_lineno st (lineno st + 1)) 0) ;;;
      ret (SItem (ITok t))
  else if c =? 9 then reject E_Tab Illegal [9] g
  else if c =? 92 then                                                   (* \ *)
    match cur with
    | Some other =>
      if other =? 10 then
        consume ;;;          (* before the repair: self.cursor += 1, the same without line tracking *)
        modify (fun st => set_col (set_lineno st (lineno st + 1)) 0) ;;; ret SAgain
      else reject E_BackslashNonNewline Illegal [92; other] g
    | None => reject E_SimpleSyntax Illegal [92] g
    end
  else if c =? 34 then                                                   (* double quote *)
    match cur, nx with
    | None, _ => reject (E_UnclosedStr 1) Illegal [34] g
    | Some c1, Some c2 =>
      if (c1 =? 34) && (c2 =? 34) then consume ;;; consume ;;; lift (lex_multi_line_str QDouble g)
      else lift (lex_single_str g)
    | Some c1, None =>
      if c1 =? 34 then consume ;;; accept StrLit [34;34] g else lift (lex_single_str g)
    end
  else if c =? 39 then                                                   (* ' *)
    match cur, nx with
    | None, _ => reject E_RawIdentNotEnded Illegal [39] g
    | Some c1, Some c2 =>
      if (c1 =? 39) && (c2 =? 39) then consume ;;; consume ;;; lift (lex_multi_line_str QSingle g)
      else if c1 =? 39 then consume ;;; reject E_SimpleSyntax Illegal [39;39] g
      else lift (lex_raw_ident g)
    | Some c1, None =>
      if c1 =? 39 then consume ;;; reject E_SimpleSyntax Illegal [39;39] g else lift (lex_raw_ident g)
    end
  else if c =? 96 then n <- gets fuel_of ;; lex_backquote_loop n [] g     (* ` *)
  else if is_ascii_digit c then lift (lex_num c g)
  else if is_valid_start_symbol_ch c then lift (lex_symbol c g)
  else reject (E_InvalidChar c) Illegal [c] g.

(* ---- Iterator::next *)
Definition next : M step :=
  prev <- gets prev_kind ;;
  if kind_eqb prev EOF then ret SNone
  else
    r <- lex_space_indent_dedent ;;
    match r with
    | Some it => ret (SItem it)
    | None =>
      cur <- peek_cur ;;
      nx <- peek_next ;;
      cm <- (if opt_is cur 35 then if opt_is nx 91 then lex_multi_line_comment else lex_comment
             else ret None) ;;
      match cm with
      | Some it => ret (SItem it)
      | None =>
        sync_token_starts ;;;
        g <- ghost_pos ;;
        c <- consume ;;
        match c with
        | Some c => dispatch c g
        | None =>
          stack <- gets indent_stack ;;
          match stack with
          | [] => accept EOF [0] g
          | _ :: r => modify (fun st => set_indent st r) ;;; accept Dedent [] g
          end
        end
      end
    end.

(* ---- Lexer::lex: `for i in self` *)
Fixpoint lex_loop (n : nat) (st : lstate) (acc : list item) : res (list item) :=
  match n with
  | O => Fuel
  | S n =>
    match next st with
    | Ok (SNone, _) => Ok (rev acc)
    | Ok (SItem it, st') => lex_loop n st' (it :: acc)
    | Ok (SAgain, st') => lex_loop n st' acc
    | Panic => Panic
    | Fuel => Fuel
    end
  end.

(* number of calls of next that can be needed for an input of this length (Proofs.v: lex_fuel_enough) *)
Definition lex_fuel (s : list Z) : nat := length s * 2 + 4.

(* Lexer::from_str(src).lex(), the items in the order the iterator yields them *)
Definition lex (src : list Z) : res (list item) :=
  let s := normalize_newline src in lex_loop (lex_fuel s) (init s) [].

End Lexer.

(* Result<TokenStream, (TokenStream, LexErrors)> *)
Definition tokens_of (l : list item) : list token :=
  flat_map (fun i => match i with ITok t => [t] | IErr _ _ => [] end) l.
Definition errors_of (l : list item) : list (errclass * token) :=
  flat_map (fun i => match i with ITok _ => [] | IErr e t => [(e, t)] end) l.
