(** C31 — model of module path normalisation.
    Transcribes  crates/erg_common/lib.rs  cheap_canonicalize_path, normalize_path
                 crates/erg_common/pathutil.rs  NormalizedPathBuf::new, (derived) PartialEq
    over a model of the parts of std::path they use on Unix: Path::components, PathBuf::push,
    PathBuf::pop, Path::has_root, PathBuf == (component-wise).
    Definitions only (computable); proofs are in Proofs.v.

    A path string is a list of Unicode scalar values ([list Z]); '/' = 47, '.' = 46, '\' = 92, '?' = 63.
    Unix only: [Component::Prefix] never occurs (it is produced on Windows only), so the
    [unreachable!()] arm of cheap_canonicalize_path is not reachable and no panic outcome is needed:
    every function below is total in the Rust code as well (no unwrap / index / arithmetic).
    The std model (components / push / pop) is validated against std on every run by the
    correspondence check (checks/c31.py, harness modes 0 and 2). *)
From Coq Require Import ZArith List Bool Arith.
Import ListNotations.
Open Scope Z_scope.

Definition str := list Z.

Definition SEP : Z := 47.
Definition DOT : Z := 46.
Definition is_sep (c : Z) : bool := c =? 47.

Fixpoint str_eqb (a b : str) : bool :=
  match a, b with
  | [], [] => true
  | x :: a', y :: b' => (x =? y) && str_eqb a' b'
  | _, _ => false
  end.

Definition dot : str := [46].
Definition dotdot : str := [46; 46].

(** std::path::Component on Unix *)
Inductive comp : Type :=
| Root                 (* RootDir *)
| Cur                  (* CurDir *)
| Parent               (* ParentDir *)
| Normal (s : str).

Definition comp_eqb (a b : comp) : bool :=
  match a, b with
  | Root, Root | Cur, Cur | Parent, Parent => true
  | Normal s, Normal t => str_eqb s t
  | _, _ => false
  end.

Fixpoint comps_eqb (a b : list comp) : bool :=
  match a, b with
  | [], [] => true
  | x :: a', y :: b' => comp_eqb x y && comps_eqb a' b'
  | _, _ => false
  end.

(* Component::as_os_str *)
Definition os_str (c : comp) : str :=
  match c with Root => [47] | Cur => dot | Parent => dotdot | Normal s => s end.

(* ------------------------------------------------------------------ std::path::Path::components *)

(** the pieces between separators: n separators give n+1 pieces *)
Fixpoint split_sep (s : str) : list str :=
  match s with
  | [] => [[]]
  | c :: r =>
    if is_sep c then [] :: split_sep r
    else match split_sep r with
         | [] => [[c]]                      (* never: split_sep is non-empty *)
         | x :: xs => (c :: x) :: xs
         end
  end.

(** Components::parse_single_component (no verbatim prefix on Unix) *)
Definition parse_single (seg : str) : option comp :=
  if str_eqb seg [] then None
  else if str_eqb seg dot then None
  else if str_eqb seg dotdot then Some Parent
  else Some (Normal seg).

Definition is_none_seg (seg : str) : bool :=
  match parse_single seg with None => true | Some _ => false end.

Definition opt_list {A} (o : option A) : list A := match o with Some a => [a] | None => [] end.

(* State::Body : every piece that parses to a component, in order *)
Definition body_comps (s : str) : list comp :=
  flat_map (fun seg => opt_list (parse_single seg)) (split_sep s).

(* has_physical_root *)
Definition has_root (s : str) : bool :=
  match s with c :: _ => is_sep c | [] => false end.

(* Components::include_cur_dir *)
Definition include_cur_dir (s : str) : bool :=
  if has_root s then false
  else match s with
       | [c] => c =? 46
       | c :: b :: _ => (c =? 46) && is_sep b
       | _ => false
       end.

(* Iterator for Components: State::StartDir then State::Body *)
Definition components (s : str) : list comp :=
  if has_root s then Root :: body_comps (tl s)
  else if include_cur_dir s then Cur :: body_comps (tl s)
  else body_comps s.

(** PathBuf == PathBuf and Path == Path compare [components()] *)
Definition path_eqb (a b : str) : bool := comps_eqb (components a) (components b).

(* ------------------------------------------------------------------ PathBuf::push / pop *)

(* PathBuf::_push on Unix: an absolute argument replaces the buffer, otherwise a separator is
   inserted when the buffer does not end in one (and is not empty) *)
Definition push (buf p : str) : str :=
  if has_root p then p
  else match rev buf with
       | [] => p
       | c :: _ => if is_sep c then buf ++ p else buf ++ SEP :: p
       end.

Fixpoint join (segs : list str) : str :=
  match segs with
  | [] => []
  | [x] => x
  | x :: t => x ++ SEP :: join t
  end.

Fixpoint drop_none (rsegs : list str) : list str :=
  match rsegs with
  | [] => []
  | x :: t => if is_none_seg x then drop_none t else rsegs
  end.

(** Path::parent: [components().next_back()] must be Normal/CurDir/ParentDir, the answer is
    [as_path()] of the remaining iterator.  Seen from the back, pieces that are not components
    (empty, ".") are skipped (next_back), the last component is removed, and trailing
    non-components are trimmed again (Components::trim_right in as_path).
    [pre] is the part before the body (the root or the leading "."), kept verbatim. *)
Definition parent (s : str) : option str :=
  let lbb := if has_root s then 1%nat else if include_cur_dir s then 1%nat else 0%nat in
  let pre := firstn lbb s in
  let body := skipn lbb s in
  match drop_none (rev (split_sep body)) with
  | _ :: rest =>                              (* last body component: Normal or ParentDir *)
    Some (pre ++ join (rev (drop_none rest)))
  | [] =>                                      (* no body component *)
    if include_cur_dir s then Some []          (* leading CurDir is the last component *)
    else None                                  (* RootDir or nothing *)
  end.

(* PathBuf::pop: truncate to the parent, no-op when there is none *)
Definition pop (buf : str) : str :=
  match parent buf with Some p => p | None => buf end.
Definition pop_ok (buf : str) : bool :=
  match parent buf with Some _ => true | None => false end.

(* ------------------------------------------------------------------ erg_common/lib.rs *)

Definition last_is_normal (buf : str) : bool :=
  match rev (components buf) with
  | Normal _ :: _ => true
  | _ => false
  end.

(** cheap_canonicalize_path, loop body (after the fix):
      RootDir   => ret.push(component.as_os_str())
      CurDir    => {}
      ParentDir => if matches!(ret.components().next_back(), Some(Component::Normal(_))) { ret.pop(); }
                   else if !ret.has_root() { ret.push(component.as_os_str()); }
      Normal(c) => ret.push(c)                                                               *)
Definition canon_step (ret : str) (c : comp) : str :=
  match c with
  | Root => push ret (os_str Root)
  | Cur => ret
  | Parent =>
    if last_is_normal ret then pop ret
    else if has_root ret then ret
    else push ret (os_str Parent)
  | Normal s => push ret s
  end.

(* `ret` starts as PathBuf::new() since there is no Prefix component *)
Definition cheap_canon (p : str) : str := fold_left canon_step (components p) [].

(** the loop body before the fix:  ParentDir => { ret.pop(); }  — pops on an empty buffer or on
    a buffer that ends in "..", losing the component *)
Definition canon_step_nofix (ret : str) (c : comp) : str :=
  match c with
  | Root => push ret (os_str Root)
  | Cur => ret
  | Parent => pop ret
  | Normal s => push ret s
  end.
Definition cheap_canon_nofix (p : str) : str := fold_left canon_step_nofix (components p) [].

(** str::replace("\\\\?\\", "") : leftmost non-overlapping occurrences of the 4 characters  \\?\  *)
Definition starts_verbatim (s : str) : bool :=
  match s with
  | a :: b :: c :: d :: _ => (a =? 92) && (b =? 92) && (c =? 63) && (d =? 92)
  | _ => false
  end.

Fixpoint replace_verbatim (s : str) : str :=
  match s with
  | [] => []
  | a :: t =>
    match t with
    | _ :: _ :: _ :: r => if starts_verbatim s then replace_verbatim r else a :: replace_verbatim t
    | _ => a :: replace_verbatim t
    end
  end.

(** str::to_lowercase restricted to ASCII (the model is faithful for code points < 128 only) *)
Definition lower_char (c : Z) : Z := if (65 <=? c) && (c <=? 90) then c + 32 else c.
Definition to_lower (s : str) : str := map lower_char s.

(** normalize_path; [cs] is erg_common::consts::CASE_SENSITIVE (fixed by build.rs from the build
    environment: true on Linux, false on Windows, probed on macOS) *)
Definition normalize_path (cs : bool) (p : str) : str :=
  let verbatim_replaced := replace_verbatim p in
  if negb cs then to_lower verbatim_replaced else verbatim_replaced.

(** NormalizedPathBuf::new *)
Definition norm (cs : bool) (p : str) : str := normalize_path cs (cheap_canon p).
Definition norm_nofix (cs : bool) (p : str) : str := normalize_path cs (cheap_canon_nofix p).

(** derived PartialEq of NormalizedPathBuf(PathBuf): "the same module" *)
Definition same_module (cs : bool) (p q : str) : bool := path_eqb (norm cs p) (norm cs q).
