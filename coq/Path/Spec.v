(** C31 — the reference: which file does a path name?
    A directory is the list of names from the root ([] is the root itself).  A path is resolved
    component by component from the current directory [cwd]; symbolic links are ignored
    (the code under study never looks at the file system), and ".." at the root stays at the
    root, as the OS does.  On a case-insensitive file system ([cs = false]) names that differ only
    in (ASCII) case are the same file, so names are compared after case folding. *)
From Coq Require Import ZArith List Bool Arith.
From ErgV Require Import Path.Model.
Import ListNotations.
Open Scope Z_scope.

Definition name := str.

Definition walk1 (d : list name) (c : comp) : list name :=
  match c with
  | Root => []
  | Cur => d
  | Parent => removelast d
  | Normal s => d ++ [s]
  end.

Definition walk (d : list name) (cs : list comp) : list name := fold_left walk1 cs d.

Definition fold_name (cs : bool) (n : name) : name := if cs then n else to_lower n.

(** the file (as a list of names from the root) that path [p] denotes in directory [cwd] *)
Definition resolve (cs : bool) (cwd : list name) (p : str) : list name :=
  map (fold_name cs) (walk cwd (components p)).

(** number of leading ".." components *)
Fixpoint leading_parents (l : list comp) : nat :=
  match l with
  | Parent :: r => S (leading_parents r)
  | _ => O
  end.

(** shape of a normal form: an optional root, then only "..", then only names;
    no ".." after the root *)
Definition is_parent (c : comp) : bool := match c with Parent => true | _ => false end.
Definition is_normal (c : comp) : bool := match c with Normal _ => true | _ => false end.
Fixpoint parents_then_normals (l : list comp) : bool :=
  match l with
  | Parent :: r => parents_then_normals r
  | _ => forallb is_normal l
  end.
Definition normal_shape (l : list comp) : bool :=
  match l with
  | Root :: r => forallb is_normal r
  | _ => parents_then_normals l
  end.

(** The known failing class (see known/C31.json): normalize_path deletes every occurrence of the
    Windows verbatim marker  \\?\  also on Unix, where these four characters are ordinary
    file-name characters.  [Known_C31 p] = the path contains the marker. *)
Fixpoint Known_C31 (p : str) : bool :=
  match p with
  | [] => false
  | _ :: r => starts_verbatim p || Known_C31 r
  end.

(* ------------------------------------------------------------------ executable judges *)

Fixpoint names_eqb (a b : list name) : bool :=
  match a, b with
  | [], [] => true
  | x :: a', y :: b' => str_eqb x y && names_eqb a' b'
  | _, _ => false
  end.

Definition same_file (cs : bool) (cwds : list (list name)) (p q : str) : bool :=
  forallb (fun cwd => names_eqb (resolve cs cwd p) (resolve cs cwd q)) cwds.

(** [np], [nq] are the normal forms the implementation produced for [p], [q]:
    if it treats them as the same module they must be the same file from every directory tried *)
Definition judge_pair (cs : bool) (cwds : list (list name)) (p q np nq : str) : bool :=
  if path_eqb np nq then same_file cs cwds p q else true.

(** [np] = implementation's normal form of [p], [nnp] = its normal form of [np] *)
Definition judge_idem (np nnp : str) : bool := str_eqb np nnp.

(** leading ".." of a relative path are kept *)
Definition judge_parents (p np : str) : bool :=
  has_root p || (leading_parents (components p) <=? leading_parents (components np))%nat.

(** the normal form denotes the same file as the path *)
Definition judge_same (cs : bool) (cwds : list (list name)) (p np : str) : bool :=
  same_file cs cwds p np.

(** readable path literals for examples: [path "../a"] *)
From Coq Require Import String Ascii.
Definition path (x : string) : str := map (fun c => Z.of_nat (nat_of_ascii c)) (list_ascii_of_string x).
