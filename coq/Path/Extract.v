(** extraction entry point for the C31 correspondence check and judges *)
From Coq Require Import ZArith List Bool Arith.
(* fully qualified names, and a space before the final period: lib/vplib.py finds the .vo files this file
   needs by scanning for the qualified module names *)
Require Import ErgV.Common.Sx ErgV.Path.Model ErgV.Path.Spec .
Import ListNotations.
Open Scope Z_scope.

Definition enc_comp (c : comp) : sx :=
  match c with
  | Root => SL [SZ 0]
  | Cur => SL [SZ 1]
  | Parent => SL [SZ 2]
  | Normal s => SL [SZ 3; sx_of_zs s]
  end.
Definition enc_comps (l : list comp) : sx := SL (map enc_comp l).

(* observation of NormalizedPathBuf::new on one path, same layout as harness/path mode 0 *)
Definition observe (canon : str -> str) (cs : bool) (p : str) : sx :=
  let n := normalize_path cs (canon p) in
  SL [sx_bool cs; enc_comps (components p); sx_of_zs (canon p); sx_of_zs n; enc_comps (components n);
      sx_of_zs (normalize_path cs (canon n)); sx_of_zs (normalize_path cs p)].

Fixpoint run_ops (buf : str) (ops : list sx) : list sx :=
  match ops with
  | [] => []
  | o :: r =>
    let k := sx_z (sx_nth o 0) in
    let buf' := if k =? 0 then push buf (sx_zs (sx_nth o 1)) else pop buf in
    let popped := if k =? 0 then false else pop_ok buf in
    SL [sx_of_zs buf'; sx_bool popped] :: run_ops buf' r
  end.

Definition dec_cwds (x : sx) : list (list name) := map (fun d => map sx_zs (sx_l d)) (sx_l x).

(** modes
    (0 cs path)            observation of the model of the current code
    (1 cs p q)             (same_module same_module)
    (2 start ops)          PathBuf push/pop trace
    (3 path)               norm false path   (the case-insensitive arm)
    (4 cs cwds p q np nq)  judge_pair
    (5 np nnp)             judge_idem
    (6 p np)               judge_parents
    (7 p)                  Known_C31
    (8 cs path)            observation of the model of the code before the fix (regression classifier)
    (9 cs cwds p np)       judge_same *)
Definition run (x : sx) : sx :=
  let mode := sx_z (sx_nth x 0) in
  if mode =? 0 then observe cheap_canon (sx_to_bool (sx_nth x 1)) (sx_zs (sx_nth x 2))
  else if mode =? 1 then
    let b := same_module (sx_to_bool (sx_nth x 1)) (sx_zs (sx_nth x 2)) (sx_zs (sx_nth x 3)) in
    SL [sx_bool b; sx_bool b]
  else if mode =? 2 then SL (run_ops (sx_zs (sx_nth x 1)) (sx_l (sx_nth x 2)))
  else if mode =? 3 then sx_of_zs (norm false (sx_zs (sx_nth x 1)))
  else if mode =? 4 then
    sx_bool (judge_pair (sx_to_bool (sx_nth x 1)) (dec_cwds (sx_nth x 2)) (sx_zs (sx_nth x 3)) (sx_zs (sx_nth x 4))
                        (sx_zs (sx_nth x 5)) (sx_zs (sx_nth x 6)))
  else if mode =? 5 then sx_bool (judge_idem (sx_zs (sx_nth x 1)) (sx_zs (sx_nth x 2)))
  else if mode =? 6 then sx_bool (judge_parents (sx_zs (sx_nth x 1)) (sx_zs (sx_nth x 2)))
  else if mode =? 7 then sx_bool (Known_C31 (sx_zs (sx_nth x 1)))
  else if mode =? 8 then observe cheap_canon_nofix (sx_to_bool (sx_nth x 1)) (sx_zs (sx_nth x 2))
  else sx_bool (judge_same (sx_to_bool (sx_nth x 1)) (dec_cwds (sx_nth x 2)) (sx_zs (sx_nth x 3)) (sx_zs (sx_nth x 4))).

Require Extraction.
Require Import ExtrOcamlBasic.
Extraction Language OCaml.
Extraction "model.ml" run.
