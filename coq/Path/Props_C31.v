(** C31 — module path normalisation identifies only identical files.
    Property theorems (statements only; proofs are in Proofs.v).

    [norm cs p] is the model of NormalizedPathBuf::new (Model.v) for the path string [p], [cs] is
    erg_common::consts::CASE_SENSITIVE; every theorem holds for both values of [cs] and for paths
    of any length.  [resolve cs cwd p] (Spec.v) is the file [p] names from directory [cwd]
    (".." at the root stays at the root; symbolic links ignored; names compared up to ASCII case
    when [cs = false]); the theorems hold for EVERY [cwd], whatever its depth.
    [Known_C31 p] is the known failing class (known/C31.json): the path contains the Windows
    verbatim marker  \\?\ , which normalize_path deletes on every platform. *)
From Coq Require Import ZArith List Bool String.
From ErgV Require Import Path.Model Path.Spec Path.Proofs.
Import ListNotations.
Open Scope Z_scope.
Open Scope string_scope.

(** 1. normalisation is idempotent (as strings, hence as NormalizedPathBuf values) *)
Theorem norm_idem : forall cs p,
  Known_C31 p = false -> norm cs (norm cs p) = norm cs p.
Proof. exact norm_idem_proof. Qed.

Example norm_idem_ex :
  Known_C31 (path "a/../../B//./c/") = false /\
  norm true (path "a/../../B//./c/") = path "../B/c" /\
  norm false (path "a/../../B//./c/") = path "../b/c" /\
  norm true (path "/../x/./y/../../..") = path "/".
Proof. vm_compute. repeat split. Qed.

(** 2. the normal form names the same file as the path, from every directory *)
Theorem norm_preserves_file : forall cs p cwd,
  Known_C31 p = false -> resolve cs cwd (norm cs p) = resolve cs cwd p.
Proof. exact norm_preserves_file_proof. Qed.

(** 3. two paths are the same module (NormalizedPathBuf ==, i.e. PathBuf ==, i.e. equal component
       lists of the normal forms) only if they are the same file, from every directory *)
Theorem norm_sound : forall cs p q,
  Known_C31 p = false -> Known_C31 q = false ->
  components (norm cs p) = components (norm cs q) ->
  forall cwd, resolve cs cwd p = resolve cs cwd q.
Proof. exact norm_sound_proof. Qed.

(** the same with equality of the normal-form strings as the hypothesis *)
Corollary norm_sound_str : forall cs p q,
  Known_C31 p = false -> Known_C31 q = false ->
  norm cs p = norm cs q ->
  forall cwd, resolve cs cwd p = resolve cs cwd q.
Proof. intros cs p q Hp Hq E. apply norm_sound_proof; [exact Hp|exact Hq|rewrite E; reflexivity]. Qed.

(** the same for the executable equality the harness observes *)
Theorem same_module_same_file : forall cs p q,
  Known_C31 p = false -> Known_C31 q = false ->
  same_module cs p q = true ->
  forall cwd, resolve cs cwd p = resolve cs cwd q.
Proof. exact same_module_same_file_proof. Qed.

Example norm_sound_ex :
  let p := path "x/../../a" in let q := path ".././a/" in
  p <> q /\ Known_C31 p = false /\ Known_C31 q = false /\ same_module true p q = true /\
  resolve true [path "u"; path "v"] p = [path "u"; path "a"] /\
  (* the hypothesis is not always true: different files are different modules *)
  same_module true (path "../a") (path "a") = false /\
  same_module true (path "a") (path "A") = false /\ same_module false (path "a") (path "A") = true.
Proof. vm_compute. repeat split; try reflexivity; discriminate. Qed.

(** 4. leading ".." components of a relative path are never discarded *)
Theorem norm_keeps_leading_parents : forall cs p,
  Known_C31 p = false -> has_root p = false ->
  (leading_parents (components p) <= leading_parents (components (norm cs p)))%nat.
Proof. exact norm_keeps_leading_parents_proof. Qed.

Example norm_keeps_leading_parents_ex :
  has_root (path "../../a/../..") = false /\
  leading_parents (components (path "../../a/../..")) = 2%nat /\
  norm true (path "../../a/../..") = path "../../..".
Proof. vm_compute. repeat split. Qed.

(** 5. shape of normal forms: optional root, then only "..", then only names; no ".." after a root *)
Theorem norm_shape : forall cs p,
  Known_C31 p = false -> normal_shape (components (norm cs p)) = true.
Proof. exact norm_shape_proof. Qed.

(* ------------------------------------------------------------------ documented failures *)

(** Before the fix (known/C31.json, status fixed) cheap_canonicalize_path popped on an empty
    buffer: [norm_nofix] is the model of that code.  "../a" and "a" were the same module. *)
Theorem norm_nofix_sound_refuted :
  exists p q cwd, Known_C31 p = false /\ Known_C31 q = false /\
    norm_nofix true p = norm_nofix true q /\ resolve true cwd p <> resolve true cwd q.
Proof.
  exists (path "../a"), (path "a"), [path "d"]. vm_compute. repeat split; try reflexivity; discriminate.
Qed.

Theorem norm_nofix_keeps_leading_parents_refuted :
  exists p, Known_C31 p = false /\ has_root p = false /\
    (leading_parents (components (norm_nofix true p)) < leading_parents (components p))%nat.
Proof. exists (path "../a"). vm_compute. repeat split; auto. Qed.

(** The known failing class (status finding): without the guard [Known_C31 p = false] the
    statements are false of the faithful model, because  \\?\  is deleted from file names. *)
Theorem norm_idem_known_refuted :
  exists p, Known_C31 p = true /\ norm true (norm true p) <> norm true p.
Proof. exists (path "\\\\?\?\"). vm_compute. split; [reflexivity|discriminate]. Qed.

Theorem norm_sound_known_refuted :
  exists p q cwd, Known_C31 p = true /\ Known_C31 q = false /\
    norm true p = norm true q /\ resolve true cwd p <> resolve true cwd q.
Proof.
  exists (path "\\?\a"), (path "a"), []. vm_compute. repeat split; try reflexivity; discriminate.
Qed.
