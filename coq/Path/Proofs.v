(** C31 — proofs about the path normalisation model (Model.v) against the reference (Spec.v).
    Plan: the buffer of cheap_canonicalize_path is always [render r st] for an abstract state
    (rooted?, stack of pieces); push/pop on such strings are push/pop on the stack
    ([push_render], [pop_render]), [components] reads the stack back ([components_render]), so the
    loop is simulated by [astep] ([fold_sim]).  The stack is always  ".."^k ++ names  with k = 0
    when rooted ([canonical]), which makes normal forms fixed points ([afold_render]) and lets the
    reference walk be simulated on the stack ([aapply_step]). *)
From Coq Require Import ZArith List Bool Arith Lia.
From ErgV Require Import Path.Model Path.Spec.
Import ListNotations.
Open Scope Z_scope.

(* ------------------------------------------------------------------ strings *)
Lemma str_eqb_spec : forall a b, str_eqb a b = true <-> a = b.
Proof.
  induction a as [|x a IH]; destruct b as [|y b]; simpl; split; intro H; try congruence; try discriminate.
  - apply andb_true_iff in H as [H1 H2]. apply Z.eqb_eq in H1. apply IH in H2. congruence.
  - inversion H; subst. rewrite Z.eqb_refl. simpl. apply IH. reflexivity.
Qed.

Lemma str_eqb_refl : forall a, str_eqb a a = true.
Proof. intro a. apply str_eqb_spec. reflexivity. Qed.

Lemma str_eqb_neq : forall a b, a <> b -> str_eqb a b = false.
Proof.
  intros a b H. destruct (str_eqb a b) eqn:E; [|reflexivity].
  apply str_eqb_spec in E. contradiction.
Qed.

Lemma str_eqb_false : forall a b, str_eqb a b = false -> a <> b.
Proof. intros a b H E. subst. rewrite str_eqb_refl in H. discriminate. Qed.

Definition sepfree (s : str) : bool := forallb (fun c => negb (is_sep c)) s.

(** a piece that [components] turns into a component: no separator inside, not empty, not "." *)
Definition valid_seg (x : str) : Prop := sepfree x = true /\ x <> [] /\ x <> dot.

Definition tocomp (x : str) : comp := if str_eqb x dotdot then Parent else Normal x.

Lemma sepfree_app : forall a b, sepfree (a ++ b) = sepfree a && sepfree b.
Proof. intros. unfold sepfree. apply forallb_app. Qed.

Lemma split_nonempty : forall s, split_sep s <> [].
Proof.
  induction s as [|c r IH]; simpl; [discriminate|].
  destruct (is_sep c); [discriminate|]. destruct (split_sep r); discriminate.
Qed.

Lemma split_sepfree_id : forall x, sepfree x = true -> split_sep x = [x].
Proof.
  induction x as [|c r IH]; simpl; intro H; [reflexivity|].
  apply andb_true_iff in H as [H1 H2]. apply negb_true_iff in H1. rewrite H1.
  rewrite (IH H2). reflexivity.
Qed.

Lemma split_app_sep : forall x r, sepfree x = true -> split_sep (x ++ 47 :: r) = x :: split_sep r.
Proof.
  induction x as [|c x IH]; intros r H; simpl.
  - reflexivity.
  - simpl in H. apply andb_true_iff in H as [H1 H2]. apply negb_true_iff in H1. rewrite H1.
    rewrite (IH r H2). reflexivity.
Qed.

Lemma split_join : forall segs, Forall (fun x => sepfree x = true) segs -> segs <> [] ->
  split_sep (join segs) = segs.
Proof.
  induction segs as [|x t IH]; intros HF HN; [congruence|].
  inversion HF as [|? ? Hx Ht]; subst.
  destruct t as [|y t'].
  - simpl. apply split_sepfree_id; assumption.
  - change (join (x :: y :: t')) with (x ++ SEP :: join (y :: t')). unfold SEP.
    rewrite split_app_sep by assumption. rewrite IH; [reflexivity|assumption|discriminate].
Qed.

Lemma split_all_sepfree : forall s, Forall (fun x => sepfree x = true) (split_sep s).
Proof.
  induction s as [|c r IH]; simpl.
  - constructor; [reflexivity|constructor].
  - destruct (is_sep c) eqn:E.
    + constructor; [reflexivity|assumption].
    + destruct (split_sep r) as [|x xs]; [constructor; [simpl; rewrite E; reflexivity|constructor]|].
      inversion IH; subst. constructor; [|assumption]. simpl. rewrite E. simpl. assumption.
Qed.

Lemma join_split : forall s, join (split_sep s) = s.
Proof.
  induction s as [|c r IH]; simpl; [reflexivity|].
  destruct (is_sep c) eqn:E.
  - apply Z.eqb_eq in E. subst c.
    pose proof (split_nonempty r) as HN. destruct (split_sep r) as [|x xs] eqn:ES; [congruence|].
    change (join ([] :: x :: xs)) with ([] ++ SEP :: join (x :: xs)). rewrite IH. reflexivity.
  - pose proof (split_nonempty r) as HN. destruct (split_sep r) as [|x xs] eqn:ES; [congruence|].
    destruct xs as [|y ys].
    + simpl in *. congruence.
    + change (join ((c :: x) :: y :: ys)) with (c :: (x ++ SEP :: join (y :: ys))).
      change (join (x :: y :: ys)) with (x ++ SEP :: join (y :: ys)) in IH. congruence.
Qed.

Lemma join_snoc : forall st x, st <> [] -> join (st ++ [x]) = join st ++ SEP :: x.
Proof.
  induction st as [|a t IH]; intros x HN; [congruence|].
  destruct t as [|b t'].
  - reflexivity.
  - change ((a :: b :: t') ++ [x]) with (a :: ((b :: t') ++ [x])).
    change (join (a :: (b :: t') ++ [x])) with (a ++ SEP :: join ((b :: t') ++ [x])).
    rewrite IH by discriminate.
    change (join (a :: b :: t')) with (a ++ SEP :: join (b :: t')).
    rewrite <- app_assoc. reflexivity.
Qed.

(* ------------------------------------------------------------------ parse_single *)
Lemma parse_single_valid : forall x, valid_seg x -> parse_single x = Some (tocomp x).
Proof.
  intros x (Hs & Hn & Hd). unfold parse_single, tocomp.
  rewrite (str_eqb_neq x []) by assumption. rewrite (str_eqb_neq x dot) by assumption.
  destruct (str_eqb x dotdot); reflexivity.
Qed.

Lemma parse_single_some : forall x c, parse_single x = Some c -> x <> [] /\ x <> dot /\ c = tocomp x.
Proof.
  intros x c. unfold parse_single, tocomp.
  destruct (str_eqb x []) eqn:E1; [discriminate|].
  destruct (str_eqb x dot) eqn:E2; [discriminate|].
  apply str_eqb_false in E1. apply str_eqb_false in E2.
  destruct (str_eqb x dotdot); intro H; inversion H; auto.
Qed.

Lemma is_none_seg_valid : forall x, valid_seg x -> is_none_seg x = false.
Proof. intros x H. unfold is_none_seg. rewrite parse_single_valid by assumption. reflexivity. Qed.

Lemma body_comps_valid : forall st, Forall valid_seg st -> st <> [] ->
  body_comps (join st) = map tocomp st.
Proof.
  intros st HF HN. unfold body_comps. rewrite split_join; [| |assumption].
  - induction HF as [|x t Hx Ht IH]; [congruence|].
    simpl. rewrite parse_single_valid by assumption. simpl. f_equal.
    destruct t; [reflexivity|]. apply IH. discriminate.
  - eapply Forall_impl; [|exact HF]. intros a (H & _). exact H.
Qed.

Lemma body_comps_nil : body_comps [] = [].
Proof. reflexivity. Qed.

(** abstract view of the buffer: rooted?, stack of pieces *)
Definition render (r : bool) (st : list str) : str := (if r then [47] else []) ++ join st.

Lemma snoc_cases : forall (A : Type) (l : list A), l = [] \/ exists t x, l = t ++ [x].
Proof.
  intros A l. destruct l as [|a l']; [left; reflexivity|right].
  destruct (exists_last (l := a :: l')) as (t & x & E); [discriminate|]. eauto.
Qed.

Lemma valid_first : forall x, valid_seg x -> exists c x', x = c :: x' /\ is_sep c = false /\ sepfree x' = true.
Proof.
  intros x (Hs & Hn & _). destruct x as [|c x']; [congruence|].
  simpl in Hs. apply andb_true_iff in Hs as [H1 H2]. apply negb_true_iff in H1. eauto.
Qed.

Lemma join_cons_shape : forall x t, exists rest, join (x :: t) = x ++ rest /\ (rest = [] \/ exists u, rest = 47 :: u).
Proof.
  intros x t. destruct t as [|y t'].
  - exists []. simpl. rewrite app_nil_r. auto.
  - exists (SEP :: join (y :: t')). split; [reflexivity|]. right. eauto.
Qed.

Lemma has_root_join : forall st, Forall valid_seg st -> has_root (join st) = false.
Proof.
  intros st HF. destruct st as [|x t]; [reflexivity|].
  inversion HF as [|? ? Hx Ht]; subst.
  destruct (valid_first x Hx) as (c & x' & E & Hc & _). subst x.
  destruct (join_cons_shape (c :: x') t) as (rest & E & _). rewrite E. simpl. exact Hc.
Qed.

Lemma has_root_render : forall r st, Forall valid_seg st -> has_root (render r st) = r.
Proof.
  intros r st HF. unfold render. destruct r; [reflexivity|]. simpl. apply has_root_join; assumption.
Qed.

Lemma include_cur_dir_join : forall st, Forall valid_seg st -> include_cur_dir (join st) = false.
Proof.
  intros st HF. unfold include_cur_dir. rewrite has_root_join by assumption.
  destruct st as [|x t]; [reflexivity|].
  inversion HF as [|? ? Hx Ht]; subst.
  destruct (valid_first x Hx) as (c & x' & E & Hc & Hx'). subst x.
  destruct (join_cons_shape (c :: x') t) as (rest & E & Hrest). rewrite E.
  destruct (c =? 46) eqn:Ec.
  - apply Z.eqb_eq in Ec. subst c. destruct x' as [|b x''].
    + destruct Hx as (_ & _ & Hd). exfalso. apply Hd. reflexivity.
    + simpl in Hx'. apply andb_true_iff in Hx' as [Hb _]. apply negb_true_iff in Hb.
      simpl. rewrite Hb. reflexivity.
  - simpl. destruct (x' ++ rest); simpl; rewrite Ec; reflexivity.
Qed.

Lemma components_render : forall r st, Forall valid_seg st ->
  components (render r st) = (if r then [Root] else []) ++ map tocomp st.
Proof.
  intros r st HF. unfold components. rewrite has_root_render by assumption.
  destruct r.
  - unfold render. simpl. f_equal. destruct st as [|x t]; [reflexivity|].
    apply body_comps_valid; [assumption|discriminate].
  - unfold render. simpl. rewrite include_cur_dir_join by assumption.
    destruct st as [|x t]; [reflexivity|]. apply body_comps_valid; [assumption|discriminate].
Qed.

Lemma join_last_char : forall st, Forall valid_seg st -> st <> [] ->
  exists s c, join st = s ++ [c] /\ is_sep c = false.
Proof.
  intros st HF HN. destruct (snoc_cases _ st) as [E|(t & y & E)]; [congruence|]. subst st.
  apply Forall_app in HF as [Ht Hy]. inversion Hy as [|? ? Hy' _]; subst.
  destruct Hy' as (Hs & Hn & _).
  destruct (snoc_cases _ y) as [E|(y0 & c & E)]; [congruence|]. subst y.
  rewrite sepfree_app in Hs. apply andb_true_iff in Hs as [_ Hc]. simpl in Hc.
  rewrite andb_true_r in Hc. apply negb_true_iff in Hc.
  destruct t as [|a t'].
  - exists y0, c. simpl. auto.
  - rewrite join_snoc by discriminate. exists (join (a :: t') ++ SEP :: y0), c.
    rewrite <- app_assoc. simpl. auto.
Qed.

Lemma valid_not_rooted : forall x, valid_seg x -> has_root x = false.
Proof. intros x H. destruct (valid_first x H) as (c & x' & E & Hc & _). subst. exact Hc. Qed.

Lemma push_render : forall r st x, Forall valid_seg st -> valid_seg x ->
  push (render r st) x = render r (st ++ [x]).
Proof.
  intros r st x HF Hx. unfold push. rewrite valid_not_rooted by assumption.
  destruct st as [|a t].
  - destruct r; reflexivity.
  - destruct (join_last_char (a :: t) HF) as (s & c & E & Hc); [discriminate|].
    assert (HB : render r (a :: t) = ((if r then [47] else []) ++ s) ++ [c]).
    { unfold render. rewrite E. apply app_assoc. }
    destruct (rev (render r (a :: t))) as [|c' l'] eqn:ER.
    + rewrite HB in ER. rewrite rev_app_distr in ER. discriminate.
    + rewrite HB in ER. rewrite rev_app_distr in ER. simpl in ER. inversion ER; subst c'.
      rewrite Hc. unfold render. rewrite join_snoc by discriminate.
      rewrite <- app_assoc. reflexivity.
Qed.

Lemma push_root : forall buf, push buf [47] = render true [].
Proof. reflexivity. Qed.

Lemma drop_none_valid : forall l, Forall valid_seg l -> drop_none l = l.
Proof.
  intros l HF. destruct l as [|x t]; [reflexivity|]. inversion HF; subst.
  simpl. rewrite is_none_seg_valid by assumption. reflexivity.
Qed.

Lemma valid_sepfree_all : forall st, Forall valid_seg st -> Forall (fun x => sepfree x = true) st.
Proof. intros st HF. eapply Forall_impl; [|exact HF]. intros a (H & _). exact H. Qed.

Lemma parent_render : forall r st x, Forall valid_seg st -> valid_seg x ->
  parent (render r (st ++ [x])) = Some (render r st).
Proof.
  intros r st x HF Hx.
  assert (HF' : Forall valid_seg (st ++ [x])) by (apply Forall_app; split; [assumption|constructor; [assumption|constructor]]).
  unfold parent. rewrite has_root_render by assumption.
  assert (Hbody : skipn (if r then 1%nat else if include_cur_dir (render r (st ++ [x])) then 1%nat else 0%nat)
                    (render r (st ++ [x])) = join (st ++ [x]) /\
                  firstn (if r then 1%nat else if include_cur_dir (render r (st ++ [x])) then 1%nat else 0%nat)
                    (render r (st ++ [x])) = (if r then [47] else [])).
  { destruct r; [split; reflexivity|]. unfold render. simpl.
    rewrite include_cur_dir_join by assumption. split; reflexivity. }
  destruct Hbody as [Hb Hp]. rewrite Hb, Hp.
  rewrite split_join; [|apply valid_sepfree_all; assumption|destruct st; discriminate].
  rewrite rev_app_distr. simpl. rewrite is_none_seg_valid by assumption.
  rewrite drop_none_valid by (apply Forall_rev; assumption).
  rewrite rev_involutive. reflexivity.
Qed.

Lemma pop_render : forall r st x, Forall valid_seg st -> valid_seg x ->
  pop (render r (st ++ [x])) = render r st.
Proof. intros. unfold pop. rewrite parent_render by assumption. reflexivity. Qed.

Lemma tocomp_normal : forall x, x <> dotdot -> tocomp x = Normal x.
Proof. intros x H. unfold tocomp. rewrite str_eqb_neq by assumption. reflexivity. Qed.

Lemma tocomp_dotdot : tocomp dotdot = Parent.
Proof. reflexivity. Qed.

Lemma last_is_normal_render : forall r st, Forall valid_seg st ->
  last_is_normal (render r st) =
  match rev st with x :: _ => negb (str_eqb x dotdot) | [] => false end.
Proof.
  intros r st HF. unfold last_is_normal. rewrite components_render by assumption.
  rewrite rev_app_distr. rewrite <- map_rev.
  destruct (rev st) as [|x t]; simpl.
  - destruct r; reflexivity.
  - unfold tocomp. destruct (str_eqb x dotdot); reflexivity.
Qed.

Lemma valid_dotdot : valid_seg dotdot.
Proof. repeat split; discriminate. Qed.

(* ------------------------------------------------------------------ abstract step *)
Definition astate := (bool * list str)%type.

Definition astep (S : astate) (c : comp) : astate :=
  let (r, st) := S in
  match c with
  | Root => (true, [])
  | Cur => S
  | Parent =>
    match rev st with
    | x :: t => if str_eqb x dotdot then (if r then S else (r, st ++ [dotdot])) else (r, rev t)
    | [] => if r then S else (r, [dotdot])
    end
  | Normal s => (r, st ++ [s])
  end.

Definition arender (S : astate) : str := render (fst S) (snd S).

Definition valid_comp (c : comp) : Prop :=
  match c with Normal s => valid_seg s /\ s <> dotdot | _ => True end.

Lemma rev_eq_cons : forall (A : Type) (l : list A) x t, rev l = x :: t -> l = rev t ++ [x].
Proof. intros A l x t H. rewrite <- (rev_involutive l). rewrite H. reflexivity. Qed.

Lemma astep_valid : forall r st c, Forall valid_seg st -> valid_comp c ->
  Forall valid_seg (snd (astep (r, st) c)).
Proof.
  intros r st c HF Hc. destruct c; simpl.
  - constructor.
  - assumption.
  - destruct (rev st) as [|x t] eqn:E.
    + destruct r; simpl; [assumption|]. constructor; [apply valid_dotdot|constructor].
    + apply rev_eq_cons in E. subst st. apply Forall_app in HF as [Ht Hx].
      destruct (str_eqb x dotdot).
      * destruct r; simpl.
        -- apply Forall_app; split; assumption.
        -- apply Forall_app; split; [|constructor; [apply valid_dotdot|constructor]].
           apply Forall_app; split; assumption.
      * simpl. assumption.
  - simpl in Hc. destruct Hc as [Hs _]. apply Forall_app; split; [assumption|constructor; [assumption|constructor]].
Qed.

Lemma rev_eq_nil : forall (A : Type) (l : list A), rev l = [] -> l = [].
Proof. intros A l H. rewrite <- (rev_involutive l). rewrite H. reflexivity. Qed.

Lemma canon_step_sim : forall r st c, Forall valid_seg st -> valid_comp c ->
  canon_step (render r st) c = arender (astep (r, st) c).
Proof.
  intros r st c HF Hc. destruct c; simpl.
  - reflexivity.
  - reflexivity.
  - rewrite last_is_normal_render by assumption. rewrite has_root_render by assumption.
    destruct (rev st) as [|x t] eqn:E.
    + destruct r; [reflexivity|]. apply rev_eq_nil in E. subst st.
      unfold arender. simpl. change dotdot with (os_str Parent). reflexivity.
    + apply rev_eq_cons in E. subst st. apply Forall_app in HF as [Ht Hx].
      inversion Hx as [|? ? Hx' _]; subst.
      destruct (str_eqb x dotdot) eqn:Ex; simpl.
      * destruct r; [reflexivity|]. unfold arender. simpl.
        apply push_render; [apply Forall_app; split; assumption|apply valid_dotdot].
      * unfold arender. simpl. apply pop_render; assumption.
  - destruct Hc as [Hs _]. unfold arender. simpl. apply push_render; assumption.
Qed.

Lemma fold_sim : forall cs r st, Forall valid_seg st -> Forall valid_comp cs ->
  fold_left canon_step cs (render r st) = arender (fold_left astep cs (r, st)).
Proof.
  induction cs as [|c cs IH]; intros r st HF HC; [reflexivity|].
  inversion HC as [|? ? Hc HC']; subst. cbn [fold_left].
  rewrite canon_step_sim by assumption.
  pose proof (astep_valid r st c HF Hc) as HV.
  destruct (astep (r, st) c) as [r' st'] eqn:E. unfold arender at 1. cbn [fst snd] in *.
  apply IH; assumption.
Qed.

Lemma tocomp_valid_comp : forall x, sepfree x = true -> x <> [] -> x <> dot -> valid_comp (tocomp x).
Proof.
  intros x Hs Hn Hd. unfold tocomp. destruct (str_eqb x dotdot) eqn:E; simpl; [exact I|].
  apply str_eqb_false in E. repeat split; assumption.
Qed.

Lemma body_comps_valid_comps : forall s, Forall valid_comp (body_comps s).
Proof.
  intro s. unfold body_comps. pose proof (split_all_sepfree s) as HS.
  induction HS as [|x t Hx Ht IH]; simpl; [constructor|].
  apply Forall_app; split; [|assumption].
  destruct (parse_single x) as [c|] eqn:E; simpl; [|constructor].
  apply parse_single_some in E as (Hn & Hd & Ec). subst c.
  constructor; [|constructor]. apply tocomp_valid_comp; assumption.
Qed.

Lemma components_valid : forall p, Forall valid_comp (components p).
Proof.
  intro p. unfold components.
  destruct (has_root p); [constructor; [exact I|apply body_comps_valid_comps]|].
  destruct (include_cur_dir p); [constructor; [exact I|apply body_comps_valid_comps]|].
  apply body_comps_valid_comps.
Qed.

Definition afold (cs : list comp) : astate := fold_left astep cs (false, []).

Lemma cheap_canon_abs : forall p, cheap_canon p = arender (afold (components p)).
Proof.
  intro p. unfold cheap_canon, afold. change (@nil Z) with (render false []) at 1.
  apply fold_sim; [constructor|apply components_valid].
Qed.

(* ------------------------------------------------------------------ canonical states *)
Definition canonical (S : astate) : Prop :=
  Forall valid_seg (snd S) /\
  exists k ns, snd S = repeat dotdot k ++ ns /\ Forall (fun x => x <> dotdot) ns /\ (fst S = true -> k = 0%nat).

Lemma repeat_snoc : forall (A : Type) (x : A) n, repeat x n ++ [x] = x :: repeat x n.
Proof. induction n; simpl; [reflexivity|]. rewrite IHn. reflexivity. Qed.

Lemma canonical_init : canonical (false, []).
Proof. split; [constructor|]. exists 0%nat, []. simpl. split; [reflexivity|split; [constructor|discriminate]]. Qed.

Lemma astep_canonical : forall S c, canonical S -> valid_comp c -> canonical (astep S c).
Proof.
  intros [r st] c [HV (k & ns & E & Hns & Hr)] Hc. cbn [fst snd] in *.
  split; [apply astep_valid; assumption|].
  destruct c; cbn [astep fst snd].
  - exists 0%nat, []. split; [reflexivity|split; [constructor|reflexivity]].
  - exists k, ns. auto.
  - destruct (snoc_cases _ ns) as [En|(ns' & y & En)]; subst ns.
    + rewrite app_nil_r in E. destruct k as [|k'].
      * simpl in E. subst st. simpl. destruct r; cbn [fst snd].
        -- exists 0%nat, []. split; [reflexivity|split; [constructor|reflexivity]].
        -- exists 1%nat, []. split; [reflexivity|split; [constructor|discriminate]].
      * assert (Er : r = false) by (destruct r; [specialize (Hr eq_refl); discriminate|reflexivity]).
        subst r. subst st.
        replace (rev (repeat dotdot (S k'))) with (dotdot :: rev (repeat dotdot k')).
        2:{ change (repeat dotdot (S k')) with (dotdot :: repeat dotdot k').
            rewrite <- repeat_snoc. rewrite rev_app_distr. reflexivity. }
        cbn [str_eqb dotdot Z.eqb Pos.eqb andb fst snd].
        exists (S (S k')), []. split; [|split; [constructor|discriminate]].
        rewrite app_nil_r. rewrite repeat_snoc. reflexivity.
    + subst st. rewrite app_assoc. rewrite rev_app_distr. cbn [rev app].
      apply Forall_app in Hns as [Hns' Hy]. inversion Hy as [|? ? Hy' _]; subst.
      rewrite str_eqb_neq by assumption. rewrite rev_involutive. cbn [fst snd].
      exists k, ns'. auto.
  - destruct Hc as [_ Hd]. exists k, (ns ++ [s]). subst st. rewrite app_assoc.
    split; [reflexivity|split; [|assumption]].
    apply Forall_app; split; [assumption|constructor; [assumption|constructor]].
Qed.

Lemma fold_canonical : forall cs S, canonical S -> Forall valid_comp cs -> canonical (fold_left astep cs S).
Proof.
  induction cs as [|c cs IH]; intros S HS HC; [assumption|].
  inversion HC; subst. cbn [fold_left]. apply IH; [apply astep_canonical; assumption|assumption].
Qed.

Lemma afold_canonical : forall p, canonical (afold (components p)).
Proof. intro p. apply fold_canonical; [apply canonical_init|apply components_valid]. Qed.

(* ------------------------------------------------------------------ the verbatim marker *)
Lemma replace_verbatim_id : forall s, Known_C31 s = false -> replace_verbatim s = s.
Proof.
  induction s as [|a t IH]; intro H; [reflexivity|].
  cbn [Known_C31] in H. apply orb_false_iff in H as [H1 H2].
  cbn [replace_verbatim]. rewrite H1. rewrite (IH H2).
  destruct t as [|b [|c [|d r]]]; reflexivity.
Qed.

Lemma starts_sep_head : forall r, starts_verbatim (47 :: r) = false.
Proof. intro r. destruct r as [|b [|c [|d r']]]; reflexivity. Qed.

Lemma starts_first_seg : forall c x rest, sepfree x = true -> (rest = [] \/ exists u, rest = 47 :: u) ->
  starts_verbatim (c :: x ++ rest) = starts_verbatim (c :: x).
Proof.
  intros c x rest Hx Hrest.
  destruct x as [|a [|b [|d x']]].
  - destruct Hrest as [E|(u & E)]; subst rest; [reflexivity|].
    simpl. destruct u as [|? [|? ?]]; try reflexivity. destruct (c =? 92); reflexivity.
  - destruct Hrest as [E|(u & E)]; subst rest; [reflexivity|].
    simpl. destruct u as [|? ?]; try reflexivity. destruct (c =? 92); destruct (a =? 92); reflexivity.
  - destruct Hrest as [E|(u & E)]; subst rest; [reflexivity|].
    simpl. destruct (c =? 92); destruct (a =? 92); destruct (b =? 63); reflexivity.
  - reflexivity.
Qed.

Lemma Known_split : forall s, Known_C31 s = existsb Known_C31 (split_sep s).
Proof.
  induction s as [|c r IH]; [reflexivity|].
  cbn [Known_C31 split_sep]. destruct (is_sep c) eqn:E.
  - apply Z.eqb_eq in E. subst c. rewrite starts_sep_head. cbn [existsb Known_C31]. simpl. exact IH.
  - pose proof (split_nonempty r) as HN. pose proof (split_all_sepfree r) as HS.
    pose proof (join_split r) as HJ.
    destruct (split_sep r) as [|x xs]; [congruence|]. apply Forall_inv in HS as Hx.
    destruct (join_cons_shape x xs) as (rest & Er & Hrest). rewrite Er in HJ.
    rewrite <- HJ at 1. rewrite starts_first_seg by assumption.
    rewrite IH. cbn [existsb Known_C31]. rewrite orb_assoc. reflexivity.
Qed.

Lemma Known_tl : forall c r, Known_C31 (c :: r) = false -> Known_C31 r = false.
Proof. intros c r H. cbn [Known_C31] in H. apply orb_false_iff in H. tauto. Qed.

Definition seg_clean (x : str) : Prop := Known_C31 x = false.
Definition comp_clean (c : comp) : Prop := match c with Normal s => seg_clean s | _ => True end.

Lemma existsb_false_forall : forall (A : Type) (f : A -> bool) l, existsb f l = false -> Forall (fun x => f x = false) l.
Proof.
  induction l as [|a l IH]; intro H; [constructor|].
  simpl in H. apply orb_false_iff in H as [H1 H2]. constructor; auto.
Qed.

Lemma forall_existsb_false : forall (A : Type) (f : A -> bool) l, Forall (fun x => f x = false) l -> existsb f l = false.
Proof. induction 1; simpl; [reflexivity|]. rewrite H, IHForall. reflexivity. Qed.

Lemma body_comps_clean : forall s, Known_C31 s = false -> Forall comp_clean (body_comps s).
Proof.
  intros s H. rewrite Known_split in H. apply existsb_false_forall in H.
  unfold body_comps. induction H as [|x t Hx Ht IH]; simpl; [constructor|].
  apply Forall_app; split; [|assumption].
  destruct (parse_single x) as [c|] eqn:E; simpl; [|constructor].
  apply parse_single_some in E as (_ & _ & Ec). subst c. constructor; [|constructor].
  unfold tocomp. destruct (str_eqb x dotdot); simpl; [exact I|exact Hx].
Qed.

Lemma components_clean : forall p, Known_C31 p = false -> Forall comp_clean (components p).
Proof.
  intros p H. unfold components.
  destruct (has_root p) eqn:E1.
  - destruct p as [|c r]; [discriminate|]. constructor; [exact I|]. apply body_comps_clean. eapply Known_tl; eauto.
  - destruct (include_cur_dir p) eqn:E2.
    + destruct p as [|c r]; [discriminate|]. constructor; [exact I|]. apply body_comps_clean. eapply Known_tl; eauto.
    + apply body_comps_clean; assumption.
Qed.

Lemma astep_clean : forall r st c, Forall seg_clean st -> comp_clean c -> Forall seg_clean (snd (astep (r, st) c)).
Proof.
  intros r st c HF Hc. destruct c; cbn [astep].
  - constructor.
  - assumption.
  - destruct (rev st) as [|x t] eqn:E.
    + destruct r; cbn [snd]; [assumption|constructor; [reflexivity|constructor]].
    + apply rev_eq_cons in E. subst st. apply Forall_app in HF as [Ht Hx].
      destruct (str_eqb x dotdot); [destruct r|]; cbn [snd].
      * apply Forall_app; split; assumption.
      * apply Forall_app; split; [apply Forall_app; split; assumption|constructor; [reflexivity|constructor]].
      * assumption.
  - cbn [snd]. apply Forall_app; split; [assumption|constructor; [exact Hc|constructor]].
Qed.

Lemma fold_clean : forall cs S, Forall seg_clean (snd S) -> Forall comp_clean cs ->
  Forall seg_clean (snd (fold_left astep cs S)).
Proof.
  induction cs as [|c cs IH]; intros [r st] HS HC; [assumption|].
  inversion HC; subst. cbn [fold_left]. apply IH; [|assumption].
  destruct (astep (r, st) c) as [r' st'] eqn:E.
  pose proof (astep_clean r st c HS H1) as H. rewrite E in H. exact H.
Qed.

Lemma Known_render : forall r st, Forall valid_seg st -> Forall seg_clean st -> Known_C31 (render r st) = false.
Proof.
  intros r st HV HC.
  assert (HJ : Known_C31 (join st) = false).
  { destruct st as [|x t]; [reflexivity|]. rewrite Known_split.
    rewrite split_join; [|apply valid_sepfree_all; assumption|discriminate].
    apply forall_existsb_false. exact HC. }
  unfold render. destruct r; [|exact HJ].
  cbn [app Known_C31]. rewrite starts_sep_head. exact HJ.
Qed.

(* ------------------------------------------------------------------ lower-casing *)
Lemma lower_char_fix : forall c k, (k < 65 \/ 90 + 32 < k \/ (90 < k /\ k < 97)) -> (lower_char c =? k) = (c =? k).
Proof.
  intros c k Hk. unfold lower_char.
  destruct ((65 <=? c) && (c <=? 90)) eqn:E; [|reflexivity].
  apply andb_true_iff in E as [E1 E2]. apply Z.leb_le in E1. apply Z.leb_le in E2.
  destruct (c + 32 =? k) eqn:A; destruct (c =? k) eqn:B; try reflexivity;
    try apply Z.eqb_eq in A; try apply Z.eqb_eq in B; try apply Z.eqb_neq in A; try apply Z.eqb_neq in B; lia.
Qed.

Lemma lower_sep : forall c, is_sep (lower_char c) = is_sep c.
Proof. intro c. unfold is_sep. apply lower_char_fix. lia. Qed.

Lemma lower_char_idem : forall c, lower_char (lower_char c) = lower_char c.
Proof.
  intro c. unfold lower_char.
  destruct ((65 <=? c) && (c <=? 90)) eqn:E.
  - destruct ((65 <=? c + 32) && (c + 32 <=? 90)) eqn:F; [|reflexivity].
    apply andb_true_iff in E as [E1 E2]. apply Z.leb_le in E1. apply Z.leb_le in E2.
    apply andb_true_iff in F as [F1 F2]. apply Z.leb_le in F1. apply Z.leb_le in F2. lia.
  - rewrite E. reflexivity.
Qed.

Lemma to_lower_idem : forall s, to_lower (to_lower s) = to_lower s.
Proof. intro s. unfold to_lower. rewrite map_map. apply map_ext. apply lower_char_idem. Qed.

Lemma to_lower_join : forall st, to_lower (join st) = join (map to_lower st).
Proof.
  induction st as [|x t IH]; [reflexivity|].
  destruct t as [|y t']; [reflexivity|].
  change (join (x :: y :: t')) with (x ++ SEP :: join (y :: t')).
  change (map to_lower (x :: y :: t')) with (to_lower x :: map to_lower (y :: t')).
  unfold to_lower at 1. rewrite map_app. cbn [map]. fold (to_lower x). fold (to_lower (join (y :: t'))).
  rewrite IH. reflexivity.
Qed.

Lemma to_lower_render : forall r st, to_lower (render r st) = render r (map to_lower st).
Proof.
  intros r st. unfold render, to_lower at 1. rewrite map_app. fold (to_lower (join st)).
  rewrite to_lower_join. destruct r; reflexivity.
Qed.

Lemma sepfree_lower : forall x, sepfree (to_lower x) = sepfree x.
Proof. induction x as [|c x IH]; [reflexivity|]. simpl. rewrite lower_sep. f_equal. exact IH. Qed.

Lemma str_eqb_lower_const : forall x k, Forall (fun c => c < 65 \/ 90 + 32 < c \/ (90 < c /\ c < 97)) k ->
  str_eqb (to_lower x) k = str_eqb x k.
Proof.
  induction x as [|c x IH]; intros k Hk; destruct k as [|d k']; try reflexivity.
  inversion Hk; subst. simpl. rewrite lower_char_fix by assumption. f_equal. apply IH. assumption.
Qed.

Lemma lower_eq_dot : forall x, str_eqb (to_lower x) dot = str_eqb x dot.
Proof. intro x. apply str_eqb_lower_const. repeat constructor; lia. Qed.
Lemma lower_eq_dotdot : forall x, str_eqb (to_lower x) dotdot = str_eqb x dotdot.
Proof. intro x. apply str_eqb_lower_const. repeat constructor; lia. Qed.

Lemma valid_lower : forall x, valid_seg x -> valid_seg (to_lower x).
Proof.
  intros x (Hs & Hn & Hd). split; [rewrite sepfree_lower; assumption|]. split.
  - destruct x; [congruence|discriminate].
  - intro E. apply Hd. apply str_eqb_spec. rewrite <- lower_eq_dot. apply str_eqb_spec. exact E.
Qed.

Lemma lower_dotdot_iff : forall x, to_lower x = dotdot <-> x = dotdot.
Proof.
  intro x. rewrite <- !str_eqb_spec. rewrite lower_eq_dotdot. tauto.
Qed.

Lemma starts_lower : forall s, starts_verbatim (to_lower s) = starts_verbatim s.
Proof.
  intro s. destruct s as [|a [|b [|c [|d r]]]]; try reflexivity.
  cbn [to_lower map starts_verbatim].
  rewrite !lower_char_fix by lia. reflexivity.
Qed.

Lemma Known_lower : forall s, Known_C31 (to_lower s) = Known_C31 s.
Proof.
  induction s as [|c r IH]; [reflexivity|].
  change (to_lower (c :: r)) with (lower_char c :: to_lower r).
  cbn [Known_C31]. rewrite IH. f_equal.
  change (lower_char c :: to_lower r) with (to_lower (c :: r)). apply starts_lower.
Qed.

Lemma map_repeat' : forall (A B : Type) (f : A -> B) x n, map f (repeat x n) = repeat (f x) n.
Proof. induction n; simpl; [reflexivity|]. rewrite IHn. reflexivity. Qed.

Lemma canonical_lower : forall r st, canonical (r, st) -> canonical (r, map to_lower st).
Proof.
  intros r st [HV (k & ns & E & Hns & Hr)]. cbn [fst snd] in *. split.
  - cbn [snd]. apply Forall_forall. intros y Hy. apply in_map_iff in Hy as (x & Ex & Hx). subst y.
    apply valid_lower. rewrite Forall_forall in HV. apply HV. exact Hx.
  - exists k, (map to_lower ns). cbn [fst snd]. split; [|split; [|exact Hr]].
    + subst st. rewrite map_app. rewrite map_repeat'. reflexivity.
    + apply Forall_forall. intros y Hy. apply in_map_iff in Hy as (x & Ex & Hx). subst y.
      intro E'. apply (proj1 (lower_dotdot_iff x)) in E'. rewrite Forall_forall in Hns. exact (Hns x Hx E').
Qed.

(* ------------------------------------------------------------------ normal forms are fixed points *)
Lemma astep_parent_repeat : forall j, astep (false, repeat dotdot j) Parent = (false, repeat dotdot (S j)).
Proof.
  intro j. cbn [astep]. destruct j as [|j'].
  - reflexivity.
  - replace (rev (repeat dotdot (S j'))) with (dotdot :: rev (repeat dotdot j')).
    2:{ change (repeat dotdot (S j')) with (dotdot :: repeat dotdot j').
        rewrite <- repeat_snoc. rewrite rev_app_distr. reflexivity. }
    cbn [str_eqb dotdot Z.eqb Pos.eqb andb]. rewrite repeat_snoc. reflexivity.
Qed.

Lemma fold_parents : forall k j,
  fold_left astep (map tocomp (repeat dotdot k)) (false, repeat dotdot j) = (false, repeat dotdot (j + k)).
Proof.
  induction k as [|k IH]; intro j.
  - rewrite Nat.add_0_r. reflexivity.
  - cbn [repeat map fold_left]. rewrite tocomp_dotdot. rewrite astep_parent_repeat. rewrite IH.
    f_equal. f_equal. lia.
Qed.

Lemma fold_normals : forall ns r b, Forall (fun x => x <> dotdot) ns ->
  fold_left astep (map tocomp ns) (r, b) = (r, b ++ ns).
Proof.
  induction ns as [|x ns IH]; intros r b H; [rewrite app_nil_r; reflexivity|].
  inversion H; subst. cbn [map fold_left]. rewrite tocomp_normal by assumption.
  cbn [astep]. rewrite IH by assumption. rewrite <- app_assoc. reflexivity.
Qed.

Lemma afold_render : forall r st, canonical (r, st) -> afold (components (render r st)) = (r, st).
Proof.
  intros r st [HV (k & ns & E & Hns & Hr)]. cbn [fst snd] in *.
  rewrite components_render by assumption. unfold afold. subst st.
  destruct r.
  - rewrite (Hr eq_refl). cbn [repeat app fold_left astep]. apply (fold_normals ns true []). assumption.
  - cbn [app]. rewrite map_app. rewrite fold_left_app.
    pose proof (fold_parents k 0) as HP. cbn [repeat Nat.add] in HP. rewrite HP.
    apply fold_normals. assumption.
Qed.

(* ------------------------------------------------------------------ norm through the abstraction *)
Definition nstate (cs : bool) (S : astate) : astate :=
  (fst S, if cs then snd S else map to_lower (snd S)).

Lemma seg_clean_lower : forall st, Forall seg_clean st -> Forall seg_clean (map to_lower st).
Proof.
  intros st H. apply Forall_forall. intros y Hy. apply in_map_iff in Hy as (x & Ex & Hx). subst y.
  unfold seg_clean. rewrite Known_lower. rewrite Forall_forall in H. apply H. exact Hx.
Qed.

Lemma normalize_render : forall cs r st, Forall valid_seg st -> Forall seg_clean st ->
  normalize_path cs (render r st) = arender (nstate cs (r, st)).
Proof.
  intros cs r st HV HC. unfold normalize_path.
  rewrite replace_verbatim_id by (apply Known_render; assumption).
  unfold arender, nstate. cbn [fst snd]. destruct cs; cbn [negb]; [reflexivity|].
  apply to_lower_render.
Qed.

Definition good (S : astate) : Prop := canonical S /\ Forall seg_clean (snd S).

Lemma good_afold : forall p, Known_C31 p = false -> good (afold (components p)).
Proof.
  intros p H. split; [apply afold_canonical|].
  apply fold_clean; [constructor|apply components_clean; assumption].
Qed.

Lemma good_nstate : forall cs S, good S -> good (nstate cs S).
Proof.
  intros cs [r st] [HC HK]. unfold nstate. cbn [fst snd] in *. destruct cs; [split; assumption|].
  split; [apply canonical_lower; assumption|apply seg_clean_lower; assumption].
Qed.

Lemma norm_abs : forall cs p, Known_C31 p = false -> norm cs p = arender (nstate cs (afold (components p))).
Proof.
  intros cs p H. unfold norm. rewrite cheap_canon_abs.
  destruct (good_afold p H) as [[HV _] HK]. destruct (afold (components p)) as [r st].
  apply normalize_render; assumption.
Qed.

Lemma norm_of_good : forall cs r st, good (r, st) -> norm cs (render r st) = arender (nstate cs (r, st)).
Proof.
  intros cs r st [HC HK]. unfold norm. rewrite cheap_canon_abs. rewrite afold_render by assumption.
  destruct HC as [HV _]. apply normalize_render; assumption.
Qed.

Lemma nstate_idem : forall cs S, nstate cs (nstate cs S) = nstate cs S.
Proof.
  intros cs [r st]. unfold nstate. cbn [fst snd]. destruct cs; [reflexivity|].
  f_equal. rewrite map_map. apply map_ext. apply to_lower_idem.
Qed.

Lemma norm_idem_proof : forall cs p, Known_C31 p = false -> norm cs (norm cs p) = norm cs p.
Proof.
  intros cs p H. rewrite (norm_abs cs p H).
  pose proof (good_nstate cs _ (good_afold p H)) as HG.
  destruct (nstate cs (afold (components p))) as [r st] eqn:E.
  unfold arender at 1 2. cbn [fst snd]. rewrite norm_of_good by assumption.
  rewrite <- E. rewrite nstate_idem. rewrite E. reflexivity.
Qed.

(* ------------------------------------------------------------------ resolve *)
Definition aapply (cwd : list name) (S : astate) : list name :=
  walk (if fst S then [] else cwd) (map tocomp (snd S)).

Lemma walk_app : forall d a b, walk d (a ++ b) = walk (walk d a) b.
Proof. intros. unfold walk. apply fold_left_app. Qed.

Lemma walk_snoc : forall d a c, walk d (a ++ [c]) = walk1 (walk d a) c.
Proof. intros. rewrite walk_app. reflexivity. Qed.

Lemma canonical_rooted_no_parent : forall st, canonical (true, st) -> Forall (fun x => x <> dotdot) st.
Proof.
  intros st [_ (k & ns & E & Hns & Hr)]. cbn [fst snd] in *. rewrite (Hr eq_refl) in E. simpl in E. subst. assumption.
Qed.

Lemma aapply_step : forall cwd S c, canonical S -> valid_comp c ->
  aapply cwd (astep S c) = walk1 (aapply cwd S) c.
Proof.
  intros cwd [r st] c HC Hc. destruct c; cbn [astep].
  - reflexivity.
  - reflexivity.
  - destruct (rev st) as [|x t] eqn:E.
    + apply rev_eq_nil in E. subst st. destruct r; reflexivity.
    + apply rev_eq_cons in E. subst st. destruct (str_eqb x dotdot) eqn:Ex.
      * apply str_eqb_spec in Ex. subst x. destruct r.
        -- apply canonical_rooted_no_parent in HC. apply Forall_app in HC as [_ HC].
           inversion HC; subst. congruence.
        -- unfold aapply. cbn [fst snd]. rewrite (map_app tocomp (rev t ++ [dotdot])). cbn [map].
           rewrite walk_snoc. reflexivity.
      * apply str_eqb_false in Ex. unfold aapply. cbn [fst snd]. rewrite map_app. cbn [map]. rewrite walk_snoc.
        rewrite tocomp_normal by assumption. cbn [walk1]. rewrite removelast_last. reflexivity.
  - destruct Hc as [_ Hd]. unfold aapply. cbn [fst snd]. rewrite map_app. cbn [map]. rewrite walk_snoc.
    rewrite tocomp_normal by assumption. reflexivity.
Qed.

Lemma aapply_fold : forall cwd cs S, canonical S -> Forall valid_comp cs ->
  aapply cwd (fold_left astep cs S) = walk (aapply cwd S) cs.
Proof.
  induction cs as [|c cs IH]; intros S HS HC; [reflexivity|].
  inversion HC; subst. cbn [fold_left]. rewrite IH by (try apply astep_canonical; assumption).
  rewrite aapply_step by assumption. reflexivity.
Qed.

Lemma walk_components_abs : forall cwd p, walk cwd (components p) = aapply cwd (afold (components p)).
Proof.
  intros cwd p. unfold afold. rewrite aapply_fold; [reflexivity|apply canonical_init|apply components_valid].
Qed.

Lemma walk_render : forall cwd r st, Forall valid_seg st -> walk cwd (components (render r st)) = aapply cwd (r, st).
Proof.
  intros cwd r st HV. rewrite components_render by assumption. unfold aapply. cbn [fst snd].
  destruct r; reflexivity.
Qed.

Definition lower_comp (c : comp) : comp := match c with Normal s => Normal (to_lower s) | _ => c end.

Lemma tocomp_lower : forall x, tocomp (to_lower x) = lower_comp (tocomp x).
Proof. intro x. unfold tocomp. rewrite lower_eq_dotdot. destruct (str_eqb x dotdot); reflexivity. Qed.

Lemma map_removelast : forall (A B : Type) (f : A -> B) l, map f (removelast l) = removelast (map f l).
Proof.
  induction l as [|a l IH]; [reflexivity|]. destruct l as [|b l']; [reflexivity|].
  change (removelast (a :: b :: l')) with (a :: removelast (b :: l')).
  change (map f (a :: b :: l')) with (f a :: f b :: map f l').
  change (removelast (f a :: f b :: map f l')) with (f a :: removelast (f b :: map f l')).
  cbn [map]. f_equal. exact IH.
Qed.

Lemma walk_lower : forall cs b, map to_lower (walk b cs) = walk (map to_lower b) (map lower_comp cs).
Proof.
  induction cs as [|c cs IH]; intro b; [reflexivity|].
  cbn [map]. unfold walk. cbn [fold_left]. fold (walk (walk1 b c) cs).
  fold (walk (walk1 (map to_lower b) (lower_comp c)) (map lower_comp cs)).
  rewrite IH. f_equal. destruct c; cbn [walk1 lower_comp].
  - reflexivity.
  - reflexivity.
  - apply map_removelast.
  - rewrite map_app. reflexivity.
Qed.

Lemma lower_comp_idem : forall c, lower_comp (lower_comp c) = lower_comp c.
Proof. destruct c; cbn [lower_comp]; try reflexivity. rewrite to_lower_idem. reflexivity. Qed.

Lemma fold_aapply_nstate : forall cs cwd S,
  map (fold_name cs) (aapply cwd (nstate cs S)) = map (fold_name cs) (aapply cwd S).
Proof.
  intros cs cwd [r st]. unfold nstate, aapply. cbn [fst snd]. destruct cs; [reflexivity|].
  unfold fold_name. change (fun n : name => to_lower n) with to_lower.
  rewrite !walk_lower. f_equal.
  rewrite !map_map. apply map_ext. intro x. rewrite tocomp_lower. apply lower_comp_idem.
Qed.

Lemma norm_preserves_file_proof : forall cs p cwd, Known_C31 p = false ->
  resolve cs cwd (norm cs p) = resolve cs cwd p.
Proof.
  intros cs p cwd H. unfold resolve. rewrite (norm_abs cs p H).
  destruct (good_nstate cs _ (good_afold p H)) as [[HV _] _].
  rewrite (walk_components_abs cwd p).
  destruct (nstate cs (afold (components p))) as [r st] eqn:E.
  unfold arender. cbn [fst snd] in *. rewrite walk_render by assumption.
  rewrite <- E. apply fold_aapply_nstate.
Qed.

Lemma norm_sound_proof : forall cs p q, Known_C31 p = false -> Known_C31 q = false ->
  components (norm cs p) = components (norm cs q) ->
  forall cwd, resolve cs cwd p = resolve cs cwd q.
Proof.
  intros cs p q Hp Hq E cwd.
  rewrite <- (norm_preserves_file_proof cs p cwd Hp). rewrite <- (norm_preserves_file_proof cs q cwd Hq).
  unfold resolve. rewrite E. reflexivity.
Qed.

Definition canon_k (S : astate) (k : nat) (ns : list str) : Prop :=
  snd S = repeat dotdot k ++ ns /\ Forall (fun x => x <> dotdot) ns /\ (fst S = true -> k = 0%nat).

Lemma astep_k : forall S c k ns, canon_k S k ns -> valid_comp c -> c <> Root ->
  exists k' ns', canon_k (astep S c) k' ns' /\ (k <= k')%nat.
Proof.
  intros [r st] c k ns (E & Hns & Hr) Hc HR. cbn [fst snd] in *.
  destruct c; cbn [astep].
  - congruence.
  - exists k, ns. split; [split; [exact E|split; assumption]|lia].
  - destruct (snoc_cases _ ns) as [En|(ns' & y & En)]; subst ns.
    + rewrite app_nil_r in E. destruct k as [|k'].
      * simpl in E. subst st. cbn [rev]. destruct r.
        -- exists 0%nat, []. split; [split; [reflexivity|split; [constructor|reflexivity]]|lia].
        -- exists 1%nat, []. split; [split; [reflexivity|split; [constructor|discriminate]]|lia].
      * assert (Er : r = false) by (destruct r; [specialize (Hr eq_refl); discriminate|reflexivity]).
        subst r. subst st. pose proof (astep_parent_repeat (S k')) as HP; cbn [astep] in HP; rewrite HP.
        exists (S (S k')), []. split; [split; [rewrite app_nil_r; reflexivity|split; [constructor|discriminate]]|lia].
    + subst st. rewrite app_assoc. rewrite rev_app_distr. cbn [rev app].
      apply Forall_app in Hns as [Hns' Hy]. inversion Hy as [|? ? Hy' _]; subst.
      rewrite str_eqb_neq by assumption. rewrite rev_involutive.
      exists k, ns'. split; [split; [reflexivity|split; assumption]|lia].
  - destruct Hc as [_ Hd]. exists k, (ns ++ [s]). subst st. split; [|lia].
    split; [cbn [snd]; rewrite app_assoc; reflexivity|split; [|assumption]].
    apply Forall_app; split; [assumption|constructor; [assumption|constructor]].
Qed.

Lemma fold_k : forall cs S k ns, canon_k S k ns -> Forall valid_comp cs -> Forall (fun c => c <> Root) cs ->
  exists k' ns', canon_k (fold_left astep cs S) k' ns' /\ (k <= k')%nat.
Proof.
  induction cs as [|c cs IH]; intros S k ns HK HV HR.
  - exists k, ns. split; [assumption|lia].
  - inversion HV; subst. inversion HR; subst. cbn [fold_left].
    destruct (astep_k S c k ns HK) as (k1 & ns1 & HK1 & L1); [assumption|assumption|].
    destruct (IH _ _ _ HK1) as (k2 & ns2 & HK2 & L2); [assumption|assumption|].
    exists k2, ns2. split; [assumption|lia].
Qed.

Lemma leading_repeat : forall k l, leading_parents (repeat Parent k ++ l) = (k + leading_parents l)%nat.
Proof. induction k; intro l; simpl; [reflexivity|]. rewrite IHk. reflexivity. Qed.

Lemma leading_canon : forall k ns, Forall (fun x => x <> dotdot) ns ->
  leading_parents (map tocomp (repeat dotdot k ++ ns)) = k.
Proof.
  intros k ns H. rewrite map_app. rewrite map_repeat'. rewrite tocomp_dotdot. rewrite leading_repeat.
  destruct ns as [|x t]; [simpl; lia|]. inversion H; subst. cbn [map]. rewrite tocomp_normal by assumption.
  simpl. lia.
Qed.

Lemma leading_split : forall l, exists rest, l = repeat Parent (leading_parents l) ++ rest.
Proof.
  induction l as [|c l IH]; [exists []; reflexivity|].
  destruct c; try (eexists; reflexivity). destruct IH as (rest & E). exists rest. simpl. rewrite <- E. reflexivity.
Qed.

Lemma body_comps_no_root : forall s, Forall (fun c => c <> Root) (body_comps s).
Proof.
  intro s. unfold body_comps. induction (split_sep s) as [|x t IH]; simpl; [constructor|].
  apply Forall_app; split; [|assumption].
  destruct (parse_single x) as [c|] eqn:E; simpl; [|constructor].
  apply parse_single_some in E as (_ & _ & Ec). subst c. constructor; [|constructor].
  unfold tocomp. destruct (str_eqb x dotdot); discriminate.
Qed.

Lemma components_no_root : forall p, has_root p = false -> Forall (fun c => c <> Root) (components p).
Proof.
  intros p H. unfold components. rewrite H.
  destruct (include_cur_dir p); [constructor; [discriminate|]|]; apply body_comps_no_root.
Qed.

Lemma fold_repeat_parent : forall n, fold_left astep (repeat Parent n) (false, []) = (false, repeat dotdot n).
Proof.
  intro n. pose proof (fold_parents n 0) as H. rewrite map_repeat' in H. rewrite tocomp_dotdot in H. exact H.
Qed.

Lemma fst_fold_no_root : forall cs S, Forall (fun c => c <> Root) cs -> fst (fold_left astep cs S) = fst S.
Proof.
  induction cs as [|c cs IH]; intros [r st] H; [reflexivity|].
  inversion H; subst. cbn [fold_left]. rewrite IH by assumption.
  destruct c; cbn [astep]; try reflexivity; try congruence.
  destruct (rev st) as [|x t]; [destruct r; reflexivity|].
  destruct (str_eqb x dotdot); [destruct r|]; reflexivity.
Qed.

Lemma components_norm_abs : forall cs p, Known_C31 p = false ->
  components (norm cs p) =
  (if fst (afold (components p)) then [Root] else []) ++ map tocomp (snd (nstate cs (afold (components p)))).
Proof.
  intros cs p H. rewrite (norm_abs cs p H).
  destruct (good_nstate cs _ (good_afold p H)) as [[HV _] _].
  unfold arender. rewrite components_render by assumption. reflexivity.
Qed.

Lemma canon_k_nstate : forall cs S k ns, canon_k S k ns ->
  canon_k (nstate cs S) k (if cs then ns else map to_lower ns).
Proof.
  intros cs [r st] k ns (E & Hns & Hr). unfold nstate. cbn [fst snd] in *. destruct cs.
  - split; [assumption|split; assumption].
  - split; [subst st; rewrite map_app; rewrite map_repeat'; reflexivity|split; [|assumption]].
    apply Forall_forall. intros y Hy. apply in_map_iff in Hy as (x & Ex & Hx). subst y.
    intro E'. apply (proj1 (lower_dotdot_iff x)) in E'. rewrite Forall_forall in Hns. exact (Hns x Hx E').
Qed.

Lemma norm_keeps_leading_parents_proof : forall cs p, Known_C31 p = false -> has_root p = false ->
  (leading_parents (components p) <= leading_parents (components (norm cs p)))%nat.
Proof.
  intros cs p HK HR.
  pose proof (components_no_root p HR) as HNR. pose proof (components_valid p) as HV.
  rewrite (components_norm_abs cs p HK).
  unfold afold. rewrite (fst_fold_no_root _ _ HNR). cbn [fst app].
  destruct (leading_split (components p)) as (rest & E).
  set (n := leading_parents (components p)) in *.
  rewrite E in HNR, HV. rewrite E. rewrite fold_left_app. rewrite fold_repeat_parent.
  apply Forall_app in HNR as [_ HNR]. apply Forall_app in HV as [_ HV].
  assert (HK0 : canon_k (false, repeat dotdot n) n []).
  { split; [cbn [snd]; rewrite app_nil_r; reflexivity|split; [constructor|discriminate]]. }
  destruct (fold_k rest _ n [] HK0 HV HNR) as (k' & ns' & HK' & L).
  apply (canon_k_nstate cs) in HK'. destruct HK' as (E' & Hns' & _).
  rewrite E'. rewrite leading_canon by assumption. exact L.
Qed.

Lemma normal_shape_canon : forall r k ns, Forall (fun x => x <> dotdot) ns -> (r = true -> k = 0%nat) ->
  normal_shape ((if r then [Root] else []) ++ map tocomp (repeat dotdot k ++ ns)) = true.
Proof.
  intros r k ns Hns Hr.
  assert (HN : forallb is_normal (map tocomp ns) = true).
  { apply forallb_forall. intros c Hc. apply in_map_iff in Hc as (x & Ex & Hx). subst c.
    rewrite Forall_forall in Hns. rewrite tocomp_normal by (apply Hns; assumption). reflexivity. }
  destruct r.
  - rewrite (Hr eq_refl). cbn [repeat app normal_shape]. exact HN.
  - cbn [app]. rewrite map_app. rewrite map_repeat'. rewrite tocomp_dotdot.
    assert (HP : forall l, forallb is_normal l = true -> parents_then_normals l = true).
    { intros l Hl. destruct l as [|c l']; [reflexivity|]. destruct c; try exact Hl. discriminate. }
    destruct k as [|k'].
    + cbn [repeat app]. destruct (map tocomp ns) as [|c l'] eqn:El; [reflexivity|].
      destruct c; cbn [normal_shape]; try (apply HP; exact HN). discriminate.
    + cbn [repeat app normal_shape parents_then_normals]. clear Hr. induction k' as [|k'' IH]; [apply HP; exact HN|].
      cbn [repeat app parents_then_normals]. exact IH.
Qed.

Lemma norm_shape_proof : forall cs p, Known_C31 p = false -> normal_shape (components (norm cs p)) = true.
Proof.
  intros cs p HK. rewrite (components_norm_abs cs p HK).
  destruct (good_afold p HK) as [[_ (k & ns & E & Hns & Hr)] _].
  pose proof (canon_k_nstate cs (afold (components p)) k ns (conj E (conj Hns Hr))) as (E' & Hns' & _).
  rewrite E'. apply normal_shape_canon; assumption.
Qed.

(* ------------------------------------------------------------------ NormalizedPathBuf equality *)
Lemma comp_eqb_spec : forall a b, comp_eqb a b = true -> a = b.
Proof.
  destruct a, b; simpl; intro H; try discriminate; try reflexivity.
  apply str_eqb_spec in H. congruence.
Qed.

Lemma comps_eqb_spec : forall a b, comps_eqb a b = true -> a = b.
Proof.
  induction a as [|x a IH]; destruct b as [|y b]; simpl; intro H; try discriminate; [reflexivity|].
  apply andb_true_iff in H as [H1 H2]. apply comp_eqb_spec in H1. apply IH in H2. congruence.
Qed.

Lemma same_module_same_file_proof : forall cs p q, Known_C31 p = false -> Known_C31 q = false ->
  same_module cs p q = true -> forall cwd, resolve cs cwd p = resolve cs cwd q.
Proof.
  intros cs p q Hp Hq H cwd. unfold same_module, path_eqb in H. apply comps_eqb_spec in H.
  apply norm_sound_proof; assumption.
Qed.
