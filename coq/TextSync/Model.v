(** C28 — model of the language server's text synchronisation.

    Transcribed from
      crates/els/util.rs        pos_to_byte_index
      crates/els/file_cache.rs  FileCache::update, FileCache::incremental_update
      crates/els/server.rs      Server::handle_notification, arms "textDocument/didOpen" / "textDocument/didChange"
      crates/erg_common/vfs.rs  VirtualFileSystem::update
      alloc::string::String     replace_range, is_char_boundary, len

    A Rust [String] is modelled as the list of its Unicode scalar values ([text]); byte offsets are
    computed with [utf8_len], exactly as [str::char_indices] produces them.

    Two generations of the code are kept:
      * the functions without suffix model the code as it is now (after the [fix:] commits listed in
        /verif/known/C28.json);
      * the [_nofix] functions model the code as it was before; they are only used to state the
        [_refuted] witnesses of Props_C28.v.

    Not modelled (see the check's assumptions): the lexer run on every new text ([Lexer::lex], its token
    stream is stored beside the text), [check_file] / [quick_check_file] (they do not touch the text),
    URIs that are not [file:] URLs ([to_file_path().unwrap()]). *)
From Coq Require Import ZArith List Bool.
Import ListNotations.
Open Scope Z_scope.

Inductive res (A : Type) : Type :=
| Ok (a : A)
| Panic.
Arguments Ok {A} a.
Arguments Panic {A}.

(** a string: its chars as Unicode scalar values *)
Definition text := list Z.

(** [char::len_utf8] *)
Definition utf8_len (c : Z) : Z :=
  if c <? 128 then 1 else if c <? 2048 then 2 else if c <? 65536 then 3 else 4.

(** [char::len_utf16] *)
Definition utf16_len (c : Z) : Z := if c <? 65536 then 1 else 2.

(** [str::len] (bytes) *)
Fixpoint str_len (s : text) : Z :=
  match s with
  | [] => 0
  | c :: r => utf8_len c + str_len r
  end.

(** Splitting a string at byte offset [b]: [None] when [b] is not a char boundary
    ([str::is_char_boundary]: 0, the start of a char, or [len]; false beyond [len]). *)
Fixpoint split_at_byte (s : text) (b : Z) {struct s} : option (text * text) :=
  if b =? 0 then Some ([], s)
  else match s with
       | [] => None
       | c :: r =>
         if b <? utf8_len c then None
         else match split_at_byte r (b - utf8_len c) with
              | Some (x, y) => Some (c :: x, y)
              | None => None
              end
       end.

(** [String::replace_range(start..end, with)]: asserts that both ends are char boundaries
    ("start/end of range should be a character boundary"), then [Vec::splice] which panics when
    [start > end] ("slice index starts at .. but ends at .."). *)
Definition replace_range (s : text) (start end_ : Z) (new : text) : res text :=
  match split_at_byte s start, split_at_byte s end_ with
  | Some (a, _), Some (_, b) => if start <=? end_ then Ok (a ++ new ++ b) else Panic
  | _, _ => Panic
  end.

(** * crates/els/util.rs  pos_to_byte_index (current code)

    [lines_left], [units_left] : u32 counting down (no arithmetic that can overflow: [saturating_sub],
    and [lines_left -= 1] only when [lines_left != 0]).  The loop is
    [while let Some((index, c)) = chars.next()] over [src.char_indices().peekable()]; [None] = the loop ran
    to the end of the string. *)
Definition is_eol (c : Z) : bool := (c =? 10) || (c =? 13).

Fixpoint p2b_loop (s : text) (index lines_left units_left : Z) {struct s} : option Z :=
  match s with
  | [] => None
  | c :: r =>
    if lines_left =? 0 then
      if (units_left =? 0) || is_eol c then Some index
      else p2b_loop r (index + utf8_len c) lines_left (Z.max 0 (units_left - utf16_len c))
    else if is_eol c then
      (* "\r\n" is one terminator: [chars.peek()] / [chars.next()] *)
      match r with
      | n :: r' =>
        if (c =? 13) && (n =? 10)
        then p2b_loop r' (index + utf8_len c + utf8_len n) (lines_left - 1) units_left
        else p2b_loop r (index + utf8_len c) (lines_left - 1) units_left
      | [] => p2b_loop r (index + utf8_len c) (lines_left - 1) units_left
      end
    else p2b_loop r (index + utf8_len c) lines_left units_left
  end.

Definition pos_to_byte_index (src : text) (line character : Z) : Z :=
  match p2b_loop src 0 line character with
  | Some i => i
  | None => str_len src            (* src.len() *)
  end.

(** * the same function before the fix

    [line], [col] : u32 counting up ([+= 1] panics on overflow in a debug build); compares chars, not
    UTF-16 units; a position that is never reached yields "EOF" = index of the last char + 1. *)
Definition u32_max : Z := 4294967295.

Fixpoint p2b_loop_nofix (s : text) (index line col pl pc : Z) {struct s} : res (option Z) :=
  match s with
  | [] => Ok None
  | c :: r =>
    if (line =? pl) && (col =? pc) then Ok (Some index)
    else if c =? 10 then
      if u32_max <? line + 1 then Panic else p2b_loop_nofix r (index + utf8_len c) (line + 1) 0 pl pc
    else
      if u32_max <? col + 1 then Panic else p2b_loop_nofix r (index + utf8_len c) line (col + 1) pl pc
  end.

Definition pos_to_byte_index_nofix (src : text) (line character : Z) : res Z :=
  match src with
  | [] => Ok 0                                                  (* if src.is_empty() { return 0; } *)
  | _ =>
    match p2b_loop_nofix src 0 0 0 line character with
    | Panic => Panic
    | Ok (Some i) => Ok i
    | Ok None => Ok (str_len src - utf8_len (last src 0) + 1)  (* src.char_indices().last().unwrap().0 + 1 *)
    end
  end.

(** * notifications (wire level) *)
Inductive change : Type :=
| Full (t : text)                               (* TextDocumentContentChangeEvent without range *)
| Ranged (sl sc el ec : Z) (t : text).          (* range start (line, character), end (line, character), text *)

Inductive notif : Type :=
| DidOpen (uri ver : Z) (t : text)
| DidChange (uri ver : Z) (cs : list change).

(** * server state: FileCache.files (text and version per URI; the token stream is not modelled) and VFS.cache.
    Dict = association list; [set] replaces the binding. *)
Record entry : Type := { code : text; ver : Z }.

Fixpoint get {A} (k : Z) (m : list (Z * A)) : option A :=
  match m with
  | [] => None
  | (k', v) :: r => if k' =? k then Some v else get k r
  end.

Definition set {A} (k : Z) (v : A) (m : list (Z * A)) : list (Z * A) :=
  (k, v) :: filter (fun p => negb (fst p =? k)) m.

Record state : Type := { files : list (Z * entry); vfs : list (Z * text) }.

Definition init : state := {| files := []; vfs := [] |}.

(** * file_cache.rs  FileCache::update(uri, code, ver)  — called with [Some ver] by didOpen *)
Definition update (st : state) (uri : Z) (c : text) (v : option Z) : state :=
  let entry := get uri (files st) in
  let stale := match entry, v with
               | Some e, Some v => v <=? ver e        (* ver.is_some_and(|ver| ver <= entry.ver) *)
               | _, _ => false
               end in
  if stale then st
  else
    let v' := match v with
              | Some v => v
              | None => match entry with Some e => ver e | None => 1 end
              end in
    {| files := set uri {| code := c; ver := v' |} (files st);
       vfs := set uri c (vfs st) |}.

(** * file_cache.rs  FileCache::incremental_update — the loop over [params.content_changes] *)
Fixpoint apply_changes (c : text) (cs : list change) : res text :=
  match cs with
  | [] => Ok c
  | Full t :: r => apply_changes t r                     (* no range: the text is the whole document *)
  | Ranged sl sc el ec t :: r =>
    let start := pos_to_byte_index c sl sc in
    let end_ := pos_to_byte_index c el ec in
    (* start.min(end)..start.max(end): an inverted range is read with its ends swapped *)
    match replace_range c (Z.min start end_) (Z.max start end_) t with
    | Panic => Panic
    | Ok c' => apply_changes c' r
    end
  end.

Definition incremental_update (st : state) (uri version : Z) (cs : list change) : res state :=
  match get uri (files st) with
  | None => Ok st                                         (* let Some(entry) = ent.get_mut(&uri) else { return; } *)
  | Some e =>
    if version <=? ver e then Ok st                       (* if entry.ver >= params.text_document.version { return; } *)
    else match apply_changes (code e) cs with
         | Panic => Panic
         | Ok c' => Ok {| files := set uri {| code := c'; ver := version |} (files st);
                          vfs := set uri c' (vfs st) |}
         end
  end.

(** * server.rs handle_notification.
    didChange looks at [content_changes.first()] only to decide whether to run [quick_check_file] (not modelled:
    it returns [Ok(())] on every path and does not touch the file cache). *)
Definition step (st : state) (n : notif) : res state :=
  match n with
  | DidOpen uri v t => Ok (update st uri t (Some v))
  | DidChange uri v cs => incremental_update st uri v cs
  end.

Fixpoint run (st : state) (ns : list notif) : res state :=
  match ns with
  | [] => Ok st
  | n :: r => match step st n with
              | Panic => Panic
              | Ok st' => run st' r
              end
  end.

(** * the same path before the fixes *)
Fixpoint apply_changes_nofix (c : text) (cs : list change) : res text :=
  match cs with
  | [] => Ok c
  | Full _ :: r => apply_changes_nofix c r                (* let Some(range) = change.range else { continue; } *)
  | Ranged sl sc el ec t :: r =>
    match pos_to_byte_index_nofix c sl sc with
    | Panic => Panic
    | Ok start =>
      match pos_to_byte_index_nofix c el ec with
      | Panic => Panic
      | Ok end_ =>
        match replace_range c start end_ t with
        | Panic => Panic
        | Ok c' => apply_changes_nofix c' r
        end
      end
    end
  end.

Definition incremental_update_nofix (st : state) (uri version : Z) (cs : list change) : res state :=
  match get uri (files st) with
  | None => Ok st
  | Some e =>
    if version <=? ver e then Ok st
    else match apply_changes_nofix (code e) cs with
         | Panic => Panic
         | Ok c' => Ok {| files := set uri {| code := c'; ver := version |} (files st);
                          vfs := set uri c' (vfs st) |}
         end
  end.

Definition step_nofix (st : state) (n : notif) : res state :=
  match n with
  | DidOpen uri v t => Ok (update st uri t (Some v))
  | DidChange uri v cs =>
    match cs with
    | [] => Panic                                         (* params.content_changes[0] *)
    | _ :: _ => incremental_update_nofix st uri v cs
    end
  end.

Fixpoint run_nofix (st : state) (ns : list notif) : res state :=
  match ns with
  | [] => Ok st
  | n :: r => match step_nofix st n with
              | Panic => Panic
              | Ok st' => run_nofix st' r
              end
  end.

(** observations *)
Definition server_text (st : state) (uri : Z) : option text := option_map code (get uri (files st)).
Definition server_version (st : state) (uri : Z) : option Z := option_map ver (get uri (files st)).
Definition server_vfs (st : state) (uri : Z) : option text := get uri (vfs st).

(** everything the check reads back for one document: file-cache text and version, VFS text *)
Definition observe (st : state) (uri : Z) : option (text * Z * option text) :=
  match get uri (files st) with
  | Some e => Some (code e, ver e, get uri (vfs st))
  | None => None
  end.
