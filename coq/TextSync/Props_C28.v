(** C28 — The language server's document copy matches the client's.

    "For any sequence of open and incremental change notifications that follows the LSP specification (UTF-16
    positions; a character offset past the end of a line means the end of that line), the language server's copy of
    each document equals the client's copy, and the server keeps running."

    Model.v is the server (pos_to_byte_index, String::replace_range, FileCache::update / incremental_update, VFS),
    Spec.v the client (UTF-16 documents, LSP 3.17 positions, [follows_lsp]).  Statements only; proofs are in Proofs.v.
    The [_nofix_refuted] theorems are about the code as it was before the repairs recorded in /verif/known/C28.json. *)
From Coq Require Import ZArith List Bool.
From ErgV Require Import TextSync.Model TextSync.Spec TextSync.Proofs.
Import ListNotations.
Open Scope Z_scope.

(** One content change: the server's text after the change is the client's text after the change. *)
Theorem apply_change_refines : forall (d : text) (c : change),
  Forall (fun cp => scalar cp = true) d ->
  valid_change (to_utf16 d) c = true ->
  exists d', apply_changes d [c] = Ok d' /\
             to_utf16 d' = client_change (to_utf16 d) c /\
             Forall (fun cp => scalar cp = true) d'.
Proof. exact change_refines. Qed.

Example apply_change_refines_nonvacuous :
  Forall (fun cp => scalar cp = true) ex_doc /\ valid_change (to_utf16 ex_doc) ex_change = true /\
  apply_changes ex_doc [ex_change] = Ok [97; 128512; 120; 128512; 10].
Proof. exact (conj (proj1 ex_change_valid) (conj (proj2 ex_change_valid) ex_change_result)). Qed.

(** pos_to_byte_index itself: for a position the client may send, the index is a char boundary and the text
    before it has exactly the position's UTF-16 offset ([judge_pos] is what the check applies to the real function). *)
Theorem pos_to_byte_index_correct : forall (d : text) (l c : Z),
  Forall (fun cp => scalar cp = true) d ->
  valid_pos (to_utf16 d) l c = true ->
  judge_pos d l c (pos_to_byte_index d l c) = true.
Proof. exact pos_to_byte_index_judged. Qed.

Example pos_to_byte_index_correct_nonvacuous :
  valid_pos (to_utf16 ex_doc) 0 99 = true /\ pos_to_byte_index ex_doc 0 99 = 7 /\
  valid_pos (to_utf16 ex_doc) 1 3 = true /\ pos_to_byte_index ex_doc 1 3 = 14.
Proof. vm_compute. repeat split; reflexivity. Qed.

(** Any history that follows LSP, over any number of documents: the server does not panic and, for every URI,
    its file-cache text (in UTF-16) and version are the client's, and the VFS holds the same text. *)
Theorem history_refines : forall ns : list notif,
  follows_lsp [] ns = true ->
  exists st, run init ns = Ok st /\
    forall uri,
      option_map to_utf16 (server_text st uri) = client_text (client_run [] ns) uri /\
      server_version st uri = client_version (client_run [] ns) uri /\
      server_vfs st uri = server_text st uri.
Proof. exact Proofs.history_refines. Qed.

Example history_refines_nonvacuous :
  follows_lsp [] ex_history = true /\
  option_map (fun st => (server_text st 0, server_text st 1)) (match run init ex_history with Ok st => Some st | Panic => None end)
  = Some (Some [97; 128512; 120; 128512; 10; 13; 10; 119987], Some [97; 10; 98]).
Proof. exact (conj ex_history_valid ex_history_result). Qed.

(** Equality of the UTF-16 forms is equality of the texts. *)
Theorem utf16_form_determines_text : forall a b : text,
  Forall (fun cp => scalar cp = true) a -> Forall (fun cp => scalar cp = true) b ->
  to_utf16 a = to_utf16 b -> a = b.
Proof. exact to_utf16_inj. Qed.

(** The server keeps running: no notification sequence at all (conforming or not, any positions, inverted
    ranges, unknown documents, stale versions, empty change lists) makes the modelled handlers panic. *)
Theorem no_panic : forall (st : state) (ns : list notif), run st ns <> Panic.
Proof. exact (fun st ns => run_no_panic ns st). Qed.

Example no_panic_nonvacuous :
  follows_lsp [] ex_malformed = false /\ exists st, run init ex_malformed = Ok st.
Proof. split; [exact ex_malformed_not_lsp|]. vm_compute. eexists. reflexivity. Qed.

(** The executable judge used by the check accepts exactly this: on conforming histories it holds of the model. *)
Theorem judge_holds_on_conforming_histories : forall (ns : list notif) (uris : list Z),
  follows_lsp [] ns = true ->
  exists st, run init ns = Ok st /\
             judge (client_run [] ns) true false (map (fun uri => (uri, observe st uri)) uris) = true.
Proof. exact history_judged. Qed.

Theorem judge_doc_means_equal : forall cs uri t v w,
  judge_doc cs uri (Some (t, v, Some w)) = true ->
  client_text cs uri = Some (to_utf16 t) /\ client_version cs uri = Some v /\ to_utf16 w = to_utf16 t.
Proof. exact judge_doc_sound. Qed.

(** * The same statements are false of the code before the repairs (model [_nofix]); each witness was replayed on
      the real server. *)

(** astral characters were counted as one unit: "a😀b", insert at UTF-16 offset 3 *)
Theorem astral_nofix_refuted :
  Forall (fun cp => scalar cp = true) w_astral_doc /\
  valid_change (to_utf16 w_astral_doc) w_astral_change = true /\
  ~ (exists d', apply_changes_nofix w_astral_doc [w_astral_change] = Ok d' /\
                to_utf16 d' = client_change (to_utf16 w_astral_doc) w_astral_change).
Proof. exact Proofs.astral_nofix_refuted. Qed.

(** an offset past the end of a line ran on to the end of the file: "ab\ncd", insert at (0, 5) *)
Theorem past_eol_nofix_refuted :
  Forall (fun cp => scalar cp = true) w_eol_doc /\
  valid_change (to_utf16 w_eol_doc) w_eol_change = true /\
  ~ (exists d', apply_changes_nofix w_eol_doc [w_eol_change] = Ok d' /\
                to_utf16 d' = client_change (to_utf16 w_eol_doc) w_eol_change).
Proof. exact Proofs.past_eol_nofix_refuted. Qed.

(** the end of a document ending in a multi-byte char was not a char boundary: "aé", insert at (0, 2) panics *)
Theorem trailing_multibyte_nofix_refuted :
  Forall (fun cp => scalar cp = true) w_eof_doc /\
  valid_change (to_utf16 w_eof_doc) w_eof_change = true /\
  apply_changes_nofix w_eof_doc [w_eof_change] = Panic.
Proof. exact Proofs.trailing_multibyte_nofix_refuted. Qed.

(** "\r" alone was not a line terminator: "a\rb", insert at (1, 0) *)
Theorem lone_cr_nofix_refuted :
  Forall (fun cp => scalar cp = true) w_cr_doc /\
  valid_change (to_utf16 w_cr_doc) w_cr_change = true /\
  ~ (exists d', apply_changes_nofix w_cr_doc [w_cr_change] = Ok d' /\
                to_utf16 d' = client_change (to_utf16 w_cr_doc) w_cr_change).
Proof. exact Proofs.lone_cr_nofix_refuted. Qed.

(** a content change without a range was skipped *)
Theorem full_text_nofix_refuted :
  Forall (fun cp => scalar cp = true) w_full_doc /\
  valid_change (to_utf16 w_full_doc) w_full_change = true /\
  ~ (exists d', apply_changes_nofix w_full_doc [w_full_change] = Ok d' /\
                to_utf16 d' = client_change (to_utf16 w_full_doc) w_full_change).
Proof. exact Proofs.full_text_nofix_refuted. Qed.

(** didChange with an empty change list panicked (content_changes[0]) although it follows LSP *)
Theorem empty_changes_nofix_refuted :
  follows_lsp [] w_empty_history = true /\ run_nofix init w_empty_history = Panic.
Proof. exact Proofs.empty_changes_nofix_refuted. Qed.

(** a malformed (inverted) range panicked in String::replace_range *)
Theorem inverted_range_nofix_refuted :
  run_nofix init w_inverted_history = Panic.
Proof. exact Proofs.inverted_range_nofix_refuted. Qed.
