(** C28 — the client's side of text synchronisation, after LSP 3.17
    (sections "Text Documents", "Position", "DidOpenTextDocument", "DidChangeTextDocument").

    * The client's document is a sequence of UTF-16 code units ([units]).
    * Lines are separated by "\n", "\r\n" or "\r".
    * A position is (line, character); [character] is an offset in UTF-16 code units into the line; if it is
      greater than the line length it defaults back to the line length.
    * A content change with a range replaces the units between the two positions by the new text;
      a content change without a range replaces the whole document; the changes of one notification are
      applied in order, each to the result of the previous one.

    Texts on the wire are strings (lists of Unicode scalar values); [to_utf16] is their UTF-16 form. *)
From Coq Require Import ZArith List Bool Arith.
From ErgV Require Import TextSync.Model.
Import ListNotations.
Open Scope Z_scope.

Definition units := list Z.

(** UTF-16 encoding of one scalar value / of a string *)
Definition enc16 (c : Z) : units :=
  if c <? 65536 then [c]
  else [55296 + (c - 65536) / 1024; 56320 + (c - 65536) mod 1024].

Definition to_utf16 (s : text) : units := flat_map enc16 s.

(** Unicode scalar value: 0..0x10FFFF without the surrogate block D800..DFFF *)
Definition scalar (c : Z) : bool :=
  ((0 <=? c) && (c <? 55296)) || ((57344 <=? c) && (c <? 1114112)).

Definition is_high (u : Z) : bool := (55296 <=? u) && (u <? 56320).
Definition is_low (u : Z) : bool := (56320 <=? u) && (u <? 57344).

(** the lines of a document, each with the length of its terminator (0 for the last line) *)
Fixpoint split_lines (u : units) : list (units * nat) :=
  match u with
  | [] => [([], 0%nat)]
  | c :: r =>
    if c =? 10 then ([], 1%nat) :: split_lines r
    else if c =? 13 then
      match r with
      | n :: r' => if n =? 10 then ([], 2%nat) :: split_lines r' else ([], 1%nat) :: split_lines r
      | [] => ([], 1%nat) :: split_lines r
      end
    else match split_lines r with
         | (ln, t) :: rest => (c :: ln, t) :: rest
         | [] => [([c], 0%nat)]
         end
  end.

(** offset (in units, from the start of the document) of position (line [l], character [c]) *)
Fixpoint offset_in (ls : list (units * nat)) (l c : nat) : nat :=
  match ls with
  | [] => 0%nat
  | (ln, t) :: rest =>
    match l with
    | O => Nat.min c (length ln)
    | S l' => (length ln + t + offset_in rest l' c)%nat
    end
  end.

Definition offset_of (u : units) (line character : Z) : nat :=
  offset_in (split_lines u) (Z.to_nat line) (Z.to_nat character).

(** offset [o] lies between the two halves of a surrogate pair *)
Definition splits_pair (u : units) (o : nat) : bool :=
  match o with
  | O => false
  | S o' => is_high (nth o' u 0) && is_low (nth o u 0)
  end.

(** a position the client may send: non-negative numbers, an existing line, not inside a surrogate pair *)
Definition valid_pos (u : units) (line character : Z) : bool :=
  (0 <=? line) && (0 <=? character)
  && (Z.to_nat line <? length (split_lines u))%nat
  && negb (splits_pair u (offset_of u line character)).

Definition valid_change (u : units) (c : change) : bool :=
  match c with
  | Full t => forallb scalar t
  | Ranged sl sc el ec t =>
    valid_pos u sl sc && valid_pos u el ec
    && (offset_of u sl sc <=? offset_of u el ec)%nat
    && forallb scalar t
  end.

(** the client's document after one content change *)
Definition client_change (u : units) (c : change) : units :=
  match c with
  | Full t => to_utf16 t
  | Ranged sl sc el ec t =>
    firstn (offset_of u sl sc) u ++ to_utf16 t ++ skipn (offset_of u el ec) u
  end.

Fixpoint client_changes (u : units) (cs : list change) : units :=
  match cs with
  | [] => u
  | c :: r => client_changes (client_change u c) r
  end.

(** every change is valid for the document it is applied to *)
Fixpoint valid_changes (u : units) (cs : list change) : bool :=
  match cs with
  | [] => true
  | c :: r => valid_change u c && valid_changes (client_change u c) r
  end.

(** * the client: per open document its text and the last version number sent *)
Definition cstate := list (Z * (units * Z)).

Definition client_step (cs : cstate) (n : notif) : cstate :=
  match n with
  | DidOpen uri v t => set uri (to_utf16 t, v) cs
  | DidChange uri v chs =>
    match get uri cs with
    | Some (u, _) => set uri (client_changes u chs, v) cs
    | None => cs
    end
  end.

Fixpoint client_run (cs : cstate) (ns : list notif) : cstate :=
  match ns with
  | [] => cs
  | n :: r => client_run (client_step cs n) r
  end.

(** a notification the client may send in state [cs]:
    didOpen only for a document that is not open; didChange only for an open document, with a version
    number greater than the last one, and changes that are valid one after the other *)
Definition valid_notif (cs : cstate) (n : notif) : bool :=
  match n with
  | DidOpen uri v t =>
    match get uri cs with
    | None => forallb scalar t
    | Some _ => false
    end
  | DidChange uri v chs =>
    match get uri cs with
    | Some (u, v0) => (v0 <? v) && valid_changes u chs
    | None => false
    end
  end.

Fixpoint follows_lsp (cs : cstate) (ns : list notif) : bool :=
  match ns with
  | [] => true
  | n :: r => valid_notif cs n && follows_lsp (client_step cs n) r
  end.

Definition client_text (cs : cstate) (uri : Z) : option units := option_map fst (get uri cs).
Definition client_version (cs : cstate) (uri : Z) : option Z := option_map snd (get uri cs).

(** * executable judge: does the server's copy of every listed document equal the client's?
    [obs]: for each document of interest what was read from the server (file cache text, version, VFS text),
    [None] when the server has no copy. *)
Fixpoint units_eqb (a b : units) : bool :=
  match a, b with
  | [], [] => true
  | x :: a', y :: b' => (x =? y) && units_eqb a' b'
  | _, _ => false
  end.

Definition judge_doc (cs : cstate) (uri : Z) (obs : option (text * Z * option text)) : bool :=
  match get uri cs, obs with
  | None, None => true
  | Some (u, v), Some (t, v', Some w) => units_eqb (to_utf16 t) u && (v =? v') && units_eqb (to_utf16 w) u
  | _, _ => false
  end.

(** [panicked]: the server's handler did not return; [conforming]: the history so far follows LSP.
    A history that does not follow LSP only has to leave the server running. *)
Definition judge (cs : cstate) (conforming panicked : bool) (obs : list (Z * option (text * Z * option text))) : bool :=
  negb panicked && (negb conforming || forallb (fun p => judge_doc cs (fst p) (snd p)) obs).

(** a byte index (into the server's UTF-8 string [d]) claimed for position (l, c) is right when it is a char
    boundary and the prefix before it has the position's UTF-16 offset *)
Definition judge_pos (d : text) (l c idx : Z) : bool :=
  match split_at_byte d idx with
  | Some (a, _) => Nat.eqb (length (to_utf16 a)) (offset_of (to_utf16 d) l c)
  | None => false
  end.
