(** C28 — lemmas and proofs for the text-synchronisation model (Model.v) against the client's view (Spec.v).

    Outline
      1. [pos_to_byte_index] returns the byte length of a prefix of the string: [p2k] is the number of chars of
         that prefix (same walk, counting chars), so the index is always a char boundary <= len.
      2. For scalar-valued text and a position that does not fall inside a surrogate pair, the UTF-16 length of
         that prefix is the offset LSP assigns to the position ([p2k_offset]).
      3. Hence one ranged change does on the server's text what the client did on its UTF-16 text
         ([change_refines]); lists of changes, notifications and whole histories follow by induction with the
         simulation relation [sim].
      4. [replace_range] is only ever called with two prefix lengths, smaller first: no panic for any input. *)
From Coq Require Import ZArith List Bool Arith Lia.
From ErgV Require Import TextSync.Model TextSync.Spec.
Import ListNotations.
Open Scope Z_scope.

(** * byte lengths *)
Lemma utf8_len_bounds : forall c, 1 <= utf8_len c <= 4.
Proof. intro c. unfold utf8_len. destruct (c <? 128), (c <? 2048), (c <? 65536); lia. Qed.

Lemma str_len_nonneg : forall s, 0 <= str_len s.
Proof. induction s as [|c r IH]; cbn [str_len]; [lia|]. pose proof (utf8_len_bounds c). lia. Qed.

Lemma split_at_byte_firstn : forall d k, (k <= length d)%nat ->
  split_at_byte d (str_len (firstn k d)) = Some (firstn k d, skipn k d).
Proof.
  induction d as [|c r IH]; intros k Hk.
  - destruct k; reflexivity.
  - destruct k as [|k].
    + reflexivity.
    + cbn [firstn skipn str_len split_at_byte].
      pose proof (utf8_len_bounds c) as Hc. pose proof (str_len_nonneg (firstn k r)) as Hn.
      destruct (utf8_len c + str_len (firstn k r) =? 0) eqn:E0; [apply Z.eqb_eq in E0; lia|].
      destruct (utf8_len c + str_len (firstn k r) <? utf8_len c) eqn:E1; [apply Z.ltb_lt in E1; lia|].
      replace (utf8_len c + str_len (firstn k r) - utf8_len c) with (str_len (firstn k r)) by lia.
      cbn [length] in Hk. rewrite IH by lia. reflexivity.
Qed.

(** * the char index reached by pos_to_byte_index: same walk, counting chars *)
Fixpoint p2k (s : text) (lines_left units_left : Z) {struct s} : nat :=
  match s with
  | [] => O
  | c :: r =>
    if lines_left =? 0 then
      if (units_left =? 0) || is_eol c then O
      else S (p2k r lines_left (Z.max 0 (units_left - utf16_len c)))
    else if is_eol c then
      match r with
      | n :: r' =>
        if (c =? 13) && (n =? 10) then S (S (p2k r' (lines_left - 1) units_left))
        else S (p2k r (lines_left - 1) units_left)
      | [] => S (p2k r (lines_left - 1) units_left)
      end
    else S (p2k r lines_left units_left)
  end.

Lemma p2b_loop_p2k : forall n s, (length s <= n)%nat -> forall idx ll ul,
  (p2k s ll ul <= length s)%nat /\
  match p2b_loop s idx ll ul with Some i => i | None => idx + str_len s end
  = idx + str_len (firstn (p2k s ll ul) s).
Proof.
  induction n as [|n IH]; intros s Hs idx ll ul.
  - destruct s; [|cbn in Hs; lia]. cbn. split; lia.
  - destruct s as [|c r]; [cbn; split; lia|].
    cbn [length] in Hs.
    cbn [p2b_loop p2k].
    destruct (ll =? 0) eqn:Ell.
    + destruct ((ul =? 0) || is_eol c) eqn:E.
      * cbn. split; lia.
      * destruct (IH r ltac:(lia) (idx + utf8_len c) ll (Z.max 0 (ul - utf16_len c))) as [H1 H2].
        split; [cbn [length]; lia|]. cbn [firstn str_len] in *; rewrite ?Z.add_assoc in *; rewrite H2; lia.
    + destruct (is_eol c) eqn:Eeol.
      * destruct r as [|m r'].
        -- cbn. split; lia.
        -- destruct ((c =? 13) && (m =? 10)) eqn:Ecr.
           ++ cbn [length] in Hs.
              destruct (IH r' ltac:(lia) (idx + utf8_len c + utf8_len m) (ll - 1) ul) as [H1 H2].
              split; [cbn [length]; lia|]. cbn [firstn str_len] in *; rewrite ?Z.add_assoc in *; rewrite H2; lia.
           ++ destruct (IH (m :: r') ltac:(cbn [length] in *; lia) (idx + utf8_len c) (ll - 1) ul) as [H1 H2].
              split; [cbn [length] in *; lia|]. cbn [firstn str_len] in *; rewrite ?Z.add_assoc in *; rewrite H2; lia.
      * destruct (IH r ltac:(lia) (idx + utf8_len c) ll ul) as [H1 H2].
        split; [cbn [length]; lia|]. cbn [firstn str_len] in *; rewrite ?Z.add_assoc in *; rewrite H2; lia.
Qed.

Lemma p2k_le : forall s l c, (p2k s l c <= length s)%nat.
Proof. intros. apply (p2b_loop_p2k (length s) s (le_n _) 0 l c). Qed.

Lemma pos_to_byte_index_p2k : forall s l c,
  pos_to_byte_index s l c = str_len (firstn (p2k s l c) s).
Proof.
  intros. unfold pos_to_byte_index.
  destruct (p2b_loop_p2k (length s) s (le_n _) 0 l c) as [_ H].
  destruct (p2b_loop s 0 l c); lia.
Qed.

(** * UTF-16 facts *)
Lemma scalar_cases : forall c, scalar c = true ->
  (c < 65536 /\ enc16 c = [c] /\ is_high c = false /\ is_low c = false /\ 0 <= c) \/
  (65536 <= c /\ exists h l, enc16 c = [h; l] /\ is_high h = true /\ is_low l = true /\ is_eol c = false).
Proof.
  intros c H. unfold scalar in H.
  destruct (Z_lt_le_dec c 65536) as [Hlt|Hge].
  - left. unfold enc16, is_high, is_low.
    destruct (c <? 65536) eqn:E; [|apply Z.ltb_ge in E; lia].
    repeat split; lia.
  - right. split; [lia|].
    exists (55296 + (c - 65536) / 1024), (56320 + (c - 65536) mod 1024).
    unfold enc16. destruct (c <? 65536) eqn:E; [apply Z.ltb_lt in E; lia|].
    assert (Hc : c < 1114112) by lia.
    assert (Hd : 0 <= (c - 65536) / 1024 < 1024).
    { split; [apply Z.div_pos; lia|apply Z.div_lt_upper_bound; lia]. }
    assert (Hm : 0 <= (c - 65536) mod 1024 < 1024) by (apply Z.mod_pos_bound; lia).
    unfold is_high, is_low, is_eol.
    repeat split; lia.
Qed.

Lemma high_not_eol : forall h, is_high h = true -> h <> 10 /\ h <> 13.
Proof. intros h H. unfold is_high in H. apply andb_true_iff in H. destruct H as [H _]. apply Z.leb_le in H. lia. Qed.
Lemma low_not_eol : forall h, is_low h = true -> h <> 10 /\ h <> 13.
Proof. intros h H. unfold is_low in H. apply andb_true_iff in H. destruct H as [H _]. apply Z.leb_le in H. lia. Qed.

Lemma utf16_len_enc16 : forall c, utf16_len c = Z.of_nat (length (enc16 c)).
Proof. intro c. unfold utf16_len, enc16. destruct (c <? 65536); reflexivity. Qed.

Lemma to_utf16_cons : forall c r, to_utf16 (c :: r) = enc16 c ++ to_utf16 r.
Proof. reflexivity. Qed.

Lemma to_utf16_app : forall a b, to_utf16 (a ++ b) = to_utf16 a ++ to_utf16 b.
Proof. intros. unfold to_utf16. apply flat_map_app. Qed.

(** * lines *)
Definition push_front (x : units) (ls : list (units * nat)) : list (units * nat) :=
  match ls with
  | (ln, t) :: rest => (x ++ ln, t) :: rest
  | [] => [(x, 0%nat)]
  end.

Lemma split_lines_nonempty : forall u, split_lines u <> [].
Proof.
  intro u. destruct u as [|c r]; cbn [split_lines]; [discriminate|].
  destruct (c =? 10); [discriminate|]. destruct (c =? 13).
  - destruct r as [|n r']; [discriminate|]. destruct (n =? 10); discriminate.
  - destruct (split_lines r) as [|[ln t] rest]; discriminate.
Qed.

Lemma split_lines_noneol : forall x u, x <> 10 -> x <> 13 ->
  split_lines (x :: u) = push_front [x] (split_lines u).
Proof.
  intros x u H1 H2. cbn [split_lines].
  destruct (x =? 10) eqn:E1; [apply Z.eqb_eq in E1; lia|].
  destruct (x =? 13) eqn:E2; [apply Z.eqb_eq in E2; lia|].
  unfold push_front. destruct (split_lines u) as [|[ln t] rest]; reflexivity.
Qed.

Lemma split_lines_lf : forall u, split_lines (10 :: u) = ([], 1%nat) :: split_lines u.
Proof. reflexivity. Qed.

Lemma split_lines_crlf : forall u, split_lines (13 :: 10 :: u) = ([], 2%nat) :: split_lines u.
Proof. reflexivity. Qed.

Lemma split_lines_cr : forall u, hd 0 u <> 10 -> split_lines (13 :: u) = ([], 1%nat) :: split_lines u.
Proof.
  intros u H. cbn [split_lines]. cbn. destruct u as [|n r]; [reflexivity|].
  cbn in H. destruct (n =? 10) eqn:E; [apply Z.eqb_eq in E; lia|reflexivity].
Qed.

Lemma split_lines_enc16 : forall c u, scalar c = true -> is_eol c = false ->
  split_lines (enc16 c ++ u) = push_front (enc16 c) (split_lines u).
Proof.
  intros c u Hs He.
  assert (Hc : c <> 10 /\ c <> 13).
  { unfold is_eol in He. apply orb_false_iff in He. destruct He as [E1 E2].
    apply Z.eqb_neq in E1. apply Z.eqb_neq in E2. auto. }
  destruct (scalar_cases c Hs) as [(_ & En & _)|(_ & h & l & En & Hh & Hl & _)]; rewrite En.
  - cbn [app]. apply split_lines_noneol; tauto.
  - cbn [app]. destruct (high_not_eol h Hh). destruct (low_not_eol l Hl).
    rewrite split_lines_noneol by assumption. rewrite split_lines_noneol by assumption.
    pose proof (split_lines_nonempty u) as Hne.
    destruct (split_lines u) as [|[ln t] rest]; [congruence|]. reflexivity.
Qed.

Lemma hd_to_utf16 : forall m r, scalar m = true -> m <> 10 -> hd 0 (to_utf16 (m :: r)) <> 10.
Proof.
  intros m r Hs Hm. rewrite to_utf16_cons.
  destruct (scalar_cases m Hs) as [(_ & En & _)|(_ & h & l & En & Hh & _)]; rewrite En; cbn.
  - assumption.
  - apply (high_not_eol h Hh).
Qed.

Lemma offset_in_push_front_S : forall x ls l c, ls <> [] ->
  offset_in (push_front x ls) (S l) c = (length x + offset_in ls (S l) c)%nat.
Proof.
  intros x ls l c H. destruct ls as [|[ln t] rest]; [congruence|].
  cbn [push_front offset_in]. rewrite app_length. lia.
Qed.

Lemma offset_in_push_front_0 : forall x ls c, ls <> [] -> (length x <= c)%nat ->
  offset_in (push_front x ls) 0 c = (length x + offset_in ls 0 (c - length x))%nat.
Proof.
  intros x ls c H Hc. destruct ls as [|[ln t] rest]; [congruence|].
  cbn [push_front offset_in]. rewrite app_length. lia.
Qed.

(** * surrogate pairs *)
Lemma splits_pair_cons : forall x u o, splits_pair (x :: u) (S o) = false -> splits_pair u o = false.
Proof.
  intros x u o H. destruct o as [|o]; [reflexivity|]. cbn [splits_pair] in *. cbn [nth] in H. exact H.
Qed.

Lemma splits_pair_app : forall x u o, splits_pair (x ++ u) (length x + o) = false -> splits_pair u o = false.
Proof.
  induction x as [|a x IH]; intros u o H; [exact H|].
  cbn [app length plus] in H. apply splits_pair_cons in H. auto.
Qed.

Lemma max0_sub : forall (c : nat) ch, Z.max 0 (Z.of_nat c - utf16_len ch) = Z.of_nat (c - length (enc16 ch)).
Proof. intros. rewrite utf16_len_enc16. lia. Qed.

(** * pos_to_byte_index reaches the char at the position's UTF-16 offset *)
Lemma p2k_offset : forall n s, (length s <= n)%nat -> Forall (fun c => scalar c = true) s ->
  forall l c : nat,
  splits_pair (to_utf16 s) (offset_in (split_lines (to_utf16 s)) l c) = false ->
  offset_in (split_lines (to_utf16 s)) l c = length (to_utf16 (firstn (p2k s (Z.of_nat l) (Z.of_nat c)) s)).
Proof.
  induction n as [|n IH]; intros s Hlen Hsc l c Hsp.
  - destruct s; [|cbn in Hlen; lia]. cbn. destruct l; cbn; lia.
  - destruct s as [|ch r].
    { cbn. destruct l; cbn; lia. }
    cbn [length] in Hlen. inversion Hsc as [|? ? Hch Hr]; subst.
    rewrite to_utf16_cons in *.
    cbn [p2k].
    destruct l as [|l'].
    + (* on the target line *)
      cbn [Z.of_nat Z.eqb].
      destruct (is_eol ch) eqn:Eeol.
      * (* at a line terminator: end of line *)
        rewrite orb_true_r. cbn [firstn to_utf16 flat_map length].
        destruct (scalar_cases ch Hch) as [(_ & En & _)|(_ & h & lo & _ & _ & _ & Ene)]; [|congruence].
        rewrite En. cbn [app].
        unfold is_eol in Eeol. apply orb_true_iff in Eeol.
        destruct Eeol as [E|E]; apply Z.eqb_eq in E; subst ch.
        -- rewrite split_lines_lf. cbn. lia.
        -- cbn [split_lines]. cbn. destruct (to_utf16 r) as [|m u']; [cbn; lia|].
           destruct (m =? 10); cbn; lia.
      * rewrite orb_false_r.
        pose proof (split_lines_nonempty (to_utf16 r)) as Hne.
        rewrite split_lines_enc16 in * by assumption.
        destruct c as [|c'].
        { cbn [Z.of_nat Z.eqb]. cbn [firstn to_utf16 flat_map length].
          destruct (split_lines (to_utf16 r)) as [|[ln t] rest]; [congruence|]. cbn. reflexivity. }
        replace (Z.of_nat (S c') =? 0) with false by (symmetry; apply Z.eqb_neq; lia).
        rewrite max0_sub.
        cbn [firstn]. rewrite to_utf16_cons, app_length.
        destruct (scalar_cases ch Hch) as [(_ & En & _)|(_ & h & lo & En & Hh & Hl & _)]; rewrite En in *.
        -- (* BMP char: one unit *)
           cbn [length] in *.
           rewrite offset_in_push_front_0 in * by (cbn [length]; auto; lia).
           cbn [length] in *.
           replace (S c' - 1)%nat with c' in * by lia.
           cbn [plus app] in Hsp. apply splits_pair_cons in Hsp.
           rewrite (IH r ltac:(lia) Hr 0%nat c' Hsp). cbn [Z.of_nat]. lia.
        -- (* astral char: two units *)
           cbn [length] in *.
           destruct c' as [|c''].
           { (* character offset 1 is inside the pair *)
             exfalso. destruct (split_lines (to_utf16 r)) as [|[ln t] rest]; [congruence|].
             cbn in Hsp. rewrite Hh, Hl in Hsp. discriminate. }
           rewrite offset_in_push_front_0 in * by (cbn [length]; auto; lia).
           cbn [length] in *.
           replace (S (S c'') - 2)%nat with c'' in * by lia.
           cbn [plus app] in Hsp. apply splits_pair_cons in Hsp. apply splits_pair_cons in Hsp.
           rewrite (IH r ltac:(lia) Hr 0%nat c'' Hsp). cbn [Z.of_nat]. lia.
    + (* before the target line *)
      replace (Z.of_nat (S l') =? 0) with false by (symmetry; apply Z.eqb_neq; lia).
      replace (Z.of_nat (S l') - 1) with (Z.of_nat l') by lia.
      destruct (is_eol ch) eqn:Eeol.
      * destruct (scalar_cases ch Hch) as [(_ & En & _)|(_ & h & lo & _ & _ & _ & Ene)]; [|congruence].
        rewrite En in *. cbn [app] in *.
        unfold is_eol in Eeol. apply orb_true_iff in Eeol.
        destruct Eeol as [E|E]; apply Z.eqb_eq in E; subst ch.
        -- (* "\n" *)
           rewrite split_lines_lf in *. cbn [offset_in length plus] in *.
           apply splits_pair_cons in Hsp.
           change (10 =? 13) with false. cbn [andb].
           assert (Hk : match r with
                        | _ :: _ => S (p2k r (Z.of_nat l') (Z.of_nat c))
                        | [] => S (p2k r (Z.of_nat l') (Z.of_nat c))
                        end = S (p2k r (Z.of_nat l') (Z.of_nat c))) by (destruct r; reflexivity).
           rewrite Hk. rewrite (IH r ltac:(lia) Hr l' c Hsp).
           cbn [firstn]. rewrite (to_utf16_cons 10). cbn. lia.
        -- (* "\r" *)
           destruct r as [|m r'].
           ++ rewrite split_lines_cr in * by (cbn; lia). cbn [offset_in length plus] in *.
              apply splits_pair_cons in Hsp.
              rewrite (IH [] ltac:(cbn; lia) Hr l' c Hsp). cbn. lia.
           ++ inversion Hr as [|? ? Hm Hr']; subst.
              destruct (m =? 10) eqn:Em.
              ** (* "\r\n" *)
                 apply Z.eqb_eq in Em. subst m. change (13 =? 13) with true. cbn [andb].
                 change (to_utf16 (10 :: r')) with (10 :: to_utf16 r') in *.
                 rewrite split_lines_crlf in *. cbn [offset_in length plus] in *.
                 apply splits_pair_cons in Hsp. apply splits_pair_cons in Hsp.
                 cbn [length] in Hlen.
                 rewrite (IH r' ltac:(lia) Hr' l' c Hsp).
                 cbn [firstn]. rewrite (to_utf16_cons 13), (to_utf16_cons 10). cbn. lia.
              ** apply Z.eqb_neq in Em.
                 rewrite split_lines_cr in * by (apply hd_to_utf16; assumption).
                 cbn [offset_in length plus] in *.
                 apply splits_pair_cons in Hsp.
                 change (13 =? 13) with true. cbn [andb].
                 rewrite (IH (m :: r') ltac:(cbn [length]; lia) Hr l' c Hsp).
                 cbn [firstn]. rewrite (to_utf16_cons 13). cbn. lia.
      * (* ordinary char *)
        pose proof (split_lines_nonempty (to_utf16 r)) as Hne.
        rewrite split_lines_enc16 in * by assumption.
        rewrite offset_in_push_front_S in * by assumption.
        apply splits_pair_app in Hsp.
        rewrite (IH r ltac:(lia) Hr (S l') c Hsp).
        cbn [firstn]. rewrite to_utf16_cons, app_length. reflexivity.
Qed.

Definition scalars (s : text) : Prop := Forall (fun c => scalar c = true) s.

Lemma forallb_scalars : forall s, forallb scalar s = true -> scalars s.
Proof. intros s H. apply Forall_forall. intros x Hx. rewrite forallb_forall in H. auto. Qed.

Lemma scalars_app : forall a b, scalars a -> scalars b -> scalars (a ++ b).
Proof. intros. apply Forall_app. auto. Qed.

Lemma scalars_firstn : forall k s, scalars s -> scalars (firstn k s).
Proof.
  induction k as [|k IH]; intros s H; [constructor|].
  destruct s as [|c r]; [constructor|]. inversion H; subst. cbn [firstn]. constructor; auto. apply IH; auto.
Qed.

Lemma scalars_skipn : forall k s, scalars s -> scalars (skipn k s).
Proof.
  induction k as [|k IH]; intros s H; [exact H|].
  destruct s as [|c r]; [constructor|]. inversion H; subst. cbn [skipn]. apply IH; auto.
Qed.

(** * monotonicity of prefix lengths *)
Lemma str_len_firstn_mono : forall d a b, (a <= b)%nat -> str_len (firstn a d) <= str_len (firstn b d).
Proof.
  induction d as [|c r IH]; intros a b Hab.
  - destruct a, b; cbn; lia.
  - destruct a as [|a]; destruct b as [|b]; cbn [firstn str_len]; try lia.
    + pose proof (utf8_len_bounds c). pose proof (str_len_nonneg (firstn b r)). lia.
    + specialize (IH a b ltac:(lia)). lia.
Qed.

Lemma enc16_nonempty : forall c, (1 <= length (enc16 c))%nat.
Proof. intro c. unfold enc16. destruct (c <? 65536); cbn; lia. Qed.

Lemma units_firstn_strict : forall d a b, (a < b)%nat -> (b <= length d)%nat ->
  (length (to_utf16 (firstn a d)) < length (to_utf16 (firstn b d)))%nat.
Proof.
  induction d as [|c r IH]; intros a b Hab Hb.
  - cbn in Hb. lia.
  - destruct b as [|b]; [lia|]. cbn [length] in Hb.
    destruct a as [|a]; cbn [firstn]; rewrite ?to_utf16_cons, ?app_length.
    + pose proof (enc16_nonempty c). cbn. lia.
    + specialize (IH a b ltac:(lia) ltac:(lia)). lia.
Qed.

Lemma to_utf16_firstn_skipn : forall k d, (k <= length d)%nat ->
  firstn (length (to_utf16 (firstn k d))) (to_utf16 d) = to_utf16 (firstn k d) /\
  skipn (length (to_utf16 (firstn k d))) (to_utf16 d) = to_utf16 (skipn k d).
Proof.
  intros k d Hk.
  assert (E : to_utf16 d = to_utf16 (firstn k d) ++ to_utf16 (skipn k d)).
  { rewrite <- to_utf16_app, firstn_skipn. reflexivity. }
  rewrite E. split.
  - rewrite firstn_app, Nat.sub_diag, firstn_all. cbn. apply app_nil_r.
  - rewrite skipn_app, Nat.sub_diag, skipn_all. reflexivity.
Qed.

(** * one ranged change on the server *)
Lemma replace_range_prefixes : forall d ks ke t, (ks <= ke)%nat -> (ke <= length d)%nat ->
  replace_range d (str_len (firstn ks d)) (str_len (firstn ke d)) t = Ok (firstn ks d ++ t ++ skipn ke d).
Proof.
  intros d ks ke t H1 H2. unfold replace_range.
  rewrite !split_at_byte_firstn by lia.
  pose proof (str_len_firstn_mono d ks ke H1) as Hm.
  destruct (str_len (firstn ks d) <=? str_len (firstn ke d)) eqn:E; [reflexivity|].
  apply Z.leb_gt in E. lia.
Qed.

Lemma ranged_change_model : forall d sl sc el ec t,
  let ks := p2k d sl sc in
  let ke := p2k d el ec in
  replace_range d (Z.min (pos_to_byte_index d sl sc) (pos_to_byte_index d el ec))
                  (Z.max (pos_to_byte_index d sl sc) (pos_to_byte_index d el ec)) t
  = Ok (firstn (Nat.min ks ke) d ++ t ++ skipn (Nat.max ks ke) d).
Proof.
  intros d sl sc el ec t ks ke.
  rewrite !pos_to_byte_index_p2k. fold ks ke.
  pose proof (p2k_le d sl sc) as H1. pose proof (p2k_le d el ec) as H2. fold ks in H1. fold ke in H2.
  destruct (le_ge_dec ks ke) as [Hle|Hge].
  - pose proof (str_len_firstn_mono d ks ke Hle).
    rewrite Z.min_l, Z.max_r, Nat.min_l, Nat.max_r by lia.
    apply replace_range_prefixes; lia.
  - pose proof (str_len_firstn_mono d ke ks Hge).
    rewrite Z.min_r, Z.max_l, Nat.min_r, Nat.max_l by lia.
    apply replace_range_prefixes; lia.
Qed.

(** the server never panics on a change list, whatever the positions are *)
Lemma apply_changes_no_panic : forall cs d, apply_changes d cs <> Panic.
Proof.
  induction cs as [|c r IH]; intros d; cbn [apply_changes]; [discriminate|].
  destruct c as [t|sl sc el ec t]; [apply IH|].
  rewrite ranged_change_model. apply IH.
Qed.

(** * one change: server against client *)
Lemma valid_pos_offset : forall d l c, scalars d -> valid_pos (to_utf16 d) l c = true ->
  offset_of (to_utf16 d) l c = length (to_utf16 (firstn (p2k d l c) d)).
Proof.
  intros d l c Hd Hv. unfold valid_pos in Hv.
  apply andb_true_iff in Hv. destruct Hv as [Hv Hsp].
  apply andb_true_iff in Hv. destruct Hv as [Hv _].
  apply andb_true_iff in Hv. destruct Hv as [Hl Hc].
  apply Z.leb_le in Hl. apply Z.leb_le in Hc. apply negb_true_iff in Hsp.
  unfold offset_of in *.
  rewrite (p2k_offset (length d) d (le_n _) Hd (Z.to_nat l) (Z.to_nat c) Hsp).
  rewrite !Z2Nat.id by assumption. reflexivity.
Qed.

Lemma change_refines : forall d c, scalars d -> valid_change (to_utf16 d) c = true ->
  exists d', apply_changes d [c] = Ok d' /\ to_utf16 d' = client_change (to_utf16 d) c /\ scalars d'.
Proof.
  intros d c Hd Hv. destruct c as [t|sl sc el ec t]; cbn [apply_changes valid_change client_change] in *.
  - exists t. repeat split. apply forallb_scalars; assumption.
  - apply andb_true_iff in Hv. destruct Hv as [Hv Ht].
    apply andb_true_iff in Hv. destruct Hv as [Hv Hle].
    apply andb_true_iff in Hv. destruct Hv as [Hs He].
    apply Nat.leb_le in Hle.
    rewrite (valid_pos_offset d sl sc Hd Hs) in *. rewrite (valid_pos_offset d el ec Hd He) in *.
    pose proof (p2k_le d sl sc) as H1. pose proof (p2k_le d el ec) as H2.
    assert (Hk : (p2k d sl sc <= p2k d el ec)%nat).
    { destruct (le_lt_dec (p2k d sl sc) (p2k d el ec)) as [|Hlt]; [assumption|].
      pose proof (units_firstn_strict d _ _ Hlt H1). lia. }
    rewrite ranged_change_model. rewrite Nat.min_l, Nat.max_r by assumption.
    eexists. split; [reflexivity|]. split.
    + rewrite !to_utf16_app.
      destruct (to_utf16_firstn_skipn (p2k d sl sc) d H1) as [F1 _].
      destruct (to_utf16_firstn_skipn (p2k d el ec) d H2) as [_ F2].
      rewrite F1, F2. reflexivity.
    + apply scalars_app; [apply scalars_firstn; assumption|].
      apply scalars_app; [apply forallb_scalars; assumption|apply scalars_skipn; assumption].
Qed.

Lemma apply_changes_cons : forall d c r,
  apply_changes d (c :: r) = match apply_changes d [c] with Ok d' => apply_changes d' r | Panic => Panic end.
Proof.
  intros d c r. destruct c as [t|sl sc el ec t]; cbn [apply_changes]; [reflexivity|].
  destruct (replace_range d _ _ t); reflexivity.
Qed.

Lemma changes_refine : forall cs d, scalars d -> valid_changes (to_utf16 d) cs = true ->
  exists d', apply_changes d cs = Ok d' /\ to_utf16 d' = client_changes (to_utf16 d) cs /\ scalars d'.
Proof.
  induction cs as [|c r IH]; intros d Hd Hv.
  - exists d. repeat split; assumption.
  - cbn [valid_changes client_changes] in *. apply andb_true_iff in Hv. destruct Hv as [Hc Hr].
    destruct (change_refines d c Hd Hc) as (d1 & E1 & U1 & S1).
    rewrite <- U1 in *. destruct (IH d1 S1 Hr) as (d2 & E2 & U2 & S2).
    exists d2. rewrite apply_changes_cons, E1. repeat split; assumption.
Qed.

(** * association lists *)
Lemma get_set_eq : forall A k (v : A) m, get k (set k v m) = Some v.
Proof. intros. unfold set. cbn [get]. rewrite Z.eqb_refl. reflexivity. Qed.

Lemma get_filter_neq : forall A k k' (m : list (Z * A)), k' <> k ->
  get k' (filter (fun p => negb (fst p =? k)) m) = get k' m.
Proof.
  intros A k k' m Hne. induction m as [|[a v] r IH]; [reflexivity|].
  cbn [filter fst get]. destruct (a =? k) eqn:E; cbn [negb get].
  - apply Z.eqb_eq in E. subst a. destruct (k =? k') eqn:E2; [apply Z.eqb_eq in E2; congruence|exact IH].
  - rewrite IH. reflexivity.
Qed.

Lemma get_set_neq : forall A k k' (v : A) m, k' <> k -> get k' (set k v m) = get k' m.
Proof.
  intros. unfold set. cbn [get]. destruct (k =? k') eqn:E; [apply Z.eqb_eq in E; congruence|].
  apply get_filter_neq; assumption.
Qed.

(** * simulation between server state and client state *)
Definition sim (st : state) (cs : cstate) : Prop :=
  forall uri,
    match get uri cs with
    | None => get uri (files st) = None /\ get uri (vfs st) = None
    | Some (u, v) => exists e, get uri (files st) = Some e /\ to_utf16 (code e) = u /\ ver e = v /\
                               get uri (vfs st) = Some (code e) /\ scalars (code e)
    end.

Lemma sim_init : sim init [].
Proof. intro uri. cbn. split; reflexivity. Qed.

Lemma sim_set : forall st cs uri t v,
  sim st cs -> scalars t ->
  sim {| files := set uri {| code := t; ver := v |} (files st); vfs := set uri t (vfs st) |}
      (set uri (to_utf16 t, v) cs).
Proof.
  intros st cs uri t v Hs Ht k. cbn [files vfs].
  destruct (Z.eq_dec k uri) as [->|Hne].
  - rewrite !get_set_eq. eexists. repeat split; assumption.
  - rewrite !get_set_neq by assumption. apply Hs.
Qed.

Lemma step_sim : forall st cs n, sim st cs -> valid_notif cs n = true ->
  exists st', step st n = Ok st' /\ sim st' (client_step cs n).
Proof.
  intros st cs n Hs Hv. destruct n as [uri v t|uri v chs]; cbn [valid_notif step client_step] in *.
  - destruct (get uri cs) as [p|] eqn:G; [discriminate|].
    pose proof (Hs uri) as Hu. rewrite G in Hu. destruct Hu as [Hf _].
    unfold update. rewrite Hf. cbn iota.
    eexists. split; [reflexivity|]. apply sim_set; [assumption|apply forallb_scalars; assumption].
  - destruct (get uri cs) as [[u v0]|] eqn:G; [|discriminate].
    apply andb_true_iff in Hv. destruct Hv as [Hver Hch]. apply Z.ltb_lt in Hver.
    pose proof (Hs uri) as Hu. rewrite G in Hu. destruct Hu as (e & Hf & Hu & Hv0 & Hvfs & Hsc).
    unfold incremental_update. rewrite Hf.
    destruct (v <=? ver e) eqn:E; [apply Z.leb_le in E; lia|].
    rewrite <- Hu in Hch. destruct (changes_refine chs (code e) Hsc Hch) as (d' & E1 & U1 & S1).
    rewrite E1. eexists. split; [reflexivity|].
    rewrite <- Hu, <- U1. apply sim_set; assumption.
Qed.

Lemma run_sim : forall ns st cs, sim st cs -> follows_lsp cs ns = true ->
  exists st', run st ns = Ok st' /\ sim st' (client_run cs ns).
Proof.
  induction ns as [|n r IH]; intros st cs Hs Hv; cbn [run follows_lsp client_run] in *.
  - exists st. split; [reflexivity|assumption].
  - apply andb_true_iff in Hv. destruct Hv as [Hn Hr].
    destruct (step_sim st cs n Hs Hn) as (st1 & E1 & S1). rewrite E1. apply IH; assumption.
Qed.

Lemma sim_observe : forall st cs uri, sim st cs ->
  option_map to_utf16 (server_text st uri) = client_text cs uri /\
  server_version st uri = client_version cs uri /\
  server_vfs st uri = server_text st uri.
Proof.
  intros st cs uri Hs. specialize (Hs uri).
  unfold server_text, server_version, server_vfs, client_text, client_version.
  destruct (get uri cs) as [[u v]|].
  - destruct Hs as (e & Hf & Hu & Hv & Hvfs & _). rewrite Hf, Hvfs. cbn. subst. repeat split.
  - destruct Hs as [Hf Hvfs]. rewrite Hf, Hvfs. repeat split.
Qed.

Lemma history_refines : forall ns, follows_lsp [] ns = true ->
  exists st, run init ns = Ok st /\
    forall uri,
      option_map to_utf16 (server_text st uri) = client_text (client_run [] ns) uri /\
      server_version st uri = client_version (client_run [] ns) uri /\
      server_vfs st uri = server_text st uri.
Proof.
  intros ns Hv. destruct (run_sim ns init [] sim_init Hv) as (st & E & S).
  exists st. split; [assumption|]. intro uri. apply sim_observe; assumption.
Qed.

(** * the server keeps running on any notification sequence *)
Lemma step_no_panic : forall st n, step st n <> Panic.
Proof.
  intros st n. destruct n as [uri v t|uri v chs]; cbn [step]; [discriminate|].
  unfold incremental_update. destruct (get uri (files st)) as [e|]; [|discriminate].
  destruct (v <=? ver e); [discriminate|].
  pose proof (apply_changes_no_panic chs (code e)). destruct (apply_changes (code e) chs); [discriminate|congruence].
Qed.

Lemma run_no_panic : forall ns st, run st ns <> Panic.
Proof.
  induction ns as [|n r IH]; intros st; cbn [run]; [discriminate|].
  pose proof (step_no_panic st n). destruct (step st n); [apply IH|congruence].
Qed.

(** * equal UTF-16 forms mean equal texts *)
Lemma enc16_astral : forall c, 65536 <= c ->
  enc16 c = [55296 + (c - 65536) / 1024; 56320 + (c - 65536) mod 1024].
Proof. intros c H. unfold enc16. destruct (c <? 65536) eqn:E; [apply Z.ltb_lt in E; lia|reflexivity]. Qed.

Lemma cons2_inj : forall (a b c d : Z) l m, a :: b :: l = c :: d :: m -> a = c /\ b = d /\ l = m.
Proof. intros a b c d l m H. inversion H. auto. Qed.

Lemma to_utf16_inj : forall a b, scalars a -> scalars b -> to_utf16 a = to_utf16 b -> a = b.
Proof.
  induction a as [|x a IH]; intros b Ha Hb E.
  - destruct b as [|y b]; [reflexivity|]. rewrite to_utf16_cons in E. cbn in E.
    pose proof (enc16_nonempty y). destruct (enc16 y); cbn in *; [lia|discriminate].
  - destruct b as [|y b].
    + rewrite to_utf16_cons in E. pose proof (enc16_nonempty x). destruct (enc16 x); cbn in *; [lia|discriminate].
    + inversion Ha as [|? ? Hx Ha']; subst. inversion Hb as [|? ? Hy Hb']; subst.
      rewrite !to_utf16_cons in E.
      destruct (scalar_cases x Hx) as [(Lx & Ex & Hhx & Hlx & Px)|(Gx & hx & lx & Ex & Hhx & Hlx & _)];
      destruct (scalar_cases y Hy) as [(Ly & Ey & Hhy & Hly & Py)|(Gy & hy & ly & Ey & Hhy & Hly & _)].
      * rewrite Ex, Ey in E. cbn [app] in E. injection E as E1 E2. subst. f_equal. apply IH; assumption.
      * rewrite Ex, Ey in E. cbn [app] in E. injection E as E1 E2. subst. congruence.
      * rewrite Ex, Ey in E. cbn [app] in E. injection E as E1 E2. subst. congruence.
      * clear Ex Ey. rewrite (enc16_astral x Gx), (enc16_astral y Gy) in E. cbn [app] in E.
        apply cons2_inj in E. destruct E as (Eh & El & Er).
        assert (x = y).
        { assert (Hdx := Z.div_mod (x - 65536) 1024 ltac:(lia)).
          assert (Hdy := Z.div_mod (y - 65536) 1024 ltac:(lia)). lia. }
        subst y. f_equal. apply IH; assumption.
Qed.

(** * the executable judge agrees with the statement *)
Lemma units_eqb_eq : forall a b, units_eqb a b = true <-> a = b.
Proof.
  induction a as [|x a IH]; intros [|y b]; cbn [units_eqb]; split; intro H; try reflexivity; try discriminate.
  - apply andb_true_iff in H. destruct H as [H1 H2]. apply Z.eqb_eq in H1. apply IH in H2. congruence.
  - inversion H; subst. rewrite Z.eqb_refl. cbn. apply IH. reflexivity.
Qed.

Lemma judge_doc_sound : forall cs uri t v w,
  judge_doc cs uri (Some (t, v, Some w)) = true ->
  client_text cs uri = Some (to_utf16 t) /\ client_version cs uri = Some v /\ to_utf16 w = to_utf16 t.
Proof.
  intros cs uri t v w H. unfold judge_doc, client_text, client_version in *.
  destruct (get uri cs) as [[u v0]|]; [|discriminate].
  apply andb_true_iff in H. destruct H as [H H3]. apply andb_true_iff in H. destruct H as [H1 H2].
  apply units_eqb_eq in H1. apply units_eqb_eq in H3. apply Z.eqb_eq in H2. subst. cbn. repeat split. assumption.
Qed.

Lemma sim_judge : forall st cs uris, sim st cs ->
  judge cs true false (map (fun uri => (uri, observe st uri)) uris) = true.
Proof.
  intros st cs uris Hs. unfold judge. cbn [negb andb orb].
  apply forallb_forall. intros [uri o] Hin. apply in_map_iff in Hin. destruct Hin as (u & E & _).
  inversion E; subst. cbn [fst snd]. specialize (Hs uri). unfold judge_doc, observe.
  destruct (get uri cs) as [[un v]|].
  - destruct Hs as (e & Hf & Hu & Hv & Hvfs & _). rewrite Hf, Hvfs. subst.
    rewrite (proj2 (units_eqb_eq _ _) eq_refl), Z.eqb_refl. reflexivity.
  - destruct Hs as [Hf _]. rewrite Hf. reflexivity.
Qed.

Lemma history_judged : forall ns uris, follows_lsp [] ns = true ->
  exists st, run init ns = Ok st /\
             judge (client_run [] ns) true false (map (fun uri => (uri, observe st uri)) uris) = true.
Proof.
  intros ns uris Hv. destruct (run_sim ns init [] sim_init Hv) as (st & E & S).
  exists st. split; [assumption|]. apply sim_judge; assumption.
Qed.

Lemma pos_to_byte_index_judged : forall d l c, scalars d -> valid_pos (to_utf16 d) l c = true ->
  judge_pos d l c (pos_to_byte_index d l c) = true.
Proof.
  intros d l c Hd Hv. unfold judge_pos.
  rewrite pos_to_byte_index_p2k, split_at_byte_firstn by apply p2k_le.
  rewrite (valid_pos_offset d l c Hd Hv). apply Nat.eqb_refl.
Qed.

(** * the code before the fixes: witnesses (replayed on the real server by checks/c28.py, see known/C28.json) *)
Definition w_astral_doc : text := [97; 128512; 98].                 (* "a😀b" *)
Definition w_astral_change : change := Ranged 0 3 0 3 [120].       (* insert "x" after the emoji: UTF-16 offset 3 *)
Definition w_eol_doc : text := [97; 98; 10; 99; 100].               (* "ab\ncd" *)
Definition w_eol_change : change := Ranged 0 5 0 5 [120].          (* offset 5 on a line of length 2: end of line 0 *)
Definition w_eof_doc : text := [97; 233].                           (* "aé" *)
Definition w_eof_change : change := Ranged 0 2 0 2 [120].          (* append at the end of the document *)
Definition w_cr_doc : text := [97; 13; 98].                         (* "a\rb" *)
Definition w_cr_change : change := Ranged 1 0 1 0 [120].           (* start of line 1 *)
Definition w_full_doc : text := [97; 98].
Definition w_full_change : change := Full [120].
Definition w_empty_history : list notif := [DidOpen 0 1 [97; 98]; DidChange 0 2 []].
Definition w_inverted_history : list notif := [DidOpen 0 1 [97; 98]; DidChange 0 2 [Ranged 0 2 0 1 [120]]].

Lemma astral_nofix_refuted :
  scalars w_astral_doc /\ valid_change (to_utf16 w_astral_doc) w_astral_change = true /\
  ~ (exists d', apply_changes_nofix w_astral_doc [w_astral_change] = Ok d' /\
                to_utf16 d' = client_change (to_utf16 w_astral_doc) w_astral_change).
Proof.
  split; [repeat constructor|]. split; [vm_compute; reflexivity|].
  intros (d' & E & U). vm_compute in E. inversion E; subst. vm_compute in U. discriminate.
Qed.

Lemma past_eol_nofix_refuted :
  scalars w_eol_doc /\ valid_change (to_utf16 w_eol_doc) w_eol_change = true /\
  ~ (exists d', apply_changes_nofix w_eol_doc [w_eol_change] = Ok d' /\
                to_utf16 d' = client_change (to_utf16 w_eol_doc) w_eol_change).
Proof.
  split; [repeat constructor|]. split; [vm_compute; reflexivity|].
  intros (d' & E & U). vm_compute in E. inversion E; subst. vm_compute in U. discriminate.
Qed.

Lemma trailing_multibyte_nofix_refuted :
  scalars w_eof_doc /\ valid_change (to_utf16 w_eof_doc) w_eof_change = true /\
  apply_changes_nofix w_eof_doc [w_eof_change] = Panic.
Proof. split; [repeat constructor|]. split; vm_compute; reflexivity. Qed.

Lemma lone_cr_nofix_refuted :
  scalars w_cr_doc /\ valid_change (to_utf16 w_cr_doc) w_cr_change = true /\
  ~ (exists d', apply_changes_nofix w_cr_doc [w_cr_change] = Ok d' /\
                to_utf16 d' = client_change (to_utf16 w_cr_doc) w_cr_change).
Proof.
  split; [repeat constructor|]. split; [vm_compute; reflexivity|].
  intros (d' & E & U). vm_compute in E. inversion E; subst. vm_compute in U. discriminate.
Qed.

Lemma full_text_nofix_refuted :
  scalars w_full_doc /\ valid_change (to_utf16 w_full_doc) w_full_change = true /\
  ~ (exists d', apply_changes_nofix w_full_doc [w_full_change] = Ok d' /\
                to_utf16 d' = client_change (to_utf16 w_full_doc) w_full_change).
Proof.
  split; [repeat constructor|]. split; [vm_compute; reflexivity|].
  intros (d' & E & U). vm_compute in E. inversion E; subst. vm_compute in U. discriminate.
Qed.

Lemma empty_changes_nofix_refuted :
  follows_lsp [] w_empty_history = true /\ run_nofix init w_empty_history = Panic.
Proof. split; vm_compute; reflexivity. Qed.

Lemma inverted_range_nofix_refuted :
  run_nofix init w_inverted_history = Panic.
Proof. vm_compute. reflexivity. Qed.

(** * non-vacuity: concrete inputs meeting the hypotheses *)
Definition ex_doc : text := [97; 128512; 233; 13; 10; 98; 119987; 12354].       (* "a😀é\r\nb𝒳あ" *)
Definition ex_change : change := Ranged 0 3 1 99 [120; 128512; 10].           (* from after the emoji to past the end of line 1 *)
Definition ex_history : list notif :=
  [ DidOpen 0 1 ex_doc;
    DidOpen 1 7 [233];
    DidChange 0 2 [ex_change; Ranged 1 0 1 0 [13; 10]; Ranged 2 0 2 0 [119987]];
    DidChange 1 8 [Ranged 0 1 0 1 [120]; Full [97; 10; 98]];
    DidChange 0 5 [] ].
Definition ex_malformed : list notif :=
  [ DidOpen 0 1 ex_doc; DidChange 0 2 [Ranged 9 0 0 2 [120]; Ranged 0 2 0 2 [121]]; DidChange 3 1 [Full []];
    DidChange 0 2 [Full []] ].

Lemma ex_change_valid : scalars ex_doc /\ valid_change (to_utf16 ex_doc) ex_change = true.
Proof. split; [repeat constructor|vm_compute; reflexivity]. Qed.

Lemma ex_change_result :
  apply_changes ex_doc [ex_change] = Ok [97; 128512; 120; 128512; 10].
Proof. vm_compute. reflexivity. Qed.

Lemma ex_history_valid : follows_lsp [] ex_history = true.
Proof. vm_compute. reflexivity. Qed.

Lemma ex_history_result :
  option_map (fun st => (server_text st 0, server_text st 1)) (match run init ex_history with Ok st => Some st | Panic => None end)
  = Some (Some [97; 128512; 120; 128512; 10; 13; 10; 119987], Some [97; 10; 98]).
Proof. vm_compute. reflexivity. Qed.

Lemma ex_malformed_not_lsp : follows_lsp [] ex_malformed = false.
Proof. vm_compute. reflexivity. Qed.
