(** extraction entry point for the C28 correspondence check and judge
    build dependencies (this line is read by lib/vplib.py Model): ErgV.Common.Sx ErgV.TextSync.Model ErgV.TextSync.Spec *)
From Coq Require Import ZArith List Bool Arith.
From ErgV Require Import Common.Sx TextSync.Model TextSync.Spec.
Import ListNotations.
Open Scope Z_scope.

Definition dec_change (x : sx) : change :=
  if sx_z (sx_nth x 0) =? 0 then Full (sx_zs (sx_nth x 1))
  else Ranged (sx_z (sx_nth x 1)) (sx_z (sx_nth x 2)) (sx_z (sx_nth x 3)) (sx_z (sx_nth x 4)) (sx_zs (sx_nth x 5)).

Definition dec_notif (x : sx) : notif :=
  if sx_z (sx_nth x 0) =? 0 then DidOpen (sx_z (sx_nth x 1)) (sx_z (sx_nth x 2)) (sx_zs (sx_nth x 3))
  else DidChange (sx_z (sx_nth x 1)) (sx_z (sx_nth x 2)) (map dec_change (sx_l (sx_nth x 3))).

Definition uris_of (ndocs : Z) : list Z := map Z.of_nat (seq 0 (Z.to_nat ndocs)).

(** one document as the harness prints it: (present cache_text cache_ver vfs_present vfs_text) *)
Definition enc_obs (o : option (text * Z * option text)) (v : option text) : sx :=
  let vp := match v with Some w => SL [SZ 1; sx_of_zs w] | None => SL [SZ 0; SL []] end in
  match o with
  | Some (t, ver, _) => SL [SZ 1; sx_of_zs t; SZ ver; sx_nth vp 0; sx_nth vp 1]
  | None => SL [SZ 0; SL []; SZ 0; sx_nth vp 0; sx_nth vp 1]
  end.

Definition enc_state (st : state) (uris : list Z) : list sx :=
  map (fun u => enc_obs (observe st u) (server_vfs st u)) uris.

Definition dec_obs (x : sx) : option (text * Z * option text) :=
  if sx_z (sx_nth x 0) =? 0 then None
  else Some (sx_zs (sx_nth x 1), sx_z (sx_nth x 2),
             if sx_z (sx_nth x 3) =? 0 then None else Some (sx_zs (sx_nth x 4))).

Section Run.
  Variable stepf : state -> notif -> res state.
  Fixpoint model_run (st : state) (uris : list Z) (ns : list notif) : list sx :=
    match ns with
    | [] => []
    | n :: r =>
      match stepf st n with
      | Panic => [SL [SZ (-999)]]
      | Ok st' => SL (SZ 0 :: enc_state st' uris) :: model_run st' uris r
      end
    end.
End Run.

Definition enc_client (cs : cstate) (uris : list Z) : sx :=
  SL (map (fun u => match get u cs with
                    | Some (un, v) => SL [SZ 1; sx_of_zs un; SZ v]
                    | None => SL [SZ 0; SL []; SZ 0]
                    end) uris).

(** per executed notification: (conforming-so-far verdict client-documents) *)
Fixpoint judge_run (cs : cstate) (conf : bool) (uris : list Z) (ns : list notif) (obs : list sx) : list sx :=
  match ns, obs with
  | n :: r, o :: ro =>
    let conf' := conf && valid_notif cs n in
    let cs' := client_step cs n in
    let panicked := sx_z (sx_nth o 0) =? -999 in
    let docs := map (fun u => (u, dec_obs (sx_nth o (S (Z.to_nat u))))) uris in
    SL [sx_bool conf'; sx_bool (judge cs' conf' panicked docs); enc_client cs' uris] :: judge_run cs' conf' uris r ro
  | _, _ => []
  end.

(** modes:
    (0 text ((line char) ...))          -> model pos_to_byte_index per position
    (1 ndocs notifs)                    -> model run: per notification (0 doc...) | (-999)
    (2 ndocs notifs observations)       -> judge per executed notification: (conforming verdict client-docs)
    (3 text ((line char idx) ...))      -> per position (valid_pos judge_pos): reference verdict on a claimed byte index
    (4 ndocs notifs)                    -> like 1 for the code before the fixes (model _nofix)          *)
Definition run (x : sx) : sx :=
  let mode := sx_z (sx_nth x 0) in
  if mode =? 0 then
    let d := sx_zs (sx_nth x 1) in
    SL (map (fun p => SZ (pos_to_byte_index d (sx_z (sx_nth p 0)) (sx_z (sx_nth p 1)))) (sx_l (sx_nth x 2)))
  else if mode =? 1 then
    SL (model_run step init (uris_of (sx_z (sx_nth x 1))) (map dec_notif (sx_l (sx_nth x 2))))
  else if mode =? 2 then
    SL (judge_run [] true (uris_of (sx_z (sx_nth x 1))) (map dec_notif (sx_l (sx_nth x 2))) (sx_l (sx_nth x 3)))
  else if mode =? 3 then
    let d := sx_zs (sx_nth x 1) in
    let u := to_utf16 d in
    SL (map (fun p => let l := sx_z (sx_nth p 0) in let c := sx_z (sx_nth p 1) in
                      SL [sx_bool (forallb scalar d && valid_pos u l c); sx_bool (judge_pos d l c (sx_z (sx_nth p 2)))])
            (sx_l (sx_nth x 2)))
  else
    SL (model_run step_nofix init (uris_of (sx_z (sx_nth x 1))) (map dec_notif (sx_l (sx_nth x 2)))).

Require Extraction.
Require Import ExtrOcamlBasic.
Extraction Language OCaml.
Extraction "model.ml" run.
