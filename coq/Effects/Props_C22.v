(** C22 — Functions cannot perform side effects.

    "A function (a subroutine whose name has no `!`) whose body performs a side effect, such as calling a procedure
     or procedural method or reading a mutable variable defined outside it, is rejected, while the same body in a
     procedure or at module top level is accepted."

    Model: Effects/Model.v ([cur] = crates/erg_compiler/effectcheck.rs after the two repairs of this round,
    [nofix] = the code as found).  Spec: Effects/Spec.v.  [check_module fx m hir] is SideEffectChecker::check: the
    list of effect errors ([Ok []] = the module is accepted) or [Panic].  [EffectIn false c e]: an effectful
    operation occurs in [e], at any depth and position, with no procedure / procedural lambda between it and the
    enclosing function whose body context is [c].  [known_c22]/[Known_C22]: the listed failing class (effect only
    inside a default value of a nested procedure's parameter, known/C22.json). *)
From Coq Require Import ZArith List Bool.
From ErgV Require Import Effects.MiniHir Effects.Model Effects.Spec Effects.ProofsEq Effects.ProofsStruct Effects.Proofs.
Import ListNotations.
Open Scope Z_scope.

(** 1. A function at module level whose body contains an effect is rejected, whatever the depth and position of the
       effect (nested calls, argument positions, collections, record fields, local blocks, conditionals = calls with
       lambda arguments, nested functions ...). *)
Theorem func_effect_rejected :
  forall m loc pub name ps decos body ltp n chunk,
    good_root m = true -> In chunk body ->
    known_c22 n (ctx_func m pub name) chunk = Some false ->
    EffectIn false (ctx_func m pub name) chunk ->
    check_module cur m [DefE (func_def loc pub name ps decos body ltp)] <> Ok [].
Proof. exact func_effect_rejected_lem. Qed.

(** 1'. The same for a function (or non-procedural lambda, or constant definition) nested anywhere in a module:
        [EffectInTop true m e] = some boundary inside the module-level chunk [e] forbids effects and an effect
        occurs under it (through positions inside the guarantee). *)
Theorem module_effect_rejected :
  forall m hir e, good_root m = true -> In e hir -> EffectInTop true m e -> check_module cur m hir <> Ok [].
Proof. exact module_effect_rejected_lem. Qed.

(** 1''. The general form, for the checker started in any state that corresponds to a Spec context. *)
Theorem effect_rejected_in_context :
  forall c e, EffectIn true c e -> forall st path, Rel c st path -> okb (check_expr cur st path e) = false.
Proof. exact effect_rejected. Qed.

(** 2. A body with nothing to complain about ([Quiet false]: no nested function / constant definition contains an
       effectful operation, no procedure is bound to a name without `!`) is accepted as the body of a procedure
       and as module-level code - whatever effects it performs itself. *)
Theorem proc_and_toplevel_accepted :
  forall m loc pub name ps body ltp,
    params_quiet ps = true ->
    (forall pe, In pe (ps_dflt ps) -> Quiet false (snd pe)) ->
    (forall chunk, In chunk body -> Quiet false chunk) ->
    check_module cur m [DefE (proc_def loc pub name ps [] body ltp)] = Ok []
    /\ check_module cur m body = Ok [].
Proof. exact proc_and_toplevel_accepted_lem. Qed.

(** 2'. In any allowing / forbidding context. *)
Theorem quiet_accepted_in_context :
  forall forbid e, Quiet forbid e ->
    forall st path, bottom st -> gen st = negb forbid -> okb (check_expr cur st path e) = true.
Proof. exact quiet_accepted. Qed.

(** 3. The checker terminates without panicking on well-formed trees, so "rejected" above is a list of errors. *)
Theorem checker_total :
  forall m hir, (forall e, In e hir -> Wf e) -> exists errs, check_module cur m hir = Ok errs.
Proof. exact no_panic_module_lem. Qed.

(** 4. The executable judges used on the implementation's behaviour decide the Spec predicates. *)
Theorem effect_judge_decides :
  forall vonly n c e b, effect_inb vonly n c e = Some b -> (b = true <-> EffectIn vonly c e).
Proof. exact effect_inb_spec. Qed.
Theorem quiet_judge_decides :
  forall n forbid e b, quietb n forbid e = Some b -> (b = true <-> Quiet forbid e).
Proof. exact quietb_spec. Qed.
Theorem known_class_decides :
  forall n c e b, known_c22 n c e = Some b -> (b = true <-> Known_C22 c e).
Proof. exact known_c22_spec. Qed.

(** 5. The code as found violates 1 (witnesses replayed on the implementation by checks/c22.py, now as regression
       inputs): `f x = (y = (z = (print! x; 1); z); y)`, a record field, an outer mutable variable two blocks down. *)
Theorem instant_frames_refuted :
  exists body chunk,
    In chunk body /\ EffectIn true cf chunk
    /\ check_module nofix n_mod [fdef body] = Ok []
    /\ check_module cur n_mod [fdef body] <> Ok [].
Proof. exact instant_frames_refuted_lem. Qed.
Theorem record_field_refuted :
  exists body chunk, In chunk body /\ EffectIn true cf chunk /\ check_module nofix n_mod [fdef body] = Ok [].
Proof. exact record_field_refuted_lem. Qed.
Theorem outer_mutable_refuted :
  exists body chunk, In chunk body /\ EffectIn true cf chunk /\ check_module nofix n_mod [fdef body] = Ok [].
Proof. exact outer_mutable_refuted_lem. Qed.

(** 6. With only the frame repair: effects in `*args`, `**kwargs`, the receiver of an attribute access and a
       decorator were skipped; at module level the callee of a call. *)
Theorem skipped_subexpr_refuted :
  forall body, In body [body_var_args; body_kw_var; body_attr_recv; body_deco] ->
    (exists chunk, In chunk body /\ EffectIn true cf chunk)
    /\ check_module frames_only n_mod [fdef body] = Ok []
    /\ check_module cur n_mod [fdef body] <> Ok [].
Proof. exact skipped_subexpr_refuted_lem. Qed.
Theorem toplevel_callee_refuted :
  (exists e, In e top_callee /\ EffectInTop true n_mod e)
  /\ check_module frames_only n_mod top_callee = Ok []
  /\ check_module cur n_mod top_callee <> Ok [].
Proof. exact toplevel_callee_refuted_lem. Qed.

(** 7. Still failing on the current code (known finding, class Known_C22):
       `f x = (p!(y := g!()) = y; x)` - the default value is evaluated when p! is defined, i.e. while f runs. *)
Theorem proc_default_refuted :
  exists body chunk, In chunk body /\ Known_C22 cf chunk /\ check_module cur n_mod [fdef body] = Ok [].
Proof. exact proc_default_refuted_lem. Qed.

(** Non-vacuity: one body (print! two blocks down, print! in a record field, outer mutable read, l.push!) meets the
    hypotheses of 1 and is rejected as a function; the same shape is Quiet and accepted as a procedure body and at
    module level. *)
Example c22_example :
  (exists chunk, In chunk ex_body_f /\ EffectIn false cf chunk /\ known_c22 20 cf chunk = Some false)
  /\ check_module cur n_mod [fdef ex_body_f] <> Ok []
  /\ (forall chunk, In chunk ex_body_p -> Quiet false chunk)
  /\ check_module cur n_mod [pdef ex_body_p] = Ok []
  /\ check_module cur n_mod (body_two_blocks n_mod) = Ok [].
Proof. exact c22_example_lem. Qed.
