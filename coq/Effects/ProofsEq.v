(** C22 — one-level unfolding equations of the checker fixpoint (Model.check_expr). *)
From Coq Require Import ZArith List Bool Lia.
From ErgV Require Import Effects.MiniHir Effects.Model Effects.Spec.
Import ListNotations.
Open Scope Z_scope.

Definition okb (r : M) : bool := match r with Ok [] => true | _ => false end.

Lemma okb_seq a b : okb (seq a b) = okb a && okb b.
Proof.
  destruct a as [x|s]; [|reflexivity].
  destruct b as [y|s']; simpl; [destruct x, y; reflexivity | destruct x; reflexivity].
Qed.

Lemma okb_seql l : okb (seql l) = forallb okb l.
Proof. induction l as [|a t IH]; simpl; [reflexivity|]. rewrite okb_seq, IH. reflexivity. Qed.

Lemma okb_true r : okb r = true <-> r = Ok [].
Proof. split; [|intros ->; reflexivity]. destruct r as [[|? ?]|]; simpl; congruence. Qed.

Section Eq.
  Variable fx : fixes.

  Lemma fix_list st path l :
    (fix go (l : list expr) : M :=
       match l with [] => Ok [] | x :: t => seq (check_expr fx st path x) (go t) end) l
    = check_list fx st path l.
  Proof. unfold check_list. induction l as [|x t IH]; simpl; [reflexivity|]. rewrite IH. reflexivity. Qed.

  Lemma eq_ListN st path es : check_expr fx st path (ListN es) = check_list fx st path es.
  Proof. simpl. apply fix_list. Qed.

  Definition check_params (st : list frame) (path : list seg) (ps : params) : M :=
    seq (seql (map (param_err path) (ps_nd ps)))
   (seq (match ps_var ps with Some p => param_err path p | None => Ok [] end)
        (seql (map (fun pe => seq (param_err path (fst pe)) (check_expr fx st path (snd pe))) (ps_dflt ps)))).

  Definition last_assign (k : frame) (d : def) (path' : list seg) : M :=
    match d_body d with
    | [] => Ok []
    | _ :: _ => if frame_eqb k Instant && negb (d_proc d) && d_last_tproc d
                then Ok [MkErr ProcAssign (d_loc d) (full_path path')] else Ok []
    end.

  Definition def_path (path : list seg) (d : def) : list seg :=
    if is_subr d then path ++ [(d_pub d, d_name d)] else path.

  Definition check_def_eq (st : list frame) (path : list seg) (d : def) : M :=
    seq (if fx_subs fx then check_list fx st path (d_decos d) else Ok [])
        (match def_frame (d_proc d) (is_subr d) (d_const d) with
         | None => Panic 2
         | Some k =>
           seq (match d_params d with Some ps => check_params (k :: st) (def_path path d) ps | None => Ok [] end)
          (seq (check_list fx (k :: st) (def_path path d) (d_body d)) (last_assign k d (def_path path d)))
         end).

  Lemma fix_dflt st path l :
    (fix go (l : list (pinfo * expr)) : M :=
       match l with
       | [] => Ok []
       | (p, dv) :: t => seq (param_err path p) (seq (check_expr fx st path dv) (go t))
       end) l
    = seql (map (fun pe => seq (param_err path (fst pe)) (check_expr fx st path (snd pe))) l).
  Proof.
    induction l as [|[p dv] t IH]; simpl; [reflexivity|]. rewrite IH.
    destruct (param_err path p) as [a|]; simpl; [|reflexivity].
    destruct (check_expr fx st path dv) as [b|]; simpl; [|reflexivity].
    destruct (seql _) as [c|]; simpl; [|reflexivity]. rewrite app_assoc. reflexivity.
  Qed.

  Lemma eq_DefE st path d : check_expr fx st path (DefE d) = check_def_eq st path d.
  Proof.
    destruct d as [loc dproc dconst dpub name ops decos body ltp].
    unfold check_def_eq, def_path, is_subr, last_assign, check_params. simpl.
    rewrite !fix_list.
    destruct ops as [[nd var dflt kwvar guards]|]; simpl.
    - destruct (def_frame dproc true dconst); [|reflexivity]. rewrite fix_dflt, !fix_list. reflexivity.
    - destruct (def_frame dproc false dconst); [|reflexivity]. rewrite !fix_list. reflexivity.
  Qed.
End Eq.
Lemma seq_assoc a b c : seq a (seq b c) = seq (seq a b) c.
Proof.
  destruct a as [x|]; [|reflexivity]. destruct b as [y|]; [|reflexivity].
  destruct c as [z|]; simpl; [|reflexivity]. rewrite app_assoc. reflexivity.
Qed.

Lemma seql_cons a t : seql (a :: t) = seq a (seql t).
Proof. reflexivity. Qed.

Section Eq2.
  Variable fx : fixes.

  Definition lambda_st (proc : bool) (st : list frame) := (if proc then Proc else Func) :: st.
  Definition lambda_path (proc : bool) (path : list seg) := path ++ [(false, if proc then s_lambda_p else s_lambda)].

  Definition check_expr_eq (st : list frame) (path : list seg) (e : expr) : M :=
    match e with
    | Lit => Ok []
    | DefE d => check_def_eq fx st path d
    | ClassDef pub name req ms => seq (check_opt fx st path req) (check_list fx st path ms)
    | PatchDef b ms => seq (check_expr fx st path b) (check_list fx st path ms)
    | ListN es | TupleN es | SetN es => check_list fx st path es
    | ListLen x len => seq (check_expr fx st path x) (check_opt fx st path len)
    | ListComp x g | SetLen x g => seq (check_expr fx st path x) (check_expr fx st path g)
    | Record attrs => seql (map (check_def_eq fx (Instant :: st) (path ++ [(false, s_record)])) attrs)
    | DictN kvs => seql (map (fun kv => seq (check_expr fx st path (fst kv)) (check_expr fx st path (snd kv))) kvs)
    | DictOther => Panic 3
    | Call loc callee cp at_ ctor pos var kw kwvar =>
      seq (if ctor then unless_allowed fx st (MkErr CtorDtor loc (full_path path)) else Ok [])
     (seq (check_expr fx st path callee)
     (seq (if cp || attr_proc at_
           then unless_allowed fx st (MkErr HasEffect loc (full_path path)) else Ok [])
     (seq (check_list fx st path pos)
     (seq (if fx_subs fx then check_opt fx st path var else Ok [])
     (seq (check_list fx st path kw)
          (if fx_subs fx then check_opt fx st path kwvar else Ok []))))))
    | UnaryOp x | TypeAsc x => check_expr fx st path x
    | BinOp loc isop l r =>
      seq (check_expr fx st path l)
     (seq (check_expr fx st path r)
          (if isop then unless_allowed fx st (MkErr HasEffect loc (full_path path)) else Ok []))
    | Lambda proc ps body =>
      seq (check_params fx (lambda_st proc st) (lambda_path proc path) ps)
          (check_list fx (lambda_st proc st) (lambda_path proc path) body)
    | Ident a => touch fx st path a
    | Attr a o => seq (if fx_subs fx then check_expr fx st path o else Ok []) (touch fx st path a)
    | ReDef _ _ | Code _ | Compound _ | Import | Dummy _ => Ok []
    end.

  Lemma eq_Record st path attrs :
    check_expr fx st path (Record attrs)
    = seql (map (check_def_eq fx (Instant :: st) (path ++ [(false, s_record)])) attrs).
  Proof.
    induction attrs as [|d t IH]; [reflexivity|].
    rewrite map_cons, seql_cons, <- eq_DefE.
    etransitivity; [|apply f_equal; exact IH]. reflexivity.
  Qed.

  Lemma eq_DictN st path kvs :
    check_expr fx st path (DictN kvs)
    = seql (map (fun kv => seq (check_expr fx st path (fst kv)) (check_expr fx st path (snd kv))) kvs).
  Proof.
    induction kvs as [|[k v] t IH]; [reflexivity|].
    rewrite map_cons, seql_cons, <- seq_assoc.
    etransitivity; [|apply f_equal; apply f_equal; exact IH]. reflexivity.
  Qed.

  Lemma eq_Lambda st path proc ps body :
    check_expr fx st path (Lambda proc ps body)
    = seq (check_params fx (lambda_st proc st) (lambda_path proc path) ps)
          (check_list fx (lambda_st proc st) (lambda_path proc path) body).
  Proof.
    destruct ps as [nd var dflt kwvar guards]. unfold check_params, lambda_st, lambda_path. simpl.
    rewrite fix_dflt, fix_list. reflexivity.
  Qed.

  Lemma check_expr_unfold st path e : check_expr fx st path e = check_expr_eq st path e.
  Proof.
    destruct e; try reflexivity.
    - (* Call *) simpl. rewrite !fix_list. reflexivity.
    - simpl. apply fix_list.
    - simpl. apply fix_list.
    - simpl. apply fix_list.
    - apply eq_DictN.
    - apply eq_Record.
    - apply eq_Lambda.
    - apply eq_DefE.
    - simpl. rewrite fix_list. reflexivity.
    - simpl. rewrite fix_list. reflexivity.
  Qed.
End Eq2.
