(** C22 — proofs about the effect checker model (Model.v) against Spec.v. *)
From Coq Require Import ZArith List Bool Lia.
From ErgV Require Import Effects.MiniHir Effects.Model Effects.Spec Effects.ProofsEq Effects.ProofsStruct.
Import ListNotations.
Open Scope Z_scope.

(** ** the two observations *)
Definition npb (r : M) : bool := match r with Panic _ => false | Ok _ => true end.
Lemma npb_seq a b : npb (seq a b) = npb a && npb b.
Proof. destruct a; [destruct b|]; reflexivity. Qed.

Notation kid_okb := (kid_ok okb).
Lemma okb_check_list fx st path l :
  okb (check_list fx st path l) = forallb (fun x => okb (check_expr fx st path x)) l.
Proof. apply h_check_list; first [exact okb_seq | reflexivity | intros; reflexivity]. Qed.
Lemma okb_oexpr st path o :
  okb (check_opt cur st path o) = forallb (fun x => okb (check_expr cur st path x)) (oexpr o).
Proof. apply h_oexpr; first [exact okb_seq | reflexivity | intros; reflexivity]. Qed.
Lemma okb_check_expr st path e :
  okb (check_expr cur st path e) = okb (here_chk st path e) && forallb (kid_okb st path) (ckids e).
Proof. apply h_check_expr; first [exact okb_seq | reflexivity | intros; reflexivity]. Qed.
Lemma npb_check_list fx st path l :
  npb (check_list fx st path l) = forallb (fun x => npb (check_expr fx st path x)) l.
Proof. apply h_check_list; first [exact npb_seq | reflexivity | intros; reflexivity]. Qed.
Lemma npb_oexpr st path o :
  npb (check_opt cur st path o) = forallb (fun x => npb (check_expr cur st path x)) (oexpr o).
Proof. apply h_oexpr; first [exact npb_seq | reflexivity | intros; reflexivity]. Qed.
Lemma npb_check_expr st path e :
  npb (check_expr cur st path e) = npb (here_chk st path e) && forallb (kid_ok npb st path) (ckids e).
Proof. apply h_check_expr; first [exact npb_seq | reflexivity | intros; reflexivity]. Qed.
Lemma npb_seql l : npb (seql l) = forallb npb l.
Proof. apply h_seql; first [exact npb_seq | reflexivity]. Qed.

(** ** strings *)
Lemma str_eqb_eq a b : str_eqb a b = true <-> a = b.
Proof.
  revert b. induction a as [|x a IH]; destruct b as [|y b]; simpl; split; try congruence; try reflexivity.
  - intros H. apply andb_true_iff in H. destruct H as [H1 H2]. apply Z.eqb_eq in H1. apply IH in H2. congruence.
  - intros H. injection H as -> ->. rewrite Z.eqb_refl. apply IH. reflexivity.
Qed.
Lemma str_eqb_refl a : str_eqb a a = true.
Proof. apply str_eqb_eq. reflexivity. Qed.

Lemma prefixb_app p x : prefixb p (p ++ x) = true.
Proof. induction p as [|c p IH]; simpl; [reflexivity|]. rewrite Z.eqb_refl. exact IH. Qed.
Lemma prefixb_app_r p s x : prefixb p s = true -> prefixb p (s ++ x) = true.
Proof.
  revert s. induction p as [|c p IH]; intros s H; [reflexivity|].
  destruct s as [|d s]; simpl in *; [discriminate|].
  apply andb_true_iff in H. destruct H as [H1 H2]. rewrite H1, (IH _ H2). reflexivity.
Qed.

Lemma within_refl s : within s s = true.
Proof. unfold within. rewrite str_eqb_refl. reflexivity. Qed.

Lemma within_push sub ns sg : within sub ns = true -> within sub (ns ++ seg_str sg) = true.
Proof.
  unfold within. intros H.
  apply orb_true_iff in H. destruct H as [H|H]; [apply orb_true_iff in H; destruct H as [H|H]|].
  - apply str_eqb_eq in H. subst ns. unfold seg_str. destruct (fst sg).
    + rewrite app_assoc, prefixb_app. apply orb_true_r.
    + rewrite app_assoc, prefixb_app. rewrite orb_true_r. reflexivity.
  - rewrite (prefixb_app_r _ _ _ H). rewrite orb_true_r. reflexivity.
  - rewrite (prefixb_app_r _ _ _ H). apply orb_true_r.
Qed.

Lemma trim_start_app a b : trim_start a <> [] -> trim_start (a ++ b) = trim_start a ++ b.
Proof.
  induction a as [|c a IH]; simpl; [congruence|].
  destruct (is_sep c); [exact IH|]. reflexivity.
Qed.

Lemma fold_path_snoc p sg acc :
  fold_left (fun acc s => acc ++ seg_str s) (p ++ [sg]) acc
  = fold_left (fun acc s => acc ++ seg_str s) p acc ++ seg_str sg.
Proof. rewrite fold_left_app. reflexivity. Qed.

Lemma full_path_snoc p sg : full_path p <> [] -> full_path (p ++ [sg]) = full_path p ++ seg_str sg.
Proof. unfold full_path. intros H. rewrite fold_path_snoc. apply trim_start_app. exact H. Qed.

(** a module namespace: non-empty, does not start with '.' or ':' ("<module>", a file stem) *)
Definition good_root (m : str) : bool := match m with c :: _ => negb (is_sep c) | [] => false end.

Lemma full_path_root m : good_root m = true -> full_path [(false, m)] = m.
Proof.
  destruct m as [|c m]; [discriminate|]. simpl. intros H. unfold full_path. simpl.
  destruct (is_sep c); [discriminate|]. reflexivity.
Qed.
Lemma good_root_nonempty m : good_root m = true -> m <> [].
Proof. destruct m; simpl; congruence. Qed.

(** ** the block stack *)
Definition gen (st : list frame) : bool :=
  match find (fun k => negb (frame_eqb k Instant)) st with
  | Some Proc | Some Module | None => true
  | Some _ => false
  end.
Definition bottom (st : list frame) : Prop := exists s', st = s' ++ [Module].

Lemma bottom_cons k st : bottom st -> bottom (k :: st).
Proof. intros [s' ->]. exists (k :: s'). reflexivity. Qed.
Lemma bottom_module : bottom [Module].
Proof. exists []. reflexivity. Qed.

Lemma allowed_cur st : bottom st -> allowed cur st = Ok (gen st).
Proof.
  intros [s' ->]. destruct s' as [|a s']; [reflexivity|].
  destruct s' as [|b s']; reflexivity.
Qed.

Lemma gen_cons k st :
  gen (k :: st) = match k with Instant => gen st | Proc | Module => true | _ => false end.
Proof. destruct k; reflexivity. Qed.

Lemma bottom_pushf s st : bottom st -> bottom (pushf s st).
Proof.
  revert st. induction s as [|x s IH]; intros st H; [exact H|].
  simpl. apply IH. destruct (fst x); [apply bottom_cons|]; exact H.
Qed.

(** ** the invariant linking a Spec context with the checker's stacks *)
Record Rel (c : sctx) (st : list frame) (path : list seg) : Prop := {
  R_bottom : bottom st;
  R_gen : gen st = negb (s_forbid c);
  R_path : full_path path = s_ns c;
  R_ne : s_ns c <> [];
  R_within : within (s_sub c) (s_ns c) = true }.

Lemma app_ne {A} (a b : list A) : a <> [] -> a ++ b <> [].
Proof. destruct a; simpl; congruence. Qed.

Lemma Rel_enter1 c st path x : Rel c st path -> Rel (enter1 c x) (pushf [x] st) (pushp [x] path).
Proof.
  intros [Hb Hg Hp Hn Hw]. destruct x as [ok osg]. unfold enter1, pushf, pushp. cbn [fst snd fold_left].
  assert (Hp' : full_path (match osg with Some sg => path ++ [sg] | None => path end)
                = match osg with Some sg => s_ns c ++ seg_str sg | None => s_ns c end).
  { destruct osg as [sg|]; [|exact Hp]. rewrite full_path_snoc, Hp; [reflexivity|]. rewrite Hp. exact Hn. }
  assert (Hn' : match osg with Some sg => s_ns c ++ seg_str sg | None => s_ns c end <> []).
  { destruct osg; [apply app_ne|]; exact Hn. }
  assert (Hw' : within (s_sub c) (match osg with Some sg => s_ns c ++ seg_str sg | None => s_ns c end) = true).
  { destruct osg; [apply within_push|]; exact Hw. }
  destruct ok as [k|].
  - destruct k; constructor; cbn [s_forbid s_ns s_sub]; try rewrite gen_cons;
      try (apply bottom_cons; exact Hb); try exact Hp'; try exact Hn'; try exact Hw';
      try apply within_refl; try reflexivity; try exact Hg.
  - constructor; cbn [s_forbid s_ns s_sub]; assumption.
Qed.

Lemma Rel_enter c st path s : Rel c st path -> Rel (enter c s) (pushf s st) (pushp s path).
Proof.
  revert c st path. induction s as [|x s IH]; intros c st path H; [exact H|].
  change (enter c (x :: s)) with (enter (enter1 c x) s).
  change (pushf (x :: s) st) with (pushf s (pushf [x] st)).
  change (pushp (x :: s) path) with (pushp s (pushp [x] path)).
  apply IH, Rel_enter1, H.
Qed.

Lemma Rel_top m : good_root m = true -> Rel (ctx_top m) [Module] [(false, m)].
Proof.
  intros H. constructor; cbn [ctx_top s_forbid s_ns s_sub].
  - apply bottom_module.
  - reflexivity.
  - apply full_path_root, H.
  - apply good_root_nonempty, H.
  - apply within_refl.
Qed.

(** ** visible kids are visited *)
Lemma in_under s l k : In k (under s l) -> k_vis k = true /\ k_steps k = s /\ In (k_e k) l.
Proof. unfold under. intros H. apply in_map_iff in H. destruct H as [x [<- Hx]]. auto. Qed.
Lemma in_opaque s l k : In k (opaque s l) -> k_vis k = false.
Proof. unfold opaque. intros H. apply in_map_iff in H. destruct H as [x [<- Hx]]. reflexivity. Qed.

Lemma vis_params_kids pre inner ps k :
  In k (params_kids pre inner ps) -> k_vis k = true ->
  In (k_steps k, k_e k) (ckids_params (pre ++ [inner]) ps).
Proof.
  unfold params_kids, ckids_params. intros H Hv. apply in_app_or in H. destruct H as [H|H].
  - destruct (fst inner) as [[]|];
      try (apply in_opaque in H; congruence);
      apply in_under in H; destruct H as [_ [-> H]]; apply in_map_iff in H; destruct H as [pe [<- Hpe]];
      apply in_map_iff; exists pe; auto.
  - apply in_opaque in H. congruence.
Qed.

Lemma vis_def_kids pre d k :
  In k (def_kids pre d) -> k_vis k = true -> In (k_steps k, k_e k) (ckids_def pre d).
Proof.
  unfold def_kids, ckids_def. intros H Hv.
  apply in_app_or in H. destruct H as [H|H]; [|apply in_app_or in H; destruct H as [H|H]].
  - apply in_under in H. destruct H as [_ [-> H]]. apply in_or_app. left. apply in_map. exact H.
  - apply in_or_app. right. apply in_or_app. left. unfold oparams_kids in H.
    destruct (d_params d) as [ps|]; [|destruct H]. apply vis_params_kids; assumption.
  - apply in_under in H. destruct H as [_ [-> H]]. apply in_or_app. right. apply in_or_app. right.
    apply in_map. exact H.
Qed.

Lemma vis_kids_ckids e k : In k (kids e) -> k_vis k = true -> In (k_steps k, k_e k) (ckids e).
Proof.
  intros H Hv.
  destruct e; cbn [kids ckids] in *;
    try (apply (in_map (fun k => (k_steps k, k_e k))); exact H);
    try (apply in_opaque in H; congruence).
  - (* Record *)
    apply in_flat_map in H. destruct H as [d [Hd H]]. apply in_flat_map. exists d. split; [exact Hd|].
    apply vis_def_kids; assumption.
  - (* Lambda *)
    apply in_app_or in H. destruct H as [H|H]; apply in_or_app.
    + left. apply (vis_params_kids [] (lambda_step proc) ps k H Hv).
    + right. apply in_under in H. destruct H as [_ [-> H]]. apply in_map. exact H.
  - (* DefE *) apply vis_def_kids; assumption.
Qed.

(** ** an effect inside the guarantee is reported *)
Lemma okb_unless_forbidden st e : bottom st -> gen st = false -> okb (unless_allowed cur st e) = false.
Proof. intros Hb Hg. unfold unless_allowed. rewrite (allowed_cur st Hb), Hg. reflexivity. Qed.

Lemma effect_here_chk c st path e :
  Rel c st path -> effect_here c e = true -> okb (here_chk st path e) = false.
Proof.
  intros [Hb Hg Hp Hn Hw] He.
  assert (Hvar : forall a, var_effect c a = true -> okb (touch cur st path a) = false).
  { intros a Ha. unfold var_effect in Ha.
    repeat (apply andb_true_iff in Ha; destruct Ha as [Ha ?]).
    unfold touch. rewrite (allowed_cur st Hb), Hg, Ha. cbn [negb andb].
    rewrite H2, H1, H0. cbn [andb].
    destruct (str_eqb (a_ns a) (full_path path)) eqn:E; [|reflexivity].
    apply str_eqb_eq in E. rewrite Hp in E. rewrite E, Hw in H. discriminate. }
  destruct e; cbn [effect_here here_chk] in *; try discriminate; try (apply Hvar; exact He).
  apply andb_true_iff in He. destruct He as [Hf Hc]. rewrite Hc, okb_seq.
  rewrite (okb_unless_forbidden st _ Hb), andb_false_r; [reflexivity|]. rewrite Hg, Hf. reflexivity.
Qed.

Lemma forallb_false_in {A} (f : A -> bool) l x : In x l -> f x = false -> forallb f l = false.
Proof.
  intros Hin Hf. destruct (forallb f l) eqn:E; [|reflexivity].
  rewrite forallb_forall in E. rewrite (E x Hin) in Hf. discriminate.
Qed.

Theorem effect_rejected c e :
  EffectIn true c e -> forall st path, Rel c st path -> okb (check_expr cur st path e) = false.
Proof.
  induction 1 as [c e He | c e k Hin Hv _ IH]; intros st path HR; rewrite okb_check_expr.
  - rewrite (effect_here_chk c st path e HR He). reflexivity.
  - rewrite (forallb_false_in _ _ (k_steps k, k_e k)), andb_false_r; [reflexivity| |].
    + apply vis_kids_ckids; [exact Hin|apply Hv; reflexivity].
    + unfold kid_ok. cbn [fst snd]. apply IH, Rel_enter, HR.
Qed.

(** ** nothing to complain about => no error *)
Lemma gen_pushf s st forbid : gen st = negb forbid -> gen (pushf s st) = negb (enterq forbid s).
Proof.
  revert st forbid. induction s as [|x s IH]; intros st forbid H; [exact H|].
  change (pushf (x :: s) st) with (pushf s (pushf [x] st)).
  change (enterq forbid (x :: s)) with (enterq (enterq1 forbid x) s).
  apply IH. unfold pushf, enterq1. cbn [fold_left]. destruct (fst x) as [k|]; [|exact H].
  rewrite gen_cons. destruct k; try reflexivity. exact H.
Qed.

Lemma param_quiet_ok path p : param_quiet p = true -> param_err path p = Ok [].
Proof.
  unfold param_quiet, param_err. destruct (p_tproc p); [|reflexivity]. cbn [negb orb].
  destruct (p_name p) as [[|]|]; congruence.
Qed.

Lemma params_quiet_ok path ps : params_quiet ps = true -> okb (params_here path ps) = true.
Proof.
  unfold params_quiet, params_here. intros H.
  apply andb_true_iff in H. destruct H as [H H3]. apply andb_true_iff in H. destruct H as [H1 H2].
  rewrite !okb_seq, !okb_seql, !forallb_map'. rewrite !andb_true_iff. repeat split.
  - rewrite forallb_forall in *. intros p Hp. rewrite (param_quiet_ok path p (H1 p Hp)). reflexivity.
  - destruct (ps_var ps) as [p|]; [|reflexivity]. rewrite (param_quiet_ok path p H2). reflexivity.
  - rewrite forallb_forall in *. intros pe Hp. rewrite (param_quiet_ok path _ (H3 pe Hp)). reflexivity.
Qed.

Lemma def_quiet_ok path d : def_quiet d = true -> okb (def_here path d) = true.
Proof.
  unfold def_quiet, def_here, last_assign.
  destruct (def_frame (d_proc d) (is_subr d) (d_const d)) as [k|]; [|discriminate].
  intros H. apply andb_true_iff in H. destruct H as [H1 H2]. rewrite okb_seq. apply andb_true_iff. split.
  - destruct (d_params d) as [ps|]; [apply params_quiet_ok; exact H1|reflexivity].
  - destruct (d_body d); [reflexivity|]. cbn [andb] in H2.
    destruct (frame_eqb k Instant && negb (d_proc d) && d_last_tproc d); [discriminate|reflexivity].
Qed.

Lemma quiet_here_ok forbid st path e :
  bottom st -> gen st = negb forbid -> quiet_here forbid e = true -> okb (here_chk st path e) = true.
Proof.
  intros Hb Hg Hq.
  assert (Hun : forall x, forbid = false -> okb (unless_allowed cur st x) = true).
  { intros x ->. unfold unless_allowed. rewrite (allowed_cur st Hb), Hg. reflexivity. }
  assert (Hvar : forall a, negb (forbid && a_mut a && negb (a_param a) && negb (a_rootref a)) = true ->
                           okb (touch cur st path a) = true).
  { intros a Ha. unfold touch. rewrite (allowed_cur st Hb), Hg.
    destruct forbid, (a_mut a), (a_param a), (a_rootref a); cbn in *; try reflexivity; discriminate. }
  destruct e; cbn [quiet_here here_chk] in *; try reflexivity; try discriminate; try (apply Hvar; exact Hq).
  - (* Call *)
    rewrite okb_seq. destruct forbid.
    + cbn [andb] in Hq. apply negb_true_iff in Hq.
      apply orb_false_iff in Hq. destruct Hq as [Hq ->]. rewrite Hq. reflexivity.
    + destruct ctor, (callee_proc || attr_proc attr); rewrite ?(fun x => Hun x eq_refl); reflexivity.
  - (* BinOp *)
    destruct isop; [|reflexivity]. destruct forbid; [discriminate|]. apply Hun. reflexivity.
  - (* Record *)
    rewrite okb_seql, forallb_map'. rewrite forallb_forall in *. intros d Hd. apply def_quiet_ok, Hq, Hd.
  - (* Lambda *) apply params_quiet_ok, Hq.
  - (* DefE *) apply def_quiet_ok, Hq.
Qed.

Theorem quiet_accepted forbid e :
  Quiet forbid e -> forall st path, bottom st -> gen st = negb forbid -> okb (check_expr cur st path e) = true.
Proof.
  induction 1 as [forbid e Hq _ IH]; intros st path Hb Hg. rewrite okb_check_expr.
  rewrite (quiet_here_ok forbid st path e Hb Hg Hq). cbn [andb].
  apply forallb_forall. intros [s k] Hin. unfold kid_ok. cbn [fst snd].
  apply (IH s k Hin); [apply bottom_pushf, Hb|apply gen_pushf, Hg].
Qed.

(** ** module level *)
Definition top_kids (e : expr) : list kid :=
  match e with
  | ClassDef pub name req ms => here (oexpr req) ++ under [(None, Some (pub, name))] ms
  | _ => kids e
  end.

(** an effect inside a function somewhere in the module-level chunk [e] *)
Inductive EffectInTop (vonly : bool) (ns : str) (e : expr) : Prop :=
| EIT k : In k (top_kids e) -> (vonly = true -> k_vis k = true) ->
          EffectIn vonly (enter (ctx_top ns) (k_steps k)) (k_e k) -> EffectInTop vonly ns e.

Lemma okb_check_list_false fx st path l x :
  In x l -> okb (check_expr fx st path x) = false -> okb (check_list fx st path l) = false.
Proof. intros Hin Hx. rewrite okb_check_list. apply (forallb_false_in _ _ x Hin Hx). Qed.

Lemma in_here l k : In k (here l) -> k_vis k = true /\ k_steps k = [] /\ In (k_e k) l.
Proof. unfold here. intros H. apply in_map_iff in H. destruct H as [x [<- Hx]]. auto. Qed.

Lemma effect_top_rejected m e :
  good_root m = true -> EffectInTop true m e -> okb (check_top cur [Module] [(false, m)] e) = false.
Proof.
  intros Hm [k Hin Hv He]. specialize (Hv eq_refl).
  pose proof (Rel_top m Hm) as HR.
  assert (Hgen : forall e', top_kids e' = kids e' -> In k (kids e') ->
                            okb (check_expr cur [Module] [(false, m)] e') = false).
  { intros e' _ Hin'. apply (effect_rejected (ctx_top m)); [|exact HR].
    apply (EI_sub true _ _ k Hin'); [intros _; exact Hv|exact He]. }
  assert (Hkid : forall l, In k (here l) ->
                 okb (check_list cur [Module] [(false, m)] l) = false).
  { intros l Hl. apply in_here in Hl. destruct Hl as [_ [Hs Hl]].
    apply (okb_check_list_false _ _ _ _ (k_e k) Hl).
    apply (effect_rejected (enter (ctx_top m) (k_steps k))); [exact He|]. rewrite Hs. exact HR. }
  destruct e; cbn [top_kids] in Hin; try (apply Hgen; [reflexivity|exact Hin]);
    cbn [kids] in Hin; cbn [check_top fx_subs cur].
  - destruct Hin.
  - destruct Hin.
  - (* Attr *) specialize (Hkid _ Hin). unfold check_list in Hkid. cbn in Hkid.
    rewrite okb_seq, andb_true_r in Hkid. exact Hkid.
  - (* Call *)
    specialize (Hkid _ Hin). rewrite okb_check_list in Hkid. cbn [forallb] in Hkid.
    rewrite !forallb_app in Hkid.
    rewrite !okb_seq, !okb_check_list, !okb_oexpr. exact Hkid.
  - (* BinOp *)
    specialize (Hkid _ Hin). rewrite okb_check_list in Hkid. cbn [forallb] in Hkid.
    rewrite andb_true_r in Hkid. rewrite okb_seq. exact Hkid.
  - (* ClassDef *)
    rewrite okb_seq. apply in_app_or in Hin. destruct Hin as [Hin|Hin].
    + specialize (Hkid _ Hin). rewrite okb_check_list in Hkid. rewrite okb_oexpr, Hkid. reflexivity.
    + apply in_under in Hin. destruct Hin as [_ [Hs Hl]].
      rewrite (okb_check_list_false _ _ _ _ (k_e k) Hl), andb_false_r; [reflexivity|].
      apply (effect_rejected (enter (ctx_top m) (k_steps k))); [exact He|].
      rewrite Hs. apply (Rel_enter (ctx_top m) [Module] [(false, m)] [(None, Some (pub, name))] HR).
Qed.

Lemma okb_check_module fx m hir :
  okb (check_module fx m hir) = forallb (fun e => okb (check_top fx [Module] [(false, m)] e)) hir.
Proof. unfold check_module. rewrite okb_seql, forallb_map'. reflexivity. Qed.

Lemma quiet_kids forbid e s k : Quiet forbid e -> In (s, k) (ckids e) -> Quiet (enterq forbid s) k.
Proof. intros H. inversion H; subst. auto. Qed.

Lemma quiet_top_accepted path e :
  Quiet false e -> okb (check_top cur [Module] path e) = true.
Proof.
  intros Hq.
  assert (Hgen : okb (check_expr cur [Module] path e) = true).
  { apply (quiet_accepted false e Hq); [apply bottom_module|reflexivity]. }
  assert (Hkid : forall path' x, In ([], x) (ckids e) -> okb (check_expr cur [Module] path' x) = true).
  { intros path' x Hin. apply (quiet_accepted false x (quiet_kids false e [] x Hq Hin));
      [apply bottom_module|reflexivity]. }
  destruct e as [ | ? | ? ? | loc callee cp at_ ctor pos var kw kwvar | ? ? ? ? | ? | ? | ? ? | ? ? | ? | ? | ? ? | ? |  | ? | ? ? ? | ? | pub name req methods | ? ? | ? | ? ? | ? | ? |  | ?]; try exact Hgen; cbn [check_top fx_subs cur]; try reflexivity.
  - (* Attr *) apply Hkid. left. reflexivity.
  - (* Call *)
    cbn [ckids kids] in Hkid.
    assert (Hk : forall path' x, In x (callee :: pos ++ oexpr var ++ kw ++ oexpr kwvar) ->
                                 okb (check_expr cur [Module] path' x) = true).
    { intros path' x Hx. apply Hkid. unfold here. rewrite map_map. cbn [k_steps k_e].
      apply in_map_iff. exists x. auto. }
    rewrite !okb_seq, !okb_check_list, !okb_oexpr. rewrite !andb_true_iff.
    repeat split; try (apply Hk; left; reflexivity);
      apply forallb_forall; intros x Hx; apply Hk; right; rewrite !in_app_iff; auto.
  - (* BinOp *)
    rewrite okb_seq. rewrite andb_true_iff. split; apply Hkid; cbn; auto.
  - (* ClassDef *)
    cbn [ckids kids] in Hkid.
    assert (Hk : forall path' x, In x (oexpr req ++ methods) -> okb (check_expr cur [Module] path' x) = true).
    { intros path' x Hx. apply Hkid. unfold here. rewrite map_map. cbn [k_steps k_e].
      apply in_map_iff. exists x. auto. }
    rewrite okb_seq, okb_oexpr, okb_check_list. rewrite andb_true_iff.
    split; apply forallb_forall; intros x Hx; apply Hk; apply in_or_app; auto.
Qed.

(** ** the judges decide the Spec predicates *)
Lemma all_some_spec l r : all_some l = Some r -> l = map Some r.
Proof.
  revert r. induction l as [|[b|] t IH]; intros r H; simpl in H; try discriminate.
  - injection H as <-. reflexivity.
  - destruct (all_some t) as [r'|]; [|discriminate]. injection H as <-. simpl. rewrite (IH r' eq_refl). reflexivity.
Qed.

Lemma map_eq_in {A B} (f : A -> B) (g : list B) l x :
  map f l = g -> In x l -> In (f x) g.
Proof. intros <- H. apply in_map. exact H. Qed.

Lemma effect_inb_spec vonly n : forall c e b,
  effect_inb vonly n c e = Some b -> (b = true <-> EffectIn vonly c e).
Proof.
  induction n as [|n IH]; intros c e b H; [discriminate|]. cbn [effect_inb] in H.
  destruct (all_some _) as [r|] eqn:Hr; [|discriminate]. injection H as <-.
  apply all_some_spec in Hr.
  split.
  - intros Hb. apply orb_true_iff in Hb. destruct Hb as [Hb|Hb]; [apply EI_here; exact Hb|].
    apply existsb_exists in Hb. destruct Hb as [x [Hx ->]].
    assert (Hx' : In (Some true) (map Some r)) by (apply in_map; exact Hx).
    rewrite <- Hr in Hx'. apply in_map_iff in Hx'. destruct Hx' as [k [Hk Hin]].
    destruct (vonly && negb (k_vis k)) eqn:Hv; [discriminate|].
    apply (EI_sub vonly c e k Hin).
    + intros ->. cbn in Hv. apply negb_false_iff in Hv. exact Hv.
    + apply (IH _ _ true Hk). reflexivity.
  - intros He. apply orb_true_iff. inversion He as [c' e' Hh | c' e' k Hin Hv Hk]; subst; [left; exact Hh|right].
    apply existsb_exists. exists true. split; [|reflexivity].
    pose proof (map_eq_in _ _ _ k Hr Hin) as Hm. cbn beta in Hm.
    assert (Hvv : vonly && negb (k_vis k) = false).
    { destruct vonly; [|reflexivity]. rewrite (Hv eq_refl). reflexivity. }
    rewrite Hvv in Hm. apply in_map_iff in Hm. destruct Hm as [b [Hb Hbin]].
    symmetry in Hb. apply IH in Hb. destruct b; [exact Hbin|]. destruct Hb as [_ Hb]. specialize (Hb Hk). discriminate.
Qed.

Lemma quietb_spec n : forall forbid e b, quietb n forbid e = Some b -> (b = true <-> Quiet forbid e).
Proof.
  induction n as [|n IH]; intros forbid e b H; [discriminate|]. cbn [quietb] in H.
  destruct (all_some _) as [r|] eqn:Hr; [|discriminate]. injection H as <-.
  apply all_some_spec in Hr.
  split.
  - intros Hb. apply andb_true_iff in Hb. destruct Hb as [Hh Hb]. constructor; [exact Hh|].
    intros s k Hin. pose proof (map_eq_in _ _ _ (s, k) Hr Hin) as Hm. cbn [fst snd] in Hm.
    apply in_map_iff in Hm. destruct Hm as [b [Hb' Hbin]].
    rewrite forallb_forall in Hb. specialize (Hb b Hbin). subst b.
    symmetry in Hb'. apply (IH _ _ true Hb'). reflexivity.
  - intros Hq. inversion Hq as [f' e' Hh Hk]; subst. apply andb_true_iff. split; [exact Hh|].
    apply forallb_forall. intros b Hbin.
    assert (Hb' : In (Some b) (map Some r)) by (apply in_map; exact Hbin).
    rewrite <- Hr in Hb'. apply in_map_iff in Hb'. destruct Hb' as [[s k] [Hsk Hin]]. cbn [fst snd] in Hsk.
    apply (IH _ _ b Hsk). apply Hk. exact Hin.
Qed.

Lemma effect_vonly_all c e : EffectIn true c e -> EffectIn false c e.
Proof.
  induction 1 as [c e H|c e k Hin Hv _ IH]; [apply EI_here; exact H|].
  apply (EI_sub false c e k Hin); [discriminate|exact IH].
Qed.

Lemma known_c22_spec n c e b : known_c22 n c e = Some b -> (b = true <-> Known_C22 c e).
Proof.
  unfold known_c22, Known_C22.
  destruct (effect_inb false n c e) as [a|] eqn:Ha; [|discriminate].
  destruct (effect_inb true n c e) as [v|] eqn:Hv; [|discriminate].
  intros H. injection H as <-.
  pose proof (effect_inb_spec false n c e a Ha) as Sa. pose proof (effect_inb_spec true n c e v Hv) as Sv.
  split.
  - intros H. apply andb_true_iff in H. destruct H as [H1 H2]. split; [apply Sa; exact H1|].
    intros Hc. apply Sv in Hc. subst v. discriminate.
  - intros [H1 H2]. apply andb_true_iff. split; [apply Sa; exact H1|].
    destruct v; [|reflexivity]. exfalso. apply H2, Sv. reflexivity.
Qed.

Definition func_def (loc : Z) (pub : bool) (name : str) (ps : params) (decos body : list expr) (ltp : bool) : def :=
  MkDef loc false false pub name (Some ps) decos body ltp.
Definition proc_def (loc : Z) (pub : bool) (name : str) (ps : params) (decos body : list expr) (ltp : bool) : def :=
  MkDef loc true false pub name (Some ps) decos body ltp.

Lemma okb_false_ne r : okb r = false -> r <> Ok [].
Proof. intros H E. rewrite E in H. discriminate. Qed.

Lemma module_effect_rejected_lem m hir e :
  good_root m = true -> In e hir -> EffectInTop true m e -> check_module cur m hir <> Ok [].
Proof.
  intros Hm Hin He. apply okb_false_ne. rewrite okb_check_module.
  apply (forallb_false_in _ _ e Hin). apply effect_top_rejected; assumption.
Qed.

Lemma func_body_top m loc pub name ps decos body ltp chunk vonly :
  In chunk body -> EffectIn vonly (ctx_func m pub name) chunk ->
  EffectInTop vonly m (DefE (func_def loc pub name ps decos body ltp)).
Proof.
  intros Hin He.
  apply (EIT vonly m _ (MkKid true [def_step (func_def loc pub name ps decos body ltp)] chunk)).
  - cbn [top_kids kids]. unfold def_kids. apply in_or_app. right. apply in_or_app. right.
    unfold under. cbn [app]. apply in_map. exact Hin.
  - reflexivity.
  - exact He.
Qed.

Lemma func_effect_rejected_lem m loc pub name ps decos body ltp n chunk :
  good_root m = true -> In chunk body ->
  known_c22 n (ctx_func m pub name) chunk = Some false ->
  EffectIn false (ctx_func m pub name) chunk ->
  check_module cur m [DefE (func_def loc pub name ps decos body ltp)] <> Ok [].
Proof.
  intros Hm Hin Hk He.
  assert (Hv : EffectIn true (ctx_func m pub name) chunk).
  { unfold known_c22 in Hk.
    destruct (effect_inb false n _ chunk) as [a|] eqn:Ha; [|discriminate].
    destruct (effect_inb true n _ chunk) as [v|] eqn:Hv; [|discriminate].
    injection Hk as Hk. apply (effect_inb_spec true n _ _ v Hv).
    assert (a = true) by (apply (effect_inb_spec false n _ _ a Ha); exact He). subst a.
    destruct v; [reflexivity|discriminate]. }
  apply (module_effect_rejected_lem m _ (DefE (func_def loc pub name ps decos body ltp)) Hm); [left; reflexivity|].
  apply func_body_top with (chunk := chunk); assumption.
Qed.

Lemma okb_all_true_eq r : okb r = true -> r = Ok [].
Proof. apply okb_true. Qed.

Lemma proc_and_toplevel_accepted_lem m loc pub name ps body ltp :
  params_quiet ps = true ->
  (forall pe, In pe (ps_dflt ps) -> Quiet false (snd pe)) ->
  (forall chunk, In chunk body -> Quiet false chunk) ->
  check_module cur m [DefE (proc_def loc pub name ps [] body ltp)] = Ok []
  /\ check_module cur m body = Ok [].
Proof.
  intros Hps Hd Hb. split; apply okb_true; rewrite okb_check_module.
  - cbn [forallb]. rewrite andb_true_r. apply quiet_top_accepted. constructor.
    + cbn [quiet_here]. unfold def_quiet, proc_def. cbn. rewrite Hps. destruct body; reflexivity.
    + intros s k Hin. cbn [ckids] in Hin. unfold ckids_def, proc_def in Hin. cbn [d_decos d_params d_body map app] in Hin.
      apply in_app_or in Hin. destruct Hin as [Hin|Hin].
      * unfold ckids_params in Hin. apply in_map_iff in Hin. destruct Hin as [pe [E Hpe]].
        injection E as <- <-. apply (Hd pe Hpe).
      * apply in_map_iff in Hin. destruct Hin as [x [E Hx]]. injection E as <- <-. apply (Hb x Hx).
  - apply forallb_forall. intros e He. apply quiet_top_accepted, Hb, He.
Qed.

(** ** concrete trees *)
Definition S (l : list Z) : str := l.
Definition n_mod : str := [60; 109; 62].                 (* "<m>" *)
Definition n_f : str := [102].                            (* "f" *)
Definition n_p : str := [112; 33].                        (* "p!" *)
Definition ns_f : str := n_mod ++ dcolon ++ n_f.
Definition ns_builtin : str := [60; 98; 62].              (* "<b>" *)
Definition v_print : expr := Ident (MkAcc 11 false false false ns_builtin).
Definition v_x (ns : str) : expr := Ident (MkAcc 12 false true false ns).
Definition print_x (ns : str) : expr := Call 10 v_print true None false [v_x ns] None [] None.
Definition no_params : params := MkParams [] None [] None [].
Definition one_param : params := MkParams [MkP 1 false (Some false)] None [] None [].
Definition vdef (loc : Z) (name : str) (body : list expr) : expr :=
  DefE (MkDef loc false false false name None [] body false).
Definition v_local (loc : Z) (ns : str) : expr := Ident (MkAcc loc false false false ns).

(** f x = (y = (z = (print! x; 1); z); y) *)
Definition body_two_blocks (ns : str) : list expr :=
  [vdef 20 [121] [vdef 21 [122] [print_x ns; Lit]; v_local 22 (ns ++ dcolon ++ [121])]; v_local 23 ns].
(** f x = (r = {.a = 1; .b = print! x}; r.a) *)
Definition body_record (ns : str) : list expr :=
  [vdef 30 [114] [Record [MkDef 31 false false true [97] None [] [Lit] false;
                          MkDef 32 false false true [98] None [] [print_x ns] false]];
   Attr (MkAcc 33 false false false ns) (v_local 34 ns)].
(** an outer mutable variable read two blocks down *)
Definition v_outer_mut : expr := Ident (MkAcc 40 true false false n_mod).
Definition body_mut (ns : str) : list expr :=
  [vdef 41 [121] [vdef 42 [122] [BinOp 43 false v_outer_mut (v_x ns)]; v_local 44 (ns ++ dcolon ++ [121])]; v_local 45 ns].
(** a method with `!` on a mutable list, in a lambda-free conditional position: f x = [l.push! x] *)
Definition push_x (ns : str) : expr :=
  Call 50 (Ident (MkAcc 51 true false false n_mod)) false (Some true) false [v_x ns] None [] None.

Definition fdef (body : list expr) : expr := DefE (func_def 1 false n_f one_param [] body false).
Definition pdef (body : list expr) : expr := DefE (proc_def 1 false n_p one_param [] body false).

(** the skipped positions *)
Definition v_g : expr := Ident (MkAcc 60 false false false n_mod).          (* a user procedure g! *)
Definition call_g : expr := Call 61 v_g true None false [] None [] None.
Definition v_id : expr := Ident (MkAcc 62 false false false n_mod).
Definition body_var_args : list expr := [Call 63 v_id false None false [] (Some (ListN [call_g])) [] None].
Definition body_kw_var : list expr := [Call 64 v_id false None false [Lit] None [] (Some (DictN [(Lit, call_g)]))].
Definition body_attr_recv : list expr := [Attr (MkAcc 65 false false false ns_builtin) call_g].
Definition body_deco : list expr :=
  [DefE (MkDef 66 false false false [104] (Some one_param) [call_g] [Lit] false); Lit].
Definition top_callee : list expr :=
  [Call 67 (Lambda false one_param [print_x (n_mod ++ dcolon ++ s_lambda)]) false None false [Lit] None [] None].
(** the known class: f x = (p!(y := g!()) = y; x) *)
Definition body_proc_default (ns : str) : list expr :=
  [DefE (MkDef 70 true false false n_p
               (Some (MkParams [] None [(MkP 71 false (Some false), call_g)] None [])) []
               [Ident (MkAcc 72 false true false (ns ++ dcolon ++ n_p))] false);
   v_x ns].

Definition frames_only : fixes := MkFixes true false.

Definition eff (vonly : bool) (c : sctx) (l : list expr) : option bool :=
  any_ob (map (effect_inb vonly 20 c) l).

Lemma eff_sound vonly c l : eff vonly c l = Some true -> exists chunk, In chunk l /\ EffectIn vonly c chunk.
Proof.
  unfold eff, any_ob. destruct (all_some _) as [r|] eqn:Hr; [|discriminate]. intros H. injection H as H.
  apply all_some_spec in Hr. apply existsb_exists in H. destruct H as [b [Hb ->]].
  assert (Hin : In (Some true) (map Some r)) by (apply in_map; exact Hb).
  rewrite <- Hr in Hin. apply in_map_iff in Hin. destruct Hin as [chunk [Hc Hin]].
  exists chunk. split; [exact Hin|]. apply (effect_inb_spec vonly 20 c chunk true Hc). reflexivity.
Qed.

(** ** the checker does not panic on well-formed trees *)
Definition param_named (p : pinfo) : bool :=
  negb (p_tproc p) || match p_name p with Some _ => true | None => false end.
Definition params_named (ps : params) : bool :=
  forallb param_named (ps_nd ps) && match ps_var ps with Some p => param_named p | None => true end
  && forallb (fun pe => param_named (fst pe)) (ps_dflt ps).
Definition def_wf (d : def) : bool :=
  match def_frame (d_proc d) (is_subr d) (d_const d) with
  | None => false
  | Some _ => match d_params d with Some ps => params_named ps | None => true end
  end.
(** no constant procedure, no dict comprehension (lowering has a todo!() there as well), no nameless parameter
    of procedure type *)
Definition node_wf (e : expr) : bool :=
  match e with
  | DictOther => false
  | Lambda _ ps _ => params_named ps
  | DefE d => def_wf d
  | Record attrs => forallb def_wf attrs
  | _ => true
  end.
Inductive Wf : expr -> Prop :=
| Wf_intro e : node_wf e = true -> (forall s k, In (s, k) (ckids e) -> Wf k) -> Wf e.

Lemma param_named_np path p : param_named p = true -> npb (param_err path p) = true.
Proof.
  unfold param_named, param_err. destruct (p_tproc p); [|reflexivity]. cbn [negb orb].
  destruct (p_name p) as [[|]|]; [reflexivity|reflexivity|discriminate].
Qed.

Lemma params_named_np path ps : params_named ps = true -> npb (params_here path ps) = true.
Proof.
  unfold params_named, params_here. intros H.
  apply andb_true_iff in H. destruct H as [H H3]. apply andb_true_iff in H. destruct H as [H1 H2].
  rewrite !npb_seq, !npb_seql, !forallb_map'. rewrite !andb_true_iff. repeat split.
  - rewrite forallb_forall in *. intros p Hp. apply param_named_np, H1, Hp.
  - destruct (ps_var ps) as [p|]; [|reflexivity]. apply param_named_np, H2.
  - rewrite forallb_forall in *. intros pe Hp. apply param_named_np, H3, Hp.
Qed.

Lemma def_wf_np path d : def_wf d = true -> npb (def_here path d) = true.
Proof.
  unfold def_wf, def_here, last_assign.
  destruct (def_frame (d_proc d) (is_subr d) (d_const d)) as [k|]; [|discriminate].
  intros H. rewrite npb_seq. apply andb_true_iff. split.
  - destruct (d_params d) as [ps|]; [apply params_named_np; exact H|reflexivity].
  - destruct (d_body d); [reflexivity|]. destruct (_ && _ && _); reflexivity.
Qed.

Lemma node_wf_np st path e : bottom st -> node_wf e = true -> npb (here_chk st path e) = true.
Proof.
  intros Hb Hw.
  assert (Hun : forall x, npb (unless_allowed cur st x) = true).
  { intros x. unfold unless_allowed. rewrite (allowed_cur st Hb). destruct (gen st); reflexivity. }
  assert (Hvar : forall a, npb (touch cur st path a) = true).
  { intros a. unfold touch. rewrite (allowed_cur st Hb). destruct (_ && _ && _ && _ && _); reflexivity. }
  destruct e; cbn [node_wf here_chk] in *; try reflexivity; try discriminate; try apply Hvar.
  - rewrite npb_seq. destruct ctor, (callee_proc || attr_proc attr); rewrite ?Hun; reflexivity.
  - destruct isop; [apply Hun|reflexivity].
  - rewrite npb_seql, forallb_map'. rewrite forallb_forall in *. intros d Hd. apply def_wf_np, Hw, Hd.
  - apply params_named_np, Hw.
  - apply def_wf_np, Hw.
Qed.

Theorem no_panic e : Wf e -> forall st path, bottom st -> npb (check_expr cur st path e) = true.
Proof.
  induction 1 as [e Hw _ IH]; intros st path Hb. rewrite npb_check_expr.
  rewrite (node_wf_np st path e Hb Hw). cbn [andb].
  apply forallb_forall. intros [s k] Hin. unfold kid_ok. cbn [fst snd].
  apply (IH s k Hin). apply bottom_pushf, Hb.
Qed.

Lemma wf_kids e s k : Wf e -> In (s, k) (ckids e) -> Wf k.
Proof. intros H Hin. destruct H as [e _ Hk]. exact (Hk s k Hin). Qed.

Lemma no_panic_top path e : Wf e -> npb (check_top cur [Module] path e) = true.
Proof.
  intros Hq.
  assert (Hgen : npb (check_expr cur [Module] path e) = true).
  { apply (no_panic e Hq). apply bottom_module. }
  assert (Hkid : forall path' x, In ([], x) (ckids e) -> npb (check_expr cur [Module] path' x) = true).
  { intros path' x Hin. apply (no_panic x (wf_kids e [] x Hq Hin)). apply bottom_module. }
  destruct e as [ | ? | ? ? | loc callee cp at_ ctor pos var kw kwvar | ? ? ? ? | ? | ? | ? ? | ? ? | ? | ? | ? ? | ? |  | ? | ? ? ? | ? | pub name req methods | ? ? | ? | ? ? | ? | ? |  | ?]; try exact Hgen; cbn [check_top fx_subs cur]; try reflexivity.
  - apply Hkid. left. reflexivity.
  - cbn [ckids kids] in Hkid.
    assert (Hk : forall path' x, In x (callee :: pos ++ oexpr var ++ kw ++ oexpr kwvar) ->
                                 npb (check_expr cur [Module] path' x) = true).
    { intros path' x Hx. apply Hkid. unfold here. rewrite map_map. cbn [k_steps k_e].
      apply in_map_iff. exists x. auto. }
    rewrite !npb_seq, !npb_check_list, !npb_oexpr. rewrite !andb_true_iff.
    repeat split; try (apply Hk; left; reflexivity);
      apply forallb_forall; intros x Hx; apply Hk; right; rewrite !in_app_iff; auto.
  - rewrite npb_seq. rewrite andb_true_iff. split; apply Hkid; cbn; auto.
  - cbn [ckids kids] in Hkid.
    assert (Hk : forall path' x, In x (oexpr req ++ methods) -> npb (check_expr cur [Module] path' x) = true).
    { intros path' x Hx. apply Hkid. unfold here. rewrite map_map. cbn [k_steps k_e].
      apply in_map_iff. exists x. auto. }
    rewrite npb_seq, npb_oexpr, npb_check_list. rewrite andb_true_iff.
    split; apply forallb_forall; intros x Hx; apply Hk; apply in_or_app; auto.
Qed.

Lemma no_panic_module_lem m hir : (forall e, In e hir -> Wf e) -> exists errs, check_module cur m hir = Ok errs.
Proof.
  intros H. assert (Hn : npb (check_module cur m hir) = true).
  { unfold check_module. rewrite npb_seql, forallb_map'. apply forallb_forall. intros e He.
    apply no_panic_top, H, He. }
  destruct (check_module cur m hir) as [errs|]; [exists errs; reflexivity|discriminate].
Qed.

(** ** witnesses *)
Definition cf : sctx := ctx_func n_mod false n_f.

Ltac vm := vm_compute; reflexivity.

Lemma eff_two_blocks : eff true cf (body_two_blocks ns_f) = Some true. Proof. vm. Qed.
Lemma eff_record : eff true cf (body_record ns_f) = Some true. Proof. vm. Qed.
Lemma eff_mut : eff true cf (body_mut ns_f) = Some true. Proof. vm. Qed.

(** the code as found: an effect two local blocks down, or in a record field, is not reported *)
Lemma instant_frames_refuted_lem :
  exists body chunk,
    In chunk body /\ EffectIn true cf chunk
    /\ check_module nofix n_mod [fdef body] = Ok []
    /\ check_module cur n_mod [fdef body] <> Ok [].
Proof.
  destruct (eff_sound true cf (body_two_blocks ns_f) eff_two_blocks) as [chunk [Hin He]].
  exists (body_two_blocks ns_f), chunk.
  split; [exact Hin|split; [exact He|split; [vm|vm_compute; discriminate]]].
Qed.

Lemma record_field_refuted_lem :
  exists body chunk,
    In chunk body /\ EffectIn true cf chunk /\ check_module nofix n_mod [fdef body] = Ok [].
Proof.
  destruct (eff_sound true cf (body_record ns_f) eff_record) as [chunk [Hin He]].
  exists (body_record ns_f), chunk. split; [exact Hin|split; [exact He|vm]].
Qed.

Lemma outer_mutable_refuted_lem :
  exists body chunk,
    In chunk body /\ EffectIn true cf chunk /\ check_module nofix n_mod [fdef body] = Ok [].
Proof.
  destruct (eff_sound true cf (body_mut ns_f) eff_mut) as [chunk [Hin He]].
  exists (body_mut ns_f), chunk. split; [exact Hin|split; [exact He|vm]].
Qed.

(** the code with only the frame repair: effects in *args, **kwargs, the receiver of an attribute and a decorator
    are not reported *)
Lemma skipped_subexpr_refuted_lem :
  forall body, In body [body_var_args; body_kw_var; body_attr_recv; body_deco] ->
    (exists chunk, In chunk body /\ EffectIn true cf chunk)
    /\ check_module frames_only n_mod [fdef body] = Ok []
    /\ check_module cur n_mod [fdef body] <> Ok [].
Proof.
  intros body [<-|[<-|[<-|[<-|[]]]]];
    (split; [apply eff_sound; vm|split; [vm|vm_compute; discriminate]]).
Qed.

(** ... and at module level the callee of a call was not looked at: (x -> print! x) 1 *)
Definition top_callee_lambda : expr := Lambda false one_param [print_x (n_mod ++ dcolon ++ s_lambda)].
Lemma toplevel_callee_refuted_lem :
  (exists e, In e top_callee /\ EffectInTop true n_mod e)
  /\ check_module frames_only n_mod top_callee = Ok []
  /\ check_module cur n_mod top_callee <> Ok [].
Proof.
  split; [|split; [vm|vm_compute; discriminate]].
  exists (Call 67 top_callee_lambda false None false [Lit] None [] None). split; [left; reflexivity|].
  apply (EIT true n_mod _ (MkKid true [] top_callee_lambda)); [left; reflexivity|reflexivity|].
  apply (effect_inb_spec true 20 (enter (ctx_top n_mod) []) top_callee_lambda true); [vm|reflexivity].
Qed.

(** the known class on the current code: f x = (p!(y := g!()) = y; x) is accepted *)
Lemma proc_default_refuted_lem :
  exists body chunk,
    In chunk body /\ Known_C22 cf chunk /\ check_module cur n_mod [fdef body] = Ok [].
Proof.
  exists (body_proc_default ns_f), (hd Lit (body_proc_default ns_f)).
  split; [left; reflexivity|]. split; [|vm].
  apply (known_c22_spec 20 cf _ true); [vm|reflexivity].
Qed.

(** non-vacuity: a body with an effect in function context that is quiet in procedure / module context *)
Definition ex_body_f : list expr := body_two_blocks ns_f ++ body_record ns_f ++ body_mut ns_f ++ [push_x ns_f].
Definition ex_body_p : list expr := body_two_blocks (n_mod ++ dcolon ++ n_p).
Lemma c22_example_lem :
  (exists chunk, In chunk ex_body_f /\ EffectIn false cf chunk /\ known_c22 20 cf chunk = Some false)
  /\ check_module cur n_mod [fdef ex_body_f] <> Ok []
  /\ (forall chunk, In chunk ex_body_p -> Quiet false chunk)
  /\ check_module cur n_mod [pdef ex_body_p] = Ok []
  /\ check_module cur n_mod (body_two_blocks n_mod) = Ok [].
Proof.
  split; [|split; [|split; [|split]]].
  - exists (hd Lit ex_body_f). split; [left; reflexivity|]. split; [|vm].
    apply (effect_inb_spec false 20 cf _ true); [vm|reflexivity].
  - vm_compute. discriminate.
  - intros chunk Hin.
    assert (H : quietb 20 false chunk = Some true).
    { destruct Hin as [<-|[<-|[]]]; vm. }
    apply (quietb_spec 20 false chunk true H). reflexivity.
  - vm.
  - vm.
Qed.
