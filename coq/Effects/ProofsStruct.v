(** C22 — structural lemma: a checker result is determined by the node-local checks and the visited kids. *)
From Coq Require Import ZArith List Bool Lia.
From ErgV Require Import Effects.MiniHir Effects.Model Effects.Spec Effects.ProofsEq.
Import ListNotations.
Open Scope Z_scope.

(** frames / path segments pushed on the way to a kid *)
Definition pushf (s : list step) (st : list frame) : list frame :=
  fold_left (fun st x => match fst x with Some k => k :: st | None => st end) s st.
Definition pushp (s : list step) (path : list seg) : list seg :=
  fold_left (fun p x => match snd x with Some sg => p ++ [sg] | None => p end) s path.

(** node-local checks of the current code *)
Definition params_here (path : list seg) (ps : params) : M :=
  seq (seql (map (param_err path) (ps_nd ps)))
 (seq (match ps_var ps with Some p => param_err path p | None => Ok [] end)
      (seql (map (fun pe => param_err path (fst pe)) (ps_dflt ps)))).
Definition def_here (path : list seg) (d : def) : M :=
  match def_frame (d_proc d) (is_subr d) (d_const d) with
  | None => Panic 2
  | Some k =>
    seq (match d_params d with Some ps => params_here (def_path path d) ps | None => Ok [] end)
        (last_assign k d (def_path path d))
  end.
Definition here_chk (st : list frame) (path : list seg) (e : expr) : M :=
  match e with
  | Ident a | Attr a _ => touch cur st path a
  | Call loc _ cp at_ ctor _ _ _ _ =>
    seq (if ctor then unless_allowed cur st (MkErr CtorDtor loc (full_path path)) else Ok [])
        (if cp || attr_proc at_ then unless_allowed cur st (MkErr HasEffect loc (full_path path)) else Ok [])
  | BinOp loc isop _ _ => if isop then unless_allowed cur st (MkErr HasEffect loc (full_path path)) else Ok []
  | DictOther => Panic 3
  | Lambda proc ps _ => params_here (lambda_path proc path) ps
  | DefE d => def_here path d
  | Record attrs => seql (map (def_here (path ++ [(false, s_record)])) attrs)
  | _ => Ok []
  end.

(** [h] is any observation of a checker result that distributes over sequencing: "no error" ([okb]) and
    "no panic" ([npb]) are the two instances used. *)
Section Hom.
  Variable h : M -> bool.
  Hypothesis h_seq : forall a b, h (seq a b) = h a && h b.
  Hypothesis h_nil : h (Ok []) = true.
  Hypothesis h_panic : forall s, h (Panic s) = false.

  Lemma h_seql l : h (seql l) = forallb h l.
  Proof. induction l as [|a t IH]; simpl; [apply h_nil|]. rewrite h_seq, IH. reflexivity. Qed.

Definition kid_ok (st : list frame) (path : list seg) (sk : list step * expr) : bool :=
  h (check_expr cur (pushf (fst sk) st) (pushp (fst sk) path) (snd sk)).

Lemma forallb_map' {A B} (f : B -> bool) (g : A -> B) l : forallb f (map g l) = forallb (fun x => f (g x)) l.
Proof. induction l; simpl; congruence. Qed.

Lemma h_check_list fx st path l :
  h (check_list fx st path l) = forallb (fun x => h (check_expr fx st path x)) l.
Proof. unfold check_list. rewrite h_seql, forallb_map'. reflexivity. Qed.

Lemma forallb_flat_map {A B} (f : B -> bool) (g : A -> list B) l :
  forallb f (flat_map g l) = forallb (fun x => forallb f (g x)) l.
Proof. induction l as [|a t IH]; simpl; [reflexivity|]. rewrite forallb_app, IH. reflexivity. Qed.

Lemma forallb_ext' {A} (f g : A -> bool) l : (forall x, f x = g x) -> forallb f l = forallb g l.
Proof. intros H. induction l; simpl; [reflexivity|]. rewrite H, IHl. reflexivity. Qed.

Lemma forallb_andb {A} (f g : A -> bool) l : forallb (fun x => f x && g x) l = forallb f l && forallb g l.
Proof.
  induction l as [|a t IH]; simpl; [reflexivity|]. rewrite IH.
  destruct (f a), (g a), (forallb f t), (forallb g t); reflexivity.
Qed.

Lemma h_oexpr st path o :
  h (check_opt cur st path o) = forallb (fun x => h (check_expr cur st path x)) (oexpr o).
Proof. destruct o; simpl; [rewrite andb_true_r; reflexivity|apply h_nil]. Qed.

Ltac batoms :=
  repeat match goal with
         | |- context [forallb ?f ?l] => let b := fresh "b" in generalize (forallb f l); intro b
         end;
  repeat match goal with
         | |- context [h ?x] => let b := fresh "b" in generalize (h x); intro b
         end;
  intros;
  repeat match goal with b : bool |- _ => destruct b end; try reflexivity.

Lemma h_params st path ps s :
  pushf s nil = nil -> True ->
  h (check_params cur st path ps)
  = h (params_here path ps) && forallb (fun pe => h (check_expr cur st path (snd pe))) (ps_dflt ps).
Proof.
  intros _ _. unfold check_params, params_here. rewrite !h_seq, !h_seql, !forallb_map'.
  rewrite (forallb_ext' _ (fun x => h (param_err path (fst x)) && h (check_expr cur st path (snd x)))).
  2:{ intros x. apply h_seq. }
  rewrite forallb_andb. batoms.
Qed.

Lemma pushf_app s1 s2 st : pushf (s1 ++ s2) st = pushf s2 (pushf s1 st).
Proof. apply fold_left_app. Qed.
Lemma pushp_app s1 s2 p : pushp (s1 ++ s2) p = pushp s2 (pushp s1 p).
Proof. apply fold_left_app. Qed.

Lemma def_step_frame d k : def_frame (d_proc d) (is_subr d) (d_const d) = Some k ->
  forall st, pushf [def_step d] st = k :: st.
Proof. intros H st. unfold def_step, def_frame'. rewrite H. reflexivity. Qed.
Lemma def_step_path d p : pushp [def_step d] p = def_path p d.
Proof. unfold def_step, def_path. destruct (is_subr d); reflexivity. Qed.

(** the definition arm, under a prefix [pre] of boundaries already crossed *)
Lemma h_def pre st path d :
  h (check_def_eq cur (pushf pre st) (pushp pre path) d)
  = h (def_here (pushp pre path) d) && forallb (kid_ok st path) (ckids_def pre d).
Proof.
  unfold check_def_eq, def_here, ckids_def. cbn [fx_subs cur].
  rewrite !forallb_app, !forallb_map', h_seq, h_check_list.
  unfold kid_ok at 1. cbn [fst snd].
  destruct (def_frame (d_proc d) (is_subr d) (d_const d)) as [k|] eqn:Hk.
  2:{ rewrite h_panic, andb_false_r. reflexivity. }
  rewrite !h_seq, h_check_list.
  unfold kid_ok. cbn [fst snd]. rewrite !pushf_app, !pushp_app, (def_step_frame d k Hk), def_step_path.
  destruct (d_params d) as [ps|].
  - unfold ckids_params. rewrite forallb_map'. cbn [fst snd].
    rewrite !pushf_app, !pushp_app, (def_step_frame d k Hk), def_step_path.
    rewrite (h_params _ _ ps nil eq_refl I). batoms.
  - cbn [forallb]; rewrite ?h_nil. batoms.
Qed.

Lemma pushf_lambda proc st : pushf [lambda_step proc] st = lambda_st proc st.
Proof. reflexivity. Qed.
Lemma pushp_lambda proc p : pushp [lambda_step proc] p = lambda_path proc p.
Proof. reflexivity. Qed.

Lemma forallb_here st path l :
  forallb (kid_ok st path) (map (fun k => (k_steps k, k_e k)) (here l))
  = forallb (fun x => h (check_expr cur st path x)) l.
Proof. unfold here. rewrite !forallb_map'. reflexivity. Qed.

(** one level of the checker: node-local checks and the kids it visits *)
Lemma h_check_expr st path e :
  h (check_expr cur st path e) = h (here_chk st path e) && forallb (kid_ok st path) (ckids e).
Proof.
  rewrite check_expr_unfold.
  destruct e; cbn [check_expr_eq here_chk ckids kids fx_subs cur];
    rewrite ?forallb_here; cbn [forallb andb]; rewrite ?h_nil, ?h_panic; cbn [andb];
    rewrite ?h_seq, ?h_check_list, ?h_oexpr, ?forallb_app; cbn [forallb oexpr]; rewrite ?andb_true_r.
  - reflexivity.
  - reflexivity.
  - batoms.
  - batoms.
  - batoms.
  - reflexivity.
  - reflexivity.
  - batoms.
  - reflexivity.
  - reflexivity.
  - reflexivity.
  - reflexivity.
  - (* DictN *)
    rewrite h_seql, forallb_map', forallb_flat_map. apply forallb_ext'. intros [k v].
    cbn [fst snd forallb]. rewrite h_seq, andb_true_r. reflexivity.
  - reflexivity.
  - (* Record *)
    rewrite !h_seql, !forallb_map', forallb_flat_map, <- forallb_andb. apply forallb_ext'. intros d.
    exact (h_def [record_step] st path d).
  - (* Lambda *)
    unfold ckids_params. rewrite !forallb_map'. unfold kid_ok. cbn [fst snd].
    rewrite pushf_lambda, pushp_lambda, (h_params _ _ ps nil eq_refl I). batoms.
  - (* DefE *) exact (h_def [] st path d).
  - batoms.
  - reflexivity.
  - reflexivity.
  - reflexivity.
  - reflexivity.
  - reflexivity.
  - reflexivity.
  - reflexivity.
Qed.
End Hom.
