(** C22 — model of crates/erg_compiler/effectcheck.rs (SideEffectChecker), arm by arm.
    Definitions only; proofs are in Proofs.v.

    The Rust checker keeps two stacks ([block_stack], [path_stack]) and an error list.  Every push is
    matched by a pop on the same path, so the stacks are passed down as arguments here and the errors
    are returned, in emission order.  Stacks are lists with the TOP FIRST for [block_stack] (the code only
    looks at the top frames) and in push order for [path_stack] ([full_path] folds from the bottom).

    [fixes] selects the code before/after the two repairs made to effectcheck.rs in this round:
      fx_frames  in_context_effects_allowed walks down through Instant frames to the nearest
                 Proc/Func/... frame (before: it looked at the top two frames only)
      fx_subs    sub-expressions that were skipped are visited: call.args.var_args / kw_var, the receiver
                 of an attribute access, decorators, and at module level the callee of a call and the
                 parameters of a lambda
    [cur] is the code as it is now (/repo commits c9ed2605 "a local block inherits the permission of the nearest
    enclosing subroutine" and d85f0e20 "visit the sub-expressions that were skipped"); [nofix] the code as found
    (used only for the *_refuted witnesses). *)
From Coq Require Import ZArith List Bool.
From ErgV Require Import Effects.MiniHir.
Import ListNotations.
Open Scope Z_scope.

(** effectcheck.rs: enum BlockKind *)
Inductive frame := Func | ConstFunc | ConstInstant | Proc | Instant | Module.

Definition frame_eqb (a b : frame) : bool :=
  match a, b with
  | Func, Func | ConstFunc, ConstFunc | ConstInstant, ConstInstant | Proc, Proc | Instant, Instant | Module, Module => true
  | _, _ => false
  end.

(** the four constructors of EffectError used by the checker (all have ErrorKind::HasEffect) *)
Inductive ekind := HasEffect | CtorDtor | ProcAssign | TouchMut.
Record err := MkErr { e_kind : ekind; e_loc : Z; e_by : str }.

Inductive res (A : Type) : Type :=
| Ok (a : A)
| Panic (site : Z).   (* 1 param.inspect().unwrap() on a nameless pattern; 2 panic!("user-defined constant procedures");
                         3 todo!() on Dict::Comprehension; 4 block_stack index underflow / unwrap on an empty stack *)
Arguments Ok {A} a.
Arguments Panic {A} site.

Definition M := res (list err).
Definition seq (a b : M) : M :=
  match a with
  | Panic s => Panic s
  | Ok x => match b with Panic s => Panic s | Ok y => Ok (x ++ y) end
  end.
Fixpoint seql (l : list M) : M := match l with [] => Ok [] | a :: t => seq a (seql t) end.

Record fixes := MkFixes { fx_frames : bool; fx_subs : bool }.
Definition cur : fixes := MkFixes true true.
Definition nofix : fixes := MkFixes false false.

(** ** path_stack and full_path *)
Definition seg := (bool * str)%type.                 (* Visibility: is_public, def_namespace *)
Definition dot : str := [46].
Definition dcolon : str := [58; 58].
Definition seg_str (s : seg) : str := (if fst s then dot else dcolon) ++ snd s.
Definition is_sep (c : Z) : bool := (c =? 46) || (c =? 58).
Fixpoint trim_start (s : str) : str :=              (* trim_start_matches(['.', ':']) *)
  match s with [] => [] | c :: t => if is_sep c then trim_start t else s end.
Definition full_path (p : list seg) : str :=
  trim_start (fold_left (fun acc s => acc ++ seg_str s) p []).

Fixpoint str_eqb (a b : str) : bool :=
  match a, b with
  | [], [] => true
  | x :: a', y :: b' => (x =? y) && str_eqb a' b'
  | _, _ => false
  end.

Definition s_record : str := [60; 114; 101; 99; 111; 114; 100; 62].          (* "<record>" *)
Definition s_lambda : str := [60; 108; 97; 109; 98; 100; 97; 62].            (* "<lambda>" *)
Definition s_lambda_p : str := [60; 108; 97; 109; 98; 100; 97; 33; 62].      (* "<lambda!>" *)

(** ** in_context_effects_allowed *)
Definition allowed (fx : fixes) (st : list frame) : res bool :=
  match st with
  | [_] => Ok true                                   (* if self.block_stack.len() == 1 { return true } *)
  | _ =>
    if fx_frames fx then
      (* match self.block_stack.iter().rev().find(|k| **k != Instant)
           { Some(Proc | Module) | None => true, Some(_) => false } *)
      Ok (match find (fun k => negb (frame_eqb k Instant)) st with
          | Some Proc | Some Module | None => true
          | Some _ => false
          end)
    else
      match st with
      | top :: snd :: _ =>
        (* match (stack[len-2], stack.last()) *)
        Ok (match snd, top with
            | _, Func | _, ConstInstant => false
            | _, Proc => true
            | Proc, Instant | Module, Instant | Instant, Instant => true
            | _, _ => false
            end)
      | _ => Panic 4                                 (* len() - 2 on an empty stack *)
      end
  end.

(** push an error unless effects are allowed here *)
Definition unless_allowed (fx : fixes) (st : list frame) (e : err) : M :=
  match allowed fx st with
  | Panic s => Panic s
  | Ok true => Ok []
  | Ok false => Ok [e]
  end.

(** the three loops of check_params: a parameter of procedure type whose name does not end with `!` *)
Definition param_err (path : list seg) (p : pinfo) : M :=
  if p_tproc p then
    match p_name p with
    | None => Panic 1
    | Some true => Ok []
    | Some false => Ok [MkErr ProcAssign (p_loc p) (full_path path)]
    end
  else Ok [].

(** check_def: the match on (is_procedural, is_subr, is_const) *)
Definition def_frame (dproc subr dconst : bool) : option frame :=
  match dproc, subr, dconst with
  | true, true, true => None                         (* panic! *)
  | true, true, false => Some Proc
  | _, false, false => Some Instant
  | false, true, true => Some ConstFunc
  | false, true, false => Some Func
  | _, false, true => Some ConstInstant
  end.

(** the Accessor arm of check_expr (without the receiver) *)
Definition touch (fx : fixes) (st : list frame) (path : list seg) (a : acc_info) : M :=
  match allowed fx st with
  | Panic s => Panic s
  | Ok al =>
    if negb al && negb (a_param a) && a_mut a && negb (a_rootref a) && negb (str_eqb (a_ns a) (full_path path))
    then Ok [MkErr TouchMut (a_loc a) (full_path path)]
    else Ok []
  end.

Section Checker.
  Variable fx : fixes.

  (** check_expr; check_params and check_def are local because [def] is nested in [expr] *)
  Fixpoint check_expr (st : list frame) (path : list seg) (e : expr) {struct e} : M :=
    let check_list := fun st path =>
      fix go (l : list expr) : M :=
        match l with [] => Ok [] | x :: t => seq (check_expr st path x) (go t) end in
    let check_opt := fun st path (o : option expr) =>
      match o with Some x => check_expr st path x | None => Ok [] end in
    (* fn check_params *)
    let check_params := fun st path (ps : params) =>
      match ps with
      | MkParams nd var dflt kwvar guards =>
        seq (seql (map (param_err path) nd))
       (seq (match var with Some p => param_err path p | None => Ok [] end)
            ((fix go (l : list (pinfo * expr)) : M :=
                match l with
                | [] => Ok []
                | (p, dv) :: t => seq (param_err path p) (seq (check_expr st path dv) (go t))
                end) dflt))
      end in
    (* fn check_def *)
    let check_def := fun st path (d : def) =>
      match d with
      | MkDef loc dproc dconst dpub name ops decos body ltp =>
        let subr := match ops with Some _ => true | None => false end in
        seq (if fx_subs fx then check_list st path decos else Ok [])
        (let path' := if subr then path ++ [(dpub, name)] else path in
         match def_frame dproc subr dconst with
         | None => Panic 2
         | Some k =>
           let st' := k :: st in
           seq (match ops with Some ps => check_params st' path' ps | None => Ok [] end)
          (seq (check_list st' path' body)
               (* e.g. `echo = print!`: after the last chunk *)
               (match body with
                | [] => Ok []
                | _ :: _ => if frame_eqb k Instant && negb dproc && ltp
                            then Ok [MkErr ProcAssign loc (full_path path')] else Ok []
                end))
         end)
      end in
    match e with
    | Lit => Ok []
    | DefE d => check_def st path d
    | ClassDef pub name req ms => seq (check_opt st path req) (check_list st path ms)
    | PatchDef b ms => seq (check_expr st path b) (check_list st path ms)
    | ListN es => check_list st path es
    | ListLen x len => seq (check_expr st path x) (check_opt st path len)
    | ListComp x g => seq (check_expr st path x) (check_expr st path g)
    | TupleN es => check_list st path es
    | Record attrs =>
      let st' := Instant :: st in
      let path' := path ++ [(false, s_record)] in
      (fix go (l : list def) : M := match l with [] => Ok [] | d :: t => seq (check_def st' path' d) (go t) end) attrs
    | SetN es => check_list st path es
    | SetLen x len => seq (check_expr st path x) (check_expr st path len)
    | DictN kvs =>
      (fix go (l : list (expr * expr)) : M :=
         match l with
         | [] => Ok []
         | (k, v) :: t => seq (check_expr st path k) (seq (check_expr st path v) (go t))
         end) kvs
    | DictOther => Panic 3
    | Call loc callee cp at_ ctor pos var kw kwvar =>
      (* constructor_destructor_check *)
      seq (if ctor then unless_allowed fx st (MkErr CtorDtor loc (full_path path)) else Ok [])
     (seq (check_expr st path callee)
     (seq (if cp || match at_ with Some b => b | None => false end
           then unless_allowed fx st (MkErr HasEffect loc (full_path path)) else Ok [])
     (seq (check_list st path pos)
     (seq (if fx_subs fx then check_opt st path var else Ok [])
     (seq (check_list st path kw)
          (if fx_subs fx then check_opt st path kwvar else Ok []))))))
    | UnaryOp x => check_expr st path x
    | BinOp loc isop l r =>
      seq (check_expr st path l)
     (seq (check_expr st path r)
          (if isop then unless_allowed fx st (MkErr HasEffect loc (full_path path)) else Ok []))
    | Lambda proc ps body =>
      let st' := (if proc then Proc else Func) :: st in
      let path' := path ++ [(false, if proc then s_lambda_p else s_lambda)] in
      seq (check_params st' path' ps) (check_list st' path' body)
    | TypeAsc x => check_expr st path x
    | Ident a => touch fx st path a
    | Attr a o => seq (if fx_subs fx then check_expr st path o else Ok []) (touch fx st path a)
    | ReDef _ _ | Code _ | Compound _ | Import | Dummy _ => Ok []
    end.

  Definition check_list (st : list frame) (path : list seg) (l : list expr) : M :=
    seql (map (check_expr st path) l).
  Definition check_opt (st : list frame) (path : list seg) (o : option expr) : M :=
    match o with Some x => check_expr st path x | None => Ok [] end.
  Definition check_def (st : list frame) (path : list seg) (d : def) : M := check_expr st path (DefE d).

  (** the loop body of [check] (module level); the arms not listed are textually those of check_expr *)
  Definition check_top (st : list frame) (path : list seg) (e : expr) : M :=
    match e with
    | DefE d => check_def st path d
    | ClassDef pub name req ms =>
      seq (check_opt st path req) (check_list st (path ++ [(pub, name)]) ms)
    | Call loc callee cp at_ ctor pos var kw kwvar =>
      seq (if fx_subs fx then check_expr st path callee else Ok [])
     (seq (check_list st path pos)
     (seq (if fx_subs fx then check_opt st path var else Ok [])
     (seq (check_list st path kw)
          (if fx_subs fx then check_opt st path kwvar else Ok []))))
    | BinOp loc isop l r => seq (check_expr st path l) (check_expr st path r)
    | Ident _ | Lit => Ok []
    | Attr a o => if fx_subs fx then check_expr st path o else Ok []
    | Lambda proc ps body =>
      if fx_subs fx then check_expr st path e
      else
        let st' := (if proc then Proc else Func) :: st in
        let path' := path ++ [(false, if proc then s_lambda_p else s_lambda)] in
        check_list st' path' body
    | _ => check_expr st path e
    end.

  (** pub fn check(mut self, hir, namespace): the errors (Ok(hir) iff the list is empty) *)
  Definition check_module (namespace : str) (hir : list expr) : M :=
    seql (map (check_top [Module] [(false, namespace)]) hir).
End Checker.
