(** extraction entry point for the C22 correspondence check and judge.
    Wire encoding of the mini-HIR (produced by harness/effects from the real HIR, and by checks/c22.py from the
    generated tree); strings are lists of code points, booleans 0/1, options lists of length <= 1:
      (0) Lit | (1 loc mut param rootref ns name) Ident | (2 loc mut param rootref ns obj name) Attr
      (3 loc callee callee_proc has_attr attr_proc ctor pos var kw kwvar) Call | (4 loc isop l r) BinOp | (5 e) UnaryOp
      (6 es) ListN | (7 e len?) ListLen | (8 e g) ListComp | (9 es) TupleN | (10 es) SetN | (11 e len) SetLen
      (12 ((k v)..)) DictN | (13) DictOther | (14 defs) Record | (15 proc params body) Lambda | (16 def) DefE
      (17 pub name req? methods) ClassDef | (18 base methods) PatchDef | (19 e) TypeAsc | (20 attr block) ReDef
      (21 b) Code | (22 b) Compound | (23) Import | (24 b) Dummy
      def    = (loc proc subr const pub name params? decos body last_tproc)
      params = (nd var? dflt kwvar? guards); param = (loc tproc has_name name_bang); dflt element = (param expr) *)
From Coq Require Import ZArith List Bool.
From ErgV Require Import Common.Sx Effects.MiniHir Effects.Model Effects.Spec.
Import ListNotations.
Open Scope Z_scope.

Definition zb (x : sx) : bool := negb (sx_z x =? 0).
Definition dec_str (x : sx) : str := sx_zs x.
Definition dec_param (x : sx) : pinfo :=
  MkP (sx_z (sx_nth x 0)) (zb (sx_nth x 1)) (if zb (sx_nth x 2) then Some (zb (sx_nth x 3)) else None).
Definition dec_oparam (x : sx) : option pinfo := match sx_l x with p :: _ => Some (dec_param p) | [] => None end.

Fixpoint dec (x : sx) : expr :=
  let dlist := fun (y : sx) => match y with SL l => map dec l | SZ _ => [] end in
  let dopt := fun (y : sx) => match y with SL (e :: _) => Some (dec e) | _ => None end in
  let dparams := fun (y : sx) =>
    match y with
    | SL [nd; var; SL dflt; kwvar; guards] =>
      MkParams (map dec_param (sx_l nd)) (dec_oparam var)
               (map (fun pe => match pe with SL [p; e] => (dec_param p, dec e) | _ => (MkP 0 false None, Lit) end) dflt)
               (dec_oparam kwvar) (dlist guards)
    | _ => MkParams [] None [] None []
    end in
  let ddef := fun (y : sx) =>
    match y with
    | SL [loc; proc; subr; const; pub; name; SL ps; decos; body; ltp] =>
      MkDef (sx_z loc) (zb proc) (zb const) (zb pub) (dec_str name)
            (match ps with p :: _ => Some (dparams p) | [] => None end) (dlist decos) (dlist body) (zb ltp)
    | _ => MkDef 0 false false false [] None [] [] false
    end in
  let dacc := fun loc mut param rootref ns =>
    MkAcc (sx_z loc) (zb mut) (zb param) (zb rootref) (dec_str ns) in
  match x with
  | SZ _ => Lit
  | SL (SZ tag :: args) =>
    match tag, args with
    | 1, loc :: mut :: param :: rootref :: ns :: _ => Ident (dacc loc mut param rootref ns)
    | 2, loc :: mut :: param :: rootref :: ns :: obj :: _ => Attr (dacc loc mut param rootref ns) (dec obj)
    | 3, [loc; callee; cp; hasattr; attrp; ctor; pos; var; kw; kwvar] =>
      Call (sx_z loc) (dec callee) (zb cp) (if zb hasattr then Some (zb attrp) else None) (zb ctor)
           (dlist pos) (dopt var) (dlist kw) (dopt kwvar)
    | 4, [loc; isop; l; r] => BinOp (sx_z loc) (zb isop) (dec l) (dec r)
    | 5, [e] => UnaryOp (dec e)
    | 6, [es] => ListN (dlist es)
    | 7, [e; len] => ListLen (dec e) (dopt len)
    | 8, [e; g] => ListComp (dec e) (dec g)
    | 9, [es] => TupleN (dlist es)
    | 10, [es] => SetN (dlist es)
    | 11, [e; len] => SetLen (dec e) (dec len)
    | 12, [SL kvs] => DictN (map (fun kv => match kv with SL [k; v] => (dec k, dec v) | _ => (Lit, Lit) end) kvs)
    | 13, _ => DictOther
    | 14, [SL defs] => Record (map ddef defs)
    | 15, [proc; ps; body] => Lambda (zb proc) (dparams ps) (dlist body)
    | 16, [d] => DefE (ddef d)
    | 17, [pub; name; req; ms] => ClassDef (zb pub) (dec_str name) (dopt req) (dlist ms)
    | 18, [b; ms] => PatchDef (dec b) (dlist ms)
    | 19, [e] => TypeAsc (dec e)
    | 20, [a; b] => ReDef (dec a) (dlist b)
    | 21, [b] => Code (dlist b)
    | 22, [b] => Compound (dlist b)
    | 23, _ => Import
    | 24, [b] => Dummy (dlist b)
    | _, _ => Lit
    end
  | SL _ => Lit
  end.

Definition enc_kind (k : ekind) : Z :=
  match k with HasEffect => 0 | CtorDtor => 1 | ProcAssign => 2 | TouchMut => 3 end.
Definition enc_err (e : err) : sx := SL [SZ (enc_kind (e_kind e)); SZ (e_loc e); sx_of_zs (e_by e)].
Definition enc_m (r : M) : sx :=
  match r with Ok l => SL [SZ 0; SL (map enc_err l)] | Panic s => SL [SZ (-999); SZ s] end.

Definition dec_fixes (z : Z) : fixes :=
  if z =? 0 then cur else if z =? 1 then nofix else MkFixes true false.

Definition enc_ob (o : option bool) : sx := match o with Some true => SZ 1 | Some false => SZ 0 | None => SZ (-1) end.

(** modes:
    (0 fixes ns hir)                               -> check_module: (0 errs) | (-999 site)
    (1 fuel ns ctx pub name chunks accepted)       -> Spec.judge
    (2 fuel ns ctx pub name chunks)                -> (effect_in_all effect_in_visited quiet) for the body in that context *)
Definition run (x : sx) : sx :=
  let mode := sx_z (sx_nth x 0) in
  if mode =? 0 then
    enc_m (check_module (dec_fixes (sx_z (sx_nth x 1))) (dec_str (sx_nth x 2)) (map dec (sx_l (sx_nth x 3))))
  else
    let n := Z.to_nat (sx_z (sx_nth x 1)) in
    let ns := dec_str (sx_nth x 2) in
    let ctx := sx_z (sx_nth x 3) in
    let pub := zb (sx_nth x 4) in
    let name := dec_str (sx_nth x 5) in
    let chunks := map dec (sx_l (sx_nth x 6)) in
    if mode =? 1 then SZ (judge n ns ctx pub name chunks (zb (sx_nth x 7)))
    else
      let c := if ctx =? 0 then ctx_func ns pub name else if ctx =? 1 then ctx_proc ns pub name else ctx_top ns in
      SL [enc_ob (any_ob (map (effect_inb false n c) chunks));
          enc_ob (any_ob (map (effect_inb true n c) chunks));
          enc_ob (all_ob (map (quietb n false) chunks))].

Require Extraction.
Require Import ExtrOcamlBasic.
Extraction Language OCaml.
Extraction "model.ml" run.
