(** C22 — what "a function performs a side effect" means on the mini-HIR, independent of how the checker walks.

    A *context* records (i) whether the nearest enclosing subroutine-like boundary forbids effects (function,
    non-procedural lambda, constant definition) or allows them (procedure, procedural lambda, module level),
    (ii) the current namespace and (iii) the namespace of the enclosing subroutine.  Local blocks
    ([x = <block>]) and record literals do not change (i).

    [kids e] lists EVERY immediate sub-expression of [e] together with the boundaries crossed on the way
    to it; [k_vis = false] marks the positions outside the guarantee (see Known_C22 below).
    [EffectIn] : an effectful operation occurs in [e] with no procedure / procedural lambda between it and
    the enclosing function.  Effectful operations: a call whose callee has a procedure type, a call of a
    method whose name ends in `!`, a read of a mutable variable that is not a parameter, not reached through a
    [ref] receiver and not defined inside the enclosing subroutine. *)
From Coq Require Import ZArith List Bool.
From ErgV Require Import Effects.MiniHir Effects.Model.
Import ListNotations.
Open Scope Z_scope.

(** ** boundaries *)
Definition step := (option frame * option seg)%type.        (* frame pushed, namespace segment pushed *)
Record kid := MkKid { k_vis : bool; k_steps : list step; k_e : expr }.

Definition def_frame' (d : def) : frame :=
  match def_frame (d_proc d) (is_subr d) (d_const d) with Some k => k | None => Proc end.
Definition def_step (d : def) : step :=
  (Some (def_frame' d), if is_subr d then Some (d_pub d, d_name d) else None).
Definition lambda_step (proc : bool) : step :=
  (Some (if proc then Proc else Func), Some (false, if proc then s_lambda_p else s_lambda)).
Definition record_step : step := (Some Instant, Some (false, s_record)).

Definition here (l : list expr) : list kid := map (MkKid true []) l.
Definition under (s : list step) (l : list expr) : list kid := map (MkKid true s) l.
Definition opaque (s : list step) (l : list expr) : list kid := map (MkKid false s) l.
Definition oexpr (o : option expr) : list expr := match o with Some x => [x] | None => [] end.

(** default values are evaluated where the subroutine is *defined*.  For a function the checker looks at them
    inside the function (forbidding either way); for a procedure that is where the guarantee stops. *)
Definition params_kids (pre : list step) (inner : step) (ps : params) : list kid :=
  (match fst inner with
   | Some Proc => opaque pre (map snd (ps_dflt ps))
   | _ => under (pre ++ [inner]) (map snd (ps_dflt ps))
   end) ++ opaque (pre ++ [inner]) (ps_guards ps).
Definition oparams_kids (pre : list step) (inner : step) (o : option params) : list kid :=
  match o with Some ps => params_kids pre inner ps | None => [] end.

Definition def_kids (pre : list step) (d : def) : list kid :=
  under pre (d_decos d) ++ oparams_kids pre (def_step d) (d_params d) ++ under (pre ++ [def_step d]) (d_body d).

Definition kids (e : expr) : list kid :=
  match e with
  | Lit | Ident _ | DictOther | Import => []
  | Attr _ o => here [o]
  | Call _ c _ _ _ pos var kw kwvar => here (c :: pos ++ oexpr var ++ kw ++ oexpr kwvar)
  | BinOp _ _ l r => here [l; r]
  | UnaryOp x | TypeAsc x => here [x]
  | ListN es | TupleN es | SetN es => here es
  | ListLen x len => here (x :: oexpr len)
  | ListComp x g | SetLen x g => here [x; g]
  | DictN kvs => here (flat_map (fun kv => [fst kv; snd kv]) kvs)
  | Record attrs => flat_map (def_kids [record_step]) attrs
  | Lambda proc ps body => params_kids [] (lambda_step proc) ps ++ under [lambda_step proc] body
  | DefE d => def_kids [] d
  | ClassDef _ _ req ms => here (oexpr req ++ ms)
  | PatchDef b ms => here (b :: ms)
  | ReDef a b => opaque [] (a :: b)
  | Code b | Compound b | Dummy b => opaque [] b
  end.

(** ** contexts *)
Record sctx := MkCtx { s_forbid : bool; s_ns : str; s_sub : str }.

Fixpoint prefixb (p s : str) : bool :=
  match p, s with
  | [], _ => true
  | x :: p', y :: s' => (x =? y) && prefixb p' s'
  | _ :: _, [] => false
  end.
(** [ns] is [sub] or a namespace nested in it *)
Definition within (sub ns : str) : bool :=
  str_eqb ns sub || prefixb (sub ++ dcolon) ns || prefixb (sub ++ dot) ns.

Definition enter1 (c : sctx) (s : step) : sctx :=
  let ns' := match snd s with Some sg => s_ns c ++ seg_str sg | None => s_ns c end in
  match fst s with
  | Some Func | Some ConstFunc => MkCtx true ns' ns'
  | Some Proc => MkCtx false ns' ns'
  | Some ConstInstant => MkCtx true ns' (s_sub c)
  | Some Module => MkCtx false ns' (s_sub c)
  | Some Instant | None => MkCtx (s_forbid c) ns' (s_sub c)
  end.
Definition enter (c : sctx) (s : list step) : sctx := fold_left enter1 s c.

(** body of a subroutine [name] defined in namespace [ns] *)
Definition ctx_func (ns : str) (pub : bool) (name : str) : sctx :=
  let n := ns ++ seg_str (pub, name) in MkCtx true n n.
Definition ctx_proc (ns : str) (pub : bool) (name : str) : sctx :=
  let n := ns ++ seg_str (pub, name) in MkCtx false n n.
Definition ctx_top (ns : str) : sctx := MkCtx false ns ns.

(** ** effects *)
Definition attr_proc (a : option bool) : bool := match a with Some b => b | None => false end.
Definition var_effect (c : sctx) (a : acc_info) : bool :=
  s_forbid c && a_mut a && negb (a_param a) && negb (a_rootref a) && negb (within (s_sub c) (a_ns a)).
Definition effect_here (c : sctx) (e : expr) : bool :=
  match e with
  | Call _ _ cp at_ _ _ _ _ _ => s_forbid c && (cp || attr_proc at_)
  | Ident a | Attr a _ => var_effect c a
  | _ => false
  end.

(** [vonly = true]: only through positions inside the guarantee *)
Inductive EffectIn (vonly : bool) : sctx -> expr -> Prop :=
| EI_here c e : effect_here c e = true -> EffectIn vonly c e
| EI_sub c e k : In k (kids e) -> (vonly = true -> k_vis k = true) ->
                 EffectIn vonly (enter c (k_steps k)) (k_e k) -> EffectIn vonly c e.

(** the class of inputs on which the property is known to fail: an effect that is reachable only through a
    default value of a procedure's / procedural lambda's parameter (evaluated in the enclosing function when
    the procedure is defined; the checker looks at it inside the procedure) or through a node that no Erg
    source produces (ReDef, Code, Compound, Dummy, pattern guards) *)
Definition Known_C22 (c : sctx) (e : expr) : Prop := EffectIn false c e /\ ~ EffectIn true c e.

(** ** the other direction: nothing the checker may complain about.
    Walks the positions the checker visits ([ckids], with the frames it pushes) and only tracks whether effects are
    forbidden.  [Quiet false body]: no function / constant definition nested in [body] contains an effectful
    operation, an [is!] comparison or a constructor with side effects, and no procedure is bound to a name
    without `!`. *)
Definition ckids_params (s : list step) (ps : params) : list (list step * expr) :=
  map (fun pe => (s, snd pe)) (ps_dflt ps).
Definition ckids_def (pre : list step) (d : def) : list (list step * expr) :=
  map (pair pre) (d_decos d)
  ++ match d_params d with Some ps => ckids_params (pre ++ [def_step d]) ps | None => [] end
  ++ map (pair (pre ++ [def_step d])) (d_body d).
Definition ckids (e : expr) : list (list step * expr) :=
  match e with
  | Lambda proc ps body => ckids_params [lambda_step proc] ps ++ map (pair [lambda_step proc]) body
  | DefE d => ckids_def [] d
  | Record attrs => flat_map (ckids_def [record_step]) attrs
  | ReDef _ _ | Code _ | Compound _ | Dummy _ => []
  | _ => map (fun k => (k_steps k, k_e k)) (kids e)
  end.

Definition enterq1 (forbid : bool) (s : step) : bool :=
  match fst s with
  | Some Func | Some ConstFunc | Some ConstInstant => true
  | Some Proc | Some Module => false
  | Some Instant | None => forbid
  end.
Definition enterq (forbid : bool) (s : list step) : bool := fold_left enterq1 s forbid.

Definition param_quiet (p : pinfo) : bool :=
  negb (p_tproc p) || match p_name p with Some true => true | _ => false end.
Definition params_quiet (ps : params) : bool :=
  forallb param_quiet (ps_nd ps) && match ps_var ps with Some p => param_quiet p | None => true end
  && forallb (fun pe => param_quiet (fst pe)) (ps_dflt ps).
Definition def_quiet (d : def) : bool :=
  match def_frame (d_proc d) (is_subr d) (d_const d) with
  | None => false
  | Some k =>
    match d_params d with Some ps => params_quiet ps | None => true end
    && negb (match d_body d with [] => false | _ :: _ => true end
             && frame_eqb k Instant && negb (d_proc d) && d_last_tproc d)
  end.
Definition quiet_here (forbid : bool) (e : expr) : bool :=
  match e with
  | Call _ _ cp at_ ctor _ _ _ _ => negb (forbid && (cp || attr_proc at_ || ctor))
  | Ident a | Attr a _ => negb (forbid && a_mut a && negb (a_param a) && negb (a_rootref a))
  | BinOp _ isop _ _ => negb (forbid && isop)
  | DictOther => false
  | Lambda _ ps _ => params_quiet ps
  | DefE d => def_quiet d
  | Record attrs => forallb def_quiet attrs
  | _ => true
  end.

Inductive Quiet : bool -> expr -> Prop :=
| Q_intro forbid e : quiet_here forbid e = true ->
                     (forall s k, In (s, k) (ckids e) -> Quiet (enterq forbid s) k) -> Quiet forbid e.

(** ** executable judges (fuel = any number > the height of the tree; [None] = out of fuel) *)
Fixpoint all_some (l : list (option bool)) : option (list bool) :=
  match l with
  | [] => Some []
  | None :: _ => None
  | Some b :: t => match all_some t with Some r => Some (b :: r) | None => None end
  end.

Fixpoint effect_inb (vonly : bool) (n : nat) (c : sctx) (e : expr) : option bool :=
  match n with
  | O => None
  | S n =>
    match all_some (map (fun k => if vonly && negb (k_vis k) then Some false
                                  else effect_inb vonly n (enter c (k_steps k)) (k_e k)) (kids e)) with
    | None => None
    | Some r => Some (effect_here c e || existsb (fun b => b) r)
    end
  end.

Definition known_c22 (n : nat) (c : sctx) (e : expr) : option bool :=
  match effect_inb false n c e, effect_inb true n c e with
  | Some a, Some b => Some (a && negb b)
  | _, _ => None
  end.

Fixpoint quietb (n : nat) (forbid : bool) (e : expr) : option bool :=
  match n with
  | O => None
  | S n =>
    match all_some (map (fun sk => quietb n (enterq forbid (fst sk)) (snd sk)) (ckids e)) with
    | None => None
    | Some r => Some (quiet_here forbid e && forallb (fun b => b) r)
    end
  end.

(** judge of one observation: [ctx] 0 function / 1 procedure / 2 module level, [chunks] the body, [accepted]
    whether the implementation reported no effect error for it.
    0 = fine, 1 = effect inside a function accepted (the subroutine itself for ctx 0, a function / function lambda
    / constant definition nested in the body for every ctx), 2 = quiet procedure / top-level body rejected,
    3 = as 1 but in the known class, -1 = out of fuel *)
Definition any_ob (l : list (option bool)) : option bool :=
  match all_some l with Some r => Some (existsb (fun b => b) r) | None => None end.
Definition all_ob (l : list (option bool)) : option bool :=
  match all_some l with Some r => Some (forallb (fun b => b) r) | None => None end.

Definition judge (n : nat) (ns : str) (ctx : Z) (pub : bool) (name : str) (chunks : list expr) (accepted : bool) : Z :=
  let c := if ctx =? 0 then ctx_func ns pub name else if ctx =? 1 then ctx_proc ns pub name else ctx_top ns in
  (* in a procedure / at module level [EffectIn] finds the effects of the functions nested in the body *)
  match any_ob (map (effect_inb false n c) chunks), any_ob (map (effect_inb true n c) chunks) with
  | Some a, Some v =>
    if accepted then (if v then 1 else if a then 3 else 0)
    else if ctx =? 0 then 0
    else
      match all_ob (map (quietb n false) chunks) with
      | Some q => if q then 2 else 0
      | None => -1
      end
  | _, _ => -1
  end.
