(** C30 — property theorems (statements only; proofs are in ProofsRename.v).

    "Applying the workspace edit returned for renaming a user-defined variable to a fresh, unused identifier yields a
    program that type-checks exactly when the original did, behaves identically when run, and contains no remaining
    reference to the old binding."

    Modelled and proved: binder resolution on a core with nested scopes / shadowing, closures, default arguments and
    string literals; that renaming EXACTLY the occurrence set [occ b] of a binder to a fresh name leaves the binding
    structure (hence checking and evaluation, which are defined on it) unchanged and leaves no reference under the
    old name.  Sampled only (checks/c30.py): that the edit set the language server returns is [occ b] (for every
    binding position of generated programs), that erg's checker and run time agree with the core on them;
    cross-module rename, attributes, classes, patterns are outside the core. *)
From Coq Require Import ZArith List Bool.
From ErgV Require Import Els.Rename Els.SpecRename Els.ProofsRename.
Import ListNotations.
Open Scope Z_scope.

(** 1. the set computed by [occ] contains a binder exactly when it is [b] and a use exactly when the use resolves
       to [b] (positions are distinct) *)
Theorem occ_agrees : forall b t en, NoDup (poss t) -> agrees (mem (occ b en t)) b en t = true.
Proof. exact occ_agrees_l. Qed.

(** 2. renaming such a set to a name that occurs nowhere keeps every use resolving to the corresponding binder:
       the erased programs (names removed, uses replaced by the position of their binder) are equal, in every scope *)
Theorem rename_preserves_binding : forall S b y t en,
  agrees S b en t = true -> ~ In y (map fst en) -> ~ In y (names t) ->
  erase (ren_env b y en) (rename S y t) = erase en t.
Proof. exact erase_rename_l. Qed.

Theorem alpha_rename_preserves_resolution : forall b y t,
  NoDup (poss t) -> ~ In y (names t) ->
  erase [] (rename (mem (occ b [] t)) y t) = erase [] t.
Proof. exact rename_program_l. Qed.

(** 3. afterwards no use resolves to [b] unless it is written [y]: the old name no longer refers to the binding *)
Theorem no_stale_reference : forall b x y t p n,
  In (b, x) (binders t) ->
  In (p, n, Some b) (uses [] (rename (mem (occ b [] t)) y t)) -> n = y.
Proof.
  intros b x y t p n Hb H.
  assert (Hs : mem (occ b [] t) b = true) by (apply mem_In; eapply binder_in_occ; eauto).
  assert (He : benv b y []) by (intros m X; destruct X).
  exact (no_stale_l (mem (occ b [] t)) b y Hs t [] p n He H).
Qed.

(** 4. the evaluator of the core (closures, default arguments evaluated at the definition, printed values in order)
       gives the same outputs and result before and after; it is defined on the binding structure, so this follows
       from 2 (a checker defined on the binding structure accepts one iff it accepts the other, for the same reason) *)
Theorem rename_behaviour : forall fuel b y t,
  NoDup (poss t) -> ~ In y (names t) ->
  run_prog fuel (rename (mem (occ b [] t)) y t) = run_prog fuel t.
Proof. intros. unfold run_prog. now rewrite rename_program_l. Qed.

(** Example (non-vacuity): x = 1; f(y) = (x = y + 1; x); g(z, w := x) = z + w; s = "x"; print! (x + g(1)) + f(2)
    names: x=1 f=2 y=3 g=4 z=5 w=6 s=7; positions 10.. in source order *)
Definition ex_prog : block :=
  Def 10 1 (Lit 1)
  (Fun 11 2 12 3 None (Def 13 1 (Add (Var 14 3) (Lit 1)) (Ret (Var 15 1)))
  (Fun 16 4 17 5 (Some (18, 6, Var 19 1)) (Ret (Add (Var 20 5) (Var 21 6)))
  (Def 22 7 (Str [120])
  (Print (Add (Add (Var 23 1) (Call1 (Var 24 4) (Lit 1))) (Call1 (Var 25 2) (Lit 2))) (Ret (Lit 0)))))).

Example ex_occ : occ 10 [] ex_prog = [10; 19; 23] /\ occ 13 [] ex_prog = [13; 15] /\
                 NoDup (poss ex_prog) /\ ~ In 99 (names ex_prog).
Proof.
  repeat split; try reflexivity.
  - assert (H : nodupb (poss ex_prog) = true) by reflexivity.
    repeat constructor; cbn; intuition discriminate.
  - cbn. intuition discriminate.
Qed.

Example ex_run : fst (run_prog 20 ex_prog) = [VInt 6] /\
                 run_prog 20 (rename (mem (occ 10 [] ex_prog)) 99 ex_prog) = run_prog 20 ex_prog.
Proof. split; reflexivity. Qed.

(** 5. both hypotheses are needed.  A name that is not fresh is captured (x = 1; y = 2; print! x: renaming x to y);
       and an edit set that also contains the uses of a shadowing inner binding changes the meaning *)
Theorem rename_not_fresh_refuted :
  exists t b y, NoDup (poss t) /\ erase [] (rename (mem (occ b [] t)) y t) <> erase [] t.
Proof.
  exists (Def 10 1 (Lit 1) (Def 11 2 (Lit 2) (Print (Var 12 1) (Ret (Lit 0))))), 10, 2.
  split; [repeat constructor; cbn; intuition discriminate|vm_compute; discriminate].
Qed.

Theorem rename_wrong_set_refuted :
  exists S y, ~ In y (names ex_prog) /\ (forall p, In p (occ 10 [] ex_prog) -> In p S) /\
              judge_rename ex_prog S y 10 1 = false /\ judge_rename ex_prog (occ 10 [] ex_prog) y 10 1 = true.
Proof.
  exists [10; 19; 23; 15], 99. repeat split; try reflexivity.
  - cbn. intuition discriminate.
  - cbn. intuition.
Qed.
