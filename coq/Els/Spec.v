(** C29 — reference and executable judge.

    The property: after any sequence of edits to an open document, the diagnostics the language server publishes
    for it are the same as those a freshly started server publishes for the final text.  A freshly started server
    that opens the text [t] publishes [check t] (didOpen = check_file); so the reference is one line. *)
From Coq Require Import ZArith List Bool Arith Permutation.
From ErgV Require Import Els.Model.
Import ListNotations.
Open Scope Z_scope.

Section Ref.
  Variable D : Type.
  Variable check : text -> D.
  Variable full_hir : text -> option hir.

  (** what a fresh server publishes for a document it opens with text [t] (whatever was displayed before) *)
  Definition fresh_pub (t : text) (d0 : D) : D := f_pub D (open D check full_hir t d0).

  (** the state of the incremental server has converged *)
  Definition converged (s : fstate D) : Prop := forall d0, f_pub D s = fresh_pub (f_text D s) d0.
End Ref.

(** one notification changes at most one top-level chunk: one inserted, one deleted, or one replaced *)
Inductive edit1 : ast -> ast -> Prop :=
| E1_same : forall l, edit1 l l
| E1_ins : forall l1 c l2, edit1 (l1 ++ l2) (l1 ++ c :: l2)
| E1_del : forall l1 c l2, edit1 (l1 ++ c :: l2) (l1 ++ l2)
| E1_mod : forall l1 c c' l2, edit1 (l1 ++ c :: l2) (l1 ++ c' :: l2).

(** * the judge: two lists of diagnostics (each a list of integers: range, severity, code and message as code
      points) are the same set with multiplicities *)
Definition diag := list Z.

Fixpoint zs_eqb (a b : list Z) : bool :=
  match a, b with
  | [], [] => true
  | x :: a', y :: b' => (x =? y) && zs_eqb a' b'
  | _, _ => false
  end.

Fixpoint count (d : diag) (l : list diag) : nat :=
  match l with
  | [] => O
  | x :: r => (if zs_eqb d x then 1 else 0)%nat + count d r
  end.

Definition judge (incr fresh : list diag) : bool :=
  forallb (fun d => Nat.eqb (count d incr) (count d fresh)) (incr ++ fresh).
