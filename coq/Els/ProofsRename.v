(** C30 — proofs about Els/Rename.v *)
From Coq Require Import ZArith List Bool Arith Lia.
From ErgV Require Import Els.Rename.
Import ListNotations.
Open Scope Z_scope.

(** * resolution in the scope whose binder [b] was renamed to the fresh name [y] *)
Lemma resolve_ren_hit b y : forall en n,
  ~ In y (map fst en) -> resolve en n = Some b -> resolve (ren_env b y en) y = Some b.
Proof.
  induction en as [|[m p] r IH]; intros n Hf H; cbn [resolve ren_env map] in *; [discriminate|].
  cbn [snd fst] in *.
  destruct (p =? b) eqn:Pb.
  - apply Z.eqb_eq in Pb. subst p. cbn [resolve]. now rewrite Z.eqb_refl.
  - cbn [resolve]. destruct (m =? y) eqn:My.
    + apply Z.eqb_eq in My. exfalso. apply Hf. now left.
    + destruct (m =? n) eqn:Mn.
      * injection H as ->. rewrite Z.eqb_refl in Pb. discriminate.
      * apply (IH n); [|exact H]. intros X. apply Hf. now right.
Qed.

Lemma resolve_ren_miss b y : forall en n,
  n <> y -> resolve en n <> Some b -> resolve (ren_env b y en) n = resolve en n.
Proof.
  induction en as [|[m p] r IH]; intros n Hn H; cbn [resolve ren_env map] in *; [reflexivity|].
  cbn [snd fst] in *.
  destruct (p =? b) eqn:Pb.
  - apply Z.eqb_eq in Pb. subst p. cbn [resolve].
    destruct (y =? n) eqn:Yn; [apply Z.eqb_eq in Yn; congruence|].
    destruct (m =? n) eqn:Mn; [congruence|]. now apply IH.
  - cbn [resolve]. destruct (m =? n); [reflexivity|]. now apply IH.
Qed.

(** * renaming exactly the occurrences preserves the binding structure *)
Lemma eqb_true_l (a c : bool) : Bool.eqb a c = true -> a = c.
Proof. apply Bool.eqb_prop. Qed.

Lemma erase_rename_expr S b y : forall e en,
  agrees_expr S b en e = true -> ~ In y (map fst en) -> ~ In y (names_expr e) ->
  erase_expr (ren_env b y en) (rename_expr S y e) = erase_expr en e.
Proof.
  induction e as [p x | n | s | a IHa c IHc | f IHf a IHa | f IHf a IHa c IHc]; intros en Ha Hf Hn;
    cbn [agrees_expr rename_expr erase_expr names_expr] in *.
  - apply eqb_true_l in Ha. unfold ren. assert (x <> y) by (intros ->; apply Hn; now left).
    destruct (S p).
    + destruct (resolve en x) as [q|] eqn:R; [|discriminate].
      symmetry in Ha. apply Z.eqb_eq in Ha. subst q.
      now rewrite (resolve_ren_hit b y en x Hf R).
    + rewrite resolve_ren_miss; [reflexivity|assumption|].
      destruct (resolve en x) as [q|]; [|discriminate]. intros [= ->]. rewrite Z.eqb_refl in Ha. discriminate.
  - reflexivity.
  - reflexivity.
  - apply andb_prop in Ha. destruct Ha. rewrite IHa, IHc; auto; intros X; apply Hn, in_or_app; auto.
  - apply andb_prop in Ha. destruct Ha. rewrite IHf, IHa; auto; intros X; apply Hn, in_or_app; auto.
  - apply andb_prop in Ha. destruct Ha as [Ha H3]. apply andb_prop in Ha. destruct Ha.
    assert (N1 : ~ In y (names_expr f)) by (intros X; apply Hn, in_or_app; auto).
    assert (N2 : ~ In y (names_expr a)) by (intros X; apply Hn, in_or_app; right; apply in_or_app; auto).
    assert (N3 : ~ In y (names_expr c)) by (intros X; apply Hn, in_or_app; right; apply in_or_app; auto).
    rewrite IHf, IHa, IHc; auto.
Qed.

Lemma ren_env_cons (S : pos -> bool) (b : pos) (y : name) (p : pos) (x : name) (en : env) : S p = (p =? b) ->
  (ren S y p x, p) :: ren_env b y en = ren_env b y ((x, p) :: en).
Proof.
  intros H. unfold ren, ren_env. cbn [map snd]. rewrite H. destruct (p =? b); reflexivity.
Qed.

Lemma erase_rename_l S b y : forall t en,
  agrees S b en t = true -> ~ In y (map fst en) -> ~ In y (names t) ->
  erase (ren_env b y en) (rename S y t) = erase en t.
Proof.
  induction t as [e | p x e k IHk | p f p1 x1 d body IHb k IHk | e k IHk]; intros en Ha Hf Hn;
    cbn [agrees rename erase names] in *.
  - f_equal. now apply erase_rename_expr.
  - apply andb_prop in Ha. destruct Ha as [Ha Hk]. apply andb_prop in Ha. destruct Ha as [Hp He].
    apply eqb_true_l in Hp.
    rewrite (ren_env_cons S b y p x en Hp).
    rewrite (erase_rename_expr S b y e en He Hf); [|intros X; apply Hn; right; apply in_or_app; auto].
    rewrite IHk; auto.
    + cbn [map fst]. intros [X|X]; [apply Hn; now left|now apply Hf].
    + intros X. apply Hn. right. apply in_or_app. auto.
  - apply andb_prop in Ha. destruct Ha as [Ha Hk]. apply andb_prop in Ha. destruct Ha as [Ha Hb].
    apply andb_prop in Ha. destruct Ha as [Ha Hd]. apply andb_prop in Ha. destruct Ha as [Hp Hp1].
    apply eqb_true_l in Hp. apply eqb_true_l in Hp1.
    assert (Nf : f <> y) by (intros ->; apply Hn; now left).
    assert (Nx1 : x1 <> y) by (intros ->; apply Hn; right; now left).
    assert (Hf2 : ~ In y (map fst ((f, p) :: en))) by (cbn [map fst]; intros [X|X]; auto).
    destruct d as [[[p2 x2] e]|].
    + apply andb_prop in Hd. destruct Hd as [Hp2 He]. apply eqb_true_l in Hp2.
      assert (Nx2 : x2 <> y) by (intros ->; apply Hn; right; right; now left).
      rewrite (ren_env_cons S b y p f en Hp).
      rewrite (erase_rename_expr S b y e _ He Hf2);
        [|intros X; apply Hn; right; right; right; apply in_or_app; left; exact X].
      rewrite (ren_env_cons S b y p1 x1 _ Hp1).
      rewrite (ren_env_cons S b y p2 x2 _ Hp2).
      rewrite IHb, IHk; auto.
      * intros X. apply Hn. right; right; right. apply in_or_app. right. apply in_or_app. now right.
      * cbn [map fst]. intros [X|[X|[X|X]]]; auto.
      * intros X. apply Hn. right; right; right. apply in_or_app. right. apply in_or_app. now left.
    + rewrite (ren_env_cons S b y p f en Hp).
      rewrite (ren_env_cons S b y p1 x1 _ Hp1).
      rewrite IHb, IHk; auto.
      * intros X. apply Hn. right; right. cbn [app]. apply in_or_app. now right.
      * cbn [map fst]. intros [X|[X|X]]; auto.
      * intros X. apply Hn. right; right. cbn [app]. apply in_or_app. now left.
  - apply andb_prop in Ha. destruct Ha as [He Hk].
    rewrite (erase_rename_expr S b y e en He Hf); [|intros X; apply Hn, in_or_app; auto].
    rewrite IHk; auto. intros X. apply Hn, in_or_app. auto.
Qed.

(** * no stale reference *)
Definition benv (b : pos) (y : name) (en : env) : Prop := forall m, In (m, b) en -> m = y.

Lemma resolve_benv b y : forall en n, benv b y en -> resolve en n = Some b -> n = y.
Proof.
  induction en as [|[m p] r IH]; intros n Hb H; cbn [resolve] in H; [discriminate|].
  destruct (m =? n) eqn:Mn.
  - injection H as ->. apply Z.eqb_eq in Mn. subst m. apply Hb. now left.
  - apply IH; [|exact H]. intros m' X. apply Hb. now right.
Qed.

Lemma benv_cons (S : pos -> bool) (b : pos) (y : name) (p : pos) (x : name) (en : env) :
  S b = true -> benv b y en -> benv b y ((ren S y p x, p) :: en).
Proof.
  intros Hs Hb m [X|X]; [|now apply Hb].
  injection X as <- ->. unfold ren. now rewrite Hs.
Qed.

Lemma no_stale_expr S b y : forall e en p n,
  benv b y en -> In (p, n, Some b) (uses_expr en (rename_expr S y e)) -> n = y.
Proof.
  induction e as [q x | k | s | a IHa c IHc | f IHf a IHa | f IHf a IHa c IHc]; intros en p n Hb H;
    cbn [rename_expr uses_expr] in H.
  - destruct H as [H|[]]. injection H as _ <- H. eapply resolve_benv; eauto.
  - destruct H.
  - destruct H.
  - apply in_app_or in H. destruct H; eauto.
  - apply in_app_or in H. destruct H; eauto.
  - apply in_app_or in H. destruct H as [H|H]; eauto. apply in_app_or in H. destruct H; eauto.
Qed.

Lemma no_stale_l S b y : S b = true -> forall t en p n,
  benv b y en -> In (p, n, Some b) (uses en (rename S y t)) -> n = y.
Proof.
  intros Hs.
  induction t as [e | q x e k IHk | q f q1 x1 d body IHb k IHk | e k IHk]; intros en p n Hb H;
    cbn [rename uses] in H.
  - eapply no_stale_expr; eauto.
  - apply in_app_or in H. destruct H as [H|H]; [eapply no_stale_expr; eauto|].
    eapply IHk; [|exact H]. now apply benv_cons.
  - destruct d as [[[q2 x2] e]|]; cbn [app] in H.
    + apply in_app_or in H. destruct H as [H|H]; [eapply no_stale_expr; [|exact H]; now apply benv_cons|].
      apply in_app_or in H. destruct H as [H|H].
      * eapply IHb; [|exact H]. repeat apply benv_cons; auto.
      * eapply IHk; [|exact H]. now apply benv_cons.
    + apply in_app_or in H. destruct H as [H|H].
      * eapply IHb; [|exact H]. repeat apply benv_cons; auto.
      * eapply IHk; [|exact H]. now apply benv_cons.
  - apply in_app_or in H. destruct H as [H|H]; [eapply no_stale_expr; eauto|]. eapply IHk; eauto.
Qed.

(** * the occurrence set computed by [occ] is right ([agrees]) when positions are distinct *)
Lemma mem_In l p : mem l p = true <-> In p l.
Proof.
  unfold mem. rewrite existsb_exists. split.
  - intros [x [H1 H2]]. apply Z.eqb_eq in H2. now subst.
  - intros H. exists p. split; [exact H|apply Z.eqb_refl].
Qed.

Lemma eqb_iff (a c : bool) : (a = true <-> c = true) -> Bool.eqb a c = true.
Proof. destruct a, c; cbn; intros [H1 H2]; auto. Qed.

Lemma self_In b p q : In q (self b p) <-> q = p /\ p = b.
Proof.
  unfold self. destruct (p =? b) eqn:E.
  - apply Z.eqb_eq in E. cbn. split; [intros [<-|[]]; auto|intros [-> _]; auto].
  - apply Z.eqb_neq in E. cbn. split; [intros []|intros [_ X]; auto].
Qed.

Lemma occ_expr_sub b : forall e en q, In q (occ_expr b en e) -> In q (poss_expr e).
Proof.
  induction e as [p x | n | s | a IHa c IHc | f IHf a IHa | f IHf a IHa c IHc]; intros en q H;
    cbn [occ_expr poss_expr] in *; auto.
  - destruct (resolve en x) as [r|]; [|destruct H]. destruct (r =? b); [exact H|destruct H].
  - apply in_app_or in H. apply in_or_app. destruct H; eauto.
  - apply in_app_or in H. apply in_or_app. destruct H; eauto.
  - apply in_app_or in H. apply in_or_app. destruct H as [H|H]; eauto. right.
    apply in_app_or in H. apply in_or_app. destruct H; eauto.
Qed.

Lemma occ_sub b : forall t en q, In q (occ b en t) -> In q (poss t).
Proof.
  induction t as [e | p x e k IHk | p f p1 x1 d body IHb k IHk | e k IHk]; intros en q H;
    cbn [occ poss] in *.
  - eapply occ_expr_sub; eauto.
  - apply in_app_or in H. destruct H as [H|H]; [apply self_In in H; destruct H as [-> _]; now left|].
    right. apply in_app_or in H. apply in_or_app. destruct H; [left; eapply occ_expr_sub|right]; eauto.
  - apply in_app_or in H. destruct H as [H|H]; [apply self_In in H; destruct H as [-> _]; now left|].
    right. apply in_app_or in H. destruct H as [H|H]; [apply self_In in H; destruct H as [-> _]; now left|].
    right. apply in_app_or in H. apply in_or_app. destruct H as [H|H].
    + left. destruct d as [[[p2 x2] e]|]; [|destruct H].
      apply in_app_or in H. destruct H as [H|H]; [apply self_In in H; destruct H as [-> _]; now left|].
      right. eapply occ_expr_sub; eauto.
    + right. apply in_app_or in H. apply in_or_app. destruct H; eauto.
  - apply in_app_or in H. apply in_or_app. destruct H; [left; eapply occ_expr_sub|right]; eauto.
Qed.

(** splitting the hypothesis "L coincides with the occurrences on these positions" along an append *)
Lemma nodup_app_inv {A} (l1 l2 : list A) : NoDup (l1 ++ l2) ->
  NoDup l1 /\ NoDup l2 /\ (forall x, In x l1 -> In x l2 -> False).
Proof.
  induction l1 as [|a l1 IH]; cbn [app]; intros H.
  - repeat split; auto. constructor.
  - inversion H as [|? ? Hn Hd]. subst. destruct (IH Hd) as [H1 [H2 H3]].
    repeat split; auto.
    + constructor; auto. intros X. apply Hn. apply in_or_app. auto.
    + intros x [->|X] Y; [apply Hn, in_or_app; auto|eauto].
Qed.

Definition coincide (L : list pos) (P O : list pos) : Prop := forall q, In q P -> (In q L <-> In q O).

Lemma coincide_split L P1 P2 O1 O2 :
  NoDup (P1 ++ P2) -> (forall q, In q O1 -> In q P1) -> (forall q, In q O2 -> In q P2) ->
  coincide L (P1 ++ P2) (O1 ++ O2) -> coincide L P1 O1 /\ coincide L P2 O2.
Proof.
  intros Hn S1 S2 H. apply nodup_app_inv in Hn. destruct Hn as [_ [_ Hd]].
  split; intros q Hq.
  - rewrite (H q (in_or_app _ _ _ (or_introl Hq))). split; [|intros; apply in_or_app; auto].
    intros X. apply in_app_or in X. destruct X as [X|X]; auto. exfalso. eapply Hd; eauto.
  - rewrite (H q (in_or_app _ _ _ (or_intror Hq))). split; [|intros; apply in_or_app; auto].
    intros X. apply in_app_or in X. destruct X as [X|X]; auto. exfalso. eapply Hd; eauto.
Qed.

Lemma self_sub b p q : In q (self b p) -> In q [p].
Proof. intros H. apply self_In in H. destruct H as [-> _]. now left. Qed.

Lemma coincide_self L b p : coincide L [p] (self b p) -> Bool.eqb (mem L p) (p =? b) = true.
Proof.
  intros H. apply eqb_iff. rewrite mem_In, (H p (or_introl eq_refl)), self_In, Z.eqb_eq. tauto.
Qed.

Lemma agrees_occ_expr b L : forall e en,
  NoDup (poss_expr e) -> coincide L (poss_expr e) (occ_expr b en e) -> agrees_expr (mem L) b en e = true.
Proof.
  induction e as [p x | n | s | a IHa c IHc | f IHf a IHa | f IHf a IHa c IHc]; intros en Hn H;
    cbn [poss_expr occ_expr agrees_expr] in *; auto.
  - apply eqb_iff. rewrite mem_In, (H p (or_introl eq_refl)).
    destruct (resolve en x) as [r|]; [|cbn; split; [tauto|discriminate]].
    destruct (r =? b); cbn; split; auto; try tauto; discriminate.
  - destruct (coincide_split _ _ _ _ _ Hn (occ_expr_sub b a en) (occ_expr_sub b c en) H) as [H1 H2].
    apply nodup_app_inv in Hn. destruct Hn as [N1 [N2 _]]. now rewrite IHa, IHc.
  - destruct (coincide_split _ _ _ _ _ Hn (occ_expr_sub b f en) (occ_expr_sub b a en) H) as [H1 H2].
    apply nodup_app_inv in Hn. destruct Hn as [N1 [N2 _]]. now rewrite IHf, IHa.
  - assert (Sub : forall q, In q (occ_expr b en a ++ occ_expr b en c) -> In q (poss_expr a ++ poss_expr c)).
    { intros q X. apply in_app_or in X. apply in_or_app. destruct X; [left|right]; eapply occ_expr_sub; eauto. }
    destruct (coincide_split _ _ _ _ _ Hn (occ_expr_sub b f en) Sub H) as [H1 H2].
    apply nodup_app_inv in Hn. destruct Hn as [N1 [N2 _]].
    destruct (coincide_split _ _ _ _ _ N2 (occ_expr_sub b a en) (occ_expr_sub b c en) H2) as [H3 H4].
    apply nodup_app_inv in N2. destruct N2 as [N3 [N4 _]]. now rewrite IHf, IHa, IHc.
Qed.

Lemma sub_app (O1 O2 P1 P2 : list pos) :
  (forall q, In q O1 -> In q P1) -> (forall q, In q O2 -> In q P2) ->
  forall q, In q (O1 ++ O2) -> In q (P1 ++ P2).
Proof. intros H1 H2 q X. apply in_app_or in X. apply in_or_app. destruct X; auto. Qed.

Lemma agrees_occ_gen b L : forall t en,
  NoDup (poss t) -> coincide L (poss t) (occ b en t) -> agrees (mem L) b en t = true.
Proof.
  induction t as [e | p x e k IHk | p f p1 x1 d body IHb k IHk | e k IHk]; intros en Hn H;
    cbn [poss occ agrees] in *.
  - now apply agrees_occ_expr.
  - change (p :: poss_expr e ++ poss k) with ([p] ++ (poss_expr e ++ poss k)) in *.
    destruct (coincide_split _ _ _ _ _ Hn (self_sub b p)
                (sub_app _ _ _ _ (occ_expr_sub b e en) (occ_sub b k _)) H) as [H1 H2].
    apply nodup_app_inv in Hn. destruct Hn as [_ [N2 _]].
    destruct (coincide_split _ _ _ _ _ N2 (occ_expr_sub b e en) (occ_sub b k _) H2) as [H3 H4].
    apply nodup_app_inv in N2. destruct N2 as [N3 [N4 _]].
    rewrite (coincide_self _ _ _ H1), (agrees_occ_expr b L e en N3 H3), (IHk _ N4 H4). reflexivity.
  - set (enf := (f, p) :: en) in *.
    set (PD := match d with Some (p2, _, e) => p2 :: poss_expr e | None => [] end) in *.
    set (OD := match d with Some (p2, _, e) => self b p2 ++ occ_expr b enf e | None => [] end) in *.
    set (inner := match d with None => (x1, p1) :: enf | Some (p2, x2, _) => (x2, p2) :: (x1, p1) :: enf end) in *.
    change (p :: p1 :: PD ++ poss body ++ poss k) with ([p] ++ ([p1] ++ (PD ++ (poss body ++ poss k)))) in *.
    assert (SD : forall q, In q OD -> In q PD).
    { subst OD PD. destruct d as [[[p2 x2] e]|]; [|intros q []].
      intros q X. apply in_app_or in X. destruct X as [X|X]; [apply self_In in X; destruct X as [-> _]; now left|].
      right. eapply occ_expr_sub; eauto. }
    pose proof (sub_app _ _ _ _ (occ_sub b body inner) (occ_sub b k enf)) as S34.
    pose proof (sub_app _ _ _ _ SD S34) as S234.
    pose proof (sub_app _ _ _ _ (self_sub b p1) S234) as S1234.
    destruct (coincide_split _ _ _ _ _ Hn (self_sub b p) S1234 H) as [H1 H2].
    apply nodup_app_inv in Hn. destruct Hn as [_ [N2 _]].
    destruct (coincide_split _ _ _ _ _ N2 (self_sub b p1) S234 H2) as [H3 H4].
    apply nodup_app_inv in N2. destruct N2 as [_ [N4 _]].
    destruct (coincide_split _ _ _ _ _ N4 SD S34 H4) as [H5 H6].
    apply nodup_app_inv in N4. destruct N4 as [N5 [N6 _]].
    destruct (coincide_split _ _ _ _ _ N6 (occ_sub b body inner) (occ_sub b k enf) H6) as [H7 H8].
    apply nodup_app_inv in N6. destruct N6 as [N7 [N8 _]].
    rewrite (coincide_self _ _ _ H1), (coincide_self _ _ _ H3), (IHb _ N7 H7), (IHk _ N8 H8).
    cbn [andb]. rewrite !andb_true_r.
    subst PD OD. destruct d as [[[p2 x2] e]|]; [|reflexivity].
    change (p2 :: poss_expr e) with ([p2] ++ poss_expr e) in *.
    destruct (coincide_split _ _ _ _ _ N5 (self_sub b p2) (occ_expr_sub b e _) H5) as [H9 H10].
    apply nodup_app_inv in N5. destruct N5 as [_ [N10 _]].
    now rewrite (coincide_self _ _ _ H9), (agrees_occ_expr b L e _ N10 H10).
  - destruct (coincide_split _ _ _ _ _ Hn (occ_expr_sub b e en) (occ_sub b k en) H) as [H1 H2].
    apply nodup_app_inv in Hn. destruct Hn as [N1 [N2 _]].
    now rewrite (agrees_occ_expr b L e en N1 H1), (IHk _ N2 H2).
Qed.

Lemma occ_agrees_l b t en : NoDup (poss t) -> agrees (mem (occ b en t)) b en t = true.
Proof.
  intros Hn. apply agrees_occ_gen; [exact Hn|]. intros q _. tauto.
Qed.

(** * putting it together for a whole program *)
Lemma ren_env_nil b y : ren_env b y [] = [].
Proof. reflexivity. Qed.

Lemma rename_program_l b y t :
  NoDup (poss t) -> ~ In y (names t) ->
  erase [] (rename (mem (occ b [] t)) y t) = erase [] t.
Proof.
  intros Hn Hy. rewrite <- (ren_env_nil b y) at 1. apply erase_rename_l; auto. now apply occ_agrees_l.
Qed.

Lemma binder_in_occ b : forall t en x, In (b, x) (binders t) -> In b (occ b en t).
Proof.
  induction t as [e | p x0 e k IHk | p f p1 x1 d body IHb k IHk | e k IHk]; intros en x H;
    cbn [binders occ] in *.
  - destruct H.
  - destruct H as [H|H].
    + injection H as -> _. apply in_or_app. left. apply self_In. auto.
    + apply in_or_app. right. apply in_or_app. right. eauto.
  - destruct H as [H|[H|H]].
    + injection H as -> _. apply in_or_app. left. apply self_In. auto.
    + injection H as -> _. apply in_or_app. right. apply in_or_app. left. apply self_In. auto.
    + apply in_or_app. right. apply in_or_app. right. apply in_app_or in H. destruct H as [H|H].
      * apply in_or_app. left. destruct d as [[[p2 x2] e]|]; [|destruct H].
        destruct H as [H|[]]. injection H as -> _. apply in_or_app. left. apply self_In. auto.
      * apply in_or_app. right. apply in_app_or in H. apply in_or_app. destruct H; eauto.
  - apply in_or_app. right. eauto.
Qed.
