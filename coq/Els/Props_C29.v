(** C29 — property theorems (statements only; proofs are in Proofs.v).

    "After any sequence of edits to an open document, the diagnostics the language server publishes for it are the
    same as those a freshly started server publishes for the final text."

    Modelled and proved for every history: the diff/update index arithmetic of diff.rs and the cache protocol of
    diagnostics.rs / server.rs (what is analysed when, what is published when), for EVERY analysis function [check],
    every chunk-lowering function and every answer of the module graph.  Sampled only (checks/c29.py): that the real
    full analysis is a function of the text alone (no state of an earlier analysis leaks into it). *)
From Coq Require Import ZArith List Bool Permutation.
From ErgV Require Import Els.Model Els.Spec Els.Proofs.
Import ListNotations.
Open Scope Z_scope.

(** 1. ASTDiff::diff never panics: [new.len() - 1], [old.len() - 1] and [new.get(idx).unwrap()] are safe *)
Theorem diff_total : forall old new, diff old new <> Panic.
Proof. exact diff_no_panic. Qed.

(** 2. when a notification changed at most one top-level chunk (one inserted, deleted or replaced, anywhere, also
       next to equal chunks), patching the cached AST with the computed diff gives exactly the new AST *)
Theorem diff_update_single : forall old new, edit1 old new ->
  exists d, diff old new = Ok d /\ update d old = new.
Proof. exact diff_update_single_l. Qed.

Example diff_update_single_ex :
  edit1 [1; 2; 2; 3] [1; 2; 2; 2; 3] /\ diff [1; 2; 2; 3] [1; 2; 2; 2; 3] = Ok (Addition 3 2) /\
  update (Addition 3 2) [1; 2; 2; 3] = [1; 2; 2; 2; 3].
Proof. split; [exact (E1_ins [1] 2 [2; 2; 3])|split; reflexivity]. Qed.

(** 3. and only then: ASTDiff describes at most one changed chunk *)
Theorem diff_update_exact_iff : forall old new,
  (exists d, diff old new = Ok d /\ update d old = new) <-> edit1 old new.
Proof. exact diff_update_exact_iff_l. Qed.

(** 4. the general statement [forall old new, update (diff old new) old = new] is false: two insertions in one
       notification (also: an insertion and a modification, two modifications) *)
Theorem diff_update_general_refuted :
  exists old new d, diff old new = Ok d /\ update d old <> new.
Proof. exists [1], [1; 2; 3], (Addition 2 3). split; [reflexivity|vm_compute; discriminate]. Qed.

Example diff_update_two_modifications :
  diff [1; 2; 3] [7; 2; 9] = Ok (Modification 0 7) /\ update (Modification 0 7) [1; 2; 3] = [7; 2; 3].
Proof. split; reflexivity. Qed.

(** 5. quick_check_file patches its caches only when the computed diff describes the whole change ("fix:
       quick_check_file patched its caches with a diff that did not describe the change").  When lowering succeeds,
       afterwards the cached AST is either untouched or exactly the AST of the text the server saw — the latter
       whenever at most one chunk changed — and every cached HIR chunk is the lowering of the AST chunk at the same
       index (HIRDiff::new / update / fix keep the two lists aligned) *)
Theorem quick_check_exact :
  forall (lower : chunk -> lowered) (cname : chunk -> Z) (hname : hchunk -> Z) (hfailed : hchunk -> bool)
         (D : Type) (s : fstate D) old hs,
  f_mod D s = Some {| e_ast := Some old; e_hir := Some hs |} ->
  aligned lower old hs ->
  (forall c, In c (ast_of (f_text D s)) -> exists h, lower c = LSome h) ->
  exists s' a' hs', quick_check lower cname hname hfailed D s = Ok s' /\
    f_mod D s' = Some {| e_ast := Some a'; e_hir := Some hs' |} /\
    aligned lower a' hs' /\
    (a' = old \/ a' = ast_of (f_text D s)) /\
    (edit1 old (ast_of (f_text D s)) -> a' = ast_of (f_text D s)).
Proof. exact quick_check_exact_l. Qed.

Example quick_check_exact_ex :
  aligned w_lower [1; 2] [1; 2] /\ edit1 [1; 2] [1; 3; 2] /\ ~ edit1 [1; 2] [1; 3; 4; 2].
Proof.
  split; [reflexivity|]. split; [exact (E1_ins [1] 3 [2])|].
  intros H. apply diff_update_exact_iff in H. destruct H as [d [H1 H2]].
  vm_compute in H1. injection H1 as <-. vm_compute in H2. discriminate.
Qed.

(** 5b. cache invariant: along every history the cached AST is the AST of ONE text the server has seen (the opened
        text or the text of some didChange) — never a mixture of two texts; whatever lowering does *)
Theorem cached_ast_is_exact :
  forall lower cname hname hfailed (D : Type) (check : text -> D) full_hir textcmp t0 d0 evs s,
  run lower cname hname hfailed D check full_hir textcmp (open D check full_hir t0 d0) evs = Ok s ->
  exists e t, f_mod D s = Some e /\ e_ast e = Some (ast_of t) /\
              In t (t0 :: texts_of evs).
Proof. intros. eapply cache_exact_l; eauto. Qed.

(** KNOWN FINDING C29-quick-check-panics (known/C29.json, corpus/C29/k2).  The checker can panic while it lowers ONE
    chunk in the context an earlier analysis left (`(lhs: ?L, rhs: ?R) -> ?L.Output has qvar` for a function whose
    body uses a variable of failed type), although a fresh analysis of the same text does not: the didChange handler
    (quick_check_file: HIRDiff::new, HIRDiff::fix) then panics.  The guard of theorems 6 and 7 is
    [Known_C29 = lower_total lower]: lowering a chunk does not panic.  In the model: *)
Theorem quick_check_lower_panic_refuted :
  run wp_lower w_name w_name w_failed text w_check w_full_hir true (open text w_check w_full_hir w2_t0 [])
      [EChange true [(1, 0); (2, 1)]; EChange true [(1, 0); (2, 2)]] = Panic.
Proof. exact lower_panic_refuted_l. Qed.

(** 6. when lowering does not panic, no history makes the modelled handlers panic (with or without the text
       comparison) *)
Theorem run_no_panic :
  forall lower cname hname hfailed (D : Type) (check : text -> D) full_hir textcmp evs s,
  lower_total lower ->
  run lower cname hname hfailed D check full_hir textcmp s evs <> Panic.
Proof. intros. now apply run_no_panic_l. Qed.

(** 7. CONVERGENCE.  For every analysis function, every lowering function (that does not panic), every document and
       every history of didChange (any texts, any number of changed chunks, quick-checked or not), didSave (whatever
       the module graph answers) and polling ticks: when the history ends in a didSave or a polling tick, the
       diagnostics published last for the document are [check] of the final text, which is what a fresh server
       publishes when it opens that text.
       (The invariant is not "cached AST = AST of the last text" — quick_check_file breaks that on every
       notification that changes two chunks, theorem 4 — but "published = check (checked_code)", and didSave skips
       the analysis only when checked_code is the current text.) *)
Theorem convergence :
  forall lower cname hname hfailed (D : Type) (check : text -> D) full_hir t0 d0 evs last,
  lower_total lower ->
  is_recheck last ->
  exists s, run lower cname hname hfailed D check full_hir true (open D check full_hir t0 d0) (evs ++ [last]) = Ok s /\
            f_text D s = final_text t0 evs /\
            f_pub D s = check (final_text t0 evs) /\
            converged D check full_hir s.
Proof. intros. now apply convergence_l. Qed.

Example convergence_ex :
  exists s, w_run true w2_t0 w2_evs = Ok s /\ f_pub text s = [(1, 0); (2, 2)] /\ f_text text s = [(1, 0); (2, 2)].
Proof. eexists. split; [vm_compute; reflexivity|split; reflexivity]. Qed.

(** 8. the text comparison is necessary: with change_kind as it was before the repair (NoChange decided from the
       cached AST alone) the property fails, W1: a blank line inserted above a chunk (positions of the published
       diagnostics are stale), W2: a chunk added, absorbed into the cached AST by quick_check_file (its
       diagnostics are never published).  Replayed on the real server by checks/c29.py (corpus/C29). *)
Theorem convergence_without_text_check_refuted :
  (exists s, w_run false w1_t0 w1_evs = Ok s /\ f_pub text s <> w_check (f_text text s)) /\
  (exists s, w_run false w2_t0 w2_evs = Ok s /\ f_pub text s <> w_check (f_text text s)).
Proof. exact old_code_refuted_l. Qed.

(** 9. the executable judge decides "same diagnostics" (as multisets) *)
Theorem judge_spec : forall a b, judge a b = true <-> Permutation a b.
Proof. exact judge_spec_l. Qed.

Example judge_ex : judge [[0; 4; 0; 5; 1; 121]; [0; 0; 0; 1; 2; 120]] [[0; 0; 0; 1; 2; 120]; [0; 4; 0; 5; 1; 121]] = true
                   /\ judge [[0; 4; 0; 5; 1; 121]] [[1; 4; 1; 5; 1; 121]] = false.
Proof. split; reflexivity. Qed.
