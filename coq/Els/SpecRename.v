(** C30 — executable judge: is the edit set [S] (positions whose identifier the workspace edit replaced by [y]) a
    meaning-preserving rename of the binder at [b]?  The program must keep its binding structure (every use
    resolves to the same binder as before: then it type-checks and runs as before, Props_C30.rename_behaviour), and
    no use still written with the old name may resolve to [b]. *)
From Coq Require Import ZArith List Bool Arith.
From ErgV Require Import Els.Rename.
Import ListNotations.
Open Scope Z_scope.

Fixpoint zs_eqb (a b : list Z) : bool :=
  match a, b with
  | [], [] => true
  | x :: a', y :: b' => (x =? y) && zs_eqb a' b'
  | _, _ => false
  end.

Fixpoint nexpr_eqb (a b : nexpr) : bool :=
  match a, b with
  | NBound p q, NBound p' q' => (p =? p') && (q =? q')
  | NFree p x, NFree p' x' => (p =? p') && (x =? x')
  | NLit n, NLit n' => n =? n'
  | NStr s, NStr s' => zs_eqb s s'
  | NAdd a1 a2, NAdd b1 b2 => nexpr_eqb a1 b1 && nexpr_eqb a2 b2
  | NCall1 a1 a2, NCall1 b1 b2 => nexpr_eqb a1 b1 && nexpr_eqb a2 b2
  | NCall2 a1 a2 a3, NCall2 b1 b2 b3 => nexpr_eqb a1 b1 && nexpr_eqb a2 b2 && nexpr_eqb a3 b3
  | _, _ => false
  end.

Fixpoint nblock_eqb (a b : nblock) : bool :=
  match a, b with
  | NRet e, NRet e' => nexpr_eqb e e'
  | NDef p e k, NDef p' e' k' => (p =? p') && nexpr_eqb e e' && nblock_eqb k k'
  | NFun p p1 d body k, NFun p' p1' d' body' k' =>
      (p =? p') && (p1 =? p1') &&
      match d, d' with
      | None, None => true
      | Some (p2, e), Some (p2', e') => (p2 =? p2') && nexpr_eqb e e'
      | _, _ => false
      end && nblock_eqb body body' && nblock_eqb k k'
  | NPrint e k, NPrint e' k' => nexpr_eqb e e' && nblock_eqb k k'
  | _, _ => false
  end.

(** the same binding structure after the edit *)
Definition same_binding (t : block) (S : list pos) (y : name) : bool :=
  nblock_eqb (erase [] (rename (mem S) y t)) (erase [] t).

(** uses that still carry the name [x] and resolve to [b] after the edit *)
Definition stale (t : block) (S : list pos) (y : name) (b : pos) (x : name) : list pos :=
  flat_map (fun u => match u with
                     | (p, n, Some q) => if (q =? b) && (n =? x) then [p] else []
                     | _ => []
                     end) (uses [] (rename (mem S) y t)).

Definition judge_rename (t : block) (S : list pos) (y : name) (b : pos) (x : name) : bool :=
  same_binding t S y && match stale t S y b x with [] => true | _ => false end.

Fixpoint nodupb (l : list Z) : bool :=
  match l with
  | [] => true
  | x :: r => negb (existsb (Z.eqb x) r) && nodupb r
  end.
