(** extraction entry point for the C29 / C30 correspondence checks and judges *)
(* built before extraction (lib/vplib.py Model reads these names): ErgV.Common.Sx ErgV.Els.Model ErgV.Els.Spec *)
From Coq Require Import ZArith List Bool Arith.
From ErgV Require Import Common.Sx Els.Model Els.Spec.
Import ListNotations.
Open Scope Z_scope.

(** C29.  The instance used for the correspondence: lowering always succeeds, the "diagnostics" are the checked
    text itself (so the output says WHICH text's analysis is on display). *)
Definition x_lower (c : chunk) : option hchunk := Some c.
Definition x_name (c : Z) : Z := 0.
Definition x_failed (h : hchunk) : bool := false.
Definition x_check (t : text) : text := t.
Definition x_full_hir (t : text) : option hir := Some (ast_of t).

Definition dec_text (x : sx) : text := map (fun p => (sx_z (sx_nth p 0), sx_z (sx_nth p 1))) (sx_l x).
Definition enc_text (t : text) : sx := SL (map (fun p => SL [SZ (fst p); SZ (snd p)]) t).

(** event: (0 has_range start_char is_trigger_text text) didChange | (1 deps_nonempty) didSave | (2) polling tick.
    [trigger] as in server.rs handle_notification: the first content change is a trigger character or its range
    starts at column 0 *)
Definition dec_event (x : sx) : event :=
  let k := sx_z (sx_nth x 0) in
  if k =? 0 then
    EChange (sx_to_bool (sx_nth x 3) || (sx_to_bool (sx_nth x 1) && (sx_z (sx_nth x 2) =? 0))) (dec_text (sx_nth x 4))
  else if k =? 1 then ESave (if sx_to_bool (sx_nth x 1) then DepsSelfOnly else DepsEmpty)
  else EPoll.

Definition enc_state (p : bool) (s : fstate text) : sx :=
  SL [ sx_bool p;
       match f_mod text s with
       | Some e => match e_ast e with Some a => sx_of_zs a | None => SZ (-1) end
       | None => SZ (-1)
       end;
       match f_mod text s with
       | Some e => match e_hir e with Some h => sx_nat (length h) | None => SZ (-1) end
       | None => SZ (-1)
       end;
       enc_text (f_pub text s) ].

Fixpoint c29_run (s : fstate text) (evs : list sx) : list sx :=
  match evs with
  | [] => []
  | x :: r =>
    let ev := dec_event x in
    let p := publishes text true s ev in
    match step x_lower x_name x_name x_failed text x_check x_full_hir true s ev with
    | Panic => [SZ (-999)]
    | Ok s1 => enc_state p s1 :: c29_run s1 r
    end
  end.

Definition dec_diags (x : sx) : list diag := map sx_zs (sx_l x).

Definition run (x : sx) : sx :=
  let mode := sx_z (sx_nth x 0) in
  if mode =? 0 then
    (* (0 text0 (event ...)) -> (state_after_open state_after_each_event ...); state = (published? cached_ast hir_len
       text_whose_analysis_is_published) *)
    let s0 := open text x_check x_full_hir (dec_text (sx_nth x 1)) [] in
    SL (enc_state true s0 :: c29_run s0 (sx_l (sx_nth x 2)))
  else if mode =? 1 then
    (* (1 incremental_diags fresh_diags) -> judge *)
    sx_bool (judge (dec_diags (sx_nth x 1)) (dec_diags (sx_nth x 2)))
  else SZ (-1).

Require Extraction. Require Import ExtrOcamlBasic. Extraction Language OCaml. Extraction "model.ml" run.
