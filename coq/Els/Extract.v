(** extraction entry point for the C29 / C30 correspondence checks and judges *)
(* built before extraction (lib/vplib.py Model reads these names): ErgV.Common.Sx ErgV.Els.Model ErgV.Els.Spec ErgV.Els.Rename ErgV.Els.SpecRename *)
From Coq Require Import ZArith List Bool Arith.
From ErgV Require Import Common.Sx Els.Model Els.Spec.
From ErgV Require Els.Rename Els.SpecRename.
Import ListNotations.
Open Scope Z_scope.

(** C29.  The instance used for the correspondence: lowering always succeeds, the "diagnostics" are the checked
    text itself (so the output says WHICH text's analysis is on display). *)
Definition x_lower (c : chunk) : lowered := LSome c.
Definition x_name (c : Z) : Z := 0.
Definition x_failed (h : hchunk) : bool := false.
Definition x_check (t : text) : text := t.
Definition x_full_hir (t : text) : option hir := Some (ast_of t).

Definition dec_text (x : sx) : text := map (fun p => (sx_z (sx_nth p 0), sx_z (sx_nth p 1))) (sx_l x).
Definition enc_text (t : text) : sx := SL (map (fun p => SL [SZ (fst p); SZ (snd p)]) t).

(** event: (0 has_range start_char is_trigger_text text) didChange | (1 deps_nonempty) didSave | (2) polling tick.
    [trigger] as in server.rs handle_notification: the first content change is a trigger character or its range
    starts at column 0 *)
Definition dec_event (x : sx) : event :=
  let k := sx_z (sx_nth x 0) in
  if k =? 0 then
    EChange (sx_to_bool (sx_nth x 3) || (sx_to_bool (sx_nth x 1) && (sx_z (sx_nth x 2) =? 0))) (dec_text (sx_nth x 4))
  else if k =? 1 then ESave (if sx_to_bool (sx_nth x 1) then DepsSelfOnly else DepsEmpty)
  else EPoll.

Definition enc_state (p : bool) (s : fstate text) : sx :=
  SL [ sx_bool p;
       match f_mod text s with
       | Some e => match e_ast e with Some a => sx_of_zs a | None => SZ (-1) end
       | None => SZ (-1)
       end;
       match f_mod text s with
       | Some e => match e_hir e with Some h => sx_nat (length h) | None => SZ (-1) end
       | None => SZ (-1)
       end;
       enc_text (f_pub text s) ].

Fixpoint c29_run (s : fstate text) (evs : list sx) : list sx :=
  match evs with
  | [] => []
  | x :: r =>
    let ev := dec_event x in
    let p := publishes text true s ev in
    match step x_lower x_name x_name x_failed text x_check x_full_hir true s ev with
    | Panic => [SZ (-999)]
    | Ok s1 => enc_state p s1 :: c29_run s1 r
    end
  end.

Definition dec_diags (x : sx) : list diag := map sx_zs (sx_l x).

(** C30.  expr  = (0 p x) | (1 n) | (2 (code points)) | (3 a b) | (4 f a) | (5 f a b)
           block = (0 e) | (1 p x e k) | (2 p f p1 x1 d body k) with d = () or (p2 x2 e) | (3 e k) *)

Fixpoint dec_expr (fuel : nat) (x : sx) : Rename.expr :=
  match fuel with
  | O => Rename.Lit 0
  | S f =>
    let k := sx_z (sx_nth x 0) in
    if k =? 0 then Rename.Var (sx_z (sx_nth x 1)) (sx_z (sx_nth x 2))
    else if k =? 1 then Rename.Lit (sx_z (sx_nth x 1))
    else if k =? 2 then Rename.Str (sx_zs (sx_nth x 1))
    else if k =? 3 then Rename.Add (dec_expr f (sx_nth x 1)) (dec_expr f (sx_nth x 2))
    else if k =? 4 then Rename.Call1 (dec_expr f (sx_nth x 1)) (dec_expr f (sx_nth x 2))
    else Rename.Call2 (dec_expr f (sx_nth x 1)) (dec_expr f (sx_nth x 2)) (dec_expr f (sx_nth x 3))
  end.

Fixpoint dec_block (fuel : nat) (x : sx) : Rename.block :=
  match fuel with
  | O => Rename.Ret (Rename.Lit 0)
  | S f =>
    let k := sx_z (sx_nth x 0) in
    if k =? 0 then Rename.Ret (dec_expr f (sx_nth x 1))
    else if k =? 1 then Rename.Def (sx_z (sx_nth x 1)) (sx_z (sx_nth x 2)) (dec_expr f (sx_nth x 3)) (dec_block f (sx_nth x 4))
    else if k =? 2 then
      let d := sx_nth x 5 in
      Rename.Fun (sx_z (sx_nth x 1)) (sx_z (sx_nth x 2)) (sx_z (sx_nth x 3)) (sx_z (sx_nth x 4))
            (match sx_l d with
             | [] => None
             | _ => Some (sx_z (sx_nth d 0), sx_z (sx_nth d 1), dec_expr f (sx_nth d 2))
             end)
            (dec_block f (sx_nth x 6)) (dec_block f (sx_nth x 7))
    else Rename.Print (dec_expr f (sx_nth x 1)) (dec_block f (sx_nth x 2))
  end.

Definition enc_value (v : Rename.value) : sx :=
  match v with
  | Rename.VInt z => SL [SZ 0; SZ z]
  | Rename.VStr s => SL [SZ 1; sx_of_zs s]
  | Rename.VClo _ _ _ _ _ => SL [SZ 2]
  | Rename.VErr => SL [SZ 3]
  end.

Definition run (x : sx) : sx :=
  let mode := sx_z (sx_nth x 0) in
  if mode =? 0 then
    (* (0 text0 (event ...)) -> (state_after_open state_after_each_event ...); state = (published? cached_ast hir_len
       text_whose_analysis_is_published) *)
    let s0 := open text x_check x_full_hir (dec_text (sx_nth x 1)) [] in
    SL (enc_state true s0 :: c29_run s0 (sx_l (sx_nth x 2)))
  else if mode =? 1 then
    (* (1 incremental_diags fresh_diags) -> judge *)
    sx_bool (judge (dec_diags (sx_nth x 1)) (dec_diags (sx_nth x 2)))
  else if mode =? 2 then
    (* (2 prog y) -> (positions_distinct y_fresh ((binder_pos name (occurrences) agrees) ...)): the model of what a
       rename of each binder must edit, and the hypotheses of the theorems *)
    let t := dec_block 200 (sx_nth x 1) in
    let y := sx_z (sx_nth x 2) in
    SL [ sx_bool (SpecRename.nodupb (Rename.poss t)); sx_bool (negb (existsb (Z.eqb y) (Rename.names t)));
         SL (map (fun b => let o := Rename.occ (fst b) [] t in
                           SL [SZ (fst b); SZ (snd b); sx_of_zs o; sx_bool (Rename.agrees (Rename.mem o) (fst b) [] t)])
                 (Rename.binders t)) ]
  else if mode =? 3 then
    (* (3 prog fuel) -> (printed values, result) of the core's evaluator *)
    let t := dec_block 200 (sx_nth x 1) in
    let r := Rename.run_prog (sx_to_nat (sx_nth x 2)) t in
    SL [SL (map enc_value (fst r)); enc_value (snd r)]
  else if mode =? 4 then
    (* (4 prog (edited positions) y b x) -> judge: (verdict same_binding (stale uses)) *)
    let t := dec_block 200 (sx_nth x 1) in
    let S := sx_zs (sx_nth x 2) in
    let y := sx_z (sx_nth x 3) in
    let b := sx_z (sx_nth x 4) in
    let n := sx_z (sx_nth x 5) in
    SL [ sx_bool (SpecRename.judge_rename t S y b n); sx_bool (SpecRename.same_binding t S y); sx_of_zs (SpecRename.stale t S y b n) ]
  else SZ (-1).

Require Extraction. Require Import ExtrOcamlBasic. Extraction Language OCaml. Extraction "model.ml" run.
