(** C29 — proofs about Els/Model.v *)
From Coq Require Import ZArith List Bool Arith Lia Permutation.
From ErgV Require Import Els.Model Els.Spec.
Import ListNotations.
Open Scope Z_scope.

(** * list helpers *)
Lemma firstn_len_app {A} (l1 l2 : list A) : firstn (length l1) (l1 ++ l2) = l1.
Proof.
  rewrite firstn_app, Nat.sub_diag, firstn_all. cbn [firstn]. now rewrite app_nil_r.
Qed.

Lemma skipn_len_app {A} (l1 l2 : list A) : skipn (length l1) (l1 ++ l2) = l2.
Proof.
  rewrite skipn_app, Nat.sub_diag, skipn_all. reflexivity.
Qed.

Lemma firstn_plus_app {A} (l1 l2 : list A) j : firstn (length l1 + j) (l1 ++ l2) = l1 ++ firstn j l2.
Proof.
  rewrite firstn_app. rewrite firstn_all2 by lia. f_equal. f_equal. lia.
Qed.

Lemma skipn_plus_app {A} (l1 l2 : list A) j : skipn (length l1 + j) (l1 ++ l2) = skipn j l2.
Proof.
  rewrite skipn_app. rewrite skipn_all2 by lia. cbn [app]. f_equal. lia.
Qed.

Lemma insert_at_app {A} (l1 l2 : list A) j x :
  insert_at (length l1 + j) x (l1 ++ l2) = l1 ++ insert_at j x l2.
Proof.
  unfold insert_at. rewrite firstn_plus_app, skipn_plus_app. now rewrite <- app_assoc.
Qed.

Lemma remove_at_app {A} (l1 l2 : list A) j :
  remove_at (length l1 + j) (l1 ++ l2) = l1 ++ remove_at j l2.
Proof.
  unfold remove_at. rewrite firstn_plus_app.
  replace (S (length l1 + j)) with (length l1 + S j)%nat by lia.
  rewrite skipn_plus_app. now rewrite <- app_assoc.
Qed.

Lemma replace_at_app {A} (l1 l2 : list A) j x :
  replace_at (length l1 + j) x (l1 ++ l2) = l1 ++ replace_at j x l2.
Proof.
  unfold replace_at. rewrite firstn_plus_app.
  replace (S (length l1 + j)) with (length l1 + S j)%nat by lia.
  rewrite skipn_plus_app. now rewrite <- app_assoc.
Qed.

Lemma nth_error_plus_app {A} (l1 l2 : list A) j : nth_error (l1 ++ l2) (length l1 + j) = nth_error l2 j.
Proof.
  rewrite nth_error_app2 by lia. f_equal. lia.
Qed.

(** * first_diff *)
Lemma first_diff_refl l : first_diff l l = None.
Proof.
  induction l as [|x l IH]; cbn [first_diff]; [reflexivity|].
  rewrite Z.eqb_refl, IH. reflexivity.
Qed.

Lemma first_diff_cons x a y b :
  first_diff (x :: a) (y :: b) = if x =? y then option_map S (first_diff a b) else Some 0%nat.
Proof. reflexivity. Qed.

Lemma first_diff_app l1 a b :
  first_diff (l1 ++ a) (l1 ++ b) = option_map (fun i => (length l1 + i)%nat) (first_diff a b).
Proof.
  induction l1 as [|x l1 IH]; cbn [app first_diff length].
  - destruct (first_diff a b); reflexivity.
  - rewrite Z.eqb_refl, IH. destruct (first_diff a b); reflexivity.
Qed.

Lemma first_diff_lt a b i : first_diff a b = Some i -> (i < length a)%nat /\ (i < length b)%nat.
Proof.
  revert b i. induction a as [|x a IH]; intros [|y b] i H; cbn [first_diff] in H; try discriminate.
  destruct (x =? y).
  - destruct (first_diff a b) as [j|] eqn:E; cbn [option_map] in H; [|discriminate].
    injection H as <-. destruct (IH _ _ E). cbn [length]. lia.
  - injection H as <-. cbn [length]. lia.
Qed.

(** the index the Less / Greater arms compute, relative to the chunk that was inserted / deleted *)
Definition shift_idx (c : chunk) (l2 : list chunk) : nat :=
  match first_diff (c :: l2) l2 with Some i => i | None => length l2 end.

Lemma shift_idx_le c l2 : (shift_idx c l2 <= length l2)%nat.
Proof.
  unfold shift_idx. destruct (first_diff (c :: l2) l2) eqn:E; [|lia].
  apply first_diff_lt in E. lia.
Qed.

Lemma shift_insert : forall l2 c, exists x,
  nth_error (c :: l2) (shift_idx c l2) = Some x /\ insert_at (shift_idx c l2) x l2 = c :: l2.
Proof.
  unfold shift_idx.
  induction l2 as [|a l2 IH]; intros c.
  - exists c. cbn. split; reflexivity.
  - rewrite first_diff_cons. destruct (c =? a) eqn:E.
    + apply Z.eqb_eq in E. subst c.
      destruct (IH a) as [x [Hn Hi]].
      exists x.
      destruct (first_diff (a :: l2) l2) as [j|] eqn:F; cbn [option_map length].
      * split; [exact Hn|]. unfold insert_at in *. cbn [firstn skipn app]. now rewrite Hi.
      * split; [exact Hn|]. unfold insert_at in *. cbn [firstn skipn app]. now rewrite Hi.
    + exists c. split; reflexivity.
Qed.

Lemma shift_remove : forall l2 c, remove_at (shift_idx c l2) (c :: l2) = l2.
Proof.
  unfold shift_idx.
  induction l2 as [|a l2 IH]; intros c.
  - reflexivity.
  - rewrite first_diff_cons. destruct (c =? a) eqn:E.
    + apply Z.eqb_eq in E. subst c. specialize (IH a).
      destruct (first_diff (a :: l2) l2) as [j|] eqn:F; cbn [option_map length];
        unfold remove_at in *; cbn [firstn skipn app] in *; now rewrite IH.
    + reflexivity.
Qed.

(** * diff never panics *)
Lemma diff_no_panic old new : diff old new <> Panic.
Proof.
  unfold diff. destruct (Nat.compare (length old) (length new)) eqn:C.
  - destruct (first_diff old new) as [i|] eqn:E; [|discriminate].
    apply first_diff_lt in E. destruct E as [_ E].
    destruct (nth_error new i) eqn:N; [discriminate|]. apply nth_error_None in N. lia.
  - apply Nat.compare_lt_iff in C.
    destruct (first_diff new old) as [i|] eqn:E.
    + apply first_diff_lt in E. destruct E as [E _].
      destruct (nth_error new i) eqn:N; [discriminate|]. apply nth_error_None in N. lia.
    + destruct (length new) as [|k] eqn:L; [lia|]. cbn [pred_usize].
      destruct (nth_error new k) eqn:N; [discriminate|]. apply nth_error_None in N. lia.
  - apply Nat.compare_gt_iff in C.
    destruct (first_diff old new) as [i|] eqn:E; [discriminate|].
    destruct (length old) as [|k] eqn:L; [lia|]. cbn [pred_usize]. discriminate.
Qed.

(** the chunk a diff carries is the chunk of the new AST at that index *)
Lemma diff_carries old new d : diff old new = Ok d ->
  match d with
  | Addition i c | Modification i c => nth_error new i = Some c
  | _ => True
  end.
Proof.
  unfold diff. destruct (Nat.compare (length old) (length new)).
  - destruct (first_diff old new) as [i|]; [|intros [= <-]; exact I].
    destruct (nth_error new i) eqn:N; [|discriminate]. intros [= <-]. exact N.
  - destruct (match first_diff new old with Some i => Ok i | None => pred_usize (length new) end) as [i|];
      [|discriminate].
    destruct (nth_error new i) eqn:N; [|discriminate]. intros [= <-]. exact N.
  - destruct (match first_diff old new with Some i => Ok i | None => pred_usize (length old) end) as [i|];
      [|discriminate].
    intros [= <-]. exact I.
Qed.

(** * one changed chunk: update (diff old new) old = new *)
Lemma diff_update_ins l1 c l2 :
  exists d, diff (l1 ++ l2) (l1 ++ c :: l2) = Ok d /\ update d (l1 ++ l2) = l1 ++ c :: l2.
Proof.
  unfold diff.
  assert (C : Nat.compare (length (l1 ++ l2)) (length (l1 ++ c :: l2)) = Lt).
  { apply Nat.compare_lt_iff. rewrite !app_length. cbn [length]. lia. }
  rewrite C. rewrite first_diff_app.
  destruct (shift_insert l2 c) as [x [Hn Hi]].
  pose proof (shift_idx_le c l2) as Hle.
  assert (Hidx : (match option_map (fun i => (length l1 + i)%nat) (first_diff (c :: l2) l2) with
                  | Some i => Ok i
                  | None => pred_usize (length (l1 ++ c :: l2))
                  end) = Ok (length l1 + shift_idx c l2)%nat).
  { unfold shift_idx. destruct (first_diff (c :: l2) l2); cbn [option_map]; [reflexivity|].
    rewrite app_length. cbn [length]. replace (length l1 + S (length l2))%nat with (S (length l1 + length l2)) by lia.
    reflexivity. }
  rewrite Hidx. rewrite nth_error_plus_app, Hn.
  eexists. split; [reflexivity|].
  cbn [update]. unfold upd_add.
  assert (L : Nat.ltb (length (l1 ++ l2)) (length l1 + shift_idx c l2) = false).
  { apply Nat.ltb_ge. rewrite app_length. lia. }
  rewrite L, insert_at_app, Hi. reflexivity.
Qed.

Lemma diff_update_del l1 c l2 :
  exists d, diff (l1 ++ c :: l2) (l1 ++ l2) = Ok d /\ update d (l1 ++ c :: l2) = l1 ++ l2.
Proof.
  unfold diff.
  assert (C : Nat.compare (length (l1 ++ c :: l2)) (length (l1 ++ l2)) = Gt).
  { apply Nat.compare_gt_iff. rewrite !app_length. cbn [length]. lia. }
  rewrite C. rewrite first_diff_app.
  pose proof (shift_idx_le c l2) as Hle.
  assert (Hidx : (match option_map (fun i => (length l1 + i)%nat) (first_diff (c :: l2) l2) with
                  | Some i => Ok i
                  | None => pred_usize (length (l1 ++ c :: l2))
                  end) = Ok (length l1 + shift_idx c l2)%nat).
  { unfold shift_idx. destruct (first_diff (c :: l2) l2); cbn [option_map]; [reflexivity|].
    rewrite app_length. cbn [length]. replace (length l1 + S (length l2))%nat with (S (length l1 + length l2)) by lia.
    reflexivity. }
  rewrite Hidx. eexists. split; [reflexivity|].
  cbn [update]. unfold upd_del. rewrite nth_error_plus_app.
  destruct (nth_error (c :: l2) (shift_idx c l2)) eqn:N.
  - rewrite remove_at_app, shift_remove. reflexivity.
  - apply nth_error_None in N. cbn [length] in N. lia.
Qed.

Lemma diff_update_mod l1 c c' l2 :
  exists d, diff (l1 ++ c :: l2) (l1 ++ c' :: l2) = Ok d /\ update d (l1 ++ c :: l2) = l1 ++ c' :: l2.
Proof.
  unfold diff.
  assert (C : Nat.compare (length (l1 ++ c :: l2)) (length (l1 ++ c' :: l2)) = Eq).
  { apply Nat.compare_eq_iff. rewrite !app_length. reflexivity. }
  rewrite C. rewrite first_diff_app. cbn [first_diff].
  destruct (c =? c') eqn:E.
  - apply Z.eqb_eq in E. subst c'. rewrite first_diff_refl. cbn [option_map].
    eexists. split; reflexivity.
  - cbn [option_map]. rewrite nth_error_plus_app. cbn [nth_error].
    eexists. split; [reflexivity|].
    cbn [update]. unfold upd_mod. rewrite nth_error_plus_app. cbn [nth_error].
    rewrite replace_at_app. reflexivity.
Qed.

Lemma diff_update_single_l old new : edit1 old new -> exists d, diff old new = Ok d /\ update d old = new.
Proof.
  intros [l | l1 c l2 | l1 c l2 | l1 c c' l2].
  - exists Nop. split; [|reflexivity].
    unfold diff. rewrite Nat.compare_refl, first_diff_refl. reflexivity.
  - apply diff_update_ins.
  - apply diff_update_del.
  - apply diff_update_mod.
Qed.

(** an update changes at most one chunk, whatever the diff *)
Lemma split_at {A} (l : list A) i : l = firstn i l ++ skipn i l.
Proof. symmetry. apply firstn_skipn. Qed.

Lemma nth_error_decompose {A} (l : list A) i y : nth_error l i = Some y ->
  l = firstn i l ++ y :: skipn (S i) l.
Proof.
  intros H. destruct (nth_error_split _ _ H) as [l1 [l2 [-> <-]]].
  rewrite firstn_len_app.
  replace (S (length l1)) with (length l1 + 1)%nat by lia.
  rewrite skipn_plus_app. reflexivity.
Qed.

Lemma update_edit1 d old : edit1 old (update d old).
Proof.
  destruct d as [i | i c | i c |]; cbn [update].
  - unfold upd_del. destruct (nth_error old i) eqn:N; [|constructor].
    unfold remove_at. rewrite (nth_error_decompose _ _ _ N) at 1. constructor.
  - unfold upd_add. destruct (Nat.ltb (length old) i).
    + rewrite <- (app_nil_r old) at 1. constructor.
    + unfold insert_at. rewrite (split_at old i) at 1. constructor.
  - unfold upd_mod. destruct (nth_error old i) eqn:N; [|constructor].
    unfold replace_at. rewrite (nth_error_decompose _ _ _ N) at 1. constructor.
  - constructor.
Qed.

Lemma diff_update_exact_iff_l old new :
  (exists d, diff old new = Ok d /\ update d old = new) <-> edit1 old new.
Proof.
  split.
  - intros [d [_ <-]]. apply update_edit1.
  - apply diff_update_single_l.
Qed.

Lemma ast_eqb_eq : forall a b, ast_eqb a b = true <-> a = b.
Proof.
  induction a as [|x a IH]; intros [|y b]; cbn [ast_eqb]; split; intros H; try discriminate; try reflexivity.
  - apply andb_prop in H. destruct H as [H1 H2]. apply Z.eqb_eq in H1. apply IH in H2. now subst.
  - injection H as -> ->. rewrite Z.eqb_refl. cbn. now apply IH.
Qed.

(** * the HIR follows the AST *)
Section Align.
  Variable lower : chunk -> lowered.
  Variable cname : chunk -> Z.
  Variable hname : hchunk -> Z.
  Variable hfailed : hchunk -> bool.

  (** every HIR chunk is the lowering of the AST chunk at the same index *)
  Definition aligned (a : ast) (h : hir) : Prop := map lower a = map LSome h.

  (** lowering a chunk does not panic (the checker's own property, C07) *)
  Definition lower_total : Prop := forall c, lower c <> LPanic.

  Lemma map_upd_add {A B} (f : A -> B) i x l : map f (upd_add i x l) = upd_add i (f x) (map f l).
  Proof.
    unfold upd_add, insert_at. rewrite map_length. destruct (Nat.ltb (length l) i).
    - now rewrite map_app.
    - rewrite map_app. cbn [map]. now rewrite firstn_map, skipn_map.
  Qed.

  Lemma nth_error_map_some {A B} (f : A -> B) l i :
    (exists y, nth_error (map f l) i = Some y) <-> (exists x, nth_error l i = Some x).
  Proof.
    rewrite nth_error_map. destruct (nth_error l i); cbn [option_map]; split; intros [z H]; eauto; discriminate.
  Qed.

  Lemma map_upd_del {A B} (f : A -> B) i l : map f (upd_del i l) = upd_del i (map f l).
  Proof.
    unfold upd_del. rewrite nth_error_map. destruct (nth_error l i); cbn [option_map]; [|reflexivity].
    unfold remove_at. rewrite map_app. now rewrite firstn_map, skipn_map.
  Qed.

  Lemma map_upd_mod {A B} (f : A -> B) i x l : map f (upd_mod i x l) = upd_mod i (f x) (map f l).
  Proof.
    unfold upd_mod. rewrite nth_error_map. destruct (nth_error l i); cbn [option_map]; [|reflexivity].
    unfold replace_at. rewrite map_app. cbn [map]. now rewrite firstn_map, skipn_map.
  Qed.

  Lemma hfix_aligned : forall a h, aligned a h -> hfix lower cname hname hfailed a h = Ok h.
  Proof.
    unfold aligned. induction a as [|c a IH]; intros [|x h] H; cbn [map] in H; try discriminate; cbn [hfix].
    - reflexivity.
    - injection H as Hc Ht. rewrite (IH _ Ht). rewrite Hc.
      destruct (negb (cname c =? hname x)); [reflexivity|]. destruct (hfailed x); reflexivity.
  Qed.

  Lemma hfix_no_panic : lower_total -> forall a h, hfix lower cname hname hfailed a h <> Panic.
  Proof.
    intros Ht. induction a as [|c a IH]; intros [|x h]; cbn [hfix]; try discriminate.
    destruct (negb (cname c =? hname x)).
    - destruct (hfix lower cname hname hfailed a h) eqn:E; [discriminate|now apply IH in E].
    - destruct (hfailed x).
      + destruct (lower c) eqn:L; try (destruct (hfix lower cname hname hfailed a h) eqn:E; [discriminate|now apply IH in E]).
        now apply Ht in L.
      + destruct (hfix lower cname hname hfailed a h) eqn:E; [discriminate|now apply IH in E].
  Qed.

  Lemma hupdate_aligned old hs d hd :
    aligned old hs -> hirdiff_new lower d = Ok (Some hd) -> aligned (update d old) (hupdate hd hs).
  Proof.
    unfold aligned. intros Ha Hd. destruct d as [i | i c | i c |]; cbn [hirdiff_new] in Hd.
    - injection Hd as <-. cbn [update hupdate]. now rewrite !map_upd_del, Ha.
    - destruct (lower c) as [h| |] eqn:L; try discriminate. injection Hd as <-. cbn [update hupdate].
      now rewrite !map_upd_add, Ha, L.
    - destruct (lower c) as [h| |] eqn:L; try discriminate. injection Hd as <-. cbn [update hupdate].
      now rewrite !map_upd_mod, Ha, L.
    - injection Hd as <-. exact Ha.
  Qed.

  Lemma hirdiff_new_no_panic d : lower_total -> hirdiff_new lower d <> Panic.
  Proof.
    intros Ht. destruct d as [i | i c | i c |]; cbn [hirdiff_new]; try discriminate;
      destruct (lower c) eqn:L; try discriminate; now apply Ht in L.
  Qed.

  Variable D : Type.
  Variable check : text -> D.
  Variable full_hir : text -> option hir.

  Notation quick_check := (quick_check lower cname hname hfailed D).

  (** quick_check_file changes neither the text, nor what was checked, nor what is published *)
  Lemma quick_check_frame s s' : quick_check s = Ok s' ->
    f_text D s' = f_text D s /\ f_checked D s' = f_checked D s /\ f_pub D s' = f_pub D s.
  Proof.
    unfold Model.quick_check. destruct (f_mod D s) as [e|]; [|intros [= <-]; auto].
    destruct (e_ast e) as [old|]; [|intros [= <-]; auto].
    destruct (diff old (ast_of (f_text D s))) as [d|]; [|discriminate].
    destruct (is_nop d); [intros [= <-]; auto|].
    destruct (negb (ast_eqb (update d old) (ast_of (f_text D s)))); [intros [= <-]; auto|].
    destruct (hirdiff_new lower d) as [ohd|]; [|discriminate].
    match goal with |- context [match ?p with pair _ _ => _ end] => destruct p as [a1 h1] end.
    match goal with |- context [match ?p with Ok _ => _ | Panic => _ end] => destruct p as [h2|] end; [|discriminate].
    intros [= <-]. cbn. auto.
  Qed.

  Lemma quick_check_no_panic s : lower_total -> quick_check s <> Panic.
  Proof.
    intros Ht.
    unfold Model.quick_check. destruct (f_mod D s) as [e|]; [|discriminate].
    destruct (e_ast e) as [old|]; [|discriminate].
    destruct (diff old (ast_of (f_text D s))) as [d|] eqn:E; [|now apply diff_no_panic in E].
    destruct (is_nop d); [discriminate|].
    destruct (negb (ast_eqb (update d old) (ast_of (f_text D s)))); [discriminate|].
    destruct (hirdiff_new lower d) as [ohd|] eqn:Hn; [|now apply hirdiff_new_no_panic in Hn].
    match goal with |- context [match ?p with pair _ _ => _ end] => destruct p as [a1 h1] end.
    destruct h1 as [h|]; [|discriminate].
    destruct (hfix lower cname hname hfailed (ast_of (f_text D s)) h) eqn:F; [discriminate|].
    now apply hfix_no_panic in F.
  Qed.

  (** when lowering succeeds: afterwards the cached AST is either untouched or exactly the AST of the text the server
      saw (the latter whenever at most one chunk changed), and the HIR follows it *)
  Lemma quick_check_exact_l s old hs :
    f_mod D s = Some {| e_ast := Some old; e_hir := Some hs |} ->
    aligned old hs ->
    (forall c, In c (ast_of (f_text D s)) -> exists h, lower c = LSome h) ->
    exists s' a' hs', quick_check s = Ok s' /\
      f_mod D s' = Some {| e_ast := Some a'; e_hir := Some hs' |} /\
      aligned a' hs' /\
      (a' = old \/ a' = ast_of (f_text D s)) /\
      (edit1 old (ast_of (f_text D s)) -> a' = ast_of (f_text D s)).
  Proof.
    intros Hm Ha Hl.
    unfold Model.quick_check. rewrite Hm. cbn [e_ast e_hir].
    destruct (diff old (ast_of (f_text D s))) as [d|] eqn:Hd; [|now apply diff_no_panic in Hd].
    assert (He1 : edit1 old (ast_of (f_text D s)) -> update d old = ast_of (f_text D s)).
    { intros He. destruct (diff_update_single_l _ _ He) as [d' [Hd' Hu]]. congruence. }
    destruct (is_nop d) eqn:N.
    - exists s, old, hs. rewrite Hm. repeat split; auto.
      intros He. apply He1 in He. destruct d; try discriminate. now cbn [update] in He.
    - destruct (ast_eqb (update d old) (ast_of (f_text D s))) eqn:Q; cbn [negb].
      + apply ast_eqb_eq in Q.
        assert (Hn : exists hd, hirdiff_new lower d = Ok (Some hd)).
        { pose proof (diff_carries _ _ _ Hd) as Hc.
          destruct d as [i | i c | i c |]; cbn [hirdiff_new]; eauto.
          - destruct (Hl c) as [h L]; [eapply nth_error_In; eauto|]. rewrite L. eauto.
          - destruct (Hl c) as [h L]; [eapply nth_error_In; eauto|]. rewrite L. eauto. }
        destruct Hn as [hd Hn]. rewrite Hn.
        pose proof (hupdate_aligned _ _ _ _ Ha Hn) as Ha2. rewrite Q in Ha2.
        rewrite (hfix_aligned _ _ Ha2).
        eexists. exists (ast_of (f_text D s)), (hupdate hd hs). split; [reflexivity|]. cbn [f_mod].
        rewrite Q. auto.
      + exists s, old, hs. rewrite Hm. repeat split; auto.
        intros He. apply He1 in He. apply ast_eqb_eq in He. congruence.
  Qed.

  (** whatever lowering does: quick_check_file leaves the cached AST alone or makes it the AST of the text it saw *)
  Lemma quick_check_ast s s' : quick_check s = Ok s' ->
    f_mod D s' = f_mod D s \/
    exists e', f_mod D s' = Some e' /\ (e_ast e' = Some (ast_of (f_text D s)) \/
                                         exists e, f_mod D s = Some e /\ e_ast e' = e_ast e).
  Proof.
    unfold Model.quick_check. destruct (f_mod D s) as [e|] eqn:Hm; [|intros [= <-]; auto].
    destruct (e_ast e) as [old|] eqn:Ea; [|intros [= <-]; auto].
    destruct (diff old (ast_of (f_text D s))) as [d|]; [|discriminate].
    destruct (is_nop d); [intros [= <-]; auto|].
    destruct (ast_eqb (update d old) (ast_of (f_text D s))) eqn:Q; cbn [negb]; [|intros [= <-]; auto].
    apply ast_eqb_eq in Q.
    destruct (hirdiff_new lower d) as [ohd|]; [|discriminate].
    destruct ohd as [hd|]; destruct (e_hir e) as [h|];
      repeat match goal with |- context [match ?p with Ok _ => _ | Panic => _ end] => destruct p; [|discriminate] end;
      intros [= <-]; right; eexists; split; try reflexivity; cbn [e_ast]; rewrite ?Q; eauto.
  Qed.

  (** * convergence *)
  Notation step := (step lower cname hname hfailed D check full_hir).
  Notation run := (run lower cname hname hfailed D check full_hir).
  Notation change_kind := (change_kind D).
  Notation check_file := (check_file D check full_hir).

  Lemma item_eqb_eq a b : item_eqb a b = true -> a = b.
  Proof.
    unfold item_eqb. destruct a, b. cbn. intros H. apply andb_prop in H. destruct H as [H1 H2].
    apply Z.eqb_eq in H1, H2. now subst.
  Qed.

  Lemma text_eqb_eq : forall a b, text_eqb a b = true -> a = b.
  Proof.
    induction a as [|x a IH]; intros [|y b] H; cbn [text_eqb] in H; try discriminate; [reflexivity|].
    apply andb_prop in H. destruct H as [H1 H2]. apply item_eqb_eq in H1. apply IH in H2. now subst.
  Qed.

  Lemma change_kind_no_panic b s dp : change_kind b s dp <> Panic.
  Proof.
    unfold Model.change_kind. destruct dp; try discriminate.
    destruct (b && _); [discriminate|].
    destruct (f_mod D s) as [e|]; [|discriminate]. destruct (e_ast e) as [old|]; [|discriminate].
    destruct (diff old (ast_of (f_text D s))) as [d|] eqn:E; [|now apply diff_no_panic in E].
    destruct (is_nop d); discriminate.
  Qed.

  Lemma step_no_panic b s ev : lower_total -> step b s ev <> Panic.
  Proof.
    intros Ht.
    destruct ev as [tr t | dp |]; cbn [Model.step].
    - destruct tr; [|discriminate].
      destruct (quick_check s) eqn:E; [discriminate|]. now apply quick_check_no_panic in E.
    - unfold recheck. destruct (change_kind b s dp) as [k|] eqn:E; [|now apply change_kind_no_panic in E].
      destruct k; discriminate.
    - discriminate.
  Qed.

  Lemma run_no_panic_l b : lower_total -> forall evs s, run b s evs <> Panic.
  Proof.
    intros Ht.
    induction evs as [|ev evs IH]; intros s; cbn [Model.run]; [discriminate|].
    destruct (step b s ev) eqn:E; [apply IH|]. now apply step_no_panic in E.
  Qed.

  (** the invariant: what is published is the analysis of the text that was checked last *)
  Definition pub_inv (s : fstate D) : Prop := exists t, f_checked D s = Some t /\ f_pub D s = check t.

  Lemma pub_inv_check_file s : pub_inv (check_file s).
  Proof. exists (f_text D s). split; reflexivity. Qed.

  Lemma pub_inv_open t d0 : pub_inv (open D check full_hir t d0).
  Proof. apply pub_inv_check_file. Qed.

  Lemma pub_inv_step b s ev s' : pub_inv s -> step b s ev = Ok s' -> pub_inv s'.
  Proof.
    intros [t [Hc Hp]]. destruct ev as [tr tx | dp |]; cbn [Model.step].
    - destruct tr.
      + destruct (quick_check s) as [s1|] eqn:E; [|discriminate].
        destruct (quick_check_frame _ _ E) as [_ [H1 H2]]. intros [= <-].
        exists t. cbn. rewrite H1, H2. auto.
      + intros [= <-]. exists t. cbn. auto.
    - unfold recheck. destruct (change_kind b s dp) as [k|]; [|discriminate].
      destruct k; intros [= <-]; try apply pub_inv_check_file. exists t; auto.
    - intros [= <-]. apply pub_inv_check_file.
  Qed.

  Lemma pub_inv_run b : forall evs s s', pub_inv s -> run b s evs = Ok s' -> pub_inv s'.
  Proof.
    induction evs as [|ev evs IH]; intros s s' Hi; cbn [Model.run].
    - intros [= <-]. exact Hi.
    - destruct (step b s ev) as [s1|] eqn:E; [|discriminate]. intros H.
      eapply IH; [|exact H]. eapply pub_inv_step; eauto.
  Qed.

  (** a didSave (with the text comparison) or a polling tick leaves the analysis of the current text published *)
  Lemma save_converges s dp s' : pub_inv s -> step true s (ESave dp) = Ok s' ->
    f_text D s' = f_text D s /\ f_pub D s' = check (f_text D s).
  Proof.
    intros [t [Hc Hp]]. cbn [Model.step]. unfold recheck.
    destruct (change_kind true s dp) as [k|] eqn:E; [|discriminate].
    destruct k; intros [= <-]; try (split; reflexivity).
    (* NoChange: the checked text is the current text *)
    split; [reflexivity|].
    unfold Model.change_kind in E. destruct dp; try discriminate.
    rewrite Hc in E. cbn [andb] in E.
    destruct (text_eqb t (f_text D s)) eqn:T; cbn [negb] in E; [|discriminate].
    apply text_eqb_eq in T. now rewrite Hp, T.
  Qed.

  (** the text after a history *)
  Definition final_text (t0 : text) (evs : list (event)) : text :=
    fold_left (fun t ev => match ev with EChange _ t' => t' | _ => t end) evs t0.

  Lemma step_text b s ev s' : step b s ev = Ok s' ->
    f_text D s' = match ev with EChange _ t' => t' | _ => f_text D s end.
  Proof.
    destruct ev as [tr tx | dp |]; cbn [Model.step].
    - destruct (if tr then quick_check s else Ok s); [|discriminate]. now intros [= <-].
    - unfold recheck. destruct (change_kind b s dp) as [k|]; [|discriminate]. destruct k; now intros [= <-].
    - now intros [= <-].
  Qed.

  Lemma run_text b : forall evs s s', run b s evs = Ok s' -> f_text D s' = final_text (f_text D s) evs.
  Proof.
    induction evs as [|ev evs IH]; intros s s'; cbn [Model.run].
    - now intros [= <-].
    - destruct (step b s ev) as [s1|] eqn:E; [|discriminate]. intros H.
      rewrite (IH _ _ H). unfold final_text. cbn [fold_left]. now rewrite (step_text _ _ _ _ E).
  Qed.

  Lemma run_app b : forall e1 e2 s, run b s (e1 ++ e2) =
    match run b s e1 with Ok s1 => run b s1 e2 | Panic => Panic end.
  Proof.
    induction e1 as [|ev e1 IH]; intros e2 s; cbn [app Model.run]; [reflexivity|].
    destruct (step b s ev); [apply IH|reflexivity].
  Qed.

  (** the cached AST is always the AST of a text the server has seen (never a mixture) *)
  Definition texts_of (evs : list event) : list text :=
    flat_map (fun ev => match ev with EChange _ t => [t] | _ => [] end) evs.

  Definition cache_inv (s : fstate D) (seen : list text) : Prop :=
    In (f_text D s) seen /\
    exists e t, f_mod D s = Some e /\ e_ast e = Some (ast_of t) /\ In t seen.

  Lemma cache_inv_mono s seen more : cache_inv s seen -> cache_inv s (seen ++ more).
  Proof.
    intros [H1 [e [t [H2 [H3 H4]]]]]. split; [apply in_or_app; auto|].
    exists e, t. repeat split; auto. apply in_or_app; auto.
  Qed.

  Lemma cache_inv_check_file s seen : In (f_text D s) seen -> cache_inv (check_file s) seen.
  Proof.
    intros H. split; [exact H|]. eexists. exists (f_text D s). cbn. repeat split; auto.
  Qed.

  Lemma cache_inv_step b s ev s' seen : cache_inv s seen -> step b s ev = Ok s' ->
    cache_inv s' (seen ++ texts_of [ev]).
  Proof.
    intros Hi. destruct ev as [tr tx | dp |]; cbn [Model.step texts_of flat_map app].
    - destruct (if tr then quick_check s else Ok s) as [s1|] eqn:E; [|discriminate]. intros [= <-].
      assert (H1 : cache_inv s1 seen).
      { destruct tr; [|injection E as <-; exact Hi].
        destruct Hi as [Ht [e [t [Hm [Ha Hs]]]]].
        destruct (quick_check_frame _ _ E) as [F1 _].
        split; [now rewrite F1|].
        destruct (quick_check_ast _ _ E) as [Q|[e' [Q [Q2|[e0 [Q3 Q4]]]]]].
        - exists e, t. rewrite Q. auto.
        - exists e', (f_text D s). auto.
        - exists e', t. rewrite Hm in Q3. injection Q3 as <-. rewrite Q4. auto. }
      destruct H1 as [_ [e [t [Hm [Ha Hs]]]]]. split; cbn [f_text f_mod].
      + apply in_or_app. right. now left.
      + exists e, t. repeat split; auto. apply in_or_app. auto.
    - rewrite app_nil_r. unfold recheck. destruct (change_kind b s dp) as [k|]; [|discriminate].
      destruct Hi as [Ht Hc].
      destruct k; intros [= <-]; try (now apply cache_inv_check_file). split; auto.
    - rewrite app_nil_r. intros [= <-]. destruct Hi as [Ht _]. now apply cache_inv_check_file.
  Qed.

  Lemma texts_of_cons ev evs : texts_of (ev :: evs) = texts_of [ev] ++ texts_of evs.
  Proof. unfold texts_of. cbn [flat_map]. now rewrite app_nil_r. Qed.

  Lemma cache_inv_run b : forall evs s s' seen, cache_inv s seen -> run b s evs = Ok s' ->
    cache_inv s' (seen ++ texts_of evs).
  Proof.
    induction evs as [|ev evs IH]; intros s s' seen Hi; cbn [Model.run].
    - intros [= <-]. cbn. now rewrite app_nil_r.
    - destruct (step b s ev) as [s1|] eqn:E; [|discriminate]. intros H.
      rewrite texts_of_cons, app_assoc. eapply IH; [|exact H]. eapply cache_inv_step; eauto.
  Qed.

  Lemma cache_exact_l b t0 d0 evs s : run b (open D check full_hir t0 d0) evs = Ok s ->
    exists e t, f_mod D s = Some e /\ e_ast e = Some (ast_of t) /\ In t (t0 :: texts_of evs).
  Proof.
    intros H.
    assert (Hi : cache_inv (open D check full_hir t0 d0) [t0]).
    { apply cache_inv_check_file. now left. }
    destruct (cache_inv_run _ _ _ _ _ Hi H) as [_ Hx]. exact Hx.
  Qed.

  Definition is_recheck (ev : event) : Prop := match ev with ESave _ | EPoll => True | EChange _ _ => False end.

  Lemma convergence_l t0 d0 evs last :
    lower_total ->
    is_recheck last ->
    exists s, run true (open D check full_hir t0 d0) (evs ++ [last]) = Ok s /\
              f_text D s = final_text t0 evs /\
              f_pub D s = check (final_text t0 evs) /\
              converged D check full_hir s.
  Proof.
    intros Hlt Hr. rewrite run_app.
    destruct (run true (open D check full_hir t0 d0) evs) as [s1|] eqn:E1;
      [|now apply run_no_panic_l in E1].
    pose proof (pub_inv_run _ _ _ _ (pub_inv_open t0 d0) E1) as Hi.
    pose proof (run_text _ _ _ _ E1) as Ht. cbn [open Model.check_file f_text] in Ht.
    cbn [Model.run].
    destruct (step true s1 last) as [s|] eqn:E2; [|now apply step_no_panic in E2].
    exists s. split; [reflexivity|].
    assert (H : f_text D s = f_text D s1 /\ f_pub D s = check (f_text D s1)).
    { destruct last as [tr tx | dp |]; [destruct Hr| |].
      - eapply save_converges; eauto.
      - cbn [Model.step] in E2. injection E2 as <-. split; reflexivity. }
    destruct H as [H1 H2]. rewrite H1, H2, Ht.
    repeat split. intros d1. unfold fresh_pub. cbn. now rewrite H2, H1.
  Qed.
End Align.

(** * without the text comparison (the code before the repair) the property fails *)
Definition w_lower (c : chunk) : lowered := LSome c.
Definition w_name (c : Z) : Z := 0.
Definition w_failed (h : hchunk) : bool := false.
Definition w_check (t : text) : text := t.          (* diagnostics that show every chunk with its position *)
Definition w_full_hir (t : text) : option hir := Some (ast_of t).
Definition w_run (textcmp : bool) (t0 : text) (evs : list event) : res (fstate text) :=
  run w_lower w_name w_name w_failed text w_check w_full_hir textcmp (open text w_check w_full_hir t0 []) evs.

(** W1: a blank line is inserted above the only chunk (its layout changes, the AST does not), then didSave *)
Definition w1_t0 : text := [(1, 0)].
Definition w1_evs : list event := [EChange true [(1, 1)]; ESave DepsSelfOnly].
(** W2: chunk 2 is appended; a second change at column 0 (a blank line above chunk 2) makes quick_check_file
    absorb chunk 2 into the cached AST without publishing; then didSave *)
Definition w2_t0 : text := [(1, 0)].
Definition w2_evs : list event :=
  [EChange true [(1, 0); (2, 1)]; EChange true [(1, 0); (2, 2)]; ESave DepsSelfOnly].

Lemma old_code_refuted_l :
  (exists s, w_run false w1_t0 w1_evs = Ok s /\ f_pub text s <> w_check (f_text text s)) /\
  (exists s, w_run false w2_t0 w2_evs = Ok s /\ f_pub text s <> w_check (f_text text s)).
Proof.
  split; eexists; (split; [vm_compute; reflexivity|]); vm_compute; discriminate.
Qed.

(** a lowering that panics on one chunk makes the didChange handler panic *)
Definition wp_lower (c : chunk) : lowered := if c =? 2 then LPanic else LSome c.

Lemma lower_panic_refuted_l :
  run wp_lower w_name w_name w_failed text w_check w_full_hir true (open text w_check w_full_hir w2_t0 [])
      [EChange true [(1, 0); (2, 1)]; EChange true [(1, 0); (2, 2)]] = Panic.
Proof. vm_compute. reflexivity. Qed.

(** * the judge *)
Lemma zs_eqb_eq : forall a b, zs_eqb a b = true <-> a = b.
Proof.
  induction a as [|x a IH]; intros [|y b]; cbn [zs_eqb]; split; intros H; try discriminate; try reflexivity.
  - apply andb_prop in H. destruct H as [H1 H2]. apply Z.eqb_eq in H1. apply IH in H2. now subst.
  - injection H as -> ->. rewrite Z.eqb_refl. cbn. now apply IH.
Qed.

Definition diag_eq_dec : forall a b : diag, {a = b} + {a <> b} := list_eq_dec Z.eq_dec.

Lemma count_count_occ d l : count d l = count_occ diag_eq_dec l d.
Proof.
  induction l as [|x l IH]; cbn [count count_occ]; [reflexivity|].
  destruct (diag_eq_dec x d) as [->|N].
  - rewrite (proj2 (zs_eqb_eq d d) eq_refl). now rewrite IH.
  - destruct (zs_eqb d x) eqn:E; [apply zs_eqb_eq in E; congruence|]. now rewrite IH.
Qed.

Lemma judge_spec_l a b : judge a b = true <-> Permutation a b.
Proof.
  unfold judge. rewrite forallb_forall. split.
  - intros H. apply (Permutation_count_occ diag_eq_dec). intros d.
    rewrite <- !count_count_occ.
    destruct (in_dec diag_eq_dec d (a ++ b)) as [I|N].
    + apply Nat.eqb_eq. now apply H.
    + assert (Na : ~ In d a) by (intros X; apply N, in_or_app; auto).
      assert (Nb : ~ In d b) by (intros X; apply N, in_or_app; auto).
      rewrite !count_count_occ.
      rewrite (proj1 (count_occ_not_In diag_eq_dec a d) Na).
      now rewrite (proj1 (count_occ_not_In diag_eq_dec b d) Nb).
  - intros P d _. apply Nat.eqb_eq. rewrite !count_count_occ.
    now apply (Permutation_count_occ diag_eq_dec).
Qed.
