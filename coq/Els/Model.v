(** C29 — model of the language server's incremental analysis of one open document.

    Transcribed from /repo/crates/els:
      diff.rs         ASTDiff::diff, ASTDiff::update, HIRDiff::new, HIRDiff::update, HIRDiff::fix
      diagnostics.rs  change_kind, recheck_file, check_file, quick_check_file, start_auto_diagnostics (one tick)
      server.rs       handle_notification: textDocument/didOpen, didChange, didSave

    Abstractions (what is NOT modelled is sampled by checks/c29.py on the real server):
      - a top-level chunk is an opaque comparable item [chunk = Z]: two chunks are the same number exactly when
        [ast::Expr::eq] holds (Token equality ignores positions), so a text is a list of (chunk, layout) pairs and
        the AST of a text forgets the layout;
      - the full analysis of a text is one unknown function [check : text -> D] (D = the diagnostics published for
        the document); lowering one chunk in the context a previous analysis left behind is an unknown function
        [lower] (which may fail or panic); every theorem holds for all such functions;
      - the answer of the module graph ([dependencies_of]) and the state of the other modules is an oracle carried
        by the didSave event ([deps]); the theorems hold for every answer;
      - texts parse ([build_ast] succeeds); a syntax error makes [build_ast] return a partial AST, not modelled.
    Indices are [nat] (they are positions in a list of top-level chunks). *)
From Coq Require Import ZArith List Bool Arith.
Import ListNotations.
Open Scope Z_scope.

Inductive res (A : Type) : Type :=
| Ok (a : A)
| Panic.
Arguments Ok {A} a.
Arguments Panic {A}.

Definition chunk := Z.
Definition ast := list chunk.

(** * diff.rs *)

(** enum ASTDiff *)
Inductive astdiff : Type :=
| Deletion (idx : nat)
| Addition (idx : nat) (c : chunk)
| Modification (idx : nat) (c : chunk)
| Nop.

(** [a.iter().zip(b.iter()).position(|(x, y)| x != y)] *)
Fixpoint first_diff (a b : list chunk) : option nat :=
  match a, b with
  | x :: a', y :: b' => if x =? y then option_map S (first_diff a' b') else Some 0%nat
  | _, _ => None
  end.

(** [len - 1] on usize: underflow panics in a debug build *)
Definition pred_usize (n : nat) : res nat :=
  match n with O => Panic | S k => Ok k end.

(** ASTDiff::diff(old, new) *)
Definition diff (old new : ast) : res astdiff :=
  match Nat.compare (length old) (length new) with
  | Lt =>
      (* Less: idx = position of the first differing pair, else new.len() - 1; new.get(idx).unwrap() *)
      match (match first_diff new old with Some i => Ok i | None => pred_usize (length new) end) with
      | Panic => Panic
      | Ok idx => match nth_error new idx with
                  | Some c => Ok (Addition idx c)
                  | None => Panic
                  end
      end
  | Gt =>
      match (match first_diff old new with Some i => Ok i | None => pred_usize (length old) end) with
      | Panic => Panic
      | Ok idx => Ok (Deletion idx)
      end
  | Eq =>
      match first_diff old new with
      | Some idx => match nth_error new idx with
                    | Some c => Ok (Modification idx c)
                    | None => Panic
                    end
      | None => Ok Nop
      end
  end.

Definition is_nop (d : astdiff) : bool := match d with Nop => true | _ => false end.

(** Vec::insert(idx, x) for idx <= len, Vec::remove(idx) and [*get_mut(idx) = x] for idx < len *)
Definition insert_at {A} (i : nat) (x : A) (l : list A) : list A := firstn i l ++ x :: skipn i l.
Definition remove_at {A} (i : nat) (l : list A) : list A := firstn i l ++ skipn (S i) l.
Definition replace_at {A} (i : nat) (x : A) (l : list A) : list A := firstn i l ++ x :: skipn (S i) l.

(** the three guarded updates shared by ASTDiff::update and HIRDiff::update *)
Definition upd_add {A} (i : nat) (x : A) (l : list A) : list A :=
  if Nat.ltb (length l) i then l ++ [x] else insert_at i x l.
Definition upd_del {A} (i : nat) (l : list A) : list A :=
  match nth_error l i with Some _ => remove_at i l | None => l end.
Definition upd_mod {A} (i : nat) (x : A) (l : list A) : list A :=
  match nth_error l i with Some _ => replace_at i x l | None => l end.

(** ASTDiff::update(self, old) *)
Definition update (d : astdiff) (old : ast) : ast :=
  match d with
  | Addition idx c => upd_add idx c old
  | Deletion idx => upd_del idx old
  | Modification idx c => upd_mod idx c old
  | Nop => old
  end.

Fixpoint ast_eqb (a b : ast) : bool :=
  match a, b with
  | [], [] => true
  | x :: a', y :: b' => (x =? y) && ast_eqb a' b'
  | _, _ => false
  end.

Definition hchunk := Z.
Definition hir := list hchunk.

(** enum HIRDiff *)
Inductive hirdiff : Type :=
| HDeletion (idx : nat)
| HAddition (idx : nat) (h : hchunk)
| HModification (idx : nat) (h : hchunk)
| HNop.

(** the outcome of [lowerer.lower_and_resolve_chunk(expr, None)]: Ok(e) and Err((Some(e), _)) give [LSome e],
    Err((None, _)) gives [LNone]; the checker can also panic on a chunk (observed: `... has qvar` while lowering a
    chunk in a context that did not fit it, corpus/C29/w3) *)
Inductive lowered : Type :=
| LSome (h : hchunk)
| LNone
| LPanic.

Section Lowering.
  (** lowering one chunk in the context the last analysis left ([lowerer.unregister(name)] before a Modification only
      acts on that context) *)
  Variable lower : chunk -> lowered.
  (** [Expr::name()] of an AST / HIR chunk (the variant: "Def", "Call", ...) and [ref_t().contains_failure()] *)
  Variable cname : chunk -> Z.
  Variable hname : hchunk -> Z.
  Variable hfailed : hchunk -> bool.

  (** HIRDiff::new(diff, lowerer) *)
  Definition hirdiff_new (d : astdiff) : res (option hirdiff) :=
    match d with
    | Deletion idx => Ok (Some (HDeletion idx))
    | Addition idx c =>
        match lower c with LSome h => Ok (Some (HAddition idx h)) | LNone => Ok None | LPanic => Panic end
    | Modification idx c =>
        match lower c with LSome h => Ok (Some (HModification idx h)) | LNone => Ok None | LPanic => Panic end
    | Nop => Ok (Some HNop)
    end.

  (** HIRDiff::update(self, old) *)
  Definition hupdate (d : hirdiff) (old : hir) : hir :=
    match d with
    | HAddition idx h => upd_add idx h old
    | HDeletion idx => upd_del idx old
    | HModification idx h => upd_mod idx h old
    | HNop => old
    end.

  (** HIRDiff::fix(ast, hir, lowerer): chunks whose type contains a failure are lowered again *)
  Fixpoint hfix (a : ast) (h : hir) : res hir :=
    match a, h with
    | c :: a', x :: h' =>
        match (if negb (cname c =? hname x) then Ok x
               else if hfailed x then match lower c with LSome x' => Ok x' | LNone => Ok x | LPanic => Panic end
               else Ok x) with
        | Panic => Panic
        | Ok x1 => match hfix a' h' with Panic => Panic | Ok r => Ok (x1 :: r) end
        end
    | _, _ => Ok h
    end.

  (** * the server's state for one document *)

  (** a document: its top-level chunks, each with its layout (where it is: position-insensitive equality of the
      ASTs ignores the second component) *)
  Definition text := list (chunk * Z).
  Definition ast_of (t : text) : ast := map fst t.

  Definition item_eqb (a b : chunk * Z) : bool := (fst a =? fst b) && (snd a =? snd b).
  Fixpoint text_eqb (a b : text) : bool :=
    match a, b with
    | [], [] => true
    | x :: a', y :: b' => item_eqb x y && text_eqb a' b'
    | _, _ => false
    end.

  (** ModuleEntry (the fields the incremental path touches) *)
  Record entry : Type := { e_ast : option ast; e_hir : option hir }.

  Variable D : Type.
  (** PackageBuilder::build + make_uri_and_diags restricted to the document: the full analysis *)
  Variable check : text -> D.
  (** the HIR a full analysis leaves in the module cache (None: artifact.object is None) *)
  Variable full_hir : text -> option hir.

  Record fstate : Type := {
    f_text : text;              (* file_cache: the server's copy of the document *)
    f_mod : option entry;       (* shared.mod_cache entry of the document *)
    f_checked : option text;    (* checked_code: the text of the last check_file *)
    f_pub : D                   (* the last textDocument/publishDiagnostics for the document *)
  }.

  (** check_file(uri, code): full analysis of the current text, publish, register the module *)
  Definition check_file (s : fstate) : fstate :=
    {| f_text := f_text s;
       f_mod := Some {| e_ast := Some (ast_of (f_text s)); e_hir := full_hir (f_text s) |};
       f_checked := Some (f_text s);
       f_pub := check (f_text s) |}.

  (** didOpen: file_cache.update; check_file *)
  Definition open (t : text) (d0 : D) : fstate :=
    check_file {| f_text := t; f_mod := None; f_checked := None; f_pub := d0 |}.

  (** quick_check_file(uri): patches the cached AST and HIR, publishes nothing *)
  Definition quick_check (s : fstate) : res fstate :=
    match f_mod s with
    | None => Ok s                                     (* get_ast: None: "AST not found" *)
    | Some e =>
      match e_ast e with
      | None => Ok s
      | Some old =>
        let new := ast_of (f_text s) in
        match diff old new with
        | Panic => Panic
        | Ok d =>
          if is_nop d then Ok s
          else if negb (ast_eqb (update d old) new) then Ok s   (* more than one chunk changed: caches left alone *)
          else
            (* steal_lowerer succeeds: the entry exists *)
            match hirdiff_new d with
            | Panic => Panic
            | Ok ohd =>
              let '(a1, h1) :=
                match ohd, e_hir e with
                | Some hd, Some h => (Some (update d old), Some (hupdate hd h))
                | _, _ => (e_ast e, e_hir e)
                end in
              match (match h1 with Some h => match hfix new h with Panic => Panic | Ok h' => Ok (Some h') end
                                 | None => Ok None end) with
              | Panic => Panic
              | Ok h2 =>
                Ok {| f_text := f_text s; f_mod := Some {| e_ast := a1; e_hir := h2 |};
                      f_checked := f_checked s; f_pub := f_pub s |}
              end
            end
        end
      end
    end.

  (** what [dependencies_of(uri)] and the other modules answer at a didSave *)
  Inductive deps : Type :=
  | DepsEmpty          (* the document is not in the module graph: ChangeKind::New *)
  | DepsSelfOnly       (* the document, and dependencies whose cached AST equals their source *)
  | DepsOtherChanged.  (* some dependency has no cached AST or a changed one: Invalid / Valid *)

  Inductive change_kind_t : Type := CkNew | CkNoChange | CkValid | CkInvalid.

  (** change_kind(uri).  [textcmp = true] is the code as it is now; [textcmp = false] is the code before the
      repair 76b263bd "fix: didSave skipped the re-check ..." (the NoChange decision looked at the cached AST only) *)
  Definition change_kind (textcmp : bool) (s : fstate) (dp : deps) : res change_kind_t :=
    match dp with
    | DepsEmpty => Ok CkNew
    | DepsOtherChanged => Ok CkValid
    | DepsSelfOnly =>
      if textcmp && match f_checked s with Some c => negb (text_eqb c (f_text s)) | None => false end
      then Ok CkValid
      else
        match f_mod s with
        | None => Ok CkInvalid
        | Some e =>
          match e_ast e with
          | None => Ok CkInvalid
          | Some old =>
            match diff old (ast_of (f_text s)) with
            | Panic => Panic
            | Ok d => if is_nop d then Ok CkNoChange else Ok CkValid
            end
          end
        end
    end.

  (** recheck_file(uri, code) *)
  Definition recheck (textcmp : bool) (s : fstate) (dp : deps) : res fstate :=
    match change_kind textcmp s dp with
    | Panic => Panic
    | Ok CkNoChange => Ok s
    | Ok _ => Ok (check_file s)
    end.

  Inductive event : Type :=
  | EChange (trigger : bool) (t : text)   (* didChange; trigger: the first content change starts at column 0 or
                                             is a completion trigger character *)
  | ESave (dp : deps)                     (* didSave *)
  | EPoll.                                (* one tick of start_auto_diagnostics that sees a new version *)

  Definition step (textcmp : bool) (s : fstate) (ev : event) : res fstate :=
    match ev with
    | EChange trigger t =>
        (* quick_check_file runs BEFORE file_cache.incremental_update: it sees the previous text *)
        match (if trigger then quick_check s else Ok s) with
        | Panic => Panic
        | Ok s1 => Ok {| f_text := t; f_mod := f_mod s1; f_checked := f_checked s1; f_pub := f_pub s1 |}
        end
    | ESave dp => recheck textcmp s dp
    | EPoll => Ok (check_file s)
    end.

  Fixpoint run (textcmp : bool) (s : fstate) (evs : list event) : res fstate :=
    match evs with
    | [] => Ok s
    | ev :: r => match step textcmp s ev with Panic => Panic | Ok s1 => run textcmp s1 r end
    end.

  (** the same, recording after every event whether diagnostics were published by it (observable) and the state *)
  Definition publishes (textcmp : bool) (s : fstate) (ev : event) : bool :=
    match ev with
    | EChange _ _ => false
    | ESave dp => match change_kind textcmp s dp with Ok CkNoChange => false | _ => true end
    | EPoll => true
    end.
End Lowering.
