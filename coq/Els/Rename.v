(** C30 — a small core of Erg with lexical scoping, binder resolution and renaming.

    The core has what the property's quantifier names: definitions in nested scopes (shadowing), functions with one
    or two parameters of which the second may have a default value (an expression of the enclosing scope, in which the function's own name is
    already bound, as in erg), nested
    functions that capture outer names (closures), string literals (which may contain the text of any identifier and
    are never an occurrence), calls, addition, print.  Every identifier occurrence (binder or use) carries a
    position [pos]; the pretty-printer of checks/c30.py maps positions to source ranges.

    [occ b env t] is the model of what the language server's rename must edit for the binder at position [b]:
    the binder and every use that resolves to it (crates/els/rename.rs: [vi.def_loc] and the referrers the checker
    recorded in [shared.index] for that definition, crates/erg_compiler/module/index.rs). *)
From Coq Require Import ZArith List Bool Arith.
Import ListNotations.
Open Scope Z_scope.

Definition pos := Z.
Definition name := Z.

Inductive expr : Type :=
| Var (p : pos) (x : name)            (* a use *)
| Lit (n : Z)
| Str (s : list Z)                    (* "..." *)
| Add (a b : expr)
| Call1 (f a : expr)                  (* f(a) *)
| Call2 (f a b : expr).               (* f(a, b) *)

(** a block: definitions in order, then the value *)
Inductive block : Type :=
| Ret (e : expr)
| Def (p : pos) (x : name) (e : expr) (k : block)               (* x = e *)
| Fun (p : pos) (f : name) (p1 : pos) (x1 : name)               (* f(x1) = body   /  f(x1, x2 := d) = body *)
      (d : option (pos * name * expr)) (body : block) (k : block)
| Print (e : expr) (k : block).                                  (* print! e *)

(** scopes: innermost first; a scope entry is (name, position of its binder) *)
Definition env := list (name * pos).

Fixpoint resolve (en : env) (x : name) : option pos :=
  match en with
  | [] => None
  | (n, p) :: r => if n =? x then Some p else resolve r x
  end.

(** * the occurrences of binder [b]: its position and every use that resolves to it *)
Fixpoint occ_expr (b : pos) (en : env) (e : expr) : list pos :=
  match e with
  | Var p x => match resolve en x with Some q => if q =? b then [p] else [] | None => [] end
  | Lit _ | Str _ => []
  | Add a c => occ_expr b en a ++ occ_expr b en c
  | Call1 f a => occ_expr b en f ++ occ_expr b en a
  | Call2 f a c => occ_expr b en f ++ occ_expr b en a ++ occ_expr b en c
  end.

Definition self (b p : pos) : list pos := if p =? b then [p] else [].

Fixpoint occ (b : pos) (en : env) (t : block) : list pos :=
  match t with
  | Ret e => occ_expr b en e
  | Def p x e k => self b p ++ occ_expr b en e ++ occ b ((x, p) :: en) k
  | Fun p f p1 x1 d body k =>
      let enf := (f, p) :: en in
      let inner := match d with
                   | None => (x1, p1) :: enf
                   | Some (p2, x2, _) => (x2, p2) :: (x1, p1) :: enf
                   end in
      self b p ++ self b p1 ++
      match d with Some (p2, _, e) => self b p2 ++ occ_expr b enf e | None => [] end ++
      occ b inner body ++ occ b enf k
  | Print e k => occ_expr b en e ++ occ b en k
  end.

(** * renaming by positions: what applying the text edits does *)
Definition ren (S : pos -> bool) (y : name) (p : pos) (x : name) : name := if S p then y else x.

Fixpoint rename_expr (S : pos -> bool) (y : name) (e : expr) : expr :=
  match e with
  | Var p x => Var p (ren S y p x)
  | Lit n => Lit n
  | Str s => Str s
  | Add a c => Add (rename_expr S y a) (rename_expr S y c)
  | Call1 f a => Call1 (rename_expr S y f) (rename_expr S y a)
  | Call2 f a c => Call2 (rename_expr S y f) (rename_expr S y a) (rename_expr S y c)
  end.

Fixpoint rename (S : pos -> bool) (y : name) (t : block) : block :=
  match t with
  | Ret e => Ret (rename_expr S y e)
  | Def p x e k => Def p (ren S y p x) (rename_expr S y e) (rename S y k)
  | Fun p f p1 x1 d body k =>
      Fun p (ren S y p f) p1 (ren S y p1 x1)
          (match d with Some (p2, x2, e) => Some (p2, ren S y p2 x2, rename_expr S y e) | None => None end)
          (rename S y body) (rename S y k)
  | Print e k => Print (rename_expr S y e) (rename S y k)
  end.

Definition mem (l : list pos) (p : pos) : bool := existsb (Z.eqb p) l.

(** * the binding structure: the program with every name erased and every use replaced by what it resolves to *)
Inductive nexpr : Type :=
| NBound (p : pos) (binder : pos)
| NFree (p : pos) (x : name)
| NLit (n : Z)
| NStr (s : list Z)
| NAdd (a b : nexpr)
| NCall1 (f a : nexpr)
| NCall2 (f a b : nexpr).

Inductive nblock : Type :=
| NRet (e : nexpr)
| NDef (p : pos) (e : nexpr) (k : nblock)
| NFun (p p1 : pos) (d : option (pos * nexpr)) (body k : nblock)
| NPrint (e : nexpr) (k : nblock).

Fixpoint erase_expr (en : env) (e : expr) : nexpr :=
  match e with
  | Var p x => match resolve en x with Some q => NBound p q | None => NFree p x end
  | Lit n => NLit n
  | Str s => NStr s
  | Add a c => NAdd (erase_expr en a) (erase_expr en c)
  | Call1 f a => NCall1 (erase_expr en f) (erase_expr en a)
  | Call2 f a c => NCall2 (erase_expr en f) (erase_expr en a) (erase_expr en c)
  end.

Fixpoint erase (en : env) (t : block) : nblock :=
  match t with
  | Ret e => NRet (erase_expr en e)
  | Def p x e k => NDef p (erase_expr en e) (erase ((x, p) :: en) k)
  | Fun p f p1 x1 d body k =>
      let enf := (f, p) :: en in
      let inner := match d with
                   | None => (x1, p1) :: enf
                   | Some (p2, x2, _) => (x2, p2) :: (x1, p1) :: enf
                   end in
      NFun p p1 (match d with Some (p2, _, e) => Some (p2, erase_expr enf e) | None => None end)
           (erase inner body) (erase enf k)
  | Print e k => NPrint (erase_expr en e) (erase en k)
  end.

(** the uses of a program with the name written there and what it resolves to *)
Fixpoint uses_expr (en : env) (e : expr) : list (pos * name * option pos) :=
  match e with
  | Var p x => [(p, x, resolve en x)]
  | Lit _ | Str _ => []
  | Add a c => uses_expr en a ++ uses_expr en c
  | Call1 f a => uses_expr en f ++ uses_expr en a
  | Call2 f a c => uses_expr en f ++ uses_expr en a ++ uses_expr en c
  end.

Fixpoint uses (en : env) (t : block) : list (pos * name * option pos) :=
  match t with
  | Ret e => uses_expr en e
  | Def p x e k => uses_expr en e ++ uses ((x, p) :: en) k
  | Fun p f p1 x1 d body k =>
      let enf := (f, p) :: en in
      let inner := match d with
                   | None => (x1, p1) :: enf
                   | Some (p2, x2, _) => (x2, p2) :: (x1, p1) :: enf
                   end in
      match d with Some (_, _, e) => uses_expr enf e | None => [] end ++ uses inner body ++ uses enf k
  | Print e k => uses_expr en e ++ uses en k
  end.

(** every name written in the program (binders and uses) and every position *)
Fixpoint names_expr (e : expr) : list name :=
  match e with
  | Var _ x => [x]
  | Lit _ | Str _ => []
  | Add a c => names_expr a ++ names_expr c
  | Call1 f a => names_expr f ++ names_expr a
  | Call2 f a c => names_expr f ++ names_expr a ++ names_expr c
  end.

Fixpoint names (t : block) : list name :=
  match t with
  | Ret e => names_expr e
  | Def _ x e k => x :: names_expr e ++ names k
  | Fun _ f _ x1 d body k =>
      f :: x1 :: match d with Some (_, x2, e) => x2 :: names_expr e | None => [] end ++ names body ++ names k
  | Print e k => names_expr e ++ names k
  end.

Fixpoint poss_expr (e : expr) : list pos :=
  match e with
  | Var p _ => [p]
  | Lit _ | Str _ => []
  | Add a c => poss_expr a ++ poss_expr c
  | Call1 f a => poss_expr f ++ poss_expr a
  | Call2 f a c => poss_expr f ++ poss_expr a ++ poss_expr c
  end.

Fixpoint poss (t : block) : list pos :=
  match t with
  | Ret e => poss_expr e
  | Def p _ e k => p :: poss_expr e ++ poss k
  | Fun p _ p1 _ d body k =>
      p :: p1 :: match d with Some (p2, _, e) => p2 :: poss_expr e | None => [] end ++ poss body ++ poss k
  | Print e k => poss_expr e ++ poss k
  end.

(** binders with their names *)
Fixpoint binders (t : block) : list (pos * name) :=
  match t with
  | Ret _ => []
  | Def p x _ k => (p, x) :: binders k
  | Fun p f p1 x1 d body k =>
      (p, f) :: (p1, x1) :: match d with Some (p2, x2, _) => [(p2, x2)] | None => [] end ++ binders body ++ binders k
  | Print _ k => binders k
  end.

(** the scope after renaming the binder at [b] *)
Definition ren_env (b : pos) (y : name) (en : env) : env :=
  map (fun np => if snd np =? b then (y, snd np) else np) en.

(** the set [S] is right for [b] on this fragment: it contains a binder exactly when it is [b] and a use exactly
    when the use resolves to [b] *)
Fixpoint agrees_expr (S : pos -> bool) (b : pos) (en : env) (e : expr) : bool :=
  match e with
  | Var p x => Bool.eqb (S p) (match resolve en x with Some q => q =? b | None => false end)
  | Lit _ | Str _ => true
  | Add a c => agrees_expr S b en a && agrees_expr S b en c
  | Call1 f a => agrees_expr S b en f && agrees_expr S b en a
  | Call2 f a c => agrees_expr S b en f && agrees_expr S b en a && agrees_expr S b en c
  end.

Fixpoint agrees (S : pos -> bool) (b : pos) (en : env) (t : block) : bool :=
  match t with
  | Ret e => agrees_expr S b en e
  | Def p x e k => Bool.eqb (S p) (p =? b) && agrees_expr S b en e && agrees S b ((x, p) :: en) k
  | Fun p f p1 x1 d body k =>
      let enf := (f, p) :: en in
      let inner := match d with
                   | None => (x1, p1) :: enf
                   | Some (p2, x2, _) => (x2, p2) :: (x1, p1) :: enf
                   end in
      Bool.eqb (S p) (p =? b) && Bool.eqb (S p1) (p1 =? b) &&
      match d with Some (p2, _, e) => Bool.eqb (S p2) (p2 =? b) && agrees_expr S b enf e | None => true end &&
      agrees S b inner body && agrees S b enf k
  | Print e k => agrees_expr S b en e && agrees S b en k
  end.

(** * an evaluator of the core, on the binding structure (names play no role at run time) *)
Inductive value : Type :=
| VInt (z : Z)
| VStr (s : list Z)
| VClo (p1 : pos) (d : option (pos * value)) (body : nblock) (cl : list (pos * value)) (self_p : pos)
| VErr.

Definition store := list (pos * value).

Fixpoint lookup (st : store) (p : pos) : value :=
  match st with
  | [] => VErr
  | (q, v) :: r => if q =? p then v else lookup r p
  end.

Definition vadd (a b : value) : value :=
  match a, b with
  | VInt x, VInt y => VInt (x + y)
  | VStr x, VStr y => VStr (x ++ y)
  | _, _ => VErr
  end.

(** [fuel] bounds the depth of calls; outputs are the printed values in order *)
Fixpoint eval_expr (fuel : nat) (st : store) (e : nexpr) {struct fuel} : list value * value :=
  match fuel with
  | O => ([], VErr)
  | S fuel' =>
    let fix ev (e : nexpr) : list value * value :=
      match e with
      | NBound _ q => ([], lookup st q)
      | NFree _ _ => ([], VErr)
      | NLit n => ([], VInt n)
      | NStr s => ([], VStr s)
      | NAdd a b => let '(o1, v1) := ev a in let '(o2, v2) := ev b in (o1 ++ o2, vadd v1 v2)
      | NCall1 f a =>
          let '(o1, vf) := ev f in let '(o2, va) := ev a in
          match vf with
          | VClo p1 d body cl sp =>
              let st1 := (p1, va) :: (sp, vf) :: cl in
              let st2 := match d with Some (p2, dv) => (p2, dv) :: st1 | None => st1 end in
              let '(o3, r) := eval_block fuel' st2 body in (o1 ++ o2 ++ o3, r)
          | _ => (o1 ++ o2, VErr)
          end
      | NCall2 f a b =>
          let '(o1, vf) := ev f in let '(o2, va) := ev a in let '(o3, vb) := ev b in
          match vf with
          | VClo p1 (Some (p2, _)) body cl sp =>
              let '(o4, r) := eval_block fuel' ((p2, vb) :: (p1, va) :: (sp, vf) :: cl) body in
              (o1 ++ o2 ++ o3 ++ o4, r)
          | _ => (o1 ++ o2 ++ o3, VErr)
          end
      end in ev e
  end
with eval_block (fuel : nat) (st : store) (t : nblock) {struct fuel} : list value * value :=
  match fuel with
  | O => ([], VErr)
  | S fuel' =>
    let fix eb (st : store) (t : nblock) : list value * value :=
      match t with
      | NRet e => eval_expr fuel' st e
      | NDef p e k => let '(o1, v) := eval_expr fuel' st e in let '(o2, r) := eb ((p, v) :: st) k in (o1 ++ o2, r)
      | NFun p p1 d body k =>
          let '(o1, dv) := match d with
                           | Some (p2, e) => let '(o, v) := eval_expr fuel' st e in (o, Some (p2, v))
                           | None => ([], None)
                           end in
          let '(o2, r) := eb ((p, VClo p1 dv body st p) :: st) k in (o1 ++ o2, r)
      | NPrint e k => let '(o1, v) := eval_expr fuel' st e in let '(o2, r) := eb st k in (o1 ++ v :: o2, r)
      end in eb st t
  end.

(** running a program: resolve, then evaluate *)
Definition run_prog (fuel : nat) (t : block) : list value * value := eval_block fuel [] (erase [] t).
