(** * NoCrash.CheckProofs — no abort site of the stack-accounting model is reachable on an HIR that satisfies [hck],
    the lowering of every grammatical fragment program satisfies [hck], hence [compile] never crashes. *)
From Coq Require Import ZArith List Bool Arith Lia.
From ErgV Require Import Common.Sx CoreErg.Syntax NoCrash.Gen NoCrash.Check.
Import ListNotations.
Local Open Scope nat_scope.

(* ------------------------------------------------------------------ induction principle for hexpr *)
Section HInd.
  Variable P : hexpr -> Prop.
  Hypothesis HLit_ : forall w, P (HLit w).
  Hypothesis HName_ : forall w, P (HName w).
  Hypothesis HUnary_ : forall w m a, P a -> P (HUnary w m a).
  Hypothesis HBin_ : forall w k l r, P l -> P r -> P (HBin w k l r).
  Hypothesis HCallLocal_ : forall w f args, Forall (fun a => P (snd a)) args -> P (HCallLocal w f args).
  Hypothesis HCallMethod_ : forall w o args, P o -> Forall (fun a => P (snd a)) args -> P (HCallMethod w o args).
  Hypothesis HCallExpr_ : forall w o args, P o -> Forall (fun a => P (snd a)) args -> P (HCallExpr w o args).
  Hypothesis HList_ : forall w es, Forall P es -> P (HList w es).
  Hypothesis HTuple_ : forall w es, Forall P es -> P (HTuple w es).
  Hypothesis HLambda_ : forall w np vp ds body, Forall P ds -> Forall P body -> P (HLambda w np vp ds body).
  Hypothesis HDefVar_ : forall body, Forall P body -> P (HDefVar body).
  Hypothesis HDefSubr_ : forall vp ds body, Forall P ds -> Forall P body -> P (HDefSubr vp ds body).
  Hypothesis HTypeAsc_ : forall w a, P a -> P (HTypeAsc w a).
  Hypothesis HDummy_ : P HDummy.

  Fixpoint hexpr_ind' (e : hexpr) : P e :=
    let fix go (es : list hexpr) : Forall P es :=
      match es with [] => Forall_nil _ | x :: r => Forall_cons _ (hexpr_ind' x) (go r) end in
    let fix goa (l : list (option Z * hexpr)) : Forall (fun a => P (snd a)) l :=
      match l with [] => Forall_nil _ | x :: r => Forall_cons _ (hexpr_ind' (snd x)) (goa r) end in
    match e with
    | HLit w => HLit_ w
    | HName w => HName_ w
    | HUnary w m a => HUnary_ w m a (hexpr_ind' a)
    | HBin w k l r => HBin_ w k l r (hexpr_ind' l) (hexpr_ind' r)
    | HCallLocal w f args => HCallLocal_ w f args (goa args)
    | HCallMethod w o args => HCallMethod_ w o args (hexpr_ind' o) (goa args)
    | HCallExpr w o args => HCallExpr_ w o args (hexpr_ind' o) (goa args)
    | HList w es => HList_ w es (go es)
    | HTuple w es => HTuple_ w es (go es)
    | HLambda w np vp ds body => HLambda_ w np vp ds body (go ds) (go body)
    | HDefVar body => HDefVar_ body (go body)
    | HDefSubr vp ds body => HDefSubr_ vp ds body (go ds) (go body)
    | HTypeAsc w a => HTypeAsc_ w a (hexpr_ind' a)
    | HDummy => HDummy_
    end.
End HInd.

(* ------------------------------------------------------------------ stack effects *)
(** pushes exactly one value / leaves the depth or pushes one / pushes n / keeps the depth *)
Definition P1 (f : st -> cres st) : Prop := forall s, exists s', f s = COk s' /\ len s' = S (len s).
Definition P01 (f : st -> cres st) : Prop :=
  forall s, exists s', f s = COk s' /\ (len s' = len s \/ len s' = S (len s)).
Definition Pn (n : nat) (f : st -> cres st) : Prop := forall s, exists s', f s = COk s' /\ len s' = n + len s.
Definition Peq (f : st -> cres st) : Prop := forall s, exists s', f s = COk s' /\ len s' = len s.

Lemma P1_P01 : forall f, P1 f -> P01 f.
Proof. intros f H s. destruct (H s) as (s' & E & L). eauto. Qed.
Lemma Peq_P01 : forall f, Peq f -> P01 f.
Proof. intros f H s. destruct (H s) as (s' & E & L). eauto. Qed.

Lemma len_instr : forall s, len (instr s) = len s. Proof. reflexivity. Qed.
Lemma len_inc : forall s, len (inc s) = S (len s). Proof. reflexivity. Qed.
Lemma len_push : forall s, len (push s) = S (len s). Proof. reflexivity. Qed.

Lemma dec_ok : forall s n, len s = S n -> exists s', dec s = COk s' /\ len s' = n.
Proof. intros s n H. unfold dec. rewrite H. eexists; split; reflexivity. Qed.
Lemma dec_n_ok : forall s n m, len s = n + m -> exists s', dec_n n s = COk s' /\ len s' = m.
Proof.
  intros s n m H. unfold dec_n. destruct (len s <? n) eqn:E; [apply Nat.ltb_lt in E; lia|].
  eexists; split; [reflexivity|]. simpl. lia.
Qed.
Lemma pop_top_ok : forall s n, len s = S n -> exists s', pop_top s = COk s' /\ len s' = n /\ pops s' = S (pops s).
Proof.
  intros s n H. unfold pop_top. destruct (dec_ok s n H) as (s' & E & L). rewrite E. simpl.
  eexists; split; [reflexivity|]. simpl. auto.
Qed.
Lemma cancel_len : forall s, len (cancel s) = len s \/ len (cancel s) = S (len s).
Proof. intros s. unfold cancel. destruct (pops s); simpl; auto. Qed.
Lemma check_len_ok : forall site i s, len s = S i -> check_len site i s = COk s.
Proof. intros site i s H. unfold check_len. rewrite H, Nat.eqb_refl. reflexivity. Qed.

Ltac step H :=
  let s' := fresh "t" in let E := fresh "E" in let L := fresh "L" in
  destruct H as (s' & E & L); rewrite E; cbn [cbind].

(** the primitive steps: run [dec]/[dec_n]/[pop_top] on a state whose depth is known *)
Ltac run_dec s n :=
  let s' := fresh "t" in let E := fresh "E" in let L := fresh "L" in
  destruct (dec_ok s n) as (s' & E & L); [cbn [len instr inc push set_len]; lia|]; rewrite E; cbn [cbind].

(* ---- frame ---- *)
Lemma frame_P1 : forall w ex node, (w = true -> ex = true) -> P1 node -> P1 (frame w ex node).
Proof.
  intros w ex node Hw Hn s. unfold frame. destruct w.
  - rewrite (Hw eq_refl). step (Hn (push (push s))). rewrite !len_push in L.
    run_dec (instr t) (S (S (len s))). run_dec t0 (S (len s)).
    rewrite L1, Nat.eqb_refl. eauto.
  - step (Hn s). destruct ex; [rewrite L, Nat.eqb_refl|]; eauto.
Qed.

Lemma frame_chunk : forall node s, frame false false node s = node s.
Proof. intros node s. unfold frame. destruct (node s); reflexivity. Qed.

Lemma frame_P01 : forall node, P01 node -> P01 (frame false false node).
Proof. intros node H s. rewrite frame_chunk. apply H. Qed.

(* ---- leaves, operators ---- *)
Lemma n_load_P1 : P1 n_load.
Proof. intros s. unfold n_load. eexists; split; [reflexivity|apply len_push]. Qed.

Lemma n_unary_P1 : forall m ea, P1 ea -> P1 (n_unary m ea).
Proof.
  intros m ea H s. unfold n_unary. destruct m.
  - step (H (push (push s))). rewrite !len_push in L.
    run_dec (instr t) (S (S (len s))). run_dec t0 (S (len s)).
    rewrite check_len_ok by assumption. eauto.
  - step (H s). rewrite check_len_ok by (rewrite len_instr; assumption). eexists; split; [reflexivity|]. rewrite len_instr. exact L.
Qed.

Lemma n_bin_P1 : forall k el er, P1 el -> P1 er -> P1 (n_bin k el er).
Proof.
  intros k el er Hl Hr s. unfold n_bin. destruct k.
  - step (Hl s). step (Hr t). run_dec (instr t0) (S (len s)). rewrite check_len_ok by assumption. eauto.
  - step (Hl s). step (Hr (instr t)). rewrite len_instr in L0. run_dec t0 (S (len s)). eauto.
  - step (Hl (push (push s))). rewrite !len_push in L. step (Hr t).
    run_dec (instr t0) (S (S (S (len s)))). run_dec t1 (S (S (len s))). run_dec t2 (S (len s)).
    rewrite check_len_ok by assumption. eauto.
Qed.

(* ---- control-flow builtins ---- *)
Lemma n_assert_P1 : forall ec em, P1 ec -> (forall m, em = Some m -> P1 m) -> P1 (n_assert (Some ec) em).
Proof.
  intros ec em Hc Hm s. unfold n_assert. step (Hc s). run_dec (instr t) (len s).
  destruct em as [m|].
  - step (Hm m eq_refl (push t0)). rewrite len_push in L1. run_dec (instr t1) (S (len s)).
    run_dec (instr t2) (len s). rewrite check_len_ok by (rewrite len_push; lia).
    eexists; split; [reflexivity|]. rewrite len_push; lia.
  - cbn [cbind]. run_dec (instr (push t0)) (len s).
    rewrite check_len_ok by (rewrite len_push; lia). eexists; split; [reflexivity|]. rewrite len_push; lia.
Qed.

Lemma n_not_P1 : forall ec, P1 ec -> P1 (n_not (Some ec)).
Proof. intros ec H s. unfold n_not. step (H s). eexists; split; [reflexivity|]. rewrite len_instr; exact L. Qed.

Lemma discard_loop_Peq : forall f args, Forall (fun a : option Z * hexpr => P1 (f (snd a))) args -> Peq (discard_loop f args).
Proof.
  intros f args H. induction H as [|[k x] r Hx Hr IH]; intros s; simpl.
  - eauto.
  - simpl in Hx. step (Hx s). destruct (pop_top_ok t (len s) L) as (t' & E' & L' & _). rewrite E'. cbn [cbind].
    destruct (IH t') as (u & Eu & Lu). rewrite Eu. eexists; split; [reflexivity|]. lia.
Qed.

Lemma n_discard_P1 : forall loop, Peq loop -> P1 (n_discard loop).
Proof. intros loop H s. unfold n_discard. step (H s). eexists; split; [reflexivity|]. rewrite len_push; lia. Qed.

Lemma n_del_P1 : P1 (n_del true).
Proof. intros s. unfold n_del. eexists; split; [reflexivity|]. rewrite len_push, len_instr. reflexivity. Qed.

(* ---- blocks ---- *)
Lemma chunk_loop_same : forall f l, Forall (fun x => P01 (f x)) l ->
  forall init s, len s = init -> exists s', chunk_loop f init l s = COk s' /\ len s' = init.
Proof.
  intros f l H. induction H as [|x r Hx Hr IH]; intros init s Hs; simpl.
  - eauto.
  - destruct (Hx s) as (t & E & [L|L]); rewrite E; cbn [cbind].
    + replace (init <? len t) with false by (symmetry; apply Nat.ltb_ge; lia). cbn [cbind]. apply IH. lia.
    + replace (init <? len t) with true by (symmetry; apply Nat.ltb_lt; lia).
      destruct (pop_top_ok t init) as (t' & E' & L' & _); [lia|]. rewrite E'. cbn [cbind]. apply IH. exact L'.
Qed.

Lemma simple_block_P01 : forall f body, Forall (fun x => P01 (f x)) body ->
  P01 (simple_block (is_nil body) (fun init => chunk_loop f init body)).
Proof.
  intros f body H s. unfold simple_block. destruct body as [|x r]; simpl is_nil; cbv iota.
  - eauto.
  - destruct (chunk_loop_same f (x :: r) H (len s) s eq_refl) as (t & E & L). rewrite E. cbn [cbind].
    eexists; split; [reflexivity|]. destruct (cancel_len t); lia.
Qed.

Lemma control_block_0 : forall f body, Forall (fun x => P01 (f x)) body ->
  P01 (control_block 0 (is_nil body) (fun init => chunk_loop f init body)).
Proof. intros f body H s. unfold control_block. simpl. apply simple_block_P01. exact H. Qed.

Lemma control_block_1 : forall f body, Forall (fun x => P01 (f x)) body ->
  forall s n, len s = S n ->
  exists s', control_block 1 (is_nil body) (fun init => chunk_loop f init body) s = COk s' /\ (len s' = n \/ len s' = S n).
Proof.
  intros f body H s n Hs. unfold control_block. simpl. run_dec (instr s) n.
  destruct (simple_block_P01 f body H t) as (u & E' & L'). rewrite E'. eexists; split; [reflexivity|]. lia.
Qed.

Lemma maybe_pop : forall init b, (len b = init \/ len b = S init) ->
  exists c, (if init <? len b then pop_top b else COk b) = COk c /\ len c = init.
Proof.
  intros init b [L|L].
  - replace (init <? len b) with false by (symmetry; apply Nat.ltb_ge; lia). eauto.
  - replace (init <? len b) with true by (symmetry; apply Nat.ltb_lt; lia).
    destruct (pop_top_ok b init L) as (c & Ec & Lc & _). eauto.
Qed.

Lemma n_for_P1 : forall eit blk, P1 eit ->
  (forall s n, len s = S n -> exists s', blk s = COk s' /\ (len s' = n \/ len s' = S n)) -> P1 (n_for eit blk).
Proof.
  intros eit blk Hi Hb s. unfold n_for. step (Hi s). cbv zeta.
  assert (La : len (inc (instr (instr t))) = S (S (len s))) by (rewrite len_inc, !len_instr; lia).
  destruct (Hb _ _ La) as (b & Eb & Lb). rewrite Eb. cbn [cbind]. rewrite La.
  change (S (S (len s)) - 1) with (S (len s)).
  destruct (maybe_pop (S (len s)) b Lb) as (c & Ec & Lc). rewrite Ec. cbn [cbind].
  rewrite Lc, Nat.eqb_refl.
  run_dec (instr c) (len s). rewrite check_len_ok by (rewrite len_push; lia).
  eexists; split; [reflexivity|]. rewrite len_push; lia.
Qed.

Lemma n_while_P1 : forall econd blk, P1 econd -> P01 blk -> P1 (n_while econd blk).
Proof.
  intros econd blk Hc Hb s. unfold n_while. step (Hc s). run_dec (instr t) (len s).
  destruct (Hb t0) as (c & Ec & Lc). rewrite Ec. cbn [cbind].
  destruct (maybe_pop (len t0) c) as (d & Ed & Ld); [lia|].
  rewrite Ed. cbn [cbind]. step (Hc d). run_dec (instr t1) (len s).
  rewrite check_len_ok by (rewrite len_push; lia). eexists; split; [reflexivity|]. rewrite len_push; lia.
Qed.

Lemma fixup_ok : forall i s, S i <= len s -> exists s', fixup i s = COk s' /\ len s' = S i.
Proof.
  intros i s H. unfold fixup. replace (len s <? S i) with false by (symmetry; apply Nat.ltb_ge; lia).
  eexists; split; reflexivity.
Qed.

Lemma n_if_P1 : forall ec eth eel, P1 ec -> P01 eth -> (forall el, eel = Some el -> P01 el) -> P1 (n_if ec eth eel).
Proof.
  intros ec eth eel Hc Ht He s. unfold n_if. step (Hc s).
  destruct (Ht (instr t)) as (b & Eb & Lb). rewrite Eb. cbn [cbind]. rewrite len_instr in Lb.
  destruct eel as [el|].
  - destruct (He el eq_refl (instr b)) as (c & Ec & Lc). rewrite Ec. cbn [cbind]. rewrite len_instr in Lc.
    apply fixup_ok. lia.
  - apply fixup_ok. rewrite len_push, len_instr. lia.
Qed.

(* ---- calls ---- *)
Lemma seq_args_Pn : forall f args, Forall (fun a : option Z * hexpr => P1 (f (snd a))) args ->
  Pn (List.length args) (seq_args f args).
Proof.
  intros f args H. induction H as [|[k x] r Hx Hr IH]; intros s; simpl.
  - eauto.
  - simpl in Hx. step (Hx s). destruct (IH t) as (u & Eu & Lu). rewrite Eu. eexists; split; [reflexivity|]. lia.
Qed.
Lemma seq_emit_Pn : forall f es, Forall (fun x => P1 (f x)) es -> Pn (List.length es) (seq_emit f es).
Proof.
  intros f es H. induction H as [|x r Hx Hr IH]; intros s; simpl.
  - eauto.
  - step (Hx s). destruct (IH t) as (u & Eu & Lu). rewrite Eu. eexists; split; [reflexivity|]. lia.
Qed.

Lemma finish_call_ok : forall argc s n, len s = S (argc + n) -> exists s', finish_call argc s = COk s' /\ len s' = n.
Proof.
  intros argc s n H. unfold finish_call. run_dec (instr s) (argc + n).
  destruct (dec_n_ok t argc n L) as (u & Eu & Lu). rewrite Eu. eauto.
Qed.

Lemma call_other_P1 : forall eargs argc, Pn argc eargs -> P1 (call_other eargs argc).
Proof.
  intros eargs argc H s. unfold call_other. step (H (push (push s))). rewrite !len_push in L.
  apply finish_call_ok. lia.
Qed.
Lemma n_method_P1 : forall eobj eargs argc, P1 eobj -> Pn argc eargs -> P1 (n_method eobj eargs argc).
Proof.
  intros eobj eargs argc Ho Ha s. unfold n_method. step (Ho s). step (Ha (push t)). rewrite len_push in L0.
  apply finish_call_ok. lia.
Qed.
Lemma n_callexpr_P1 : forall ec eargs argc, P1 ec -> Pn argc eargs -> P1 (n_callexpr ec eargs argc).
Proof.
  intros ec eargs argc Ho Ha s. unfold n_callexpr. step (Ho (push s)). rewrite len_push in L. step (Ha t).
  apply finish_call_ok. lia.
Qed.

Lemma checked_P1 : forall site (f : st -> cres st), P1 f -> P1 (fun s1 => cbind (f s1) (check_len site (len s1))).
Proof. intros site f H s. step (H s). rewrite check_len_ok by assumption. eauto. Qed.

(* ---- collections, functions ---- *)
Lemma n_list_P1 : forall eelems n, Pn n eelems -> P1 (n_list eelems n).
Proof.
  intros eelems n H s. unfold n_list. step (H (push (push s))). rewrite !len_push in L.
  destruct n as [|k].
  - cbv iota. cbn [cbind]. run_dec (instr (inc (instr t))) (S (S (len s))). run_dec t0 (S (len s)).
    rewrite check_len_ok by assumption. eauto.
  - destruct (dec_n_ok (instr t) k (S (S (S (len s))))) as (b & Eb & Lb); [rewrite len_instr; lia|]. rewrite Eb. cbn [cbind].
    run_dec (instr b) (S (S (len s))). run_dec t0 (S (len s)). rewrite check_len_ok by assumption. eauto.
Qed.
Lemma n_tuple_P1 : forall eelems n, Pn n eelems -> P1 (n_tuple eelems n).
Proof.
  intros eelems n H s. unfold n_tuple. step (H s). destruct n as [|k].
  - cbv iota. cbn [cbind]. rewrite check_len_ok by (rewrite len_inc, len_instr; lia).
    eexists; split; [reflexivity|]. rewrite len_inc, len_instr; lia.
  - destruct (dec_n_ok (instr t) k (S (len s))) as (b & Eb & Lb); [rewrite len_instr; lia|]. rewrite Eb. cbn [cbind].
    rewrite check_len_ok by assumption. eauto.
Qed.

Lemma params_ok : forall varp n edefs, Pn n edefs ->
  forall s, exists s', params varp n edefs s = COk s' /\ len s' = (if n =? 0 then 0 else 1) + len s.
Proof.
  intros varp n edefs H s. unfold params. destruct n as [|k]; [eauto|]. step (H s). simpl Nat.eqb. cbv iota.
  destruct varp.
  - run_dec (push t) (S k + len s).
    destruct (dec_n_ok (instr t0) k (S (len s))) as (b & Eb & Lb); [rewrite len_instr; lia|]. rewrite Eb. eauto.
  - destruct (dec_n_ok (instr t) k (S (len s))) as (b & Eb & Lb); [rewrite len_instr; lia|]. rewrite Eb. eauto.
Qed.

Lemma code_block_Peq : forall f body, Forall (fun x => P01 (f x)) body -> Peq (code_block (fun init => chunk_loop f init body)).
Proof.
  intros f body H s. unfold code_block.
  destruct (chunk_loop_same f body H 0 (mkSt 0 0 0 (codes s)) eq_refl) as (u & Eu & Lu). rewrite Eu. cbn [cbind]. cbv zeta.
  destruct (cancel_len u) as [Lc|Lc]; rewrite Lu in Lc.
  - rewrite Lc. simpl. eexists; split; reflexivity.
  - rewrite Lc. simpl. eexists; split; reflexivity.
Qed.

Lemma make_function_ok : forall hd b, exists s', make_function hd false b = COk s' /\ len s' + (if hd then 1 else 0) = S (len b).
Proof.
  intros hd b. unfold make_function. run_dec (instr (inc (push b))) (S (len b)).
  destruct hd; simpl.
  - destruct (len b) eqn:Hb.
    + (* a default was pushed before: the depth is at least one; stated by the caller *)
      unfold dec. rewrite L. eexists; split; [reflexivity|]. simpl. lia.
    + unfold dec. rewrite L. eexists; split; [reflexivity|]. simpl. lia.
  - eexists; split; [reflexivity|]. lia.
Qed.

(* ------------------------------------------------------------------ the main induction *)
Definition good (e : hexpr) : Prop :=
  (hck e true = true -> P1 (emit false e true)) /\ (hck e false = true -> P01 (emit false e false)).

Lemma value_frame : forall fl ex node, P1 node -> P1 (frame (ex && fl) ex node).
Proof. intros fl ex node H. apply frame_P1; [|exact H]. intros E. apply andb_true_iff in E. tauto. Qed.

Lemma value_good : forall e fl node,
  (forall ex s, emit false e ex s = frame (ex && fl) ex node s) ->
  (forall ex, hck e ex = true -> P1 node) -> good e.
Proof.
  intros e fl node Heq Hn. split; intros Hc.
  - intros s. rewrite Heq. apply value_frame. apply (Hn true Hc).
  - apply P1_P01. intros s. rewrite Heq. apply value_frame. apply (Hn false Hc).
Qed.

Lemma good_exprs : forall es, Forall good es -> forallb (fun y => hck y true) es = true ->
  Forall (fun x => P1 (emit false x true)) es.
Proof.
  intros es H. induction H as [|x r Hx Hr IH]; intros Hc; [constructor|].
  simpl in Hc. apply andb_true_iff in Hc. destruct Hc as [H1 H2]. constructor; [apply Hx; exact H1|apply IH; exact H2].
Qed.
Lemma good_chunks : forall es, Forall good es -> forallb (fun y => hck y false) es = true ->
  Forall (fun x => P01 (emit false x false)) es.
Proof.
  intros es H. induction H as [|x r Hx Hr IH]; intros Hc; [constructor|].
  simpl in Hc. apply andb_true_iff in Hc. destruct Hc as [H1 H2]. constructor; [apply Hx; exact H1|apply IH; exact H2].
Qed.
Lemma good_args : forall (args : list (option Z * hexpr)), Forall (fun a => good (snd a)) args ->
  forallb (fun a : option Z * hexpr => hck (snd a) true) args = true ->
  Forall (fun a : option Z * hexpr => P1 (emit false (snd a) true)) args.
Proof.
  intros es H. induction H as [|x r Hx Hr IH]; intros Hc; [constructor|].
  simpl in Hc. apply andb_true_iff in Hc. destruct Hc as [H1 H2]. constructor; [apply Hx; exact H1|apply IH; exact H2].
Qed.

Definition body_good (e : hexpr) : Prop :=
  match e with HLambda _ _ _ _ body => Forall good body | _ => True end.
Definition strong (e : hexpr) : Prop := good e /\ body_good e.

Lemma strong_good_list : forall es, Forall strong es -> Forall good es.
Proof. intros es H. induction H; constructor; [apply H|assumption]. Qed.
Lemma strong_good_args : forall (args : list (option Z * hexpr)),
  Forall (fun a => strong (snd a)) args -> Forall (fun a => good (snd a)) args.
Proof. intros es H. induction H; constructor; [apply H|assumption]. Qed.

Lemma arm_P01 : forall x, strong x ->
  match x with HLambda _ _ _ _ body => forallb (fun y => hck y false) body | _ => hck x true end = true ->
  P01 (match x with
       | HLambda _ _ _ _ body => simple_block (is_nil body) (fun init => chunk_loop (fun y => emit false y false) init body)
       | _ => emit false x true
       end).
Proof.
  intros x [Hg Hb] Hc.
  destruct x; try (apply P1_P01; apply Hg; exact Hc).
  apply simple_block_P01. apply good_chunks; [exact Hb|exact Hc].
Qed.

Lemma checked3 : forall (f : st -> cres st), P1 f -> P1 (fun s1 => cbind (f s1) (check_len 3 (len s1))).
Proof. apply checked_P1. Qed.

Lemma Forall_inv2 : forall A (P : A -> Prop) a l, Forall P (a :: l) -> P a /\ Forall P l.
Proof. intros A P a l H. inversion H; auto. Qed.

(** every node of an HIR satisfying [hck] is emitted without reaching an abort site, with the documented stack effect *)
Lemma emit_strong : forall e, strong e.
Proof.
  induction e as [w|w|w m a IHa|w k l r IHl IHr|w f args IHargs|w o args IHo IHargs|w o args IHo IHargs|w es IHes|w es IHes
                 |w np vp ds body IHds IHbody|body IHbody|vp ds body IHds IHbody|w a IHa|] using hexpr_ind'.
  - (* HLit *) split; [|exact I]. apply (value_good _ w n_load); [reflexivity|]. intros; apply n_load_P1.
  - split; [|exact I]. apply (value_good _ w n_load); [reflexivity|]. intros; apply n_load_P1.
  - (* HUnary *) split; [|exact I]. apply (value_good _ w (n_unary m (emit false a true))); [reflexivity|].
    intros ex Hc. apply n_unary_P1. apply IHa. destruct ex; exact Hc.
  - (* HBin *) split; [|exact I]. apply (value_good _ w (n_bin k (emit false l true) (emit false r true))); [reflexivity|].
    intros ex Hc. assert (H : hck l true && hck r true = true) by (destruct ex; exact Hc).
    apply andb_true_iff in H. destruct H. apply n_bin_P1; [apply IHl|apply IHr]; assumption.
  - (* HCallLocal *) split; [|exact I].
    pose proof (strong_good_args _ IHargs) as Gargs.
    destruct f.
    + (* assert *)
      destruct args as [|[k1 c] [|[k2 m] [|]]].
      * apply (value_good _ w (fun s1 => cbind (n_assert None None s1) (check_len 3 (len s1)))); [reflexivity|].
        intros ex Hc; destruct ex; discriminate.
      * apply (value_good _ w (fun s1 => cbind (n_assert (Some (emit false c true)) None s1) (check_len 3 (len s1)))); [reflexivity|].
        intros ex Hc. apply checked3. apply n_assert_P1; [|intros; discriminate].
        apply Forall_inv2 in Gargs. apply Gargs. destruct ex; exact Hc.
      * apply (value_good _ w (fun s1 => cbind (n_assert (Some (emit false c true)) (Some (emit false m true)) s1) (check_len 3 (len s1)))); [reflexivity|].
        intros ex Hc. assert (H : hck c true && hck m true = true) by (destruct ex; exact Hc).
        apply andb_true_iff in H. destruct H as [H1 H2].
        apply Forall_inv2 in Gargs. destruct Gargs as [G1 G2]. apply Forall_inv2 in G2. destruct G2 as [G2 _].
        apply checked3. apply n_assert_P1; [apply G1; exact H1|].
        intros m0 Hm. inversion Hm; subst. apply G2. exact H2.
      * split; intros Hc; simpl in Hc; discriminate.
    + (* not *)
      destruct args as [|[[k|] c] [|]].
      * apply (value_good _ w (fun s1 => cbind (n_not None s1) (check_len 3 (len s1)))); [reflexivity|].
        intros ex Hc; destruct ex; discriminate.
      * destruct (Z.eqb k key_b) eqn:Hk.
        -- apply (value_good _ w (fun s1 => cbind (n_not (Some (emit false c true)) s1) (check_len 3 (len s1)))).
           { intros ex s. simpl. rewrite Hk. reflexivity. }
           intros ex Hc. apply checked3. apply n_not_P1. apply Forall_inv2 in Gargs. apply Gargs.
           destruct ex; simpl in Hc; rewrite Hk in Hc; exact Hc.
        -- apply (value_good _ w (fun s1 => cbind (n_not None s1) (check_len 3 (len s1)))).
           { intros ex s. simpl. rewrite Hk. reflexivity. }
           intros ex Hc. destruct ex; simpl in Hc; rewrite Hk in Hc; discriminate.
      * split; intros Hc; simpl in Hc; discriminate.
      * apply (value_good _ w (fun s1 => cbind (n_not (Some (emit false c true)) s1) (check_len 3 (len s1)))); [reflexivity|].
        intros ex Hc. apply checked3. apply n_not_P1. apply Forall_inv2 in Gargs. apply Gargs. destruct ex; exact Hc.
      * split; intros Hc; simpl in Hc; discriminate.
    + (* discard *)
      apply (value_good _ w (fun s1 => cbind (n_discard (discard_loop (fun x => emit false x true) args) s1) (check_len 3 (len s1)))); [reflexivity|].
      intros ex Hc. apply checked3. apply n_discard_P1. apply discard_loop_Peq. apply good_args; [exact Gargs|destruct ex; exact Hc].
    + (* Del *)
      destruct args as [|[[k|] c] rest]; try (split; intros Hc; simpl in Hc; discriminate).
      destruct c; try (split; intros Hc; simpl in Hc; destruct rest; discriminate).
      destruct rest; [|split; intros Hc; simpl in Hc; discriminate].
      apply (value_good _ w (fun s1 => cbind (n_del true s1) (check_len 3 (len s1)))); [reflexivity|].
      intros ex Hc. apply checked3. apply n_del_P1.
    + (* for! *)
      destruct args as [|[k1 it] [|[k2 b] [|x rest]]]; try (split; intros Hc; simpl in Hc; discriminate).
      * apply Forall_inv2 in IHargs. destruct IHargs as [[Git _] IH2]. apply Forall_inv2 in IH2. destruct IH2 as [[Gb Bb] _].
        destruct b;
          try (match goal with
               | |- good (HCallLocal _ LFor [(_, _); (_, ?b)]) =>
                 apply (value_good _ w (fun s1 => cbind (call_other (seq_args (fun x => emit false x true) [(k1, it); (k2, b)]) 2 s1) (check_len 3 (len s1)))); [reflexivity|];
                 intros ex Hc; assert (H : hck it true && hck b true = true) by (destruct ex; exact Hc);
                 apply andb_true_iff in H; destruct H as [H1 H2];
                 apply checked3; apply (call_other_P1 _ 2); apply (seq_args_Pn _ [(k1, it); (k2, b)]);
                 constructor; [apply Git; exact H1|constructor; [apply Gb; exact H2|constructor]]
               end).
        (* a block as second argument: inlined loop *)
        apply (value_good _ w (fun s1 => cbind (n_for (emit false it true)
                  (control_block nparams (is_nil body) (fun init => chunk_loop (fun x => emit false x false) init body)) s1)
                  (check_len 3 (len s1)))); [reflexivity|].
        intros ex Hc.
        assert (H : hck it true && (nparams =? 1) && forallb (fun y => hck y false) body = true) by (destruct ex; exact Hc).
        apply andb_true_iff in H. destruct H as [H H3]. apply andb_true_iff in H. destruct H as [H1 H2].
        apply Nat.eqb_eq in H2. subst nparams.
        apply checked3. apply n_for_P1; [apply Git; exact H1|].
        apply control_block_1. apply good_chunks; [exact Bb|exact H3].
      * destruct b; split; intros Hc; simpl in Hc; discriminate.
    + (* while! *)
      destruct args as [|[k1 cb] [|[k2 b] [|x rest]]]; try (split; intros Hc; simpl in Hc; discriminate).
      * apply Forall_inv2 in IHargs. destruct IHargs as [[Gc Bc] IH2]. apply Forall_inv2 in IH2. destruct IH2 as [[Gb Bb] _].
        destruct b;
          try (match goal with
               | |- good (HCallLocal _ LWhile [(_, _); (_, ?b)]) =>
                 apply (value_good _ w (fun s1 => cbind (call_other (seq_args (fun x => emit false x true) [(k1, cb); (k2, b)]) 2 s1) (check_len 3 (len s1)))); [reflexivity|];
                 intros ex Hc; assert (H : hck cb true && hck b true = true) by (destruct ex; exact Hc);
                 apply andb_true_iff in H; destruct H as [H1 H2];
                 apply checked3; apply (call_other_P1 _ 2); apply (seq_args_Pn _ [(k1, cb); (k2, b)]);
                 constructor; [apply Gc; exact H1|constructor; [apply Gb; exact H2|constructor]]
               end).
        (* a block as second argument *)
        destruct cb as [w1|w1|w1 m1 a1|w1 k3 l1 r1|w1 f1 args1|w1 o1 args1|w1 o1 args1|w1 es1|w1 es1|w1 np1 vp1 ds1 body1|body1|vp1 ds1 body1|w1 a1|];
          try (match goal with
               | |- good (HCallLocal _ LWhile [(_, ?cb); (_, ?b)]) =>
                 apply (value_good _ w (fun s1 => cbind (call_other (seq_args (fun x => emit false x true) [(k1, cb); (k2, b)]) 2 s1) (check_len 3 (len s1)))); [reflexivity|];
                 intros ex Hc; assert (H : hck cb true && hck b true = true) by (destruct ex; exact Hc);
                 apply andb_true_iff in H; destruct H as [H1 H2];
                 apply checked3; apply (call_other_P1 _ 2); apply (seq_args_Pn _ [(k1, cb); (k2, b)]);
                 constructor; [apply Gc; exact H1|constructor; [apply Gb; exact H2|constructor]]
               end).
        -- (* condition: an identifier *)
           apply (value_good _ w (fun s1 => cbind (n_while n_load
                     (control_block nparams (is_nil body) (fun init => chunk_loop (fun x => emit false x false) init body)) s1)
                     (check_len 3 (len s1)))); [reflexivity|].
           intros ex Hc.
           assert (H : (nparams =? 0) && forallb (fun y => hck y false) body = true) by (destruct ex; exact Hc).
           apply andb_true_iff in H. destruct H as [H2 H3]. apply Nat.eqb_eq in H2. subst nparams.
           apply checked3. apply n_while_P1; [apply n_load_P1|]. apply control_block_0. apply good_chunks; [exact Bb|exact H3].
        -- (* condition: a block *)
           destruct body1 as [|c r1]; [split; intros Hc; simpl in Hc; discriminate|].
           apply (value_good _ w (fun s1 => cbind (n_while (emit false c true)
                     (control_block nparams (is_nil body) (fun init => chunk_loop (fun x => emit false x false) init body)) s1)
                     (check_len 3 (len s1)))); [reflexivity|].
           intros ex Hc.
           assert (H : (nparams =? 0) && forallb (fun y => hck y false) body && hck c true = true) by (destruct ex; exact Hc).
           apply andb_true_iff in H. destruct H as [H H4]. apply andb_true_iff in H. destruct H as [H2 H3].
           apply Nat.eqb_eq in H2. subst nparams.
           simpl in Bc. apply Forall_inv2 in Bc. destruct Bc as [Gcc _].
           apply checked3. apply n_while_P1; [apply Gcc; exact H4|]. apply control_block_0. apply good_chunks; [exact Bb|exact H3].
      * destruct b; split; intros Hc; simpl in Hc; discriminate.
    + (* if *)
      destruct args as [|[k1 c] [|[k2 th] [|[k3 el] [|x rest]]]]; try (split; intros Hc; simpl in Hc; discriminate).
      * apply Forall_inv2 in IHargs. destruct IHargs as [[Gc _] IH2]. apply Forall_inv2 in IH2. destruct IH2 as [Sth _].
        apply (value_good _ w (fun s1 => cbind (n_if (emit false c true)
                  (match th with
                   | HLambda _ _ _ _ body => simple_block (is_nil body) (fun init => chunk_loop (fun y => emit false y false) init body)
                   | _ => emit false th true
                   end) None s1) (check_len 3 (len s1)))); [reflexivity|].
        intros ex Hc.
        assert (H : hck c true && match th with HLambda _ _ _ _ body => forallb (fun y => hck y false) body | _ => hck th true end = true)
          by (destruct ex; exact Hc).
        apply andb_true_iff in H. destruct H as [H1 H2].
        apply checked3. apply n_if_P1; [apply Gc; exact H1|apply arm_P01; assumption|intros; discriminate].
      * apply Forall_inv2 in IHargs. destruct IHargs as [[Gc _] IH2]. apply Forall_inv2 in IH2. destruct IH2 as [Sth IH3].
        apply Forall_inv2 in IH3. destruct IH3 as [Sel _].
        apply (value_good _ w (fun s1 => cbind (n_if (emit false c true)
                  (match th with
                   | HLambda _ _ _ _ body => simple_block (is_nil body) (fun init => chunk_loop (fun y => emit false y false) init body)
                   | _ => emit false th true
                   end)
                  (Some (match el with
                   | HLambda _ _ _ _ body => simple_block (is_nil body) (fun init => chunk_loop (fun y => emit false y false) init body)
                   | _ => emit false el true
                   end)) s1) (check_len 3 (len s1)))); [reflexivity|].
        intros ex Hc.
        assert (H : hck c true && match th with HLambda _ _ _ _ body => forallb (fun y => hck y false) body | _ => hck th true end
                    && match el with HLambda _ _ _ _ body => forallb (fun y => hck y false) body | _ => hck el true end = true)
          by (destruct ex; exact Hc).
        apply andb_true_iff in H. destruct H as [H H3]. apply andb_true_iff in H. destruct H as [H1 H2].
        apply checked3. apply n_if_P1; [apply Gc; exact H1|apply arm_P01; assumption|].
        intros el0 He. inversion He; subst. apply arm_P01; assumption.
    + (* other *)
      apply (value_good _ w (fun s1 => cbind (call_other (seq_args (fun x => emit false x true) args) (List.length args) s1) (check_len 3 (len s1)))); [reflexivity|].
      intros ex Hc. apply checked3. apply call_other_P1. apply seq_args_Pn. apply good_args; [exact Gargs|destruct ex; exact Hc].
  - (* HCallMethod *) split; [|exact I]. pose proof (strong_good_args _ IHargs) as Gargs.
    apply (value_good _ w (fun s1 => cbind (n_method (emit false o true) (seq_args (fun x => emit false x true) args) (List.length args) s1)
                                            (check_len 3 (len s1)))); [reflexivity|].
    intros ex Hc.
    assert (H : hck o true && forallb (fun a : option Z * hexpr => hck (snd a) true) args = true) by (destruct ex; exact Hc).
    apply andb_true_iff in H. destruct H as [H1 H2].
    apply checked3. apply n_method_P1; [apply IHo; exact H1|]. apply seq_args_Pn. apply good_args; assumption.
  - (* HCallExpr *) split; [|exact I]. pose proof (strong_good_args _ IHargs) as Gargs.
    apply (value_good _ w (fun s1 => cbind (n_callexpr (emit false o true) (seq_args (fun x => emit false x true) args) (List.length args) s1)
                                            (check_len 3 (len s1)))); [reflexivity|].
    intros ex Hc.
    assert (H : hck o true && forallb (fun a : option Z * hexpr => hck (snd a) true) args = true) by (destruct ex; exact Hc).
    apply andb_true_iff in H. destruct H as [H1 H2].
    apply checked3. apply n_callexpr_P1; [apply IHo; exact H1|]. apply seq_args_Pn. apply good_args; assumption.
  - (* HList *) split; [|exact I]. pose proof (strong_good_list _ IHes) as Ges.
    apply (value_good _ w (n_list (seq_emit (fun x => emit false x true) es) (List.length es))); [reflexivity|].
    intros ex Hc. apply n_list_P1. apply seq_emit_Pn. apply good_exprs; [exact Ges|destruct ex; exact Hc].
  - (* HTuple *) split; [|exact I]. pose proof (strong_good_list _ IHes) as Ges.
    apply (value_good _ w (n_tuple (seq_emit (fun x => emit false x true) es) (List.length es))); [reflexivity|].
    intros ex Hc. apply n_tuple_P1. apply seq_emit_Pn. apply good_exprs; [exact Ges|destruct ex; exact Hc].
  - (* HLambda *)
    pose proof (strong_good_list _ IHds) as Gds. pose proof (strong_good_list _ IHbody) as Gbody.
    split; [|exact Gbody].
    apply (value_good _ w (fun s1 =>
             cbind (params vp (List.length ds) (seq_emit (fun x => emit false x true) ds) s1) (fun a =>
             cbind (code_block (fun init => chunk_loop (fun x => emit false x false) init body) a) (fun b =>
             cbind (make_function (negb (is_nil ds)) false b) (check_len 4 (len s1)))))); [reflexivity|].
    intros ex Hc.
    assert (H : forallb (fun y => hck y true) ds && forallb (fun y => hck y false) body = true) by (destruct ex; exact Hc).
    apply andb_true_iff in H. destruct H as [H1 H2]. intros s.
    destruct (params_ok vp (List.length ds) _ (seq_emit_Pn _ ds (good_exprs ds Gds H1)) s) as (a & Ea & La). rewrite Ea. cbn [cbind].
    destruct (code_block_Peq _ body (good_chunks body Gbody H2) a) as (b & Eb & Lb). rewrite Eb. cbn [cbind].
    destruct (make_function_ok (negb (is_nil ds)) b) as (c & Ec & Lc). rewrite Ec. cbn [cbind].
    rewrite check_len_ok; [eexists; split; [reflexivity|]|]; destruct ds; simpl in *; lia.
  - (* HDefVar *) split; [|exact I]. pose proof (strong_good_list _ IHbody) as Gbody. split; intros Hc; [simpl in Hc; discriminate|].
    destruct body as [|x [|y r]]; simpl in Hc; try discriminate.
    apply Forall_inv2 in Gbody. destruct Gbody as [Gx _].
    apply Peq_P01. intros s.
    change (emit false (HDefVar [x]) false s) with (frame false false (fun s1 => cbind (emit false x true s1) (fun a => dec (instr a))) s).
    rewrite frame_chunk. destruct Gx as [Gx _]. step (Gx Hc s). run_dec (instr t) (len s). eauto.
  - (* HDefSubr *) split; [|exact I].
    pose proof (strong_good_list _ IHds) as Gds. pose proof (strong_good_list _ IHbody) as Gbody.
    split; intros Hc; [simpl in Hc; discriminate|].
    simpl in Hc. apply andb_true_iff in Hc. destruct Hc as [H1 H2].
    apply Peq_P01. intros s.
    change (emit false (HDefSubr vp ds body) false s) with
        (frame false false (fun s1 =>
             cbind (params vp (List.length ds) (seq_emit (fun x => emit false x true) ds) s1) (fun a =>
             cbind (code_block (fun init => chunk_loop (fun x => emit false x false) init body) a) (fun b =>
             cbind (make_function (negb (is_nil ds)) false b) (fun c => dec (instr c))))) s).
    rewrite frame_chunk.
    destruct (params_ok vp (List.length ds) _ (seq_emit_Pn _ ds (good_exprs ds Gds H1)) s) as (a & Ea & La). rewrite Ea. cbn [cbind].
    destruct (code_block_Peq _ body (good_chunks body Gbody H2) a) as (b & Eb & Lb). rewrite Eb. cbn [cbind].
    destruct (make_function_ok (negb (is_nil ds)) b) as (c & Ec & Lc). rewrite Ec. cbn [cbind].
    destruct (dec_ok (instr c) (len s)) as (d & Ed & Ld); [cbn [len instr]; destruct ds; simpl in *; lia|].
    rewrite Ed. eauto.
  - (* HTypeAsc *) split; [|exact I]. split; intros Hc.
    + intros s. change (emit false (HTypeAsc w a) true s) with (frame (true && w) true (emit false a true) s).
      apply value_frame. apply IHa. exact Hc.
    + apply Peq_P01. intros s.
      change (emit false (HTypeAsc w a) false s) with (frame false false (fun s1 => COk s1) s). rewrite frame_chunk. eauto.
  - (* HDummy *) split; [|exact I]. split; intros Hc; [simpl in Hc; discriminate|].
    apply Peq_P01. intros s. change (emit false HDummy false s) with (frame false false (fun s1 => COk s1) s).
    rewrite frame_chunk. eauto.
Qed.

(* ------------------------------------------------------------------ modules *)
Lemma module_loop_ok : forall l, Forall (fun x => P01 (emit false x false)) l ->
  forall s, len s = 0 -> exists s', module_loop false l s = COk s' /\ len s' = 0.
Proof.
  intros l H. induction H as [|x r Hx Hr IH]; intros s Hs; simpl.
  - eauto.
  - destruct (Hx s) as (t & E & [L|L]); rewrite E; cbn [cbind].
    + replace (len t =? 1) with false by (symmetry; apply Nat.eqb_neq; lia). cbn [cbind]. apply IH. lia.
    + replace (len t =? 1) with true by (symmetry; apply Nat.eqb_eq; lia).
      destruct (pop_top_ok t 0) as (t' & E' & L' & _); [lia|]. rewrite E'. cbn [cbind]. apply IH. exact L'.
Qed.

Lemma all_good : forall es, Forall good es.
Proof. induction es; constructor; [apply emit_strong|assumption]. Qed.

(** no abort site is reachable when the HIR satisfies the invariant *)
Lemma emit_module_total_proof : forall p, hcheck p = true -> exists s, emit_module false p = COk s.
Proof.
  intros p H. unfold emit_module.
  destruct (module_loop_ok p (good_chunks p (all_good p) H) (mkSt 0 0 0 []) eq_refl) as (u & Eu & Lu).
  rewrite Eu. cbn [cbind]. cbv zeta.
  destruct (cancel_len u) as [Lc|Lc]; rewrite Lu in Lc; rewrite Lc; simpl; eauto.
Qed.

(* ------------------------------------------------------------------ the lowering establishes the invariant *)
Lemma forallb_map : forall A B (f : A -> B) (p : B -> bool) l, forallb p (map f l) = forallb (fun x => p (f x)) l.
Proof. intros A B f p l. induction l; simpl; [reflexivity|]. rewrite IHl. reflexivity. Qed.
Lemma forallb_true_Forall : forall A (p : A -> bool) l, Forall (fun x => p x = true) l -> forallb p l = true.
Proof. intros A p l H. induction H; simpl; [reflexivity|]. rewrite H, IHForall. reflexivity. Qed.
Lemma forallb_flat_map : forall A B (f : A -> list B) (p : B -> bool) l,
  Forall (fun x => forallb p (f x) = true) l -> forallb p (flat_map f l) = true.
Proof.
  intros A B f p l H. induction H; simpl; [reflexivity|]. rewrite forallb_app, H, IHForall. reflexivity.
Qed.

Lemma lower_e_hck : forall e ex, hck (lower_e e) ex = true.
Proof.
  induction e as [w l|w x|w op e IHe|w op e1 e2 IHe1 IHe2|w op e1 e2 IHe1 IHe2|w is_or e1 e2 IHe1 IHe2|w es IH|w a i IHa IHi
                  |w c a b IHc IHa IHb|w f args kw IHargs IHkw|w a IHa|w a IHa|w a b IHa IHb|w es IH] using expr_ind';
    intros ex; simpl; try reflexivity.
  - destruct op; simpl; rewrite ?IHe; reflexivity.
  - rewrite IHe1, IHe2. reflexivity.
  - rewrite IHe1, IHe2. reflexivity.
  - rewrite IHe1, IHe2. reflexivity.
  - rewrite forallb_map. apply forallb_true_Forall. eapply Forall_impl; [|exact IH]. intros a H. apply H.
  - rewrite IHa, IHi. reflexivity.
  - rewrite IHc, IHa, IHb. reflexivity.
  - rewrite forallb_app, !forallb_map. rewrite andb_true_iff. split; apply forallb_true_Forall.
    + eapply Forall_impl; [|exact IHargs]. intros a H. apply H.
    + eapply Forall_impl; [|exact IHkw]. intros a H. simpl. apply H.
  - rewrite IHa. reflexivity.
  - rewrite IHa. reflexivity.
  - rewrite IHa, IHb. reflexivity.
  - rewrite forallb_map. apply forallb_true_Forall. eapply Forall_impl; [|exact IH]. intros a H. apply H.
Qed.

Section StmtInd.
  Variable P : stmt -> Prop.
  Hypothesis H_SExpr : forall e, P (SExpr e).
  Hypothesis H_SPrint : forall es, P (SPrint es).
  Hypothesis H_SAssert : forall e, P (SAssert e).
  Hypothesis H_SDef : forall x a e, P (SDef x a e).
  Hypothesis H_SIf : forall c th he el, Forall P th -> Forall P el -> P (SIf c th he el).
  Hypothesis H_SFor : forall x it b, Forall P b -> P (SFor x it b).
  Hypothesis H_SWhile : forall c b, Forall P b -> P (SWhile c b).
  Hypothesis H_SMutDef : forall x e, P (SMutDef x e).
  Hypothesis H_SInc : forall x, P (SInc x).
  Hypothesis H_SUpdate : forall x p e, P (SUpdate x p e).
  Hypothesis H_SFun : forall f isp ps r b, Forall P b -> P (SFun f isp ps r b).
  Hypothesis H_SLam : forall f ps e, P (SLam f ps e).
  Hypothesis H_SPat : forall k ids e, P (SPat k ids e).
  Hypothesis H_SPCall : forall f args, P (SPCall f args).
  Hypothesis H_SNPat : forall p e, P (SNPat p e).

  Fixpoint stmt_ind' (s : stmt) : P s :=
    let fix go (ss : list stmt) : Forall P ss :=
      match ss with [] => Forall_nil _ | x :: r => Forall_cons _ (stmt_ind' x) (go r) end in
    match s with
    | SExpr e => H_SExpr e
    | SPrint es => H_SPrint es
    | SAssert e => H_SAssert e
    | SDef x a e => H_SDef x a e
    | SIf c th he el => H_SIf c th he el (go th) (go el)
    | SFor x it b => H_SFor x it b (go b)
    | SWhile c b => H_SWhile c b (go b)
    | SMutDef x e => H_SMutDef x e
    | SInc x => H_SInc x
    | SUpdate x p e => H_SUpdate x p e
    | SFun f isp ps r b => H_SFun f isp ps r b (go b)
    | SLam f ps e => H_SLam f ps e
    | SPat k ids e => H_SPat k ids e
    | SPCall f args => H_SPCall f args
    | SNPat p e => H_SNPat p e
    end.
End StmtInd.

Lemma lower_s_hck : forall s, forallb (fun y => hck y false) (lower_s s) = true.
Proof.
  induction s using stmt_ind'; simpl; rewrite ?andb_true_r, ?lower_e_hck; try reflexivity.
  - rewrite forallb_map. apply forallb_true_Forall. apply Forall_forall. intros x _. apply lower_e_hck.
  - destruct he; simpl; rewrite ?lower_e_hck, ?(forallb_flat_map _ _ lower_s _ th H), ?(forallb_flat_map _ _ lower_s _ el H0); reflexivity.
  - rewrite (forallb_flat_map _ _ lower_s _ b H). reflexivity.
  - rewrite (forallb_flat_map _ _ lower_s _ b H). reflexivity.
  - rewrite (forallb_flat_map _ _ lower_s _ b H), andb_true_r.
    apply forallb_flat_map. apply Forall_forall. intros [[pid t] [d|]] _; simpl; rewrite ?lower_e_hck; reflexivity.
  - rewrite forallb_map. apply forallb_true_Forall. apply Forall_forall. intros x _. reflexivity.
  - rewrite forallb_map. apply forallb_true_Forall. apply Forall_forall. intros x _. apply lower_e_hck.
  - rewrite forallb_map. apply forallb_true_Forall. apply Forall_forall. intros x _. reflexivity.
Qed.

Lemma lower_hcheck : forall cp, hcheck (lower cp) = true.
Proof.
  intros cp. unfold hcheck, lower. apply forallb_flat_map. apply Forall_forall. intros s _. apply lower_s_hck.
Qed.

Lemma compile_total_proof : forall cp, exists s, compile cp = COk s.
Proof. intros cp. apply emit_module_total_proof. apply lower_hcheck. Qed.
