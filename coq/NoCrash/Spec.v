(** * NoCrash.Spec — C07: the property as a judge over observations, and the known-finding classes.

    Property C07: for every syntactically valid program, `erg check` and `erg compile -o L` (every level L) end with
    success or with ordinary diagnostics: no panic, no abort, no hang, no internal-compiler-error message.

    An observation [obs] is what pylib/c07_run.py distils from one command:
      kind   0 ok (exit status 0)     1 ordinary diagnostics (exit status 1)
             2 panic ("panicked at")  3 internal-error message ("this is a bug of the Erg compiler", "This may be a bug
             of Erg compiler")        4 killed by a signal / stack overflow     5 hang (no exit within the limit)
             6 other exit status
      site   where: "<file>:<function>" of a panic, "caused-from:<function>" of a compiler_bug-style message,
             "message:<text pattern>" otherwise, "stack-overflow", "timeout" (code points)
      msg    the panic message / the diagnostic line (code points)

    The judge is the property itself.  Classification of a failing observation into a known-finding class is by the
    INTERNAL-ERROR SITE (kind + site text + a fragment of the message), not by the program: mutated corpus programs have
    no tree a structural predicate could look at.  The two (repaired) classes that were found from the model of codegen.rs
    also have a structural predicate on the mini-HIR (Check.v: legacy_while_cond, legacy_lambda_kwdefaults). *)
From Coq Require Import ZArith List Bool.
From ErgV Require Import Common.Sx gen.KnownC07.
Import ListNotations.
Open Scope Z_scope.

Record obs := mkObs { o_kind : Z; o_site : list Z; o_msg : list Z }.

Definition crashed (o : obs) : bool := negb ((o_kind o =? 0) || (o_kind o =? 1)).

(** the property for one program: none of its commands crashed *)
Definition judge (os : list obs) : bool := forallb (fun o => negb (crashed o)) os.

(* ------------------------------------------------------------------ text matching *)

Fixpoint zs_eqb (a b : list Z) : bool :=
  match a, b with
  | [], [] => true
  | x :: r, y :: s => (x =? y) && zs_eqb r s
  | _, _ => false
  end.
Fixpoint is_prefix (p l : list Z) : bool :=
  match p, l with
  | [], _ => true
  | x :: r, y :: s => (x =? y) && is_prefix r s
  | _ :: _, [] => false
  end.
Fixpoint is_infix (p l : list Z) : bool :=
  is_prefix p l || match l with [] => false | _ :: r => is_infix p r end.

(* ------------------------------------------------------------------ known-finding classes *)
(** a class: identifier (the "id" of the entry in /verif/known/C07.json), kind, exact site text, message fragment *)
Record kclass := mkClass { k_id : Z; k_kind : Z; k_site : list Z; k_msg : list Z }.

(** the table is generated from /verif/known/C07.json (entries with status "finding") by checks/c07.py into
    coq/gen/KnownC07.v as (id, kind, site, message fragment) with the texts as code points *)
Definition known_classes : list kclass :=
  map (fun r : Z * Z * list Z * list Z => mkClass (fst (fst (fst r))) (snd (fst (fst r))) (snd (fst r)) (snd r)) known_classes_raw.

Definition in_class (c : kclass) (o : obs) : bool :=
  (k_kind c =? o_kind o) && zs_eqb (k_site c) (o_site o) && is_infix (k_msg c) (o_msg o).

(** the class of a failing observation: its id, or 0 when it is outside every listed class *)
Definition known_c07 (o : obs) : Z :=
  match filter (fun c => in_class c o) known_classes with
  | c :: _ => k_id c
  | [] => 0
  end.

(** what the check reports for one program: 0 = satisfies the property; -1 = violation outside the listed classes;
    n > 0 = every failing command falls into listed classes, n the class of the first one *)
Definition verdict (os : list obs) : Z :=
  let bad := filter crashed os in
  match bad with
  | [] => 0
  | o :: _ => if forallb (fun x => negb (known_c07 x =? 0)) bad then known_c07 o else -1
  end.
