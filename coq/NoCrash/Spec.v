(** * NoCrash.Spec — C07: the property as a judge over observations, and the known-finding classes.

    Property C07: for every syntactically valid program, `erg check` and `erg compile -o L` (every level L) end with
    success or with ordinary diagnostics: no panic, no abort, no hang, no internal-compiler-error message.

    An observation [obs] is what pylib/c07_run.py distils from one command:
      kind   0 ok (exit status 0)     1 ordinary diagnostics (exit status 1)
             2 panic ("panicked at")  3 internal-error message ("this is a bug of the Erg compiler", "This may be a bug
             of Erg compiler")        4 killed by a signal / stack overflow     5 hang (no exit within the limit)
             6 other exit status
      site   where: "<file>:<function>" of a panic, "caused-from:<function>" of a compiler_bug-style message,
             "message:<text pattern>" otherwise, "stack-overflow", "timeout" (code points)
      msg    the panic message / the diagnostic line (code points)

    The judge is the property itself.  Classification of a failing observation into a known-finding class is by the
    INTERNAL-ERROR SITE (kind + site text + a fragment of the message), not by the program: mutated corpus programs have
    no tree a structural predicate could look at.  Two classes that were found from the model of codegen.rs also have a
    structural predicate on the mini-HIR (Check.v: known_while_cond, known_del_arg). *)
From Coq Require Import ZArith List Bool String Ascii.
From ErgV Require Import Common.Sx.
Import ListNotations.
Open Scope Z_scope.

Record obs := mkObs { o_kind : Z; o_site : list Z; o_msg : list Z }.

Definition crashed (o : obs) : bool := negb ((o_kind o =? 0) || (o_kind o =? 1)).

(** the property for one program: none of its commands crashed *)
Definition judge (os : list obs) : bool := forallb (fun o => negb (crashed o)) os.

(* ------------------------------------------------------------------ text matching *)
Definition cps (x : string) : list Z := map (fun c => Z.of_nat (nat_of_ascii c)) (list_ascii_of_string x).

Fixpoint zs_eqb (a b : list Z) : bool :=
  match a, b with
  | [], [] => true
  | x :: r, y :: s => (x =? y) && zs_eqb r s
  | _, _ => false
  end.
Fixpoint is_prefix (p l : list Z) : bool :=
  match p, l with
  | [], _ => true
  | x :: r, y :: s => (x =? y) && is_prefix r s
  | _ :: _, [] => false
  end.
Fixpoint is_infix (p l : list Z) : bool :=
  is_prefix p l || match l with [] => false | _ :: r => is_infix p r end.

(* ------------------------------------------------------------------ known-finding classes *)
(** a class: identifier (the "id" of the entry in /verif/known/C07.json), kind, exact site text, message fragment *)
Record kclass := mkClass { k_id : Z; k_kind : Z; k_site : list Z; k_msg : list Z }.

Definition known_classes : list kclass := [
  (* 1: arithmetic on the result of an operator applied to two untyped parameters: `f a, b = a * b + 1` *)
  mkClass 1 3 (cps "message:NameError: Type * is not found") (cps ".Output is not found");
  (* 2: the same inference state reached at module level after an undefined name: get_call_t panics on a
        quantified operator type *)
  mkClass 2 2 (cps "crates/erg_compiler/context/inquire.rs:get_call_t") (cps "has qvar");
  (* 3: while! whose condition is neither a lambda nor an identifier: emit_while_instr `_ => todo!()` *)
  mkClass 3 2 (cps "crates/erg_compiler/codegen.rs:emit_while_instr") (cps "not yet implemented");
  (* 4: method definitions attached to something that is not a class: link_ast.rs unwrap *)
  mkClass 4 2 (cps "crates/erg_compiler/link_ast.rs:link") (cps "Option::unwrap()");
  (* 5: compile-time `==` between a type and a record type in a class definition *)
  mkClass 5 3 (cps "caused-from:eval_bin") [];
  (* 6: Inherit of something that is not a class *)
  mkClass 6 3 (cps "caused-from:lower_class_def") []
].

Definition in_class (c : kclass) (o : obs) : bool :=
  (k_kind c =? o_kind o) && zs_eqb (k_site c) (o_site o) && is_infix (k_msg c) (o_msg o).

(** the class of a failing observation: its id, or 0 when it is outside every listed class *)
Definition known_c07 (o : obs) : Z :=
  match filter (fun c => in_class c o) known_classes with
  | c :: _ => k_id c
  | [] => 0
  end.

(** what the check reports for one program: 0 = satisfies the property; -1 = violation outside the listed classes;
    n > 0 = every failing command falls into listed classes, n the class of the first one *)
Definition verdict (os : list obs) : Z :=
  let bad := filter crashed os in
  match bad with
  | [] => 0
  | o :: _ => if forallb (fun x => negb (known_c07 x =? 0)) bad then known_c07 o else -1
  end.
