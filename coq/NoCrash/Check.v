(** * NoCrash.Check — C07: a model of the stack accounting of crates/erg_compiler/codegen.rs (target 3.11) with every
    abort site explicit, the invariant the front end owes the code generator ([hcheck]), the lowering of the fragment
    programs to the modelled HIR, and a small reference checker for the fragment.

    Why stack accounting: PyCodeGenerator keeps the depth of the value stack of the code object under construction
    (stack_inc / stack_dec / stack_dec_n, field stack_len).  Its abort sites on the expression/statement path are
      site 1   stack_dec / stack_dec_n below zero                  -> self.crash("the stack size becomes -1")
      site 2   debug_assert_eq!(stack_len, init + 1) in emit_expr  (the erg binary under test is a debug build)
      site 3   the same assertion in emit_call
      site 4   the same assertion in emit_unaryop / emit_binop / emit_list / emit_tuple / emit_lambda
      site 5   emit_assert_instr: args.remove(0) on an empty argument list (Vec::remove panics) / its assertion
      site 6   emit_not_instr: args.remove_left_or_key("b").unwrap()
      site 7   emit_if_instr: args.remove(0) twice
      site 8   emit_for_instr: args.get(1).unwrap(), `let Expr::Lambda(..) else unreachable!()`, its two assertions
      site 9   emit_while_instr: args.get(1).unwrap(), lambda.body.remove(0), `_ => todo!()` for a condition that is
               neither a lambda nor an identifier, its assertion
      site 10  emit_block:  more than one value left  -> self.crash("error in emit_block: invalid stack size")
      site 11  emit (module): the same                 -> self.crash("error in emit: invalid stack size")
    [emit] transcribes emit_expr / emit_chunk and what they call, arm by arm, for the HIR node kinds below; state =
    (stack_len, stacksize, number of trailing POP_TOP instructions [cancel_if_pop_top looks at the last opcode], the
    stacksizes of the nested code objects finished so far).  Nothing is totalised: a site that can be reached returns
    [Crash site].  Not modelled: which instruction bytes are written, jump patching (write_arg / fill_jump overflow
    sites are C01's CPanic 1/2), names/constants, closures (cellvars: LOAD_CLOSURE/BUILD_TUPLE are stack-neutral in
    sum), targets other than 3.11, classes, records, sets, dicts, match, with!, imports. *)
From Coq Require Import ZArith List Bool Arith Lia.
From ErgV Require Import Common.Sx CoreErg.Syntax NoCrash.Gen.
Import ListNotations.
Local Open Scope nat_scope.

(** emit_call_local dispatches on the *name* of a private identifier *)
Inductive lname := LAssert | LNot | LDiscard | LDel | LFor | LWhile | LIf | LOther.
Inductive hbin := BPlain | BLogic | BRange.

(** the modelled part of erg_compiler::hir::Expr.  [w]: emit_expr wraps the value in its runtime class
    (`!no_std && expr.should_wrap()` and the type is Bool/Nat/Int/Float/Str/Bytes/List/Dict/Set).
    Arguments: one list, positional ones (key None) first - Args::{get, remove, try_remove} index that sequence. *)
Inductive hexpr : Type :=
| HLit (w : bool)
| HName (w : bool)                                                    (* Accessor::Ident *)
| HUnary (w : bool) (mutate : bool) (e : hexpr)                       (* UnaryOp; mutate: the `!` operator *)
| HBin (w : bool) (k : hbin) (l r : hexpr)                            (* BinOp: arithmetic/comparison | and/or | range *)
| HCallLocal (w : bool) (f : lname) (args : list (option Z * hexpr))  (* Call { obj: private Ident, attr_name: None } *)
| HCallMethod (w : bool) (obj : hexpr) (args : list (option Z * hexpr))
| HCallExpr (w : bool) (callee : hexpr) (args : list (option Z * hexpr))
| HList (w : bool) (es : list hexpr)
| HTuple (w : bool) (es : list hexpr)
| HLambda (w : bool) (nparams : nat) (varp : bool) (defaults : list hexpr) (body : list hexpr)   (* varp: has *args *)
| HDefVar (body : list hexpr)                                         (* Def, Signature::Var *)
| HDefSubr (varp : bool) (defaults : list hexpr) (body : list hexpr)  (* Def, Signature::Subr, no decorators *)
| HTypeAsc (w : bool) (e : hexpr)
| HDummy.

Definition hprog := list hexpr.

Record st := mkSt { len : nat; maxl : nat; pops : nat; codes : list nat }.

Inductive cres (A : Type) := COk (a : A) | Crash (site : nat).
Arguments COk {A} a.
Arguments Crash {A} site.
Definition cbind {A B} (r : cres A) (f : A -> cres B) : cres B :=
  match r with COk a => f a | Crash s => Crash s end.

(** write_instr: whatever is written, the last opcode is no longer POP_TOP *)
Definition instr (s : st) : st := mkSt (len s) (maxl s) 0 (codes s).
(** stack_inc / stack_inc_n 1 *)
Definition inc (s : st) : st := mkSt (S (len s)) (Nat.max (maxl s) (S (len s))) (pops s) (codes s).
(** stack_dec *)
Definition dec (s : st) : cres st :=
  match len s with
  | O => Crash 1
  | S n => COk (mkSt n (maxl s) (pops s) (codes s))
  end.
(** stack_dec_n *)
Definition dec_n (n : nat) (s : st) : cres st :=
  if len s <? n then Crash 1 else COk (mkSt (len s - n) (maxl s) (pops s) (codes s)).
(** emit_pop_top *)
Definition pop_top (s : st) : cres st :=
  cbind (dec s) (fun s' => COk (mkSt (len s') (maxl s') (S (pops s)) (codes s'))).
(** cancel_if_pop_top *)
Definition cancel (s : st) : st :=
  match pops s with
  | O => s
  | S k => inc (mkSt (len s) (maxl s) k (codes s))
  end.
(** an instruction that pushes one value: LOAD_CONST, LOAD_NAME, PUSH_NULL, LOAD_ASSERTION_ERROR ... *)
Definition push (s : st) : st := inc (instr s).
Definition set_len (n : nat) (s : st) : st := mkSt n (maxl s) (pops s) (codes s).
(** emit_if_instr: `while self.stack_len() != init_stack_len + 1 { self.stack_dec(); }` *)
Definition fixup (i : nat) (s : st) : cres st := if len s <? S i then Crash 1 else COk (set_len (S i) s).

Definition wrap_flag (e : hexpr) : bool :=
  match e with
  | HLit w | HName w | HUnary w _ _ | HBin w _ _ _ | HCallLocal w _ _ | HCallMethod w _ _ | HCallExpr w _ _ | HList w _
  | HTuple w _ | HLambda w _ _ _ _ | HTypeAsc w _ => w
  | HDefVar _ | HDefSubr _ _ _ | HDummy => false
  end.

(** sequencing helpers (the recursive function is passed in; Coq's guard checker sees through them) *)
Definition seq_emit (f : hexpr -> st -> cres st) : list hexpr -> st -> cres st :=
  fix go (l : list hexpr) (s : st) : cres st :=
    match l with [] => COk s | x :: r => cbind (f x s) (go r) end.
Definition seq_args (f : hexpr -> st -> cres st) : list (option Z * hexpr) -> st -> cres st :=
  fix go (l : list (option Z * hexpr)) (s : st) : cres st :=
    match l with [] => COk s | (_, x) :: r => cbind (f x s) (go r) end.
(** the chunk loop of emit_simple_block / emit_control_block / emit_block:
    `for chunk in block { emit_chunk(chunk); if stack_len > init { emit_pop_top() } }` *)
Definition chunk_loop (f : hexpr -> st -> cres st) (init : nat) : list hexpr -> st -> cres st :=
  fix go (l : list hexpr) (s : st) : cres st :=
    match l with
    | [] => COk s
    | x :: r => cbind (f x s) (fun s' => cbind (if init <? len s' then pop_top s' else COk s') (go r))
    end.
(** emit_discard_instr: `while let Some(arg) = args.try_remove(0) { emit_expr(arg); emit_pop_top() }` *)
Definition discard_loop (f : hexpr -> st -> cres st) : list (option Z * hexpr) -> st -> cres st :=
  fix go (l : list (option Z * hexpr)) (s : st) : cres st :=
    match l with [] => COk s | (_, x) :: r => cbind (f x s) (fun s' => cbind (pop_top s') (go r)) end.
(** keys of the keyword arguments looked up by remove_left_or_key *)
Definition key_b : Z := 0%Z.     (* not(b := ...) *)
Definition key_obj : Z := 1%Z.   (* Del(obj := ...) *)

Definition key_is (k : Z) (a : option Z * hexpr) : bool :=
  match fst a with Some k' => Z.eqb k k' | None => false end.

(* ---- the emit functions as combinators over "how the sub-expressions are emitted" (st -> cres st) ---- *)

(** emit_expr around a node: optional wrapping in the runtime class, then debug_assert_eq!(stack_len, init + 1);
    emit_chunk (ex = false) has neither *)
Definition frame (w ex : bool) (node : st -> cres st) (s : st) : cres st :=
  let s1 := if w then push (push s) else s in              (* emit_push_null; emit_load_name_instr(class) *)
  cbind (node s1) (fun s2 =>
  cbind (if w then cbind (dec (instr s2)) dec else COk s2) (fun s3 =>   (* emit_call_instr(1); stack_dec *)
  if ex then (if len s3 =? S (len s) then COk s3 else Crash 2) else COk s3)).

Definition check_len (site i : nat) (s : st) : cres st := if len s =? S i then COk s else Crash site.

(** emit_load_const / emit_acc of an identifier *)
Definition n_load (s1 : st) : cres st := COk (push s1).

(** emit_unaryop *)
Definition n_unary (mutate : bool) (ea : st -> cres st) (s1 : st) : cres st :=
  cbind (ea (if mutate then push (push s1) else s1)) (fun s3 =>
  cbind (if mutate then cbind (dec (instr s3)) dec else COk (instr s3)) (check_len 4 (len s1))).

(** emit_binop *)
Definition n_bin (k : hbin) (el er : st -> cres st) (s1 : st) : cres st :=
  match k with
  | BLogic => cbind (el s1) (fun a => cbind (er (instr a)) dec)                       (* returns before the assertion *)
  | BPlain => cbind (el s1) (fun a => cbind (er a) (fun b => cbind (dec (instr b)) (check_len 4 (len s1))))
  | BRange =>
    cbind (el (push (push s1))) (fun a => cbind (er a) (fun b =>
    cbind (dec (instr b)) (fun c => cbind (dec c) (fun d => cbind (dec d) (check_len 4 (len s1))))))
  end.

(** emit_assert_instr; [ec]: None = no argument at all (args.remove(0) panics) *)
Definition n_assert (ec em : option (st -> cres st)) (s1 : st) : cres st :=
  match ec with
  | None => Crash 5
  | Some ec =>
    cbind (ec s1) (fun a => cbind (dec (instr a)) (fun b =>
    let b1 := push b in
    cbind (match em with Some em => cbind (em b1) (fun c1 => dec (instr c1)) | None => COk b1 end) (fun c2 =>
    cbind (dec (instr c2)) (fun d => check_len 5 (len s1) (push d)))))
  end.

(** emit_not_instr *)
Definition n_not (ec : option (st -> cres st)) (s1 : st) : cres st :=
  match ec with None => Crash 6 | Some ec => cbind (ec s1) (fun a => COk (instr a)) end.

(** emit_discard_instr *)
Definition n_discard (loop : st -> cres st) (s1 : st) : cres st := cbind (loop s1) (fun a => COk (push a)).

(** emit_del_instr: DELETE_NAME; LOAD_CONST None  |  `log!(err ..); return` *)
Definition n_del (is_ident : bool) (s1 : st) : cres st := if is_ident then COk (push (instr s1)) else COk s1.

(** emit_simple_block; [loopf init] = the chunk loop of the block *)
Definition simple_block (empty : bool) (loopf : nat -> st -> cres st) (t : st) : cres st :=
  if empty then COk t else cbind (loopf (len t) t) (fun t' => COk (cancel t')).

Fixpoint store_params (n : nat) (s : st) : cres st :=
  match n with O => COk s | S k => cbind (dec (instr s)) (store_params k) end.

(** emit_control_block *)
Definition control_block (np : nat) (empty : bool) (loopf : nat -> st -> cres st) (t : st) : cres st :=
  cbind (store_params np t) (simple_block empty loopf).

(** emit_for_instr with a lambda as second argument *)
Definition n_for (eit blk : st -> cres st) (s1 : st) : cres st :=
  cbind (eit s1) (fun a =>
  let a1 := inc (instr (instr a)) in                      (* GET_ITER; FOR_ITER with stack_inc *)
  let init2 := len a1 in
  cbind (blk a1) (fun b =>
  cbind (if init2 - 1 <? len b then pop_top b else COk b) (fun c =>
  if len c =? init2 - 1 then cbind (dec (instr c)) (fun d => check_len 8 (len s1) (push d)) else Crash 8))).

(** emit_while_instr with a lambda as second argument and an emittable condition *)
Definition n_while (econd blk : st -> cres st) (s1 : st) : cres st :=
  cbind (econd s1) (fun a => cbind (dec (instr a)) (fun b =>
  cbind (blk b) (fun c =>
  cbind (if len b <? len c then pop_top c else COk c) (fun d =>
  cbind (econd d) (fun e1 => cbind (dec (instr e1)) (fun f1 => check_len 9 (len s1) (push f1))))))).

(** emit_if_instr *)
Definition n_if (ec eth : st -> cres st) (eel : option (st -> cres st)) (s1 : st) : cres st :=
  cbind (ec s1) (fun a =>
  cbind (eth (instr a)) (fun b =>
  match eel with
  | Some eel => cbind (eel (instr b)) (fixup (len s1))
  | None => fixup (len s1) (push (instr b))
  end)).

(** emit_args_311 after the callee is on the stack: the arguments, [KW_NAMES,] PRECALL+CALL, stack_dec_n(argc) *)
Definition finish_call (argc : nat) (s : st) : cres st := cbind (dec (instr s)) (dec_n argc).

(** the `_ =>` arm of emit_call_local (also deopt_instr): PUSH_NULL; LOAD_NAME; emit_args_311 *)
Definition call_other (eargs : st -> cres st) (argc : nat) (s1 : st) : cres st :=
  cbind (eargs (push (push s1))) (finish_call argc).
(** emit_call_method: object; LOAD_METHOD (stack_inc); emit_args_311 *)
Definition n_method (eobj eargs : st -> cres st) (argc : nat) (s1 : st) : cres st :=
  cbind (eobj s1) (fun a => cbind (eargs (push a)) (finish_call argc)).
(** emit_call, callee an arbitrary expression: PUSH_NULL; callee; emit_args_311 *)
Definition n_callexpr (ecallee eargs : st -> cres st) (argc : nat) (s1 : st) : cres st :=
  cbind (ecallee (push s1)) (fun a => cbind (eargs a) (finish_call argc)).

(** emit_list / emit_tuple *)
Definition n_list (eelems : st -> cres st) (n : nat) (s1 : st) : cres st :=
  cbind (eelems (push (push s1))) (fun a =>
  cbind (match n with O => COk (inc (instr a)) | S k => dec_n k (instr a) end) (fun b =>
  cbind (dec (instr b)) (fun c => cbind (dec c) (check_len 4 (len s1))))).
Definition n_tuple (eelems : st -> cres st) (n : nat) (s1 : st) : cres st :=
  cbind (eelems s1) (fun a =>
  cbind (match n with O => COk (inc (instr a)) | S k => dec_n k (instr a) end) (check_len 4 (len s1))).

(** emit_params *)
Definition params (varp : bool) (n : nat) (edefs : st -> cres st) (t : st) : cres st :=
  match n with
  | O => COk t
  | S k =>
    cbind (edefs t) (fun t' =>
    if varp then cbind (dec (push t')) (fun t2 => dec_n k (instr t2))     (* names tuple; BUILD_CONST_KEY_MAP *)
    else dec_n k (instr t'))                                              (* BUILD_TUPLE *)
  end.

(** emit_block: a new unit; returns the outer state with the stacksize of the nested code object recorded *)
Definition code_block (loopf : nat -> st -> cres st) (t : st) : cres st :=
  cbind (loopf 0 (mkSt 0 0 0 (codes t))) (fun u =>
  let u1 := cancel u in
  cbind (if len u1 =? 0 then COk (push u1) else if 1 <? len u1 then Crash 10 else COk u1) (fun u2 =>
  COk (mkSt (len t) (maxl t) (pops t) (codes u2 ++ [maxl u2])))).

(** emit_lambda / emit_subr_def after emit_params and emit_block: LOAD_CONST code; stack_inc; MAKE_FUNCTION; stack_dec;
    one more stack_dec when the Defaults (lambda) / Defaults|KwDefaults (subr) flag is set.
    [skip_kw]: emit_lambda before the repair tested the Defaults bit only *)
Definition make_function (has_defaults skip_kw : bool) (b : st) : cres st :=
  cbind (dec (instr (inc (push b)))) (fun d => if has_defaults && negb skip_kw then dec d else COk d).

(** [legacy] = true reproduces codegen.rs before the two repairs recorded in known/C07.json (emit_while_instr's
    `_ => todo!()` for a condition that is neither a block nor an identifier; emit_lambda not popping the keyword-defaults
    map of a lambda with *args and defaults); the code as it is now is [legacy = false]. *)
Section Emit.
Variable legacy : bool.

Definition is_nil {A} (l : list A) : bool := match l with [] => true | _ => false end.

Fixpoint emit (e : hexpr) (ex : bool) (s : st) {struct e} : cres st :=
  (* ex = true: emit_expr;  ex = false: emit_chunk *)
  let blockf := fun (body : list hexpr) (init : nat) => chunk_loop (fun x => emit x false) init body in
  let argsf := fun (args : list (option Z * hexpr)) => seq_args (fun x => emit x true) args in
  let arm := fun (x : hexpr) =>
      match x with
      | HLambda _ _ _ _ body => simple_block (is_nil body) (blockf body)
      | _ => emit x true
      end in
  frame (ex && wrap_flag e) ex
    (match e with
     | HLit _ | HName _ => n_load
     | HUnary _ mutate a => n_unary mutate (emit a true)
     | HBin _ k l r => n_bin k (emit l true) (emit r true)
     | HCallLocal _ f args =>
       fun s1 =>
       cbind
         (match f with
          | LAssert =>
            match args with
            | [] => n_assert None None s1
            | [(_, c)] => n_assert (Some (emit c true)) None s1
            | (_, c) :: (_, m) :: _ => n_assert (Some (emit c true)) (Some (emit m true)) s1
            end
          | LNot =>
            match args with
            | (None, c) :: _ => n_not (Some (emit c true)) s1
            | _ =>
              (* no positional argument: the keyword argument `b` *)
              (fix find (l : list (option Z * hexpr)) : cres st :=
                 match l with
                 | [] => n_not None s1
                 | (Some k, c) :: r => if Z.eqb k key_b then n_not (Some (emit c true)) s1 else find r
                 | (None, _) :: r => find r
                 end) args
            end
          | LDiscard => n_discard (discard_loop (fun x => emit x true) args) s1
          | LDel =>
            match args with
            | (None, HName _) :: _ => n_del true s1
            | (None, _) :: _ => n_del false s1
            | _ => match find (key_is key_obj) args with Some (_, HName _) => n_del true s1 | _ => n_del false s1 end
            end
          | LFor =>
            match args with
            | (_, it) :: (_, HLambda _ np _ _ body) :: _ =>
              n_for (emit it true) (control_block np (is_nil body) (blockf body)) s1
            | _ :: _ :: _ => call_other (argsf args) (List.length args) s1        (* deopt_instr(ControlKind::For) *)
            | _ => Crash 8                                                          (* args.get(1).unwrap() *)
            end
          | LWhile =>
            match args with
            | (_, cb) :: (_, HLambda _ np _ _ body) :: _ =>
              match cb with
              | HLambda _ _ _ _ [] => Crash 9                                       (* lambda.body.remove(0) *)
              | HLambda _ _ _ _ (c :: _) => n_while (emit c true) (control_block np (is_nil body) (blockf body)) s1
              | HName _ => n_while n_load (control_block np (is_nil body) (blockf body)) s1   (* acc.call_expr(Args::empty()) *)
              | _ => if legacy then Crash 9                                         (* `_ => todo!()` *)
                     else call_other (argsf args) (List.length args) s1             (* deopt_instr(ControlKind::While) *)
              end
            | _ :: _ :: _ => call_other (argsf args) (List.length args) s1          (* deopt_instr(ControlKind::While) *)
            | _ => Crash 9                                                          (* args.get(1).unwrap() *)
            end
          | LIf =>
            match args with
            | [(_, c); (_, th)] => n_if (emit c true) (arm th) None s1
            | (_, c) :: (_, th) :: (_, el) :: _ => n_if (emit c true) (arm th) (Some (arm el)) s1
            | _ => Crash 7                                                          (* args.remove(0) *)
            end
          | LOther => call_other (argsf args) (List.length args) s1
          end)
         (check_len 3 (len s1))
     | HCallMethod _ obj args =>
       fun s1 => cbind (n_method (emit obj true) (argsf args) (List.length args) s1) (check_len 3 (len s1))
     | HCallExpr _ callee args =>
       fun s1 => cbind (n_callexpr (emit callee true) (argsf args) (List.length args) s1) (check_len 3 (len s1))
     | HList _ es => n_list (seq_emit (fun x => emit x true) es) (List.length es)
     | HTuple _ es => n_tuple (seq_emit (fun x => emit x true) es) (List.length es)
     | HLambda _ _ varp defaults body =>
       fun s1 =>
       cbind (params varp (List.length defaults) (seq_emit (fun x => emit x true) defaults) s1) (fun a =>
       cbind (code_block (blockf body) a) (fun b =>
       cbind (make_function (negb (is_nil defaults)) (legacy && varp) b) (check_len 4 (len s1))))
     | HDefVar body =>
       fun s1 =>
       cbind (match body with [x] => emit x true s1 | _ => simple_block (is_nil body) (blockf body) s1 end)
             (fun a => dec (instr a))                                               (* emit_store_instr *)
     | HDefSubr varp defaults body =>
       fun s1 =>
       cbind (params varp (List.length defaults) (seq_emit (fun x => emit x true) defaults) s1) (fun a =>
       cbind (code_block (blockf body) a) (fun b =>
       cbind (make_function (negb (is_nil defaults)) false b) (fun c => dec (instr c))))
     | HTypeAsc _ a => if ex then emit a true else (fun s1 => COk s1)
     | HDummy => fun s1 => COk s1
     end) s.

(** PyCodeGenerator::emit after the prelude *)
Fixpoint module_loop (l : list hexpr) (s : st) : cres st :=
  match l with
  | [] => COk s
  | x :: r => cbind (emit x false s) (fun s' => cbind (if len s' =? 1 then pop_top s' else COk s') (module_loop r))
  end.
Definition emit_module (p : hprog) : cres st :=
  cbind (module_loop p (mkSt 0 0 0 [])) (fun u =>
  let u1 := cancel u in
  if len u1 =? 0 then COk (push u1) else if 1 <? len u1 then Crash 11 else COk u1).
End Emit.

(* ------------------------------------------------------------------ what the front end owes the code generator *)
(** [hck e true]: e may stand where emit_expr is called; [hck e false]: e may stand as a chunk of a block.
    This is the invariant on the HIR under which no abort site of [emit] is reachable (CheckProofs.emit_total):
    control-flow builtins are called with the arity and the argument shapes of their signatures
    (if: 2 or 3, for!: iterable and a one-parameter block, while!: a condition block/identifier and a parameterless
    block, assert: 1 or 2, not: 1, Del: an identifier), a definition never stands in expression position, a block
    bound to a variable ends with an expression.  The real checker (lower.rs + context/inquire.rs) is NOT proved to
    establish it - that is what the differential execution tests; the two places found where it does not are the
    (repaired) classes [legacy_while_cond] and [legacy_lambda_kwdefaults]. *)
Fixpoint hck (e : hexpr) (ex : bool) {struct e} : bool :=
  let arm := fun x : hexpr =>
      match x with HLambda _ _ _ _ body => forallb (fun y => hck y false) body | _ => hck x true end in
  match e with
  | HLit _ | HName _ => true
  | HUnary _ _ a => hck a true
  | HBin _ _ l r => hck l true && hck r true
  | HCallLocal _ f args =>
    match f with
    | LAssert =>
      match args with
      | [(_, c)] => hck c true
      | [(_, c); (_, m)] => hck c true && hck m true
      | _ => false
      end
    | LNot =>
      match args with
      | [(None, c)] => hck c true
      | [(Some k, c)] => Z.eqb k key_b && hck c true
      | _ => false
      end
    | LDiscard | LOther => forallb (fun a : option Z * hexpr => hck (snd a) true) args
    | LDel => match args with [(None, HName _)] => true | _ => false end
    | LFor =>
      match args with
      | [(_, it); (_, HLambda _ np _ _ body)] => hck it true && (np =? 1) && forallb (fun y => hck y false) body
      | [(_, a); (_, b)] => hck a true && hck b true
      | _ => false
      end
    | LWhile =>
      match args with
      | [(_, cb); (_, (HLambda _ np _ _ body) as lam)] =>
        match cb with
        | HLambda _ _ _ _ [] => false
        | HLambda _ _ _ _ (c :: _) => (np =? 0) && forallb (fun y => hck y false) body && hck c true
        | HName _ => (np =? 0) && forallb (fun y => hck y false) body
        | _ => hck cb true && hck lam true                                (* deopt: both are ordinary arguments *)
        end
      | [(_, a); (_, b)] => hck a true && hck b true
      | _ => false
      end
    | LIf =>
      match args with
      | [(_, c); (_, th)] => hck c true && arm th
      | [(_, c); (_, th); (_, el)] => hck c true && arm th && arm el
      | _ => false
      end
    end
  | HCallMethod _ obj args | HCallExpr _ obj args =>
    hck obj true && forallb (fun a : option Z * hexpr => hck (snd a) true) args
  | HList _ es | HTuple _ es => forallb (fun y => hck y true) es
  | HLambda _ _ _ defaults body => forallb (fun y => hck y true) defaults && forallb (fun y => hck y false) body
  | HDefVar body =>
    negb ex
    && match body with [x] => hck x true | _ => false end     (* every definition of the fragment binds one expression *)
  | HDefSubr _ defaults body =>
    negb ex && forallb (fun y => hck y true) defaults && forallb (fun y => hck y false) body
  | HTypeAsc _ a => if ex then hck a true else true
  | HDummy => negb ex
  end.

Definition hcheck (p : hprog) : bool := forallb (fun y => hck y false) p.

(** the two shapes found from this model on which codegen.rs aborted although erg's checker accepts the program
    (both repaired, see known/C07.json): a while! whose condition is neither a block nor an identifier, and a lambda
    with *args and default parameters *)
Definition legacy_while_cond (e : hexpr) : bool :=
  match e with
  | HCallLocal _ LWhile ((_, cb) :: (_, HLambda _ _ _ _ _) :: _) =>
    match cb with HLambda _ _ _ _ _ | HName _ => false | _ => true end
  | _ => false
  end.
Definition legacy_lambda_kwdefaults (e : hexpr) : bool :=
  match e with
  | HLambda _ _ true (_ :: _) _ => true
  | _ => false
  end.

(* ------------------------------------------------------------------ lowering of the fragment *)
Definition hw (w : wrapc) : bool := match w with WNone => false | _ => true end.
Definition pos_arg (e : hexpr) : option Z * hexpr := (None, e).
Definition do_block (body : list hexpr) : hexpr := HLambda false 0 false [] body.

Fixpoint lower_e (e : expr) : hexpr :=
  match e with
  | ELit w _ => HLit (hw w)
  | EVar w _ => HName (hw w)
  | EUn w UNot a => HCallLocal (hw w) LNot [pos_arg (lower_e a)]
  | EUn w _ a => HUnary (hw w) false (lower_e a)
  | EBin w _ a b | ECmp w _ a b => HBin (hw w) BPlain (lower_e a) (lower_e b)
  | ELogic w _ a b => HBin (hw w) BLogic (lower_e a) (lower_e b)
  | EList w es => HList (hw w) (map lower_e es)
  | EIndex w a i => HCallMethod (hw w) (lower_e a) [pos_arg (lower_e i)]          (* a.__getitem__(i) *)
  | EIf w c a b => HCallLocal (hw w) LIf [pos_arg (lower_e c); pos_arg (do_block [lower_e a]); pos_arg (do_block [lower_e b])]
  | ECall w _ args kw =>
    HCallLocal (hw w) LOther (map (fun x => pos_arg (lower_e x)) args
                              ++ map (fun pe : Z * expr => (Some (fst pe), lower_e (snd pe))) kw)
  | ELen w a | EAbs w a => HCallLocal (hw w) LOther [pos_arg (lower_e a)]
  | ERange w a b => HBin (hw w) BRange (lower_e a) (lower_e b)
  | ETuple w es => HTuple (hw w) (map lower_e es)
  end.

Definition lower_default (p : Z * ty * option expr) : list hexpr :=
  match snd p with Some d => [lower_e d] | None => [] end.

Fixpoint lower_s (s : stmt) : list hexpr :=
  match s with
  | SExpr e => [lower_e e]
  | SPrint es => [HCallLocal false LOther (map (fun x => pos_arg (lower_e x)) es)]
  | SAssert e => [HCallLocal false LAssert [pos_arg (lower_e e)]]
  | SDef _ _ e => [HDefVar [lower_e e]]
  | SIf c th he el =>
    [HCallLocal false LIf (pos_arg (lower_e c) :: pos_arg (do_block (flat_map lower_s th))
                           :: (if he then [pos_arg (do_block (flat_map lower_s el))] else []))]
  | SFor _ it body => [HCallLocal false LFor [pos_arg (lower_e it); pos_arg (HLambda false 1 false [] (flat_map lower_s body))]]
  | SWhile c body =>
    [HCallLocal false LWhile [pos_arg (do_block [lower_e c]); pos_arg (do_block (flat_map lower_s body))]]
  | SMutDef _ e => [HDefVar [HUnary false true (lower_e e)]]
  | SInc _ => [HCallMethod false (HName false) []]
  | SUpdate _ _ e => [HCallMethod false (HName false) [pos_arg (HLambda false 1 false [] [lower_e e])]]
  | SFun _ _ params _ body => [HDefSubr false (flat_map lower_default params) (flat_map lower_s body)]
  | SLam _ params e => [HDefVar [HLambda false (List.length params) false [] [lower_e e]]]
  | SPat _ ids e =>
    HDefVar [lower_e e]
      :: map (fun _ => HDefVar [HCallMethod false (HName false) [pos_arg (HLit false)]]) ids
  | SPCall _ args => [HCallLocal false LOther (map (fun x => pos_arg (lower_e x)) args)]
  | SNPat pt e =>
    HDefVar [lower_e e]
      :: map (fun _ => HDefVar [HCallMethod false (HName false) [pos_arg (HLit false)]]) (pat_ids pt)
  end.

Definition lower (cp : cprog) : hprog := flat_map lower_s (c_body cp).

(** the modelled compilation of a fragment program *)
Definition compile (cp : cprog) : cres st := emit_module false (lower cp).
