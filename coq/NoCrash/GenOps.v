(** * NoCrash.GenOps — what the printed text of the operator sub-fragment [Gen.ofrag] IS in terms of the C11 models of
    the lexer's operator handling and of the parser's operator stack (ErgV.ExprParse.Model): [lex_e] (lexemes with
    white-space flags), [spell] (their characters), [tok_e] (tokens), [ast] (the intended syntax tree).
    GenProofs.v proves   p_expr = spell . lex_e,   Model.lex (lex_e e) = tok_e e,   Model.parse (tok_e e) = Ok (ast e).
    Definitions only. *)
From Coq Require Import ZArith List Bool String Ascii SpecFloat.
From ErgV Require Import Common.Sx CoreErg.Syntax NoCrash.Gen.
From ErgV Require CoreErg.Sem ExprParse.Model.
Import ListNotations.
Open Scope Z_scope.

(** text literals as code points (not used in the extracted files: Coq's [string] would shadow OCaml's) *)
Definition zs (x : string) : list Z := map (fun c => Z.of_nat (nat_of_ascii c)) (list_ascii_of_string x).

Module PM := ErgV.ExprParse.Model.
Module Sem := ErgV.CoreErg.Sem.

Definition un_sym (o : unop) : PM.opsym :=
  match o with UNeg => PM.SMinus | UPos => PM.SPlus | _ => PM.STilde end.
Definition un_pre (o : unop) : PM.preop :=
  match o with UNeg => PM.PreMinus | UPos => PM.PrePlus | _ => PM.PreBitNot end.
Definition arith_bin (o : arith) : PM.binop :=
  match o with OAdd => PM.Plus | OSub => PM.Minus | OMul => PM.Star | ODiv => PM.Slash | OFloorDiv => PM.FloorDiv
             | OMod => PM.Mod | OPow => PM.Pow end.
Definition arith_sym (o : arith) : PM.opsym :=
  match o with OAdd => PM.SPlus | OSub => PM.SMinus | OMul => PM.SStar | OPow => PM.SDblStar
             | o => PM.SBin (arith_bin o) end.
Definition cmp_bin (o : cmpop) : PM.binop :=
  match o with CLt => PM.Less | CLe => PM.LessEq | CEq => PM.DblEq | CNe => PM.NotEq | CGt => PM.Gre | CGe => PM.GreEq end.
Definition logic_bin (k : bool) : PM.binop := if k then PM.OrOp else PM.AndOp.

(** the operator of a binary node: (spelling seen by the lexer, token seen by the parser) *)
Definition bin_of (e : expr) : option (PM.opsym * PM.binop) :=
  match e with
  | EBin _ o _ _ => Some (arith_sym o, arith_bin o)
  | ECmp _ o _ _ => Some (PM.SBin (cmp_bin o), cmp_bin o)
  | ELogic _ k _ _ => Some (PM.SBin (logic_bin k), logic_bin k)
  | _ => None
  end.

(** unsigned text and sign of a numeric literal: (negative, ratio, digits) *)
Definition num_of (l : lit) : option (bool * bool * list Z) :=
  match l with
  | LNat n => Some (false, false, Sem.dec_nonneg n)
  | LNeg z => Some (true, false, Sem.dec_nonneg (- z))
  | LFloat b => match float_k b with Some (s, k) => Some (s, true, ufloat_text k) | None => None end
  | _ => None
  end.

(** lexemes of the printed text; [sp] = white space in front of the first lexeme *)
Fixpoint lex_e (sp : bool) (e : expr) {struct e} : list (bool * PM.lexeme) :=
  match e with
  | ELit _ l =>
    match num_of l with
    | Some (true, r, ds) => [(sp, PM.LOp PM.SMinus); (false, PM.LNum r ds)]
    | Some (false, r, ds) => [(sp, PM.LNum r ds)]
    | None => []
    end
  | EVar _ x => [(sp, PM.LIdent x)]
  | EUn _ o a => (sp, PM.LOp (un_sym o)) :: (false, PM.LLP) :: lex_e false a ++ [(false, PM.LRP)]
  | EBin _ _ a b | ECmp _ _ a b | ELogic _ _ a b =>
    (if atomic a then lex_e sp a else (sp, PM.LLP) :: lex_e false a ++ [(false, PM.LRP)])
      ++ (true, PM.LOp (match bin_of e with Some (s, _) => s | None => PM.STilde end))
      :: (if atomic b then lex_e true b else (true, PM.LLP) :: lex_e false b ++ [(false, PM.LRP)])
  | _ => []
  end.

Definition binop_text (o : PM.binop) : list Z :=
  match o with
  | PM.Pow => zs "**" | PM.Star => zs "*" | PM.Slash => zs "/" | PM.FloorDiv => zs "//" | PM.Mod => zs "%"
  | PM.Plus => zs "+" | PM.Minus => zs "-" | PM.Shl => zs "<<" | PM.Shr => zs ">>" | PM.BitAnd => zs "&&"
  | PM.BitXor => zs "^^" | PM.BitOr => zs "||" | PM.Closed => zs ".." | PM.RightOpen => zs "..<" | PM.LeftOpen => zs "<.."
  | PM.Open => zs "<..<" | PM.Less => zs "<" | PM.Gre => zs ">" | PM.LessEq => zs "<=" | PM.GreEq => zs ">="
  | PM.DblEq => zs "==" | PM.NotEq => zs "!=" | PM.InOp => zs "in" | PM.NotInOp => zs "notin"
  | PM.ContainsOp => zs "contains" | PM.IsOp => zs "is!" | PM.IsNotOp => zs "isnot!" | PM.AndOp => zs "and"
  | PM.OrOp => zs "or"
  end.
Definition opsym_text (o : PM.opsym) : list Z :=
  match o with
  | PM.SPlus => zs "+" | PM.SMinus => zs "-" | PM.STilde => zs "~" | PM.SStar => zs "*" | PM.SDblStar => zs "**"
  | PM.SBin b => binop_text b
  end.
Definition lexeme_text (l : PM.lexeme) : list Z :=
  match l with
  | PM.LIdent n => vname n
  | PM.LNum _ s => s
  | PM.LOp o => opsym_text o
  | PM.LDot => zs "." | PM.LLP => zs "(" | PM.LRP => zs ")" | PM.LComma => zs ","
  end.
(** the characters of a lexeme list: one space where the flag says so *)
Definition spell (ls : list (bool * PM.lexeme)) : list Z :=
  flat_map (fun p : bool * PM.lexeme => (if fst p then [32] else []) ++ lexeme_text (snd p)) ls.

(** tokens the parser sees.  [TLP adj]: adj = no white space before the parenthesis *)
Fixpoint tok_e (sp : bool) (e : expr) {struct e} : list PM.tok :=
  match e with
  | ELit _ l =>
    match num_of l with
    | Some (neg, r, ds) => [PM.num_tok neg r ds]
    | None => []
    end
  | EVar _ x => [PM.TSym x]
  | EUn _ o a => PM.TPre (un_pre o) :: PM.TLP true :: tok_e false a ++ [PM.TRP]
  | EBin _ _ a b | ECmp _ _ a b | ELogic _ _ a b =>
    (if atomic a then tok_e sp a else PM.TLP (negb sp) :: tok_e false a ++ [PM.TRP])
      ++ PM.TBin (match bin_of e with Some (_, o) => o | None => PM.Plus end)
      :: (if atomic b then tok_e true b else PM.TLP false :: tok_e false b ++ [PM.TRP])
  | _ => []
  end.

(** the intended syntax tree (erg_parser::ast::Expr as observed by C11), constructor by constructor *)
Fixpoint ast (e : expr) : PM.expr :=
  match e with
  | ELit _ l =>
    match num_of l with
    | Some (neg, r, ds) => PM.ELit (PM.num_kind neg r ds) (if neg then PM.minus_cp :: ds else ds)
    | None => PM.EId (-1)
    end
  | EVar _ x => PM.EId x
  | EUn _ o a => PM.EUn (un_pre o) (ast a)
  | EBin _ o a b => PM.EBin (arith_bin o) (ast a) (ast b)
  | ECmp _ o a b => PM.EBin (cmp_bin o) (ast a) (ast b)
  | ELogic _ k a b => PM.EBin (logic_bin k) (ast a) (ast b)
  | _ => PM.EId (-1)
  end.
