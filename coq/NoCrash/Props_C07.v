(** C07 — The checker and code generator never crash on a well-formed program.  Property theorems only
    (proofs: GenProofs.v, CheckProofs.v).

    What a proof can carry for this property, and what it cannot:
      * PROVED (about definitions that the check executes on every input): the generated inputs are what the property
        quantifies over.  [wf_prog] is the fragment grammar; the printer [print_erg] is extracted and used to print
        every program that is sent to erg.  For the operator sub-fragment the printed text is shown to lex and parse
        to the intended tree against the C11 models of the lexer's operator handling and of the parser's operator
        stack ([print_expr_roundtrip]).  For the rest of the grammar syntactic validity is established per program by
        `erg --mode parse` (a tree program that the real parser rejects is reported as a broken tie).
      * PROVED (about a hand model of codegen.rs, NOT about erg): the stack accounting of the code generator reaches
        none of its abort sites on an HIR that satisfies the invariant [hcheck], the lowering of every fragment program
        satisfies it, so [compile] is total ([emit_total], [compile_total]).  The two places where reading the model
        against the code showed that erg's checker lets a program through that violates the invariant were real
        crashes, found this way and repaired ([legacy_while_cond_refuted], [legacy_lambda_kwdefaults_refuted]).
      * NOT PROVED, and not provable by this route: that erg's checker (lower.rs, context/*.rs - tens of thousands of
        lines) never panics and never reports an internal error.  That is decided by running erg on the generated
        programs; the judge [Spec.judge] is the property, [Spec.known_c07] names the known failing classes by
        internal-error site. *)
From Coq Require Import ZArith List Bool String.
From ErgV Require Import Common.Sx CoreErg.Syntax gen.Prec gen.BugSites.
From ErgV Require ExprParse.Model.
From ErgV Require Import NoCrash.Gen NoCrash.GenOps NoCrash.GenProofs NoCrash.Check NoCrash.CheckProofs NoCrash.RefCheck NoCrash.Spec.
Import ListNotations.

Definition cps := zs.

(** Input validity, operator sub-fragment: the text the printer produces for an expression of [ofrag] is the
    spelling of the lexeme list [lex_e]; the C11 lexer model turns those lexemes into the tokens [tok_e], both after
    `v =` (category DefOp) and at the start of a chunk; the C11 parser model (right-hand side of a definition, and
    bare expression statement) turns the tokens into the tree [ast e], which is [e] constructor by constructor.
    No bound on size or nesting depth. *)
Theorem print_expr_roundtrip : forall e, ofrag e = true ->
  p_expr vname e = spell (lex_e false e)
  /\ PM.lex cat_DefOp (lex_e false e) = PM.LexOk (tok_e false e)
  /\ PM.lex cat_BOF (lex_e false e) = PM.LexOk (tok_e false e)
  /\ PM.parse (tok_e false e) = PM.Ok (ast e)
  /\ PM.parse_chunk false (tok_e false e) = PM.Ok (ast e).
Proof. exact print_expr_roundtrip_proof. Qed.

(** non-vacuity: (v1 + (-5)) * -(v2) <= 2.5 and v3   is in the sub-fragment and prints as expected *)
Example print_expr_example :
  let e := ELogic WNone false
             (ECmp WNone CLe
                (EBin WNone OMul (EBin WNone OAdd (EVar WNone 1) (ELit WNone (LNeg (-5))))
                                 (EUn WNone UNeg (EVar WNone 2)))
                (ELit WNone (LFloat 4612811918334230528)))
             (EVar WNone 3) in
  ofrag e = true /\ p_expr vname e = zs "(((v1 + (-5)) * (-(v2))) <= 2.5) and v3"%string.
Proof. vm_compute. split; reflexivity. Qed.

(** The reference checker is total: every program of the fragment gets a verdict (there is no internal-error state). *)
Theorem check_total : forall cp, check cp = VOk \/ exists c, check cp = VErr c.
Proof. intros cp. destruct (check cp); eauto. Qed.

(** The modelled code generator reaches none of its abort sites (stack underflow, the debug assertions on the stack
    depth, Args::remove / unwrap on a missing argument, todo!/unreachable! arms, "invalid stack size") on an HIR that
    satisfies the invariant the front end owes it. *)
Theorem emit_total : forall p, hcheck p = true -> exists s, emit_module false p = COk s.
Proof. exact emit_module_total_proof. Qed.

(** Full statement asked for: a grammatical program that the reference checker accepts is compiled by the model
    without reaching an abort site.  (The two hypotheses are not even needed: the lowering of EVERY fragment tree,
    well-typed or not, satisfies the invariant - [compile_total_all].  They are needed for the real compiler, where
    rejected programs never reach the code generator.) *)
Theorem compile_total : forall cp, wf_prog cp -> check cp = VOk -> forall site, compile cp <> Crash site.
Proof. intros cp _ _ site H. destruct (compile_total_proof cp) as (s & E). congruence. Qed.

Theorem compile_total_all : forall cp, exists s, compile cp = COk s.
Proof. exact compile_total_proof. Qed.

(** non-vacuity: a program with every statement kind is grammatical, accepted by the reference checker, and compiled
    with the stack sizes (module 9, nested function 3) shown *)
Definition example_prog : cprog :=
  let lit := fun n => ELit WNat (LNat n) in
  mkCprog
    [SDef 1 None (EBin WNat OAdd (lit 1) (lit 2)); SPrint [EVar WNat 1];
     SMutDef 8 (lit 0);
     SWhile (ECmp WNone CLt (EVar WNone 8) (lit 3)) [SPrint [lit 1]; SInc 8];
     SFor 2 (EList WList [lit 1; lit 2]) [SPrint [EVar WNat 2]; SIf (ELit WBool (LBool true)) [SPrint []] true [SPrint []]];
     SFun 3 false [(4, TyNat, Some (lit 1))] TyNat
          [SDef 5 None (lit 1); SExpr (EIf WNat (ELit WBool (LBool true)) (lit 1) (EVar WNat 4))];
     SPat false [6; 7] (ETuple WNone [lit 1; lit 2]);
     SAssert (EUn WBool UNot (ELit WBool (LBool false)));
     SPrint [ECall WNat 3 [] [(4, lit 5)]]] [].
Example compile_example :
  wf_progb example_prog = true /\ check example_prog = VOk /\ hcheck (lower example_prog) = true
  /\ compile example_prog = COk (mkSt 1 9 0 [3%nat]).
Proof. vm_compute. repeat split; reflexivity. Qed.

(** The abort sites ARE reachable without the invariant (the hypothesis of [emit_total] is not vacuous): `if` with one
    argument runs into Args::remove (site 7), a definition in expression position into emit_expr's assertion (site 2),
    a for! block without parameter into emit_for_instr's assertion (site 8). *)
Theorem sites_reachable_without_check :
  emit_module false [HCallLocal false LIf [(None, HLit false)]] = Crash 7
  /\ emit_module false [HDefVar [HDefVar [HLit false]]] = Crash 2
  /\ emit_module false [HCallLocal false LFor [(None, HLit false); (None, HLambda false 0 false [] [HLit false])]] = Crash 8.
Proof. vm_compute. repeat split; reflexivity. Qed.

(** Findings made with this model (both repaired in /repo, known/C07.json; [emit true] = the code before the repairs).
    `while! g!(), do!: ...` (condition neither a block nor an identifier) is accepted by erg's checker and hit
    emit_while_instr's `_ => todo!()`. *)
Theorem legacy_while_cond_refuted :
  exists e, legacy_while_cond e = true /\ emit_module true [e] = Crash 9 /\ exists s, emit_module false [e] = COk s.
Proof.
  exists (HCallLocal false LWhile [(None, HCallLocal false LOther []); (None, HLambda false 0 false [] [HLit false])]).
  vm_compute. repeat split; try reflexivity. eexists; reflexivity.
Qed.

(** A lambda with variable arguments and a default (parameters `*a, b := 1`, body `b`) is accepted by erg's checker; emit_lambda popped the
    defaults only when the Defaults bit was set, not for KwDefaults: its assertion on the stack depth failed. *)
Theorem legacy_lambda_kwdefaults_refuted :
  exists e, legacy_lambda_kwdefaults e = true /\ emit_module true [HDefVar [e]] = Crash 4
            /\ exists s, emit_module false [HDefVar [e]] = COk s.
Proof.
  exists (HLambda false 1 true [HLit false] [HLit false]).
  vm_compute. repeat split; try reflexivity. eexists; reflexivity.
Qed.

(** The judge is the property, the classification is by site: a run in which every command ended with success or
    ordinary diagnostics satisfies the property and has verdict 0; a panic at an unlisted site and a hang are
    violations (-1).  (That each listed class still contains its witness is re-established by the check on every run.) *)
Theorem judge_spec :
  (forall os, judge os = true <-> forall o, In o os -> crashed o = false)
  /\ (forall os, judge os = true -> verdict os = 0%Z).
Proof.
  split.
  - intros os. unfold judge. rewrite forallb_forall. split; intros H o Ho; specialize (H o Ho).
    + apply negb_true_iff in H. exact H.
    + rewrite H. reflexivity.
  - intros os H. unfold verdict. unfold judge in H.
    assert (E : filter crashed os = []).
    { induction os as [|o r IH]; [reflexivity|]. simpl in H. apply andb_true_iff in H. destruct H as [H1 H2].
      simpl. apply negb_true_iff in H1. rewrite H1. apply IH. exact H2. }
    rewrite E. reflexivity.
Qed.

Example verdict_examples :
  verdict [mkObs 0 [] []; mkObs 1 [] []] = 0%Z
  /\ verdict [mkObs 2 (cps "crates/erg_compiler/no_such_file.rs:no_such_fn"%string) (cps "called `Option::unwrap()` on a `None` value"%string)] = (-1)%Z
  /\ verdict [mkObs 1 [] []; mkObs 5 (cps "timeout"%string) []] = (-1)%Z.
Proof. vm_compute. repeat split; reflexivity. Qed.

(** the generated site table is not empty and its counters are consistent *)
Theorem bug_sites_table :
  Z.of_nat (List.length bug_sites) = n_bug_sites
  /\ Z.of_nat (List.length (filter (fun s => snd s) bug_sites)) = n_anchored_sites /\ (0 < n_anchored_sites)%Z.
Proof. vm_compute. repeat split; reflexivity. Qed.
