(** * NoCrash.Gen — C07: the fragment grammar and its printer.

    The inputs of property C07 are "syntactically valid programs of the fragment grammar".  This file makes that a
    definition instead of an assumption about a Python generator:

      [cprog]        a CoreErg program (ErgV.CoreErg.Syntax) together with the set U of identifiers whose annotation is
                     NOT printed (untyped parameters, functions without return type, unannotated variables).  No typing
                     condition whatsoever: operands of any type, calls of any arity, undefined names are all in.
      [wf_progb]     the grammar as a decidable predicate (the check runs the extracted function on every generated
                     tree): literal ranges the lexer accepts, identifiers >= 0, the block rules of Erg (a nested block
                     is non-empty and does not end with a definition, the value of a function body stands last), the
                     text of a statement-level condition / iterable does not begin with an opening parenthesis
                     (`if! (a) and b:` would be read as a call of `if!`), defaults only on trailing parameters.
      [print_erg]    the printer: source text as a list of code points.  The check prints every program with the
                     extracted [print_erg] and with its Python twin (pylib/c07_gen.py to_erg) and requires equal texts.
                     Printing rules (so that precedence, C11, cannot interfere): every non-atomic operand is
                     parenthesised, negative literals in operand position are parenthesised, print!/assert/not/if are
                     written as calls, blocks are multi-line with 4 spaces per level.

    [ofrag] is the operator sub-fragment (natural / negative / float literals, variables, prefix - + ~, the seven
    arithmetic operators, the six comparisons, and / or) for which GenOps.v / GenProofs.v relate the printed text to
    the C11 models of the lexer and the parser.
    Definitions only; this file is extracted (no module aliases here: monolithic extraction cannot cope with them). *)
From Coq Require Import ZArith List Bool SpecFloat.
From ErgV Require Import Common.Sx CoreErg.Syntax.
From ErgV Require CoreErg.Sem.
Import ListNotations.
Open Scope Z_scope.

Record cprog := mkCprog { c_body : program; c_untyped : list Z }.

Definition dec_cprog (x : sx) : option cprog :=
  match x with
  | SL [p; SL us] =>
    match dec_program p, dec_zs us with
    | Some b, Some u => Some (mkCprog b u)
    | _, _ => None
    end
  | _ => None
  end.

(* ------------------------------------------------------------------ text helpers *)

Fixpoint join (sep : list Z) (l : list (list Z)) : list Z :=
  match l with
  | [] => []
  | [x] => x
  | x :: r => x ++ sep ++ join sep r
  end.

Definition memz (x : Z) (l : list Z) : bool := existsb (Z.eqb x) l.

Fixpoint spaces (n : nat) : list Z := match n with O => [] | S k => 32 :: spaces k end.
Definition indent (n : nat) : list Z := spaces (4 * n).

(* procedures are written p<id>! : Erg requires the `!` *)
Fixpoint procs_stmt (s : stmt) : list Z :=
  let fix go (ss : list stmt) : list Z :=
      match ss with [] => [] | x :: r => procs_stmt x ++ go r end in
  match s with
  | SFun f isp _ _ body => (if isp then [f] else []) ++ go body
  | SIf _ th _ el => go th ++ go el
  | SFor _ _ b => go b
  | SWhile _ b => go b
  | _ => []
  end.
Definition proc_ids (p : program) : list Z := flat_map procs_stmt p.

Definition vname (i : Z) : list Z := [118] (*"v"*) ++ ErgV.CoreErg.Sem.str_int i.
Definition name (procs : list Z) (i : Z) : list Z :=
  if memz i procs then [112] (*"p"*) ++ ErgV.CoreErg.Sem.str_int i ++ [33] (*"!"*) else vname i.

Fixpoint ty_text (t : ty) : list Z :=
  match t with
  | TyNone => [78; 111; 110; 101; 84; 121; 112; 101] (*"NoneType"*) | TyNat => [78; 97; 116] (*"Nat"*) | TyInt => [73; 110; 116] (*"Int"*) | TyFloat => [70; 108; 111; 97; 116] (*"Float"*) | TyStr => [83; 116; 114] (*"Str"*)
  | TyBool => [66; 111; 111; 108] (*"Bool"*)
  | TyList t => [76; 105; 115; 116; 40] (*"List("*) ++ ty_text t ++ [41] (*")"*)
  end.

(* ------------------------------------------------------------------ literals *)
Definition esc (c : Z) : list Z :=
  if c =? 34 then [92; 34] else if c =? 92 then [92; 92] else if c =? 10 then [92; 110] else [c].
Definition str_text (s : list Z) : list Z := 34 :: flat_map esc s ++ [34].

(** floats of the fragment: |value| = k / 1024 with k < 2^50; [float_k] = (sign, k) *)
Definition float_k (bits : Z) : option (bool * Z) :=
  match ErgV.CoreErg.Sem.b2sf bits with
  | S754_zero s => Some (s, 0)
  | S754_finite s m e =>
    let sh := e + 10 in
    if 0 <=? sh then (if sh <=? 40 then Some (s, Zpos m * 2 ^ sh) else None)
    else if (Zpos m) mod (2 ^ (- sh)) =? 0 then Some (s, Zpos m / 2 ^ (- sh)) else None
  | _ => None
  end.
Definition simple_float (bits : Z) : bool :=
  match float_k bits with Some (_, k) => k <? 2 ^ 50 | None => false end.

Fixpoint pad_digits (n : nat) (v : Z) : list Z :=
  match n with O => [] | S n' => pad_digits n' (v / 10) ++ [48 + v mod 10] end.
Fixpoint strip0 (l : list Z) : list Z :=
  match l with
  | [] => []
  | x :: r => match strip0 r with [] => if x =? 48 then [] else [x] | r' => x :: r' end
  end.
(* fp / 1024 = fp * 5^10 / 10^10 : ten digits, trailing zeros removed, at least one digit *)
Definition frac_text (fp : Z) : list Z :=
  match strip0 (pad_digits 10 (fp * 9765625)) with [] => [48] | d => d end.
Definition ufloat_text (k : Z) : list Z := ErgV.CoreErg.Sem.str_int (k / 1024) ++ [46] ++ frac_text (k mod 1024).
Definition float_text (bits : Z) : list Z :=
  match float_k bits with
  | Some (s, k) => (if s then [45] else []) ++ ufloat_text k
  | None => [48; 46; 48] (*"0.0"*)
  end.

Definition lit_text (l : lit) : list Z :=
  match l with
  | LNat n => ErgV.CoreErg.Sem.str_int n
  | LNeg z => ErgV.CoreErg.Sem.str_int z
  | LFloat b => float_text b
  | LStr s => str_text s
  | LBool b => if b then [84; 114; 117; 101] (*"True"*) else [70; 97; 108; 115; 101] (*"False"*)
  | LNone => [78; 111; 110; 101] (*"None"*)
  end.

(* ------------------------------------------------------------------ expressions *)
Definition arith_text (o : arith) : list Z :=
  match o with OAdd => [43] (*"+"*) | OSub => [45] (*"-"*) | OMul => [42] (*"*"*) | ODiv => [47] (*"/"*) | OFloorDiv => [47; 47] (*"//"*) | OMod => [37] (*"%"*)
             | OPow => [42; 42] (*"**"*) end.
Definition cmp_text (o : cmpop) : list Z :=
  match o with CLt => [60] (*"<"*) | CLe => [60; 61] (*"<="*) | CEq => [61; 61] (*"=="*) | CNe => [33; 61] (*"!="*) | CGt => [62] (*">"*) | CGe => [62; 61] (*">="*) end.
Definition unop_text (o : unop) : list Z :=
  match o with UNeg => [45] (*"-"*) | UPos => [43] (*"+"*) | UNot => [110; 111; 116] (*"not"*) | UInv => [126] (*"~"*) end.

(** operand that needs no parentheses *)
Definition atomic (e : expr) : bool :=
  match e with
  | ELit _ (LNeg _) => false
  | ELit _ (LFloat b) => b <? ErgV.CoreErg.Sem.sign_bit
  | ELit _ _ => true
  | EUn _ UNot _ => true
  | EVar _ _ | EList _ _ | ECall _ _ _ _ | ELen _ _ | EAbs _ _ | EIndex _ _ _ | EIf _ _ _ _ => true
  | _ => false
  end.

Definition paren (t : list Z) : list Z := [40] (*"("*) ++ t ++ [41] (*")"*).

Fixpoint p_expr (nm : Z -> list Z) (e : expr) {struct e} : list Z :=
  match e with
  | ELit _ l => lit_text l
  | EVar _ x => nm x
  | EUn _ o a => unop_text o ++ paren (p_expr nm a)
  | EBin _ o a b => (if atomic a then p_expr nm a else paren (p_expr nm a)) ++ [32] (*" "*) ++ arith_text o ++ [32] (*" "*)
                    ++ (if atomic b then p_expr nm b else paren (p_expr nm b))
  | ECmp _ o a b => (if atomic a then p_expr nm a else paren (p_expr nm a)) ++ [32] (*" "*) ++ cmp_text o ++ [32] (*" "*)
                    ++ (if atomic b then p_expr nm b else paren (p_expr nm b))
  | ELogic _ k a b => (if atomic a then p_expr nm a else paren (p_expr nm a)) ++ (if k then [32; 111; 114; 32] (*" or "*) else [32; 97; 110; 100; 32] (*" and "*))
                      ++ (if atomic b then p_expr nm b else paren (p_expr nm b))
  | EList _ es =>
    [91] (*"["*) ++ join ([44; 32] (*", "*)) ((fix go (l : list expr) : list (list Z) :=
                                 match l with [] => [] | x :: r => p_expr nm x :: go r end) es) ++ [93] (*"]"*)
  | ETuple _ es =>
    [40] (*"("*) ++ join ([44; 32] (*", "*)) ((fix go (l : list expr) : list (list Z) :=
                                 match l with [] => [] | x :: r => p_expr nm x :: go r end) es) ++ [41] (*")"*)
  | EIndex _ a i => (if atomic a then p_expr nm a else paren (p_expr nm a)) ++ [91] (*"["*) ++ p_expr nm i ++ [93] (*"]"*)
  | EIf _ c a b => [105; 102; 40] (*"if("*) ++ p_expr nm c ++ [44; 32; 40; 100; 111; 58; 32] (*", (do: "*) ++ p_expr nm a ++ [41; 44; 32; 40; 100; 111; 58; 32] (*"), (do: "*) ++ p_expr nm b ++ [41; 41] (*"))"*)
  | ECall _ f args kw =>
    nm f ++ [40] (*"("*)
       ++ join ([44; 32] (*", "*))
               ((fix go (l : list expr) : list (list Z) :=
                   match l with [] => [] | x :: r => p_expr nm x :: go r end) args
                ++ (fix gokw (l : list (Z * expr)) : list (list Z) :=
                      match l with [] => [] | (p, x) :: r => (nm p ++ [32; 58; 61; 32] (*" := "*) ++ p_expr nm x) :: gokw r end) kw)
       ++ [41] (*")"*)
  | ELen _ a => [108; 101; 110; 40] (*"len("*) ++ p_expr nm a ++ [41] (*")"*)
  | EAbs _ a => [97; 98; 115; 40] (*"abs("*) ++ p_expr nm a ++ [41] (*")"*)
  | ERange _ a b => (if atomic a then p_expr nm a else paren (p_expr nm a)) ++ [46; 46; 60] (*"..<"*)
                    ++ (if atomic b then p_expr nm b else paren (p_expr nm b))
  end.

(** nested destructuring pattern, as pylib/coreerg_gen.py erg_pat writes it *)
Fixpoint p_pat (nm : Z -> list Z) (p : pat) {struct p} : list Z :=
  match p with
  | PVar x => nm x
  | PDiscard => [95] (*"_"*)
  | PTuple ps =>
    [40] (*"("*) ++ join ([44; 32] (*", "*)) ((fix go (l : list pat) : list (list Z) :=
                                   match l with [] => [] | x :: r => p_pat nm x :: go r end) ps) ++ [41] (*")"*)
  | PList ps =>
    [91] (*"["*) ++ join ([44; 32] (*", "*)) ((fix go (l : list pat) : list (list Z) :=
                                   match l with [] => [] | x :: r => p_pat nm x :: go r end) ps) ++ [93] (*"]"*)
  end.
Fixpoint pat_ids (p : pat) : list Z :=
  match p with
  | PVar x => [x]
  | PDiscard => []
  | PTuple ps | PList ps =>
    (fix go (l : list pat) : list Z := match l with [] => [] | x :: r => pat_ids x ++ go r end) ps
  end.

Definition p_op (nm : Z -> list Z) (e : expr) : list Z := if atomic e then p_expr nm e else paren (p_expr nm e).

(* ------------------------------------------------------------------ statements *)
Definition p_param (nm : Z -> list Z) (U : list Z) (p : Z * ty * option expr) : list Z :=
  let '(pid, t, d) := p in
  nm pid ++ (if memz pid U then [] else [58; 32] (*": "*) ++ ty_text t)
     ++ (match d with Some d => [32; 58; 61; 32] (*" := "*) ++ p_op nm d | None => [] end).
Definition p_lparam (nm : Z -> list Z) (U : list Z) (p : Z * ty) : list Z :=
  let '(pid, t) := p in nm pid ++ (if memz pid U then [] else [58; 32] (*": "*) ++ ty_text t).

Fixpoint p_stmt (nm : Z -> list Z) (U : list Z) (ind : nat) (s : stmt) {struct s} : list (list Z) :=
  let fix blk (ss : list stmt) (k : nat) : list (list Z) :=
      match ss with [] => [] | x :: r => p_stmt nm U k x ++ blk r k end in
  let p := indent ind in
  match s with
  | SExpr e => [p ++ p_expr nm e]
  | SPrint es => [p ++ [112; 114; 105; 110; 116; 33; 40] (*"print!("*) ++ join ([44; 32] (*", "*)) (map (p_expr nm) es) ++ [41] (*")"*)]
  | SAssert e => [p ++ [97; 115; 115; 101; 114; 116; 40] (*"assert("*) ++ p_expr nm e ++ [41] (*")"*)]
  | SDef x ann e =>
    [p ++ nm x ++ (match ann with Some t => if memz x U then [] else [58; 32] (*": "*) ++ ty_text t | None => [] end)
       ++ [32; 61; 32] (*" = "*) ++ p_expr nm e]
  | SIf c th he el =>
    if he then
      [p ++ [105; 102; 33; 32] (*"if! "*) ++ p_expr nm c ++ [58] (*":"*); p ++ [32; 32; 32; 32; 100; 111; 33; 58] (*"    do!:"*)] ++ blk th (ind + 2)%nat
        ++ [p ++ [32; 32; 32; 32; 100; 111; 33; 58] (*"    do!:"*)] ++ blk el (ind + 2)%nat
    else [p ++ [105; 102; 33; 32] (*"if! "*) ++ p_expr nm c ++ [44; 32; 100; 111; 33; 58] (*", do!:"*)] ++ blk th (ind + 1)%nat
  | SFor x it body => [p ++ [102; 111; 114; 33; 32] (*"for! "*) ++ p_expr nm it ++ [44; 32] (*", "*) ++ nm x ++ [32; 61; 62] (*" =>"*)] ++ blk body (ind + 1)%nat
  | SWhile c body => [p ++ [119; 104; 105; 108; 101; 33; 32; 100; 111; 33; 32] (*"while! do! "*) ++ p_expr nm c ++ [44; 32; 100; 111; 33; 58] (*", do!:"*)] ++ blk body (ind + 1)%nat
  | SMutDef x e => [p ++ nm x ++ [32; 61; 32; 33] (*" = !"*) ++ p_op nm e]
  | SInc x => [p ++ nm x ++ [46; 105; 110; 99; 33; 40; 41] (*".inc!()"*)]
  | SUpdate x q e => [p ++ nm x ++ [46; 117; 112; 100; 97; 116; 101; 33; 40] (*".update!("*) ++ nm q ++ [32; 45; 62; 32] (*" -> "*) ++ p_expr nm e ++ [41] (*")"*)]
  | SFun f isp params ret body =>
    [p ++ nm f ++ [40] (*"("*) ++ join ([44; 32] (*", "*)) (map (p_param nm U) params) ++ [41] (*")"*)
       ++ (if isp || memz f U then [] else [58; 32] (*": "*) ++ ty_text ret) ++ [32; 61] (*" ="*)] ++ blk body (ind + 1)%nat
  | SLam f params e =>
    [p ++ nm f ++ [32; 61; 32; 40] (*" = ("*) ++ join ([44; 32] (*", "*)) (map (p_lparam nm U) params) ++ [41; 32; 45; 62; 32] (*") -> "*) ++ p_expr nm e]
  | SPat isl ids e =>
    [p ++ (if isl then [91] (*"["*) else [40] (*"("*)) ++ join ([44; 32] (*", "*)) (map nm ids) ++ (if isl then [93; 32; 61; 32] (*"] = "*) else [41; 32; 61; 32] (*") = "*))
       ++ p_expr nm e]
  | SPCall f args => [p ++ nm f ++ [40] (*"("*) ++ join ([44; 32] (*", "*)) (map (p_expr nm) args) ++ [41] (*")"*)]
  | SNPat pt e => [p ++ p_pat nm pt ++ [32; 61; 32] (*" = "*) ++ p_expr nm e]
  end.

Definition print_lines (cp : cprog) : list (list Z) :=
  flat_map (p_stmt (name (proc_ids (c_body cp))) (c_untyped cp) 0) (c_body cp).
Definition print_erg (cp : cprog) : list Z := flat_map (fun l => l ++ [10]) (print_lines cp).

(* ------------------------------------------------------------------ the grammar *)
(** code points allowed inside a string literal: newline, printable ASCII, and everything from U+00A0 up that is a
    Unicode scalar value and not a bidirectional control (the lexer rejects those); TAB is excluded because the lexer
    rewrites it *)
Definition cp_ok (c : Z) : bool :=
  (c =? 10) || ((32 <=? c) && (c <? 127))
  || ((160 <=? c) && (c <=? 1114111) && negb ((55296 <=? c) && (c <=? 57343))
      && negb ((8234 <=? c) && (c <=? 8238)) && negb ((8294 <=? c) && (c <=? 8297))
      && negb ((8206 <=? c) && (c <=? 8207)) && negb (c =? 1564) && negb (c =? 65279)).

Definition wf_lit (l : lit) : bool :=
  match l with
  | LNat n => (0 <=? n) && (n <? 2 ^ 64)
  | LNeg z => (- 2 ^ 31 <=? z) && (z <? 0)
  | LFloat b => (0 <=? b) && (b <? 2 ^ 64) && simple_float b
  | LStr s => forallb cp_ok s
  | LBool _ | LNone => true
  end.

Fixpoint wf_expr (e : expr) : bool :=
  match e with
  | ELit _ l => wf_lit l
  | EVar _ x => 0 <=? x
  | EUn _ _ a | ELen _ a | EAbs _ a => wf_expr a
  | EBin _ _ a b | ECmp _ _ a b | ELogic _ _ a b | EIndex _ a b | ERange _ a b => wf_expr a && wf_expr b
  | EIf _ c a b => wf_expr c && wf_expr a && wf_expr b
  | EList _ es | ETuple _ es =>
    (fix go (l : list expr) : bool := match l with [] => true | x :: r => wf_expr x && go r end) es
  | ECall _ f args kw =>
    (0 <=? f)
    && (fix go (l : list expr) : bool := match l with [] => true | x :: r => wf_expr x && go r end) args
    && (fix gokw (l : list (Z * expr)) : bool :=
          match l with [] => true | (p, x) :: r => (0 <=? p) && wf_expr x && gokw r end) kw
  end.

(** does the printed text begin with an opening parenthesis? *)
Fixpoint starts_paren (e : expr) : bool :=
  match e with
  | EBin _ _ a _ | ECmp _ _ a _ | ELogic _ _ a _ | ERange _ a _ | EIndex _ a _ =>
    if atomic a then starts_paren a else true
  | ETuple _ _ => true
  | _ => false
  end.

Definition is_def (s : stmt) : bool :=
  match s with SDef _ _ _ | SMutDef _ _ | SFun _ _ _ _ _ | SLam _ _ _ | SPat _ _ _ | SNPat _ _ => true | _ => false end.
Definition is_sexpr (s : stmt) : bool := match s with SExpr _ => true | _ => false end.

Fixpoint last_is_def (ss : list stmt) : bool :=
  match ss with [] => true | [x] => is_def x | _ :: r => last_is_def r end.

Fixpoint defaults_tail (seen : bool) (ps : list (Z * ty * option expr)) : bool :=
  match ps with
  | [] => true
  | (_, _, Some _) :: r => defaults_tail true r
  | (_, _, None) :: r => negb seen && defaults_tail false r
  end.

Definition wf_param (p : Z * ty * option expr) : bool :=
  let '(pid, _, d) := p in (0 <=? pid) && match d with Some d => wf_expr d | None => true end.

(** [wf_stmt s]: the statement and everything below it; the position of [SExpr] is checked by the block functions *)
Fixpoint wf_stmt (s : stmt) : bool :=
  (* a nested block / procedure body: non-empty (by last_is_def []), no SExpr, does not end with a definition *)
  let fix blk (ss : list stmt) : bool :=
      match ss with [] => true | x :: r => wf_stmt x && negb (is_sexpr x) && blk r end in
  (* a function body: SExpr only as the last statement *)
  let fix fbody (ss : list stmt) : bool :=
      match ss with
      | [] => true
      | [x] => wf_stmt x
      | x :: r => wf_stmt x && negb (is_sexpr x) && fbody r
      end in
  match s with
  | SExpr e | SAssert e => wf_expr e
  | SPrint es | SPCall _ es =>
    (match s with SPCall f _ => 0 <=? f | _ => true end) && forallb wf_expr es
  | SDef x _ e | SMutDef x e => (0 <=? x) && wf_expr e
  | SIf c th he el =>
    wf_expr c && negb (starts_paren c) && blk th && negb (last_is_def th)
    && (if he then blk el && negb (last_is_def el) else match el with [] => true | _ => false end)
  | SFor x it body => (0 <=? x) && wf_expr it && negb (starts_paren it) && blk body && negb (last_is_def body)
  | SWhile c body => wf_expr c && negb (starts_paren c) && blk body && negb (last_is_def body)
  | SInc x => 0 <=? x
  | SUpdate x q e => (0 <=? x) && (0 <=? q) && wf_expr e
  | SFun f isp params _ body =>
    (0 <=? f) && forallb wf_param params && defaults_tail false params
    && (if isp then blk body else fbody body) && negb (last_is_def body)
  | SLam f params e => (0 <=? f) && forallb (fun p => 0 <=? fst p) params && wf_expr e
  | SPat _ ids e => (match ids with [] => false | _ => true end) && forallb (Z.leb 0) ids && wf_expr e
  | SNPat pt e =>
    (match pt with PTuple (_ :: _) | PList (_ :: _) => true | _ => false end) && forallb (Z.leb 0) (pat_ids pt) && wf_expr e
  end.

Definition wf_progb (cp : cprog) : bool :=
  forallb (fun s => wf_stmt s && negb (is_sexpr s)) (c_body cp) && forallb (Z.leb 0) (c_untyped cp).
Definition wf_prog (cp : cprog) : Prop := wf_progb cp = true.

(* ------------------------------------------------------------------ the operator sub-fragment, in C11's terms *)
Fixpoint ofrag (e : expr) : bool :=
  match e with
  | ELit _ (LNat n) => 0 <=? n
  | ELit _ (LNeg z) => z <? 0
  | ELit _ (LFloat b) => (0 <=? b) && simple_float b
  | EVar _ x => 0 <=? x
  | EUn _ UNot _ => false
  | EUn _ _ a => ofrag a
  | EBin _ _ a b | ECmp _ _ a b | ELogic _ _ a b => ofrag a && ofrag b
  | _ => false
  end.

