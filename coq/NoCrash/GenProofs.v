(** * NoCrash.GenProofs — the printed text of the operator sub-fragment lexes and parses to the intended tree
    (against the C11 models ErgV.ExprParse.Model of Lexer::op_fix / negative-literal folding and of the parser's
    operator stack), and the grammar predicate is what the generator promises. *)
From Coq Require Import ZArith NArith List Bool String Ascii Lia Arith.
From ErgV Require Import Common.Sx CoreErg.Syntax gen.Prec.
From ErgV Require CoreErg.Sem ExprParse.Model ExprParse.Spec ExprParse.Proofs.
From ErgV Require Import NoCrash.Gen NoCrash.GenOps.
Import ListNotations.

Module PS := ErgV.ExprParse.Spec.
Module PP := ErgV.ExprParse.Proofs.

(* ------------------------------------------------------------------ T1: the text is the spelling of the lexemes *)
Local Open Scope Z_scope.

Lemma spell_app : forall a b, spell (a ++ b) = spell a ++ spell b.
Proof. intros. unfold spell. apply flat_map_app. Qed.

Lemma spell_cons : forall sp l r, spell ((sp, l) :: r) = (if sp then [32] else []) ++ lexeme_text l ++ spell r.
Proof. intros. unfold spell. simpl. rewrite app_assoc. reflexivity. Qed.

Definition spt (sp : bool) : list Z := if sp then [32] else [].

Lemma str_int_nonneg : forall n, 0 <=? n = true -> Sem.str_int n = Sem.dec_nonneg n.
Proof. intros n H. unfold Sem.str_int. apply Z.leb_le in H. destruct (n <? 0) eqn:E; [apply Z.ltb_lt in E; lia|reflexivity]. Qed.

Lemma str_int_neg : forall z, z <? 0 = true -> Sem.str_int z = 45 :: Sem.dec_nonneg (- z).
Proof. intros z H. unfold Sem.str_int. rewrite H. reflexivity. Qed.

Lemma arith_sym_text : forall o, opsym_text (arith_sym o) = arith_text o.
Proof. destruct o; reflexivity. Qed.
Lemma cmp_sym_text : forall o, binop_text (cmp_bin o) = cmp_text o.
Proof. destruct o; reflexivity. Qed.

Definition opnd_lex (sp : bool) (e : expr) : list (bool * PM.lexeme) :=
  if atomic e then lex_e sp e else (sp, PM.LLP) :: lex_e false e ++ [(false, PM.LRP)].

Lemma spell_opnd : forall e sp,
  (forall sp, spell (lex_e sp e) = spt sp ++ p_expr vname e) ->
  spell (opnd_lex sp e) = spt sp ++ p_op vname e.
Proof.
  intros e sp IH. unfold opnd_lex, p_op. destruct (atomic e); [apply IH|].
  rewrite spell_cons, spell_app, IH. simpl. reflexivity.
Qed.

Lemma print_is_spell_gen : forall e, ofrag e = true -> forall sp, spell (lex_e sp e) = spt sp ++ p_expr vname e.
Proof.
  induction e as [w l|w x|w op e IHe|w op e1 e2 IHe1 IHe2|w op e1 e2 IHe1 IHe2|w is_or e1 e2 IHe1 IHe2|w es IH|w a i IHa IHi
                  |w c a b IHc IHa IHb|w f args kw IHargs IHkw|w a IHa|w a IHa|w a b IHa IHb|w es IH] using expr_ind';
    intros Hf sp; simpl in Hf; try discriminate.
  - (* literal *)
    destruct l; try discriminate; simpl.
    + rewrite (str_int_nonneg _ Hf), app_nil_r. reflexivity.
    + rewrite (str_int_neg _ Hf), app_nil_r. destruct sp; reflexivity.
    + apply andb_true_iff in Hf. destruct Hf as [_ Hf]. unfold simple_float in Hf. unfold float_text.
      destruct (float_k bits) as [[s k]|] eqn:E; [|discriminate].
      destruct s; simpl; rewrite app_nil_r; destruct sp; reflexivity.
  - simpl. rewrite app_nil_r. reflexivity.
  - (* unary *)
    assert (Ha : ofrag e = true) by (destruct op; auto; discriminate).
    assert (Ho : opsym_text (un_sym op) = unop_text op) by (destruct op; try reflexivity; discriminate).
    change (lex_e sp (EUn w op e)) with ((sp, PM.LOp (un_sym op)) :: (false, PM.LLP) :: lex_e false e ++ [(false, PM.LRP)]).
    rewrite !spell_cons, spell_app, (IHe Ha). simpl. rewrite Ho. destruct sp; reflexivity.
  - (* arithmetic *)
    apply andb_true_iff in Hf. destruct Hf as [Ha Hb].
    change (lex_e sp (EBin w op e1 e2)) with (opnd_lex sp e1 ++ (true, PM.LOp (arith_sym op)) :: opnd_lex true e2).
    rewrite spell_app, spell_cons, (spell_opnd e1 sp (IHe1 Ha)), (spell_opnd e2 true (IHe2 Hb)).
    simpl lexeme_text. rewrite arith_sym_text. simpl. unfold p_op. rewrite <- !app_assoc. reflexivity.
  - apply andb_true_iff in Hf. destruct Hf as [Ha Hb].
    change (lex_e sp (ECmp w op e1 e2)) with (opnd_lex sp e1 ++ (true, PM.LOp (PM.SBin (cmp_bin op))) :: opnd_lex true e2).
    rewrite spell_app, spell_cons, (spell_opnd e1 sp (IHe1 Ha)), (spell_opnd e2 true (IHe2 Hb)).
    simpl lexeme_text. rewrite cmp_sym_text. simpl. unfold p_op. rewrite <- !app_assoc. reflexivity.
  - apply andb_true_iff in Hf. destruct Hf as [Ha Hb].
    change (lex_e sp (ELogic w is_or e1 e2)) with (opnd_lex sp e1 ++ (true, PM.LOp (PM.SBin (logic_bin is_or))) :: opnd_lex true e2).
    rewrite spell_app, spell_cons, (spell_opnd e1 sp (IHe1 Ha)), (spell_opnd e2 true (IHe2 Hb)).
    simpl. unfold p_op. rewrite <- !app_assoc. destruct is_or; reflexivity.
Qed.

(* ------------------------------------------------------------------ T2: the lexemes lex to the tokens *)
Definition prefix_cat (c : N) : Prop := forall sp a, PM.op_fix c sp a = Some PM.Prefix.
Definition operand_cat (c : N) : Prop :=
  PM.op_fix c true (Some true) = Some PM.Infix /\ PM.op_fix c false (Some true) = Some PM.Infix.

Definition lapp (ts : list PM.tok) (r : PM.lexres) : PM.lexres :=
  match r with PM.LexOk ts' => PM.LexOk (ts ++ ts') | e => e end.

Lemma lex_cons_lapp : forall t r, PM.lex_cons t r = lapp [t] r.
Proof. intros t [ts| |]; reflexivity. Qed.
Lemma lapp_lapp : forall a b r, lapp a (lapp b r) = lapp (a ++ b) r.
Proof. intros a b [ts| |]; simpl; try reflexivity. rewrite app_assoc. reflexivity. Qed.
Lemma lapp_nil : forall r, lapp [] r = r.
Proof. intros [ts| |]; reflexivity. Qed.

Definition follow_ok (rest : list (bool * PM.lexeme)) : Prop :=
  match rest with
  | [] => True
  | (true, _) :: _ => True
  | (false, PM.LRP) :: _ => True
  | _ => False
  end.

Lemma prefix_binop : forall o, prefix_cat (PM.category (PM.binop_kind o)).
Proof. intros o sp a. destruct o; destruct sp; destruct a as [[]|]; reflexivity. Qed.
Lemma prefix_preop : forall p, prefix_cat (PM.category (PM.preop_kind p)).
Proof. intros p sp a. destruct p; destruct sp; destruct a as [[]|]; reflexivity. Qed.
Lemma prefix_lparen : prefix_cat (PM.category kind_LParen).
Proof. intros sp a. destruct sp; destruct a as [[]|]; reflexivity. Qed.
Lemma prefix_defop : prefix_cat cat_DefOp.
Proof. intros sp a. destruct sp; destruct a as [[]|]; reflexivity. Qed.
Lemma prefix_bof : prefix_cat cat_BOF.
Proof. intros sp a. destruct sp; destruct a as [[]|]; reflexivity. Qed.
Lemma operand_lit : forall k, operand_cat (PM.category (PM.litkind_kind k)).
Proof. destruct k; split; reflexivity. Qed.
Lemma operand_sym : operand_cat (PM.category kind_Symbol).
Proof. split; reflexivity. Qed.
Lemma operand_rparen : operand_cat (PM.category kind_RParen).
Proof. split; reflexivity. Qed.

Lemma glued_lp : forall l, PM.glued PM.LLP l = false.
Proof. destruct l as [n|r s|[| | | | |[]]| | | |]; reflexivity. Qed.
Lemma glued_rp : forall l, PM.glued PM.LRP l = false.
Proof. destruct l as [n|r s|[| | | | |[]]| | | |]; reflexivity. Qed.
Lemma next_glued_lp : forall r, PM.next_glued PM.LLP r = false.
Proof. intros [|[[] l] r]; simpl; auto using glued_lp. Qed.
Lemma next_glued_rp : forall r, PM.next_glued PM.LRP r = false.
Proof. intros [|[[] l] r]; simpl; auto using glued_rp. Qed.

Lemma next_glued_follow : forall l rest, follow_ok rest ->
  (forall l', l' = PM.LRP -> PM.glued l l' = false) -> PM.next_glued l rest = false.
Proof.
  intros l [|[[] l'] r] Hf Hg; simpl; auto. simpl in Hf. destruct l'; try contradiction. apply Hg. reflexivity.
Qed.

Lemma num_follow : forall ratio s rest, follow_ok rest -> PM.num_follow_ok ratio s rest = true.
Proof.
  intros ratio s [|[[] l'] r] Hf; simpl; auto.
  simpl in Hf. destruct l'; try contradiction. reflexivity.
Qed.

Lemma next_glued_sp : forall l l' r, PM.next_glued l ((true, l') :: r) = false.
Proof. reflexivity. Qed.

Definition opnd_tok (sp : bool) (e : expr) : list PM.tok :=
  if atomic e then tok_e sp e else PM.TLP (negb sp) :: tok_e false e ++ [PM.TRP].

(** the first lexeme of an expression carries the white-space flag it was given *)
Lemma lex_e_head : forall e sp, ofrag e = true -> exists l r, lex_e sp e = (sp, l) :: r.
Proof.
  induction e as [w l|w x|w op e IHe|w op e1 e2 IHe1 IHe2|w op e1 e2 IHe1 IHe2|w is_or e1 e2 IHe1 IHe2|w es IH|w a i IHa IHi
                  |w c a b IHc IHa IHb|w f args kw IHargs IHkw|w a IHa|w a IHa|w a b IHa IHb|w es IH] using expr_ind';
    intros sp Hf; simpl in Hf; try discriminate.
  - destruct l; try discriminate; simpl; eauto.
    apply andb_true_iff in Hf. destruct Hf as [_ Hf]. unfold simple_float in Hf.
    destruct (float_k bits) as [[[] k]|]; try discriminate; eauto.
  - simpl; eauto.
  - simpl; eauto.
  - apply andb_true_iff in Hf. destruct Hf as [Ha _]. simpl.
    destruct (atomic e1); [destruct (IHe1 sp Ha) as (l & r & ->)|]; simpl; eauto.
  - apply andb_true_iff in Hf. destruct Hf as [Ha _]. simpl.
    destruct (atomic e1); [destruct (IHe1 sp Ha) as (l & r & ->)|]; simpl; eauto.
  - apply andb_true_iff in Hf. destruct Hf as [Ha _]. simpl.
    destruct (atomic e1); [destruct (IHe1 sp Ha) as (l & r & ->)|]; simpl; eauto.
Qed.

Lemma opnd_head : forall e sp, ofrag e = true -> exists l r, opnd_lex sp e = (sp, l) :: r.
Proof. intros e sp Hf. unfold opnd_lex. destruct (atomic e); [apply lex_e_head; auto|eauto]. Qed.

Definition lex_stmt (e : expr) : Prop :=
  forall sp c rest, prefix_cat c -> follow_ok rest ->
    exists c', operand_cat c' /\ PM.lex_from c (lex_e sp e ++ rest) = lapp (tok_e sp e) (PM.lex_from c' rest).

Lemma lex_paren : forall e sp c rest, lex_stmt e -> prefix_cat c -> follow_ok rest ->
  exists c', operand_cat c' /\
    PM.lex_from c (((sp, PM.LLP) :: lex_e false e ++ [(false, PM.LRP)]) ++ rest)
    = lapp (PM.TLP (negb sp) :: tok_e false e ++ [PM.TRP]) (PM.lex_from c' rest).
Proof.
  intros e sp c rest IH Hc Hr.
  exists (PM.category kind_RParen). split; [apply operand_rparen|].
  simpl app. rewrite <- app_assoc. simpl app.
  cbn [PM.lex_from]. rewrite next_glued_lp.
  destruct (IH false (PM.category kind_LParen) ((false, PM.LRP) :: rest) prefix_lparen I) as (c' & Hc' & ->).
  cbn [PM.lex_from]. rewrite next_glued_rp.
  rewrite !lex_cons_lapp, !lapp_lapp. reflexivity.
Qed.

Lemma lex_opnd : forall e sp c rest, lex_stmt e -> prefix_cat c -> follow_ok rest ->
  exists c', operand_cat c' /\ PM.lex_from c (opnd_lex sp e ++ rest) = lapp (opnd_tok sp e) (PM.lex_from c' rest).
Proof.
  intros e sp c rest IH Hc Hr. unfold opnd_lex, opnd_tok. destruct (atomic e); [apply IH; auto|apply lex_paren; auto].
Qed.

Lemma lex_binary : forall (e1 e2 : expr) (sym : PM.opsym) (o : PM.binop) sp c rest,
  ofrag e2 = true ->
  lex_stmt e1 -> lex_stmt e2 -> prefix_cat c -> follow_ok rest ->
  (forall c1 r, operand_cat c1 ->
     PM.lex_from c1 ((true, PM.LOp sym) :: (opnd_lex true e2 ++ r))
     = PM.lex_cons (PM.TBin o) (PM.lex_from (PM.category (PM.binop_kind o)) (opnd_lex true e2 ++ r))) ->
  exists c', operand_cat c' /\
    PM.lex_from c ((opnd_lex sp e1 ++ (true, PM.LOp sym) :: opnd_lex true e2) ++ rest)
    = lapp (opnd_tok sp e1 ++ PM.TBin o :: opnd_tok true e2) (PM.lex_from c' rest).
Proof.
  intros e1 e2 sym o sp c rest Hf2 IH1 IH2 Hc Hr Hop.
  rewrite <- app_assoc. simpl app.
  destruct (lex_opnd e1 sp c ((true, PM.LOp sym) :: opnd_lex true e2 ++ rest) IH1 Hc I) as (c1 & Hc1 & ->).
  rewrite (Hop c1 rest Hc1).
  destruct (lex_opnd e2 true _ rest IH2 (prefix_binop o) Hr) as (c2 & Hc2 & ->).
  exists c2. split; [assumption|].
  rewrite lex_cons_lapp, !lapp_lapp. rewrite <- app_assoc. reflexivity.
Qed.

Lemma lex_e_ok : forall e, ofrag e = true -> lex_stmt e.
Proof.
  induction e as [w l|w x|w op e IHe|w op e1 e2 IHe1 IHe2|w op e1 e2 IHe1 IHe2|w is_or e1 e2 IHe1 IHe2|w es IH|w a i IHa IHi
                  |w c a b IHc IHa IHb|w f args kw IHargs IHkw|w a IHa|w a IHa|w a b IHa IHb|w es IH] using expr_ind';
    intros Hf; simpl in Hf; try discriminate.
  - (* literals *)
    intros sp c rest Hc Hr.
    destruct l; try discriminate.
    + exists (PM.category (PM.litkind_kind (PM.num_kind false false (Sem.dec_nonneg n)))). split; [apply operand_lit|].
      simpl. rewrite (num_follow _ _ _ Hr). rewrite lex_cons_lapp. reflexivity.
    + exists (PM.category (PM.litkind_kind (PM.num_kind true false (Sem.dec_nonneg (- z))))). split; [apply operand_lit|].
      simpl. rewrite (Hc sp (Some false)). rewrite (num_follow _ _ _ Hr). rewrite lex_cons_lapp. reflexivity.
    + apply andb_true_iff in Hf. destruct Hf as [_ Hf]. unfold simple_float in Hf.
      simpl. destruct (float_k bits) as [[[] k]|] eqn:E; try discriminate.
      * exists (PM.category (PM.litkind_kind (PM.num_kind true true (ufloat_text k)))). split; [apply operand_lit|].
        simpl. rewrite (Hc sp (Some false)). rewrite (num_follow _ _ _ Hr). rewrite lex_cons_lapp. reflexivity.
      * exists (PM.category (PM.litkind_kind (PM.num_kind false true (ufloat_text k)))). split; [apply operand_lit|].
        simpl. rewrite (num_follow _ _ _ Hr). rewrite lex_cons_lapp. reflexivity.
  - (* variable *)
    intros sp c rest Hc Hr. exists (PM.category kind_Symbol). split; [apply operand_sym|].
    simpl. rewrite (next_glued_follow (PM.LIdent x) rest Hr) by (intros l' ->; reflexivity).
    rewrite lex_cons_lapp. reflexivity.
  - (* prefix operator applied to a parenthesised operand *)
    assert (Ha : ofrag e = true) by (destruct op; auto; discriminate).
    intros sp c rest Hc Hr.
    change (lex_e sp (EUn w op e)) with ((sp, PM.LOp (un_sym op)) :: ((false, PM.LLP) :: lex_e false e ++ [(false, PM.LRP)])).
    change (tok_e sp (EUn w op e)) with (PM.TPre (un_pre op) :: (PM.TLP (negb false) :: tok_e false e ++ [PM.TRP])).
    rewrite <- app_comm_cons.
    destruct (lex_paren e false (PM.category (PM.preop_kind (un_pre op))) rest (IHe Ha) (prefix_preop _) Hr) as (c' & Hc' & Hl).
    exists c'. split; [assumption|].
    simpl app in Hl |- *. cbn [PM.lex_from] in Hl. rewrite next_glued_lp in Hl.
    destruct op; try discriminate; simpl un_sym; simpl un_pre in *; cbn [PM.preop_kind] in Hl; cbn [PM.lex_from]; rewrite next_glued_lp.
    + (* - *) change (PM.next_glued (PM.LOp PM.SMinus) _) with false. cbv iota.
      rewrite (Hc sp _). cbv iota. rewrite Hl. rewrite lex_cons_lapp, lapp_lapp. reflexivity.
    + (* + *) change (PM.next_glued (PM.LOp PM.SPlus) _) with false. cbv iota.
      rewrite (Hc sp _). rewrite Hl. rewrite lex_cons_lapp, lapp_lapp. reflexivity.
    + (* ~ *) change (PM.next_glued (PM.LOp PM.STilde) _) with false. cbv iota.
      rewrite Hl. rewrite lex_cons_lapp, lapp_lapp. reflexivity.
  - (* arithmetic *)
    apply andb_true_iff in Hf. destruct Hf as [Ha Hb]. intros sp c rest Hc Hr.
    change (lex_e sp (EBin w op e1 e2)) with (opnd_lex sp e1 ++ (true, PM.LOp (arith_sym op)) :: opnd_lex true e2).
    change (tok_e sp (EBin w op e1 e2)) with (opnd_tok sp e1 ++ PM.TBin (arith_bin op) :: opnd_tok true e2).
    apply lex_binary; auto.
    intros c1 r [Hi1 Hi2]. destruct (opnd_head e2 true Hb) as (l2 & r2 & ->). simpl app.
    destruct op; cbn [PM.lex_from arith_sym arith_bin PM.next_glued PM.sp_after]; cbv iota; try rewrite Hi1; try rewrite Hi2; reflexivity.
  - apply andb_true_iff in Hf. destruct Hf as [Ha Hb]. intros sp c rest Hc Hr.
    change (lex_e sp (ECmp w op e1 e2)) with (opnd_lex sp e1 ++ (true, PM.LOp (PM.SBin (cmp_bin op))) :: opnd_lex true e2).
    change (tok_e sp (ECmp w op e1 e2)) with (opnd_tok sp e1 ++ PM.TBin (cmp_bin op) :: opnd_tok true e2).
    apply lex_binary; auto.
    intros c1 r _. destruct (opnd_head e2 true Hb) as (l2 & r2 & ->). simpl app.
    destruct op; reflexivity.
  - apply andb_true_iff in Hf. destruct Hf as [Ha Hb]. intros sp c rest Hc Hr.
    change (lex_e sp (ELogic w is_or e1 e2)) with (opnd_lex sp e1 ++ (true, PM.LOp (PM.SBin (logic_bin is_or))) :: opnd_lex true e2).
    change (tok_e sp (ELogic w is_or e1 e2)) with (opnd_tok sp e1 ++ PM.TBin (logic_bin is_or) :: opnd_tok true e2).
    apply lex_binary; auto.
    intros c1 r _. destruct (opnd_head e2 true Hb) as (l2 & r2 & ->). simpl app.
    destruct is_or; reflexivity.
Qed.

(* ------------------------------------------------------------------ T3: the tokens parse to the intended tree *)
Local Open Scope nat_scope.

Definition stop (rest : list PM.tok) : Prop :=
  match rest with [] => True | PM.TRP :: _ => True | _ => False end.
Definition nodot (rest : list PM.tok) : Prop :=
  match rest with PM.TDot _ :: _ => False | _ => True end.

Lemma stop_nodot : forall r, stop r -> nodot r.
Proof. intros [|[] r]; simpl; auto. Qed.

Lemma c_loop_stop : forall f m l ts, stop ts -> PS.c_loop (S f) m l ts = Some (l, ts).
Proof. intros f m l [|[] r] H; simpl in *; try contradiction; reflexivity. Qed.

Definition need_op (need : expr -> nat) (e : expr) : nat := if atomic e then 2 else need e + 1.
Fixpoint need (e : expr) : nat :=
  match e with
  | EUn _ _ a => need a + 4
  | EBin _ _ a b | ECmp _ _ a b | ELogic _ _ a b =>
    Nat.max ((if atomic a then 2 else need a + 1) + 1) ((if atomic b then 2 else need b + 1) + 3)
  | _ => 3
  end.

Lemma need_ge3 : forall e, 3 <= need e.
Proof. destruct e; simpl; lia. Qed.

Lemma c_expr_S : forall f m ts,
  PS.c_expr (S f) m ts = match PS.c_operand f ts with Some (l, r) => PS.c_loop f m l r | None => None end.
Proof. reflexivity. Qed.
Lemma c_loop_bin : forall f m l o r,
  PS.c_loop (S f) m l (PM.TBin o :: r)
  = if (m <=? PS.lvl o) then
      match PS.c_expr f (S (PS.lvl o)) r with Some (rhs, r') => PS.c_loop f m (PM.EBin o l rhs) r' | None => None end
    else Some (l, PM.TBin o :: r).
Proof. reflexivity. Qed.
Lemma c_operand_pre : forall f p r,
  PS.c_operand (S f) (PM.TPre p :: r)
  = match PS.c_expr f (S PS.pre_lvl) r with Some (e, r') => Some (PM.EUn p e, r') | None => None end.
Proof. reflexivity. Qed.
Lemma c_operand_lp : forall f a r,
  PS.c_operand (S f) (PM.TLP a :: r)
  = match PS.c_expr f 0 r with Some (e, PM.TRP :: r') => PS.c_postfix f e r' | _ => None end.
Proof. reflexivity. Qed.

Definition climb_stmt (e : expr) : Prop :=
  forall sp f rest, need e <= f -> stop rest -> PS.c_expr f 0 (tok_e sp e ++ rest) = Some (ast e, rest).

Definition sf_sign (f : SpecFloat.spec_float) : bool :=
  match f with
  | SpecFloat.S754_zero s | SpecFloat.S754_infinity s | SpecFloat.S754_finite s _ _ => s
  | SpecFloat.S754_nan => false
  end.

Lemma float_k_sign : forall bits k s, (0 <= bits)%Z -> (bits < Sem.sign_bit)%Z -> float_k bits = Some (s, k) -> s = false.
Proof.
  intros bits k s H0 H1 E. unfold float_k, Sem.b2sf in E. cbv zeta in E.
  assert (bits / Sem.sign_bit = 0)%Z as Hq by (apply Z.div_small; lia). rewrite Hq in E.
  change (negb (0 =? 0)%Z) with false in E.
  match type of E with
  | match ?x with _ => _ end = _ =>
    assert (Hs : sf_sign x = false);
      [ destruct ((bits / Sem.two52) mod 2048 =? 0)%Z;
        [ destruct (bits mod Sem.two52)%Z; reflexivity
        | destruct ((bits / Sem.two52) mod 2048 =? 2047)%Z;
          [ destruct (bits mod Sem.two52 =? 0)%Z; reflexivity
          | destruct (bits mod Sem.two52 + Sem.two52)%Z; reflexivity ] ]
      | destruct x as [s0|s0| |s0 m e]; simpl in Hs; subst; try discriminate ]
  end.
  - inversion E; reflexivity.
  - destruct (0 <=? e + 10)%Z; [destruct (e + 10 <=? 40)%Z|destruct (Z.pos m mod 2 ^ (- (e + 10)) =? 0)%Z];
      try discriminate; inversion E; reflexivity.
Qed.

(** an atomic operand of the sub-fragment is a literal without sign or a variable: one token *)
Lemma atomic_ofrag : forall e, ofrag e = true -> atomic e = true ->
  forall sp, exists t, tok_e sp e = [t] /\
    forall f rest, nodot rest -> PS.c_operand (S (S f)) (t :: rest) = Some (ast e, rest).
Proof.
  intros e Hf Ha sp. destruct e; simpl in Hf, Ha; try discriminate.
  - destruct l; try discriminate.
    + eexists. split; [reflexivity|]. intros f rest Hr. simpl. destruct rest as [|[] r]; simpl in *; try contradiction; reflexivity.
    + apply andb_true_iff in Hf. destruct Hf as [H0 Hf]. unfold simple_float in Hf. simpl.
      destruct (float_k bits) as [[s k]|] eqn:E; [|discriminate].
      assert (s = false) as -> by (apply (float_k_sign bits k s); [apply Z.leb_le; exact H0|apply Z.ltb_lt; exact Ha|exact E]).
      eexists. split; [reflexivity|]. intros f rest Hr. simpl. destruct rest as [|[] r]; simpl in *; try contradiction; reflexivity.
  - eexists. split; [reflexivity|]. intros f rest Hr. simpl. destruct rest as [|[] r]; simpl in *; try contradiction; reflexivity.
  - destruct op; discriminate.
Qed.

Lemma climb_opnd : forall e sp f rest, ofrag e = true -> climb_stmt e ->
  (if atomic e then 2 else need e + 1) <= f -> nodot rest ->
  PS.c_operand f (opnd_tok sp e ++ rest) = Some (ast e, rest).
Proof.
  intros e sp f rest Hf IH Hn Hr. unfold opnd_tok. destruct (atomic e) eqn:Ha.
  - destruct (atomic_ofrag e Hf Ha sp) as (t & -> & Ht). destruct f as [|[|f]]; try lia. apply Ht. exact Hr.
  - destruct f as [|f]; [lia|].
    rewrite <- app_comm_cons, <- app_assoc. simpl app. rewrite c_operand_lp.
    rewrite (IH false f (PM.TRP :: rest)); [|lia|exact I].
    pose proof (need_ge3 e). destruct f as [|f]; [lia|].
    rewrite (PP.c_postfix_nodot (S f) (ast e) rest) by (auto; lia).
    reflexivity.
Qed.

Lemma climb_binary : forall e1 e2 o sp f rest,
  ofrag e1 = true -> ofrag e2 = true -> climb_stmt e1 -> climb_stmt e2 ->
  Nat.max ((if atomic e1 then 2 else need e1 + 1) + 1) ((if atomic e2 then 2 else need e2 + 1) + 3) <= f -> stop rest ->
  PS.c_expr f 0 ((opnd_tok sp e1 ++ PM.TBin o :: opnd_tok true e2) ++ rest) = Some (PM.EBin o (ast e1) (ast e2), rest).
Proof.
  intros e1 e2 o sp f rest H1 H2 IH1 IH2 Hn Hr.
  destruct f as [|[|[|f]]]; try lia.
  rewrite <- app_assoc. simpl app. rewrite c_expr_S.
  rewrite (climb_opnd e1 sp (S (S f)) (PM.TBin o :: opnd_tok true e2 ++ rest) H1 IH1); [|lia|exact I].
  rewrite c_loop_bin. simpl Nat.leb. cbv iota. rewrite c_expr_S.
  rewrite (climb_opnd e2 true f rest H2 IH2); [|lia|apply stop_nodot; exact Hr].
  destruct f as [|f]; [destruct (atomic e2); lia|].
  rewrite c_loop_stop by exact Hr. rewrite c_loop_stop by exact Hr. reflexivity.
Qed.

Lemma climb_e_ok : forall e, ofrag e = true -> climb_stmt e.
Proof.
  induction e as [w l|w x|w op e IHe|w op e1 e2 IHe1 IHe2|w op e1 e2 IHe1 IHe2|w is_or e1 e2 IHe1 IHe2|w es IH|w a i IHa IHi
                  |w c a b IHc IHa IHb|w f args kw IHargs IHkw|w a IHa|w a IHa|w a b IHa IHb|w es IH] using expr_ind';
    intros Hf; simpl in Hf; try discriminate.
  - (* literal: one token *)
    intros sp f rest Hn Hr. simpl in Hn. destruct f as [|[|[|f]]]; try lia.
    assert (exists k s, tok_e sp (ELit w l) = [PM.TLit k s] /\ ast (ELit w l) = PM.ELit k s) as (k & s & -> & ->).
    { destruct l; try discriminate; simpl.
      - do 2 eexists; split; reflexivity.
      - do 2 eexists; split; reflexivity.
      - apply andb_true_iff in Hf. destruct Hf as [_ Hf]. unfold simple_float in Hf.
        destruct (float_k bits) as [[s k]|]; [|discriminate]. do 2 eexists; split; reflexivity. }
    simpl. destruct rest as [|[] r]; simpl in *; try contradiction; reflexivity.
  - intros sp f rest Hn Hr. simpl in Hn. destruct f as [|[|[|f]]]; try lia.
    simpl. destruct rest as [|[] r]; simpl in *; try contradiction; reflexivity.
  - (* prefix operator *)
    assert (Ha : ofrag e = true) by (destruct op; auto; discriminate).
    intros sp f rest Hn Hr. simpl in Hn. pose proof (need_ge3 e).
    destruct f as [|[|[|[|f]]]]; try lia.
    change (tok_e sp (EUn w op e)) with (PM.TPre (un_pre op) :: PM.TLP true :: tok_e false e ++ [PM.TRP]).
    change (ast (EUn w op e)) with (PM.EUn (un_pre op) (ast e)).
    rewrite <- !app_comm_cons, <- app_assoc. simpl app.
    rewrite c_expr_S, c_operand_pre, c_expr_S, c_operand_lp.
    rewrite (IHe Ha false f (PM.TRP :: rest)); [|lia|exact I].
    rewrite (PP.c_postfix_nodot f (ast e) rest); [|lia|exact (stop_nodot rest Hr)].
    rewrite c_loop_stop by exact Hr. rewrite c_loop_stop by exact Hr. reflexivity.
  - (* arithmetic *)
    apply andb_true_iff in Hf. destruct Hf as [Ha Hb]. intros sp f rest Hn Hr.
    change (tok_e sp (EBin w op e1 e2)) with (opnd_tok sp e1 ++ PM.TBin (arith_bin op) :: opnd_tok true e2).
    change (ast (EBin w op e1 e2)) with (PM.EBin (arith_bin op) (ast e1) (ast e2)).
    apply (climb_binary e1 e2 (arith_bin op) sp f rest); auto.
  - apply andb_true_iff in Hf. destruct Hf as [Ha Hb]. intros sp f rest Hn Hr.
    change (tok_e sp (ECmp w op e1 e2)) with (opnd_tok sp e1 ++ PM.TBin (cmp_bin op) :: opnd_tok true e2).
    change (ast (ECmp w op e1 e2)) with (PM.EBin (cmp_bin op) (ast e1) (ast e2)).
    apply (climb_binary e1 e2 (cmp_bin op) sp f rest); auto.
  - apply andb_true_iff in Hf. destruct Hf as [Ha Hb]. intros sp f rest Hn Hr.
    change (tok_e sp (ELogic w is_or e1 e2)) with (opnd_tok sp e1 ++ PM.TBin (logic_bin is_or) :: opnd_tok true e2).
    change (ast (ELogic w is_or e1 e2)) with (PM.EBin (logic_bin is_or) (ast e1) (ast e2)).
    apply (climb_binary e1 e2 (logic_bin is_or) sp f rest); auto.
Qed.

Lemma tok_len_pos : forall e sp, ofrag e = true -> 1 <= List.length (tok_e sp e).
Proof.
  intros e sp Hf. destruct e; simpl in Hf; try discriminate; simpl.
  - destruct l; try discriminate; simpl; auto.
    apply andb_true_iff in Hf. destruct Hf as [_ Hf]. unfold simple_float in Hf.
    destruct (float_k bits) as [[s k]|]; [simpl; auto|discriminate].
  - auto.
  - lia.
  - rewrite app_length. simpl. lia.
  - rewrite app_length. simpl. lia.
  - rewrite app_length. simpl. lia.
Qed.

Lemma need_le_len : forall e sp, ofrag e = true -> need e <= 2 * List.length (tok_e sp e) + 1.
Proof.
  induction e as [w l|w x|w op e IHe|w op e1 e2 IHe1 IHe2|w op e1 e2 IHe1 IHe2|w is_or e1 e2 IHe1 IHe2|w es IH|w a i IHa IHi
                  |w c a b IHc IHa IHb|w f args kw IHargs IHkw|w a IHa|w a IHa|w a b IHa IHb|w es IH] using expr_ind';
    intros sp Hf; simpl in Hf; try discriminate.
  - pose proof (tok_len_pos (ELit w l) sp Hf). simpl need. lia.
  - simpl. lia.
  - assert (Ha : ofrag e = true) by (destruct op; auto; discriminate).
    specialize (IHe false Ha).
    change (tok_e sp (EUn w op e)) with (PM.TPre (un_pre op) :: PM.TLP true :: tok_e false e ++ [PM.TRP]).
    simpl need. simpl List.length. rewrite app_length. simpl List.length. lia.
  - apply andb_true_iff in Hf. destruct Hf as [Ha Hb].
    change (tok_e sp (EBin w op e1 e2)) with (opnd_tok sp e1 ++ PM.TBin (arith_bin op) :: opnd_tok true e2).
    pose proof (IHe1 sp Ha). pose proof (IHe1 false Ha). pose proof (IHe2 true Hb). pose proof (IHe2 false Hb).
    pose proof (tok_len_pos e1 sp Ha). pose proof (tok_len_pos e2 true Hb).
    simpl need. rewrite app_length. simpl List.length. unfold opnd_tok.
    destruct (atomic e1), (atomic e2); simpl List.length; rewrite ?app_length; simpl List.length; lia.
  - apply andb_true_iff in Hf. destruct Hf as [Ha Hb].
    change (tok_e sp (ECmp w op e1 e2)) with (opnd_tok sp e1 ++ PM.TBin (cmp_bin op) :: opnd_tok true e2).
    pose proof (IHe1 sp Ha). pose proof (IHe1 false Ha). pose proof (IHe2 true Hb). pose proof (IHe2 false Hb).
    pose proof (tok_len_pos e1 sp Ha). pose proof (tok_len_pos e2 true Hb).
    simpl need. rewrite app_length. simpl List.length. unfold opnd_tok.
    destruct (atomic e1), (atomic e2); simpl List.length; rewrite ?app_length; simpl List.length; lia.
  - apply andb_true_iff in Hf. destruct Hf as [Ha Hb].
    change (tok_e sp (ELogic w is_or e1 e2)) with (opnd_tok sp e1 ++ PM.TBin (logic_bin is_or) :: opnd_tok true e2).
    pose proof (IHe1 sp Ha). pose proof (IHe1 false Ha). pose proof (IHe2 true Hb). pose proof (IHe2 false Hb).
    pose proof (tok_len_pos e1 sp Ha). pose proof (tok_len_pos e2 true Hb).
    simpl need. rewrite app_length. simpl List.length. unfold opnd_tok.
    destruct (atomic e1), (atomic e2); simpl List.length; rewrite ?app_length; simpl List.length; lia.
Qed.

Lemma climb_print : forall e sp, ofrag e = true -> PS.climb (tok_e sp e) = Some (ast e).
Proof.
  intros e sp Hf. unfold PS.climb, PS.climb_fuel.
  pose proof (need_le_len e sp Hf) as Hn.
  pose proof (climb_e_ok e Hf sp (2 * List.length (tok_e sp e) + 2) []) as H.
  rewrite app_nil_r in H. rewrite H; [reflexivity|lia|exact I].
Qed.

Lemma parse_print : forall e sp, ofrag e = true -> PM.parse (tok_e sp e) = PM.Ok (ast e).
Proof. intros e sp Hf. apply PP.parse_rhs_climb. apply climb_print. exact Hf. Qed.

Lemma lex_print : forall e c, ofrag e = true -> prefix_cat c -> PM.lex c (lex_e false e) = PM.LexOk (tok_e false e).
Proof.
  intros e c Hf Hc. unfold PM.lex.
  destruct (lex_e_ok e Hf false c [] Hc I) as (c' & _ & H).
  rewrite app_nil_r in H. rewrite H. simpl. rewrite app_nil_r. reflexivity.
Qed.

(** right-hand side of a definition `v = <e>` (start category DefOp) and a bare expression (start of input) *)
Lemma print_expr_roundtrip_proof : forall e, ofrag e = true ->
  p_expr vname e = spell (lex_e false e)
  /\ PM.lex cat_DefOp (lex_e false e) = PM.LexOk (tok_e false e)
  /\ PM.lex cat_BOF (lex_e false e) = PM.LexOk (tok_e false e)
  /\ PM.parse (tok_e false e) = PM.Ok (ast e)
  /\ PM.parse_chunk false (tok_e false e) = PM.Ok (ast e).
Proof.
  intros e Hf. repeat split.
  - rewrite (print_is_spell_gen e Hf false). reflexivity.
  - apply lex_print; auto using prefix_defop.
  - apply lex_print; auto using prefix_bof.
  - apply parse_print; exact Hf.
  - apply PP.parse_chunk_climb. apply climb_print. exact Hf.
Qed.

(** the operator sub-fragment is inside the grammar (given the literal ranges) *)
Lemma ofrag_starts : forall e, ofrag e = true -> atomic e = true -> starts_paren e = false.
Proof. intros e Hf Ha. destruct e; simpl in *; try discriminate; try reflexivity. Qed.
