(** extraction entry point for the C07 check: grammar predicate, printer, reference checker, stack model, judge and
    known-class predicate.  Wire format: ErgV.Common.Sx.
      (0 (prog U))                 -> (wf text ref hck site stacksize (nested...) n_ofrag)
                                      wf 0/1 | -1 undecodable;  text = print_erg as code points;  ref = 0 accepted by the
                                      reference checker, n > 0 its error code;  hck = hcheck (lower p);  site = 0 or the abort
                                      site the stack model reaches;  stacksize / nested = the model's co_stacksize of the
                                      module and of the nested code objects;  n_ofrag = number of definitions / print
                                      arguments whose expression is in the operator sub-fragment of print_expr_roundtrip
      (1 kind (site) (msg))        -> class id of the observation (Spec.known_c07), 0 = none
      (2 ((kind (site) (msg)) ..)) -> Spec.verdict of the observations of one program *)
From Coq Require Import ZArith List Bool.
From ErgV Require Import Common.Sx CoreErg.Syntax NoCrash.Gen NoCrash.Check NoCrash.RefCheck NoCrash.Spec.
Import ListNotations.
Open Scope Z_scope.

Definition dec_obs (x : sx) : obs := mkObs (sx_z (sx_nth x 0)) (sx_zs (sx_nth x 1)) (sx_zs (sx_nth x 2)).

Fixpoint count_ofrag_s (s : stmt) : Z :=
  match s with
  | SDef _ _ e | SExpr e => if ofrag e then 1 else 0
  | SPrint es => fold_right (fun e n => (if ofrag e then 1 else 0) + n) 0 es
  | _ => 0
  end.

Definition run (x : sx) : sx :=
  match x with
  | SL [SZ 0; c] =>
    match dec_cprog c with
    | None => SL [SZ (-1)]
    | Some cp =>
      let r := compile cp in
      SL [sx_bool (wf_progb cp); sx_of_zs (print_erg cp);
          SZ (match check cp with VOk => 0 | VErr c => c end);
          sx_bool (hcheck (lower cp));
          SZ (match r with COk _ => 0 | Crash s => Z.of_nat s end);
          SZ (match r with COk s => Z.of_nat (maxl s) | Crash _ => -1 end);
          SL (match r with COk s => map (fun n => SZ (Z.of_nat n)) (codes s) | Crash _ => [] end);
          SZ (fold_right (fun s n => count_ofrag_s s + n) 0 (c_body cp))]
    end
  | SL [SZ 1; SZ k; site; msg] => SZ (known_c07 (mkObs k (sx_zs site) (sx_zs msg)))
  | SL [SZ 2; SL os] => SZ (verdict (map dec_obs os))
  | _ => SL [SZ (-2)]
  end.

Require Extraction.
Require Import ExtrOcamlBasic.
Extraction Language OCaml.
Extraction "model.ml" run.
