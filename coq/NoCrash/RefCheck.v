(** * NoCrash.RefCheck — C07: a small total reference checker for the fragment.

    [check : cprog -> verdict] decides scoping, arity and the simple types of the fragment (Nat <= Int <= Float, Str,
    Bool, NoneType, List(T); an identifier whose annotation is not printed - the set U of the program - has an unknown
    type that is compatible with everything).  It is total by construction (structural recursion; there is no state in
    which it "cannot find a type"): every program gets [VOk] or [VErr code].  It is NOT compared with erg's verdict
    (that is C05/C02's business); C07 uses it to account for the quantifier "well-typed and ill-typed": the evidence
    records how many generated programs are reference-well-typed, reference-ill-typed, and how erg judged them.
    Error codes: 1 undefined name, 2 type mismatch, 3 arity / unknown or repeated keyword, 4 not callable,
    5 redefinition, 6 pattern arity. *)
From Coq Require Import ZArith List Bool.
From ErgV Require Import Common.Sx CoreErg.Syntax NoCrash.Gen.
Import ListNotations.
Open Scope Z_scope.

Inductive verdict := VOk | VErr (code : Z).

Inductive rres (A : Type) := ROk (a : A) | RErr (code : Z).
Arguments ROk {A} a.
Arguments RErr {A} code.
Definition rbind {A B} (r : rres A) (f : A -> rres B) : rres B := match r with ROk a => f a | RErr c => RErr c end.

(** a type, or unknown *)
Definition uty := option ty.

Inductive binding :=
| BVar (t : uty)
| BMut
| BFun (isproc : bool) (params : list (Z * uty * bool)) (ret : uty).   (* parameter: id, type, has a default *)
Definition env := list (Z * binding).

Fixpoint lookup (x : Z) (en : env) : option binding :=
  match en with [] => None | (y, b) :: r => if x =? y then Some b else lookup x r end.

Fixpoint ty_eqb (a b : ty) : bool :=
  match a, b with
  | TyNone, TyNone | TyNat, TyNat | TyInt, TyInt | TyFloat, TyFloat | TyStr, TyStr | TyBool, TyBool => true
  | TyList x, TyList y => ty_eqb x y
  | _, _ => false
  end.
Definition num_rank (t : ty) : option Z :=
  match t with TyNat => Some 0 | TyInt => Some 1 | TyFloat => Some 2 | _ => None end.
Fixpoint sub (a b : ty) : bool :=
  match a, b with
  | TyList x, TyList y => sub x y
  | _, _ => match num_rank a, num_rank b with Some i, Some j => i <=? j | _, _ => ty_eqb a b end
  end.
Definition usub (a b : uty) : bool := match a, b with Some x, Some y => sub x y | _, _ => true end.
Definition join (a b : ty) : option ty := if sub a b then Some b else if sub b a then Some a else None.
Definition is_num (t : ty) : bool := match num_rank t with Some _ => true | None => false end.
Definition is_int (t : ty) : bool := match t with TyNat | TyInt => true | _ => false end.

Definition lit_ty (l : lit) : ty :=
  match l with LNat _ => TyNat | LNeg _ => TyInt | LFloat _ => TyFloat | LStr _ => TyStr | LBool _ => TyBool | LNone => TyNone end.

Definition arith_ty (o : arith) (a b : ty) : rres uty :=
  match o with
  | OAdd =>
    match a, b with
    | TyStr, TyStr => ROk (Some TyStr)
    | TyList x, TyList y => match join x y with Some j => ROk (Some (TyList j)) | None => RErr 2 end
    | _, _ => if is_num a && is_num b then ROk (join a b) else RErr 2
    end
  | OMul =>
    match a, b with
    | TyStr, TyNat => ROk (Some TyStr)
    | _, _ => if is_num a && is_num b then ROk (join a b) else RErr 2
    end
  | OSub => if is_num a && is_num b then (match join a b with Some TyNat => ROk (Some TyInt) | j => ROk j end) else RErr 2
  | ODiv => if is_num a && is_num b then ROk (Some TyFloat) else RErr 2
  | OFloorDiv | OMod => if is_int a && is_int b then ROk (join a b) else RErr 2
  | OPow => if is_num a && is_num b then ROk (join a b) else RErr 2
  end.

Definition all_ok {A} (l : list (rres A)) : rres (list A) :=
  fold_right (fun x acc => rbind x (fun a => rbind acc (fun r => ROk (a :: r)))) (ROk []) l.

Definition check_call (params : list (Z * uty * bool)) (args : list uty) (kw : list (Z * uty)) : rres unit :=
  let npos := length args in
  if Nat.ltb (length params) npos then RErr 3 else
  let pos_params := firstn npos params in
  let rest := skipn npos params in
  if negb (forallb (fun pa : (Z * uty * bool) * uty => usub (snd pa) (snd (fst (fst pa)))) (combine pos_params args)) then RErr 2 else
  (* keywords: each names a remaining parameter, once *)
  if negb (forallb (fun k : Z * uty => existsb (fun p : Z * uty * bool => fst (fst p) =? fst k) rest) kw) then RErr 3 else
  if negb (forallb (fun k : Z * uty => Nat.eqb (length (filter (fun k' : Z * uty => fst k' =? fst k) kw)) 1) kw) then RErr 3 else
  if negb (forallb (fun k : Z * uty =>
                      forallb (fun p : Z * uty * bool => negb (fst (fst p) =? fst k) || usub (snd k) (snd (fst p))) rest) kw)
  then RErr 2 else
  (* every remaining parameter without default is given by keyword *)
  if negb (forallb (fun p : Z * uty * bool => snd p || existsb (fun k : Z * uty => fst k =? fst (fst p)) kw) rest) then RErr 3
  else ROk tt.

Fixpoint tyof (en : env) (e : expr) {struct e} : rres uty :=
  match e with
  | ELit _ l => ROk (Some (lit_ty l))
  | EVar _ x =>
    match lookup x en with
    | Some (BVar t) => ROk t
    | Some BMut => ROk (Some TyNat)
    | Some (BFun _ _ _) => ROk None
    | None => RErr 1
    end
  | EUn _ o a =>
    rbind (tyof en a) (fun ta =>
    match ta with
    | None => ROk None
    | Some t =>
      match o with
      | UNeg | UPos => if is_num t then ROk (Some (match t with TyNat => TyInt | x => x end)) else RErr 2
      | UNot => if ty_eqb t TyBool then ROk (Some TyBool) else RErr 2
      | UInv => if is_int t then ROk (Some TyInt) else RErr 2
      end
    end)
  | EBin _ o a b =>
    rbind (tyof en a) (fun ta => rbind (tyof en b) (fun tb =>
    match ta, tb with Some x, Some y => arith_ty o x y | _, _ => ROk None end))
  | ECmp _ o a b =>
    rbind (tyof en a) (fun ta => rbind (tyof en b) (fun tb =>
    match ta, tb with
    | Some x, Some y =>
      if (is_num x && is_num y) || (ty_eqb x TyStr && ty_eqb y TyStr)
         || (ty_eqb x TyBool && ty_eqb y TyBool && match o with CEq | CNe => true | _ => false end)
      then ROk (Some TyBool) else RErr 2
    | _, _ => ROk (Some TyBool)
    end))
  | ELogic _ _ a b =>
    rbind (tyof en a) (fun ta => rbind (tyof en b) (fun tb =>
    if usub ta (Some TyBool) && usub tb (Some TyBool) then ROk (Some TyBool) else RErr 2))
  | EList _ es =>
    rbind (all_ok (map (tyof en) es)) (fun ts =>
    match ts with
    | [] => ROk None
    | t0 :: r =>
      fold_left (fun acc t => rbind acc (fun a =>
                   match a, t with
                   | Some (TyList x), Some y => match join x y with Some j => ROk (Some (TyList j)) | None => RErr 2 end
                   | _, _ => ROk None
                   end)) r (ROk (option_map TyList t0))
    end)
  | EIndex _ a i =>
    rbind (tyof en a) (fun ta => rbind (tyof en i) (fun ti =>
    if negb (usub ti (Some TyInt)) then RErr 2 else
    match ta with
    | Some (TyList t) => ROk (Some t)
    | Some TyStr => ROk (Some TyStr)
    | Some _ => RErr 2
    | None => ROk None
    end))
  | EIf _ c a b =>
    rbind (tyof en c) (fun tc => rbind (tyof en a) (fun ta => rbind (tyof en b) (fun tb =>
    if negb (usub tc (Some TyBool)) then RErr 2 else
    match ta, tb with
    | Some x, Some y => match join x y with Some j => ROk (Some j) | None => RErr 2 end
    | _, _ => ROk None
    end)))
  | ECall _ f args kw =>
    rbind (all_ok (map (tyof en) args)) (fun targs =>
    rbind (all_ok (map (fun pe : Z * expr => rbind (tyof en (snd pe)) (fun t => ROk (fst pe, t))) kw)) (fun tkw =>
    match lookup f en with
    | Some (BFun _ params ret) => rbind (check_call params targs tkw) (fun _ => ROk ret)
    | Some (BVar None) => ROk None
    | Some _ => RErr 4
    | None => RErr 1
    end))
  | ELen _ a =>
    rbind (tyof en a) (fun ta =>
    match ta with Some TyStr | Some (TyList _) | None => ROk (Some TyNat) | Some _ => RErr 2 end)
  | EAbs _ a =>
    rbind (tyof en a) (fun ta =>
    match ta with
    | Some TyFloat => ROk (Some TyFloat)
    | Some t => if is_int t then ROk (Some TyNat) else RErr 2
    | None => ROk None
    end)
  | ERange _ a b =>
    rbind (tyof en a) (fun ta => rbind (tyof en b) (fun tb =>
    if usub ta (Some TyInt) && usub tb (Some TyInt) then ROk (Some (TyList TyNat)) else RErr 2))
  | ETuple _ es => rbind (all_ok (map (tyof en) es)) (fun _ => ROk None)
  end.

Definition bound (x : Z) (en : env) : bool := match lookup x en with Some _ => true | None => false end.

Section Stmts.
  Variable U : list Z.
  Definition decl (x : Z) (t : ty) : uty := if memz x U then None else Some t.

  (** statement: the environment after it.  Blocks are checked in the current environment and leave it unchanged. *)
  Fixpoint check_s (en : env) (s : stmt) {struct s} : rres env :=
    let fix blk (en0 : env) (ss : list stmt) : rres uty :=   (* type of the last expression statement, if any *)
        match ss with
        | [] => ROk None
        | [x] => match x with
                 | SExpr e => tyof en0 e
                 | _ => rbind (check_s en0 x) (fun _ => ROk None)
                 end
        | x :: r => rbind (check_s en0 x) (fun en1 => blk en1 r)
        end in
    match s with
    | SExpr e => rbind (tyof en e) (fun _ => ROk en)
    | SPrint es => rbind (all_ok (map (tyof en) es)) (fun _ => ROk en)
    | SAssert e => rbind (tyof en e) (fun t => if usub t (Some TyBool) then ROk en else RErr 2)
    | SDef x ann e =>
      if bound x en then RErr 5 else
      rbind (tyof en e) (fun t =>
      match ann with
      | Some a => if memz x U then ROk ((x, BVar t) :: en)
                  else if usub t (Some a) then ROk ((x, BVar (match t with Some _ => t | None => Some a end)) :: en) else RErr 2
      | None => ROk ((x, BVar t) :: en)
      end)
    | SIf c th _ el =>
      rbind (tyof en c) (fun t => if negb (usub t (Some TyBool)) then RErr 2 else
      rbind (blk en th) (fun _ => rbind (blk en el) (fun _ => ROk en)))
    | SFor x it body =>
      rbind (tyof en it) (fun t =>
      match t with
      | Some (TyList te) => rbind (blk ((x, BVar (Some te)) :: en) body) (fun _ => ROk en)
      | None => rbind (blk ((x, BVar None) :: en) body) (fun _ => ROk en)
      | Some _ => RErr 2
      end)
    | SWhile c body =>
      rbind (tyof en c) (fun t => if negb (usub t (Some TyBool)) then RErr 2 else rbind (blk en body) (fun _ => ROk en))
    | SMutDef x e =>
      if bound x en then RErr 5 else
      rbind (tyof en e) (fun t => if usub t (Some TyNat) then ROk ((x, BMut) :: en) else RErr 2)
    | SInc x => match lookup x en with Some BMut => ROk en | Some _ => RErr 2 | None => RErr 1 end
    | SUpdate x p e =>
      match lookup x en with
      | Some BMut => rbind (tyof ((p, BVar (Some TyNat)) :: en) e) (fun t => if usub t (Some TyInt) then ROk en else RErr 2)
      | Some _ => RErr 2
      | None => RErr 1
      end
    | SFun f isp params ret body =>
      if bound f en then RErr 5 else
      let ps := map (fun p : Z * ty * option expr => (fst (fst p), decl (fst (fst p)) (snd (fst p)),
                                                       match snd p with Some _ => true | None => false end)) params in
      rbind (all_ok (map (fun p : Z * ty * option expr =>
                            match snd p with
                            | Some d => rbind (tyof en d) (fun t => if usub t (decl (fst (fst p)) (snd (fst p))) then ROk tt else RErr 2)
                            | None => ROk tt
                            end) params)) (fun _ =>
      let en_body := map (fun p : Z * uty * bool => (fst (fst p), BVar (snd (fst p)))) ps ++ en in
      rbind (blk en_body body) (fun t =>
      let r := if isp then Some TyNone else decl f ret in
      if isp || usub t r then ROk ((f, BFun isp ps (if isp then Some TyNone else match r with Some _ => r | None => t end)) :: en)
      else RErr 2))
    | SLam f params e =>
      if bound f en then RErr 5 else
      let ps := map (fun p : Z * ty => (fst p, decl (fst p) (snd p), false)) params in
      rbind (tyof (map (fun p : Z * uty * bool => (fst (fst p), BVar (snd (fst p)))) ps ++ en) e) (fun t =>
      ROk ((f, BFun false ps t) :: en))
    | SPat isl ids e =>
      if existsb (fun i => bound i en) ids then RErr 5 else
      if isl then
        rbind (tyof en e) (fun t =>
        match t with
        | Some (TyList te) => ROk (map (fun i => (i, BVar (Some te))) ids ++ en)
        | None => ROk (map (fun i => (i, BVar None)) ids ++ en)
        | Some _ => RErr 2
        end)
      else
        match e with
        | ETuple _ es =>
          if negb (Nat.eqb (length es) (length ids)) then RErr 6 else
          rbind (all_ok (map (tyof en) es)) (fun ts => ROk (map (fun it : Z * uty => (fst it, BVar (snd it))) (combine ids ts) ++ en))
        | _ => rbind (tyof en e) (fun _ => ROk (map (fun i => (i, BVar None)) ids ++ en))
        end
    | SPCall f args =>
      rbind (all_ok (map (tyof en) args)) (fun targs =>
      match lookup f en with
      | Some (BFun _ params _) => rbind (check_call params targs []) (fun _ => ROk en)
      | Some (BVar None) => ROk en
      | Some _ => RErr 4
      | None => RErr 1
      end)
    | SNPat pt e =>
      if existsb (fun i => bound i en) (pat_ids pt) then RErr 5 else
      rbind (tyof en e) (fun _ => ROk (map (fun i => (i, BVar None)) (pat_ids pt) ++ en))
    end.

  Fixpoint check_ss (en : env) (ss : list stmt) : rres env :=
    match ss with [] => ROk en | x :: r => rbind (check_s en x) (fun en1 => check_ss en1 r) end.
End Stmts.

Definition check (cp : cprog) : verdict :=
  match check_ss (c_untyped cp) [] (c_body cp) with ROk _ => VOk | RErr c => VErr c end.
