(** C21 — property theorems (statements only; proofs are in Proofs.v) *)
From Coq Require Import ZArith List.
From ErgV Require Import Graph.Model Graph.Spec Graph.ProofsReach Graph.Proofs.
Import ListNotations.
Open Scope Z_scope.

(** 9. the extracted judge decides inductive reachability *)
Theorem reachb_spec : forall E a b, reachb E a b = true <-> reach E a b.
Proof. exact ProofsReach.reachb_spec. Qed.

(** 4. deep_depends_on is reachability (DFS with a visited set is sound and complete), for every
    iteration order of the dependency sets *)
Theorem deep_depends_on_reach : forall g a b, index_inv g ->
  (deep_depends_on g a b = Ok true <-> reach (E (abs g)) a b).
Proof. exact deep_depends_on_reach_l. Qed.
