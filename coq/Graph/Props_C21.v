(** C21 — property theorems (statements only; proofs are in Proofs.v) *)
From Coq Require Import ZArith List.
From ErgV Require Import Graph.Model Graph.Spec Graph.Proofs.
Import ListNotations.
