(** C21 — property theorems (statements only; proofs are in Proofs.v) *)
From Coq Require Import ZArith List.
From ErgV Require Import Graph.Model Graph.Spec Graph.ProofsReach Graph.Proofs.
Import ListNotations.
Open Scope Z_scope.

(** 9. the extracted judge decides inductive reachability *)
Theorem reachb_spec : forall E a b, reachb E a b = true <-> reach E a b.
Proof. exact ProofsReach.reachb_spec. Qed.

(** 4. deep_depends_on is reachability (DFS with a visited set is sound and complete), for every
    iteration order of the dependency sets *)
Theorem deep_depends_on_reach : forall g a b, index_inv g ->
  (deep_depends_on g a b = Ok true <-> reach (E (abs g)) a b).
Proof. exact deep_depends_on_reach_l. Qed.

(** 1. index_inv: the index maps exactly the node ids, each to its position.  It holds initially, is preserved
    by every operation (rename: to a fresh path, [op_ok]) and hence along every history whose renames are fresh
    ([hist_ok], a checkable predicate over the history); such a history never panics or runs out of fuel. *)
Theorem index_inv_init : index_inv empty.
Proof. exact index_inv_empty. Qed.

Theorem index_inv_preserved : forall g o x, index_inv g -> op_ok g o = true -> step g o = Ok x -> index_inv (snd x).
Proof. exact index_inv_step. Qed.

Theorem index_inv_history : forall os, hist_ok empty os = true ->
  exists g, run_ops empty os = Ok g /\ index_inv g.
Proof. exact run_ops_empty_inv. Qed.

(** 2. no operation panics on a state satisfying the invariant: get_node never indexes out of bounds,
    inc_ref's unreachable! is unreachable, Vec::remove is in bounds, tsort's reorder unwrap cannot fail *)
Theorem step_no_panic : forall g o, index_inv g -> step g o <> Panic.
Proof. exact step_no_panic_l. Qed.

(** 3. the fuel of the model is enough: the recursions of the Rust code terminate *)
Theorem fuel_enough : forall g, index_inv g ->
  (forall a b, deep_depends_on g a b <> Fuel) /\ (forall p, ancestors g p <> Fuel) /\
  tsort (nodes g) <> Fuel /\ (forall o, step g o <> Fuel).
Proof. exact fuel_enough_l. Qed.
