(** C21 — property theorems (statements only; proofs are in Proofs.v) *)
From Coq Require Import ZArith List.
From ErgV Require Import Graph.Model Graph.Spec Graph.ProofsReach Graph.Proofs.
From ErgV Require Graph.ProofsTsort.
Import ListNotations.
Open Scope Z_scope.

(** 9. the extracted judge decides inductive reachability *)
Theorem reachb_spec : forall E a b, reachb E a b = true <-> reach E a b.
Proof. exact ProofsReach.reachb_spec. Qed.

(** 4. deep_depends_on is reachability (DFS with a visited set is sound and complete), for every
    iteration order of the dependency sets *)
Theorem deep_depends_on_reach : forall g a b, index_inv g ->
  (deep_depends_on g a b = Ok true <-> reach (E (abs g)) a b).
Proof. exact deep_depends_on_reach_l. Qed.

(** 1. index_inv: the index maps exactly the node ids, each to its position.  It holds initially, is preserved
    by every operation (rename: to a fresh path, [op_ok]) and hence along every history whose renames are fresh
    ([hist_ok], a checkable predicate over the history); such a history never panics or runs out of fuel. *)
Theorem index_inv_init : index_inv empty.
Proof. exact index_inv_empty. Qed.

Theorem index_inv_preserved : forall g o x, index_inv g -> op_ok g o = true -> step g o = Ok x -> index_inv (snd x).
Proof. exact index_inv_step. Qed.

Theorem index_inv_history : forall os, hist_ok empty os = true ->
  exists g, run_ops empty os = Ok g /\ index_inv g.
Proof. exact run_ops_empty_inv. Qed.

(** 2. no operation panics on a state satisfying the invariant: get_node never indexes out of bounds,
    inc_ref's unreachable! is unreachable, Vec::remove is in bounds, tsort's reorder unwrap cannot fail *)
Theorem step_no_panic : forall g o, index_inv g -> step g o <> Panic.
Proof. exact step_no_panic_l. Qed.

(** 3. the fuel of the model is enough: the recursions of the Rust code terminate *)
Theorem fuel_enough : forall g, index_inv g ->
  (forall a b, deep_depends_on g a b <> Fuel) /\ (forall p, ancestors g p <> Fuel) /\
  tsort (nodes g) <> Fuel /\ (forall o, step g o <> Fuel).
Proof. exact fuel_enough_l. Qed.

(** 5. inc_ref answers CycleDetected, leaving exactly the state [add_node_if_none g referrer], if and only if
    referrer <> dep and dep already reaches referrer; in every other case it succeeds and the new state
    abstracts to the reference graph with the edge added (V and E equal as sets).  (referrer = dep is accepted
    without recording an edge, in the code and in the reference.) *)
Theorem inc_ref_refuses_cycle : forall g r d, index_inv g ->
  (forall g', inc_ref g r d = Ok (IncCycle, g') <->
              (r <> d /\ reach (E (abs g)) d r /\ g' = add_node_if_none g r)) /\
  (~ (r <> d /\ reach (E (abs g)) d r) ->
     exists g2, inc_ref g r d = Ok (IncOk, g2) /\ rg_eq (abs g2) (snd (r_inc (abs g) r d))).
Proof. exact inc_ref_refuses_cycle_l. Qed.

(** 6. acyclicity of the abstract graph is preserved by add / inc_ref / remove / sort, hence holds after every
    history without rename.  (rename onto a path that dangling edges point to can close a cycle.) *)
Theorem acyclic_preserved : forall g o x, index_inv g -> acyclic (E (abs g)) ->
  (match o with ORename _ _ => False | _ => True end) -> step g o = Ok x -> acyclic (E (abs (snd x))).
Proof. exact acyclic_step. Qed.

Theorem acyclic_inv : forall os g, no_rename os = true -> run_ops empty os = Ok g -> acyclic (E (abs g)).
Proof. exact acyclic_inv_l. Qed.

(** 7. abs commutes with every operation w.r.t. the reference operations (V and E equal as sets) and the result
    codes agree (where the reference leaves the sort error open, -1, the code answers one of the two errors);
    the queries on the concrete state are the reference queries on its abstraction. *)
Theorem abs_step : forall g o x, index_inv g -> op_ok g o = true -> step g o = Ok x ->
  rg_eq (abs (snd x)) (snd (r_step (abs g) o)) /\
  (fst (r_step (abs g) o) = fst x \/ (fst (r_step (abs g) o) = -1 /\ (fst x = 2 \/ fst x = 3))).
Proof. exact abs_step_l. Qed.

Theorem queries_agree : forall g, index_inv g ->
  (forall a b, depends_on g a b = Ok (q_depends_on (abs g) a b)) /\
  (forall a b, deep_depends_on g a b = Ok (q_deep (abs g) a b)) /\
  (forall p, set_eq (children g p) (q_children (abs g) p)) /\
  (forall p, exists o, parents g p = Ok o /\ opt_set_eq o (q_parents (abs g) p)).
Proof. exact queries_agree_l. Qed.

(** refinement along histories: after every history with fresh renames the concrete state abstracts to the
    reference graph obtained by running the reference operations, and the queries answer as the reference does *)
Theorem refine_ops : forall os, hist_ok empty os = true ->
  exists g, run_ops empty os = Ok g /\ index_inv g /\ rg_eq (abs g) (r_run rempty os) /\
    (forall a b, depends_on g a b = Ok (q_depends_on (r_run rempty os) a b)) /\
    (forall a b, deep_depends_on g a b = Ok (q_deep (r_run rempty os) a b)) /\
    (forall p, set_eq (children g p) (q_children (r_run rempty os) p)).
Proof. exact refine_ops_l. Qed.

(** sort: the graph is unchanged as a set of nodes and edges, and the answer passes the executable judge *)
Theorem sort_judged : forall g x, index_inv g -> sort g = Ok x ->
  rg_eq (abs (snd x)) (abs g) /\
  judge_sort (abs g) (sort_code (fst x)) (map nid (nodes (snd x))) = true /\
  (sort_expected (abs g) = sort_code (fst x) \/ (sort_expected (abs g) = -1 /\ fst x <> None)).
Proof. exact abs_sort. Qed.

(** 8. tsort: a successful answer is a permutation of the nodes in which every node comes after all of its
    dependencies (so in particular all dependencies are nodes and there is no cycle) *)
Theorem tsort_sound : forall ns s, NoDup (map nid ns) -> tsort ns = Ok (inr s) ->
  Permutation.Permutation s ns /\ before_all (map nid s) (edges_of ns) [] = true.
Proof. exact ProofsTsort.tsort_sound. Qed.

(** error kinds: CyclicReference only if a cycle exists, KeyNotFound only if some dependency is not a node;
    and tsort succeeds whenever the graph is acyclic and closed.  (With both a cycle and a missing node the
    answer depends on the iteration order, so no "iff" per kind holds.) *)
Theorem tsort_err_cyclic : forall ns, tsort ns = Ok (inl CyclicReference) -> exists a, reach (edges_of ns) a a.
Proof. exact ProofsTsort.tsort_err_cyclic. Qed.

Theorem tsort_err_keynotfound : forall ns, tsort ns = Ok (inl KeyNotFound) ->
  exists n d, In n ns /\ In d (ndeps n) /\ ~ In d (map nid ns).
Proof. exact ProofsTsort.tsort_err_keynotfound. Qed.

Theorem tsort_complete : forall ns, acyclic (edges_of ns) ->
  (forall n d, In n ns -> In d (ndeps n) -> In d (map nid ns)) -> exists s, tsort ns = Ok (inr s).
Proof. exact ProofsTsort.tsort_complete. Qed.

Theorem tsort_total : forall ns, tsort ns <> Panic /\ tsort ns <> Fuel.
Proof. exact (fun ns => conj (ProofsTsort.tsort_no_panic ns) (ProofsTsort.tsort_no_fuel ns)). Qed.

(** ---- non-vacuity: a concrete history (3-node chain 1 -> 2 -> 3, a refused cycle-closing edge, a fresh rename,
    an add/remove pair and a sort) meets the hypotheses of the theorems above *)
Definition ex_chain : list op := [OInc 1 2; OInc 2 3; OAdd 3].
Definition ex_ops : list op := ex_chain ++ [OInc 3 1; ORename 2 5; OAdd 7; ORemove 7; OSort].
Definition ex_g : graph :=
  {| nodes := [{| nid := 1; ndeps := [2] |}; {| nid := 2; ndeps := [3] |}; {| nid := 3; ndeps := [] |}];
     index := [(1, 0%nat); (2, 1%nat); (3, 2%nat)] |}.

Example ex_hist_ok : hist_ok empty ex_ops = true.
Proof. vm_compute. reflexivity. Qed.
Example ex_chain_run : run_ops empty ex_chain = Ok ex_g.
Proof. vm_compute. reflexivity. Qed.
Example ex_run : run_ops empty ex_ops =
  Ok {| nodes := [{| nid := 3; ndeps := [] |}; {| nid := 5; ndeps := [3] |}; {| nid := 1; ndeps := [5] |}];
        index := [(3, 0%nat); (5, 1%nat); (1, 2%nat)] |}.
Proof. vm_compute. reflexivity. Qed.
(* index_inv_history / step_no_panic / fuel_enough / queries_agree / abs_step: the chain state satisfies index_inv *)
Example ex_index_inv : index_inv ex_g.
Proof.
  destruct (index_inv_history ex_chain) as [g [Hr Hi]]; [vm_compute; reflexivity|].
  rewrite ex_chain_run in Hr. inversion Hr; subst g. exact Hi.
Qed.
(* deep_depends_on_reach / reachb_spec: 1 reaches 3 through 2, 3 does not reach 1 *)
Example ex_deep : deep_depends_on ex_g 1 3 = Ok true /\ deep_depends_on ex_g 3 1 = Ok false /\
                  reachb (E (abs ex_g)) 1 3 = true /\ reachb (E (abs ex_g)) 3 1 = false.
Proof. vm_compute. repeat split; reflexivity. Qed.
Example ex_reach : reach (E (abs ex_g)) 1 3.
Proof. apply (proj1 (deep_depends_on_reach ex_g 1 3 ex_index_inv)). vm_compute. reflexivity. Qed.
(* inc_ref_refuses_cycle: 3 -> 1 would close the cycle and is refused with the state unchanged; 3 -> 9 is accepted *)
Example ex_refused : inc_ref ex_g 3 1 = Ok (IncCycle, ex_g) /\ add_node_if_none ex_g 3 = ex_g /\
                     (3 <> 1 /\ reach (E (abs ex_g)) 1 3).
Proof.
  split; [vm_compute; reflexivity|]. split; [vm_compute; reflexivity|]. split; [discriminate|exact ex_reach].
Qed.
Example ex_accepted : exists g2, inc_ref ex_g 3 9 = Ok (IncOk, g2) /\ E (abs g2) = [(1, 2); (2, 3); (3, 9)].
Proof. eexists. split; vm_compute; reflexivity. Qed.
(* refine_ops: the whole history is refined; its reference graph has the renamed chain 1 -> 5 -> 3 *)
Example ex_refine : r_run rempty ex_ops = {| V := [1; 5; 3]; E := [(1, 5); (5, 3)] |}.
Proof. vm_compute. reflexivity. Qed.
(* acyclic_inv: the chain history has no rename, so the chain graph is acyclic *)
Example ex_acyclic : acyclic (E (abs ex_g)).
Proof. apply (acyclic_inv ex_chain ex_g); [vm_compute; reflexivity|exact ex_chain_run]. Qed.
(* tsort_sound / tsort_complete / sort_judged: the chain sorts to 3, 2, 1; the two error kinds do occur *)
Example ex_tsort : tsort (nodes ex_g) =
  Ok (inr [{| nid := 3; ndeps := [] |}; {| nid := 2; ndeps := [3] |}; {| nid := 1; ndeps := [2] |}]) /\
  NoDup (map nid (nodes ex_g)).
Proof. split; [vm_compute; reflexivity|exact (proj1 ex_index_inv)]. Qed.
Example ex_tsort_errors :
  tsort [{| nid := 1; ndeps := [2] |}; {| nid := 2; ndeps := [1] |}] = Ok (inl CyclicReference) /\
  tsort [{| nid := 1; ndeps := [9] |}] = Ok (inl KeyNotFound).
Proof. split; vm_compute; reflexivity. Qed.
Example ex_sort_judged : exists x, sort ex_g = Ok x /\ judge_sort (abs ex_g) (sort_code (fst x)) (map nid (nodes (snd x))) = true
                                   /\ map nid (nodes (snd x)) = [3; 2; 1].
Proof. eexists. split; [vm_compute; reflexivity|]. split; vm_compute; reflexivity. Qed.
