(** C21 — the plain reference graph the property compares against, and the executable judge. *)
From Coq Require Import ZArith List Bool Arith.
From ErgV Require Import Graph.Model.
Import ListNotations.
Open Scope Z_scope.

Record rgraph := { V : list Z; E : list (Z * Z) }.
Definition rempty : rgraph := {| V := []; E := [] |}.

(** reachability in one or more steps *)
Inductive reach (E : list (Z * Z)) : Z -> Z -> Prop :=
| reach_edge a b : In (a, b) E -> reach E a b
| reach_step a c b : In (a, c) E -> reach E c b -> reach E a b.

Definition edge_eqb (x y : Z * Z) : bool := Z.eqb (fst x) (fst y) && Z.eqb (snd x) (snd y).
Definition meme (x : Z * Z) (l : list (Z * Z)) : bool := existsb (edge_eqb x) l.
Definition succs (E : list (Z * Z)) (a : Z) : list Z := map snd (filter (fun e => Z.eqb (fst e) a) E).
Definition union (a b : list Z) : list Z := fold_left (fun acc x => set_insert x acc) b a.

(** executable closure: |E| rounds of "add all successors" *)
Fixpoint close (n : nat) (E : list (Z * Z)) (s : list Z) : list Z :=
  match n with
  | O => s
  | S k => close k E (union s (flat_map (succs E) s))
  end.
Definition reach_set (E : list (Z * Z)) (a : Z) : list Z := close (length E) E (succs E a).
Definition reachb (E : list (Z * Z)) (a b : Z) : bool := memz b (reach_set E a).

Definition has_cycle (g : rgraph) : bool :=
  existsb (fun e => Z.eqb (fst e) (snd e) || reachb (E g) (snd e) (fst e)) (E g).
Definition closed (g : rgraph) : bool := forallb (fun e => memz (snd e) (V g)) (E g).

(** reference operations *)
Definition r_add (g : rgraph) (p : Z) : rgraph := {| V := set_insert p (V g); E := E g |}.
Definition r_inc (g : rgraph) (r d : Z) : Z * rgraph :=
  let g := r_add g r in
  if Z.eqb r d then (0, g)
  else if reachb (E g) d r then (1, g)
  else (0, {| V := V g; E := if meme (r, d) (E g) then E g else E g ++ [(r, d)] |}).
Definition r_remove (g : rgraph) (p : Z) : rgraph :=
  {| V := set_remove p (V g);
     E := filter (fun e => negb (Z.eqb (fst e) p) && negb (Z.eqb (snd e) p)) (E g) |}.
Definition ren (old new x : Z) : Z := if Z.eqb x old then new else x.
Definition dedup_e (l : list (Z * Z)) : list (Z * Z) :=
  fold_left (fun acc e => if meme e acc then acc else acc ++ [e]) l [].
Definition r_rename (g : rgraph) (old new : Z) : rgraph :=
  {| V := map (ren old new) (V g);
     E := dedup_e (map (fun e => (ren old new (fst e), ren old new (snd e))) (E g)) |}.

(** what a sort may answer on reference graph [g]; [order] is the node order after a successful sort *)
Fixpoint before_all (order : list Z) (E : list (Z * Z)) (seen : list Z) : bool :=
  match order with
  | [] => true
  | x :: r => forallb (fun d => memz d seen) (succs E x) && before_all r E (seen ++ [x])
  end.
Definition same_set (a b : list Z) : bool :=
  forallb (fun x => memz x b) a && forallb (fun x => memz x a) b && Nat.eqb (length a) (length b).
Definition judge_sort (g : rgraph) (res : Z) (order : list Z) : bool :=
  if Z.eqb res 0 then negb (has_cycle g) && closed g && same_set order (V g) && before_all order (E g) []
  else if Z.eqb res 2 then has_cycle g
  else if Z.eqb res 3 then negb (closed g)
  else false.
(** sort must succeed whenever it can, and must say "cycle" when that is the only obstacle *)
Definition sort_expected (g : rgraph) : Z :=
  if has_cycle g then (if closed g then 2 else -1 (* 2 or 3 *)) else if closed g then 0 else 3.

Definition r_step (g : rgraph) (o : op) : Z * rgraph :=
  match o with
  | OAdd p => (0, r_add g p)
  | OInc r d => r_inc g r d
  | ORemove p => (0, r_remove g p)
  | ORename a b => (0, r_rename g a b)
  | OSort => (sort_expected g, g)
  end.

(** reference answers to the queries *)
Definition q_depends_on (g : rgraph) (a b : Z) : bool := meme (a, b) (E g).
Definition q_deep (g : rgraph) (a b : Z) : bool := reachb (E g) a b.
Definition q_children (g : rgraph) (p : Z) : list Z := map fst (filter (fun e => Z.eqb (snd e) p) (E g)).
Definition q_parents (g : rgraph) (p : Z) : option (list Z) := if memz p (V g) then Some (succs (E g) p) else None.
Definition q_ancestors (g : rgraph) (p : Z) : list Z := reach_set (E g) p.

(** abstraction function from the concrete state *)
Definition abs (g : graph) : rgraph :=
  {| V := map nid (nodes g);
     E := flat_map (fun n => map (fun d => (nid n, d)) (ndeps n)) (nodes g) |}.

(** ---- helper definitions used by the statements in Props_C21.v (not extracted) *)
Definition edges_of (ns : list node) : list (Z * Z) :=
  flat_map (fun n => map (fun d => (nid n, d)) (ndeps n)) ns.

(** the index maps exactly the node ids, each to its position in the node vector *)
Definition index_inv (g : graph) : Prop :=
  NoDup (map nid (nodes g)) /\ forall p, idx_get (index g) p = position p (map nid (nodes g)).

Definition set_eq {A} (l1 l2 : list A) : Prop := forall x, In x l1 <-> In x l2.
Definition rg_eq (g1 g2 : rgraph) : Prop := set_eq (V g1) (V g2) /\ set_eq (E g1) (E g2).
Definition acyclic (E : list (Z * Z)) : Prop := forall a, ~ reach E a a.

(** side condition of rename_path: the new path is fresh (not a node) and differs from the old one.
    (rename_path a a erases every edge into a; rename onto an existing node makes two nodes share an id.) *)
Definition op_ok (g : graph) (o : op) : bool :=
  match o with
  | ORename a b => negb (memz b (map nid (nodes g))) && negb (Z.eqb a b)
  | _ => true
  end.
(** the checkable predicate over a history: every rename met while replaying it has a fresh target *)
Fixpoint hist_ok (g : graph) (os : list op) : bool :=
  match os with
  | [] => true
  | o :: r => op_ok g o && match step g o with Ok x => hist_ok (snd x) r | _ => true end
  end.

(** result codes of the concrete operations, as in [step] *)
Definition inc_code (r : inc_result) : Z := match r with IncOk => 0 | IncCycle => 1 end.
Definition sort_code (e : option sort_err) : Z :=
  match e with None => 0 | Some CyclicReference => 2 | Some KeyNotFound => 3 end.
(** the reference graph after a whole history *)
Fixpoint r_run (g : rgraph) (os : list op) : rgraph :=
  match os with [] => g | o :: r => r_run (snd (r_step g o)) r end.
(** answers of [parents] compared as sets *)
Definition opt_set_eq (a b : option (list Z)) : Prop :=
  match a, b with Some l, Some l' => set_eq l l' | None, None => True | _, _ => False end.
(** histories made of add / inc_ref / remove / sort only *)
Definition no_rename (os : list op) : bool :=
  forallb (fun o => match o with ORename _ _ => false | _ => true end) os.

(** The judge applied to the implementation.  [judge_sort] above is what the model provably satisfies
    (theorem sort_judged); the property text itself does not say what a sort must answer when some
    dependency is not a registered module, so the judge also accepts a *tolerant* sort that ignores such
    dependencies: success on an acyclic graph with an order in which every module follows those of its
    dependencies that are modules.  A cycle must still be reported exactly when one exists. *)
Fixpoint before_all_present (order : list Z) (E : list (Z * Z)) (Vs seen : list Z) : bool :=
  match order with
  | [] => true
  | x :: r => forallb (fun d => negb (memz d Vs) || memz d seen) (succs E x)
              && before_all_present r E Vs (seen ++ [x])
  end.
Definition judge_sort_lenient (g : rgraph) (res : Z) (order : list Z) : bool :=
  judge_sort g res order
  || (Z.eqb res 0 && negb (has_cycle g) && same_set order (V g) && before_all_present order (E g) (V g) []).
