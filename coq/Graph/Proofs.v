(** C21 — lemmas and proofs for Props_C21.v *)
From Coq Require Import ZArith List Bool Arith Lia Permutation.
From ErgV Require Import Graph.Model Graph.Spec.
From ErgV Require Import Graph.ProofsReach.
From ErgV Require Graph.ProofsTsort.
Import ListNotations.
Open Scope Z_scope.

(* ====================================================================== *)
(* Basics.v *)
(* ---------- position *)
Lemma position_None : forall p l, position p l = None <-> ~ In p l.
Proof.
  intros p l. induction l as [|x r IH]; cbn [position In].
  - tauto.
  - destruct (Z.eqb x p) eqn:He.
    + apply Z.eqb_eq in He. split; [discriminate|]. intros H. exfalso. apply H. auto.
    + apply Z.eqb_neq in He. destruct (position p r) eqn:Hp; cbn [option_map].
      * split; [discriminate|]. intros H. exfalso. apply H. right.
        destruct (in_dec Z.eq_dec p r) as [Hi|Hn]; [exact Hi|]. apply IH in Hn. discriminate.
      * split; [|reflexivity]. intros _ [H|H]; [congruence|]. apply IH in H; auto.
Qed.
Lemma position_Some_In : forall p l i, position p l = Some i -> In p l.
Proof.
  intros p l i H. destruct (in_dec Z.eq_dec p l) as [Hi|Hn]; [exact Hi|].
  apply position_None in Hn. congruence.
Qed.
Lemma position_nth : forall p l i, position p l = Some i -> nth_error l i = Some p.
Proof.
  intros p l. induction l as [|x r IH]; intros i H; cbn [position] in H.
  - discriminate.
  - destruct (Z.eqb x p) eqn:He.
    + apply Z.eqb_eq in He. inversion H. subst. reflexivity.
    + destruct (position p r) eqn:Hp; cbn [option_map] in H; [|discriminate].
      inversion H. subst. cbn [nth_error]. apply IH. reflexivity.
Qed.
Lemma position_app : forall p l1 l2,
  position p (l1 ++ l2) = match position p l1 with
                          | Some i => Some i
                          | None => option_map (fun j => (length l1 + j)%nat) (position p l2)
                          end.
Proof.
  intros p l1 l2. induction l1 as [|x r IH]; cbn [position app length].
  - destruct (position p l2); reflexivity.
  - destruct (Z.eqb x p); [reflexivity|]. rewrite IH.
    destruct (position p r); cbn [option_map]; [reflexivity|].
    destruct (position p l2); reflexivity.
Qed.

Definition shift (i j : nat) : nat := if Nat.ltb i j then pred j else j.

Lemma position_remove_nth : forall l p i q, NoDup l -> position p l = Some i ->
  position q (remove_nth l i) = if Z.eqb p q then None else option_map (shift i) (position q l).
Proof.
  induction l as [|x r IH]; intros p i q Hnd Hp; cbn [position] in Hp.
  - discriminate.
  - inversion Hnd as [|? ? Hx Hr]; subst.
    destruct (Z.eqb x p) eqn:He.
    + apply Z.eqb_eq in He. subst x. inversion Hp; subst i. cbn [remove_nth position].
      destruct (Z.eqb p q) eqn:Hq.
      * apply Z.eqb_eq in Hq. subst q. apply position_None. exact Hx.
      * destruct (position q r); reflexivity.
    + destruct (position p r) as [i'|] eqn:Hpr; cbn [option_map] in Hp; [|discriminate].
      inversion Hp; subst i. cbn [remove_nth position].
      destruct (Z.eqb x q) eqn:Hxq.
      * apply Z.eqb_eq in Hxq. subst q. rewrite (Z.eqb_sym p x), He. reflexivity.
      * rewrite (IH p i' q Hr Hpr). destruct (Z.eqb p q); [reflexivity|].
        destruct (position q r) as [j|]; cbn [option_map]; [|reflexivity].
        unfold shift. f_equal.
        destruct (Nat.ltb_spec i' j) as [H1|H1]; destruct (Nat.ltb_spec (S i') (S j)) as [H2|H2]; cbn [pred]; lia.
Qed.

Lemma position_map_ren : forall old new l q, ~ In new l -> new <> old ->
  position q (map (ren old new) l) =
    if Z.eqb new q then position old l else if Z.eqb old q then None else position q l.
Proof.
  intros old new l q. induction l as [|x r IH]; intros Hn Hne; cbn [map position].
  - destruct (Z.eqb new q); [reflexivity|]. destruct (Z.eqb old q); reflexivity.
  - assert (Hxn : x <> new) by (intros ->; apply Hn; left; reflexivity).
    assert (Hr : ~ In new r) by (intros H; apply Hn; right; exact H).
    specialize (IH Hr Hne). unfold ren at 1.
    destruct (Z.eqb x old) eqn:Hxo.
    + apply Z.eqb_eq in Hxo. subst x. rewrite IH.
      destruct (Z.eqb new q) eqn:H1; [reflexivity|].
      destruct (Z.eqb old q) eqn:H2; reflexivity.
    + rewrite IH. destruct (Z.eqb new q) eqn:H1.
      * apply Z.eqb_eq in H1. subst q. apply Z.eqb_neq in Hxn. rewrite Hxn. reflexivity.
      * destruct (Z.eqb old q) eqn:H2.
        -- apply Z.eqb_eq in H2. subst q. rewrite Hxo. reflexivity.
        -- reflexivity.
Qed.

(* ---------- the index dictionary *)
Lemma idx_get_app : forall a b q,
  idx_get (a ++ b) q = match idx_get a q with Some v => Some v | None => idx_get b q end.
Proof.
  induction a as [|[k v] r IH]; intros b q; cbn [app idx_get]; [reflexivity|].
  destruct (Z.eqb k q); [reflexivity|apply IH].
Qed.
Lemma idx_get_remove : forall ix p q,
  idx_get (idx_remove ix p) q = if Z.eqb p q then None else idx_get ix q.
Proof.
  induction ix as [|[k v] r IH]; intros p q; unfold idx_remove; cbn [filter idx_get fst].
  - destruct (Z.eqb p q); reflexivity.
  - fold (idx_remove r p). destruct (Z.eqb k p) eqn:Hkp; cbn [negb].
    + apply Z.eqb_eq in Hkp. subst k. rewrite IH. destruct (Z.eqb p q); reflexivity.
    + cbn [idx_get]. rewrite IH. destruct (Z.eqb k q) eqn:Hkq; [|reflexivity].
      apply Z.eqb_eq in Hkq. subst k. rewrite Z.eqb_sym, Hkp. reflexivity.
Qed.
Lemma idx_get_insert : forall ix p v q,
  idx_get (idx_insert ix p v) q = if Z.eqb p q then Some v else idx_get ix q.
Proof.
  intros ix p v q. unfold idx_insert. rewrite idx_get_app, idx_get_remove. cbn [idx_get].
  destruct (Z.eqb p q); [reflexivity|]. destruct (idx_get ix q); reflexivity.
Qed.
Lemma idx_get_map : forall (f : nat -> nat) ix q,
  idx_get (map (fun kv => (fst kv, f (snd kv))) ix) q = option_map f (idx_get ix q).
Proof.
  intros f. induction ix as [|[k v] r IH]; intros q; cbn [map idx_get fst snd]; [reflexivity|].
  destruct (Z.eqb k q); [reflexivity|apply IH].
Qed.

(* ---------- list surgery *)
Lemma map_update_nth : forall (l : list node) i f, (forall n, nid (f n) = nid n) ->
  map nid (update_nth l i f) = map nid l.
Proof.
  induction l as [|x r IH]; intros i f Hf; destruct i; cbn [update_nth map]; try reflexivity.
  - rewrite Hf. reflexivity.
  - rewrite IH by exact Hf. reflexivity.
Qed.
Lemma map_remove_nth : forall {A B} (f : A -> B) l i, map f (remove_nth l i) = remove_nth (map f l) i.
Proof.
  intros A B f. induction l as [|x r IH]; intros i; destruct i; cbn [remove_nth map]; try reflexivity.
  rewrite IH. reflexivity.
Qed.
Lemma In_remove_nth : forall {A} (l : list A) i x, In x (remove_nth l i) -> In x l.
Proof.
  intros A. induction l as [|y r IH]; intros i x H; destruct i; cbn [remove_nth] in H; cbn [In] in *; auto.
  destruct H as [H|H]; [auto|right; eapply IH; exact H].
Qed.
Lemma NoDup_remove_nth : forall {A} (l : list A) i, NoDup l -> NoDup (remove_nth l i).
Proof.
  intros A. induction l as [|y r IH]; intros i H; destruct i; cbn [remove_nth]; try assumption.
  - inversion H; assumption.
  - inversion H as [|? ? Hy Hr]; subst. constructor; [|apply IH; exact Hr].
    intros Hin. apply Hy. eapply In_remove_nth. exact Hin.
Qed.
Lemma map_nid_strip : forall p l, map nid (map (strip_dep p) l) = map nid l.
Proof. intros p l. rewrite map_map. apply map_ext. reflexivity. Qed.
Lemma map_nid_rename : forall a b l, map nid (map (rename_node a b) l) = map (ren a b) (map nid l).
Proof. intros a b l. rewrite !map_map. apply map_ext. intros n. reflexivity. Qed.

Lemma NoDup_map_ren : forall old new l, NoDup l -> ~ In new l -> NoDup (map (ren old new) l).
Proof.
  intros old new l Hnd Hn. induction Hnd as [|x r Hx Hr IH]; cbn [map]; [constructor|].
  assert (Hr' : ~ In new r) by (intros H; apply Hn; right; exact H).
  assert (Hxn : x <> new) by (intros ->; apply Hn; left; reflexivity).
  constructor; [|apply IH; exact Hr'].
  rewrite in_map_iff. intros [y [Hy Hyr]]. unfold ren in Hy.
  destruct (Z.eqb y old) eqn:H1; destruct (Z.eqb x old) eqn:H2.
  - apply Z.eqb_eq in H1. apply Z.eqb_eq in H2. apply Hx. rewrite H2, <- H1. exact Hyr.
  - apply Hxn. symmetry. exact Hy.
  - apply Hr'. rewrite <- Hy. exact Hyr.
  - apply Hx. rewrite <- Hy. exact Hyr.
Qed.

(* ---------- find_node vs position *)
Lemma find_node_position : forall ns p,
  find_node ns p = match position p (map nid ns) with Some i => nth_error ns i | None => None end.
Proof.
  induction ns as [|n r IH]; intros p; unfold find_node; cbn [find map position]; [reflexivity|].
  destruct (Z.eqb (nid n) p); [reflexivity|]. fold (find_node r p). rewrite IH.
  destruct (position p (map nid r)); reflexivity.
Qed.
Lemma find_node_Some : forall ns p n, find_node ns p = Some n -> In n ns /\ nid n = p.
Proof.
  intros ns p n H. unfold find_node in H. apply find_some in H. destruct H as [H1 H2].
  apply Z.eqb_eq in H2. auto.
Qed.
Lemma find_node_None : forall ns p, find_node ns p = None <-> ~ In p (map nid ns).
Proof.
  intros ns p. rewrite find_node_position, <- position_None.
  destruct (position p (map nid ns)) as [i|] eqn:Hp; [|tauto].
  split; [|discriminate]. intros H. apply position_nth in Hp. rewrite nth_error_map in Hp.
  rewrite H in Hp. discriminate.
Qed.
Lemma find_node_unique : forall ns n, NoDup (map nid ns) -> In n ns -> find_node ns (nid n) = Some n.
Proof.
  induction ns as [|m r IH]; intros n Hnd Hin; [destruct Hin|].
  cbn [map] in Hnd. inversion Hnd as [|? ? Hm Hr]; subst.
  unfold find_node. cbn [find]. destruct (Z.eqb (nid m) (nid n)) eqn:He.
  - destruct Hin as [->|Hin]; [reflexivity|]. apply Z.eqb_eq in He. exfalso. apply Hm.
    rewrite He. apply in_map. exact Hin.
  - destruct Hin as [->|Hin]; [rewrite Z.eqb_refl in He; discriminate|]. apply IH; assumption.
Qed.

Lemma NoDup_snoc : forall {A} (l : list A) x, NoDup l -> ~ In x l -> NoDup (l ++ [x]).
Proof.
  intros A l x Hnd Hn. eapply Permutation_NoDup; [apply Permutation_cons_append|].
  constructor; assumption.
Qed.

(* ====================================================================== *)
(* Inv.v *)
(* ================= index_inv ================= *)
Lemma index_inv_empty : index_inv empty.
Proof. split; [constructor|reflexivity]. Qed.

Lemma inv_idx_None : forall g p, index_inv g -> idx_get (index g) p = None -> ~ In p (map nid (nodes g)).
Proof. intros g p [_ Hi] H. rewrite Hi in H. apply position_None. exact H. Qed.

Lemma index_inv_add : forall g p, index_inv g -> index_inv (add_node_if_none g p).
Proof.
  intros g p Hinv. unfold add_node_if_none. destruct (idx_get (index g) p) eqn:Hg; [exact Hinv|].
  pose proof (inv_idx_None g p Hinv Hg) as Hnin. destruct Hinv as [Hnd Hi].
  split; cbn [nodes index].
  - rewrite map_app. cbn [map nid]. apply NoDup_snoc; assumption.
  - intros q. rewrite idx_get_insert, map_app, position_app. cbn [map nid position]. rewrite Hi.
    destruct (Z.eqb p q) eqn:Hpq.
    + apply Z.eqb_eq in Hpq. subst q. apply position_None in Hnin. rewrite Hnin. cbn [option_map].
      rewrite map_length. f_equal. lia.
    + destruct (position q (map nid (nodes g))); reflexivity.
Qed.

Lemma index_inv_remove : forall g p g', index_inv g -> remove g p = Ok g' -> index_inv g'.
Proof.
  intros g p g' Hinv H. unfold remove in H. destruct (idx_get (index g) p) as [i|] eqn:Hg.
  - destruct (Nat.ltb i (length (nodes g))) eqn:Hlt; [|discriminate]. inversion H; subst g'; clear H.
    destruct Hinv as [Hnd Hi]. rewrite Hi in Hg.
    split; cbn [nodes index]; rewrite map_nid_strip, map_remove_nth.
    + apply NoDup_remove_nth. exact Hnd.
    + intros q. rewrite (idx_get_map (fun v => if Nat.ltb i v then pred v else v)), idx_get_remove.
      rewrite (position_remove_nth _ p i q Hnd Hg), Hi.
      destruct (Z.eqb p q); reflexivity.
  - inversion H; subst g'; clear H. destruct Hinv as [Hnd Hi].
    split; cbn [nodes index]; rewrite map_nid_strip; assumption.
Qed.

Lemma remove_no_panic : forall g p, index_inv g -> remove g p <> Panic.
Proof.
  intros g p [Hnd Hi]. unfold remove. destruct (idx_get (index g) p) as [i|] eqn:Hg; [|discriminate].
  rewrite Hi in Hg. apply position_nth in Hg.
  assert (Hlt : (i < length (map nid (nodes g)))%nat) by (apply nth_error_Some; congruence).
  rewrite map_length in Hlt. apply Nat.ltb_lt in Hlt. rewrite Hlt. discriminate.
Qed.

Lemma index_inv_rename : forall g a b, index_inv g -> op_ok g (ORename a b) = true ->
  index_inv (rename_path g a b).
Proof.
  intros g a b [Hnd Hi] Hok. cbn [op_ok] in Hok. apply andb_true_iff in Hok. destruct Hok as [H1 H2].
  apply negb_true_iff in H1. apply memz_false in H1. apply negb_true_iff in H2. apply Z.eqb_neq in H2.
  assert (Hba : b <> a) by congruence.
  split; unfold rename_path; cbn [nodes index]; rewrite map_nid_rename.
  - apply NoDup_map_ren; assumption.
  - intros q. rewrite (position_map_ren a b _ q H1 Hba).
    destruct (idx_get (index g) a) as [i|] eqn:Hg.
    + rewrite idx_get_insert, idx_get_remove, Hi. rewrite Hi in Hg. rewrite Hg.
      destruct (Z.eqb b q); [reflexivity|]. destruct (Z.eqb a q); reflexivity.
    + rewrite Hi in Hg. rewrite Hg. rewrite Hi. destruct (Z.eqb b q) eqn:Hbq.
      * apply Z.eqb_eq in Hbq. subst q. apply position_None. exact H1.
      * destruct (Z.eqb a q) eqn:Haq; [|reflexivity]. apply Z.eqb_eq in Haq. subst q. exact Hg.
Qed.

(* ================= get_node ================= *)
Lemma get_node_spec : forall g p, index_inv g -> get_node g p = Ok (find_node (nodes g) p).
Proof.
  intros g p [Hnd Hi]. unfold get_node. rewrite Hi, find_node_position.
  destruct (position p (map nid (nodes g))) as [i|] eqn:Hp; [|reflexivity].
  apply position_nth in Hp. rewrite nth_error_map in Hp.
  destruct (nth_error (nodes g) i); [reflexivity|discriminate].
Qed.

(* ================= edges ================= *)
Lemma edges_of_In : forall ns a d, In (a, d) (edges_of ns) <-> exists n, In n ns /\ nid n = a /\ In d (ndeps n).
Proof.
  intros ns a d. unfold edges_of. rewrite in_flat_map. split.
  - intros [n [Hn Hin]]. apply in_map_iff in Hin. destruct Hin as [d' [He Hd]]. inversion He; subst.
    exists n. auto.
  - intros [n [Hn [Ha Hd]]]. exists n. split; [exact Hn|]. apply in_map_iff. exists d. subst. auto.
Qed.
Lemma edges_found : forall ns a n d, NoDup (map nid ns) -> find_node ns a = Some n ->
  (In (a, d) (edges_of ns) <-> In d (ndeps n)).
Proof.
  intros ns a n d Hnd Hf. rewrite edges_of_In. split.
  - intros [m [Hm [Ha Hd]]]. subst a. rewrite (find_node_unique ns m Hnd Hm) in Hf. inversion Hf; subst. exact Hd.
  - intros Hd. apply find_node_Some in Hf. destruct Hf as [Hin Hid]. exists n. auto.
Qed.
Lemma edges_notfound : forall ns a d, find_node ns a = None -> ~ In (a, d) (edges_of ns).
Proof.
  intros ns a d Hf H. apply edges_of_In in H. destruct H as [n [Hn [Ha _]]].
  apply find_node_None in Hf. apply Hf. subst a. apply in_map. exact Hn.
Qed.

(* ================= deep_depends_on ================= *)
Definition deep_any (f : nat) (g : graph) (target : Z) :=
  fix any (ds : list Z) (vis : list Z) {struct ds} : res (bool * list Z) :=
    match ds with
    | [] => Ok (false, vis)
    | d :: ds' =>
      do r <- deep_ f g target d vis;
      if fst r then Ok r else any ds' (snd r)
    end.

Lemma deep_unfold : forall f g t p vis,
  deep_ (S f) g t p vis =
    if memz p vis then Ok (false, vis)
    else do on <- get_node g p;
         match on with
         | None => Ok (false, p :: vis)
         | Some n => if memz t (ndeps n) then Ok (true, p :: vis)
                     else deep_any f g t (ndeps n) (p :: vis)
         end.
Proof. reflexivity. Qed.

Definition cnt (g : graph) (vis : list Z) : nat :=
  length (filter (fun x => negb (memz x vis)) (map nid (nodes g))).

Lemma cnt_le : forall g vis, (cnt g vis <= length (nodes g))%nat.
Proof. intros. unfold cnt. rewrite <- (map_length nid (nodes g)). apply filter_len_le. Qed.
Lemma cnt_mono : forall g v1 v2, incl v1 v2 -> (cnt g v2 <= cnt g v1)%nat.
Proof.
  intros g v1 v2 Hi. unfold cnt. apply filter_len_mono. intros x _ Hx.
  apply negb_true_iff in Hx. apply negb_true_iff. apply memz_false in Hx. apply memz_false.
  intros H. apply Hx. apply Hi. exact H.
Qed.
Lemma cnt_cons : forall g p vis, In p (map nid (nodes g)) -> ~ In p vis -> (cnt g (p :: vis) < cnt g vis)%nat.
Proof.
  intros g p vis Hin Hn. unfold cnt. apply filter_len_strict.
  - intros x _ Hx. apply negb_true_iff in Hx. apply negb_true_iff. apply memz_false in Hx. apply memz_false.
    intros H. apply Hx. right. exact H.
  - exists p. split; [exact Hin|]. split.
    + apply negb_true_iff. apply memz_false. exact Hn.
    + apply negb_false_iff. apply memz_In. left. reflexivity.
Qed.

Lemma deep_any_nil : forall f g t vis, deep_any f g t [] vis = Ok (false, vis).
Proof. reflexivity. Qed.
Lemma deep_any_cons : forall f g t d ds vis,
  deep_any f g t (d :: ds) vis = do r <- deep_ f g t d vis; if fst r then Ok r else deep_any f g t ds (snd r).
Proof. reflexivity. Qed.

Section Deep.
Variable g : graph.
Variable t : Z.
Hypothesis Hinv : index_inv g.
Let EE := edges_of (nodes g).

(* every node added to the visited set during a call that answered [false] has no edge to the target
   and all its successors are visited *)
Definition closed_part (vis vis' : list Z) : Prop :=
  forall x, In x vis' -> ~ In x vis -> ~ In (x, t) EE /\ forall d, In (x, d) EE -> In d vis'.

Definition deep_post (p : Z) (vis : list Z) (b : bool) (vis' : list Z) : Prop :=
  incl vis vis' /\ (b = true -> reach EE p t) /\ (b = false -> In p vis' /\ closed_part vis vis').

Definition any_post (ds : list Z) (vis : list Z) (b : bool) (vis' : list Z) : Prop :=
  incl vis vis' /\ (b = true -> exists d, In d ds /\ reach EE d t) /\
  (b = false -> (forall d, In d ds -> In d vis') /\ closed_part vis vis').

Lemma closed_part_refl : forall vis, closed_part vis vis.
Proof. intros vis x H1 H2. contradiction. Qed.

Lemma closed_part_trans : forall v0 v1 v2, incl v1 v2 -> closed_part v0 v1 -> closed_part v1 v2 -> closed_part v0 v2.
Proof.
  intros v0 v1 v2 Hi H1 H2 x Hx Hn. destruct (in_dec Z.eq_dec x v1) as [Hin|Hnin].
  - destruct (H1 x Hin Hn) as [Ha Hb]. split; [exact Ha|]. intros d Hd. apply Hi. apply Hb. exact Hd.
  - apply H2; assumption.
Qed.

Lemma any_spec : forall f,
  (forall p vis, (cnt g vis < f)%nat -> exists b vis', deep_ f g t p vis = Ok (b, vis') /\ deep_post p vis b vis') ->
  forall ds vis, (cnt g vis < f)%nat ->
    exists b vis', deep_any f g t ds vis = Ok (b, vis') /\ any_post ds vis b vis'.
Proof.
  intros f IHf. induction ds as [|d ds IHds]; intros vis Hc.
  - exists false, vis. split; [reflexivity|]. split; [apply incl_refl|]. split; [discriminate|].
    intros _. split; [intros d []|apply closed_part_refl].
  - destruct (IHf d vis Hc) as [b1 [v1 [H1 [Hi1 [Ht1 Hf1]]]]].
    rewrite deep_any_cons, H1. cbn [bind fst snd]. destruct b1.
    + exists true, v1. split; [reflexivity|]. split; [exact Hi1|]. split; [|discriminate].
      intros _. exists d. split; [left; reflexivity|apply Ht1; reflexivity].
    + assert (Hc1 : (cnt g v1 < f)%nat) by (pose proof (cnt_mono g vis v1 Hi1); lia).
      destruct (IHds v1 Hc1) as [b2 [v2 [H2 [Hi2 [Ht2 Hf2]]]]].
      destruct (Hf1 eq_refl) as [Hd1 Hcl1].
      exists b2, v2. split; [exact H2|]. split; [eapply incl_tran; eassumption|]. split.
      * intros Hb. destruct (Ht2 Hb) as [d' [Hd' Hr]]. exists d'. split; [right; exact Hd'|exact Hr].
      * intros Hb. destruct (Hf2 Hb) as [Hds Hcl2]. split.
        -- intros d0 [<-|Hd0]; [apply Hi2; exact Hd1|apply Hds; exact Hd0].
        -- exact (closed_part_trans vis v1 v2 Hi2 Hcl1 Hcl2).
Qed.

Lemma deep_spec : forall f p vis, (cnt g vis < f)%nat ->
  exists b vis', deep_ f g t p vis = Ok (b, vis') /\ deep_post p vis b vis'.
Proof.
  induction f as [|f IHf]; intros p vis Hc; [lia|].
  rewrite deep_unfold. destruct (memz p vis) eqn:Hpv.
  - exists false, vis. split; [reflexivity|]. split; [apply incl_refl|]. split; [discriminate|].
    intros _. split; [apply memz_In; exact Hpv|apply closed_part_refl].
  - apply memz_false in Hpv. rewrite (get_node_spec g p Hinv). cbn [bind].
    destruct (find_node (nodes g) p) as [n|] eqn:Hf.
    + destruct (memz t (ndeps n)) eqn:Ht.
      * exists true, (p :: vis). split; [reflexivity|]. split; [apply incl_tl, incl_refl|]. split; [|discriminate].
        intros _. apply reach_edge. apply (edges_found _ _ _ _ (proj1 Hinv) Hf). apply memz_In. exact Ht.
      * apply memz_false in Ht.
        assert (Hpin : In p (map nid (nodes g))).
        { apply find_node_Some in Hf. destruct Hf as [Hn Hid]. rewrite <- Hid. apply in_map. exact Hn. }
        assert (Hc' : (cnt g (p :: vis) < f)%nat) by (pose proof (cnt_cons g p vis Hpin Hpv); lia).
        destruct (any_spec f IHf (ndeps n) (p :: vis) Hc') as [b [v' [H [Hi [Htr Hfa]]]]].
        exists b, v'. split; [exact H|]. split; [intros x Hx; apply Hi; right; exact Hx|]. split.
        -- intros Hb. destruct (Htr Hb) as [d [Hd Hr]]. eapply reach_step; [|exact Hr].
           apply (edges_found _ _ _ _ (proj1 Hinv) Hf). exact Hd.
        -- intros Hb. destruct (Hfa Hb) as [Hds Hcl]. split; [apply Hi; left; reflexivity|].
           intros x Hx Hnx. destruct (Z.eq_dec x p) as [->|Hxp].
           ++ split.
              ** intros He. apply Ht. apply (edges_found _ _ _ _ (proj1 Hinv) Hf). exact He.
              ** intros d He. apply Hds. apply (edges_found _ _ _ _ (proj1 Hinv) Hf). exact He.
           ++ apply Hcl; [exact Hx|]. intros [Hh|Hh]; [apply Hxp; symmetry; exact Hh|apply Hnx; exact Hh].
    + exists false, (p :: vis). split; [reflexivity|]. split; [apply incl_tl, incl_refl|]. split; [discriminate|].
      intros _. split; [left; reflexivity|]. intros x [Hx|Hx] Hnx; [subst x|contradiction].
      split; [apply edges_notfound; exact Hf|]. intros d He. exfalso. eapply edges_notfound; eassumption.
Qed.

Lemma closed_no_reach : forall S, closed_part [] S -> forall x, reach EE x t -> In x S -> False.
Proof.
  intros S Hcl x Hr. assert (Hg : forall y, reach EE x y -> y = t -> In x S -> False).
  { clear Hr. intros y Hr. induction Hr as [a b He|a c b He Hr IH]; intros Hy Hin; subst b.
    - destruct (Hcl a Hin (fun H => H)) as [Hn _]. apply Hn. exact He.
    - destruct (Hcl a Hin (fun H => H)) as [_ Hs]. apply IH; [reflexivity|]. apply Hs. exact He. }
  intros Hin. exact (Hg t Hr eq_refl Hin).
Qed.

Lemma deep_depends_on_total : forall a, exists b, deep_depends_on g a t = Ok b /\ (b = true <-> reach EE a t).
Proof.
  intros a. unfold deep_depends_on.
  assert (Hc : (cnt g [] < fuel_of g)%nat) by (unfold fuel_of; pose proof (cnt_le g []); lia).
  destruct (deep_spec (fuel_of g) a [] Hc) as [b [v' [H [Hi [Htr Hfa]]]]].
  rewrite H. cbn [bind fst]. exists b. split; [reflexivity|]. split; [exact Htr|].
  intros Hr. destruct b; [reflexivity|]. exfalso. destruct (Hfa eq_refl) as [Hin Hcl].
  eapply closed_no_reach; eassumption.
Qed.
End Deep.

Theorem deep_depends_on_reach_l : forall g a b, index_inv g ->
  (deep_depends_on g a b = Ok true <-> reach (E (abs g)) a b).
Proof.
  intros g a b Hinv. destruct (deep_depends_on_total g b Hinv a) as [r [H Hr]]. rewrite H.
  change (E (abs g)) with (edges_of (nodes g)). rewrite <- Hr. split; [intros Hx; inversion Hx; reflexivity|intros ->; reflexivity].
Qed.

Lemma deep_depends_on_false : forall g a b, index_inv g ->
  (deep_depends_on g a b = Ok false <-> ~ reach (E (abs g)) a b).
Proof.
  intros g a b Hinv. destruct (deep_depends_on_total g b Hinv a) as [r [H Hr]]. rewrite H.
  change (E (abs g)) with (edges_of (nodes g)). rewrite <- Hr. destruct r; split; intros Hx; congruence.
Qed.

Lemma reach_dec : forall E a b, {reach E a b} + {~ reach E a b}.
Proof.
  intros E a b. destruct (reachb E a b) eqn:H.
  - left. apply reachb_spec. exact H.
  - right. intros Hr. apply reachb_spec in Hr. congruence.
Qed.

(* ================= inc_ref ================= *)
Lemma edges_find : forall ns a x, NoDup (map nid ns) ->
  (In (a, x) (edges_of ns) <-> exists n, find_node ns a = Some n /\ In x (ndeps n)).
Proof.
  intros ns a x Hnd. destruct (find_node ns a) as [n|] eqn:Hf.
  - rewrite (edges_found ns a n x Hnd Hf). split; [intros H; exists n; auto|].
    intros [m [Hm Hx]]. inversion Hm; subst. exact Hx.
  - split; [intros H; exfalso; eapply edges_notfound; eassumption|]. intros [m [Hm _]]. discriminate.
Qed.

Lemma find_update_nth : forall ns i n f a, (forall m, nid (f m) = nid m) -> NoDup (map nid ns) ->
  nth_error ns i = Some n ->
  find_node (update_nth ns i f) a = if Z.eqb (nid n) a then Some (f n) else find_node ns a.
Proof.
  induction ns as [|m r IH]; intros i n f a Hf Hnd Hn; destruct i; cbn [nth_error] in Hn; try discriminate.
  - inversion Hn; subst m. cbn [update_nth]. unfold find_node. cbn [find]. rewrite Hf.
    destruct (Z.eqb (nid n) a); reflexivity.
  - cbn [map] in Hnd. inversion Hnd as [|? ? Hm Hr]; subst. cbn [update_nth]. unfold find_node. cbn [find].
    fold (find_node (update_nth r i f) a). fold (find_node r a). rewrite (IH i n f a Hf Hr Hn).
    destruct (Z.eqb (nid m) a) eqn:Hma; [|reflexivity].
    destruct (Z.eqb (nid n) a) eqn:Hna; [|reflexivity].
    apply Z.eqb_eq in Hma. apply Z.eqb_eq in Hna. exfalso. apply Hm. rewrite Hma, <- Hna.
    apply in_map. eapply nth_error_In. exact Hn.
Qed.

Lemma add_node_ids : forall g p, index_inv g ->
  set_eq (map nid (nodes (add_node_if_none g p))) (p :: map nid (nodes g)).
Proof.
  intros g p [Hnd Hi] x. unfold add_node_if_none. destruct (idx_get (index g) p) eqn:Hg; cbn [nodes].
  - rewrite Hi in Hg. apply position_Some_In in Hg. cbn [In]. split; [auto|]. intros [<-|H]; assumption.
  - rewrite map_app, in_app_iff. cbn [map nid In]. tauto.
Qed.
Lemma add_node_edges : forall g p, edges_of (nodes (add_node_if_none g p)) = edges_of (nodes g).
Proof.
  intros g p. unfold add_node_if_none. destruct (idx_get (index g) p); [reflexivity|]. cbn [nodes].
  unfold edges_of. rewrite flat_map_app. cbn [flat_map ndeps map app]. apply app_nil_r.
Qed.

Definition push_dep (d : Z) (n : node) : node := {| nid := nid n; ndeps := set_insert d (ndeps n) |}.

Lemma inc_ref_spec : forall g r d, index_inv g ->
  let g1 := add_node_if_none g r in
  (r = d -> inc_ref g r d = Ok (IncOk, g1)) /\
  (r <> d -> reach (edges_of (nodes g)) d r -> inc_ref g r d = Ok (IncCycle, g1)) /\
  (r <> d -> ~ reach (edges_of (nodes g)) d r ->
     exists g2, inc_ref g r d = Ok (IncOk, g2) /\ index_inv g2 /\
                map nid (nodes g2) = map nid (nodes g1) /\
                forall e, In e (edges_of (nodes g2)) <-> e = (r, d) \/ In e (edges_of (nodes g))).
Proof.
  intros g r d Hinv g1. pose proof (index_inv_add g r Hinv) as Hinv1. fold g1 in Hinv1.
  unfold inc_ref. fold g1. split; [|split].
  - intros ->. rewrite Z.eqb_refl. reflexivity.
  - intros Hne Hr. apply Z.eqb_neq in Hne. rewrite Hne.
    rewrite <- (add_node_edges g r) in Hr. fold g1 in Hr.
    apply (deep_depends_on_reach_l g1 d r Hinv1) in Hr. rewrite Hr. reflexivity.
  - intros Hne Hr. apply Z.eqb_neq in Hne. rewrite Hne.
    rewrite <- (add_node_edges g r) in Hr. fold g1 in Hr.
    apply (deep_depends_on_false g1 d r Hinv1) in Hr. rewrite Hr. cbn [bind].
    destruct Hinv1 as [Hnd1 Hi1].
    assert (Hin : In r (map nid (nodes g1))) by (apply (add_node_ids g r Hinv); left; reflexivity).
    destruct (position r (map nid (nodes g1))) as [i|] eqn:Hp; [|apply position_None in Hp; contradiction].
    rewrite Hi1, Hp. pose proof (position_nth _ _ _ Hp) as Hnth. rewrite nth_error_map in Hnth.
    destruct (nth_error (nodes g1) i) as [n|] eqn:Hn; [|discriminate]. cbn [option_map] in Hnth.
    inversion Hnth as [Hid]. clear Hnth.
    eexists. split; [reflexivity|]. cbn [nodes index].
    set (f := fun n0 : node => {| nid := nid n0; ndeps := set_insert d (ndeps n0) |}).
    assert (Hids : map nid (update_nth (nodes g1) i f) = map nid (nodes g1)) by (apply map_update_nth; reflexivity).
    split; [|split].
    + split; cbn [nodes index]; rewrite Hids; assumption.
    + exact Hids.
    + intros [a x]. rewrite <- (add_node_edges g r). fold g1.
      rewrite edges_find by (rewrite Hids; exact Hnd1). rewrite (edges_find (nodes g1)) by exact Hnd1.
      rewrite (find_update_nth (nodes g1) i n f a (fun _ => eq_refl) Hnd1 Hn). rewrite Hid.
      destruct (Z.eqb r a) eqn:Hra.
      * apply Z.eqb_eq in Hra. subst a.
        assert (Hfn : find_node (nodes g1) r = Some n).
        { rewrite <- Hid. apply find_node_unique; [exact Hnd1|]. eapply nth_error_In. exact Hn. }
        rewrite Hfn. split.
        -- intros [m [Hm Hx]]. inversion Hm; subst m. cbn [ndeps] in Hx. apply set_insert_In in Hx.
           destruct Hx as [->|Hx]; [left; reflexivity|right; exists n; auto].
        -- intros [He|[m [Hm Hx]]]; eexists; (split; [reflexivity|]); cbn [ndeps]; apply set_insert_In.
           ++ inversion He. left. reflexivity.
           ++ inversion Hm; subst m. right. exact Hx.
      * apply Z.eqb_neq in Hra. split; [intros H; right; exact H|]. intros [He|H]; [|exact H].
        inversion He. congruence.
Qed.

Lemma index_inv_inc : forall g r d x, index_inv g -> inc_ref g r d = Ok x -> index_inv (snd x).
Proof.
  intros g r d x Hinv H. destruct (inc_ref_spec g r d Hinv) as [H1 [H2 H3]].
  destruct (Z.eq_dec r d) as [Heq|Hne].
  - rewrite (H1 Heq) in H. inversion H; subst x. apply index_inv_add. exact Hinv.
  - destruct (reach_dec (edges_of (nodes g)) d r) as [Hr|Hr].
    + rewrite (H2 Hne Hr) in H. inversion H; subst x. apply index_inv_add. exact Hinv.
    + destruct (H3 Hne Hr) as [g2 [Hg2 [Hi2 _]]]. rewrite Hg2 in H. inversion H; subst x. exact Hi2.
Qed.

(* ====================================================================== *)
(* Step.v *)
(* ================= sort ================= *)
Lemma rebuild_index_gen : forall ns k ix q, NoDup (map nid ns) ->
  idx_get (fold_left (fun ix kn => idx_insert ix (nid (snd kn)) (fst kn)) (enumerate_from k ns) ix) q =
    match position q (map nid ns) with Some j => Some (k + j)%nat | None => idx_get ix q end.
Proof.
  induction ns as [|n r IH]; intros k ix q Hnd; cbn [enumerate_from fold_left map position fst snd]; [reflexivity|].
  cbn [map] in Hnd. inversion Hnd as [|? ? Hn Hr]; subst. rewrite (IH (S k) _ q Hr), idx_get_insert.
  destruct (Z.eqb (nid n) q) eqn:Hq.
  - apply Z.eqb_eq in Hq. subst q. apply position_None in Hn. rewrite Hn. f_equal. lia.
  - destruct (position q (map nid r)); cbn [option_map]; [f_equal; lia|reflexivity].
Qed.
Lemma rebuild_index_spec : forall ns q, NoDup (map nid ns) ->
  idx_get (rebuild_index ns) q = position q (map nid ns).
Proof.
  intros ns q Hnd. unfold rebuild_index. rewrite (rebuild_index_gen ns 0 [] q Hnd).
  destruct (position q (map nid ns)); reflexivity.
Qed.

Lemma sort_total : forall g, exists x, sort g = Ok x.
Proof.
  intros g. unfold sort, sort_gen. destruct (tsort (nodes g)) as [r| |] eqn:Ht.
  - cbn [bind]. destruct r; eexists; reflexivity.
  - exfalso. eapply ProofsTsort.tsort_no_panic. exact Ht.
  - exfalso. eapply ProofsTsort.tsort_no_fuel. exact Ht.
Qed.

Lemma sort_spec : forall g x, index_inv g -> sort g = Ok x ->
  (exists e, tsort (nodes g) = Ok (inl e) /\ x = (Some e, g)) \/
  (exists ns, tsort (nodes g) = Ok (inr ns) /\ x = (None, {| nodes := ns; index := rebuild_index ns |}) /\
              Permutation ns (nodes g) /\ before_all (map nid ns) (edges_of (nodes g)) [] = true).
Proof.
  intros g x [Hnd Hi] H. unfold sort, sort_gen in H. destruct (tsort (nodes g)) as [r| |] eqn:Ht; try discriminate.
  cbn [bind] in H. destruct r as [e|ns]; inversion H; subst x.
  - left. exists e. auto.
  - right. exists ns. destruct (ProofsTsort.tsort_sound (nodes g) ns Hnd Ht) as [Hp Hb]. auto.
Qed.

Lemma index_inv_sort : forall g x, index_inv g -> sort g = Ok x -> index_inv (snd x).
Proof.
  intros g x Hinv H. destruct (sort_spec g x Hinv H) as [[e [_ ->]]|[ns [_ [-> [Hp _]]]]]; cbn [snd]; [exact Hinv|].
  assert (Hnd : NoDup (map nid ns)).
  { eapply Permutation_NoDup; [apply Permutation_map, Permutation_sym; exact Hp|exact (proj1 Hinv)]. }
  split; cbn [nodes index]; [exact Hnd|]. intros q. apply rebuild_index_spec. exact Hnd.
Qed.

(* ================= step ================= *)
Lemma inc_ref_total : forall g r d, index_inv g -> exists x, inc_ref g r d = Ok x.
Proof.
  intros g r d Hinv. destruct (inc_ref_spec g r d Hinv) as [H1 [H2 H3]].
  destruct (Z.eq_dec r d) as [Heq|Hne]; [eexists; apply H1; exact Heq|].
  destruct (reach_dec (edges_of (nodes g)) d r) as [Hr|Hr].
  - eexists. apply H2; assumption.
  - destruct (H3 Hne Hr) as [g2 [Hg2 _]]. eexists. exact Hg2.
Qed.
Lemma remove_total : forall g p, index_inv g -> exists g', remove g p = Ok g'.
Proof.
  intros g p Hinv. pose proof (remove_no_panic g p Hinv) as Hp. unfold remove in *.
  destruct (idx_get (index g) p); [|eexists; reflexivity].
  destruct (Nat.ltb n (length (nodes g))); [eexists; reflexivity|congruence].
Qed.

Lemma step_total : forall g o, index_inv g -> exists x, step g o = Ok x.
Proof.
  intros g o Hinv. destruct o as [p|r d|p|a b|]; cbn [step].
  - eexists; reflexivity.
  - destruct (inc_ref_total g r d Hinv) as [x ->]. eexists; reflexivity.
  - destruct (remove_total g p Hinv) as [x ->]. eexists; reflexivity.
  - eexists; reflexivity.
  - destruct (sort_total g) as [x ->]. eexists; reflexivity.
Qed.

Lemma step_no_panic_l : forall g o, index_inv g -> step g o <> Panic.
Proof. intros g o Hinv. destruct (step_total g o Hinv) as [x ->]. discriminate. Qed.
Lemma step_no_fuel_l : forall g o, index_inv g -> step g o <> Fuel.
Proof. intros g o Hinv. destruct (step_total g o Hinv) as [x ->]. discriminate. Qed.

Lemma index_inv_step : forall g o x, index_inv g -> op_ok g o = true -> step g o = Ok x -> index_inv (snd x).
Proof.
  intros g o x Hinv Hok H. destruct o as [p|r d|p|a b|]; cbn [step] in H.
  - inversion H; subst x. apply index_inv_add. exact Hinv.
  - destruct (inc_ref g r d) as [y| |] eqn:Hy; try discriminate. cbn [bind] in H. inversion H; subst x.
    cbn [snd]. eapply index_inv_inc; eassumption.
  - destruct (remove g p) as [y| |] eqn:Hy; try discriminate. cbn [bind] in H. inversion H; subst x.
    cbn [snd]. eapply index_inv_remove; eassumption.
  - inversion H; subst x. apply index_inv_rename; assumption.
  - destruct (sort g) as [y| |] eqn:Hy; try discriminate. cbn [bind] in H. inversion H; subst x.
    cbn [snd]. eapply index_inv_sort; eassumption.
Qed.

(* ================= histories ================= *)
Lemma run_ops_inv : forall os g, index_inv g -> hist_ok g os = true ->
  exists g', run_ops g os = Ok g' /\ index_inv g'.
Proof.
  induction os as [|o os IH]; intros g Hinv Hok; cbn [run_ops].
  - exists g. auto.
  - cbn [hist_ok] in Hok. apply andb_true_iff in Hok. destruct Hok as [Ho Hr].
    destruct (step_total g o Hinv) as [x Hx]. rewrite Hx in *. cbn [bind].
    apply IH; [eapply index_inv_step; eassumption|exact Hr].
Qed.

Lemma run_ops_empty_inv : forall os, hist_ok empty os = true ->
  exists g, run_ops empty os = Ok g /\ index_inv g.
Proof. intros os H. apply run_ops_inv; [apply index_inv_empty|exact H]. Qed.

(* ================= ancestors: fuel ================= *)
Definition anc_each (f : nat) (g : graph) :=
  fix each (ps : list Z) (anc vis : list Z) {struct ps} : res (list Z * list Z) :=
    match ps with
    | [] => Ok (anc, vis)
    | q :: ps' =>
      if memz q anc then each ps' anc vis
      else do r <- ancestors_ f g q (anc ++ [q]) vis; each ps' (fst r) (snd r)
    end.
Lemma anc_unfold : forall f g p anc vis,
  ancestors_ (S f) g p anc vis =
    if memz p vis then Ok (anc, vis)
    else do on <- get_node g p;
         match on with
         | None => Ok (anc, p :: vis)
         | Some n => anc_each f g (ndeps n) anc (p :: vis)
         end.
Proof. reflexivity. Qed.
Lemma anc_each_cons : forall f g q ps anc vis,
  anc_each f g (q :: ps) anc vis =
    if memz q anc then anc_each f g ps anc vis
    else do r <- ancestors_ f g q (anc ++ [q]) vis; anc_each f g ps (fst r) (snd r).
Proof. reflexivity. Qed.

Lemma ancestors_total_ : forall g, index_inv g -> forall f p anc vis, (cnt g vis < f)%nat ->
  exists anc' vis', ancestors_ f g p anc vis = Ok (anc', vis') /\ incl vis vis'.
Proof.
  intros g Hinv. induction f as [|f IHf]; intros p anc vis Hc; [lia|].
  rewrite anc_unfold. destruct (memz p vis) eqn:Hpv.
  - exists anc, vis. split; [reflexivity|apply incl_refl].
  - apply memz_false in Hpv. rewrite (get_node_spec g p Hinv). cbn [bind].
    destruct (find_node (nodes g) p) as [n|] eqn:Hf.
    + assert (Hpin : In p (map nid (nodes g))).
      { apply find_node_Some in Hf. destruct Hf as [Hn Hid]. rewrite <- Hid. apply in_map. exact Hn. }
      assert (Hc' : (cnt g (p :: vis) < f)%nat) by (pose proof (cnt_cons g p vis Hpin Hpv); lia).
      assert (Hloop : forall ps anc1 vis1, (cnt g vis1 < f)%nat ->
                exists anc' vis', anc_each f g ps anc1 vis1 = Ok (anc', vis') /\ incl vis1 vis').
      { induction ps as [|q ps IHps]; intros anc1 vis1 Hc1.
        - exists anc1, vis1. split; [reflexivity|apply incl_refl].
        - rewrite anc_each_cons. destruct (memz q anc1); [apply IHps; exact Hc1|].
          destruct (IHf q (anc1 ++ [q]) vis1 Hc1) as [a2 [v2 [H2 Hi2]]]. rewrite H2. cbn [bind fst snd].
          assert (Hc2 : (cnt g v2 < f)%nat) by (pose proof (cnt_mono g vis1 v2 Hi2); lia).
          destruct (IHps a2 v2 Hc2) as [a3 [v3 [H3 Hi3]]]. exists a3, v3. split; [exact H3|].
          eapply incl_tran; eassumption. }
      destruct (Hloop (ndeps n) anc (p :: vis) Hc') as [a' [v' [H Hi]]]. exists a', v'. split; [exact H|].
      intros x Hx. apply Hi. right. exact Hx.
    + exists anc, (p :: vis). split; [reflexivity|apply incl_tl, incl_refl].
Qed.

Lemma ancestors_total : forall g p, index_inv g -> exists l, ancestors g p = Ok l.
Proof.
  intros g p Hinv. unfold ancestors.
  assert (Hc : (cnt g [] < fuel_of g)%nat) by (unfold fuel_of; pose proof (cnt_le g []); lia).
  destruct (ancestors_total_ g Hinv (fuel_of g) p [] [] Hc) as [a [v [H _]]]. rewrite H. eexists; reflexivity.
Qed.

Lemma fuel_enough_l : forall g, index_inv g ->
  (forall a b, deep_depends_on g a b <> Fuel) /\ (forall p, ancestors g p <> Fuel) /\ tsort (nodes g) <> Fuel /\
  (forall o, step g o <> Fuel).
Proof.
  intros g Hinv. split; [|split; [|split]].
  - intros a b. destruct (deep_depends_on_total g b Hinv a) as [r [-> _]]. discriminate.
  - intros p. destruct (ancestors_total g p Hinv) as [l ->]. discriminate.
  - apply ProofsTsort.tsort_no_fuel.
  - intros o. apply step_no_fuel_l. exact Hinv.
Qed.
