(** C21 — lemmas and proofs for Props_C21.v *)
From Coq Require Import ZArith List Bool Arith Lia Permutation.
From ErgV Require Import Graph.Model Graph.Spec.
From ErgV Require Import Graph.ProofsReach.
From ErgV Require Graph.ProofsTsort.
Import ListNotations.
Open Scope Z_scope.

(* ====================================================================== *)
(* Basics.v *)
(* ---------- position *)
Lemma position_None : forall p l, position p l = None <-> ~ In p l.
Proof.
  intros p l. induction l as [|x r IH]; cbn [position In].
  - tauto.
  - destruct (Z.eqb x p) eqn:He.
    + apply Z.eqb_eq in He. split; [discriminate|]. intros H. exfalso. apply H. auto.
    + apply Z.eqb_neq in He. destruct (position p r) eqn:Hp; cbn [option_map].
      * split; [discriminate|]. intros H. exfalso. apply H. right.
        destruct (in_dec Z.eq_dec p r) as [Hi|Hn]; [exact Hi|]. apply IH in Hn. discriminate.
      * split; [|reflexivity]. intros _ [H|H]; [congruence|]. apply IH in H; auto.
Qed.
Lemma position_Some_In : forall p l i, position p l = Some i -> In p l.
Proof.
  intros p l i H. destruct (in_dec Z.eq_dec p l) as [Hi|Hn]; [exact Hi|].
  apply position_None in Hn. congruence.
Qed.
Lemma position_nth : forall p l i, position p l = Some i -> nth_error l i = Some p.
Proof.
  intros p l. induction l as [|x r IH]; intros i H; cbn [position] in H.
  - discriminate.
  - destruct (Z.eqb x p) eqn:He.
    + apply Z.eqb_eq in He. inversion H. subst. reflexivity.
    + destruct (position p r) eqn:Hp; cbn [option_map] in H; [|discriminate].
      inversion H. subst. cbn [nth_error]. apply IH. reflexivity.
Qed.
Lemma position_app : forall p l1 l2,
  position p (l1 ++ l2) = match position p l1 with
                          | Some i => Some i
                          | None => option_map (fun j => (length l1 + j)%nat) (position p l2)
                          end.
Proof.
  intros p l1 l2. induction l1 as [|x r IH]; cbn [position app length].
  - destruct (position p l2); reflexivity.
  - destruct (Z.eqb x p); [reflexivity|]. rewrite IH.
    destruct (position p r); cbn [option_map]; [reflexivity|].
    destruct (position p l2); reflexivity.
Qed.

Definition shift (i j : nat) : nat := if Nat.ltb i j then pred j else j.

Lemma position_remove_nth : forall l p i q, NoDup l -> position p l = Some i ->
  position q (remove_nth l i) = if Z.eqb p q then None else option_map (shift i) (position q l).
Proof.
  induction l as [|x r IH]; intros p i q Hnd Hp; cbn [position] in Hp.
  - discriminate.
  - inversion Hnd as [|? ? Hx Hr]; subst.
    destruct (Z.eqb x p) eqn:He.
    + apply Z.eqb_eq in He. subst x. inversion Hp; subst i. cbn [remove_nth position].
      destruct (Z.eqb p q) eqn:Hq.
      * apply Z.eqb_eq in Hq. subst q. apply position_None. exact Hx.
      * destruct (position q r); reflexivity.
    + destruct (position p r) as [i'|] eqn:Hpr; cbn [option_map] in Hp; [|discriminate].
      inversion Hp; subst i. cbn [remove_nth position].
      destruct (Z.eqb x q) eqn:Hxq.
      * apply Z.eqb_eq in Hxq. subst q. rewrite (Z.eqb_sym p x), He. reflexivity.
      * rewrite (IH p i' q Hr Hpr). destruct (Z.eqb p q); [reflexivity|].
        destruct (position q r) as [j|]; cbn [option_map]; [|reflexivity].
        unfold shift. f_equal.
        destruct (Nat.ltb_spec i' j) as [H1|H1]; destruct (Nat.ltb_spec (S i') (S j)) as [H2|H2]; cbn [pred]; lia.
Qed.

Lemma position_map_ren : forall old new l q, ~ In new l -> new <> old ->
  position q (map (ren old new) l) =
    if Z.eqb new q then position old l else if Z.eqb old q then None else position q l.
Proof.
  intros old new l q. induction l as [|x r IH]; intros Hn Hne; cbn [map position].
  - destruct (Z.eqb new q); [reflexivity|]. destruct (Z.eqb old q); reflexivity.
  - assert (Hxn : x <> new) by (intros ->; apply Hn; left; reflexivity).
    assert (Hr : ~ In new r) by (intros H; apply Hn; right; exact H).
    specialize (IH Hr Hne). unfold ren at 1.
    destruct (Z.eqb x old) eqn:Hxo.
    + apply Z.eqb_eq in Hxo. subst x. rewrite IH.
      destruct (Z.eqb new q) eqn:H1; [reflexivity|].
      destruct (Z.eqb old q) eqn:H2; reflexivity.
    + rewrite IH. destruct (Z.eqb new q) eqn:H1.
      * apply Z.eqb_eq in H1. subst q. apply Z.eqb_neq in Hxn. rewrite Hxn. reflexivity.
      * destruct (Z.eqb old q) eqn:H2.
        -- apply Z.eqb_eq in H2. subst q. rewrite Hxo. reflexivity.
        -- reflexivity.
Qed.

(* ---------- the index dictionary *)
Lemma idx_get_app : forall a b q,
  idx_get (a ++ b) q = match idx_get a q with Some v => Some v | None => idx_get b q end.
Proof.
  induction a as [|[k v] r IH]; intros b q; cbn [app idx_get]; [reflexivity|].
  destruct (Z.eqb k q); [reflexivity|apply IH].
Qed.
Lemma idx_get_remove : forall ix p q,
  idx_get (idx_remove ix p) q = if Z.eqb p q then None else idx_get ix q.
Proof.
  induction ix as [|[k v] r IH]; intros p q; unfold idx_remove; cbn [filter idx_get fst].
  - destruct (Z.eqb p q); reflexivity.
  - fold (idx_remove r p). destruct (Z.eqb k p) eqn:Hkp; cbn [negb].
    + apply Z.eqb_eq in Hkp. subst k. rewrite IH. destruct (Z.eqb p q); reflexivity.
    + cbn [idx_get]. rewrite IH. destruct (Z.eqb k q) eqn:Hkq; [|reflexivity].
      apply Z.eqb_eq in Hkq. subst k. rewrite Z.eqb_sym, Hkp. reflexivity.
Qed.
Lemma idx_get_insert : forall ix p v q,
  idx_get (idx_insert ix p v) q = if Z.eqb p q then Some v else idx_get ix q.
Proof.
  intros ix p v q. unfold idx_insert. rewrite idx_get_app, idx_get_remove. cbn [idx_get].
  destruct (Z.eqb p q); [reflexivity|]. destruct (idx_get ix q); reflexivity.
Qed.
Lemma idx_get_map : forall (f : nat -> nat) ix q,
  idx_get (map (fun kv => (fst kv, f (snd kv))) ix) q = option_map f (idx_get ix q).
Proof.
  intros f. induction ix as [|[k v] r IH]; intros q; cbn [map idx_get fst snd]; [reflexivity|].
  destruct (Z.eqb k q); [reflexivity|apply IH].
Qed.

(* ---------- list surgery *)
Lemma map_update_nth : forall (l : list node) i f, (forall n, nid (f n) = nid n) ->
  map nid (update_nth l i f) = map nid l.
Proof.
  induction l as [|x r IH]; intros i f Hf; destruct i; cbn [update_nth map]; try reflexivity.
  - rewrite Hf. reflexivity.
  - rewrite IH by exact Hf. reflexivity.
Qed.
Lemma map_remove_nth : forall {A B} (f : A -> B) l i, map f (remove_nth l i) = remove_nth (map f l) i.
Proof.
  intros A B f. induction l as [|x r IH]; intros i; destruct i; cbn [remove_nth map]; try reflexivity.
  rewrite IH. reflexivity.
Qed.
Lemma In_remove_nth : forall {A} (l : list A) i x, In x (remove_nth l i) -> In x l.
Proof.
  intros A. induction l as [|y r IH]; intros i x H; destruct i; cbn [remove_nth] in H; cbn [In] in *; auto.
  destruct H as [H|H]; [auto|right; eapply IH; exact H].
Qed.
Lemma NoDup_remove_nth : forall {A} (l : list A) i, NoDup l -> NoDup (remove_nth l i).
Proof.
  intros A. induction l as [|y r IH]; intros i H; destruct i; cbn [remove_nth]; try assumption.
  - inversion H; assumption.
  - inversion H as [|? ? Hy Hr]; subst. constructor; [|apply IH; exact Hr].
    intros Hin. apply Hy. eapply In_remove_nth. exact Hin.
Qed.
Lemma map_nid_strip : forall p l, map nid (map (strip_dep p) l) = map nid l.
Proof. intros p l. rewrite map_map. apply map_ext. reflexivity. Qed.
Lemma map_nid_rename : forall a b l, map nid (map (rename_node a b) l) = map (ren a b) (map nid l).
Proof. intros a b l. rewrite !map_map. apply map_ext. intros n. reflexivity. Qed.

Lemma NoDup_map_ren : forall old new l, NoDup l -> ~ In new l -> NoDup (map (ren old new) l).
Proof.
  intros old new l Hnd Hn. induction Hnd as [|x r Hx Hr IH]; cbn [map]; [constructor|].
  assert (Hr' : ~ In new r) by (intros H; apply Hn; right; exact H).
  assert (Hxn : x <> new) by (intros ->; apply Hn; left; reflexivity).
  constructor; [|apply IH; exact Hr'].
  rewrite in_map_iff. intros [y [Hy Hyr]]. unfold ren in Hy.
  destruct (Z.eqb y old) eqn:H1; destruct (Z.eqb x old) eqn:H2.
  - apply Z.eqb_eq in H1. apply Z.eqb_eq in H2. apply Hx. rewrite H2, <- H1. exact Hyr.
  - apply Hxn. symmetry. exact Hy.
  - apply Hr'. rewrite <- Hy. exact Hyr.
  - apply Hx. rewrite <- Hy. exact Hyr.
Qed.

(* ---------- find_node vs position *)
Lemma find_node_position : forall ns p,
  find_node ns p = match position p (map nid ns) with Some i => nth_error ns i | None => None end.
Proof.
  induction ns as [|n r IH]; intros p; unfold find_node; cbn [find map position]; [reflexivity|].
  destruct (Z.eqb (nid n) p); [reflexivity|]. fold (find_node r p). rewrite IH.
  destruct (position p (map nid r)); reflexivity.
Qed.
Lemma find_node_Some : forall ns p n, find_node ns p = Some n -> In n ns /\ nid n = p.
Proof.
  intros ns p n H. unfold find_node in H. apply find_some in H. destruct H as [H1 H2].
  apply Z.eqb_eq in H2. auto.
Qed.
Lemma find_node_None : forall ns p, find_node ns p = None <-> ~ In p (map nid ns).
Proof.
  intros ns p. rewrite find_node_position, <- position_None.
  destruct (position p (map nid ns)) as [i|] eqn:Hp; [|tauto].
  split; [|discriminate]. intros H. apply position_nth in Hp. rewrite nth_error_map in Hp.
  rewrite H in Hp. discriminate.
Qed.
Lemma find_node_unique : forall ns n, NoDup (map nid ns) -> In n ns -> find_node ns (nid n) = Some n.
Proof.
  induction ns as [|m r IH]; intros n Hnd Hin; [destruct Hin|].
  cbn [map] in Hnd. inversion Hnd as [|? ? Hm Hr]; subst.
  unfold find_node. cbn [find]. destruct (Z.eqb (nid m) (nid n)) eqn:He.
  - destruct Hin as [->|Hin]; [reflexivity|]. apply Z.eqb_eq in He. exfalso. apply Hm.
    rewrite He. apply in_map. exact Hin.
  - destruct Hin as [->|Hin]; [rewrite Z.eqb_refl in He; discriminate|]. apply IH; assumption.
Qed.

Lemma NoDup_snoc : forall {A} (l : list A) x, NoDup l -> ~ In x l -> NoDup (l ++ [x]).
Proof.
  intros A l x Hnd Hn. eapply Permutation_NoDup; [apply Permutation_cons_append|].
  constructor; assumption.
Qed.

(* ====================================================================== *)
(* Inv.v *)
(* ================= index_inv ================= *)
Lemma index_inv_empty : index_inv empty.
Proof. split; [constructor|reflexivity]. Qed.

Lemma inv_idx_None : forall g p, index_inv g -> idx_get (index g) p = None -> ~ In p (map nid (nodes g)).
Proof. intros g p [_ Hi] H. rewrite Hi in H. apply position_None. exact H. Qed.

Lemma index_inv_add : forall g p, index_inv g -> index_inv (add_node_if_none g p).
Proof.
  intros g p Hinv. unfold add_node_if_none. destruct (idx_get (index g) p) eqn:Hg; [exact Hinv|].
  pose proof (inv_idx_None g p Hinv Hg) as Hnin. destruct Hinv as [Hnd Hi].
  split; cbn [nodes index].
  - rewrite map_app. cbn [map nid]. apply NoDup_snoc; assumption.
  - intros q. rewrite idx_get_insert, map_app, position_app. cbn [map nid position]. rewrite Hi.
    destruct (Z.eqb p q) eqn:Hpq.
    + apply Z.eqb_eq in Hpq. subst q. apply position_None in Hnin. rewrite Hnin. cbn [option_map].
      rewrite map_length. f_equal. lia.
    + destruct (position q (map nid (nodes g))); reflexivity.
Qed.

Lemma index_inv_remove : forall g p g', index_inv g -> remove g p = Ok g' -> index_inv g'.
Proof.
  intros g p g' Hinv H. unfold remove in H. destruct (idx_get (index g) p) as [i|] eqn:Hg.
  - destruct (Nat.ltb i (length (nodes g))) eqn:Hlt; [|discriminate]. inversion H; subst g'; clear H.
    destruct Hinv as [Hnd Hi]. rewrite Hi in Hg.
    split; cbn [nodes index]; rewrite map_nid_strip, map_remove_nth.
    + apply NoDup_remove_nth. exact Hnd.
    + intros q. rewrite (idx_get_map (fun v => if Nat.ltb i v then pred v else v)), idx_get_remove.
      rewrite (position_remove_nth _ p i q Hnd Hg), Hi.
      destruct (Z.eqb p q); reflexivity.
  - inversion H; subst g'; clear H. destruct Hinv as [Hnd Hi].
    split; cbn [nodes index]; rewrite map_nid_strip; assumption.
Qed.

Lemma remove_no_panic : forall g p, index_inv g -> remove g p <> Panic.
Proof.
  intros g p [Hnd Hi]. unfold remove. destruct (idx_get (index g) p) as [i|] eqn:Hg; [|discriminate].
  rewrite Hi in Hg. apply position_nth in Hg.
  assert (Hlt : (i < length (map nid (nodes g)))%nat) by (apply nth_error_Some; congruence).
  rewrite map_length in Hlt. apply Nat.ltb_lt in Hlt. rewrite Hlt. discriminate.
Qed.

Lemma index_inv_rename : forall g a b, index_inv g -> op_ok g (ORename a b) = true ->
  index_inv (rename_path g a b).
Proof.
  intros g a b [Hnd Hi] Hok. cbn [op_ok] in Hok. apply andb_true_iff in Hok. destruct Hok as [H1 H2].
  apply negb_true_iff in H1. apply memz_false in H1. apply negb_true_iff in H2. apply Z.eqb_neq in H2.
  assert (Hba : b <> a) by congruence.
  split; unfold rename_path; cbn [nodes index]; rewrite map_nid_rename.
  - apply NoDup_map_ren; assumption.
  - intros q. rewrite (position_map_ren a b _ q H1 Hba).
    destruct (idx_get (index g) a) as [i|] eqn:Hg.
    + rewrite idx_get_insert, idx_get_remove, Hi. rewrite Hi in Hg. rewrite Hg.
      destruct (Z.eqb b q); [reflexivity|]. destruct (Z.eqb a q); reflexivity.
    + rewrite Hi in Hg. rewrite Hg. rewrite Hi. destruct (Z.eqb b q) eqn:Hbq.
      * apply Z.eqb_eq in Hbq. subst q. apply position_None. exact H1.
      * destruct (Z.eqb a q) eqn:Haq; [|reflexivity]. apply Z.eqb_eq in Haq. subst q. exact Hg.
Qed.

(* ================= get_node ================= *)
Lemma get_node_spec : forall g p, index_inv g -> get_node g p = Ok (find_node (nodes g) p).
Proof.
  intros g p [Hnd Hi]. unfold get_node. rewrite Hi, find_node_position.
  destruct (position p (map nid (nodes g))) as [i|] eqn:Hp; [|reflexivity].
  apply position_nth in Hp. rewrite nth_error_map in Hp.
  destruct (nth_error (nodes g) i); [reflexivity|discriminate].
Qed.

(* ================= edges ================= *)
Lemma edges_of_In : forall ns a d, In (a, d) (edges_of ns) <-> exists n, In n ns /\ nid n = a /\ In d (ndeps n).
Proof.
  intros ns a d. unfold edges_of. rewrite in_flat_map. split.
  - intros [n [Hn Hin]]. apply in_map_iff in Hin. destruct Hin as [d' [He Hd]]. inversion He; subst.
    exists n. auto.
  - intros [n [Hn [Ha Hd]]]. exists n. split; [exact Hn|]. apply in_map_iff. exists d. subst. auto.
Qed.
Lemma edges_found : forall ns a n d, NoDup (map nid ns) -> find_node ns a = Some n ->
  (In (a, d) (edges_of ns) <-> In d (ndeps n)).
Proof.
  intros ns a n d Hnd Hf. rewrite edges_of_In. split.
  - intros [m [Hm [Ha Hd]]]. subst a. rewrite (find_node_unique ns m Hnd Hm) in Hf. inversion Hf; subst. exact Hd.
  - intros Hd. apply find_node_Some in Hf. destruct Hf as [Hin Hid]. exists n. auto.
Qed.
Lemma edges_notfound : forall ns a d, find_node ns a = None -> ~ In (a, d) (edges_of ns).
Proof.
  intros ns a d Hf H. apply edges_of_In in H. destruct H as [n [Hn [Ha _]]].
  apply find_node_None in Hf. apply Hf. subst a. apply in_map. exact Hn.
Qed.

(* ================= deep_depends_on ================= *)
Definition deep_any (f : nat) (g : graph) (target : Z) :=
  fix any (ds : list Z) (vis : list Z) {struct ds} : res (bool * list Z) :=
    match ds with
    | [] => Ok (false, vis)
    | d :: ds' =>
      do r <- deep_ f g target d vis;
      if fst r then Ok r else any ds' (snd r)
    end.

Lemma deep_unfold : forall f g t p vis,
  deep_ (S f) g t p vis =
    if memz p vis then Ok (false, vis)
    else do on <- get_node g p;
         match on with
         | None => Ok (false, p :: vis)
         | Some n => if memz t (ndeps n) then Ok (true, p :: vis)
                     else deep_any f g t (ndeps n) (p :: vis)
         end.
Proof. reflexivity. Qed.

Definition cnt (g : graph) (vis : list Z) : nat :=
  length (filter (fun x => negb (memz x vis)) (map nid (nodes g))).

Lemma cnt_le : forall g vis, (cnt g vis <= length (nodes g))%nat.
Proof. intros. unfold cnt. rewrite <- (map_length nid (nodes g)). apply filter_len_le. Qed.
Lemma cnt_mono : forall g v1 v2, incl v1 v2 -> (cnt g v2 <= cnt g v1)%nat.
Proof.
  intros g v1 v2 Hi. unfold cnt. apply filter_len_mono. intros x _ Hx.
  apply negb_true_iff in Hx. apply negb_true_iff. apply memz_false in Hx. apply memz_false.
  intros H. apply Hx. apply Hi. exact H.
Qed.
Lemma cnt_cons : forall g p vis, In p (map nid (nodes g)) -> ~ In p vis -> (cnt g (p :: vis) < cnt g vis)%nat.
Proof.
  intros g p vis Hin Hn. unfold cnt. apply filter_len_strict.
  - intros x _ Hx. apply negb_true_iff in Hx. apply negb_true_iff. apply memz_false in Hx. apply memz_false.
    intros H. apply Hx. right. exact H.
  - exists p. split; [exact Hin|]. split.
    + apply negb_true_iff. apply memz_false. exact Hn.
    + apply negb_false_iff. apply memz_In. left. reflexivity.
Qed.

Lemma deep_any_nil : forall f g t vis, deep_any f g t [] vis = Ok (false, vis).
Proof. reflexivity. Qed.
Lemma deep_any_cons : forall f g t d ds vis,
  deep_any f g t (d :: ds) vis = do r <- deep_ f g t d vis; if fst r then Ok r else deep_any f g t ds (snd r).
Proof. reflexivity. Qed.

Section Deep.
Variable g : graph.
Variable t : Z.
Hypothesis Hinv : index_inv g.
Let EE := edges_of (nodes g).

(* every node added to the visited set during a call that answered [false] has no edge to the target
   and all its successors are visited *)
Definition closed_part (vis vis' : list Z) : Prop :=
  forall x, In x vis' -> ~ In x vis -> ~ In (x, t) EE /\ forall d, In (x, d) EE -> In d vis'.

Definition deep_post (p : Z) (vis : list Z) (b : bool) (vis' : list Z) : Prop :=
  incl vis vis' /\ (b = true -> reach EE p t) /\ (b = false -> In p vis' /\ closed_part vis vis').

Definition any_post (ds : list Z) (vis : list Z) (b : bool) (vis' : list Z) : Prop :=
  incl vis vis' /\ (b = true -> exists d, In d ds /\ reach EE d t) /\
  (b = false -> (forall d, In d ds -> In d vis') /\ closed_part vis vis').

Lemma closed_part_refl : forall vis, closed_part vis vis.
Proof. intros vis x H1 H2. contradiction. Qed.

Lemma closed_part_trans : forall v0 v1 v2, incl v1 v2 -> closed_part v0 v1 -> closed_part v1 v2 -> closed_part v0 v2.
Proof.
  intros v0 v1 v2 Hi H1 H2 x Hx Hn. destruct (in_dec Z.eq_dec x v1) as [Hin|Hnin].
  - destruct (H1 x Hin Hn) as [Ha Hb]. split; [exact Ha|]. intros d Hd. apply Hi. apply Hb. exact Hd.
  - apply H2; assumption.
Qed.

Lemma any_spec : forall f,
  (forall p vis, (cnt g vis < f)%nat -> exists b vis', deep_ f g t p vis = Ok (b, vis') /\ deep_post p vis b vis') ->
  forall ds vis, (cnt g vis < f)%nat ->
    exists b vis', deep_any f g t ds vis = Ok (b, vis') /\ any_post ds vis b vis'.
Proof.
  intros f IHf. induction ds as [|d ds IHds]; intros vis Hc.
  - exists false, vis. split; [reflexivity|]. split; [apply incl_refl|]. split; [discriminate|].
    intros _. split; [intros d []|apply closed_part_refl].
  - destruct (IHf d vis Hc) as [b1 [v1 [H1 [Hi1 [Ht1 Hf1]]]]].
    rewrite deep_any_cons, H1. cbn [bind fst snd]. destruct b1.
    + exists true, v1. split; [reflexivity|]. split; [exact Hi1|]. split; [|discriminate].
      intros _. exists d. split; [left; reflexivity|apply Ht1; reflexivity].
    + assert (Hc1 : (cnt g v1 < f)%nat) by (pose proof (cnt_mono g vis v1 Hi1); lia).
      destruct (IHds v1 Hc1) as [b2 [v2 [H2 [Hi2 [Ht2 Hf2]]]]].
      destruct (Hf1 eq_refl) as [Hd1 Hcl1].
      exists b2, v2. split; [exact H2|]. split; [eapply incl_tran; eassumption|]. split.
      * intros Hb. destruct (Ht2 Hb) as [d' [Hd' Hr]]. exists d'. split; [right; exact Hd'|exact Hr].
      * intros Hb. destruct (Hf2 Hb) as [Hds Hcl2]. split.
        -- intros d0 [<-|Hd0]; [apply Hi2; exact Hd1|apply Hds; exact Hd0].
        -- exact (closed_part_trans vis v1 v2 Hi2 Hcl1 Hcl2).
Qed.

Lemma deep_spec : forall f p vis, (cnt g vis < f)%nat ->
  exists b vis', deep_ f g t p vis = Ok (b, vis') /\ deep_post p vis b vis'.
Proof.
  induction f as [|f IHf]; intros p vis Hc; [lia|].
  rewrite deep_unfold. destruct (memz p vis) eqn:Hpv.
  - exists false, vis. split; [reflexivity|]. split; [apply incl_refl|]. split; [discriminate|].
    intros _. split; [apply memz_In; exact Hpv|apply closed_part_refl].
  - apply memz_false in Hpv. rewrite (get_node_spec g p Hinv). cbn [bind].
    destruct (find_node (nodes g) p) as [n|] eqn:Hf.
    + destruct (memz t (ndeps n)) eqn:Ht.
      * exists true, (p :: vis). split; [reflexivity|]. split; [apply incl_tl, incl_refl|]. split; [|discriminate].
        intros _. apply reach_edge. apply (edges_found _ _ _ _ (proj1 Hinv) Hf). apply memz_In. exact Ht.
      * apply memz_false in Ht.
        assert (Hpin : In p (map nid (nodes g))).
        { apply find_node_Some in Hf. destruct Hf as [Hn Hid]. rewrite <- Hid. apply in_map. exact Hn. }
        assert (Hc' : (cnt g (p :: vis) < f)%nat) by (pose proof (cnt_cons g p vis Hpin Hpv); lia).
        destruct (any_spec f IHf (ndeps n) (p :: vis) Hc') as [b [v' [H [Hi [Htr Hfa]]]]].
        exists b, v'. split; [exact H|]. split; [intros x Hx; apply Hi; right; exact Hx|]. split.
        -- intros Hb. destruct (Htr Hb) as [d [Hd Hr]]. eapply reach_step; [|exact Hr].
           apply (edges_found _ _ _ _ (proj1 Hinv) Hf). exact Hd.
        -- intros Hb. destruct (Hfa Hb) as [Hds Hcl]. split; [apply Hi; left; reflexivity|].
           intros x Hx Hnx. destruct (Z.eq_dec x p) as [->|Hxp].
           ++ split.
              ** intros He. apply Ht. apply (edges_found _ _ _ _ (proj1 Hinv) Hf). exact He.
              ** intros d He. apply Hds. apply (edges_found _ _ _ _ (proj1 Hinv) Hf). exact He.
           ++ apply Hcl; [exact Hx|]. intros [Hh|Hh]; [apply Hxp; symmetry; exact Hh|apply Hnx; exact Hh].
    + exists false, (p :: vis). split; [reflexivity|]. split; [apply incl_tl, incl_refl|]. split; [discriminate|].
      intros _. split; [left; reflexivity|]. intros x [Hx|Hx] Hnx; [subst x|contradiction].
      split; [apply edges_notfound; exact Hf|]. intros d He. exfalso. eapply edges_notfound; eassumption.
Qed.

Lemma closed_no_reach : forall S, closed_part [] S -> forall x, reach EE x t -> In x S -> False.
Proof.
  intros S Hcl x Hr. assert (Hg : forall y, reach EE x y -> y = t -> In x S -> False).
  { clear Hr. intros y Hr. induction Hr as [a b He|a c b He Hr IH]; intros Hy Hin; subst b.
    - destruct (Hcl a Hin (fun H => H)) as [Hn _]. apply Hn. exact He.
    - destruct (Hcl a Hin (fun H => H)) as [_ Hs]. apply IH; [reflexivity|]. apply Hs. exact He. }
  intros Hin. exact (Hg t Hr eq_refl Hin).
Qed.

Lemma deep_depends_on_total : forall a, exists b, deep_depends_on g a t = Ok b /\ (b = true <-> reach EE a t).
Proof.
  intros a. unfold deep_depends_on.
  assert (Hc : (cnt g [] < fuel_of g)%nat) by (unfold fuel_of; pose proof (cnt_le g []); lia).
  destruct (deep_spec (fuel_of g) a [] Hc) as [b [v' [H [Hi [Htr Hfa]]]]].
  rewrite H. cbn [bind fst]. exists b. split; [reflexivity|]. split; [exact Htr|].
  intros Hr. destruct b; [reflexivity|]. exfalso. destruct (Hfa eq_refl) as [Hin Hcl].
  eapply closed_no_reach; eassumption.
Qed.
End Deep.

Theorem deep_depends_on_reach_l : forall g a b, index_inv g ->
  (deep_depends_on g a b = Ok true <-> reach (E (abs g)) a b).
Proof.
  intros g a b Hinv. destruct (deep_depends_on_total g b Hinv a) as [r [H Hr]]. rewrite H.
  change (E (abs g)) with (edges_of (nodes g)). rewrite <- Hr. split; [intros Hx; inversion Hx; reflexivity|intros ->; reflexivity].
Qed.

Lemma deep_depends_on_false : forall g a b, index_inv g ->
  (deep_depends_on g a b = Ok false <-> ~ reach (E (abs g)) a b).
Proof.
  intros g a b Hinv. destruct (deep_depends_on_total g b Hinv a) as [r [H Hr]]. rewrite H.
  change (E (abs g)) with (edges_of (nodes g)). rewrite <- Hr. destruct r; split; intros Hx; congruence.
Qed.

Lemma reach_dec : forall E a b, {reach E a b} + {~ reach E a b}.
Proof.
  intros E a b. destruct (reachb E a b) eqn:H.
  - left. apply reachb_spec. exact H.
  - right. intros Hr. apply reachb_spec in Hr. congruence.
Qed.

(* ================= inc_ref ================= *)
Lemma edges_find : forall ns a x, NoDup (map nid ns) ->
  (In (a, x) (edges_of ns) <-> exists n, find_node ns a = Some n /\ In x (ndeps n)).
Proof.
  intros ns a x Hnd. destruct (find_node ns a) as [n|] eqn:Hf.
  - rewrite (edges_found ns a n x Hnd Hf). split; [intros H; exists n; auto|].
    intros [m [Hm Hx]]. inversion Hm; subst. exact Hx.
  - split; [intros H; exfalso; eapply edges_notfound; eassumption|]. intros [m [Hm _]]. discriminate.
Qed.

Lemma find_update_nth : forall ns i n f a, (forall m, nid (f m) = nid m) -> NoDup (map nid ns) ->
  nth_error ns i = Some n ->
  find_node (update_nth ns i f) a = if Z.eqb (nid n) a then Some (f n) else find_node ns a.
Proof.
  induction ns as [|m r IH]; intros i n f a Hf Hnd Hn; destruct i; cbn [nth_error] in Hn; try discriminate.
  - inversion Hn; subst m. cbn [update_nth]. unfold find_node. cbn [find]. rewrite Hf.
    destruct (Z.eqb (nid n) a); reflexivity.
  - cbn [map] in Hnd. inversion Hnd as [|? ? Hm Hr]; subst. cbn [update_nth]. unfold find_node. cbn [find].
    fold (find_node (update_nth r i f) a). fold (find_node r a). rewrite (IH i n f a Hf Hr Hn).
    destruct (Z.eqb (nid m) a) eqn:Hma; [|reflexivity].
    destruct (Z.eqb (nid n) a) eqn:Hna; [|reflexivity].
    apply Z.eqb_eq in Hma. apply Z.eqb_eq in Hna. exfalso. apply Hm. rewrite Hma, <- Hna.
    apply in_map. eapply nth_error_In. exact Hn.
Qed.

Lemma add_node_ids : forall g p, index_inv g ->
  set_eq (map nid (nodes (add_node_if_none g p))) (p :: map nid (nodes g)).
Proof.
  intros g p [Hnd Hi] x. unfold add_node_if_none. destruct (idx_get (index g) p) eqn:Hg; cbn [nodes].
  - rewrite Hi in Hg. apply position_Some_In in Hg. cbn [In]. split; [auto|]. intros [<-|H]; assumption.
  - rewrite map_app, in_app_iff. cbn [map nid In]. tauto.
Qed.
Lemma add_node_edges : forall g p, edges_of (nodes (add_node_if_none g p)) = edges_of (nodes g).
Proof.
  intros g p. unfold add_node_if_none. destruct (idx_get (index g) p); [reflexivity|]. cbn [nodes].
  unfold edges_of. rewrite flat_map_app. cbn [flat_map ndeps map app]. apply app_nil_r.
Qed.

Definition push_dep (d : Z) (n : node) : node := {| nid := nid n; ndeps := set_insert d (ndeps n) |}.

Lemma inc_ref_spec : forall g r d, index_inv g ->
  let g1 := add_node_if_none g r in
  (r = d -> inc_ref g r d = Ok (IncOk, g1)) /\
  (r <> d -> reach (edges_of (nodes g)) d r -> inc_ref g r d = Ok (IncCycle, g1)) /\
  (r <> d -> ~ reach (edges_of (nodes g)) d r ->
     exists g2, inc_ref g r d = Ok (IncOk, g2) /\ index_inv g2 /\
                map nid (nodes g2) = map nid (nodes g1) /\
                forall e, In e (edges_of (nodes g2)) <-> e = (r, d) \/ In e (edges_of (nodes g))).
Proof.
  intros g r d Hinv g1. pose proof (index_inv_add g r Hinv) as Hinv1. fold g1 in Hinv1.
  unfold inc_ref. fold g1. split; [|split].
  - intros ->. rewrite Z.eqb_refl. reflexivity.
  - intros Hne Hr. apply Z.eqb_neq in Hne. rewrite Hne.
    rewrite <- (add_node_edges g r) in Hr. fold g1 in Hr.
    apply (deep_depends_on_reach_l g1 d r Hinv1) in Hr. rewrite Hr. reflexivity.
  - intros Hne Hr. apply Z.eqb_neq in Hne. rewrite Hne.
    rewrite <- (add_node_edges g r) in Hr. fold g1 in Hr.
    apply (deep_depends_on_false g1 d r Hinv1) in Hr. rewrite Hr. cbn [bind].
    destruct Hinv1 as [Hnd1 Hi1].
    assert (Hin : In r (map nid (nodes g1))) by (apply (add_node_ids g r Hinv); left; reflexivity).
    destruct (position r (map nid (nodes g1))) as [i|] eqn:Hp; [|apply position_None in Hp; contradiction].
    rewrite Hi1, Hp. pose proof (position_nth _ _ _ Hp) as Hnth. rewrite nth_error_map in Hnth.
    destruct (nth_error (nodes g1) i) as [n|] eqn:Hn; [|discriminate]. cbn [option_map] in Hnth.
    inversion Hnth as [Hid]. clear Hnth.
    eexists. split; [reflexivity|]. cbn [nodes index].
    set (f := fun n0 : node => {| nid := nid n0; ndeps := set_insert d (ndeps n0) |}).
    assert (Hids : map nid (update_nth (nodes g1) i f) = map nid (nodes g1)) by (apply map_update_nth; reflexivity).
    split; [|split].
    + split; cbn [nodes index]; rewrite Hids; assumption.
    + exact Hids.
    + intros [a x]. rewrite <- (add_node_edges g r). fold g1.
      rewrite edges_find by (rewrite Hids; exact Hnd1). rewrite (edges_find (nodes g1)) by exact Hnd1.
      rewrite (find_update_nth (nodes g1) i n f a (fun _ => eq_refl) Hnd1 Hn). rewrite Hid.
      destruct (Z.eqb r a) eqn:Hra.
      * apply Z.eqb_eq in Hra. subst a.
        assert (Hfn : find_node (nodes g1) r = Some n).
        { rewrite <- Hid. apply find_node_unique; [exact Hnd1|]. eapply nth_error_In. exact Hn. }
        rewrite Hfn. split.
        -- intros [m [Hm Hx]]. inversion Hm; subst m. cbn [ndeps] in Hx. apply set_insert_In in Hx.
           destruct Hx as [->|Hx]; [left; reflexivity|right; exists n; auto].
        -- intros [He|[m [Hm Hx]]]; eexists; (split; [reflexivity|]); cbn [ndeps]; apply set_insert_In.
           ++ inversion He. left. reflexivity.
           ++ inversion Hm; subst m. right. exact Hx.
      * apply Z.eqb_neq in Hra. split; [intros H; right; exact H|]. intros [He|H]; [|exact H].
        inversion He. congruence.
Qed.

Lemma index_inv_inc : forall g r d x, index_inv g -> inc_ref g r d = Ok x -> index_inv (snd x).
Proof.
  intros g r d x Hinv H. destruct (inc_ref_spec g r d Hinv) as [H1 [H2 H3]].
  destruct (Z.eq_dec r d) as [Heq|Hne].
  - rewrite (H1 Heq) in H. inversion H; subst x. apply index_inv_add. exact Hinv.
  - destruct (reach_dec (edges_of (nodes g)) d r) as [Hr|Hr].
    + rewrite (H2 Hne Hr) in H. inversion H; subst x. apply index_inv_add. exact Hinv.
    + destruct (H3 Hne Hr) as [g2 [Hg2 [Hi2 _]]]. rewrite Hg2 in H. inversion H; subst x. exact Hi2.
Qed.

(* ====================================================================== *)
(* Step.v *)
(* ================= sort ================= *)
Lemma rebuild_index_gen : forall ns k ix q, NoDup (map nid ns) ->
  idx_get (fold_left (fun ix kn => idx_insert ix (nid (snd kn)) (fst kn)) (enumerate_from k ns) ix) q =
    match position q (map nid ns) with Some j => Some (k + j)%nat | None => idx_get ix q end.
Proof.
  induction ns as [|n r IH]; intros k ix q Hnd; cbn [enumerate_from fold_left map position fst snd]; [reflexivity|].
  cbn [map] in Hnd. inversion Hnd as [|? ? Hn Hr]; subst. rewrite (IH (S k) _ q Hr), idx_get_insert.
  destruct (Z.eqb (nid n) q) eqn:Hq.
  - apply Z.eqb_eq in Hq. subst q. apply position_None in Hn. rewrite Hn. f_equal. lia.
  - destruct (position q (map nid r)); cbn [option_map]; [f_equal; lia|reflexivity].
Qed.
Lemma rebuild_index_spec : forall ns q, NoDup (map nid ns) ->
  idx_get (rebuild_index ns) q = position q (map nid ns).
Proof.
  intros ns q Hnd. unfold rebuild_index. rewrite (rebuild_index_gen ns 0 [] q Hnd).
  destruct (position q (map nid ns)); reflexivity.
Qed.

Lemma sort_total : forall g, exists x, sort g = Ok x.
Proof.
  intros g. unfold sort, sort_gen. destruct (tsort (nodes g)) as [r| |] eqn:Ht.
  - cbn [bind]. destruct r; eexists; reflexivity.
  - exfalso. eapply ProofsTsort.tsort_no_panic. exact Ht.
  - exfalso. eapply ProofsTsort.tsort_no_fuel. exact Ht.
Qed.

Lemma sort_spec : forall g x, index_inv g -> sort g = Ok x ->
  (exists e, tsort (nodes g) = Ok (inl e) /\ x = (Some e, g)) \/
  (exists ns, tsort (nodes g) = Ok (inr ns) /\ x = (None, {| nodes := ns; index := rebuild_index ns |}) /\
              Permutation ns (nodes g) /\ before_all (map nid ns) (edges_of (nodes g)) [] = true).
Proof.
  intros g x [Hnd Hi] H. unfold sort, sort_gen in H. destruct (tsort (nodes g)) as [r| |] eqn:Ht; try discriminate.
  cbn [bind] in H. destruct r as [e|ns]; inversion H; subst x.
  - left. exists e. auto.
  - right. exists ns. destruct (ProofsTsort.tsort_sound (nodes g) ns Hnd Ht) as [Hp Hb]. auto.
Qed.

Lemma index_inv_sort : forall g x, index_inv g -> sort g = Ok x -> index_inv (snd x).
Proof.
  intros g x Hinv H. destruct (sort_spec g x Hinv H) as [[e [_ ->]]|[ns [_ [-> [Hp _]]]]]; cbn [snd]; [exact Hinv|].
  assert (Hnd : NoDup (map nid ns)).
  { eapply Permutation_NoDup; [apply Permutation_map, Permutation_sym; exact Hp|exact (proj1 Hinv)]. }
  split; cbn [nodes index]; [exact Hnd|]. intros q. apply rebuild_index_spec. exact Hnd.
Qed.

(* ================= step ================= *)
Lemma inc_ref_total : forall g r d, index_inv g -> exists x, inc_ref g r d = Ok x.
Proof.
  intros g r d Hinv. destruct (inc_ref_spec g r d Hinv) as [H1 [H2 H3]].
  destruct (Z.eq_dec r d) as [Heq|Hne]; [eexists; apply H1; exact Heq|].
  destruct (reach_dec (edges_of (nodes g)) d r) as [Hr|Hr].
  - eexists. apply H2; assumption.
  - destruct (H3 Hne Hr) as [g2 [Hg2 _]]. eexists. exact Hg2.
Qed.
Lemma remove_total : forall g p, index_inv g -> exists g', remove g p = Ok g'.
Proof.
  intros g p Hinv. pose proof (remove_no_panic g p Hinv) as Hp. unfold remove in *.
  destruct (idx_get (index g) p); [|eexists; reflexivity].
  destruct (Nat.ltb n (length (nodes g))); [eexists; reflexivity|congruence].
Qed.

Lemma step_total : forall g o, index_inv g -> exists x, step g o = Ok x.
Proof.
  intros g o Hinv. destruct o as [p|r d|p|a b|]; cbn [step].
  - eexists; reflexivity.
  - destruct (inc_ref_total g r d Hinv) as [x ->]. eexists; reflexivity.
  - destruct (remove_total g p Hinv) as [x ->]. eexists; reflexivity.
  - eexists; reflexivity.
  - destruct (sort_total g) as [x ->]. eexists; reflexivity.
Qed.

Lemma step_no_panic_l : forall g o, index_inv g -> step g o <> Panic.
Proof. intros g o Hinv. destruct (step_total g o Hinv) as [x ->]. discriminate. Qed.
Lemma step_no_fuel_l : forall g o, index_inv g -> step g o <> Fuel.
Proof. intros g o Hinv. destruct (step_total g o Hinv) as [x ->]. discriminate. Qed.

Lemma index_inv_step : forall g o x, index_inv g -> op_ok g o = true -> step g o = Ok x -> index_inv (snd x).
Proof.
  intros g o x Hinv Hok H. destruct o as [p|r d|p|a b|]; cbn [step] in H.
  - inversion H; subst x. apply index_inv_add. exact Hinv.
  - destruct (inc_ref g r d) as [y| |] eqn:Hy; try discriminate. cbn [bind] in H. inversion H; subst x.
    cbn [snd]. eapply index_inv_inc; eassumption.
  - destruct (remove g p) as [y| |] eqn:Hy; try discriminate. cbn [bind] in H. inversion H; subst x.
    cbn [snd]. eapply index_inv_remove; eassumption.
  - inversion H; subst x. apply index_inv_rename; assumption.
  - destruct (sort g) as [y| |] eqn:Hy; try discriminate. cbn [bind] in H. inversion H; subst x.
    cbn [snd]. eapply index_inv_sort; eassumption.
Qed.

(* ================= histories ================= *)
Lemma run_ops_inv : forall os g, index_inv g -> hist_ok g os = true ->
  exists g', run_ops g os = Ok g' /\ index_inv g'.
Proof.
  induction os as [|o os IH]; intros g Hinv Hok; cbn [run_ops].
  - exists g. auto.
  - cbn [hist_ok] in Hok. apply andb_true_iff in Hok. destruct Hok as [Ho Hr].
    destruct (step_total g o Hinv) as [x Hx]. rewrite Hx in *. cbn [bind].
    apply IH; [eapply index_inv_step; eassumption|exact Hr].
Qed.

Lemma run_ops_empty_inv : forall os, hist_ok empty os = true ->
  exists g, run_ops empty os = Ok g /\ index_inv g.
Proof. intros os H. apply run_ops_inv; [apply index_inv_empty|exact H]. Qed.

(* ================= ancestors: fuel ================= *)
Definition anc_each (f : nat) (g : graph) :=
  fix each (ps : list Z) (anc vis : list Z) {struct ps} : res (list Z * list Z) :=
    match ps with
    | [] => Ok (anc, vis)
    | q :: ps' =>
      if memz q anc then each ps' anc vis
      else do r <- ancestors_ f g q (anc ++ [q]) vis; each ps' (fst r) (snd r)
    end.
Lemma anc_unfold : forall f g p anc vis,
  ancestors_ (S f) g p anc vis =
    if memz p vis then Ok (anc, vis)
    else do on <- get_node g p;
         match on with
         | None => Ok (anc, p :: vis)
         | Some n => anc_each f g (ndeps n) anc (p :: vis)
         end.
Proof. reflexivity. Qed.
Lemma anc_each_cons : forall f g q ps anc vis,
  anc_each f g (q :: ps) anc vis =
    if memz q anc then anc_each f g ps anc vis
    else do r <- ancestors_ f g q (anc ++ [q]) vis; anc_each f g ps (fst r) (snd r).
Proof. reflexivity. Qed.

Lemma ancestors_total_ : forall g, index_inv g -> forall f p anc vis, (cnt g vis < f)%nat ->
  exists anc' vis', ancestors_ f g p anc vis = Ok (anc', vis') /\ incl vis vis'.
Proof.
  intros g Hinv. induction f as [|f IHf]; intros p anc vis Hc; [lia|].
  rewrite anc_unfold. destruct (memz p vis) eqn:Hpv.
  - exists anc, vis. split; [reflexivity|apply incl_refl].
  - apply memz_false in Hpv. rewrite (get_node_spec g p Hinv). cbn [bind].
    destruct (find_node (nodes g) p) as [n|] eqn:Hf.
    + assert (Hpin : In p (map nid (nodes g))).
      { apply find_node_Some in Hf. destruct Hf as [Hn Hid]. rewrite <- Hid. apply in_map. exact Hn. }
      assert (Hc' : (cnt g (p :: vis) < f)%nat) by (pose proof (cnt_cons g p vis Hpin Hpv); lia).
      assert (Hloop : forall ps anc1 vis1, (cnt g vis1 < f)%nat ->
                exists anc' vis', anc_each f g ps anc1 vis1 = Ok (anc', vis') /\ incl vis1 vis').
      { induction ps as [|q ps IHps]; intros anc1 vis1 Hc1.
        - exists anc1, vis1. split; [reflexivity|apply incl_refl].
        - rewrite anc_each_cons. destruct (memz q anc1); [apply IHps; exact Hc1|].
          destruct (IHf q (anc1 ++ [q]) vis1 Hc1) as [a2 [v2 [H2 Hi2]]]. rewrite H2. cbn [bind fst snd].
          assert (Hc2 : (cnt g v2 < f)%nat) by (pose proof (cnt_mono g vis1 v2 Hi2); lia).
          destruct (IHps a2 v2 Hc2) as [a3 [v3 [H3 Hi3]]]. exists a3, v3. split; [exact H3|].
          eapply incl_tran; eassumption. }
      destruct (Hloop (ndeps n) anc (p :: vis) Hc') as [a' [v' [H Hi]]]. exists a', v'. split; [exact H|].
      intros x Hx. apply Hi. right. exact Hx.
    + exists anc, (p :: vis). split; [reflexivity|apply incl_tl, incl_refl].
Qed.

Lemma ancestors_total : forall g p, index_inv g -> exists l, ancestors g p = Ok l.
Proof.
  intros g p Hinv. unfold ancestors.
  assert (Hc : (cnt g [] < fuel_of g)%nat) by (unfold fuel_of; pose proof (cnt_le g []); lia).
  destruct (ancestors_total_ g Hinv (fuel_of g) p [] [] Hc) as [a [v [H _]]]. rewrite H. eexists; reflexivity.
Qed.

Lemma fuel_enough_l : forall g, index_inv g ->
  (forall a b, deep_depends_on g a b <> Fuel) /\ (forall p, ancestors g p <> Fuel) /\ tsort (nodes g) <> Fuel /\
  (forall o, step g o <> Fuel).
Proof.
  intros g Hinv. split; [|split; [|split]].
  - intros a b. destruct (deep_depends_on_total g b Hinv a) as [r [-> _]]. discriminate.
  - intros p. destruct (ancestors_total g p Hinv) as [l ->]. discriminate.
  - apply ProofsTsort.tsort_no_fuel.
  - intros o. apply step_no_fuel_l. exact Hinv.
Qed.

(* ====================================================================== *)
(* Abs.v *)
(* ================= abstraction commutes with the operations ================= *)
Lemma abs_add : forall g p, index_inv g -> rg_eq (abs (add_node_if_none g p)) (r_add (abs g) p).
Proof.
  intros g p Hinv. split.
  - intros x. cbn [abs V r_add]. rewrite (add_node_ids g p Hinv x), set_insert_In. cbn [In]. split; intros [H|H]; auto.
  - intros e. cbn [abs E r_add]. change (In e (edges_of (nodes (add_node_if_none g p))) <-> In e (edges_of (nodes g))).
    rewrite add_node_edges. tauto.
Qed.


Lemma abs_inc : forall g r d x, index_inv g -> inc_ref g r d = Ok x ->
  inc_code (fst x) = fst (r_inc (abs g) r d) /\ rg_eq (abs (snd x)) (snd (r_inc (abs g) r d)).
Proof.
  intros g r d x Hinv H. destruct (inc_ref_spec g r d Hinv) as [H1 [H2 H3]].
  pose proof (abs_add g r Hinv) as Hadd. unfold r_inc.
  destruct (Z.eq_dec r d) as [Heq|Hne].
  - rewrite (H1 Heq) in H. inversion H; subst x. subst d. rewrite Z.eqb_refl. cbn [fst snd inc_code]. auto.
  - assert (Hne' := Hne). apply Z.eqb_neq in Hne'. rewrite Hne'. cbn [r_add E].
    destruct (reach_dec (edges_of (nodes g)) d r) as [Hr|Hr].
    + rewrite (H2 Hne Hr) in H. inversion H; subst x.
      assert (Hb : reachb (E (abs g)) d r = true) by (apply reachb_spec; exact Hr).
      rewrite Hb. cbn [fst snd inc_code]. auto.
    + destruct (H3 Hne Hr) as [g2 [Hg2 [Hi2 [Hids He]]]]. rewrite Hg2 in H. inversion H; subst x.
      assert (Hb : reachb (E (abs g)) d r = false).
      { destruct (reachb (E (abs g)) d r) eqn:Hb; [|reflexivity]. apply reachb_spec in Hb. contradiction. }
      rewrite Hb. cbn [fst snd inc_code]. split; [reflexivity|]. split; cbn [V E abs].
      * intros y. rewrite Hids. apply (proj1 Hadd y).
      * intros e. change (In e (edges_of (nodes g2)) <-> In e (if meme (r, d) (edges_of (nodes g)) then edges_of (nodes g) else edges_of (nodes g) ++ [(r, d)])).
        rewrite He. destruct (meme (r, d) (edges_of (nodes g))) eqn:Hm.
        -- apply meme_In in Hm. split; [intros [->|Hx]; assumption|auto].
        -- rewrite in_app_iff. cbn [In]. split; [intros [Hx|Hx]; auto|intros [Hx|[Hx|[]]]; auto].
Qed.

Lemma find_remove_nth : forall ns p i a, NoDup (map nid ns) -> position p (map nid ns) = Some i ->
  find_node (remove_nth ns i) a = if Z.eqb p a then None else find_node ns a.
Proof.
  induction ns as [|n r IH]; intros p i a Hnd Hp; cbn [map position] in Hp; [discriminate|].
  cbn [map] in Hnd. inversion Hnd as [|? ? Hn Hr]; subst.
  destruct (Z.eqb (nid n) p) eqn:Hnp.
  - apply Z.eqb_eq in Hnp. inversion Hp; subst i. cbn [remove_nth]. unfold find_node at 2. cbn [find].
    fold (find_node r a). destruct (Z.eqb p a) eqn:Hpa.
    + apply Z.eqb_eq in Hpa. subst a. apply find_node_None. rewrite <- Hnp. exact Hn.
    + rewrite Hnp, Hpa. reflexivity.
  - destruct (position p (map nid r)) as [i'|] eqn:Hpr; cbn [option_map] in Hp; [|discriminate].
    inversion Hp; subst i. cbn [remove_nth]. unfold find_node. cbn [find].
    fold (find_node (remove_nth r i') a). fold (find_node r a). rewrite (IH p i' a Hr Hpr).
    destruct (Z.eqb (nid n) a) eqn:Hna; [|reflexivity].
    apply Z.eqb_eq in Hna. subst a. rewrite Z.eqb_sym, Hnp. reflexivity.
Qed.
Lemma find_map : forall (f : node -> node) ns a, (forall n, nid (f n) = nid n) ->
  find_node (map f ns) a = option_map f (find_node ns a).
Proof.
  intros f ns a Hf. induction ns as [|n r IH]; [reflexivity|]. unfold find_node. cbn [map find]. rewrite Hf.
  destruct (Z.eqb (nid n) a); [reflexivity|]. exact IH.
Qed.

Lemma remove_find : forall g p g' a, index_inv g -> remove g p = Ok g' ->
  find_node (nodes g') a = if Z.eqb p a then None else option_map (strip_dep p) (find_node (nodes g) a).
Proof.
  intros g p g' a [Hnd Hi] H. unfold remove in H. destruct (idx_get (index g) p) as [i|] eqn:Hg.
  - destruct (Nat.ltb i (length (nodes g))); [|discriminate]. inversion H; subst g'. cbn [nodes].
    rewrite find_map by reflexivity. rewrite Hi in Hg. rewrite (find_remove_nth _ p i a Hnd Hg).
    destruct (Z.eqb p a); reflexivity.
  - inversion H; subst g'. cbn [nodes]. rewrite find_map by reflexivity.
    destruct (Z.eqb p a) eqn:Hpa; [|reflexivity]. apply Z.eqb_eq in Hpa. subst a.
    rewrite Hi in Hg. apply position_None in Hg. apply find_node_None in Hg. rewrite Hg. reflexivity.
Qed.

Lemma abs_remove : forall g p g', index_inv g -> remove g p = Ok g' -> rg_eq (abs g') (r_remove (abs g) p).
Proof.
  intros g p g' Hinv H. pose proof (index_inv_remove g p g' Hinv H) as Hinv'.
  assert (Hfind := fun a => remove_find g p g' a Hinv H).
  split.
  - intros y. cbn [abs V r_remove]. rewrite set_remove_In.
    destruct (find_node (nodes g') y) eqn:Hf.
    + split; [intros _|intros _; apply find_node_Some in Hf; destruct Hf as [Hn <-]; apply in_map; exact Hn].
      rewrite Hfind in Hf. destruct (Z.eqb p y) eqn:Hpy; [discriminate|]. apply Z.eqb_neq in Hpy.
      destruct (find_node (nodes g) y) as [m|] eqn:Hm; [|discriminate]. split; [|congruence].
      apply find_node_Some in Hm. destruct Hm as [Hn <-]. apply in_map. exact Hn.
    + split; [intros Hy; apply find_node_None in Hf; contradiction|]. intros [Hy Hne]. exfalso.
      rewrite Hfind in Hf. apply Z.eqb_neq in Hne. rewrite Z.eqb_sym in Hne. rewrite Hne in Hf.
      destruct (find_node (nodes g) y) eqn:Hm; [discriminate|]. apply find_node_None in Hm. contradiction.
  - intros [a x]. cbn [abs E r_remove]. rewrite filter_In. cbn [fst snd].
    change (In (a, x) (edges_of (nodes g')) <-> In (a, x) (edges_of (nodes g)) /\ negb (Z.eqb a p) && negb (Z.eqb x p) = true).
    rewrite (edges_find _ a x (proj1 Hinv')), (edges_find _ a x (proj1 Hinv)), Hfind.
    rewrite andb_true_iff, !negb_true_iff, !Z.eqb_neq. rewrite (Z.eqb_sym p a).
    destruct (Z.eqb a p) eqn:Hap.
    + apply Z.eqb_eq in Hap. split; [intros [n [Hn _]]; discriminate|]. intros [_ [Hc _]]. congruence.
    + apply Z.eqb_neq in Hap. destruct (find_node (nodes g) a) as [m|]; cbn [option_map].
      * split.
        -- intros [n [Hn Hx]]. inversion Hn; subst n. cbn [strip_dep ndeps] in Hx. apply set_remove_In in Hx.
           destruct Hx as [Hx Hne]. split; [exists m; auto|auto].
        -- intros [[n [Hn Hx]] [_ Hne]]. inversion Hn; subst n. eexists. split; [reflexivity|].
           cbn [strip_dep ndeps]. apply set_remove_In. auto.
      * split; [intros [n [Hn _]]; discriminate|intros [[n [Hn _]] _]; discriminate].
Qed.

Lemma dedup_e_In : forall l e, In e (dedup_e l) <-> In e l.
Proof.
  intros l e. unfold dedup_e.
  assert (Hg : forall l acc, In e (fold_left (fun acc e0 => if meme e0 acc then acc else acc ++ [e0]) l acc) <-> In e acc \/ In e l).
  { clear l. induction l as [|x l IH]; intros acc; cbn [fold_left In]; [tauto|]. rewrite IH.
    destruct (meme x acc) eqn:Hm.
    - apply meme_In in Hm. split; [tauto|]. intros [H|[H|H]]; auto. subst. auto.
    - rewrite in_app_iff. cbn [In]. tauto. }
  rewrite Hg. cbn [In]. tauto.
Qed.

Lemma rename_deps_In : forall a b ds y, a <> b ->
  (In y (set_remove a (if memz a ds then set_insert b ds else ds)) <-> exists d, In d ds /\ ren a b d = y).
Proof.
  intros a b ds y Hab. rewrite set_remove_In. unfold ren. split.
  - intros [Hy Hne]. destruct (memz a ds) eqn:Hm.
    + apply memz_In in Hm. apply set_insert_In in Hy. destruct Hy as [->|Hy].
      * exists a. rewrite Z.eqb_refl. auto.
      * exists y. apply Z.eqb_neq in Hne. rewrite Hne. auto.
    + exists y. apply Z.eqb_neq in Hne. rewrite Hne. auto.
  - intros [d [Hd Hy]]. destruct (Z.eqb d a) eqn:Hda.
    + apply Z.eqb_eq in Hda. subst d y. assert (Hm : memz a ds = true) by (apply memz_In; exact Hd).
      rewrite Hm. split; [apply set_insert_In; left; reflexivity|congruence].
    + apply Z.eqb_neq in Hda. subst y. split; [|exact Hda].
      destruct (memz a ds); [apply set_insert_In; right; exact Hd|exact Hd].
Qed.

Lemma abs_rename : forall g a b, a <> b -> rg_eq (abs (rename_path g a b)) (r_rename (abs g) a b).
Proof.
  intros g a b Hab. split.
  - intros y. cbn [abs V r_rename rename_path nodes]. rewrite map_nid_rename. tauto.
  - intros [x y]. cbn [abs E r_rename rename_path nodes]. rewrite dedup_e_In.
    change (In (x, y) (edges_of (map (rename_node a b) (nodes g))) <->
            In (x, y) (map (fun e => (ren a b (fst e), ren a b (snd e))) (edges_of (nodes g)))).
    rewrite edges_of_In, in_map_iff. split.
    + intros [n [Hn [Hx Hy]]]. apply in_map_iff in Hn. destruct Hn as [m [Hm Hin]]. subst n.
      cbn [rename_node nid ndeps] in Hx, Hy. apply (rename_deps_In a b _ y Hab) in Hy. destruct Hy as [d [Hd Hy]].
      exists (nid m, d). cbn [fst snd]. split; [unfold ren at 1; rewrite Hx, Hy; reflexivity|].
      apply edges_of_In. exists m. auto.
    + intros [[u v] [He Hin]]. cbn [fst snd] in He. inversion He; subst x y. apply edges_of_In in Hin.
      destruct Hin as [m [Hm [Hu Hv]]]. exists (rename_node a b m). split; [apply in_map; exact Hm|].
      cbn [rename_node nid ndeps]. split; [subst u; reflexivity|]. apply (rename_deps_In a b _ _ Hab). exists v. auto.
Qed.

Lemma edges_of_perm : forall ns ns', Permutation ns ns' -> forall e, In e (edges_of ns) <-> In e (edges_of ns').
Proof.
  intros ns ns' Hp [a x]. rewrite !edges_of_In. split; intros [n [Hn H]]; exists n; (split; [|exact H]).
  - eapply Permutation_in; eassumption.
  - eapply Permutation_in; [apply Permutation_sym|]; eassumption.
Qed.


Lemma same_set_perm : forall a b, Permutation a b -> same_set a b = true.
Proof.
  intros a b Hp. unfold same_set. rewrite !andb_true_iff. split; [split|].
  - apply forallb_forall. intros x Hx. apply memz_In. eapply Permutation_in; eassumption.
  - apply forallb_forall. intros x Hx. apply memz_In. eapply Permutation_in; [apply Permutation_sym|]; eassumption.
  - apply Nat.eqb_eq. apply Permutation_length. exact Hp.
Qed.

Lemma abs_sort : forall g x, index_inv g -> sort g = Ok x ->
  rg_eq (abs (snd x)) (abs g) /\
  judge_sort (abs g) (sort_code (fst x)) (map nid (nodes (snd x))) = true /\
  (sort_expected (abs g) = sort_code (fst x) \/ (sort_expected (abs g) = -1 /\ fst x <> None)).
Proof.
  intros g x Hinv H. destruct (sort_spec g x Hinv H) as [[e [Ht ->]]|[ns [Ht [-> [Hp Hb]]]]]; cbn [fst snd].
  - split; [split; intros y; tauto|]. unfold judge_sort, sort_expected. destruct e; cbn [sort_code].
    + apply ProofsTsort.tsort_err_cyclic in Ht.
      assert (Hc : has_cycle (abs g) = true) by (apply has_cycle_spec; exact Ht).
      rewrite Hc. destruct (closed (abs g)); (split; [reflexivity|]); [left; reflexivity|right; split; [reflexivity|discriminate]].
    + apply ProofsTsort.tsort_err_keynotfound in Ht. destruct Ht as [n [d [Hn [Hd Hnin]]]].
      assert (Hc : closed (abs g) = false).
      { destruct (closed (abs g)) eqn:Hc; [|reflexivity]. exfalso. apply Hnin.
        apply (proj1 (closed_spec (abs g)) Hc (nid n) d). cbn [abs E]. apply edges_of_In. exists n. auto. }
      rewrite Hc. destruct (has_cycle (abs g)); (split; [reflexivity|]); [right; split; [reflexivity|discriminate]|left; reflexivity].
  - assert (Hids : Permutation (map nid ns) (map nid (nodes g))) by (apply Permutation_map; exact Hp).
    split; [split|].
    + intros y. cbn [abs V nodes]. split; intros Hy; (eapply Permutation_in; [|exact Hy]); [exact Hids|apply Permutation_sym; exact Hids].
    + intros e. exact (edges_of_perm ns (nodes g) Hp e).
    + assert (Hac : has_cycle (abs g) = false).
      { destruct (has_cycle (abs g)) eqn:Hc; [|reflexivity]. apply has_cycle_spec in Hc. destruct Hc as [a Ha].
        exfalso. exact (ProofsTsort.before_all_acyclic (nodes g) ns Hp Hb a Ha). }
      assert (Hcl : closed (abs g) = true).
      { apply closed_spec. intros a b He. cbn [abs E V] in *.
        destruct (ProofsTsort.before_all_rank (nodes g) ns Hp Hb a b He) as [ka [kb [_ [Hkb _]]]].
        apply position_Some_In in Hkb. eapply Permutation_in; eassumption. }
      unfold judge_sort, sort_expected. rewrite Hac, Hcl. cbn [sort_code nodes].
      split; [|left; reflexivity]. change (V (abs g)) with (map nid (nodes g)).
      change (E (abs g)) with (edges_of (nodes g)). rewrite (same_set_perm _ _ Hids), Hb. reflexivity.
Qed.

(* ====================================================================== *)
(* Refine.v *)
Lemma bool_eq_iff : forall a b : bool, (a = true <-> b = true) -> a = b.
Proof. intros [|] [|] H; try reflexivity; destruct H as [H1 H2]; [symmetry; apply H1|apply H2]; reflexivity. Qed.

(* ================= one step of the refinement ================= *)
Lemma abs_step_l : forall g o x, index_inv g -> op_ok g o = true -> step g o = Ok x ->
  rg_eq (abs (snd x)) (snd (r_step (abs g) o)) /\
  (fst (r_step (abs g) o) = fst x \/ (fst (r_step (abs g) o) = -1 /\ (fst x = 2 \/ fst x = 3))).
Proof.
  intros g o x Hinv Hok H. destruct o as [p|r d|p|a b|]; cbn [step] in H; cbn [r_step fst snd].
  - inversion H; subst x. cbn [fst snd]. split; [apply abs_add; exact Hinv|left; reflexivity].
  - destruct (inc_ref g r d) as [y| |] eqn:Hy; try discriminate. cbn [bind] in H. inversion H; subst x.
    cbn [fst snd]. destruct (abs_inc g r d y Hinv Hy) as [Hc He]. split; [exact He|left].
    rewrite <- Hc. destruct (fst y); reflexivity.
  - destruct (remove g p) as [y| |] eqn:Hy; try discriminate. cbn [bind] in H. inversion H; subst x.
    cbn [fst snd]. split; [eapply abs_remove; eassumption|left; reflexivity].
  - inversion H; subst x. cbn [fst snd]. split; [|left; reflexivity]. apply abs_rename.
    cbn [op_ok] in Hok. apply andb_true_iff in Hok. destruct Hok as [_ Hne].
    apply negb_true_iff in Hne. apply Z.eqb_neq in Hne. exact Hne.
  - destruct (sort g) as [y| |] eqn:Hy; try discriminate. cbn [bind] in H. inversion H; subst x.
    cbn [fst snd]. destruct (abs_sort g y Hinv Hy) as [He [_ Hc]]. split; [exact He|].
    fold (sort_code (fst y)). destruct Hc as [Hc|[Hc Hn]]; [left; exact Hc|right]. split; [exact Hc|].
    destruct (fst y) as [[|]|]; [left; reflexivity|right; reflexivity|congruence].
Qed.

(* ================= queries ================= *)
Lemma q_depends_on_agree : forall g a b, index_inv g -> depends_on g a b = Ok (q_depends_on (abs g) a b).
Proof.
  intros g a b Hinv. unfold depends_on, q_depends_on. rewrite (get_node_spec g a Hinv). cbn [bind]. f_equal.
  apply bool_eq_iff. rewrite meme_In. change (E (abs g)) with (edges_of (nodes g)).
  rewrite (edges_find _ a b (proj1 Hinv)). destruct (find_node (nodes g) a) as [n|].
  - rewrite memz_In. split; [intros H; exists n; auto|]. intros [m [Hm Hb]]. inversion Hm; subst. exact Hb.
  - split; [discriminate|]. intros [m [Hm _]]. discriminate.
Qed.
Lemma q_deep_agree : forall g a b, index_inv g -> deep_depends_on g a b = Ok (q_deep (abs g) a b).
Proof.
  intros g a b Hinv. destruct (deep_depends_on_total g b Hinv a) as [r [H Hr]]. rewrite H. f_equal.
  apply bool_eq_iff. unfold q_deep. rewrite reachb_spec. exact Hr.
Qed.
Lemma q_children_agree : forall g p, set_eq (children g p) (q_children (abs g) p).
Proof.
  intros g p x. unfold children, q_children. rewrite !in_map_iff. split.
  - intros [n [Hx Hn]]. apply filter_In in Hn. destruct Hn as [Hn Hp]. apply memz_In in Hp.
    exists (x, p). split; [reflexivity|]. apply filter_In. cbn [snd]. split; [|apply Z.eqb_refl].
    apply edges_of_In. exists n. auto.
  - intros [[u v] [Hx He]]. apply filter_In in He. destruct He as [He Hv]. cbn [fst snd] in *.
    apply Z.eqb_eq in Hv. subst u v. apply edges_of_In in He. destruct He as [n [Hn [Hid Hp]]].
    exists n. split; [exact Hid|]. apply filter_In. split; [exact Hn|apply memz_In; exact Hp].
Qed.
Lemma q_parents_agree : forall g p, index_inv g ->
  exists o, parents g p = Ok o /\ opt_set_eq o (q_parents (abs g) p).
Proof.
  intros g p Hinv. unfold parents, q_parents. rewrite (get_node_spec g p Hinv). cbn [bind].
  eexists. split; [reflexivity|]. cbn [abs V E]. destruct (find_node (nodes g) p) as [n|] eqn:Hf; cbn [option_map].
  - assert (Hm : memz p (map nid (nodes g)) = true).
    { apply memz_In. apply find_node_Some in Hf. destruct Hf as [Hn <-]. apply in_map. exact Hn. }
    rewrite Hm. cbn [opt_set_eq]. intros x. rewrite succs_In. symmetry.
    exact (edges_found _ p n x (proj1 Hinv) Hf).
  - apply find_node_None in Hf. apply memz_false in Hf. rewrite Hf. exact I.
Qed.

Lemma queries_agree_l : forall g, index_inv g ->
  (forall a b, depends_on g a b = Ok (q_depends_on (abs g) a b)) /\
  (forall a b, deep_depends_on g a b = Ok (q_deep (abs g) a b)) /\
  (forall p, set_eq (children g p) (q_children (abs g) p)) /\
  (forall p, exists o, parents g p = Ok o /\ opt_set_eq o (q_parents (abs g) p)).
Proof.
  intros g Hinv. split; [|split; [|split]].
  - intros a b. apply q_depends_on_agree. exact Hinv.
  - intros a b. apply q_deep_agree. exact Hinv.
  - intros p. apply q_children_agree.
  - intros p. apply q_parents_agree. exact Hinv.
Qed.

(* ================= inc_ref refuses exactly the cycle-closing edges ================= *)
Lemma inc_ref_refuses_cycle_l : forall g r d, index_inv g ->
  (forall g', inc_ref g r d = Ok (IncCycle, g') <->
              (r <> d /\ reach (E (abs g)) d r /\ g' = add_node_if_none g r)) /\
  (~ (r <> d /\ reach (E (abs g)) d r) ->
     exists g2, inc_ref g r d = Ok (IncOk, g2) /\ rg_eq (abs g2) (snd (r_inc (abs g) r d))).
Proof.
  intros g r d Hinv. destruct (inc_ref_spec g r d Hinv) as [H1 [H2 H3]].
  change (E (abs g)) with (edges_of (nodes g)). split.
  - intros g'. split.
    + intros H. destruct (Z.eq_dec r d) as [Heq|Hne]; [rewrite (H1 Heq) in H; discriminate|].
      destruct (reach_dec (edges_of (nodes g)) d r) as [Hr|Hr].
      * rewrite (H2 Hne Hr) in H. inversion H. auto.
      * destruct (H3 Hne Hr) as [g2 [Hg2 _]]. rewrite Hg2 in H. discriminate.
    + intros [Hne [Hr ->]]. apply H2; assumption.
  - intros Hn. assert (Hex : exists g2, inc_ref g r d = Ok (IncOk, g2)).
    { destruct (Z.eq_dec r d) as [Heq|Hne]; [eexists; apply H1; exact Heq|].
      destruct (reach_dec (edges_of (nodes g)) d r) as [Hr|Hr]; [exfalso; apply Hn; auto|].
      destruct (H3 Hne Hr) as [g2 [Hg2 _]]. exists g2. exact Hg2. }
    destruct Hex as [g2 Hg2]. exists g2. split; [exact Hg2|].
    exact (proj2 (abs_inc g r d _ Hinv Hg2)).
Qed.

(* ================= acyclicity ================= *)
Lemma reach_add_edge : forall (EE E2 : list (Z * Z)) r d,
  (forall e, In e E2 <-> e = (r, d) \/ In e EE) ->
  forall x y, reach E2 x y -> reach EE x y \/ ((x = r \/ reach EE x r) /\ (d = y \/ reach EE d y)).
Proof.
  intros EE E2 r d He x y Hr. induction Hr as [a b Hab|a c b Hac Hcb IH].
  - apply He in Hab. destruct Hab as [Hab|Hab].
    + inversion Hab; subst. right. auto.
    + left. apply reach_edge. exact Hab.
  - apply He in Hac. destruct Hac as [Hac|Hac].
    + inversion Hac; subst a c. right. split; [left; reflexivity|].
      destruct IH as [IH|[_ IH]]; [right; exact IH|exact IH].
    + destruct IH as [IH|[[IH|IH] IH2]].
      * left. eapply reach_step; eassumption.
      * subst c. right. split; [right; apply reach_edge; exact Hac|exact IH2].
      * right. split; [right; eapply reach_step; eassumption|exact IH2].
Qed.

Lemma acyclic_add_edge : forall (EE E2 : list (Z * Z)) r d,
  (forall e, In e E2 <-> e = (r, d) \/ In e EE) ->
  acyclic EE -> r <> d -> ~ reach EE d r -> acyclic E2.
Proof.
  intros EE E2 r d He Hac Hne Hnr a Ha. destruct (reach_add_edge EE E2 r d He a a Ha) as [H|[[H1|H1] [H2|H2]]].
  - exact (Hac a H).
  - congruence.
  - subst a. exact (Hnr H2).
  - subst a. exact (Hnr H1).
  - apply Hnr. eapply reach_trans; eassumption.
Qed.

Lemma acyclic_incl : forall E1 E2 : list (Z * Z), incl E2 E1 -> acyclic E1 -> acyclic E2.
Proof. intros E1 E2 Hi Hac a Ha. apply (Hac a). eapply reach_mono; eassumption. Qed.

Lemma acyclic_step : forall g o x, index_inv g -> acyclic (E (abs g)) ->
  (match o with ORename _ _ => False | _ => True end) -> step g o = Ok x -> acyclic (E (abs (snd x))).
Proof.
  intros g o x Hinv Hac Ho H. change (E (abs g)) with (edges_of (nodes g)) in Hac.
  destruct o as [p|r d|p|a b|]; cbn [step] in H; try contradiction.
  - inversion H; subst x. cbn [snd]. change (acyclic (edges_of (nodes (add_node_if_none g p)))).
    rewrite add_node_edges. exact Hac.
  - destruct (inc_ref g r d) as [y| |] eqn:Hy; try discriminate. cbn [bind] in H. inversion H; subst x.
    cbn [snd]. destruct (inc_ref_spec g r d Hinv) as [H1 [H2 H3]].
    destruct (Z.eq_dec r d) as [Heq|Hne].
    + rewrite (H1 Heq) in Hy. inversion Hy; subst y. cbn [snd].
      change (acyclic (edges_of (nodes (add_node_if_none g r)))). rewrite add_node_edges. exact Hac.
    + destruct (reach_dec (edges_of (nodes g)) d r) as [Hr|Hr].
      * rewrite (H2 Hne Hr) in Hy. inversion Hy; subst y. cbn [snd].
        change (acyclic (edges_of (nodes (add_node_if_none g r)))). rewrite add_node_edges. exact Hac.
      * destruct (H3 Hne Hr) as [g2 [Hg2 [_ [_ He]]]]. rewrite Hg2 in Hy. inversion Hy; subst y. cbn [snd].
        exact (acyclic_add_edge _ _ r d He Hac Hne Hr).
  - destruct (remove g p) as [y| |] eqn:Hy; try discriminate. cbn [bind] in H. inversion H; subst x.
    cbn [snd]. destruct (abs_remove g p y Hinv Hy) as [_ He]. eapply acyclic_incl; [|exact Hac].
    intros e Hin. apply He in Hin. cbn [r_remove E] in Hin. apply filter_In in Hin. exact (proj1 Hin).
  - destruct (sort g) as [y| |] eqn:Hy; try discriminate. cbn [bind] in H. inversion H; subst x.
    cbn [snd]. destruct (abs_sort g y Hinv Hy) as [[_ He] _]. eapply acyclic_incl; [|exact Hac].
    intros e Hin. apply He. exact Hin.
Qed.

Lemma acyclic_history : forall os g g', index_inv g -> acyclic (E (abs g)) -> no_rename os = true ->
  run_ops g os = Ok g' -> acyclic (E (abs g')).
Proof.
  induction os as [|o os IH]; intros g g' Hinv Hac Hnr H; cbn [run_ops] in H.
  - inversion H; subst g'. exact Hac.
  - cbn [no_rename forallb] in Hnr. apply andb_true_iff in Hnr. destruct Hnr as [Ho Hnr].
    destruct (step g o) as [x| |] eqn:Hx; try discriminate. cbn [bind] in H.
    assert (Hok : op_ok g o = true) by (destruct o; try reflexivity; discriminate).
    apply (IH (snd x) g'); [eapply index_inv_step; eassumption| |exact Hnr|exact H].
    eapply acyclic_step; [exact Hinv|exact Hac| |exact Hx]. destruct o; try exact I. discriminate.
Qed.

Lemma acyclic_empty : acyclic (E (abs empty)).
Proof. intros a Ha. cbn in Ha. inversion Ha as [? ? H|? ? ? H _]; destruct H. Qed.

Lemma acyclic_inv_l : forall os g, no_rename os = true -> run_ops empty os = Ok g -> acyclic (E (abs g)).
Proof. intros os g Hnr H. eapply acyclic_history; [apply index_inv_empty|apply acyclic_empty|exact Hnr|exact H]. Qed.

(* ====================================================================== *)
(* Hist.v *)
(* ================= the reference operations respect set equality ================= *)
Lemma rg_eq_refl : forall g, rg_eq g g.
Proof. intros g. split; intros x; tauto. Qed.
Lemma rg_eq_trans : forall a b c, rg_eq a b -> rg_eq b c -> rg_eq a c.
Proof.
  intros a b c [H1 H2] [H3 H4]. split; intros x; [rewrite (H1 x); apply H3|rewrite (H2 x); apply H4].
Qed.

Lemma reachb_proper : forall E1 E2 a b, set_eq E1 E2 -> reachb E1 a b = reachb E2 a b.
Proof.
  intros E1 E2 a b He. apply bool_eq_iff. rewrite !reachb_spec.
  split; apply reach_mono; intros e Hin; apply He; exact Hin.
Qed.
Lemma has_cycle_proper : forall g1 g2, rg_eq g1 g2 -> has_cycle g1 = has_cycle g2.
Proof.
  intros g1 g2 [_ He]. apply bool_eq_iff. rewrite !has_cycle_spec.
  split; intros [a Ha]; exists a; revert Ha; apply reach_mono; intros e Hin; apply He; exact Hin.
Qed.
Lemma closed_proper : forall g1 g2, rg_eq g1 g2 -> closed g1 = closed g2.
Proof.
  intros g1 g2 [Hv He]. apply bool_eq_iff. rewrite !closed_spec.
  split; intros H a b Hin; apply Hv; apply (H a b); apply He; exact Hin.
Qed.
Lemma meme_proper : forall (E1 E2 : list (Z * Z)) e, set_eq E1 E2 -> meme e E1 = meme e E2.
Proof. intros E1 E2 e He. apply bool_eq_iff. rewrite !meme_In. apply He. Qed.

Lemma r_add_proper : forall g1 g2 p, rg_eq g1 g2 -> rg_eq (r_add g1 p) (r_add g2 p).
Proof.
  intros g1 g2 p [Hv He]. split; cbn [r_add V E]; [|exact He].
  intros x. rewrite !set_insert_In. rewrite (Hv x). tauto.
Qed.
Lemma r_inc_proper : forall g1 g2 r d, rg_eq g1 g2 ->
  fst (r_inc g1 r d) = fst (r_inc g2 r d) /\ rg_eq (snd (r_inc g1 r d)) (snd (r_inc g2 r d)).
Proof.
  intros g1 g2 r d Hg. pose proof (r_add_proper g1 g2 r Hg) as Ha. unfold r_inc.
  destruct (Z.eqb r d); [split; [reflexivity|exact Ha]|].
  rewrite (reachb_proper (E (r_add g1 r)) (E (r_add g2 r)) d r (proj2 Ha)).
  destruct (reachb (E (r_add g2 r)) d r); [split; [reflexivity|exact Ha]|].
  cbn [fst snd]. split; [reflexivity|]. split; cbn [V E]; [exact (proj1 Ha)|].
  rewrite (meme_proper _ _ (r, d) (proj2 Ha)). destruct Ha as [_ He]. cbn [r_add E] in *.
  destruct (meme (r, d) (E g2)); [exact He|]. intros e. rewrite !in_app_iff. rewrite (He e). tauto.
Qed.
Lemma r_remove_proper : forall g1 g2 p, rg_eq g1 g2 -> rg_eq (r_remove g1 p) (r_remove g2 p).
Proof.
  intros g1 g2 p [Hv He]. split; cbn [r_remove V E]; intros x.
  - rewrite !set_remove_In, (Hv x). tauto.
  - rewrite !filter_In, (He x). tauto.
Qed.
Lemma r_rename_proper : forall g1 g2 a b, rg_eq g1 g2 -> rg_eq (r_rename g1 a b) (r_rename g2 a b).
Proof.
  intros g1 g2 a b [Hv He]. split; cbn [r_rename V E]; intros x.
  - rewrite !in_map_iff. split; intros [y [Hy Hin]]; exists y; (split; [exact Hy|apply Hv; exact Hin]).
  - rewrite !dedup_e_In, !in_map_iff. split; intros [y [Hy Hin]]; exists y; (split; [exact Hy|apply He; exact Hin]).
Qed.

Lemma r_step_proper : forall g1 g2 o, rg_eq g1 g2 ->
  fst (r_step g1 o) = fst (r_step g2 o) /\ rg_eq (snd (r_step g1 o)) (snd (r_step g2 o)).
Proof.
  intros g1 g2 o Hg. destruct o as [p|r d|p|a b|]; cbn [r_step fst snd].
  - split; [reflexivity|apply r_add_proper; exact Hg].
  - apply r_inc_proper. exact Hg.
  - split; [reflexivity|apply r_remove_proper; exact Hg].
  - split; [reflexivity|apply r_rename_proper; exact Hg].
  - split; [|exact Hg]. unfold sort_expected.
    rewrite (has_cycle_proper g1 g2 Hg), (closed_proper g1 g2 Hg). reflexivity.
Qed.

(* ================= refinement along histories ================= *)
Lemma refine_history : forall os g rg g', index_inv g -> rg_eq (abs g) rg -> hist_ok g os = true ->
  run_ops g os = Ok g' -> index_inv g' /\ rg_eq (abs g') (r_run rg os).
Proof.
  induction os as [|o os IH]; intros g rg g' Hinv Hg Hok H; cbn [run_ops r_run] in *.
  - inversion H; subst g'. auto.
  - cbn [hist_ok] in Hok. apply andb_true_iff in Hok. destruct Hok as [Ho Hr].
    destruct (step g o) as [x| |] eqn:Hx; try discriminate. cbn [bind] in H.
    destruct (abs_step_l g o x Hinv Ho Hx) as [Hs _].
    apply (IH (snd x) _ g'); [eapply index_inv_step; eassumption| |exact Hr|exact H].
    eapply rg_eq_trans; [exact Hs|]. apply r_step_proper. exact Hg.
Qed.

Lemma refine_ops_l : forall os, hist_ok empty os = true ->
  exists g, run_ops empty os = Ok g /\ index_inv g /\ rg_eq (abs g) (r_run rempty os) /\
    (forall a b, depends_on g a b = Ok (q_depends_on (r_run rempty os) a b)) /\
    (forall a b, deep_depends_on g a b = Ok (q_deep (r_run rempty os) a b)) /\
    (forall p, set_eq (children g p) (q_children (r_run rempty os) p)).
Proof.
  intros os Hok. destruct (run_ops_empty_inv os Hok) as [g [Hr Hi]]. exists g. split; [exact Hr|].
  destruct (refine_history os empty rempty g index_inv_empty (rg_eq_refl _) Hok Hr) as [_ Hg].
  split; [exact Hi|]. split; [exact Hg|]. destruct (queries_agree_l g Hi) as [Q1 [Q2 [Q3 _]]].
  split; [|split].
  - intros a b. rewrite Q1. f_equal. unfold q_depends_on. apply meme_proper. exact (proj2 Hg).
  - intros a b. rewrite Q2. f_equal. unfold q_deep. apply reachb_proper. exact (proj2 Hg).
  - intros p x. rewrite (Q3 p x). unfold q_children. rewrite !in_map_iff.
    split; intros [e [He Hin]]; exists e; (split; [exact He|]); apply filter_In in Hin; apply filter_In;
      (split; [apply (proj2 Hg); exact (proj1 Hin)|exact (proj2 Hin)]).
Qed.
