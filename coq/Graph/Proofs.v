From Coq Require Import ZArith List Bool Arith Lia.
From ErgV Require Import Graph.Model Graph.Spec.
Import ListNotations.
