(** extraction entry point for the C21 correspondence check and judge *)
(* built before extraction (lib/vplib.py Model reads these names): ErgV.Common.Sx ErgV.Graph.Model ErgV.Graph.Spec *)
From Coq Require Import ZArith List Bool Arith.
From ErgV Require Import Common.Sx Graph.Model Graph.Spec.
Import ListNotations.
Open Scope Z_scope.

Definition dec_node (x : sx) : node := {| nid := sx_z (sx_nth x 0); ndeps := sx_zs (sx_nth x 1) |}.
Definition dec_graph (x : sx) : graph :=
  {| nodes := map dec_node (sx_l (sx_nth x 0));
     index := map (fun kv => (sx_z (sx_nth kv 0), sx_to_nat (sx_nth kv 1))) (sx_l (sx_nth x 1)) |}.
Definition dec_op (x : sx) : op :=
  let k := sx_z (sx_nth x 0) in
  if k =? 0 then OAdd (sx_z (sx_nth x 1))
  else if k =? 1 then OInc (sx_z (sx_nth x 1)) (sx_z (sx_nth x 2))
  else if k =? 2 then ORemove (sx_z (sx_nth x 1))
  else if k =? 3 then ORename (sx_z (sx_nth x 1)) (sx_z (sx_nth x 2))
  else OSort.

Definition enc_node (n : node) : sx := SL [SZ (nid n); sx_of_zs (ndeps n)].
(* index as observed through get_node: for each path of the universe the position it maps to;
   -999 when get_node would panic *)
Definition enc_index (g : graph) (universe : list Z) : sx :=
  SL (flat_map (fun u => match idx_get (index g) u with
                         | None => []
                         | Some i => [SL [SZ u; if Nat.ltb i (length (nodes g)) then sx_nat i else SZ (-999)]]
                         end) universe).
Definition enc_graph (g : graph) (universe : list Z) : sx :=
  SL [SL (map enc_node (nodes g)); enc_index g universe].

Definition enc_res {A} (f : A -> sx) (r : res A) : sx :=
  match r with Ok a => f a | Panic => SZ (-999) | Fuel => SZ (-998) end.

Definition enc_queries (g : graph) (universe : list Z) : sx :=
  let pairs := flat_map (fun a => map (fun b => (a, b)) universe) universe in
  SL [ SL (map (fun ab => enc_res sx_bool (depends_on g (fst ab) (snd ab))) pairs);
       SL (map (fun ab => enc_res sx_bool (deep_depends_on g (fst ab) (snd ab))) pairs);
       SL (map (fun a => sx_of_zs (children g a)) universe);
       SL (map (fun a => enc_res (fun o => match o with None => SZ (-1) | Some l => sx_of_zs l end) (parents g a)) universe);
       SL (map (fun a => enc_res sx_of_zs (ancestors g a)) universe) ].

Definition enc_rqueries (g : rgraph) (universe : list Z) : sx :=
  let pairs := flat_map (fun a => map (fun b => (a, b)) universe) universe in
  SL [ SL (map (fun ab => sx_bool (q_depends_on g (fst ab) (snd ab))) pairs);
       SL (map (fun ab => sx_bool (q_deep g (fst ab) (snd ab))) pairs);
       SL (map (fun a => sx_of_zs (q_children g a)) universe);
       SL (map (fun a => match q_parents g a with None => SZ (-1) | Some l => sx_of_zs l end) universe);
       SL (map (fun a => sx_of_zs (q_ancestors g a)) universe) ].

Fixpoint ref_run (g : rgraph) (universe : list Z) (ops : list sx) : list sx :=
  match ops with
  | [] => []
  | o :: r =>
    let x := r_step g (dec_op o) in
    SL [SZ (fst x); SL [sx_of_zs (V (snd x)); SL (map (fun e => SL [SZ (fst e); SZ (snd e)]) (E (snd x)))];
        enc_rqueries (snd x) universe;
        SZ (if has_cycle (snd x) then 1 else 0); SZ (if closed (snd x) then 1 else 0)]
    :: ref_run (snd x) universe r
  end.

Definition dec_rgraph (x : sx) : rgraph :=
  {| V := sx_zs (sx_nth x 0); E := map (fun e => (sx_z (sx_nth e 0), sx_z (sx_nth e 1))) (sx_l (sx_nth x 1)) |}.

(** modes:
    (0 universe state op)        -> one model step from the given concrete state: (res state' queries)
    (1 universe ops)             -> reference graph run from empty: per step (res rgraph queries cyc closed)
    (2 rgraph res order)         -> judge_sort
    (3 universe state)           -> abs(state) and its reference queries (abstraction check)        *)
Definition run (x : sx) : sx :=
  let mode := sx_z (sx_nth x 0) in
  if mode =? 0 then
    let u := sx_zs (sx_nth x 1) in
    match step (dec_graph (sx_nth x 2)) (dec_op (sx_nth x 3)) with
    | Ok (r, g') => SL [SZ r; enc_graph g' u; enc_queries g' u]
    | Panic => SL [SZ (-999)]
    | Fuel => SL [SZ (-998)]
    end
  else if mode =? 1 then SL (ref_run rempty (sx_zs (sx_nth x 1)) (sx_l (sx_nth x 2)))
  else if mode =? 2 then sx_bool (judge_sort_lenient (dec_rgraph (sx_nth x 1)) (sx_z (sx_nth x 2)) (sx_zs (sx_nth x 3)))
  else
    let u := sx_zs (sx_nth x 1) in
    let a := abs (dec_graph (sx_nth x 2)) in
    SL [SL [sx_of_zs (V a); SL (map (fun e => SL [SZ (fst e); SZ (snd e)]) (E a))]; enc_rqueries a u].

Require Extraction.
Require Import ExtrOcamlBasic.
Extraction Language OCaml.
Extraction "model.ml" run.
