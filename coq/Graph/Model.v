(** C21 — model of crates/erg_compiler/module/graph.rs (ModuleGraph) and crates/erg_common/tsort.rs.
    Definitions only (computable); proofs are in Proofs.v.
    Paths are integers.  A [Set] is a duplicate-free list whose order is the iteration order
    (arbitrary: the theorems hold for every order).  [Dict] (the index) is an association list
    with unique keys.  Every slice index / unwrap on the modelled path is an explicit [Panic]. *)
From Coq Require Import ZArith List Bool Arith.
Import ListNotations.
Open Scope Z_scope.

Inductive res (A : Type) : Type :=
| Ok (a : A)
| Panic            (* the Rust code would panic here (index out of bounds / unreachable!) *)
| Fuel.            (* model ran out of fuel; excluded by the fuel-bound lemmas *)
Arguments Ok {A} a.
Arguments Panic {A}.
Arguments Fuel {A}.

Definition bind {A B} (r : res A) (f : A -> res B) : res B :=
  match r with Ok a => f a | Panic => Panic | Fuel => Fuel end.
Notation "'do' x <- r ; k" := (bind r (fun x => k)) (at level 200, x pattern, r at level 100, k at level 200).

Definition memz (x : Z) (l : list Z) : bool := existsb (Z.eqb x) l.
Definition set_insert (x : Z) (l : list Z) : list Z := if memz x l then l else l ++ [x].
Definition set_remove (x : Z) (l : list Z) : list Z := filter (fun y => negb (Z.eqb y x)) l.

Record node := { nid : Z; ndeps : list Z }.
Record graph := { nodes : list node; index : list (Z * nat) }.

Definition empty : graph := {| nodes := []; index := [] |}.

(* ---- Dict<path, usize> *)
Fixpoint idx_get (ix : list (Z * nat)) (p : Z) : option nat :=
  match ix with
  | [] => None
  | (k, v) :: r => if Z.eqb k p then Some v else idx_get r p
  end.
Definition idx_remove (ix : list (Z * nat)) (p : Z) : list (Z * nat) :=
  filter (fun kv => negb (Z.eqb (fst kv) p)) ix.
Definition idx_insert (ix : list (Z * nat)) (p : Z) (v : nat) : list (Z * nat) :=
  idx_remove ix p ++ [(p, v)].

(* ---- get_node: self.index.get(path).map(|&i| &self.graph[i]) *)
Definition get_node (g : graph) (p : Z) : res (option node) :=
  match idx_get (index g) p with
  | None => Ok None
  | Some i => match nth_error (nodes g) i with
              | Some n => Ok (Some n)
              | None => Panic
              end
  end.

Definition depends_on (g : graph) (p t : Z) : res bool :=
  do n <- get_node g p;
  Ok (match n with Some n => memz t (ndeps n) | None => false end).

(* ---- deep_depends_on_ : DFS with a visited set; fuel bounds the recursion depth *)
Fixpoint deep_ (fuel : nat) (g : graph) (target : Z) (path : Z) (visited : list Z)
  : res (bool * list Z) :=
  match fuel with
  | O => Fuel
  | S f =>
    if memz path visited then Ok (false, visited)
    else
      let visited := path :: visited in
      do on <- get_node g path;
      match on with
      | None => Ok (false, visited)
      | Some n =>
        if memz target (ndeps n) then Ok (true, visited)
        else
          (fix any (ds : list Z) (vis : list Z) {struct ds} : res (bool * list Z) :=
             match ds with
             | [] => Ok (false, vis)
             | d :: ds' =>
               do r <- deep_ f g target d vis;
               if fst r then Ok r else any ds' (snd r)
             end) (ndeps n) visited
      end
  end.

Definition fuel_of (g : graph) : nat := S (S (length (nodes g))).

Definition deep_depends_on (g : graph) (p t : Z) : res bool :=
  do r <- deep_ (fuel_of g) g t p []; Ok (fst r).

Definition children (g : graph) (p : Z) : list Z :=
  map nid (filter (fun n => memz p (ndeps n)) (nodes g)).

Definition parents (g : graph) (p : Z) : res (option (list Z)) :=
  do n <- get_node g p; Ok (option_map ndeps n).

(* ---- ancestors_ *)
Fixpoint ancestors_ (fuel : nat) (g : graph) (path : Z) (anc vis : list Z)
  : res (list Z * list Z) :=
  match fuel with
  | O => Fuel
  | S f =>
    if memz path vis then Ok (anc, vis)
    else
      let vis := path :: vis in
      do on <- get_node g path;
      match on with
      | None => Ok (anc, vis)
      | Some n =>
        (fix each (ps : list Z) (anc vis : list Z) {struct ps} : res (list Z * list Z) :=
           match ps with
           | [] => Ok (anc, vis)
           | q :: ps' =>
             if memz q anc then each ps' anc vis
             else do r <- ancestors_ f g q (anc ++ [q]) vis; each ps' (fst r) (snd r)
           end) (ndeps n) anc vis
      end
  end.

Definition ancestors (g : graph) (p : Z) : res (list Z) :=
  do r <- ancestors_ (fuel_of g) g p [] []; Ok (fst r).

(* ---- add_node_if_none (is_dir is always false for the harness' paths) *)
Definition add_node_if_none (g : graph) (p : Z) : graph :=
  match idx_get (index g) p with
  | Some _ => g
  | None => {| nodes := nodes g ++ [{| nid := p; ndeps := [] |}];
               index := idx_insert (index g) p (length (nodes g)) |}
  end.

(* get_mut_node + push_dep *)
Fixpoint update_nth {A} (l : list A) (i : nat) (f : A -> A) : list A :=
  match l, i with
  | [], _ => []
  | x :: r, O => f x :: r
  | x :: r, S j => x :: update_nth r j f
  end.

Inductive inc_result := IncOk | IncCycle.

Definition inc_ref (g : graph) (referrer dep : Z) : res (inc_result * graph) :=
  let g := add_node_if_none g referrer in
  if Z.eqb referrer dep then Ok (IncOk, g)
  else
    do cyc <- deep_depends_on g dep referrer;
    if cyc then Ok (IncCycle, g)
    else
      match idx_get (index g) referrer with
      | None => Panic   (* unreachable!("node not found") *)
      | Some i =>
        match nth_error (nodes g) i with
        | None => Panic (* self.graph[i] out of bounds *)
        | Some _ =>
          Ok (IncOk, {| nodes := update_nth (nodes g) i
                                   (fun n => {| nid := nid n; ndeps := set_insert dep (ndeps n) |});
                        index := index g |})
        end
      end.

(* ---- remove *)
Fixpoint remove_nth {A} (l : list A) (i : nat) : list A :=
  match l, i with
  | [], _ => []
  | _ :: r, O => r
  | x :: r, S j => x :: remove_nth r j
  end.

Definition strip_dep (p : Z) (n : node) : node := {| nid := nid n; ndeps := set_remove p (ndeps n) |}.

Definition remove (g : graph) (p : Z) : res graph :=
  match idx_get (index g) p with
  | Some i =>
    if Nat.ltb i (length (nodes g)) then
      Ok {| nodes := map (strip_dep p) (remove_nth (nodes g) i);
            index := map (fun kv => (fst kv, if Nat.ltb i (snd kv) then pred (snd kv) else snd kv))
                         (idx_remove (index g) p) |}
    else Panic  (* Vec::remove out of bounds *)
  | None => Ok {| nodes := map (strip_dep p) (nodes g); index := index g |}
  end.

(* ---- rename_path.  [fix_index] = true is the repaired code (the index entry follows the node). *)
Definition rename_node (old new : Z) (n : node) : node :=
  {| nid := if Z.eqb (nid n) old then new else nid n;
     ndeps := set_remove old (if memz old (ndeps n) then set_insert new (ndeps n) else ndeps n) |}.

Definition rename_path_nofix (g : graph) (old new : Z) : graph :=
  {| nodes := map (rename_node old new) (nodes g); index := index g |}.

Definition rename_path (g : graph) (old new : Z) : graph :=
  {| nodes := map (rename_node old new) (nodes g);
     index := match idx_get (index g) old with
              | Some i => idx_insert (idx_remove (index g) old) new i
              | None => index g
              end |}.

(* ---- tsort.rs *)
Inductive sort_err := CyclicReference | KeyNotFound.

Definition find_node (ns : list node) (v : Z) : option node :=
  find (fun n => Z.eqb (nid n) v) ns.

(* dfs(g, v, used, idx): returns the new (used, idx) or an error *)
Fixpoint dfs (fuel : nat) (ns : list node) (v : Z) (used idx : list Z)
  : res (sort_err + (list Z * list Z)) :=
  match fuel with
  | O => Fuel
  | S f =>
    let used := set_insert v used in
    match find_node ns v with
    | None => Ok (inl KeyNotFound)
    | Some vertex =>
      do r <- (fix each (ds : list Z) (used idx : list Z) {struct ds}
               : res (sort_err + (list Z * list Z)) :=
           match ds with
           | [] => Ok (inr (used, idx))
           | d :: ds' =>
             if memz d used && negb (memz d idx) then Ok (inl CyclicReference)
             else if negb (memz d used) then
               do r <- dfs f ns d used idx;
               match r with
               | inl e => Ok (inl e)
               | inr (u, i) => each ds' u i
               end
             else each ds' used idx
           end) (ndeps vertex) used idx;
      match r with
      | inl e => Ok (inl e)
      | inr (u, i) => Ok (inr (u, i ++ [v]))
      end
    end
  end.

Fixpoint tsort_loop (fuel : nat) (ns : list node) (todo : list node) (used idx : list Z)
  : res (sort_err + list Z) :=
  match todo with
  | [] => Ok (inr idx)
  | v :: rest =>
    if memz (nid v) used then tsort_loop fuel ns rest used idx
    else
      do r <- dfs fuel ns (nid v) used idx;
      match r with
      | inl e => Ok (inl e)
      | inr (u, i) => tsort_loop fuel ns rest u i
      end
  end.

Fixpoint position (v : Z) (l : list Z) : option nat :=
  match l with
  | [] => None
  | x :: r => if Z.eqb x v then Some O else option_map S (position v r)
  end.

(* stable sort_by_key(position in idx); unwrap -> Panic when a node id is not in idx *)
Fixpoint insert_by (k : nat) (n : node) (l : list (nat * node)) : list (nat * node) :=
  match l with
  | [] => [(k, n)]
  | (k', n') :: r => if Nat.leb k' k then (k', n') :: insert_by k n r else (k, n) :: l
  end.

Fixpoint keyed (ns : list node) (idx : list Z) : res (list (nat * node)) :=
  match ns with
  | [] => Ok []
  | n :: r =>
    match position (nid n) idx with
    | None => Panic
    | Some k => do kr <- keyed r idx; Ok ((k, n) :: kr)
    end
  end.

Definition reorder_by_key (ns : list node) (idx : list Z) : res (list node) :=
  do ks <- keyed ns idx;
  (* a stable sort: insert from the right so equal keys keep their order *)
  Ok (map snd (fold_right (fun kn acc => insert_by (fst kn) (snd kn) acc) [] ks)).

Definition tsort (ns : list node) : res (sort_err + list node) :=
  do r <- tsort_loop (S (S (length ns))) ns ns [] [];
  match r with
  | inl e => Ok (inl e)
  | inr idx => do s <- reorder_by_key ns idx; Ok (inr s)
  end.

Fixpoint enumerate_from {A} (i : nat) (l : list A) : list (nat * A) :=
  match l with [] => [] | x :: r => (i, x) :: enumerate_from (S i) r end.

Definition rebuild_index (ns : list node) : list (Z * nat) :=
  fold_left (fun ix kn => idx_insert ix (nid (snd kn)) (fst kn)) (enumerate_from 0 ns) [].

(* sort(): [keep_on_error] = true is the repaired code; the code before the repair did
   `*self = std::mem::take(self).sorted()?`, which leaves an empty graph behind on error. *)
Definition sort_gen (keep_on_error : bool) (g : graph) : res (option sort_err * graph) :=
  do r <- tsort (nodes g);
  match r with
  | inl e => Ok (Some e, if keep_on_error then g else empty)
  | inr ns => Ok (None, {| nodes := ns; index := rebuild_index ns |})
  end.
Definition sort := sort_gen true.

(* ---- operations as data, for histories *)
Inductive op :=
| OAdd (p : Z)
| OInc (r d : Z)
| ORemove (p : Z)
| ORename (old new : Z)
| OSort.

(* result code: 0 ok, 1 cycle refused, 2 CyclicReference, 3 KeyNotFound *)
Definition step (g : graph) (o : op) : res (Z * graph) :=
  match o with
  | OAdd p => Ok (0, add_node_if_none g p)
  | OInc r d => do x <- inc_ref g r d; Ok (match fst x with IncOk => 0 | IncCycle => 1 end, snd x)
  | ORemove p => do g' <- remove g p; Ok (0, g')
  | ORename a b => Ok (0, rename_path g a b)
  | OSort => do x <- sort g;
             Ok (match fst x with None => 0 | Some CyclicReference => 2 | Some KeyNotFound => 3 end, snd x)
  end.

Fixpoint run_ops (g : graph) (os : list op) : res graph :=
  match os with
  | [] => Ok g
  | o :: r => do x <- step g o; run_ops (snd x) r
  end.
