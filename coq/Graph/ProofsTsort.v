(** C21 — correctness of the tsort model *)
From Coq Require Import ZArith List Bool Arith Lia Permutation Sorting.Sorted.
From ErgV Require Import Graph.Model Graph.Spec.
Import ListNotations.
Open Scope Z_scope.

(** * Basic facts *)

Lemma memz_true_iff x l : memz x l = true <-> In x l.
Proof.
  unfold memz. rewrite existsb_exists. split.
  - intros [y [Hy He]]. apply Z.eqb_eq in He. subst y. exact Hy.
  - intros H. exists x. split; [exact H | apply Z.eqb_refl].
Qed.

Lemma memz_false_iff x l : memz x l = false <-> ~ In x l.
Proof.
  rewrite <- memz_true_iff. destruct (memz x l); split; intro H.
  - discriminate H.
  - exfalso. apply H. reflexivity.
  - intro H'. discriminate H'.
  - reflexivity.
Qed.

Lemma set_insert_In x v l : In x (set_insert v l) <-> x = v \/ In x l.
Proof.
  unfold set_insert. destruct (memz v l) eqn:Hm.
  - apply memz_true_iff in Hm. split; [intro H; right; exact H|].
    intros [->|H]; assumption.
  - rewrite in_app_iff. cbn [In]. intuition (subst; auto).
Qed.

Lemma find_node_Some ns v n : find_node ns v = Some n -> In n ns /\ nid n = v.
Proof.
  unfold find_node. intro H. apply find_some in H. destruct H as [Hin He].
  apply Z.eqb_eq in He. split; assumption.
Qed.

Lemma find_node_None ns v : find_node ns v = None -> ~ In v (map nid ns).
Proof.
  unfold find_node. intros H Hin. apply in_map_iff in Hin. destruct Hin as [n [Hn Hi]].
  pose proof (find_none _ _ H n Hi) as Hne. cbv beta in Hne.
  rewrite Hn, Z.eqb_refl in Hne. discriminate Hne.
Qed.

Lemma find_node_In ns v : In v (map nid ns) -> exists n, find_node ns v = Some n.
Proof.
  intro H. destruct (find_node ns v) as [n|] eqn:Hf.
  - exists n. reflexivity.
  - exfalso. exact (find_node_None _ _ Hf H).
Qed.

Lemma edges_of_In ns a d :
  In (a, d) (edges_of ns) <-> exists n, In n ns /\ nid n = a /\ In d (ndeps n).
Proof.
  unfold edges_of. rewrite in_flat_map. split.
  - intros [n [Hn Hm]]. apply in_map_iff in Hm. destruct Hm as [d' [He Hd']].
    injection He as <- <-. exists n. auto.
  - intros [n [Hn [<- Hd]]]. exists n. split; [exact Hn|].
    apply in_map_iff. exists d. auto.
Qed.

Lemma succs_In E a d : In d (succs E a) <-> In (a, d) E.
Proof.
  unfold succs. rewrite in_map_iff. split.
  - intros [[x y] [Hy Hf]]. apply filter_In in Hf. destruct Hf as [Hin He].
    cbn [fst snd] in *. apply Z.eqb_eq in He. subst. exact Hin.
  - intro H. exists (a, d). split; [reflexivity|]. apply filter_In. split; [exact H|].
    cbn [fst]. apply Z.eqb_refl.
Qed.

Lemma NoDup_app_intro {A} (a b : list A) :
  NoDup a -> NoDup b -> (forall x, In x a -> ~ In x b) -> NoDup (a ++ b).
Proof.
  induction a as [|x a IH]; intros Ha Hb Hd; cbn [app]; [exact Hb|].
  inversion Ha as [|? ? Hx Ha']; subst. constructor.
  - rewrite in_app_iff. intros [H|H]; [exact (Hx H)| exact (Hd x (or_introl eq_refl) H)].
  - apply IH; auto. intros y Hy. apply Hd. right; exact Hy.
Qed.

(** * The inner loop of dfs as a named function *)

Definition dfs_each (f : nat) (ns : list node) :=
  fix each (ds : list Z) (used idx : list Z) {struct ds}
    : res (sort_err + (list Z * list Z)) :=
    match ds with
    | [] => Ok (inr (used, idx))
    | d :: ds' =>
      if memz d used && negb (memz d idx) then Ok (inl CyclicReference)
      else if negb (memz d used) then
        do r <- dfs f ns d used idx;
        match r with
        | inl e => Ok (inl e)
        | inr (u, i) => each ds' u i
        end
      else each ds' used idx
    end.

Lemma dfs_unfold f ns v used idx :
  dfs (S f) ns v used idx =
  match find_node ns v with
  | None => Ok (inl KeyNotFound)
  | Some vertex =>
    do r <- dfs_each f ns (ndeps vertex) (set_insert v used) idx;
    match r with
    | inl e => Ok (inl e)
    | inr (u, i) => Ok (inr (u, i ++ [v]))
    end
  end.
Proof. reflexivity. Qed.

Lemma dfs_zero ns v used idx : dfs O ns v used idx = Fuel.
Proof. reflexivity. Qed.

Lemma dfs_each_nil f ns used idx : dfs_each f ns [] used idx = Ok (inr (used, idx)).
Proof. reflexivity. Qed.

Lemma dfs_each_cons f ns d ds used idx :
  dfs_each f ns (d :: ds) used idx =
  if memz d used && negb (memz d idx) then Ok (inl CyclicReference)
  else if negb (memz d used) then
    do r <- dfs f ns d used idx;
    match r with
    | inl e => Ok (inl e)
    | inr (u, i) => dfs_each f ns ds u i
    end
  else dfs_each f ns ds used idx.
Proof. reflexivity. Qed.

(** * Success specification of dfs *)

Section Dfs.
Variable ns : list node.

Fixpoint deps_ok (pre l : list Z) : Prop :=
  match l with
  | [] => True
  | x :: r => (exists n, find_node ns x = Some n /\ forall d, In d (ndeps n) -> In d pre)
              /\ deps_ok (pre ++ [x]) r
  end.

Lemma deps_ok_app : forall la pre lb,
  deps_ok pre (la ++ lb) <-> deps_ok pre la /\ deps_ok (pre ++ la) lb.
Proof.
  induction la as [|x la IH]; intros pre lb.
  - cbn [app deps_ok]. rewrite app_nil_r. tauto.
  - cbn [app deps_ok]. rewrite IH. rewrite <- app_assoc. cbn [app]. tauto.
Qed.

Definition dspec (used idx u' i' l : list Z) : Prop :=
  i' = idx ++ l /\ NoDup l /\ (forall x, In x l -> ~ In x used) /\
  (forall x, In x u' <-> In x used \/ In x l) /\ deps_ok idx l.

Lemma dspec_refl used idx : dspec used idx used idx [].
Proof.
  unfold dspec. split; [symmetry; apply app_nil_r|]. split; [constructor|].
  split; [intros x []|]. split; [|exact I]. intro x. cbn [In]. tauto.
Qed.

Lemma dspec_trans used idx u1 i1 u' i' la lb :
  dspec used idx u1 i1 la -> dspec u1 i1 u' i' lb -> dspec used idx u' i' (la ++ lb).
Proof.
  intros (Hi1 & Hnda & Hda & Hua & Hoa) (Hi' & Hndb & Hdb & Hub & Hob).
  unfold dspec. split; [|split; [|split; [|split]]].
  - subst. rewrite app_assoc. reflexivity.
  - apply NoDup_app_intro; auto. intros x Hx Hxb. apply (Hdb x Hxb). apply Hua. right; exact Hx.
  - intros x Hx. apply in_app_iff in Hx. destruct Hx as [Hx|Hx]; [apply Hda; exact Hx|].
    intro Hu. apply (Hdb x Hx). apply Hua. left; exact Hu.
  - intros x. rewrite Hub, Hua, in_app_iff. tauto.
  - apply deps_ok_app. split; [exact Hoa|]. rewrite <- Hi1. exact Hob.
Qed.

Lemma each_succ f
  (IH : forall v used idx u' i', dfs f ns v used idx = Ok (inr (u', i')) -> ~ In v used ->
        exists l, dspec used idx u' i' l /\ In v l) :
  forall ds used idx u' i', dfs_each f ns ds used idx = Ok (inr (u', i')) ->
    exists l, dspec used idx u' i' l /\ forall d, In d ds -> In d (idx ++ l).
Proof.
  induction ds as [|d ds IHds]; intros used idx u' i' H.
  - rewrite dfs_each_nil in H. injection H as <- <-. exists [].
    split; [apply dspec_refl | intros d []].
  - rewrite dfs_each_cons in H.
    destruct (memz d used) eqn:Hu; destruct (memz d idx) eqn:Hi; cbn [andb negb] in H;
      try discriminate H.
    + apply IHds in H. destruct H as [l [Hs Hl]]. exists l. split; [exact Hs|].
      intros d' [<-|Hd']; [|apply Hl; exact Hd'].
      apply in_app_iff. left. apply memz_true_iff. exact Hi.
    + destruct (dfs f ns d used idx) as [[e|[u i]]| |] eqn:Hd; cbn [bind] in H;
        try discriminate H.
      apply IH in Hd; [|apply memz_false_iff; exact Hu]. destruct Hd as [la [Hsa Hla]].
      apply IHds in H. destruct H as [lb [Hsb Hlb]].
      exists (la ++ lb). split; [eapply dspec_trans; eassumption|].
      destruct Hsa as [Hi1 _]. subst i. rewrite <- app_assoc in Hlb.
      intros d' [<-|Hd']; [|apply Hlb; exact Hd'].
      rewrite !in_app_iff. right; left; exact Hla.
    + destruct (dfs f ns d used idx) as [[e|[u i]]| |] eqn:Hd; cbn [bind] in H;
        try discriminate H.
      apply IH in Hd; [|apply memz_false_iff; exact Hu]. destruct Hd as [la [Hsa Hla]].
      apply IHds in H. destruct H as [lb [Hsb Hlb]].
      exists (la ++ lb). split; [eapply dspec_trans; eassumption|].
      destruct Hsa as [Hi1 _]. subst i. rewrite <- app_assoc in Hlb.
      intros d' [<-|Hd']; [|apply Hlb; exact Hd'].
      rewrite !in_app_iff. right; left; exact Hla.
Qed.

Lemma dfs_succ : forall f v used idx u' i',
  dfs f ns v used idx = Ok (inr (u', i')) -> ~ In v used ->
  exists l, dspec used idx u' i' l /\ In v l.
Proof.
  induction f as [|f IHf]; intros v used idx u' i' H Hv.
  - rewrite dfs_zero in H. discriminate H.
  - rewrite dfs_unfold in H.
    destruct (find_node ns v) as [vertex|] eqn:Hf; [|discriminate H].
    destruct (dfs_each f ns (ndeps vertex) (set_insert v used) idx) as [[e|[u i]]| |] eqn:He;
      cbn [bind] in H; try discriminate H.
    injection H as <- <-.
    apply (each_succ f IHf) in He. destruct He as [l [Hs Hl]].
    destruct Hs as (Hi & Hnd & Hdis & Hu & Hok).
    exists (l ++ [v]). split; [|apply in_app_iff; right; left; reflexivity].
    unfold dspec. split; [|split; [|split; [|split]]].
    + subst i. rewrite app_assoc. reflexivity.
    + apply NoDup_app_intro; [exact Hnd|repeat constructor; intros []|].
      intros x Hx [Heq|[]]. subst x. apply (Hdis v Hx). apply set_insert_In. left; reflexivity.
    + intros x Hx. apply in_app_iff in Hx. destruct Hx as [Hx|[Heq|[]]]; [|subst x; exact Hv].
      intro Hxu. apply (Hdis x Hx). apply set_insert_In. right; exact Hxu.
    + intro x. rewrite Hu, set_insert_In, in_app_iff. cbn [In]. intuition (subst; auto).
    + apply deps_ok_app. split; [exact Hok|]. cbn [deps_ok]. split; [|exact I].
      exists vertex. split; [exact Hf|]. exact Hl.
Qed.


(** ** Fuel measure *)

Lemma flen_le {A} (f g : A -> bool) l :
  (forall x, In x l -> f x = true -> g x = true) ->
  (length (filter f l) <= length (filter g l))%nat.
Proof.
  induction l as [|a l IH]; intro H; [apply Nat.le_refl|].
  cbn [filter].
  assert (IH' : (length (filter f l) <= length (filter g l))%nat)
    by (apply IH; intros x Hx; apply H; right; exact Hx).
  destruct (f a) eqn:Hfa.
  - rewrite (H a (or_introl eq_refl) Hfa). cbn [length]. lia.
  - destruct (g a); cbn [length]; lia.
Qed.

Lemma flen_lt {A} (f g : A -> bool) l v :
  (forall x, In x l -> f x = true -> g x = true) -> In v l -> f v = false -> g v = true ->
  (length (filter f l) < length (filter g l))%nat.
Proof.
  induction l as [|a l IH]; intros H Hv Hfv Hgv; [destruct Hv|].
  cbn [filter].
  assert (Hle : (length (filter f l) <= length (filter g l))%nat)
    by (apply flen_le; intros x Hx; apply H; right; exact Hx).
  destruct Hv as [->|Hv].
  - rewrite Hfv, Hgv. cbn [length]. lia.
  - assert (IH' : (length (filter f l) < length (filter g l))%nat)
      by (apply IH; auto; intros x Hx; apply H; right; exact Hx).
    destruct (f a) eqn:Hfa.
    + rewrite (H a (or_introl eq_refl) Hfa). cbn [length]. lia.
    + destruct (g a); cbn [length]; lia.
Qed.

Lemma flen_all {A} (f : A -> bool) l : (length (filter f l) <= length l)%nat.
Proof.
  induction l as [|a l IH]; [apply Nat.le_refl|]. cbn [filter].
  destruct (f a); cbn [length]; lia.
Qed.

Definition cnt (used : list Z) : nat :=
  length (filter (fun x => negb (memz x used)) (map nid ns)).

Lemma cnt_mono used u : (forall x, In x used -> In x u) -> (cnt u <= cnt used)%nat.
Proof.
  intro H. unfold cnt. apply flen_le. intros x _ Hx.
  apply negb_true_iff in Hx. apply negb_true_iff.
  apply memz_false_iff in Hx. apply memz_false_iff. intro Hin. apply Hx. apply H. exact Hin.
Qed.

Lemma cnt_insert v used :
  In v (map nid ns) -> ~ In v used -> (cnt (set_insert v used) < cnt used)%nat.
Proof.
  intros Hv Hnu. unfold cnt. apply flen_lt with (v := v).
  - intros x _ Hx. apply negb_true_iff in Hx. apply negb_true_iff.
    apply memz_false_iff in Hx. apply memz_false_iff. intro Hin. apply Hx.
    apply set_insert_In. right; exact Hin.
  - exact Hv.
  - apply negb_false_iff. apply memz_true_iff. apply set_insert_In. left; reflexivity.
  - apply negb_true_iff. apply memz_false_iff. exact Hnu.
Qed.

Lemma cnt_le used : (cnt used <= length ns)%nat.
Proof. unfold cnt. rewrite <- (map_length nid ns). apply flen_all. Qed.

(** ** Totality (no Fuel, no Panic) *)

Lemma each_total f
  (IH : forall v used idx, ~ In v used -> (cnt used < f)%nat ->
        exists r, dfs f ns v used idx = Ok r) :
  forall ds used idx, (cnt used < f)%nat -> exists r, dfs_each f ns ds used idx = Ok r.
Proof.
  induction ds as [|d ds IHds]; intros used idx Hc.
  - rewrite dfs_each_nil. eexists; reflexivity.
  - rewrite dfs_each_cons.
    destruct (memz d used && negb (memz d idx)); [eexists; reflexivity|].
    destruct (memz d used) eqn:Hu; cbn [negb].
    + apply IHds; exact Hc.
    + apply memz_false_iff in Hu. destruct (IH d used idx Hu Hc) as [r Hr]. rewrite Hr.
      cbn [bind]. destruct r as [e|[u i]]; [eexists; reflexivity|].
      apply IHds. apply dfs_succ in Hr; [|exact Hu].
      destruct Hr as [l [(_ & _ & _ & Hu' & _) _]].
      assert (cnt u <= cnt used)%nat
        by (apply cnt_mono; intros x Hx; apply Hu'; left; exact Hx).
      lia.
Qed.

Lemma dfs_total : forall f v used idx, ~ In v used -> (cnt used < f)%nat ->
  exists r, dfs f ns v used idx = Ok r.
Proof.
  induction f as [|f IHf]; intros v used idx Hv Hc; [lia|].
  rewrite dfs_unfold.
  destruct (find_node ns v) as [vertex|] eqn:Hf; [|eexists; reflexivity].
  assert (Hin : In v (map nid ns)).
  { apply find_node_Some in Hf. destruct Hf as [Hin <-]. apply in_map. exact Hin. }
  pose proof (cnt_insert v used Hin Hv) as Hlt.
  destruct (each_total f IHf (ndeps vertex) (set_insert v used) idx) as [r Hr]; [lia|].
  rewrite Hr. cbn [bind]. destruct r as [e|[u i]]; eexists; reflexivity.
Qed.

(** ** KeyNotFound *)

Definition missing_dep : Prop :=
  exists n d, In n ns /\ In d (ndeps n) /\ ~ In d (map nid ns).

Lemma each_knf f
  (IH : forall v used idx, dfs f ns v used idx = Ok (inl KeyNotFound) ->
        ~ In v (map nid ns) \/ missing_dep) :
  forall ds used idx, dfs_each f ns ds used idx = Ok (inl KeyNotFound) ->
    (exists d, In d ds /\ ~ In d (map nid ns)) \/ missing_dep.
Proof.
  induction ds as [|d ds IHds]; intros used idx H.
  - rewrite dfs_each_nil in H. discriminate H.
  - rewrite dfs_each_cons in H.
    destruct (memz d used && negb (memz d idx)); [discriminate H|].
    assert (Hrest : forall u i, dfs_each f ns ds u i = Ok (inl KeyNotFound) ->
              (exists d0, In d0 (d :: ds) /\ ~ In d0 (map nid ns)) \/ missing_dep).
    { intros u i Hui. apply IHds in Hui. destruct Hui as [[d0 [Hd0 Hn0]]|Hm]; [left|right; exact Hm].
      exists d0. split; [right; exact Hd0|exact Hn0]. }
    destruct (negb (memz d used)); [|eapply Hrest; exact H].
    destruct (dfs f ns d used idx) as [[e|[u i]]| |] eqn:Hd; cbn [bind] in H;
      try discriminate H.
    + injection H as ->. apply IH in Hd. destruct Hd as [Hd|Hm]; [left|right; exact Hm].
      exists d. split; [left; reflexivity|exact Hd].
    + eapply Hrest; exact H.
Qed.

Lemma dfs_knf : forall f v used idx, dfs f ns v used idx = Ok (inl KeyNotFound) ->
  ~ In v (map nid ns) \/ missing_dep.
Proof.
  induction f as [|f IHf]; intros v used idx H.
  - rewrite dfs_zero in H. discriminate H.
  - rewrite dfs_unfold in H.
    destruct (find_node ns v) as [vertex|] eqn:Hf.
    + destruct (dfs_each f ns (ndeps vertex) (set_insert v used) idx) as [[e|[u i]]| |] eqn:He;
        cbn [bind] in H; try discriminate H.
      injection H as ->. apply (each_knf f IHf) in He.
      destruct He as [[d [Hd Hn]]|Hm]; [|right; exact Hm].
      right. exists vertex, d. apply find_node_Some in Hf. destruct Hf as [Hin _]. auto.
    + left. apply find_node_None. exact Hf.
Qed.

(** ** CyclicReference *)

Lemma reach_snoc E a b c : reach E a b -> In (b, c) E -> reach E a c.
Proof.
  intros H Hbc. induction H as [a b Hab|a m b Ham Hmb IH].
  - eapply reach_step; [exact Hab|]. apply reach_edge. exact Hbc.
  - eapply reach_step; [exact Ham|]. apply IH. exact Hbc.
Qed.

Definition has_loop : Prop := exists a, reach (edges_of ns) a a.

Lemma each_cyc f
  (IH : forall v used idx stk, dfs f ns v used idx = Ok (inl CyclicReference) ->
        ~ In v used ->
        (forall x, In x used -> ~ In x idx -> In x stk) ->
        (forall x, In x stk -> reach (edges_of ns) x v) -> has_loop) :
  forall ds used idx stk v, dfs_each f ns ds used idx = Ok (inl CyclicReference) ->
    (forall x, In x used -> ~ In x idx -> In x stk) ->
    (forall x, In x stk -> x = v \/ reach (edges_of ns) x v) ->
    (forall d, In d ds -> In (v, d) (edges_of ns)) -> has_loop.
Proof.
  induction ds as [|d ds IHds]; intros used idx stk v H Hstk Hreach Hedge.
  - rewrite dfs_each_nil in H. discriminate H.
  - rewrite dfs_each_cons in H.
    assert (Hvd : In (v, d) (edges_of ns)) by (apply Hedge; left; reflexivity).
    assert (Hedge' : forall d0, In d0 ds -> In (v, d0) (edges_of ns))
      by (intros d0 Hd0; apply Hedge; right; exact Hd0).
    destruct (memz d used) eqn:Hu; destruct (memz d idx) eqn:Hi; cbn [andb negb] in H.
    + eapply IHds; eassumption.
    + apply memz_true_iff in Hu. apply memz_false_iff in Hi.
      destruct (Hreach d (Hstk d Hu Hi)) as [->|Hr].
      * exists v. apply reach_edge. exact Hvd.
      * exists d. eapply reach_snoc; eassumption.
    + apply memz_false_iff in Hu.
      destruct (dfs f ns d used idx) as [[e|[u i]]| |] eqn:Hd; cbn [bind] in H;
        try discriminate H.
      * injection H as ->. apply (IH d used idx stk Hd Hu Hstk).
        intros x Hx. destruct (Hreach x Hx) as [->|Hr].
        -- apply reach_edge. exact Hvd.
        -- eapply reach_snoc; eassumption.
      * apply dfs_succ in Hd; [|exact Hu]. destruct Hd as [l [(Hi1 & _ & _ & Hu1 & _) _]].
        apply (IHds u i stk v H); [|exact Hreach|exact Hedge'].
        intros x Hxu Hxi. apply Hu1 in Hxu. subst i. rewrite in_app_iff in Hxi.
        destruct Hxu as [Hxu|Hxl]; [|exfalso; apply Hxi; right; exact Hxl].
        apply Hstk; [exact Hxu|]. intro Hx. apply Hxi. left; exact Hx.
    + apply memz_false_iff in Hu.
      destruct (dfs f ns d used idx) as [[e|[u i]]| |] eqn:Hd; cbn [bind] in H;
        try discriminate H.
      * injection H as ->. apply (IH d used idx stk Hd Hu Hstk).
        intros x Hx. destruct (Hreach x Hx) as [->|Hr].
        -- apply reach_edge. exact Hvd.
        -- eapply reach_snoc; eassumption.
      * apply dfs_succ in Hd; [|exact Hu]. destruct Hd as [l [(Hi1 & _ & _ & Hu1 & _) _]].
        apply (IHds u i stk v H); [|exact Hreach|exact Hedge'].
        intros x Hxu Hxi. apply Hu1 in Hxu. subst i. rewrite in_app_iff in Hxi.
        destruct Hxu as [Hxu|Hxl]; [|exfalso; apply Hxi; right; exact Hxl].
        apply Hstk; [exact Hxu|]. intro Hx. apply Hxi. left; exact Hx.
Qed.

Lemma dfs_cyc : forall f v used idx stk, dfs f ns v used idx = Ok (inl CyclicReference) ->
  ~ In v used ->
  (forall x, In x used -> ~ In x idx -> In x stk) ->
  (forall x, In x stk -> reach (edges_of ns) x v) -> has_loop.
Proof.
  induction f as [|f IHf]; intros v used idx stk H Hv Hstk Hreach.
  - rewrite dfs_zero in H. discriminate H.
  - rewrite dfs_unfold in H.
    destruct (find_node ns v) as [vertex|] eqn:Hf; [|discriminate H].
    destruct (dfs_each f ns (ndeps vertex) (set_insert v used) idx) as [[e|[u i]]| |] eqn:He;
      cbn [bind] in H; try discriminate H.
    injection H as ->.
    apply (each_cyc f IHf _ _ _ (v :: stk) v He).
    + intros x Hx Hxi. apply set_insert_In in Hx. destruct Hx as [->|Hx]; [left; reflexivity|].
      right. apply Hstk; assumption.
    + intros x [<-|Hx]; [left; reflexivity|right; apply Hreach; exact Hx].
    + intros d Hd. apply edges_of_In. exists vertex. apply find_node_Some in Hf.
      destruct Hf as [Hin Hid]. auto.
Qed.

(** ** The outer loop *)

Definition Inv (used idx : list Z) : Prop :=
  (forall x, In x used <-> In x idx) /\ NoDup idx /\ deps_ok [] idx.

Lemma Inv_nil : Inv [] [].
Proof. split; [intro x; tauto|]. split; [constructor|exact I]. Qed.

Lemma Inv_step F v used idx u i :
  Inv used idx -> ~ In v used -> dfs F ns v used idx = Ok (inr (u, i)) ->
  Inv u i /\ In v i /\ (forall x, In x idx -> In x i).
Proof.
  intros (Hui & Hnd & Hok) Hv H. apply dfs_succ in H; [|exact Hv].
  destruct H as [l [(Hi & Hndl & Hdis & Hu & Hokl) Hvl]]. subst i.
  split; [|split].
  - split; [|split].
    + intro x. rewrite Hu, in_app_iff, Hui. tauto.
    + apply NoDup_app_intro; [exact Hnd|exact Hndl|].
      intros x Hx Hxl. apply (Hdis x Hxl). apply Hui. exact Hx.
    + apply deps_ok_app. split; [exact Hok|]. cbn [app]. exact Hokl.
  - apply in_app_iff. right; exact Hvl.
  - intros x Hx. apply in_app_iff. left; exact Hx.
Qed.

Lemma tsort_loop_ok F : forall todo used idx idx',
  Inv used idx -> tsort_loop F ns todo used idx = Ok (inr idx') ->
  (NoDup idx' /\ deps_ok [] idx') /\ (forall x, In x idx -> In x idx') /\
  (forall n, In n todo -> In (nid n) idx').
Proof.
  induction todo as [|v rest IH]; intros used idx idx' HI H; cbn [tsort_loop] in H.
  - injection H as <-. destruct HI as (_ & Hnd & Hok).
    split; [split; assumption|]. split; [auto|intros n []].
  - destruct (memz (nid v) used) eqn:Hm.
    + apply (IH _ _ _ HI) in H. destruct H as (Hfin & Hmono & Hall).
      split; [exact Hfin|]. split; [exact Hmono|].
      intros n [<-|Hn]; [|apply Hall; exact Hn].
      apply Hmono. apply HI. apply memz_true_iff. exact Hm.
    + apply memz_false_iff in Hm.
      destruct (dfs F ns (nid v) used idx) as [[e|[u i]]| |] eqn:Hd; cbn [bind] in H;
        try discriminate H.
      destruct (Inv_step _ _ _ _ _ _ HI Hm Hd) as (HI' & Hvi & Hsub).
      apply (IH _ _ _ HI') in H. destruct H as (Hfin & Hmono & Hall).
      split; [exact Hfin|]. split; [intros x Hx; apply Hmono; apply Hsub; exact Hx|].
      intros n [<-|Hn]; [|apply Hall; exact Hn].
      apply Hmono. exact Hvi.
Qed.

Lemma tsort_loop_knf F : forall todo used idx,
  incl todo ns -> tsort_loop F ns todo used idx = Ok (inl KeyNotFound) -> missing_dep.
Proof.
  induction todo as [|v rest IH]; intros used idx Hincl H; cbn [tsort_loop] in H.
  - discriminate H.
  - assert (Hincl' : incl rest ns) by (intros x Hx; apply Hincl; right; exact Hx).
    destruct (memz (nid v) used); [eapply IH; eassumption|].
    destruct (dfs F ns (nid v) used idx) as [[e|[u i]]| |] eqn:Hd; cbn [bind] in H;
      try discriminate H.
    + injection H as ->. apply dfs_knf in Hd. destruct Hd as [Hd|Hm]; [|exact Hm].
      exfalso. apply Hd. apply in_map. apply Hincl. left; reflexivity.
    + eapply IH; eassumption.
Qed.

Lemma tsort_loop_cyc F : forall todo used idx,
  Inv used idx -> tsort_loop F ns todo used idx = Ok (inl CyclicReference) -> has_loop.
Proof.
  induction todo as [|v rest IH]; intros used idx HI H; cbn [tsort_loop] in H.
  - discriminate H.
  - destruct (memz (nid v) used) eqn:Hm; [eapply IH; eassumption|].
    apply memz_false_iff in Hm.
    destruct (dfs F ns (nid v) used idx) as [[e|[u i]]| |] eqn:Hd; cbn [bind] in H;
      try discriminate H.
    + injection H as ->. apply (dfs_cyc _ _ _ _ [] Hd Hm).
      * intros x Hx Hxi. exfalso. apply Hxi. apply HI. exact Hx.
      * intros x [].
    + destruct (Inv_step _ _ _ _ _ _ HI Hm Hd) as (HI' & _ & _).
      eapply IH; eassumption.
Qed.

Lemma tsort_loop_total : forall todo used idx,
  exists r, tsort_loop (S (S (length ns))) ns todo used idx = Ok r.
Proof.
  induction todo as [|v rest IH]; intros used idx; cbn [tsort_loop].
  - eexists; reflexivity.
  - destruct (memz (nid v) used) eqn:Hm; [apply IH|].
    apply memz_false_iff in Hm.
    destruct (dfs_total (S (S (length ns))) (nid v) used idx Hm) as [r Hr].
    { pose proof (cnt_le used). lia. }
    rewrite Hr. cbn [bind]. destruct r as [e|[u i]]; [eexists; reflexivity|apply IH].
Qed.

End Dfs.

(** * position / keyed / insertion sort *)

Lemma position_In v l : In v l -> exists k, position v l = Some k.
Proof.
  induction l as [|x r IH]; intros H; [destruct H|]. cbn [position].
  destruct (Z.eqb x v) eqn:He; [eexists; reflexivity|].
  destruct H as [->|H]; [rewrite Z.eqb_refl in He; discriminate He|].
  destruct (IH H) as [k Hk]. rewrite Hk. eexists; reflexivity.
Qed.

Lemma position_None_iff v l : position v l = None <-> ~ In v l.
Proof.
  split.
  - intros H Hin. apply position_In in Hin. destruct Hin as [k Hk]. congruence.
  - induction l as [|x r IH]; intro H; [reflexivity|]. cbn [position].
    destruct (Z.eqb x v) eqn:He.
    + exfalso. apply H. left. apply Z.eqb_eq. exact He.
    + rewrite IH; [reflexivity|]. intro Hin. apply H. right; exact Hin.
Qed.

Lemma position_app_notin x l1 l2 :
  ~ In x l1 -> position x (l1 ++ x :: l2) = Some (length l1).
Proof.
  induction l1 as [|a l1 IH]; intro H; cbn [app position length].
  - rewrite Z.eqb_refl. reflexivity.
  - destruct (Z.eqb a x) eqn:He.
    + exfalso. apply H. left. apply Z.eqb_eq. exact He.
    + rewrite IH; [reflexivity|]. intro Hin. apply H. right; exact Hin.
Qed.

Lemma position_app_in d l1 l2 :
  In d l1 -> exists k, position d (l1 ++ l2) = Some k /\ (k < length l1)%nat.
Proof.
  induction l1 as [|a l1 IH]; intro H; [destruct H|]. cbn [app position length].
  destruct (Z.eqb a d) eqn:He.
  - exists O. split; [reflexivity|lia].
  - destruct H as [->|H]; [rewrite Z.eqb_refl in He; discriminate He|].
    destruct (IH H) as [k [Hk Hlt]]. rewrite Hk. exists (S k). split; [reflexivity|lia].
Qed.

Lemma first_split (a : Z) l : In a l -> exists l1 l2, l = l1 ++ a :: l2 /\ ~ In a l1.
Proof.
  induction l as [|x r IH]; intro H; [destruct H|].
  destruct (Z.eq_dec x a) as [->|Hne].
  - exists [], r. split; [reflexivity|intros []].
  - destruct H as [H|H]; [contradiction|].
    destruct (IH H) as [l1 [l2 [-> Hn]]]. exists (x :: l1), l2. split; [reflexivity|].
    intros [Hx|Hx]; [contradiction|exact (Hn Hx)].
Qed.

Lemma keyed_no_fuel ns idx : keyed ns idx <> Fuel.
Proof.
  induction ns as [|n r IH]; cbn [keyed]; [discriminate|].
  destruct (position (nid n) idx); [|discriminate].
  destruct (keyed r idx); cbn [bind]; try discriminate. exact IH.
Qed.

Lemma keyed_ok ns idx : (forall n, In n ns -> In (nid n) idx) -> exists ks, keyed ns idx = Ok ks.
Proof.
  induction ns as [|n r IH]; intro H; cbn [keyed]; [eexists; reflexivity|].
  destruct (position_In (nid n) idx) as [k Hk]; [apply H; left; reflexivity|].
  rewrite Hk. destruct IH as [ks Hks]; [intros m Hm; apply H; right; exact Hm|].
  rewrite Hks. cbn [bind]. eexists; reflexivity.
Qed.

Lemma keyed_spec idx : forall ns ks, keyed ns idx = Ok ks ->
  map snd ks = ns /\ forall k n, In (k, n) ks -> position (nid n) idx = Some k.
Proof.
  induction ns as [|n r IH]; intros ks H; cbn [keyed] in H.
  - injection H as <-. split; [reflexivity|intros k n []].
  - destruct (position (nid n) idx) as [k0|] eqn:Hp; [|discriminate H].
    destruct (keyed r idx) as [kr| |] eqn:Hk; cbn [bind] in H; try discriminate H.
    injection H as <-. destruct (IH kr eq_refl) as [Hm Hpos].
    split; [cbn [map snd]; rewrite Hm; reflexivity|].
    intros k m [Heq|Hin]; [injection Heq as <- <-; exact Hp|apply Hpos; exact Hin].
Qed.

Definition key_le (a b : nat * node) : Prop := (fst a <= fst b)%nat.
Definition isort (ks : list (nat * node)) : list (nat * node) :=
  fold_right (fun kn acc => insert_by (fst kn) (snd kn) acc) [] ks.

Lemma insert_by_perm k n l : Permutation (insert_by k n l) ((k, n) :: l).
Proof.
  induction l as [|[k' n'] r IH]; cbn [insert_by]; [apply Permutation_refl|].
  destruct (Nat.leb k' k).
  - eapply Permutation_trans; [apply perm_skip; exact IH|apply perm_swap].
  - apply Permutation_refl.
Qed.

Lemma insert_by_sorted k n l :
  StronglySorted key_le l -> StronglySorted key_le (insert_by k n l).
Proof.
  induction l as [|[k' n'] r IH]; intro H; cbn [insert_by].
  - constructor; [constructor|constructor].
  - inversion H as [|? ? Hr Hall]; subst.
    destruct (Nat.leb k' k) eqn:Hle.
    + apply Nat.leb_le in Hle. constructor; [apply IH; exact Hr|].
      apply Forall_forall. intros p Hp.
      apply (Permutation_in _ (insert_by_perm k n r)) in Hp.
      destruct Hp as [<-|Hp]; [unfold key_le; cbn [fst]; exact Hle|].
      rewrite Forall_forall in Hall. apply Hall. exact Hp.
    + apply Nat.leb_gt in Hle. constructor; [exact H|].
      constructor; [unfold key_le; cbn [fst]; lia|].
      rewrite Forall_forall in Hall. apply Forall_forall. intros p Hp.
      specialize (Hall p Hp). unfold key_le in *. cbn [fst] in *. lia.
Qed.

Lemma isort_perm ks : Permutation (isort ks) ks.
Proof.
  induction ks as [|[k n] r IH]; cbn [isort fold_right fst snd]; [constructor|].
  eapply Permutation_trans; [apply insert_by_perm|]. apply perm_skip. exact IH.
Qed.

Lemma isort_sorted ks : StronglySorted key_le (isort ks).
Proof.
  induction ks as [|[k n] r IH]; cbn [isort fold_right fst snd]; [constructor|].
  apply insert_by_sorted. exact IH.
Qed.

Lemma NoDup_map_inj {A B} (f : A -> B) l a b :
  NoDup (map f l) -> In a l -> In b l -> f a = f b -> a = b.
Proof.
  induction l as [|x l IH]; intros Hnd Ha Hb Hf; [destruct Ha|].
  cbn [map] in Hnd. inversion Hnd as [|? ? Hx Hnd']; subst.
  destruct Ha as [->|Ha]; destruct Hb as [->|Hb].
  - reflexivity.
  - exfalso. apply Hx. rewrite Hf. apply in_map. exact Hb.
  - exfalso. apply Hx. rewrite <- Hf. apply in_map. exact Ha.
  - apply IH; assumption.
Qed.

(** * Order facts from deps_ok *)

Lemma deps_ok_find ns : forall l pre x, deps_ok ns pre l -> In x l ->
  exists y, find_node ns x = Some y.
Proof.
  induction l as [|a l IH]; intros pre x H Hin; [destruct Hin|].
  cbn [deps_ok] in H. destruct H as [[n [Hn _]] Hr].
  destruct Hin as [<-|Hin]; [exists n; exact Hn|]. eapply IH; eassumption.
Qed.

Lemma deps_order ns idx x n d :
  NoDup idx -> deps_ok ns [] idx -> find_node ns x = Some n -> In d (ndeps n) -> In x idx ->
  exists kx kd y, position x idx = Some kx /\ position d idx = Some kd /\ (kd < kx)%nat /\
                  find_node ns d = Some y.
Proof.
  intros Hnd Hok Hf Hd Hx.
  apply in_split in Hx. destruct Hx as [l1 [l2 ->]].
  pose proof Hok as Hok0.
  apply deps_ok_app in Hok. destruct Hok as [Hok1 Hok2]. cbn [app deps_ok] in Hok2.
  destruct Hok2 as [[n' [Hn' Hdeps]] _]. rewrite Hf in Hn'. injection Hn' as <-.
  specialize (Hdeps d Hd).
  apply NoDup_remove_2 in Hnd.
  assert (Hx1 : ~ In x l1) by (intro Hin; apply Hnd; apply in_app_iff; left; exact Hin).
  destruct (position_app_in d l1 (x :: l2) Hdeps) as [kd [Hkd Hlt]].
  destruct (deps_ok_find ns _ _ d Hok1 Hdeps) as [y Hy].
  exists (length l1), kd, y. split; [apply position_app_notin; exact Hx1|].
  split; [exact Hkd|]. split; [exact Hlt|exact Hy].
Qed.

Lemma before_all_sorted E : forall ks seen,
  StronglySorted key_le ks ->
  (forall k x d, In (k, x) ks -> In d (succs E (nid x)) ->
     In d seen \/ exists k' y, In (k', y) ks /\ nid y = d /\ (k' < k)%nat) ->
  before_all (map nid (map snd ks)) E seen = true.
Proof.
  induction ks as [|[ka xa] r IH]; intros seen Hs Hc; [reflexivity|].
  cbn [map snd before_all]. inversion Hs as [|? ? Hsr Hall]; subst.
  rewrite Forall_forall in Hall.
  apply andb_true_intro. split.
  - apply forallb_forall. intros d Hd. apply memz_true_iff.
    destruct (Hc ka xa d (or_introl eq_refl) Hd) as [Hseen|[k' [y [Hin [Hy Hlt]]]]];
      [exact Hseen|exfalso].
    destruct Hin as [Heq|Hin].
    + injection Heq as <- <-. lia.
    + specialize (Hall _ Hin). unfold key_le in Hall. cbn [fst] in Hall. lia.
  - apply IH; [exact Hsr|]. intros k x d Hin Hd.
    destruct (Hc k x d (or_intror Hin) Hd) as [Hseen|[k' [y [Hin' [Hy Hlt]]]]].
    + left. apply in_app_iff. left; exact Hseen.
    + destruct Hin' as [Heq|Hin'].
      * injection Heq as <- <-. left. apply in_app_iff. right. left. exact Hy.
      * right. exists k', y. auto.
Qed.

(** * Main theorems *)

Lemma tsort_no_fuel : forall ns, tsort ns <> Fuel.
Proof.
  intros ns H. unfold tsort in H.
  destruct (tsort_loop_total ns ns [] []) as [r Hr]. rewrite Hr in H. cbn [bind] in H.
  destruct r as [e|idx]; [discriminate H|].
  unfold reorder_by_key in H.
  destruct (keyed ns idx) as [ks| |] eqn:Hk; cbn [bind] in H; try discriminate H.
  exact (keyed_no_fuel _ _ Hk).
Qed.

Lemma tsort_ok_idx : forall ns idx,
  tsort_loop (S (S (length ns))) ns ns [] [] = Ok (inr idx) ->
  forall n, In n ns -> In (nid n) idx.
Proof.
  intros ns idx H. apply (tsort_loop_ok ns _ _ _ _ _ (Inv_nil ns)) in H.
  destruct H as (_ & _ & Hall). exact Hall.
Qed.

Lemma tsort_no_panic : forall ns, tsort ns <> Panic.
Proof.
  intros ns H. unfold tsort in H.
  destruct (tsort_loop_total ns ns [] []) as [r Hr]. rewrite Hr in H. cbn [bind] in H.
  destruct r as [e|idx]; [discriminate H|].
  unfold reorder_by_key in H.
  destruct (keyed_ok ns idx (tsort_ok_idx ns idx Hr)) as [ks Hks].
  rewrite Hks in H. cbn [bind] in H. discriminate H.
Qed.

Lemma tsort_sound : forall ns s, NoDup (map nid ns) -> tsort ns = Ok (inr s) ->
  Permutation s ns /\ before_all (map nid s) (edges_of ns) [] = true.
Proof.
  intros ns s Hnd H. unfold tsort in H.
  destruct (tsort_loop (S (S (length ns))) ns ns [] []) as [[e|idx]| |] eqn:Hl;
    cbn [bind] in H; try discriminate H.
  unfold reorder_by_key in H.
  destruct (keyed ns idx) as [ks| |] eqn:Hk; cbn [bind] in H; try discriminate H.
  injection H as <-. fold (isort ks).
  destruct (keyed_spec idx ns ks Hk) as [Hmap Hpos].
  pose proof (tsort_ok_idx ns idx Hl) as Hall.
  apply (tsort_loop_ok ns _ _ _ _ _ (Inv_nil ns)) in Hl.
  destruct Hl as ((Hndi & Hok) & _ & _).
  split.
  - rewrite <- Hmap. apply Permutation_map. apply isort_perm.
  - apply before_all_sorted; [apply isort_sorted|].
    intros k x d Hin Hd. right.
    apply (Permutation_in _ (isort_perm ks)) in Hin.
    assert (Hx : In x ns) by (rewrite <- Hmap; apply (in_map snd _ _ Hin)).
    apply succs_In in Hd. apply edges_of_In in Hd. destruct Hd as [n [Hn [Hid Hdn]]].
    assert (n = x) by (eapply NoDup_map_inj; eassumption). subst n.
    destruct (find_node_In ns (nid x)) as [x' Hx']; [apply in_map; exact Hx|].
    pose proof (find_node_Some _ _ _ Hx') as [Hx'in Hx'id].
    assert (x' = x) by (eapply NoDup_map_inj; eassumption). subst x'.
    destruct (deps_order ns idx (nid x) x d Hndi Hok Hx' Hdn (Hall x Hx))
      as [kx [kd [y (Hkx & Hkd & Hlt & Hy)]]].
    apply find_node_Some in Hy. destruct Hy as [Hyin Hyid].
    rewrite (Hpos k x Hin) in Hkx. injection Hkx as <-.
    rewrite <- Hmap in Hyin. apply in_map_iff in Hyin. destruct Hyin as [[k' y'] [Hs Hyin]].
    cbn [snd] in Hs. subst y'.
    pose proof (Hpos k' y Hyin) as Hk'. rewrite Hyid, Hkd in Hk'. injection Hk' as <-.
    exists kd, y. split; [|split; [exact Hyid|exact Hlt]].
    apply (Permutation_in _ (Permutation_sym (isort_perm ks))). exact Hyin.
Qed.

Lemma tsort_inl ns e : tsort ns = Ok (inl e) ->
  tsort_loop (S (S (length ns))) ns ns [] [] = Ok (inl e).
Proof.
  intro H. unfold tsort in H.
  destruct (tsort_loop (S (S (length ns))) ns ns [] []) as [[e'|idx]| |] eqn:Hl;
    cbn [bind] in H; try discriminate H.
  - injection H as ->. reflexivity.
  - unfold reorder_by_key in H.
    destruct (keyed ns idx) as [ks| |]; cbn [bind] in H; discriminate H.
Qed.

Lemma tsort_err_keynotfound : forall ns, tsort ns = Ok (inl KeyNotFound) ->
  exists n d, In n ns /\ In d (ndeps n) /\ ~ In d (map nid ns).
Proof.
  intros ns H. apply tsort_inl in H.
  apply (tsort_loop_knf ns _ ns [] [] (incl_refl ns) H).
Qed.

Lemma tsort_err_cyclic : forall ns, tsort ns = Ok (inl CyclicReference) ->
  exists a, reach (edges_of ns) a a.
Proof.
  intros ns H. apply tsort_inl in H.
  apply (tsort_loop_cyc ns _ ns [] [] (Inv_nil ns) H).
Qed.

(** * before_all implies acyclic *)

Lemma before_all_split E : forall l1 x l2 seen,
  before_all (l1 ++ x :: l2) E seen = true ->
  forall d, In d (succs E x) -> In d (seen ++ l1).
Proof.
  induction l1 as [|a l1 IH]; intros x l2 seen H d Hd; cbn [app before_all] in H;
    apply andb_prop in H; destruct H as [H1 H2].
  - rewrite app_nil_r. rewrite forallb_forall in H1. apply memz_true_iff. apply H1. exact Hd.
  - specialize (IH x l2 (seen ++ [a]) H2 d Hd). rewrite <- app_assoc in IH. exact IH.
Qed.

Lemma before_all_rank ns s :
  Permutation s ns -> before_all (map nid s) (edges_of ns) [] = true ->
  forall a b, In (a, b) (edges_of ns) ->
  exists ka kb, position a (map nid s) = Some ka /\ position b (map nid s) = Some kb /\
                (kb < ka)%nat.
Proof.
  intros Hp Hb a b Hab.
  assert (Ha : In a (map nid s)).
  { apply edges_of_In in Hab. destruct Hab as [n [Hn [<- _]]]. apply in_map.
    apply (Permutation_in _ (Permutation_sym Hp)). exact Hn. }
  destruct (first_split a _ Ha) as [l1 [l2 [Heq Hn1]]]. rewrite Heq in Hb |- *.
  pose proof (before_all_split _ _ _ _ _ Hb b (proj2 (succs_In _ _ _) Hab)) as Hbl.
  cbn [app] in Hbl.
  destruct (position_app_in b l1 (a :: l2) Hbl) as [kb [Hkb Hlt]].
  exists (length l1), kb. split; [apply position_app_notin; exact Hn1|]. auto.
Qed.

Lemma before_all_acyclic : forall ns s, Permutation s ns ->
  before_all (map nid s) (edges_of ns) [] = true -> acyclic (edges_of ns).
Proof.
  intros ns s Hp Hb.
  assert (Hr : forall a b, reach (edges_of ns) a b ->
    exists ka kb, position a (map nid s) = Some ka /\ position b (map nid s) = Some kb /\
                  (kb < ka)%nat).
  { intros a b H. induction H as [a b Hab|a c b Hac Hcb IH].
    - eapply before_all_rank; eassumption.
    - destruct (before_all_rank ns s Hp Hb a c Hac) as [ka [kc (Hka & Hkc & Hlt)]].
      destruct IH as [kc' [kb (Hkc' & Hkb & Hlt')]].
      rewrite Hkc in Hkc'. injection Hkc' as <-.
      exists ka, kb. split; [exact Hka|]. split; [exact Hkb|lia]. }
  intros a Ha. destruct (Hr a a Ha) as [ka [kb (Hka & Hkb & Hlt)]].
  rewrite Hka in Hkb. injection Hkb as <-. lia.
Qed.

Lemma tsort_complete : forall ns, acyclic (edges_of ns) ->
  (forall n d, In n ns -> In d (ndeps n) -> In d (map nid ns)) ->
  exists s, tsort ns = Ok (inr s).
Proof.
  intros ns Hac Hcl.
  destruct (tsort ns) as [[[|]|s]| |] eqn:H.
  - exfalso. apply tsort_err_cyclic in H. destruct H as [a Ha]. exact (Hac a Ha).
  - exfalso. apply tsort_err_keynotfound in H. destruct H as [n [d (Hn & Hd & Hnot)]].
    exact (Hnot (Hcl n d Hn Hd)).
  - exists s. reflexivity.
  - exfalso. exact (tsort_no_panic ns H).
  - exfalso. exact (tsort_no_fuel ns H).
Qed.
