(** C21 — basic set/list facts and the executable reachability judge *)
From Coq Require Import ZArith List Bool Arith Lia.
From ErgV Require Import Graph.Model Graph.Spec.
Import ListNotations.
Open Scope Z_scope.

(** * Sets as lists *)

Lemma memz_In : forall x l, memz x l = true <-> In x l.
Proof.
  intros x l. unfold memz. rewrite existsb_exists. split.
  - intros [y [Hin Heq]]. apply Z.eqb_eq in Heq. subst y. exact Hin.
  - intros Hin. exists x. split; [exact Hin | apply Z.eqb_refl].
Qed.

Lemma memz_false : forall x l, memz x l = false <-> ~ In x l.
Proof.
  intros x l. split.
  - intros Hm Hin. apply memz_In in Hin. congruence.
  - intros Hn. destruct (memz x l) eqn:Hm; [|reflexivity].
    apply memz_In in Hm. contradiction.
Qed.

Lemma set_insert_In : forall x y l, In y (set_insert x l) <-> y = x \/ In y l.
Proof.
  intros x y l. unfold set_insert. destruct (memz x l) eqn:Hm.
  - apply memz_In in Hm. split.
    + intros H. right. exact H.
    + intros [H|H]; [subst y; exact Hm | exact H].
  - rewrite in_app_iff. cbn [In]. split.
    + intros [H|[H|[]]]; [right; exact H | left; symmetry; exact H].
    + intros [H|H]; [right; left; symmetry; exact H | left; exact H].
Qed.

Lemma set_remove_In : forall x y l, In y (set_remove x l) <-> In y l /\ y <> x.
Proof.
  intros x y l. unfold set_remove. rewrite filter_In.
  rewrite negb_true_iff, Z.eqb_neq. reflexivity.
Qed.

Lemma meme_In : forall e l, meme e l = true <-> In e l.
Proof.
  intros e l. unfold meme. rewrite existsb_exists. split.
  - intros [y [Hin Heq]]. unfold edge_eqb in Heq.
    apply andb_true_iff in Heq. destruct Heq as [H1 H2].
    apply Z.eqb_eq in H1. apply Z.eqb_eq in H2.
    destruct e as [e1 e2]. destruct y as [y1 y2]. cbn [fst snd] in H1, H2.
    subst y1 y2. exact Hin.
  - intros Hin. exists e. split; [exact Hin|].
    unfold edge_eqb. rewrite !Z.eqb_refl. reflexivity.
Qed.

Lemma succs_In : forall E a b, In b (succs E a) <-> In (a, b) E.
Proof.
  intros E a b. unfold succs. rewrite in_map_iff. split.
  - intros [[p q] [Hs Hf]]. apply filter_In in Hf. destruct Hf as [Hin Heq].
    cbn [fst snd] in Hs, Heq. apply Z.eqb_eq in Heq. subst p q. exact Hin.
  - intros Hin. exists (a, b). split; [reflexivity|].
    apply filter_In. split; [exact Hin|]. cbn [fst]. apply Z.eqb_refl.
Qed.

(** * Reachability *)

Lemma reach_trans : forall E a b c, reach E a b -> reach E b c -> reach E a c.
Proof.
  intros E a b c Hab. revert c.
  induction Hab as [a b Hin | a d b Hin Hdb IH]; intros c Hbc.
  - eapply reach_step; [exact Hin | exact Hbc].
  - eapply reach_step; [exact Hin | apply IH; exact Hbc].
Qed.

Lemma reach_snoc : forall E a c b, reach E a c -> In (c, b) E -> reach E a b.
Proof.
  intros E a c b Hac Hin. eapply reach_trans; [exact Hac|].
  apply reach_edge. exact Hin.
Qed.

Lemma reach_mono : forall E E' a b, incl E E' -> reach E a b -> reach E' a b.
Proof.
  intros E E' a b Hincl Hab.
  induction Hab as [a b Hin | a d b Hin Hdb IH].
  - apply reach_edge. apply Hincl. exact Hin.
  - eapply reach_step; [apply Hincl; exact Hin | exact IH].
Qed.

Lemma reach_last : forall E a b, reach E a b -> exists c, (c = a \/ reach E a c) /\ In (c, b) E.
Proof.
  intros E a b Hab.
  induction Hab as [a b Hin | a d b Hin Hdb IH].
  - exists a. split; [left; reflexivity | exact Hin].
  - destruct IH as [c [Hc Hcb]]. exists c. split; [|exact Hcb].
    right. destruct Hc as [Hc|Hc].
    + subst c. apply reach_edge. exact Hin.
    + eapply reach_step; [exact Hin | exact Hc].
Qed.

Lemma reach_first : forall E a b, reach E a b -> exists c, In (a, c) E /\ (c = b \/ reach E c b).
Proof.
  intros E a b Hab.
  destruct Hab as [a b Hin | a d b Hin Hdb].
  - exists b. split; [exact Hin | left; reflexivity].
  - exists d. split; [exact Hin | right; exact Hdb].
Qed.

(** * The executable closure *)

Lemma union_In : forall b s x, In x (union s b) <-> In x s \/ In x b.
Proof.
  unfold union. induction b as [|h t IH]; intros s x; cbn [fold_left].
  - cbn [In]. tauto.
  - rewrite IH, set_insert_In. cbn [In].
    assert (Hsym : h = x <-> x = h) by (split; intro; congruence). tauto.
Qed.

Definition round (G : list (Z * Z)) (s : list Z) : list Z :=
  union s (flat_map (succs G) s).

Lemma close_S : forall n G s, close (S n) G s = close n G (round G s).
Proof. reflexivity. Qed.

Lemma round_In : forall G s x,
  In x (round G s) <-> In x s \/ exists c, In c s /\ In (c, x) G.
Proof.
  intros G s x. unfold round. rewrite union_In, in_flat_map. split.
  - intros [H|[c [Hc Hx]]]; [left; exact H|].
    right. exists c. split; [exact Hc|]. apply (proj1 (succs_In G c x)). exact Hx.
  - intros [H|[c [Hc Hx]]]; [left; exact H|].
    right. exists c. split; [exact Hc|]. apply (proj2 (succs_In G c x)). exact Hx.
Qed.

Lemma close_incl : forall G n s x, In x s -> In x (close n G s).
Proof.
  intros G n. induction n as [|n IH]; intros s x Hin.
  - exact Hin.
  - rewrite close_S. apply IH. apply round_In. left. exact Hin.
Qed.

Lemma close_sound : forall G n s x,
  In x (close n G s) -> In x s \/ exists c, In c s /\ reach G c x.
Proof.
  intros G n. induction n as [|n IH]; intros s x Hin.
  - left. exact Hin.
  - rewrite close_S in Hin. apply IH in Hin.
    destruct Hin as [Hin | [c [Hc Hcx]]].
    + apply round_In in Hin. destruct Hin as [Hin | [c [Hc Hcx]]].
      * left. exact Hin.
      * right. exists c. split; [exact Hc | apply reach_edge; exact Hcx].
    + apply round_In in Hc. destruct Hc as [Hc | [d [Hd Hdc]]].
      * right. exists c. split; [exact Hc | exact Hcx].
      * right. exists d. split; [exact Hd|].
        eapply reach_step; [exact Hdc | exact Hcx].
Qed.

(** successor-closed sets *)
Definition succ_closed (G : list (Z * Z)) (s : list Z) : Prop :=
  forall x y, In x s -> In (x, y) G -> In y s.

Lemma succ_closed_ext : forall G s s',
  (forall x, In x s' <-> In x s) -> succ_closed G s -> succ_closed G s'.
Proof.
  intros G s s' Heq Hc x y Hx Hxy. apply Heq. eapply Hc; [apply Heq; exact Hx | exact Hxy].
Qed.

Lemma round_closed_eq : forall G s, succ_closed G s -> forall x, In x (round G s) <-> In x s.
Proof.
  intros G s Hc x. rewrite round_In. split.
  - intros [H|[c [Hcs Hcx]]]; [exact H | eapply Hc; [exact Hcs | exact Hcx]].
  - intros H. left. exact H.
Qed.

Lemma close_closed_eq : forall G n s, succ_closed G s -> forall x, In x (close n G s) <-> In x s.
Proof.
  intros G n. induction n as [|n IH]; intros s Hc x.
  - reflexivity.
  - rewrite close_S. rewrite IH.
    + apply round_closed_eq. exact Hc.
    + eapply succ_closed_ext; [apply round_closed_eq; exact Hc | exact Hc].
Qed.

Lemma close_closed : forall G n s, succ_closed G s -> succ_closed G (close n G s).
Proof.
  intros G n s Hc. eapply succ_closed_ext; [apply close_closed_eq; exact Hc | exact Hc].
Qed.

Lemma closed_reach : forall G s, succ_closed G s ->
  forall c b, reach G c b -> In c s -> In b s.
Proof.
  intros G s Hc c b Hr.
  induction Hr as [a b Hin | a d b Hin Hdb IH]; intros Ha.
  - eapply Hc; [exact Ha | exact Hin].
  - apply IH. eapply Hc; [exact Ha | exact Hin].
Qed.

(** ** The measure *)

Lemma filter_len_le : forall (A : Type) (p : A -> bool) l,
  (length (filter p l) <= length l)%nat.
Proof.
  intros A p l. induction l as [|h t IH]; cbn [filter length].
  - lia.
  - destruct (p h); cbn [length]; lia.
Qed.

Lemma filter_len_mono : forall (A : Type) (p q : A -> bool) l,
  (forall x, In x l -> p x = true -> q x = true) ->
  (length (filter p l) <= length (filter q l))%nat.
Proof.
  intros A p q l. induction l as [|h t IH]; intros Hpq; cbn [filter length].
  - lia.
  - assert (IH' : (length (filter p t) <= length (filter q t))%nat).
    { apply IH. intros x Hx. apply Hpq. right. exact Hx. }
    destruct (p h) eqn:Hp.
    + rewrite (Hpq h (or_introl eq_refl) Hp). cbn [length]. lia.
    + destruct (q h); cbn [length]; lia.
Qed.

Lemma filter_len_strict : forall (A : Type) (p q : A -> bool) l,
  (forall x, In x l -> p x = true -> q x = true) ->
  (exists x, In x l /\ q x = true /\ p x = false) ->
  (length (filter p l) < length (filter q l))%nat.
Proof.
  intros A p q l. induction l as [|h t IH]; intros Hpq [x [Hx [Hqx Hpx]]].
  - destruct Hx.
  - assert (Hpq' : forall y, In y t -> p y = true -> q y = true).
    { intros y Hy. apply Hpq. right. exact Hy. }
    cbn [filter]. destruct Hx as [Hx|Hx].
    + subst h. rewrite Hqx, Hpx. cbn [length].
      pose proof (filter_len_mono A p q t Hpq') as Hm. lia.
    + assert (IH' : (length (filter p t) < length (filter q t))%nat).
      { apply IH; [exact Hpq'|]. exists x. split; [exact Hx|]. split; assumption. }
      destruct (p h) eqn:Hp.
      * rewrite (Hpq h (or_introl eq_refl) Hp). cbn [length]. lia.
      * destruct (q h); cbn [length]; lia.
Qed.

Lemma filter_len_all : forall (A : Type) (p : A -> bool) l,
  length (filter p l) = length l -> forall x, In x l -> p x = true.
Proof.
  intros A p l. induction l as [|h t IH]; intros Hlen x Hx.
  - destruct Hx.
  - cbn [filter length] in Hlen. pose proof (filter_len_le A p t) as Hle.
    destruct (p h) eqn:Hp.
    + cbn [length] in Hlen. destruct Hx as [Hx|Hx].
      * subst h. exact Hp.
      * apply IH; [lia | exact Hx].
    + lia.
Qed.

Lemma forallb_false_ex : forall (A : Type) (p : A -> bool) l,
  forallb p l = false -> exists x, In x l /\ p x = false.
Proof.
  intros A p l. induction l as [|h t IH]; intros H.
  - discriminate H.
  - cbn [forallb] in H. destruct (p h) eqn:Hp.
    + cbn [andb] in H. destruct (IH H) as [x [Hx Hpx]].
      exists x. split; [right; exact Hx | exact Hpx].
    + exists h. split; [left; reflexivity | exact Hp].
Qed.

Definition mu (G : list (Z * Z)) (s : list Z) : nat :=
  length (filter (fun x => memz x s) (map snd G)).

Definition stable (G : list (Z * Z)) (s : list Z) : bool :=
  forallb (fun x => memz x s) (flat_map (succs G) s).

Lemma mu_le : forall G s, (mu G s <= length G)%nat.
Proof.
  intros G s. unfold mu.
  pose proof (filter_len_le Z (fun x => memz x s) (map snd G)) as H.
  rewrite map_length in H. exact H.
Qed.

Lemma stable_true : forall G s, stable G s = true -> succ_closed G s.
Proof.
  intros G s Hs x y Hx Hxy. unfold stable in Hs.
  rewrite forallb_forall in Hs. apply memz_In. apply Hs.
  apply in_flat_map. exists x. split; [exact Hx|].
  apply (proj2 (succs_In G x y)). exact Hxy.
Qed.

Lemma stable_false_grows : forall G s, stable G s = false -> (mu G s < mu G (round G s))%nat.
Proof.
  intros G s Hs. unfold stable in Hs.
  apply forallb_false_ex in Hs. destruct Hs as [y [Hy Hny]].
  apply in_flat_map in Hy. destruct Hy as [c [Hc Hcy]].
  apply (proj1 (succs_In G c y)) in Hcy.
  unfold mu. apply filter_len_strict.
  - intros x _ Hx. apply memz_In. apply round_In. left. apply memz_In. exact Hx.
  - exists y. split; [|split].
    + apply in_map_iff. exists (c, y). split; [reflexivity | exact Hcy].
    + apply memz_In. apply round_In. right. exists c. split; [exact Hc | exact Hcy].
    + exact Hny.
Qed.

Lemma close_complete : forall G n s,
  (length G - mu G s <= n)%nat -> succ_closed G (close n G s).
Proof.
  intros G n. induction n as [|n IH]; intros s Hn.
  - cbn [close]. pose proof (mu_le G s) as Hle.
    assert (Heq : length (filter (fun x => memz x s) (map snd G)) = length (map snd G)).
    { rewrite map_length. unfold mu in Hn, Hle. lia. }
    intros x y Hx Hxy. apply memz_In.
    apply (filter_len_all Z (fun z => memz z s) (map snd G) Heq y).
    apply in_map_iff. exists (x, y). split; [reflexivity | exact Hxy].
  - destruct (stable G s) eqn:Hs.
    + apply close_closed. apply stable_true. exact Hs.
    + rewrite close_S. apply IH.
      pose proof (stable_false_grows G s Hs) as Hg. lia.
Qed.

Lemma reach_set_closed : forall G a, succ_closed G (reach_set G a).
Proof.
  intros G a. unfold reach_set. apply close_complete. lia.
Qed.

Lemma reach_set_spec : forall E a b, In b (reach_set E a) <-> reach E a b.
Proof.
  intros E a b. split.
  - intros Hin. unfold reach_set in Hin. apply close_sound in Hin.
    destruct Hin as [Hin | [c [Hc Hcb]]].
    + apply reach_edge. apply (proj1 (succs_In E a b)). exact Hin.
    + eapply reach_step; [apply (proj1 (succs_In E a c)); exact Hc | exact Hcb].
  - intros Hr. apply reach_first in Hr. destruct Hr as [c [Hac Hc]].
    assert (Hcin : In c (reach_set E a)).
    { unfold reach_set. apply close_incl. apply (proj2 (succs_In E a c)). exact Hac. }
    destruct Hc as [Hc|Hc].
    + subst c. exact Hcin.
    + eapply closed_reach; [apply reach_set_closed | exact Hc | exact Hcin].
Qed.

Lemma reachb_spec : forall E a b, reachb E a b = true <-> reach E a b.
Proof.
  intros E a b. unfold reachb. rewrite memz_In. apply reach_set_spec.
Qed.

Lemma has_cycle_spec : forall g, has_cycle g = true <-> exists a, reach (E g) a a.
Proof.
  intros g. unfold has_cycle. rewrite existsb_exists. split.
  - intros [[a c] [Hin H]]. cbn [fst snd] in H.
    apply orb_true_iff in H. destruct H as [H|H].
    + apply Z.eqb_eq in H. subst c. exists a. apply reach_edge. exact Hin.
    + apply reachb_spec in H. exists a. eapply reach_step; [exact Hin | exact H].
  - intros [a Hr]. apply reach_first in Hr. destruct Hr as [c [Hac Hc]].
    exists (a, c). split; [exact Hac|]. cbn [fst snd].
    apply orb_true_iff. destruct Hc as [Hc|Hc].
    + left. subst c. apply Z.eqb_refl.
    + right. apply reachb_spec. exact Hc.
Qed.

Lemma closed_spec : forall g, closed g = true <-> forall a b, In (a, b) (E g) -> In b (V g).
Proof.
  intros g. unfold closed. rewrite forallb_forall. split.
  - intros H a b Hin. apply H in Hin. cbn [snd] in Hin. apply memz_In. exact Hin.
  - intros H [a b] Hin. cbn [snd]. apply memz_In. eapply H. exact Hin.
Qed.
