(** C12 — the optimiser's traversal produces a related program; the property theorems' lemmas. *)
From Coq Require Import ZArith List Bool Arith Lia.
From ErgV Require Import Optimize.Model Optimize.Spec Optimize.ProofsBase Optimize.ProofsPure Optimize.ProofsSim.
From ErgV Require Import gen.OptLevels.
Import ListNotations.
Open Scope Z_scope.

(* ------------------------------------------------------------------------------------------------ *)
(** * unfolding equations of the traversal *)
Section ElimEq.
  Variable impure : expr -> tri.
  Variable refs : ident -> option nat.

  Lemma elim_call : forall ci obj pos var kw kwvar,
    elim impure refs (ECall ci obj pos var kw kwvar) =
    rbind (elim_all impure refs pos) (fun pos' => Ok (ECall ci obj pos' var kw kwvar)).
  Proof. reflexivity. Qed.
  Lemma elim_code : forall b, elim impure refs (ECode b) = rbind (elim_all impure refs b) (fun b' => Ok (ECode b')).
  Proof. reflexivity. Qed.
  Lemma elim_compound : forall b, elim impure refs (ECompound b) = rbind (elim_all impure refs b) (fun b' => Ok (ECompound b')).
  Proof. reflexivity. Qed.
  Lemma elim_lambda : forall bang s ps b,
    elim impure refs (ELambda bang s ps b) = rbind (elim_all impure refs b) (fun b' => Ok (ELambda bang s ps b')).
  Proof. reflexivity. Qed.

  Lemma elim_def : forall s body,
    elim impure refs (EDef s body) =
    if d_glob s || d_disc s || d_pub s then Ok (EDef s body)
    else match refs (d_id s) with
         | None => Panic 1
         | Some n => if (n =? 0)%nat then
                       match impure (EDef s body) with
                       | TFalse => Ok (EDummy []) | TTrue => Ok (EDef s body) | TPanic => Panic 2
                       end
                     else Ok (EDef s body)
         end.
  Proof. reflexivity. Qed.

  Lemma removed_call : forall ci obj pos var kw kwvar,
    removed impure refs (ECall ci obj pos var kw kwvar) = removed_all impure refs pos.
  Proof. reflexivity. Qed.
  Lemma removed_code : forall b, removed impure refs (ECode b) = removed_all impure refs b. Proof. reflexivity. Qed.
  Lemma removed_compound : forall b, removed impure refs (ECompound b) = removed_all impure refs b. Proof. reflexivity. Qed.
  Lemma removed_lambda : forall bang s ps b, removed impure refs (ELambda bang s ps b) = removed_all impure refs b.
  Proof. reflexivity. Qed.

  (** what is removed was judged pure *)
  Lemma removed_pure : forall e x, In x (removed impure refs e) -> impure x = TFalse.
  Proof.
    induction e using expr_ind'; intros x Hx; try (simpl in Hx; contradiction).
    - (* call *) rewrite removed_call in Hx. clear IHe H0 H1 H2.
      induction H as [|y r Hy Hr IH]; simpl in Hx; [contradiction|].
      apply in_app_or in Hx. destruct Hx; auto.
    - (* lambda *) rewrite removed_lambda in Hx.
      induction H as [|y r Hy Hr IH]; simpl in Hx; [contradiction|].
      apply in_app_or in Hx. destruct Hx; auto.
    - (* def *) simpl in Hx.
      destruct (d_glob s || d_disc s || d_pub s); [contradiction|].
      destruct (refs (d_id s)) as [[|n]|]; try contradiction.
      destruct (impure (EDef s body)) eqn:E; try contradiction.
      destruct Hx as [<-|[]]. exact E.
    - (* code *) rewrite removed_code in Hx.
      induction H as [|y r Hy Hr IH]; simpl in Hx; [contradiction|].
      apply in_app_or in Hx. destruct Hx; auto.
    - (* compound *) rewrite removed_compound in Hx.
      induction H as [|y r Hy Hr IH]; simpl in Hx; [contradiction|].
      apply in_app_or in Hx. destruct Hx; auto.
  Qed.

  Lemma removed_all_pure : forall l x, In x (removed_all impure refs l) -> impure x = TFalse.
  Proof.
    induction l as [|y r IH]; simpl; intros x Hx; [contradiction|].
    apply in_app_or in Hx. destruct Hx; auto. eapply removed_pure; eauto.
  Qed.
End ElimEq.

(* ------------------------------------------------------------------------------------------------ *)
(** * the traversal yields a related program *)
Section Rel.
  Variable R : ident -> bool.

  Lemma mentions_list_eqs :
    (forall es, mentions R (EList es) = mentions_all R es) /\ (forall es, mentions R (ETuple es) = mentions_all R es) /\
    (forall es, mentions R (ESet es) = mentions_all R es) /\ (forall es, mentions R (EDict es) = mentions_all R es) /\
    (forall es, mentions R (ERecord es) = mentions_all R es) /\ (forall es, mentions R (ECompound es) = mentions_all R es) /\
    (forall a l, mentions R (EListLen a l) = mentions R a || mentions_all R l) /\
    (forall bang s ps b, mentions R (ELambda bang s ps b) = mentions_all R b) /\
    (forall s b, mentions R (EDef s b) = mentions_all R b).
  Proof. repeat split; reflexivity. Qed.

  Lemma orel_refl_all : forall es,
    Forall (fun e => mentions R e = false -> orel R e e) es -> mentions_all R es = false -> Forall2 (orel R) es es.
  Proof.
    induction 1 as [|e r He Hr IH]; simpl; intros Hm; constructor.
    - apply orb_false_iff in Hm. destruct Hm. auto.
    - apply orb_false_iff in Hm. destruct Hm. auto.
  Qed.

  Lemma orel_refl : forall e, mentions R e = false -> orel R e e.
  Proof.
    destruct mentions_list_eqs as (ML & MT & MS & MD & MR & MC & MLL & MLam & MDef).
    induction e using expr_ind'; intros Hm.
    - constructor.
    - constructor. exact Hm.
    - constructor. auto.
    - rewrite mentions_call in Hm.
      repeat (apply orb_false_iff in Hm; let X := fresh "M" in destruct Hm as [Hm X]).
      constructor; auto using orel_refl_all.
    - simpl in Hm. apply orb_false_iff in Hm. destruct Hm. constructor; auto.
    - constructor. auto.
    - rewrite ML in Hm. constructor. apply orel_refl_all; auto.
    - rewrite MLL in Hm. apply orb_false_iff in Hm. destruct Hm. constructor; auto using orel_refl_all.
    - constructor.
    - rewrite MT in Hm. constructor. apply orel_refl_all; auto.
    - rewrite MS in Hm. constructor. apply orel_refl_all; auto.
    - simpl in Hm. apply orb_false_iff in Hm. destruct Hm. constructor; auto.
    - rewrite MD in Hm. constructor. apply orel_refl_all; auto.
    - constructor.
    - rewrite MR in Hm. constructor. apply orel_refl_all; auto.
    - rewrite MLam in Hm. constructor. apply orel_refl_all; auto.
    - rewrite MDef in Hm. constructor. apply orel_refl_all; auto.
    - constructor. auto.
    - constructor.
    - rewrite MC in Hm. constructor. apply orel_refl_all; auto.
    - constructor.
    - constructor.
  Qed.

  Variable impure : expr -> tri.
  Variable refs : ident -> option nat.

  Definition elim_ok (e : expr) : Prop :=
    forall e', elim impure refs e = Ok e' -> Forall (silentR R) (removed impure refs e) -> mentions R e' = false -> orel R e e'.

  Lemma elim_all_orel : forall es, Forall elim_ok es -> forall es',
    elim_all impure refs es = Ok es' -> Forall (silentR R) (removed_all impure refs es) -> mentions_all R es' = false ->
    Forall2 (orel R) es es'.
  Proof.
    induction 1 as [|e r He Hr IH]; simpl; intros es' H Hs Hm.
    - inversion H; subst. constructor.
    - destruct (elim impure refs e) as [x|] eqn:E1; simpl in H; [|discriminate].
      destruct (elim_all impure refs r) as [xs|] eqn:E2; simpl in H; [|discriminate].
      inversion H; subst. simpl in Hm. apply orb_false_iff in Hm. destruct Hm as [M1 M2].
      apply Forall_app in Hs. destruct Hs as [S1 S2].
      constructor; auto.
  Qed.

  Lemma elim_orel : forall e, elim_ok e.
  Proof.
    destruct mentions_list_eqs as (ML & MT & MS & MD & MR & MC & MLL & MLam & MDef).
    induction e using expr_ind'; intros e' H' Hs Hm;
      try (simpl in H'; inversion H'; subst; apply orel_refl; exact Hm).
    - (* call *) rewrite elim_call in H'. rewrite removed_call in Hs.
      destruct (elim_all impure refs pos) as [pos'|] eqn:E; simpl in H'; [|discriminate].
      inversion H'; subst. rewrite mentions_call in Hm.
      repeat (apply orb_false_iff in Hm; let X := fresh "M" in destruct Hm as [Hm X]).
      constructor.
      + apply orel_refl; auto.
      + eapply elim_all_orel; eauto.
      + apply orel_refl_all; auto. eapply Forall_impl; [|exact H0]. intros a _. apply orel_refl.
      + apply orel_refl_all; auto. eapply Forall_impl; [|exact H1]. intros a _. apply orel_refl.
      + apply orel_refl_all; auto. eapply Forall_impl; [|exact H2]. intros a _. apply orel_refl.
    - (* lambda *) rewrite elim_lambda in H'. rewrite removed_lambda in Hs.
      destruct (elim_all impure refs body) as [b'|] eqn:E; simpl in H'; [|discriminate].
      inversion H'; subst. rewrite MLam in Hm. constructor. eapply elim_all_orel; eauto.
    - (* def *) simpl in H', Hs.
      destruct (d_glob s || d_disc s || d_pub s); [inversion H'; subst; apply orel_refl; exact Hm|].
      destruct (refs (d_id s)) as [[|n]|]; simpl in H'; try discriminate.
      + destruct (impure (EDef s body)); try discriminate.
        * inversion H'; subst. constructor. inversion Hs; subst. assumption.
        * inversion H'; subst. apply orel_refl; exact Hm.
      + inversion H'; subst. apply orel_refl; exact Hm.
    - (* code *) rewrite elim_code in H'.
      destruct (elim_all impure refs es) as [b'|] eqn:E; simpl in H'; [|discriminate].
      inversion H'; subst. constructor.
    - (* compound *) rewrite elim_compound in H'. rewrite removed_compound in Hs.
      destruct (elim_all impure refs es) as [b'|] eqn:E; simpl in H'; [|discriminate].
      inversion H'; subst. rewrite MC in Hm. constructor. eapply elim_all_orel; eauto.
  Qed.

  Lemma elim_program_orel : forall p p',
    elim_all impure refs p = Ok p' -> Forall (silentR R) (removed_all impure refs p) -> mentions_all R p' = false ->
    Forall2 (orel R) p p'.
  Proof.
    intros p p'. apply elim_all_orel. apply Forall_forall. intros e _. apply elim_orel.
  Qed.
End Rel.

(* ------------------------------------------------------------------------------------------------ *)
(** * opt_preserves *)
Lemma binds_in_all : forall l e, In e l -> incl (binds e) (binds_all l).
Proof.
  induction l as [|x r IH]; simpl; intros e H; [contradiction|].
  destruct H as [->|H]; [apply incl_appl, incl_refl|apply incl_appr; auto].
Qed.

Section Preserve.
  Variable impure : expr -> tri.

  Lemma opt_preserves_gen : forall refs p p',
    eliminate_unused_variables impure refs p = Ok p' ->
    (forall e, In e (removed_all impure refs p) -> silent e) ->
    mentions_all (inb (binds_all (removed_all impure refs p))) p' = false ->
    forall fuel b, behaviour fuel p = b -> observable b -> behaviour fuel p' = b.
  Proof.
    intros refs p p' He Hs Hm fuel b Hb Ho.
    set (R := inb (binds_all (removed_all impure refs p))) in *.
    apply (behaviour_sim R p p' fuel b); auto.
    apply (elim_program_orel R impure refs); auto.
    apply Forall_forall. intros e Hin fuel0 st st' r H.
    destruct (Hs e Hin fuel0 st st' r H) as [A N]. split; auto.
    eapply agree_mono; [|exact A]. intros i Hi. unfold R. eapply inb_incl; [|exact Hi].
    apply binds_in_all; auto.
  Qed.
End Preserve.

Lemma opt_preserves_lemma : forall refs p p',
  eliminate refs p = Ok p' ->
  (forall e, In e (removed_defs refs p) -> silent e) ->
  oracle_sound refs p p' ->
  forall fuel b, behaviour fuel p = b -> observable b -> behaviour fuel p' = b.
Proof. intros refs p p'. apply opt_preserves_gen. Qed.

Lemma opt_preserves_known_lemma : forall refs p p',
  eliminate refs p = Ok p' ->
  oracle_sound refs p p' ->
  (forall e, In e (removed_defs refs p) -> Known_C12 e = false) ->
  forall fuel b, behaviour fuel p = b -> observable b -> behaviour fuel p' = b.
Proof.
  intros refs p p' He Ho Hk. apply (opt_preserves_lemma refs p p'); auto.
  intros e Hin. apply purity_sound_lemma; auto.
  apply (removed_all_pure is_impure refs p). exact Hin.
Qed.

(* ------------------------------------------------------------------------------------------------ *)
(** * optimisation levels (table generated from optimize.rs) *)
Lemma levels_same_pass_lemma : forall n, In n [1; 2; 3] -> passes_of opt_level_passes n = Some [1; 2].
Proof. intros n [<-|[<-|[<-|[]]]]; reflexivity. Qed.

Lemma level0_no_pass_lemma : passes_of opt_level_passes 0 = Some [].
Proof. reflexivity. Qed.

Lemma arms_as_modelled_lemma : is_impure_arms = modelled_is_impure_arms /\ elim_arms = modelled_elim_arms.
Proof. split; reflexivity. Qed.

Lemma optimize_level0 : forall refs p, optimize refs 0 p = Ok p.
Proof. intros. unfold optimize, optimize_with. rewrite level0_no_pass_lemma. reflexivity. Qed.

Lemma optimize_level123 : forall refs n p, In n [1; 2; 3] -> optimize refs n p = eliminate refs p.
Proof.
  intros refs n p Hn. unfold optimize, optimize_with. rewrite (levels_same_pass_lemma n Hn).
  simpl. unfold run_pass. simpl. unfold eliminate. destruct (eliminate_unused_variables is_impure refs p); reflexivity.
Qed.

Lemma all_levels_preserve_lemma : forall refs level p p',
  In level [0; 1; 2; 3] ->
  optimize refs level p = Ok p' ->
  oracle_sound refs p (match eliminate refs p with Ok q => q | Panic _ => p end) ->
  (forall e, In e (removed_defs refs p) -> Known_C12 e = false) ->
  forall fuel b, behaviour fuel p = b -> observable b -> behaviour fuel p' = b.
Proof.
  intros refs level p p' Hl Hopt Ho Hk fuel b Hb Hobs.
  destruct Hl as [<-|Hl].
  - rewrite optimize_level0 in Hopt. inversion Hopt; subst. reflexivity.
  - rewrite (optimize_level123 refs level p Hl) in Hopt. rewrite Hopt in Ho.
    eapply opt_preserves_known_lemma; eauto.
Qed.

